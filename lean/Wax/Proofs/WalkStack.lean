import Wax.Proofs.GlobBounded
import Wax.Proofs.NotProgramWalk
/-!
C02 + C03 + C13 + C16 together: **the whole walk pipeline, end to end**.

A glob walk (or a path walk) followed by an ARBITRARY stack of `not` / `filter_entry` layers, any
depth bounds, any root view (both link behaviours): the entries the consumer receives are exactly —
same entries, same order — the entries `e` of the *unpruned* structural traversal such that

  (o)   the depth of `e` lies within the bounds handed to walkdir,
  (i)   the complete program of the glob matches `e` (glob walks),
  (ii)  no negation of the stack matches `e`,
  (iii) every `filter_entry` function keeps `e`,
  (iv)  `e` is not beneath a directory that some `filter_entry` function discards as a tree.

Part 1 is the machine and the algebra alone (`stack_filtrate_exact`, arbitrary verdict functions,
no hypothesis).  Part 2 restates the model's `Pipeline` with `filter_entry` layers that carry ANY
function of the entry (`SWalk`; `specPipeline_filtrate` ties it to `Pipeline`).  Part 3 is the
composed theorem `walk_stack_exact_partial` and its corollaries; Part 4 shows on small witnesses
that each hypothesis is needed.
-/
set_option linter.unusedSimpArgs false

namespace Wax.Walk
open Wax Wax.Path
open Wax.WalkTree (relOf PathOk hasBad hasBad_append pathOk_append)

/-! ## Part 1: the machine and the algebra, arbitrary verdict functions -/

/-! ### the algebra: the outcome of a stack of state-free verdicts -/

theorem feed_filtrate_iff_aux : ∀ (vs : List Verdict) (s : Sepn),
    (feed applyVerdict s vs).1 = .filtrate ↔ s = .filtrate ∧ ∀ v ∈ vs, v = .keep
  | [], s => by simp [feed]
  | v :: vs, s => by
    simp only [feed]
    rw [feed_filtrate_iff_aux vs]
    cases s <;> cases v <;> simp [applyVerdict]

theorem feed_tree_iff_aux : ∀ (vs : List Verdict) (s : Sepn),
    (feed applyVerdict s vs).1 = .tree ↔ s = .tree ∨ ∃ v ∈ vs, v = .tree
  | [], s => by simp [feed]
  | v :: vs, s => by
    simp only [feed]
    rw [feed_tree_iff_aux vs]
    cases s <;> cases v <;> simp [applyVerdict]

/-- an entry is still a filtrate after the stack iff every verdict is `keep` -/
theorem feed_filtrate_iff (vs : List Verdict) :
    (feed applyVerdict .filtrate vs).1 = .filtrate ↔ ∀ v ∈ vs, v = .keep := by
  rw [feed_filtrate_iff_aux]; simp

/-- ... and tree residue iff some verdict is `tree` -/
theorem feed_tree_iff (vs : List Verdict) :
    (feed applyVerdict .filtrate vs).1 = .tree ↔ ∃ v ∈ vs, v = .tree := by
  rw [feed_tree_iff_aux]; simp

/-- a stack of verdict functions of the entry alone, innermost first -/
abbrev VStack := List (Entry → Verdict)

def stackDecide (Ls : VStack) (e : Entry) : Sepn × Nat :=
  feed applyVerdict .filtrate (Ls.map (fun L => L e))

/-- the walk is cancelled at `e` -/
def stackCancels (Ls : VStack) (e : Entry) : Bool := (stackDecide Ls e).2 != 0

/-- every function of the stack keeps `e` -/
def stackKeeps (Ls : VStack) (e : Entry) : Bool := Ls.all (fun L => L e == .keep)

/-- some function of the stack discards `e` as a tree -/
def stackTree (Ls : VStack) (e : Entry) : Bool := Ls.any (fun L => L e == .tree)

theorem stackDecide_filtrate (Ls : VStack) (e : Entry) :
    decide ((stackDecide Ls e).1 = .filtrate) = stackKeeps Ls e := by
  rw [Bool.eq_iff_iff, decide_eq_true_eq, stackDecide, feed_filtrate_iff]
  simp [stackKeeps]

theorem stackCancels_eq (Ls : VStack) : stackCancels Ls = stackTree Ls := by
  funext e
  have h1 := cancel_at_most_once .filtrate (Ls.map (fun L => L e))
  have h2 := cancel_iff_becomes_tree .filtrate (Ls.map (fun L => L e)) (by decide)
  rw [feed_tree_iff] at h2
  rw [Bool.eq_iff_iff]
  simp only [stackCancels, stackDecide, stackTree, bne_iff_ne, ne_eq, List.any_eq_true, beq_iff_eq]
  constructor
  · intro h
    obtain ⟨v, hv, hvt⟩ := h2.mp (by omega)
    obtain ⟨L, hL, rfl⟩ := List.mem_map.mp hv
    exact ⟨L, hL, hvt⟩
  · rintro ⟨L, hL, hLt⟩
    have := h2.mpr ⟨L e, List.mem_map.mpr ⟨L, hL, rfl⟩, hLt⟩
    omega

/-! ### pruning is filtering by "not beneath a discarded directory" -/

/-- `e` lies beneath a directory — a proper prefix of its names; the root of the walk only if
    walkdir reports it as a directory (`rd`) — on which `w` holds -/
def cutAbove (w : Entry → Bool) (rd : Bool) (e : Entry) : Bool :=
  (List.range e.names.length).any (fun k => (k != 0 || rd) && w ⟨e.names.take k, .d⟩)

/-- the root of the walk is reported as a directory (so that `cancel_walk_tree` acts on it) -/
def RootView.isDirRoot : RootView → Bool
  | .dir _ => true
  | _ => false

/-- no directory from the root down to `path` (inclusive) satisfies `w` -/
def Clear (w : Entry → Bool) (rd : Bool) (path : List Str) : Prop :=
  ∀ k, k ≤ path.length → (k != 0 || rd) = true → w ⟨path.take k, .d⟩ = false

theorem cutAbove_of_prefix (w : Entry → Bool) (rd : Bool) (p : List Str) (nm : Str) (rest : List Str)
    (k : Kind) (hg : (p.length != 0 || rd) = true) (hw : w ⟨p, .d⟩ = true) :
    cutAbove w rd ⟨p ++ nm :: rest, k⟩ = true := by
  simp only [cutAbove, List.any_eq_true, List.mem_range, Bool.and_eq_true]
  refine ⟨p.length, by simp, hg, ?_⟩
  simpa using hw

theorem cutAbove_child (w : Entry → Bool) (rd : Bool) (path : List Str) (nm : Str) (k : Kind)
    (hc : Clear w rd path) : cutAbove w rd ⟨path ++ [nm], k⟩ = false := by
  rw [Bool.eq_false_iff]
  intro h
  simp only [cutAbove, List.any_eq_true, List.mem_range, Bool.and_eq_true, List.length_append,
    List.length_singleton] at h
  obtain ⟨j, hj, hg, hw⟩ := h
  have hle : j ≤ path.length := by omega
  rw [List.take_append_of_le_length hle] at hw
  rw [hc j hle hg] at hw
  cases hw

theorem Clear.snoc {w : Entry → Bool} {rd : Bool} {path : List Str} (hc : Clear w rd path) (nm : Str)
    (hw : w ⟨path ++ [nm], .d⟩ = false) : Clear w rd (path ++ [nm]) := by
  intro j hj hg
  by_cases hle : j ≤ path.length
  · rw [List.take_append_of_le_length hle]; exact hc j hle hg
  · have : j = (path ++ [nm]).length := by simp at hj ⊢; omega
    rw [this, List.take_length]; exact hw

mutual
  theorem visitB_cut (w : Entry → Bool) (rd : Bool) : ∀ (n : WNode) (path : List Str),
      Clear w rd path →
      okEntries (visitB 0 none w path n) =
        (okEntries (visitB 0 none never path n)).filter (fun e => !cutAbove w rd e)
    | .leaf nm kd, path, hc => by
      simp only [visitB_leaf0, okEntries_ok, okEntries_nil, List.filter_cons,
        cutAbove_child w rd path nm kd.kind hc, Bool.not_false, if_true, List.filter_nil]
    | .errChild nm a, path, _ => by simp [visitB, okEntries_err, okEntries_nil]
    | .errHere, path, _ => by simp [visitB, okEntries_err, okEntries_nil]
    | .dir nm cs, path, hc => by
      rw [visitB_dir0, visitB_dir0, okEntries_ok, okEntries_ok, List.filter_cons,
        cutAbove_child w rd path nm .d hc]
      have hn : never ⟨path ++ [nm], .d⟩ = false := rfl
      simp only [hn, Bool.false_eq_true, if_false, Bool.not_false, if_true]
      congr 1
      by_cases hw : w ⟨path ++ [nm], .d⟩ = true
      · simp only [hw, if_true, okEntries_nil]
        symm
        rw [List.filter_eq_nil_iff]
        intro e he
        obtain ⟨_, _, nm', rest, _, hnames⟩ := visitListB_names 0 none never cs (path ++ [nm]) e he
        have : cutAbove w rd ⟨(path ++ [nm]) ++ nm' :: rest, e.kind⟩ = true :=
          cutAbove_of_prefix w rd (path ++ [nm]) nm' rest e.kind (by simp) hw
        have he' : e = ⟨(path ++ [nm]) ++ nm' :: rest, e.kind⟩ := by
          cases e; simp only at hnames; subst hnames; rfl
        rw [he', this]; simp
      · have hw' : w ⟨path ++ [nm], .d⟩ = false := by simpa using hw
        simp only [hw', Bool.false_eq_true, if_false]
        exact visitListB_cut w rd cs (path ++ [nm]) (hc.snoc nm hw')
  theorem visitListB_cut (w : Entry → Bool) (rd : Bool) : ∀ (ns : List WNode) (path : List Str),
      Clear w rd path →
      okEntries (visitListB 0 none w path ns) =
        (okEntries (visitListB 0 none never path ns)).filter (fun e => !cutAbove w rd e)
    | [], _, _ => rfl
    | n :: ns, path, hc => by
      simp only [visitListB, okEntries_append, List.filter_append, visitB_cut w rd n path hc,
        visitListB_cut w rd ns path hc]
end

/-- **pruning is filtering**: the Ok entries of the unbounded walk driven by the verdict `w` are
    the Ok entries of the walk that never discards which do not lie beneath a directory on which
    `w` holds — same order -/
theorem walk_cut_eq_filter (w : Entry → Bool) (rv : RootView) :
    okEntries (walkItems 0 none w rv) =
      (okEntries (walkItems 0 none never rv)).filter (fun e => !cutAbove w rv.isDirRoot e) := by
  rw [walkItems_eq_spec, walkItems_eq_spec]
  have below : ∀ (cs : List WNode) (rd : Bool), (rd = true → w ⟨[], .d⟩ = true) → rd = true →
      (okEntries (visitListB 0 none never [] cs)).filter (fun e => !cutAbove w rd e) = [] := by
    intro cs rd hw hrd
    rw [List.filter_eq_nil_iff]
    intro e he
    obtain ⟨_, _, nm', rest, _, hnames⟩ := visitListB_names 0 none never cs [] e he
    have : cutAbove w rd ⟨[] ++ nm' :: rest, e.kind⟩ = true :=
      cutAbove_of_prefix w rd [] nm' rest e.kind (by simp [hrd]) (hw hrd)
    have he' : e = ⟨[] ++ nm' :: rest, e.kind⟩ := by
      cases e; simp only at hnames; subst hnames; rfl
    rw [he', this]; simp
  have root0 : ∀ (k : Kind) (rd : Bool), cutAbove w rd ⟨[], k⟩ = false := by
    intro k rd; simp [cutAbove]
  cases rv with
  | err a => rfl
  | leaf k =>
    simp only [walkSpec, Nat.lt_irrefl, if_false, okEntries_ok, okEntries_nil, List.filter_cons,
      root0, Bool.not_false, if_true, List.filter_nil]
  | dir cs =>
    have hn : never ⟨[], .d⟩ = false := rfl
    simp only [walkSpec, Nat.lt_irrefl, if_false, over, Bool.false_eq_true, okEntries_ok,
      List.filter_cons, root0, Bool.not_false, if_true, hn, RootView.isDirRoot]
    congr 1
    by_cases hw : w ⟨[], .d⟩ = true
    · simp only [hw, if_true, okEntries_nil]
      exact (below cs true (fun _ => hw) rfl).symm
    · have hw' : w ⟨[], .d⟩ = false := by simpa using hw
      simp only [hw', Bool.false_eq_true, if_false]
      refine visitListB_cut w true cs [] ?_
      intro j hj _
      have : j = 0 := by simpa using hj
      subst this; simpa using hw'
  | link cs =>
    simp only [walkSpec, Nat.lt_irrefl, if_false, over, Bool.false_eq_true, okEntries_ok,
      List.filter_cons, root0, Bool.not_false, if_true, RootView.isDirRoot]
    congr 1
    refine visitListB_cut w false cs [] ?_
    intro j hj hg
    have : j = 0 := by simpa using hj
    subst this; simp at hg

/-- the same with depth bounds: the verdict is silent on the entries `min_depth` hides, and the
    entries outside the bounds are not reported -/
theorem walk_cut_eq_filter_bounded (mn : Nat) (mx : Option Nat) (w : Entry → Bool) (rv : RootView) :
    okEntries (walkItems mn mx w rv) =
      (okEntries (walkItems 0 none never rv)).filter
        (fun e => Walk.within mn mx e.depth && !cutAbove (silenced mn w) rv.isDirRoot e) := by
  rw [okEntries_bounded, walk_cut_eq_filter, List.filter_filter]

/-- **the machine and the algebra (no hypothesis)**: a walk with any depth bounds over any tree,
    driven by any stack of verdict functions `Ls` (each returning keep / discard-as-file /
    discard-as-tree): the entries left as filtrate are exactly, in order, the entries of the
    unpruned, unbounded traversal that lie within the bounds, that every function keeps, and that
    are not beneath a directory (reported, i.e. at depth `≥ min_depth`) that some function
    discards as a tree -/
theorem stack_filtrate_exact (Ls : VStack) (mn : Nat) (mx : Option Nat) (rv : RootView) :
    (okEntries (walkItems mn mx (stackCancels Ls) rv)).filter
        (fun e => decide ((stackDecide Ls e).1 = .filtrate)) =
      (okEntries (walkItems 0 none never rv)).filter (fun e =>
        Walk.within mn mx e.depth && stackKeeps Ls e &&
          !cutAbove (silenced mn (stackTree Ls)) rv.isDirRoot e) := by
  rw [walk_cut_eq_filter_bounded, List.filter_filter, stackCancels_eq]
  apply List.filter_congr
  intro e _
  rw [stackDecide_filtrate]
  cases Walk.within mn mx e.depth <;> cases stackKeeps Ls e <;> simp


/-! ## Part 2: the model's pipeline with `filter_entry` layers carrying any function

`Pipeline` of `Wax/Walk.lean` has the `filter_entry` function of the harness (rules by file name).
`SWalk` is the same pipeline — same glob closure, same `Not` combinator, same `feedDep`, same
machine — with `filter_entry(f)` for an ARBITRARY `f : Entry → Verdict` (the function sees the
entry: its path `joinAll root names`, its file type, its depth).  `specPipeline_stack` ties the
two: on the harness functions they are the same stack. -/

inductive SLayer where
  /-- `.not(t)`: the program is `notProgram t` -/
  | not (t : Tok)
  /-- `.filter_entry(f)` -/
  | filter (f : Entry → Verdict)

structure SWalk where
  σ : Sem
  root : Str
  glob : Option GlobProgram
  layers : List SLayer

def SWalk.pivot (W : SWalk) : Nat := match W.glob with | some g => g.pivot | none => 0

def SWalk.path (W : SWalk) (e : Entry) : Str := joinAll W.root e.names

/-- as `Pipeline.relativeFor`: residue has lost the pivot -/
def SWalk.relativeFor (W : SWalk) (e : Entry) (s : Sepn) : Str × Str :=
  splitAtDepth (W.path e) (e.depth + (if s = .filtrate then W.pivot else 0))

def SLayer.verdict (W : SWalk) (e : Entry) (s : Sepn) : SLayer → Verdict
  | .not t => (notProgram t).residue W.σ (W.relativeFor e s).2
  | .filter f => f e

def SWalk.stack (W : SWalk) (e : Entry) : List (Sepn → Verdict) :=
  (match W.glob with
    | some g => [fun _ => (globVerdict W.σ g (W.path e) e.depth).1]
    | none => []) ++ W.layers.map (fun l s => l.verdict W e s)

def SWalk.decide (W : SWalk) (e : Entry) : Sepn × Nat := feedDep (W.stack e) .filtrate

def SWalk.cancels (W : SWalk) (e : Entry) : Bool := (W.decide e).2 != 0

/-- every item the machine produces -/
def SWalk.items (W : SWalk) (mn : Nat) (mx : Option Nat) (rv : RootView) : List Item :=
  walkItems mn mx W.cancels rv

/-- the Ok entries handed to the consumer: those the whole stack leaves as filtrate, in order -/
def SWalk.filtrate (W : SWalk) (mn : Nat) (mx : Option Nat) (rv : RootView) : List Entry :=
  (okEntries (W.items mn mx rv)).filter (fun e => Decidable.decide ((W.decide e).1 = .filtrate))

def SWalk.withLayers (W : SWalk) (ls : List SLayer) : SWalk := { W with layers := ls }

/-! ### the tie to `Pipeline` -/

/-- a layer as the harness specifies it -/
inductive LayerSpec where
  | not (t : Tok)
  | rules (rs : List (Str × Bool))

def LayerSpec.layer : LayerSpec → Layer
  | .not t => .not (notProgram t)
  | .rules rs => .filter rs

def LayerSpec.slayer (root : Str) : LayerSpec → SLayer
  | .not t => .not t
  | .rules rs => .filter (fun e => ruleVerdict (fileName (joinAll root e.names)) rs)

def specPipeline (σ : Sem) (root : Str) (glob : Option GlobProgram) (specs : List LayerSpec) :
    Pipeline := ⟨σ, root, glob, specs.map LayerSpec.layer⟩

def specSWalk (σ : Sem) (root : Str) (glob : Option GlobProgram) (specs : List LayerSpec) :
    SWalk := ⟨σ, root, glob, specs.map (LayerSpec.slayer root)⟩

theorem specPipeline_stack (σ : Sem) (root : Str) (glob : Option GlobProgram)
    (specs : List LayerSpec) (e : Entry) :
    (specPipeline σ root glob specs).stack e = (specSWalk σ root glob specs).stack e := by
  unfold Pipeline.stack SWalk.stack
  congr 1
  simp only [specPipeline, specSWalk, List.map_map]
  apply List.map_congr_left
  intro sp _
  cases sp <;> rfl

theorem specPipeline_decide (σ : Sem) (root : Str) (glob : Option GlobProgram)
    (specs : List LayerSpec) (e : Entry) :
    (specPipeline σ root glob specs).decide e = (specSWalk σ root glob specs).decide e := by
  unfold Pipeline.decide SWalk.decide
  rw [specPipeline_stack]

theorem specPipeline_cancels (σ : Sem) (root : Str) (glob : Option GlobProgram)
    (specs : List LayerSpec) :
    (specPipeline σ root glob specs).cancels = (specSWalk σ root glob specs).cancels := by
  funext e
  unfold Pipeline.cancels SWalk.cancels
  rw [specPipeline_decide]

/-- **the tie**: the model's pipeline with the harness layers is the `SWalk` with the same layers:
    the machine yields the same items and the consumer receives the same entries -/
theorem specPipeline_filtrate (σ : Sem) (root : Str) (glob : Option GlobProgram)
    (specs : List LayerSpec) (mn : Nat) (mx : Option Nat) (rv : RootView) :
    let π := specPipeline σ root glob specs
    π.items mn mx rv = (specSWalk σ root glob specs).items mn mx rv ∧
    okEntries (π.yielded mn mx rv) = (specSWalk σ root glob specs).filtrate mn mx rv := by
  intro π
  have hi : π.items mn mx rv = (specSWalk σ root glob specs).items mn mx rv := by
    unfold Pipeline.items SWalk.items
    rw [specPipeline_cancels]
  refine ⟨hi, ?_⟩
  rw [okEntries_yielded]
  unfold Pipeline.filtrateEntries SWalk.filtrate
  rw [hi]
  apply List.filter_congr
  intro e _
  rw [specPipeline_decide]

/-! ### the proviso: verdicts that do not depend on the state (as `Pipeline.stateFreeB`) -/

def SLayer.isFilter : SLayer → Bool
  | .filter _ => true
  | .not _ => false

/-- no pivot (a path walk, or a glob without invariant prefix), or `filter_entry` layers only -/
def SWalk.stateFreeB (W : SWalk) : Bool := W.pivot == 0 || W.layers.all SLayer.isFilter

theorem SLayer.verdict_stateFree (W : SWalk) (h : W.stateFreeB = true) (l : SLayer) (hl : l ∈ W.layers)
    (e : Entry) (s s' : Sepn) : l.verdict W e s = l.verdict W e s' := by
  cases l with
  | filter f => rfl
  | not t =>
    simp only [SWalk.stateFreeB, Bool.or_eq_true, beq_iff_eq, List.all_eq_true] at h
    cases h with
    | inl h0 => simp only [SLayer.verdict, SWalk.relativeFor, h0, ite_self]
    | inr hall => exact absurd (hall _ hl) (by simp [SLayer.isFilter])

/-- the verdict functions of the walk on filtrates, innermost first -/
def SWalk.fns (W : SWalk) : VStack :=
  (match W.glob with
    | some g => [fun e => (globVerdict W.σ g (W.path e) e.depth).1]
    | none => []) ++ W.layers.map (fun l e => l.verdict W e .filtrate)

theorem SWalk.decide_eq (W : SWalk) (h : W.stateFreeB = true) (e : Entry) :
    W.decide e = stackDecide W.fns e := by
  unfold SWalk.decide stackDecide
  rw [feedDep_eq_feed, verdictsOf_const]
  · congr 1
    unfold SWalk.stack SWalk.fns
    cases W.glob <;> simp [List.map_map, Function.comp_def]
  · intro f hf s s'
    unfold SWalk.stack at hf
    rw [List.mem_append] at hf
    cases hf with
    | inl hg =>
      cases hgl : W.glob with
      | none => rw [hgl] at hg; cases hg
      | some g =>
        rw [hgl] at hg
        simp only [List.mem_singleton] at hg
        subst hg; rfl
    | inr hl =>
      obtain ⟨l, hl', rfl⟩ := List.mem_map.mp hl
      exact SLayer.verdict_stateFree W h l hl' e s s'

theorem SWalk.cancels_eq (W : SWalk) (h : W.stateFreeB = true) : W.cancels = stackCancels W.fns := by
  funext e
  unfold SWalk.cancels stackCancels
  rw [W.decide_eq h]

/-- **the walk as coded, under the proviso alone**: the filtrate is the part of the unpruned,
    unbounded traversal within the bounds that every function of the stack (glob closure included)
    keeps and that is not beneath a reported directory some function discards as a tree -/
theorem SWalk.filtrate_coded (W : SWalk) (h : W.stateFreeB = true) (mn : Nat) (mx : Option Nat)
    (rv : RootView) :
    W.filtrate mn mx rv =
      (okEntries (walkItems 0 none never rv)).filter (fun e =>
        Walk.within mn mx e.depth && stackKeeps W.fns e &&
          !cutAbove (silenced mn (stackTree W.fns)) rv.isDirRoot e) := by
  unfold SWalk.filtrate SWalk.items
  rw [W.cancels_eq h, ← stack_filtrate_exact]
  apply List.filter_congr
  intro e _
  rw [W.decide_eq h]


/-! ## Part 3: the composed theorem -/

/-! ### every ancestor of an entry of the tree lies on a path of the tree -/

theorem allPre_snoc (G : List Str → Bool) (p : List Str) (nm : Str) (hp : ∀ k, G (p.take k) = true)
    (h : G (p ++ [nm]) = true) : ∀ k, G ((p ++ [nm]).take k) = true := by
  intro k
  by_cases hle : k ≤ p.length
  · rw [List.take_append_of_le_length hle]; exact hp k
  · rw [List.take_of_length_le (by simp; omega)]; exact h

mutual
  theorem visitB_ok_prefixes (G : List Str → Bool) (mn : Nat) (mx : Option Nat) (w : Entry → Bool) :
      ∀ (n : WNode) (p : List Str), allPathsB G p n.toWT = true → (∀ k, G (p.take k) = true) →
        ∀ e, Item.ok e ∈ visitB mn mx w p n → ∀ k, G (e.names.take k) = true
    | .leaf nm kd, p, hG, hp, e, he => by
      simp only [WNode.toWT, allPathsB] at hG
      simp only [visitB] at he
      split at he
      · cases he
      · simp only [List.mem_singleton, Item.ok.injEq] at he
        subst he; exact allPre_snoc G p nm hp hG
    | .errChild nm a, p, _, _, e, he => by simp [visitB] at he
    | .errHere, p, _, _, e, he => by simp [visitB] at he
    | .dir nm cs, p, hG, hp, e, he => by
      simp only [WNode.toWT, allPathsB, Bool.and_eq_true] at hG
      have hp' := allPre_snoc G p nm hp hG.1
      simp only [visitB] at he
      split at he
      · split at he
        · cases he
        · exact visitListB_ok_prefixes G mn mx w cs _ hG.2 hp' e he
      · rcases List.mem_cons.mp he with h | h
        · simp only [Item.ok.injEq] at h
          subst h; exact hp'
        · split at h
          · cases h
          · split at h
            · cases h
            · exact visitListB_ok_prefixes G mn mx w cs _ hG.2 hp' e h
  theorem visitListB_ok_prefixes (G : List Str → Bool) (mn : Nat) (mx : Option Nat) (w : Entry → Bool) :
      ∀ (ns : List WNode) (p : List Str), allPathsLB G p (toWTList ns) = true →
        (∀ k, G (p.take k) = true) →
        ∀ e, Item.ok e ∈ visitListB mn mx w p ns → ∀ k, G (e.names.take k) = true
    | [], _, _, _, e, he => by simp [visitListB] at he
    | n :: ns, p, hG, hp, e, he => by
      simp only [toWTList, allPathsLB, Bool.and_eq_true] at hG
      simp only [visitListB, List.mem_append] at he
      rcases he with he | he
      · exact visitB_ok_prefixes G mn mx w n p hG.1 hp e he
      · exact visitListB_ok_prefixes G mn mx w ns p hG.2 hp e he
end

/-- every entry a walk yields, and every directory above it, lies on a path of the tree -/
theorem walk_ok_prefixes (G : List Str → Bool) (mn : Nat) (mx : Option Nat) (w : Entry → Bool)
    (rv : RootView) (h0 : G [] = true) (hall : allPathsLB G [] (toWTList rv.children) = true) :
    ∀ e ∈ okEntries (walkItems mn mx w rv), ∀ k, G (e.names.take k) = true := by
  intro e he
  rw [mem_okEntries, walkItems_eq_spec] at he
  have hnil : ∀ k, G (([] : List Str).take k) = true := by intro k; simpa using h0
  have hcs : ∀ cs, allPathsLB G [] (toWTList cs) = true →
      Item.ok e ∈ (if over 1 mx then [] else visitListB mn mx w [] cs) →
      ∀ k, G (e.names.take k) = true := by
    intro cs hcs h
    split at h
    · cases h
    · exact visitListB_ok_prefixes G mn mx w cs [] hcs hnil e h
  cases rv with
  | err a => simp [walkSpec] at he
  | leaf k =>
    simp only [walkSpec] at he
    split at he
    · cases he
    · simp only [List.mem_singleton, Item.ok.injEq] at he
      subst he; exact hnil
  | dir cs =>
    simp only [RootView.children] at hall
    simp only [walkSpec] at he
    split at he
    · exact hcs cs hall he
    · rcases List.mem_cons.mp he with h | h
      · simp only [Item.ok.injEq] at h
        subst h; exact hnil
      · split at h
        · cases h
        · exact hcs cs hall h
  | link cs =>
    simp only [RootView.children] at hall
    simp only [walkSpec] at he
    split at he
    · exact hcs cs hall he
    · rcases List.mem_cons.mp he with h | h
      · simp only [Item.ok.injEq] at h
        subst h; exact hnil
      · exact hcs cs hall h

theorem cutAbove_congr (w w' : Entry → Bool) (rd : Bool) (e : Entry)
    (h : ∀ k, k < e.names.length → w ⟨e.names.take k, .d⟩ = w' ⟨e.names.take k, .d⟩) :
    cutAbove w rd e = cutAbove w' rd e := by
  rw [Bool.eq_iff_iff]
  simp only [cutAbove, List.any_eq_true, List.mem_range, Bool.and_eq_true]
  constructor
  · rintro ⟨k, hk, hg, hw⟩; exact ⟨k, hk, hg, by rw [← h k hk]; exact hw⟩
  · rintro ⟨k, hk, hg, hw⟩; exact ⟨k, hk, hg, by rw [h k hk]; exact hw⟩

/-! ### the parts of a stack -/

/-- the patterns of the negations of a stack, innermost first -/
def negsOf : List SLayer → List Tok
  | [] => []
  | .not t :: ls => t :: negsOf ls
  | .filter _ :: ls => negsOf ls

/-- the `filter_entry` functions of a stack, innermost first -/
def filtersOf : List SLayer → VStack
  | [] => []
  | .not _ :: ls => filtersOf ls
  | .filter f :: ls => f :: filtersOf ls

def SWalk.negs (W : SWalk) : List Tok := negsOf W.layers
def SWalk.filters (W : SWalk) : VStack := filtersOf W.layers

/-- (i) the complete program of the glob matches the relative path (vacuous for a path walk) -/
def SWalk.globMatches (W : SWalk) (rel : Str) : Bool :=
  match W.glob with
  | some g => g.complete.matchB W.σ rel
  | none => true

/-- (ii) no negation discards the relative path -/
def negKeeps (σ : Sem) (ts : List Tok) (rel : Str) : Bool :=
  ts.all (fun t => (notProgram t).residue σ rel == .keep)

/-- the exhaustive program of some negation matches the relative path -/
def negTree (σ : Sem) (ts : List Tok) (rel : Str) : Bool :=
  ts.any (fun t => (notProgram t).residue σ rel == .tree)

theorem layers_keeps (W : SWalk) (e : Entry) (r : Str) (hr : (W.relativeFor e .filtrate).2 = r) :
    ∀ ls : List SLayer, stackKeeps (ls.map (fun l e => l.verdict W e .filtrate)) e =
      (negKeeps W.σ (negsOf ls) r && stackKeeps (filtersOf ls) e)
  | [] => rfl
  | .not t :: ls => by
    have ih := layers_keeps W e r hr ls
    simp only [stackKeeps, negKeeps, List.map_cons, List.all_cons, negsOf, filtersOf] at ih ⊢
    rw [ih, Bool.and_assoc]
    simp only [SLayer.verdict, hr]
  | .filter f :: ls => by
    have ih := layers_keeps W e r hr ls
    simp only [stackKeeps, negKeeps, List.map_cons, List.all_cons, negsOf, filtersOf] at ih ⊢
    rw [ih, Bool.and_left_comm]
    simp only [SLayer.verdict]

theorem layers_tree (W : SWalk) (e : Entry) (r : Str) (hr : (W.relativeFor e .filtrate).2 = r) :
    ∀ ls : List SLayer, stackTree (ls.map (fun l e => l.verdict W e .filtrate)) e =
      (negTree W.σ (negsOf ls) r || stackTree (filtersOf ls) e)
  | [] => rfl
  | .not t :: ls => by
    have ih := layers_tree W e r hr ls
    simp only [stackTree, negTree, List.map_cons, List.any_cons, negsOf, filtersOf] at ih ⊢
    rw [ih, Bool.or_assoc]
    simp only [SLayer.verdict, hr]
  | .filter f :: ls => by
    have ih := layers_tree W e r hr ls
    simp only [stackTree, negTree, List.map_cons, List.any_cons, negsOf, filtersOf] at ih ⊢
    rw [ih, Bool.or_left_comm]
    simp only [SLayer.verdict]

/-! ### the hypotheses -/

/-- the negations of the stack are in the fragment of C03 (`notF01`: the programs of the buckets
    accept the documented language) and their `Always` verdicts are sound (`notWalkFrag`: every
    alternative `is_exhaustive` calls `Always` is descendant-closed and does not match the empty
    path) — this excludes K-NOT-FALSE-ALWAYS -/
def SWalk.negsOk (W : SWalk) : Bool := W.negs.all (fun t => notF01 t && notWalkFrag t)

/-- what C02 needs of the glob (nothing for a path walk): sound programs, the names `pre` of the
    invariant prefix as many as the pivot, and the root entry exempt -/
structure SWalk.GlobOk (W : SWalk) (pre : List Str) : Prop where
  pivot : W.pivot = pre.length
  sound : ∀ g, W.glob = some g → ProgramsSound W.σ g
  rootEx : ∀ g, W.glob = some g → rootExempt W.σ g pre = true

/-- an `Always` alternative that matches a directory matches everything beneath it -/
theorem negFrag_closed (σ : Sem) (hdot : σ.dotall = true) (t : Tok) (hF : notF01 t = true)
    (hW : notWalkFrag t = true) (a q : List Str) (ha : prunes σ t (relOf a) = true) :
    prunes σ t (relOf (a ++ q)) = true := by
  have hall : ∀ b ∈ intoAlternatives t, alwaysExhaustive b = true →
      descFrag b = true ∧ 1 ≤ minLenTop b.concatenation := by
    intro b hb hx
    have := List.all_eq_true.mp hW b (List.mem_filter.mpr ⟨hb, hx⟩)
    simpa using this
  refine prunes_closed σ hdot t hF ?_ ?_ a q ha
  · intro b hb hx w x hm
    exact descFrag_sound σ b (hall b hb hx).1 hx w x hm
  · intro b hb hx hm
    have h1 := (hall b hb hx).2
    have h2 := sms_minLenTop σ (show SMs σ ⟨true, true⟩ b.concatenation [] from hm)
    simp only [List.length_nil] at h2
    omega

theorem SWalk.relative_faithful (W : SWalk) (pre : List Str) (hpiv : W.pivot = pre.length)
    (e : Entry) (hf : entryFaithfulP W.root pre e.names = true) :
    (W.relativeFor e .filtrate).2 = relOf (pre ++ e.names) := by
  simp only [entryFaithfulP, Bool.and_eq_true, beq_iff_eq] at hf
  simp only [SWalk.relativeFor, SWalk.path, Entry.depth, if_true, hpiv]
  exact hf.2

/-! ### one entry -/

/-- what the whole stack says of a faithful entry: kept iff (i), (ii), (iii) -/
theorem SWalk.keeps_iff (W : SWalk) (pre : List Str) (hglob : W.GlobOk pre) (e : Entry)
    (hf : entryFaithfulP W.root pre e.names = true) :
    stackKeeps W.fns e =
      (W.globMatches (relOf (pre ++ e.names)) && negKeeps W.σ W.negs (relOf (pre ++ e.names)) &&
        stackKeeps W.filters e) := by
  have hrel := W.relative_faithful pre hglob.pivot e hf
  have hl := layers_keeps W e _ hrel W.layers
  obtain ⟨σ, root, glob, layers⟩ := W
  cases glob with
  | none =>
    simp only [SWalk.fns, List.nil_append, SWalk.globMatches, Bool.true_and]
    exact hl
  | some g =>
    have hpiv : g.pivot = pre.length := hglob.pivot
    have hk : ((globVerdict σ g (joinAll root e.names) e.names.length).1 == Verdict.keep) =
        g.complete.matchB σ (relOf (pre ++ e.names)) := by
      rw [Bool.eq_iff_iff, beq_iff_eq, ← globPipeline_filtrate]
      exact glob_filtrate_iff σ g (hglob.sound g rfl) root pre hpiv (hglob.rootEx g rfl) e hf
    have : stackKeeps (SWalk.fns ⟨σ, root, some g, layers⟩) e =
        (((globVerdict σ g (joinAll root e.names) e.names.length).1 == Verdict.keep) &&
          stackKeeps (layers.map (fun l e => l.verdict ⟨σ, root, some g, layers⟩ e .filtrate)) e) := by
      simp only [stackKeeps, SWalk.fns, List.singleton_append, List.all_cons, SWalk.path, Entry.depth]
    rw [this, hk, hl, Bool.and_assoc]
    rfl

/-- a directory above a kept entry is discarded as a tree only by a `filter_entry` function:
    the glob closure prunes only where nothing matches (C02), a sound negation only where it
    matches everything beneath (C03) -/
theorem SWalk.tree_above (W : SWalk) (pre : List Str) (hdot : W.σ.dotall = true)
    (hneg : W.negsOk = true) (hglob : W.GlobOk pre) (e : Entry)
    (hpre : ∀ k, entryFaithfulP W.root pre (e.names.take k) = true)
    (hgm : W.globMatches (relOf (pre ++ e.names)) = true)
    (hnk : negKeeps W.σ W.negs (relOf (pre ++ e.names)) = true) (k : Nat) :
    stackTree W.fns ⟨e.names.take k, .d⟩ = stackTree W.filters ⟨e.names.take k, .d⟩ := by
  have hf := hpre k
  have hfe : entryFaithfulP W.root pre e.names = true := by
    have := hpre e.names.length
    rwa [List.take_length] at this
  have hrel := W.relative_faithful pre hglob.pivot ⟨e.names.take k, .d⟩ hf
  have hl := layers_tree W ⟨e.names.take k, .d⟩ _ hrel W.layers
  have hsplit : pre ++ e.names = (pre ++ e.names.take k) ++ e.names.drop k := by
    rw [List.append_assoc, List.take_append_drop]
  -- no negation discards the directory as a tree
  have hnt : negTree W.σ W.negs (relOf (pre ++ e.names.take k)) = false := by
    rw [Bool.eq_false_iff]
    intro h
    simp only [negTree, List.any_eq_true, beq_iff_eq] at h
    obtain ⟨t, ht, htree⟩ := h
    have hok := List.all_eq_true.mp hneg t ht
    simp only [Bool.and_eq_true] at hok
    have hp : prunes W.σ t (relOf (pre ++ e.names.take k)) = true := by simp [prunes, htree]
    have := negFrag_closed W.σ hdot t hok.1 hok.2 _ (e.names.drop k) hp
    rw [← hsplit] at this
    have hkeep := List.all_eq_true.mp hnk t ht
    simp only [beq_iff_eq] at hkeep
    simp [prunes, hkeep] at this
  have hnt' : negTree W.σ (negsOf W.layers)
      (relOf (pre ++ (Entry.mk (e.names.take k) Kind.d).names)) = false := hnt
  clear hnt
  obtain ⟨σ, root, glob, layers⟩ := W
  cases glob with
  | none =>
    simp only [SWalk.fns, List.nil_append]
    rw [hl, hnt', Bool.false_or]; rfl
  | some g =>
    have hpiv : g.pivot = pre.length := hglob.pivot
    have hgt : ((globVerdict σ g (joinAll root (e.names.take k)) (e.names.take k).length).1
        == Verdict.tree) = false := by
      rw [Bool.eq_false_iff]
      intro h
      rw [← globPipeline_cancels σ root g ⟨e.names.take k, .d⟩] at h
      have := glob_prunes_only_nonmatching σ g (hglob.sound g rfl) root pre hpiv (e.names.take k) hf h
        (e.names.drop k) (by rw [List.take_append_drop]; exact hfe)
      rw [List.take_append_drop] at this
      simp only [SWalk.globMatches] at hgm
      rw [hgm] at this
      cases this
    have : stackTree (SWalk.fns ⟨σ, root, some g, layers⟩) ⟨e.names.take k, .d⟩ =
        (((globVerdict σ g (joinAll root (e.names.take k)) (e.names.take k).length).1 == Verdict.tree) ||
          stackTree (layers.map (fun l e => l.verdict ⟨σ, root, some g, layers⟩ e .filtrate))
            ⟨e.names.take k, .d⟩) := by
      simp only [stackTree, SWalk.fns, List.singleton_append, List.any_cons, SWalk.path, Entry.depth]
    rw [this, hgt, hl, hnt', Bool.false_or, Bool.false_or]; rfl

/-! ### the whole walk -/

/-- **C02 + C03 + C13 + C16, the whole pipeline** (`walk_stack_exact_partial`).

`W` is a glob walk (`W.glob = some g`) or a path walk (`W.glob = none`) from `W.root`, followed by
an arbitrary stack `W.layers` of `not(t)` and `filter_entry(f)` layers, in any number and order,
with arbitrary `f : Entry → Verdict` (keep / discard-as-file / discard-as-tree); `mn`, `mx` are any
depth bounds as handed to walkdir; `rv` is any root view (either link behaviour).

Hypotheses:
* `hsf` (`stateFreeB`, decidable): pivot 0 (every path walk; a glob without invariant prefix) or
  no negation in the stack — excludes K-NOT-RESIDUE-PIVOT (`stack_exact_needs_stateFree`);
* `hdot`, `hneg` (`negsOk`, decidable): every negation is in `notF01` and its `Always` verdicts
  are sound (`notWalkFrag`) — excludes K-NOT-FALSE-ALWAYS (`stack_exact_needs_negsOk`);
* `hglob` (`GlobOk`): as for `glob_walk_bounded_exact_partial`: sound programs, `pre` = the names
  of the invariant prefix, `rootExempt` (`stack_exact_needs_rootExempt`); nothing for a path walk;
* `hf0`, `hfaith` (decidable): the path arithmetic of `split_at_depth` spells the names of the
  root and of every path of the tree (`entryFaithfulP`) — in particular relative, not rooted,
  prefixes (K-ENTRY-ROOTED-DEPTH is outside).

Conclusion: the entries handed to the consumer are exactly — same entries, same order, same file
types — the entries `e` of the unpruned, unbounded structural traversal with
(o) depth within the bounds, (i) the complete program matches the relative path of `e`,
(ii) no negation discards it — i.e. (second conjunct) no negation's pattern matches it in the
documented language —, (iii) every `filter_entry` function keeps `e`, and (iv) `e` is not beneath
a directory (reported: at depth `≥ mn`) that a `filter_entry` function discards as a tree.
(The directories the glob closure or an exhaustive negation discards as trees do not show: by
(i) and (ii) nothing beneath them is kept anyway.)

Full strength would drop `hsf`, `hneg`, `hglob.rootEx`: each is needed (Part 4). -/
theorem walk_stack_exact_partial (W : SWalk) (pre : List Str)
    (hsf : W.stateFreeB = true) (hdot : W.σ.dotall = true) (hneg : W.negsOk = true)
    (hglob : W.GlobOk pre) (mn : Nat) (mx : Option Nat) (rv : RootView)
    (hf0 : entryFaithfulP W.root pre [] = true)
    (hfaith : allPathsLB (entryFaithfulP W.root pre) [] (toWTList rv.children) = true) :
    W.filtrate mn mx rv =
      (okEntries (walkItems 0 none never rv)).filter (fun e =>
        Walk.within mn mx e.depth &&
        W.globMatches (relOf (pre ++ e.names)) &&
        negKeeps W.σ W.negs (relOf (pre ++ e.names)) &&
        stackKeeps W.filters e &&
        !cutAbove (silenced mn (stackTree W.filters)) rv.isDirRoot e) ∧
    (∀ t ∈ W.negs, ∀ rel, (notProgram t).residue W.σ rel = .keep ↔ ¬ Spec.Matches W.σ t rel) := by
  constructor
  · rw [W.filtrate_coded hsf]
    apply List.filter_congr
    intro e he
    have hpre := walk_ok_prefixes (entryFaithfulP W.root pre) 0 none never rv hf0 hfaith e he
    have hfe : entryFaithfulP W.root pre e.names = true := by
      have := hpre e.names.length
      rwa [List.take_length] at this
    rw [W.keeps_iff pre hglob e hfe]
    cases hgm : W.globMatches (relOf (pre ++ e.names)) with
    | false => simp
    | true =>
      cases hnk : negKeeps W.σ W.negs (relOf (pre ++ e.names)) with
      | false => simp
      | true =>
        have hc : cutAbove (silenced mn (stackTree W.fns)) rv.isDirRoot e =
            cutAbove (silenced mn (stackTree W.filters)) rv.isDirRoot e := by
          apply cutAbove_congr
          intro k _
          simp only [silenced]
          rw [W.tree_above pre hdot hneg hglob e hpre hgm hnk k]
        rw [hc]
        simp
  · intro t ht rel
    have hok := List.all_eq_true.mp hneg t ht
    simp only [Bool.and_eq_true] at hok
    rw [← residue_iff_matches_partial W.σ hdot t hok.1 rel]
    simp


/-! ### without the soundness of `Always`: the false verdicts described, not excluded -/

/-- a directory above an entry the glob matches: the glob closure does not discard it as a tree;
    the exhaustive program of a negation, or a `filter_entry` function, may -/
theorem SWalk.tree_above_glob (W : SWalk) (pre : List Str) (hglob : W.GlobOk pre) (e : Entry)
    (hpre : ∀ k, entryFaithfulP W.root pre (e.names.take k) = true)
    (hgm : W.globMatches (relOf (pre ++ e.names)) = true) (k : Nat) :
    stackTree W.fns ⟨e.names.take k, .d⟩ =
      (negTree W.σ W.negs (relOf (pre ++ e.names.take k)) ||
        stackTree W.filters ⟨e.names.take k, .d⟩) := by
  have hf := hpre k
  have hfe : entryFaithfulP W.root pre e.names = true := by
    have := hpre e.names.length
    rwa [List.take_length] at this
  have hrel := W.relative_faithful pre hglob.pivot ⟨e.names.take k, .d⟩ hf
  have hl := layers_tree W ⟨e.names.take k, .d⟩ _ hrel W.layers
  obtain ⟨σ, root, glob, layers⟩ := W
  cases glob with
  | none =>
    simp only [SWalk.fns, List.nil_append]
    rw [hl]; rfl
  | some g =>
    have hpiv : g.pivot = pre.length := hglob.pivot
    have hgt : ((globVerdict σ g (joinAll root (e.names.take k)) (e.names.take k).length).1
        == Verdict.tree) = false := by
      rw [Bool.eq_false_iff]
      intro h
      rw [← globPipeline_cancels σ root g ⟨e.names.take k, .d⟩] at h
      have := glob_prunes_only_nonmatching σ g (hglob.sound g rfl) root pre hpiv (e.names.take k) hf h
        (e.names.drop k) (by rw [List.take_append_drop]; exact hfe)
      rw [List.take_append_drop] at this
      simp only [SWalk.globMatches] at hgm
      rw [hgm] at this
      cases this
    have : stackTree (SWalk.fns ⟨σ, root, some g, layers⟩) ⟨e.names.take k, .d⟩ =
        (((globVerdict σ g (joinAll root (e.names.take k)) (e.names.take k).length).1 == Verdict.tree) ||
          stackTree (layers.map (fun l e => l.verdict ⟨σ, root, some g, layers⟩ e .filtrate))
            ⟨e.names.take k, .d⟩) := by
      simp only [stackTree, SWalk.fns, List.singleton_append, List.any_cons, SWalk.path, Entry.depth]
    rw [this, hgt, hl, Bool.false_or]; rfl

/-- **the composed theorem for ANY negations** (no hypothesis on `is_exhaustive`, none on the
    fragment): as `walk_stack_exact_partial`, with (iv) in full — `e` is not beneath a reported
    directory that a `filter_entry` function discards as a tree *or that the exhaustive program of
    a negation matches*.  When the `Always` verdicts are sound the second alternative is subsumed
    by (ii) (`walk_stack_exact_partial`); when they are not (K-NOT-FALSE-ALWAYS) it is exactly
    what goes missing (`stack_exact_needs_negsOk`). -/
theorem walk_stack_exact_anyneg (W : SWalk) (pre : List Str)
    (hsf : W.stateFreeB = true) (hglob : W.GlobOk pre) (mn : Nat) (mx : Option Nat) (rv : RootView)
    (hf0 : entryFaithfulP W.root pre [] = true)
    (hfaith : allPathsLB (entryFaithfulP W.root pre) [] (toWTList rv.children) = true) :
    W.filtrate mn mx rv =
      (okEntries (walkItems 0 none never rv)).filter (fun e =>
        Walk.within mn mx e.depth &&
        W.globMatches (relOf (pre ++ e.names)) &&
        negKeeps W.σ W.negs (relOf (pre ++ e.names)) &&
        stackKeeps W.filters e &&
        !cutAbove (silenced mn (fun d =>
            negTree W.σ W.negs (relOf (pre ++ d.names)) || stackTree W.filters d))
          rv.isDirRoot e) := by
  rw [W.filtrate_coded hsf]
  apply List.filter_congr
  intro e he
  have hpre := walk_ok_prefixes (entryFaithfulP W.root pre) 0 none never rv hf0 hfaith e he
  have hfe : entryFaithfulP W.root pre e.names = true := by
    have := hpre e.names.length
    rwa [List.take_length] at this
  rw [W.keeps_iff pre hglob e hfe]
  cases hgm : W.globMatches (relOf (pre ++ e.names)) with
  | false => simp
  | true =>
    have hc : cutAbove (silenced mn (stackTree W.fns)) rv.isDirRoot e =
        cutAbove (silenced mn (fun d =>
          negTree W.σ W.negs (relOf (pre ++ d.names)) || stackTree W.filters d)) rv.isDirRoot e := by
      apply cutAbove_congr
      intro k _
      simp only [silenced]
      rw [W.tree_above_glob pre hglob e hpre hgm k]
    rw [hc]
    simp only [Bool.and_true, Bool.true_and, Bool.and_assoc]

/-! ### the same, entry by entry, in words -/

theorem cutAbove_eq_false_iff (w : Entry → Bool) (rd : Bool) (e : Entry) :
    cutAbove w rd e = false ↔
      ∀ k, k < e.names.length → (k ≠ 0 ∨ rd = true) → w ⟨e.names.take k, .d⟩ = false := by
  rw [Bool.eq_false_iff]
  simp only [cutAbove, ne_eq, List.any_eq_true, List.mem_range, Bool.and_eq_true, Bool.or_eq_true,
    bne_iff_ne, not_exists, not_and, Bool.not_eq_true]

theorem silenced_tree_false_iff (mn : Nat) (Fs : VStack) (names : List Str) (k : Nat)
    (hk : k < names.length) :
    silenced mn (stackTree Fs) ⟨names.take k, .d⟩ = false ↔
      (mn ≤ k → ∀ f ∈ Fs, f ⟨names.take k, .d⟩ ≠ .tree) := by
  have hlen : (names.take k).length = k := by rw [List.length_take]; omega
  rw [Bool.eq_false_iff]
  simp only [silenced, Entry.depth, hlen, stackTree, ne_eq, Bool.and_eq_true, decide_eq_true_eq,
    List.any_eq_true, beq_iff_eq, not_and, not_exists]

/-- **`walk_stack_exact_partial`, membership form**: an entry is handed to the consumer iff it is
    an entry of the whole tree, its depth is within the bounds, (i) the complete program matches
    it, (ii) no negation's pattern matches it (documented language), (iii) every `filter_entry`
    function keeps it, and (iv) no `filter_entry` function discards as a tree a directory above it
    that is reported (depth `≥ mn`; the root of the walk only if walkdir reports it as a
    directory) -/
theorem walk_stack_exact_mem (W : SWalk) (pre : List Str)
    (hsf : W.stateFreeB = true) (hdot : W.σ.dotall = true) (hneg : W.negsOk = true)
    (hglob : W.GlobOk pre) (mn : Nat) (mx : Option Nat) (rv : RootView)
    (hf0 : entryFaithfulP W.root pre [] = true)
    (hfaith : allPathsLB (entryFaithfulP W.root pre) [] (toWTList rv.children) = true) (e : Entry) :
    e ∈ W.filtrate mn mx rv ↔
      e ∈ okEntries (walkItems 0 none never rv) ∧ Walk.within mn mx e.depth = true ∧
      W.globMatches (relOf (pre ++ e.names)) = true ∧
      (∀ t ∈ W.negs, ¬ Spec.Matches W.σ t (relOf (pre ++ e.names))) ∧
      (∀ f ∈ W.filters, f e = .keep) ∧
      (∀ k, k < e.names.length → (k ≠ 0 ∨ rv.isDirRoot = true) → mn ≤ k →
        ∀ f ∈ W.filters, f ⟨e.names.take k, .d⟩ ≠ .tree) := by
  obtain ⟨h1, h2⟩ := walk_stack_exact_partial W pre hsf hdot hneg hglob mn mx rv hf0 hfaith
  rw [h1, List.mem_filter]
  simp only [Bool.and_eq_true, Bool.not_eq_true', cutAbove_eq_false_iff]
  have hn : negKeeps W.σ W.negs (relOf (pre ++ e.names)) = true ↔
      ∀ t ∈ W.negs, ¬ Spec.Matches W.σ t (relOf (pre ++ e.names)) := by
    simp only [negKeeps, List.all_eq_true, beq_iff_eq]
    constructor
    · intro h t ht; exact (h2 t ht _).mp (h t ht)
    · intro h t ht; exact (h2 t ht _).mpr (h t ht)
  have hk : stackKeeps W.filters e = true ↔ ∀ f ∈ W.filters, f e = .keep := by
    simp only [stackKeeps, List.all_eq_true, beq_iff_eq]
  rw [hn, hk]
  constructor
  · rintro ⟨he, ⟨⟨⟨hw, hg⟩, hnn⟩, hkk⟩, hc⟩
    exact ⟨he, hw, hg, hnn, hkk, fun k hk hg' =>
      (silenced_tree_false_iff mn W.filters e.names k hk).mp (hc k hk hg')⟩
  · rintro ⟨he, hw, hg, hnn, hkk, hc⟩
    exact ⟨he, ⟨⟨⟨hw, hg⟩, hnn⟩, hkk⟩, fun k hk hg' =>
      (silenced_tree_false_iff mn W.filters e.names k hk).mpr (hc k hk hg')⟩

/-- **with a depth behaviour** (`WalkBehavior::depth`): the bounds handed to walkdir are
    `b.atPivot pivot`, and "within the bounds" is "the behaviour admits the depth from the root
    segment" (walkdir depth + pivot); `hwf`, `hreach` as in `glob_walk_bounded_exact_partial` -/
theorem walk_stack_bounded_exact (W : SWalk) (pre : List Str)
    (hsf : W.stateFreeB = true) (hdot : W.σ.dotall = true) (hneg : W.negsOk = true)
    (hglob : W.GlobOk pre)
    (b : DepthBehavior) (hwf : b.wf) (hreach : ∀ u, b.upper = some u → W.pivot ≤ u)
    (rv : RootView)
    (hf0 : entryFaithfulP W.root pre [] = true)
    (hfaith : allPathsLB (entryFaithfulP W.root pre) [] (toWTList rv.children) = true) :
    W.filtrate (b.atPivot W.pivot).1 (b.atPivot W.pivot).2 rv =
      (okEntries (walkItems 0 none never rv)).filter (fun e =>
        decide (b.admits (e.depth + W.pivot)) &&
        W.globMatches (relOf (pre ++ e.names)) &&
        negKeeps W.σ W.negs (relOf (pre ++ e.names)) &&
        stackKeeps W.filters e &&
        !cutAbove (silenced (b.atPivot W.pivot).1 (stackTree W.filters)) rv.isDirRoot e) := by
  rw [(walk_stack_exact_partial W pre hsf hdot hneg hglob _ _ rv hf0 hfaith).1]
  apply List.filter_congr
  intro e _
  rw [within_atPivot b hwf W.pivot hreach]

/-- **a path walk followed by an arbitrary stack** (`PathExt::walk(root)`, no glob, no pivot: the
    proviso `stateFreeB` and `GlobOk` hold by themselves) -/
theorem path_walk_stack_exact (σ : Sem) (root : Str) (layers : List SLayer)
    (hdot : σ.dotall = true) (hneg : (SWalk.mk σ root none layers).negsOk = true)
    (mn : Nat) (mx : Option Nat) (rv : RootView)
    (hf0 : entryFaithfulP root [] [] = true)
    (hfaith : allPathsLB (entryFaithfulP root []) [] (toWTList rv.children) = true) :
    let W : SWalk := ⟨σ, root, none, layers⟩
    W.filtrate mn mx rv =
      (okEntries (walkItems 0 none never rv)).filter (fun e =>
        Walk.within mn mx e.depth &&
        negKeeps σ W.negs (relOf e.names) &&
        stackKeeps W.filters e &&
        !cutAbove (silenced mn (stackTree W.filters)) rv.isDirRoot e) ∧
    (∀ t ∈ W.negs, ∀ rel, (notProgram t).residue σ rel = .keep ↔ ¬ Spec.Matches σ t rel) := by
  intro W
  have hglob : W.GlobOk [] :=
    { pivot := rfl, sound := fun g h => (nomatch h), rootEx := fun g h => (nomatch h) }
  obtain ⟨h1, h2⟩ := walk_stack_exact_partial W [] rfl hdot hneg hglob mn mx rv hf0 hfaith
  refine ⟨?_, h2⟩
  rw [h1]
  apply List.filter_congr
  intro e _
  simp [SWalk.globMatches, W]

/-- **the model's `Pipeline`** with the layers of the harness: what the driver prints (the Ok
    entries of `Pipeline.yielded`) -/
theorem pipeline_stack_exact (σ : Sem) (root : Str) (glob : Option GlobProgram)
    (specs : List LayerSpec) (pre : List Str)
    (hsf : (specSWalk σ root glob specs).stateFreeB = true) (hdot : σ.dotall = true)
    (hneg : (specSWalk σ root glob specs).negsOk = true)
    (hglob : (specSWalk σ root glob specs).GlobOk pre) (mn : Nat) (mx : Option Nat) (rv : RootView)
    (hf0 : entryFaithfulP root pre [] = true)
    (hfaith : allPathsLB (entryFaithfulP root pre) [] (toWTList rv.children) = true) :
    let W := specSWalk σ root glob specs
    okEntries ((specPipeline σ root glob specs).yielded mn mx rv) =
      (okEntries (walkItems 0 none never rv)).filter (fun e =>
        Walk.within mn mx e.depth &&
        W.globMatches (relOf (pre ++ e.names)) &&
        negKeeps σ W.negs (relOf (pre ++ e.names)) &&
        stackKeeps W.filters e &&
        !cutAbove (silenced mn (stackTree W.filters)) rv.isDirRoot e) := by
  intro W
  rw [(specPipeline_filtrate σ root glob specs mn mx rv).2]
  exact (walk_stack_exact_partial W pre hsf hdot hneg hglob mn mx rv hf0 hfaith).1

/-! ## Corollaries -/

/-! ### (a) order independence (C16), for the composed pipeline -/

theorem stackKeeps_perm {Ls Ls' : VStack} (h : Ls.Perm Ls') (e : Entry) :
    stackKeeps Ls e = stackKeeps Ls' e := by
  rw [Bool.eq_iff_iff]
  simp only [stackKeeps, List.all_eq_true, h.mem_iff]

theorem stackTree_perm {Ls Ls' : VStack} (h : Ls.Perm Ls') (e : Entry) :
    stackTree Ls e = stackTree Ls' e := by
  rw [Bool.eq_iff_iff]
  simp only [stackTree, List.any_eq_true, h.mem_iff]

theorem SLayer.verdict_withLayers (W : SWalk) (ls : List SLayer) :
    (fun (l : SLayer) (e : Entry) => l.verdict (W.withLayers ls) e .filtrate) =
      (fun l e => l.verdict W e .filtrate) := by
  funext l e; cases l <;> rfl

theorem SWalk.fns_withLayers (W : SWalk) (ls : List SLayer) :
    (W.withLayers ls).fns =
      (match W.glob with
        | some g => [fun e => (globVerdict W.σ g (W.path e) e.depth).1]
        | none => []) ++ ls.map (fun l e => l.verdict W e .filtrate) := by
  unfold SWalk.fns
  rw [SLayer.verdict_withLayers]
  rfl

theorem SWalk.fns_perm (W : SWalk) (ls : List SLayer) (hp : W.layers.Perm ls) :
    W.fns.Perm (W.withLayers ls).fns := by
  rw [SWalk.fns_withLayers]
  exact List.Perm.append_left _ (hp.map _)

theorem SWalk.stateFreeB_perm (W : SWalk) (ls : List SLayer) (hp : W.layers.Perm ls)
    (h : W.stateFreeB = true) : (W.withLayers ls).stateFreeB = true := by
  simp only [SWalk.stateFreeB, Bool.or_eq_true, beq_iff_eq, List.all_eq_true] at h ⊢
  cases h with
  | inl h0 => exact .inl h0
  | inr hall => exact .inr (fun l hl => hall l (hp.mem_iff.mpr hl))

/-- **(a) ORDER INDEPENDENCE (C16), for the composed pipeline**: under the proviso (pivot 0 or no
    negation — nothing else: any glob, any functions, any bounds, any tree), permuting the layers
    changes neither the items the machine reads nor the entries the consumer receives nor their
    order.  Without the proviso: `residue_pivot_order_dependence` (K-NOT-RESIDUE-PIVOT). -/
theorem walk_stack_perm (W : SWalk) (hsf : W.stateFreeB = true) (ls : List SLayer)
    (hp : W.layers.Perm ls) (mn : Nat) (mx : Option Nat) (rv : RootView) :
    (W.withLayers ls).items mn mx rv = W.items mn mx rv ∧
    (W.withLayers ls).filtrate mn mx rv = W.filtrate mn mx rv := by
  have hsf' := W.stateFreeB_perm ls hp hsf
  have hfp := W.fns_perm ls hp
  have ht : stackTree (W.withLayers ls).fns = stackTree W.fns := by
    funext e; exact (stackTree_perm hfp e).symm
  constructor
  · unfold SWalk.items
    rw [(W.withLayers ls).cancels_eq hsf', W.cancels_eq hsf, stackCancels_eq, stackCancels_eq, ht]
  · rw [(W.withLayers ls).filtrate_coded hsf', W.filtrate_coded hsf, ht]
    apply List.filter_congr
    intro e _
    rw [stackKeeps_perm hfp e]

/-! ### (b) monotonicity: one more layer never adds an entry -/

theorem cutAbove_or (mn : Nat) (a b : Entry → Bool) (rd : Bool) (e : Entry) :
    cutAbove (silenced mn (fun d => a d || b d)) rd e =
      (cutAbove (silenced mn a) rd e || cutAbove (silenced mn b) rd e) := by
  rw [Bool.eq_iff_iff]
  simp only [cutAbove, silenced, List.any_eq_true, List.mem_range, Bool.and_eq_true,
    Bool.or_eq_true, decide_eq_true_eq]
  constructor
  · rintro ⟨k, hk, hg, hm, ha | hb⟩
    · exact .inl ⟨k, hk, hg, hm, ha⟩
    · exact .inr ⟨k, hk, hg, hm, hb⟩
  · rintro (⟨k, hk, hg, hm, ha⟩ | ⟨k, hk, hg, hm, hb⟩)
    · exact ⟨k, hk, hg, hm, .inl ha⟩
    · exact ⟨k, hk, hg, hm, .inr hb⟩

/-- **(b) MONOTONICITY**: put one more layer `l` (a negation or any `filter_entry`) anywhere into
    the stack — under the proviso for the larger stack, the consumer receives exactly the entries
    it received before that `l` keeps and that are not beneath a reported directory `l` discards
    as a tree; in particular a sublist (same order, nothing added) -/
theorem walk_stack_insert (W : SWalk) (l₁ l₂ : List SLayer) (l : SLayer)
    (hsf : (W.withLayers (l₁ ++ l :: l₂)).stateFreeB = true)
    (mn : Nat) (mx : Option Nat) (rv : RootView) :
    (W.withLayers (l₁ ++ l :: l₂)).filtrate mn mx rv =
      ((W.withLayers (l₁ ++ l₂)).filtrate mn mx rv).filter (fun e =>
        (l.verdict W e .filtrate == .keep) &&
          !cutAbove (silenced mn (fun d => l.verdict W d .filtrate == .tree)) rv.isDirRoot e) ∧
    ((W.withLayers (l₁ ++ l :: l₂)).filtrate mn mx rv).Sublist
      ((W.withLayers (l₁ ++ l₂)).filtrate mn mx rv) := by
  have hsf0 : (W.withLayers (l₁ ++ l₂)).stateFreeB = true := by
    simp only [SWalk.stateFreeB, SWalk.withLayers, Bool.or_eq_true, beq_iff_eq, List.all_eq_true,
      List.mem_append, List.mem_cons] at hsf ⊢
    cases hsf with
    | inl h0 => exact .inl h0
    | inr hall =>
      refine .inr (fun x hx => hall x ?_)
      rcases hx with hx | hx
      · exact .inl hx
      · exact .inr (.inr hx)
  have heq : (W.withLayers (l₁ ++ l :: l₂)).filtrate mn mx rv =
      ((W.withLayers (l₁ ++ l₂)).filtrate mn mx rv).filter (fun e =>
        (l.verdict W e .filtrate == .keep) &&
          !cutAbove (silenced mn (fun d => l.verdict W d .filtrate == .tree)) rv.isDirRoot e) := by
    rw [(W.withLayers (l₁ ++ l :: l₂)).filtrate_coded hsf, (W.withLayers (l₁ ++ l₂)).filtrate_coded hsf0,
      List.filter_filter]
    have hK : ∀ e, stackKeeps (W.withLayers (l₁ ++ l :: l₂)).fns e =
        ((l.verdict W e .filtrate == .keep) && stackKeeps (W.withLayers (l₁ ++ l₂)).fns e) := by
      intro e
      rw [SWalk.fns_withLayers, SWalk.fns_withLayers]
      simp only [stackKeeps, List.all_append, List.map_append, List.map_cons, List.all_cons]
      cases (l.verdict W e .filtrate == .keep) <;> simp
    have hT : stackTree (W.withLayers (l₁ ++ l :: l₂)).fns =
        fun d => (l.verdict W d .filtrate == .tree) || stackTree (W.withLayers (l₁ ++ l₂)).fns d := by
      funext d
      rw [SWalk.fns_withLayers, SWalk.fns_withLayers]
      simp only [stackTree, List.any_append, List.map_append, List.map_cons, List.any_cons]
      cases (l.verdict W d .filtrate == .tree) <;> simp
    apply List.filter_congr
    intro e _
    rw [hK, hT, cutAbove_or]
    cases Walk.within mn mx e.depth <;> cases (l.verdict W e .filtrate == .keep) <;>
      cases stackKeeps (W.withLayers (l₁ ++ l₂)).fns e <;>
      cases cutAbove (silenced mn (fun d => l.verdict W d .filtrate == .tree)) rv.isDirRoot e <;>
      cases cutAbove (silenced mn (stackTree (W.withLayers (l₁ ++ l₂)).fns)) rv.isDirRoot e <;> rfl
  refine ⟨heq, ?_⟩
  rw [heq]
  exact List.filter_sublist

/-- ... so every entry received with the larger stack was received with the smaller one -/
theorem walk_stack_insert_subset (W : SWalk) (l₁ l₂ : List SLayer) (l : SLayer)
    (hsf : (W.withLayers (l₁ ++ l :: l₂)).stateFreeB = true)
    (mn : Nat) (mx : Option Nat) (rv : RootView) (e : Entry)
    (he : e ∈ (W.withLayers (l₁ ++ l :: l₂)).filtrate mn mx rv) :
    e ∈ (W.withLayers (l₁ ++ l₂)).filtrate mn mx rv :=
  (walk_stack_insert W l₁ l₂ l hsf mn mx rv).2.subset he

/-! ### (c) what a layer's function is consulted on (C13), from the logs of `WalkLogs` -/

/-- **(c) C13 for the composed pipeline** (the model's `Pipeline`, any glob, any stack, any bounds,
    any tree, NO proviso): the call log of the function of layer `i` (`Pipeline.observed`, tied to
    the driver's log by `driver_log_eq`) is exactly the list of the entries of the unpruned
    traversal within the bounds that are not beneath a reported directory the stack has made tree
    residue — so the function is never consulted on an entry beneath a discarded tree, and, when no
    directory has two children of the same name, it is consulted at most once per entry -/
theorem layer_consulted_exact (π : Pipeline) (mn : Nat) (mx : Option Nat) (rv : RootView) (i : Nat)
    (hi : i < π.layers.length) :
    π.observed mn mx rv i =
      (okEntries (walkItems 0 none never rv)).filter (fun e =>
        Walk.within mn mx e.depth && !cutAbove (silenced mn π.cancels) rv.isDirRoot e) ∧
    (∀ e ∈ π.observed mn mx rv i, ∀ k, k < e.names.length → (k ≠ 0 ∨ rv.isDirRoot = true) → mn ≤ k →
      (π.decide ⟨e.names.take k, .d⟩).1 ≠ .tree) ∧
    (rv.distinct = true → (π.observed mn mx rv i).Nodup ∧
      ∀ e, (π.observed mn mx rv i).count e ≤ 1) := by
  have h1 : π.observed mn mx rv i =
      (okEntries (walkItems 0 none never rv)).filter (fun e =>
        Walk.within mn mx e.depth && !cutAbove (silenced mn π.cancels) rv.isDirRoot e) := by
    rw [observes_all_once π mn mx rv i hi, Pipeline.traversal, ← walkItems_eq_spec,
      walk_cut_eq_filter_bounded]
  refine ⟨h1, ?_, ?_⟩
  · intro e he k hk hg hm htree
    rw [h1, List.mem_filter] at he
    simp only [Bool.and_eq_true, Bool.not_eq_true', cutAbove_eq_false_iff] at he
    have := he.2.2 k hk hg
    have hlen : (e.names.take k).length = k := by rw [List.length_take]; omega
    have hc : π.cancels ⟨e.names.take k, .d⟩ = true := (decide_cancels_iff_tree π _).mpr htree
    simp [silenced, Entry.depth, hlen, hm, hc] at this
  · intro hd
    have hn := observed_nodup π mn mx rv i hd
    refine ⟨hn, fun e => ?_⟩
    rw [hn.count]
    split <;> omega


/-! ## Part 4: the theorems at work, and why each hypothesis is there -/

/-! ### a path walk followed by an arbitrary stack -/

/-- below `r`: `a`, `c/x/y`, `d/{a, e -> …}`, `k/{z, m/{a}}` -/
def sTree : RootView :=
  .dir [.leaf ['a'] .f, .dir ['c'] [.dir ['x'] [.leaf ['y'] .f]],
    .dir ['d'] [.leaf ['a'] .f, .leaf ['e'] .l], .dir ['k'] [.leaf ['z'] .f, .dir ['m'] [.leaf ['a'] .f]]]

/-- `filter_entry(d/a ↦ File)`, then `not("{a,{b,c/**}}")`, then `filter_entry(k ↦ Tree)` -/
def sLayers : List SLayer :=
  [.filter (fun e => if e.names == [['d'], ['a']] then .file else .keep),
   .not npTok,
   .filter (fun e => if e.names == [['k']] then .tree else .keep)]

/-- `r.walk().filter_entry(..).not(..).filter_entry(..)` -/
def sW : SWalk := ⟨σcs, ['r'], none, sLayers⟩

/-- the hypotheses of `path_walk_stack_exact` / `walk_stack_exact_partial` hold for it; the machine
    reads 7 of the 12 entries (neither `c` nor `k` is entered); the consumer receives the root,
    `d` and `d/e`; with `min_depth = 1`, `max_depth = 1` only `d` -/
example : sW.stateFreeB = true ∧ sW.σ.dotall = true ∧ sW.negsOk = true ∧ sW.GlobOk [] ∧
    entryFaithfulP sW.root [] [] = true ∧
    allPathsLB (entryFaithfulP sW.root []) [] (toWTList sTree.children) = true ∧
    (okEntries (walkItems 0 none never sTree)).length = 12 ∧
    (okEntries (sW.items 0 none sTree)).length = 7 ∧
    sW.filtrate 0 none sTree = [⟨[], .d⟩, ⟨[['d']], .d⟩, ⟨[['d'], ['e']], .l⟩] ∧
    sW.filtrate 1 (some 1) sTree = [⟨[['d']], .d⟩] :=
  ⟨by decide, rfl, by decide,
    { pivot := rfl, sound := fun g h => (nomatch h), rootEx := fun g h => (nomatch h) },
    by decide, by decide, by decide, by decide, by decide, by decide⟩

/-- ... and so, by the theorem, these are the entries of the whole tree that satisfy (o)–(iv) -/
example :
    (okEntries (walkItems 0 none never sTree)).filter (fun e =>
        Walk.within 0 none e.depth && negKeeps σcs sW.negs (relOf e.names) &&
        stackKeeps sW.filters e && !cutAbove (silenced 0 (stackTree sW.filters)) sTree.isDirRoot e) =
      [⟨[], .d⟩, ⟨[['d']], .d⟩, ⟨[['d'], ['e']], .l⟩] :=
  (path_walk_stack_exact σcs ['r'] sLayers rfl (by decide) 0 none sTree (by decide)
    (by decide)).1.symm.trans (by decide)

/-- (a) the reversed stack yields the same; (b) without the negation the consumer receives more -/
example :
    (sW.withLayers sLayers.reverse).filtrate 0 none sTree = sW.filtrate 0 none sTree ∧
    (sW.withLayers ([sLayers[0]] ++ [sLayers[2]])).filtrate 0 none sTree =
      [⟨[], .d⟩, ⟨[['a']], .f⟩, ⟨[['c']], .d⟩, ⟨[['c'], ['x']], .d⟩, ⟨[['c'], ['x'], ['y']], .f⟩,
        ⟨[['d']], .d⟩, ⟨[['d'], ['e']], .l⟩] :=
  ⟨(walk_stack_perm sW (by decide) sLayers.reverse (List.reverse_perm sLayers).symm 0 none sTree).2,
    by decide⟩

/-- `walk_stack_insert` on it: putting the negation between the two `filter_entry` layers -/
example :
    (sW.withLayers ([sLayers[0]] ++ sLayers[1] :: [sLayers[2]])).filtrate 0 none sTree =
      [⟨[], .d⟩, ⟨[['d']], .d⟩, ⟨[['d'], ['e']], .l⟩] ∧
    ((sW.withLayers ([sLayers[0]] ++ sLayers[1] :: [sLayers[2]])).filtrate 0 none sTree).Sublist
      ((sW.withLayers ([sLayers[0]] ++ [sLayers[2]])).filtrate 0 none sTree) :=
  ⟨by decide, (walk_stack_insert sW [sLayers[0]] [sLayers[2]] sLayers[1] (by decide) 0 none sTree).2⟩

/-- the model's `Pipeline` with harness layers (`filter_entry(k ↦ Tree)`, `not("{a,{b,c/**}}")`)
    over the same tree: the hypotheses of `pipeline_stack_exact` hold, and what the driver prints
    is the root, `d`, `d/a`, `d/e` -/
example :
    let specs : List LayerSpec := [.rules [(['k'], true)], .not npTok]
    (specSWalk σcs ['r'] none specs).stateFreeB = true ∧
    (specSWalk σcs ['r'] none specs).negsOk = true ∧
    okEntries ((specPipeline σcs ['r'] none specs).yielded 0 none sTree) =
      [⟨[], .d⟩, ⟨[['d']], .d⟩, ⟨[['d'], ['a']], .f⟩, ⟨[['d'], ['e']], .l⟩] := by
  intro specs
  exact ⟨by decide, by decide, by decide⟩

/-- `walk_stack_exact_mem` on `sW`: `k/z` is not handed out because `k`, a directory above it, is
    discarded as a tree by the outer `filter_entry` -/
example : (⟨[['k'], ['z']], .f⟩ : Entry) ∉ sW.filtrate 0 none sTree := by
  intro h
  have h6 := ((walk_stack_exact_mem sW [] (by decide) rfl (by decide)
    { pivot := rfl, sound := fun g h => (nomatch h), rootEx := fun g h => (nomatch h) }
    0 none sTree (by decide) (by decide) _).mp h).2.2.2.2.2
  exact h6 1 (by decide) (.inl (by decide)) (by decide)
    (fun e => if e.names == [['k']] then .tree else .keep) (by simp [sW, sLayers, SWalk.filters, filtersOf])
    (by decide)

/-! ### a glob walk without invariant prefix followed by an arbitrary stack -/

/-- what `x/bd/**` parses to -/
def gNotTok : Tok :=
  .cat ⟨0, 7⟩ [.lit ⟨0, 1⟩ ['x'] false, .sep ⟨1, 1⟩, .lit ⟨2, 2⟩ ['b', 'd'] false, .tree ⟨4, 3⟩ true]

#guard (Cmd.build "x/bd/**".toList).map (fun t =>
    ((notProgram t).exhaustive.map programText, (notProgram t).nonexhaustive.map programText)) ==
  some ((notProgram gNotTok).exhaustive.map programText, (notProgram gNotTok).nonexhaustive.map programText)

/-- `*/b*` walked from `r`, then `not("x/bd/**")`, then `filter_entry(links ↦ File)` -/
def gW : SWalk :=
  ⟨exSem, "r".toList, some (compiledProgram exGlob 0),
    [.not gNotTok, .filter (fun e => if e.kind == .l then .file else .keep)]⟩

theorem gW_globOk : gW.GlobOk [] :=
  { pivot := rfl
    sound := fun g h => by
      have : g = compiledProgram exGlob 0 := by
        simp only [gW, Option.some.injEq] at h; exact h.symm
      subst this
      exact programsSound_compiled exSem exSem_sepIsolated rfl ⟨0, 4⟩ exComps exLast []
        (by decide) (by decide) (Or.inl rfl) (by decide) 0
    rootEx := fun g h => by
      have : g = compiledProgram exGlob 0 := by
        simp only [gW, Option.some.injEq] at h; exact h.symm
      subst this
      decide }

/-- the hypotheses of `walk_stack_exact_partial` hold; of `x/bb`, `x/bd` (which `*/b*` matches) the
    negation discards the directory `x/bd` as a tree; `by` is at the wrong depth -/
example : gW.stateFreeB = true ∧ gW.σ.dotall = true ∧ gW.negsOk = true ∧ gW.GlobOk [] ∧
    entryFaithfulP gW.root [] [] = true ∧
    allPathsLB (entryFaithfulP gW.root []) [] (toWTList (RootView.dir exTree).children) = true ∧
    gW.filtrate 0 none (.dir exTree) = [⟨["x".toList, "bb".toList], .f⟩] :=
  ⟨by decide, rfl, by decide, gW_globOk, by decide, by decide, by decide⟩

/-! ### a glob walk with an invariant prefix, `filter_entry` layers only, a depth behaviour -/

/-- `a/x/b*/**` from `r/a/` (pivot 1), `filter_entry(bd ↦ Tree)`, `filter_entry(c ↦ File)` -/
def pW : SWalk :=
  ⟨exSem, "r/a/".toList, some (compiledProgram bGlob 1),
    [.filter (fun e => if e.names.getLast? == some "bd".toList then .tree else .keep),
     .filter (fun e => if e.names.getLast? == some "c".toList then .file else .keep)]⟩

theorem pW_globOk : pW.GlobOk ["a".toList] :=
  { pivot := rfl
    sound := fun g h => by
      have : g = compiledProgram bGlob 1 := by
        simp only [pW, Option.some.injEq] at h; exact h.symm
      subst this
      exact programsSound_compiled exSem exSem_sepIsolated rfl ⟨0, 9⟩ bComps bLast
        [.tree ⟨6, 3⟩ true] (by decide) (by decide) (Or.inr ⟨_, _, _, rfl⟩) (by decide) 1
    rootEx := fun g h => by
      have : g = compiledProgram bGlob 1 := by
        simp only [pW, Option.some.injEq] at h; exact h.symm
      subst this
      decide }

/-- the hypotheses of `walk_stack_bounded_exact` hold (depths 1 to 4 from the root segment `r`);
    the glob matches `a/x/bb`, `a/x/bd`, `a/x/bd/q`; `bd` is discarded as a tree, so `bd/q` is
    never read -/
example :
    let b := DepthBehavior.minMax 1 3
    pW.stateFreeB = true ∧ pW.negsOk = true ∧ pW.GlobOk ["a".toList] ∧
    entryFaithfulP pW.root ["a".toList] [] = true ∧
    allPathsLB (entryFaithfulP pW.root ["a".toList]) [] (toWTList bTree.children) = true ∧
    pW.filtrate (b.atPivot pW.pivot).1 (b.atPivot pW.pivot).2 bTree =
      [⟨["x".toList, "bb".toList], .f⟩] ∧
    (pW.withLayers []).filtrate (b.atPivot pW.pivot).1 (b.atPivot pW.pivot).2 bTree =
      [⟨["x".toList, "bb".toList], .f⟩, ⟨["x".toList, "bd".toList], .d⟩,
        ⟨["x".toList, "bd".toList, "q".toList], .l⟩] := by
  intro b
  exact ⟨by decide, by decide, pW_globOk, by decide, by decide, by decide, by decide⟩

/-! ### `hsf` is needed: K-NOT-RESIDUE-PIVOT -/

/-- `a/b/**` from `""`: root `a/b`, pivot 2; `filter_entry(c ↦ File)`, then `not("c/**")` -/
def kW : SWalk :=
  ⟨exSem, ['a', '/', 'b'], some (compiledProgram kGlobTok 2),
    [.filter (fun e => if e.names.getLast? == some ['c'] then .file else .keep), .not kNotTok]⟩

theorem kW_globOk : kW.GlobOk [['a'], ['b']] :=
  { pivot := rfl
    sound := fun g h => by
      have : g = compiledProgram kGlobTok 2 := by
        simp only [kW, Option.some.injEq] at h; exact h.symm
      subst this
      exact programsSound_compiled exSem exSem_sepIsolated rfl ⟨0, 6⟩
        [([.lit ⟨0, 1⟩ ['a'] false], ⟨1, 1⟩)] [.lit ⟨2, 1⟩ ['b'] false] [.tree ⟨3, 3⟩ true]
        (by decide) (by decide) (Or.inr ⟨_, _, _, rfl⟩) (by decide) 2
    rootEx := fun g h => by
      have : g = compiledProgram kGlobTok 2 := by
        simp only [kW, Option.some.injEq] at h; exact h.symm
      subst this
      decide }

/-- **`walk_stack_exact_partial` is false without `hsf`** (K-NOT-RESIDUE-PIVOT): every other
    hypothesis holds for `kW` over `a/b/{c/x.txt, y.txt}`; the glob matches everything and
    `not("c/**")` does not match `a/b/c/x.txt` (relative to the base), yet — the directory `c`
    having been made residue by the `filter_entry` — the negation sees the path `c`, discards it as
    a tree, and `c/x.txt` is never read.  With the layers in the other order it is
    (so order independence fails too). -/
theorem stack_exact_needs_stateFree :
    kW.stateFreeB = false ∧ kW.σ.dotall = true ∧ kW.negsOk = true ∧ kW.GlobOk [['a'], ['b']] ∧
    entryFaithfulP kW.root [['a'], ['b']] [] = true ∧
    allPathsLB (entryFaithfulP kW.root [['a'], ['b']]) [] (toWTList kTree.children) = true ∧
    kW.filtrate 0 none kTree = [⟨[], .d⟩, ⟨["y.txt".toList], .f⟩] ∧
    (okEntries (walkItems 0 none never kTree)).filter (fun e =>
        Walk.within 0 none e.depth &&
        kW.globMatches (relOf ([['a'], ['b']] ++ e.names)) &&
        negKeeps kW.σ kW.negs (relOf ([['a'], ['b']] ++ e.names)) &&
        stackKeeps kW.filters e &&
        !cutAbove (silenced 0 (stackTree kW.filters)) kTree.isDirRoot e) =
      [⟨[], .d⟩, ⟨[['c'], "x.txt".toList], .f⟩, ⟨["y.txt".toList], .f⟩] ∧
    (kW.withLayers kW.layers.reverse).filtrate 0 none kTree =
      [⟨[], .d⟩, ⟨[['c'], "x.txt".toList], .f⟩, ⟨["y.txt".toList], .f⟩] :=
  ⟨by decide, rfl, by decide, kW_globOk, by decide, by decide, by decide, by decide, by decide⟩

/-! ### `hneg` is needed: K-NOT-FALSE-ALWAYS -/

/-- `r.walk().not("**/{a}")` -/
def fW : SWalk := ⟨σcs, ['r'], none, [.not npFalseAlwaysTok]⟩

/-- **`walk_stack_exact_partial` is false without `hneg`** (K-NOT-FALSE-ALWAYS): `is_exhaustive`
    calls `**/{a}` `Always` although it matches `a` and not `a/x`; over `r/a/x` the walk is
    cancelled at `a` and the consumer never receives `a/x`, which the pattern does not match.
    Every other hypothesis holds. -/
theorem stack_exact_needs_negsOk :
    fW.stateFreeB = true ∧ fW.σ.dotall = true ∧ fW.negsOk = false ∧
    notF01 npFalseAlwaysTok = true ∧ notWalkFrag npFalseAlwaysTok = false ∧ fW.GlobOk [] ∧
    entryFaithfulP fW.root [] [] = true ∧
    allPathsLB (entryFaithfulP fW.root []) []
      (toWTList (RootView.dir [.dir ['a'] [.leaf ['x'] .f]]).children) = true ∧
    fW.filtrate 0 none (.dir [.dir ['a'] [.leaf ['x'] .f]]) = [⟨[], .d⟩] ∧
    (okEntries (walkItems 0 none never (.dir [.dir ['a'] [.leaf ['x'] .f]]))).filter (fun e =>
        Walk.within 0 none e.depth && fW.globMatches (relOf ([] ++ e.names)) &&
        negKeeps fW.σ fW.negs (relOf ([] ++ e.names)) && stackKeeps fW.filters e &&
        !cutAbove (silenced 0 (stackTree fW.filters)) true e) =
      [⟨[], .d⟩, ⟨[['a'], ['x']], .f⟩] :=
  ⟨by decide, rfl, by decide, rfl, rfl,
    { pivot := rfl, sound := fun g h => (nomatch h), rootEx := fun g h => (nomatch h) },
    by decide, by decide, by decide, by decide⟩

/-- ... while `walk_stack_exact_anyneg` applies to it and accounts for the missing entry: `a/x`
    lies beneath `a`, which the exhaustive program of the negation matches -/
example :
    fW.filtrate 0 none (.dir [.dir ['a'] [.leaf ['x'] .f]]) =
      (okEntries (walkItems 0 none never (.dir [.dir ['a'] [.leaf ['x'] .f]]))).filter (fun e =>
        Walk.within 0 none e.depth && fW.globMatches (relOf ([] ++ e.names)) &&
        negKeeps fW.σ fW.negs (relOf ([] ++ e.names)) && stackKeeps fW.filters e &&
        !cutAbove (silenced 0 (fun d =>
          negTree fW.σ fW.negs (relOf ([] ++ d.names)) || stackTree fW.filters d)) true e) ∧
    negTree fW.σ fW.negs (relOf [['a']]) = true :=
  ⟨walk_stack_exact_anyneg fW [] (by decide)
    { pivot := rfl, sound := fun g h => (nomatch h), rootEx := fun g h => (nomatch h) }
    0 none _ (by decide) (by decide), by decide⟩

/-! ### `hglob.rootEx` is needed: the root of a glob walk -/

/-- `*` walked from `r`, no layers -/
def rW : SWalk :=
  ⟨exSem, "r".toList,
    some (compiledProgram (.cat ⟨0, 1⟩ (WalkTree.joinSep [] ([.zom ⟨0, 1⟩ false] ++ []))) 0), []⟩

/-- **`walk_stack_exact_partial` is false without `rootExempt`**: `*` matches the empty relative
    path of the root entry, but the closure makes the root node residue (`root_not_yielded`) -/
theorem stack_exact_needs_rootExempt :
    rW.stateFreeB = true ∧ rW.negsOk = true ∧ rW.pivot = ([] : List Str).length ∧
    (∀ g, rW.glob = some g → ProgramsSound rW.σ g) ∧
    (∀ g, rW.glob = some g → rootExempt rW.σ g [] = false) ∧
    entryFaithfulP rW.root [] [] = true ∧
    rW.filtrate 0 none (.dir []) = [] ∧
    (okEntries (walkItems 0 none never (.dir []))).filter (fun e =>
        Walk.within 0 none e.depth && rW.globMatches (relOf ([] ++ e.names)) &&
        negKeeps rW.σ rW.negs (relOf ([] ++ e.names)) && stackKeeps rW.filters e &&
        !cutAbove (silenced 0 (stackTree rW.filters)) true e) = [⟨[], .d⟩] := by
  refine ⟨by decide, by decide, rfl, ?_, ?_, by decide, by decide, by decide⟩
  · intro g h
    have : g = compiledProgram (.cat ⟨0, 1⟩ (WalkTree.joinSep [] ([.zom ⟨0, 1⟩ false] ++ []))) 0 := by
      simp only [rW, Option.some.injEq] at h; exact h.symm
    subst this
    exact programsSound_compiled exSem exSem_sepIsolated rfl ⟨0, 1⟩ [] [.zom ⟨0, 1⟩ false] []
      (by decide) (by decide) (Or.inl rfl) (by decide) 0
  · intro g h
    have : g = compiledProgram (.cat ⟨0, 1⟩ (WalkTree.joinSep [] ([.zom ⟨0, 1⟩ false] ++ []))) 0 := by
      simp only [rW, Option.some.injEq] at h; exact h.symm
    subst this
    decide

/-! ### `hf0` / `hfaith` exclude rooted globs: K-ENTRY-ROOTED-DEPTH -/

/-- the faithfulness hypothesis says that the relative segment of every entry is the relative
    path spelled by `pre` and the names — never a rooted path -/
theorem faithful_not_rooted (root : Str) (pre names : List Str)
    (h : entryFaithfulP root pre names = true) :
    isAbsolute (splitAtDepth (joinAll root names) (names.length + pre.length)).2 = false := by
  simp only [entryFaithfulP, Bool.and_eq_true, beq_iff_eq] at h
  rw [h.2]
  exact isAbsolute_relOf_good h.1

/-- a rooted glob walk (root `/tmp`, pivot 2 + 1, as `Glob::anchor` computes it): the relative
    segment of the root entry is the whole rooted path — `hf0` cannot hold, whatever `pre` -/
example : isAbsolute (splitAtDepth (joinAll "/tmp".toList []) (0 + 3)).2 = true := by decide

/-! ### (c) at work: the call log of a `filter_entry` function -/

/-- the walk `kπ` of `WalkLogs` (glob `a/b/**`, `filter_entry(c ↦ File)`, `not("c/**")`): the
    outer layer is consulted on the root, `c` and `y.txt`, never on `c/x.txt`, which lies beneath
    the directory the stack made tree residue -/
example :
    kπ.observed 0 none kTree 1 = [⟨[], .d⟩, ⟨[['c']], .d⟩, ⟨["y.txt".toList], .f⟩] ∧
    (kπ.decide ⟨[['c']], .d⟩).1 = .tree ∧ kTree.distinct = true :=
  ⟨(layer_consulted_exact kπ 0 none kTree 1 (by decide)).1.trans (by decide), by decide, by decide⟩

end Wax.Walk
