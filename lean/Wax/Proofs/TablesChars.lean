import Wax.GeneratedChars
import Wax.Parse
/-! The tie by regeneration (meta-characters, literal stop set, literal escapes): the table the model's definitions use is the table `tools/extract.py` has just read out
of `/repo/src` (by EVALUATING the source's `match`, so arm order and grouping are immaterial). Closed by `decide`: an edit of the
Rust source that changes the table breaks the build here, naming the table; only the properties that list these theorems are
concerned. -/
namespace Wax

/-- the same SET of characters (the order in which the source lists them is immaterial) and no duplicates hidden by it -/
def sameChars (a b : List Char) : Bool := a.all (b.contains ·) && b.all (a.contains ·)

theorem literalStop_is_source : sameChars literalStop Generated.literalStopSet = true := by decide
theorem literalEsc_is_source : sameChars literalEsc Generated.literalEscapes = true := by decide
theorem literalEsc_is_meta : sameChars literalEsc Generated.metaChars = true := by decide


theorem maxInvariantSize_is_source : Generated.maxInvariantSize = 65536 := by decide

end Wax
