import Wax.Proofs.ExecCompleteAll
/-!
# Which derivation leftmost-first search reports (property C04): a declarative priority order

`Re.run` (`Wax/Exec.lean`) is an operational definition: a backtracker with a visited set.  This file
gives the *declarative* counterpart:

* `PT`: parse trees of paths through the program of a pattern.  A tree records the characters
  consumed (`chars`), concatenations (`seq`), the union states entered (`st`), which way a union
  was left (`inl` = the alternative the program tries first, `inr` = the other one) and the groups
  (`cap`).  `PT.flat` is the trace of `Wax/Proofs/ExecTrace.lean` (states and characters, in
  order), `PT.word` the text consumed, `PT.caps` what the path does to the capture slots.
* `Prefer t₁ t₂` ("`t₁` is tried before `t₂`"): structural and lexicographic.  In a concatenation the
  left component decides first (`seqL`), then the right one (`seqR`); at a union the first
  alternative beats the second (`inlr`).
* `Re.PT σ r id n`: the trees of the pattern `r` (node `id`, first group in slot `n`), following the
  state layout of `Wax/Exec.lean` combinator by combinator.  At an alternation the earlier branch is
  `inl`; at a greedy star / option / bounded repetition "one more round" is `inl` and "leave" is
  `inr`; at a lazy star it is the other way round (`PrefP`, `moreT`, `leaveT`).
* a tree is *guard respecting* when `RunOK [] t.flat` (no union state entered twice without a
  character in between: the `Vis` discipline).

`First A w v c k o` says: `o` is the outcome of the continuation `k` on the `Prefer`-least
guard-respecting tree of `A` at the front of `w` on which `k` succeeds (`none` if there is no such
tree).  `run_first` : `Re.run` computes exactly that, for every pattern (no hypothesis on loops);
`exec_least` is the statement for `Re.exec`.

`Wax/Proofs/PriorityTotal.lean` proves that `Prefer` is a strict order which is total on the trees of
one pattern over one text, hence the least tree is unique and the captures are a function of
`(r, s)`; `Wax/Proofs/PriorityCor.lean` derives what this means for the patterns wax emits.
-/
namespace Wax

/-- parse trees of paths through a program -/
inductive PT where
  /-- nothing happens -/
  | eps
  /-- the characters `u` are consumed (a literal, a class) -/
  | chars (u : Str)
  /-- `a`, then `b` -/
  | seq (a b : PT)
  /-- the union state `x` is entered, then `t` -/
  | st (x : Sid) (t : PT)
  /-- the first alternative of a union -/
  | inl (t : PT)
  /-- the second alternative of a union -/
  | inr (t : PT)
  /-- the group with slot `n` around `t` -/
  | cap (n : Nat) (t : PT)
deriving DecidableEq, Repr

/-- the trace (states entered, characters consumed) -/
def PT.flat : PT → Trace
  | .eps => []
  | .chars u => u.map Ev.c
  | .seq a b => a.flat ++ b.flat
  | .st x t => .s x :: t.flat
  | .inl t => t.flat
  | .inr t => t.flat
  | .cap _ t => t.flat

/-- the text consumed -/
def PT.word : PT → Str
  | .eps => []
  | .chars u => u
  | .seq a b => a.word ++ b.word
  | .st _ t => t.word
  | .inl t => t.word
  | .inr t => t.word
  | .cap _ t => t.word

/-- what the path does to the slots: a group that closes writes the text it matched -/
def PT.caps : PT → Caps → Caps
  | .eps, c => c
  | .chars _, c => c
  | .seq a b, c => b.caps (a.caps c)
  | .st _ t, c => t.caps c
  | .inl t, c => t.caps c
  | .inr t, c => t.caps c
  | .cap n t, c => (t.caps c).set n (some t.word)

theorem PT.word_flat : ∀ (t : PT), Wax.word t.flat = t.word
  | .eps => rfl
  | .chars u => word_map_c u
  | .seq a b => by simp only [PT.flat, PT.word, word_append, PT.word_flat a, PT.word_flat b]
  | .st _ t => by simp only [PT.flat, PT.word, Wax.word, PT.word_flat t]
  | .inl t => by simp only [PT.flat, PT.word, PT.word_flat t]
  | .inr t => by simp only [PT.flat, PT.word, PT.word_flat t]
  | .cap _ t => by simp only [PT.flat, PT.word, PT.word_flat t]

/-- **the priority order**: `Prefer t₁ t₂` = the search tries `t₁` before `t₂` -/
inductive Prefer : PT → PT → Prop
  /-- concatenation: the left component decides first … -/
  | seqL {a a' b b'} : Prefer a a' → Prefer (.seq a b) (.seq a' b')
  /-- … then the right one -/
  | seqR {a b b'} : Prefer b b' → Prefer (.seq a b) (.seq a b')
  | st {x t t'} : Prefer t t' → Prefer (.st x t) (.st x t')
  /-- union: the first alternative beats the second -/
  | inlr {a b} : Prefer (.inl a) (.inr b)
  | inl {a a'} : Prefer a a' → Prefer (.inl a) (.inl a')
  | inr {b b'} : Prefer b b' → Prefer (.inr b) (.inr b')
  | cap {n t t'} : Prefer t t' → Prefer (.cap n t) (.cap n t')

/-! ### sets of trees -/

abbrev PSet := PT → Prop

def EpsP : PSet := fun t => t = .eps
def NoneP : PSet := fun _ => False
def SeqP (A B : PSet) : PSet := fun t => ∃ a b, t = .seq a b ∧ A a ∧ B b
def StP (x : Sid) (A : PSet) : PSet := fun t => ∃ a, t = .st x a ∧ A a
/-- a union: `A` is tried first -/
def OrP (A B : PSet) : PSet := fun t => (∃ a, t = .inl a ∧ A a) ∨ (∃ b, t = .inr b ∧ B b)
def CapP (n : Nat) (A : PSet) : PSet := fun t => ∃ a, t = .cap n a ∧ A a

/-- the union of a loop: greedy = one more round (`M`) first, lazy = leave (`L`) first -/
def PrefP (lazy : Bool) (M L : PSet) : PSet :=
  match lazy with
  | true => OrP L M
  | false => OrP M L

/-- "one more round" at the union of a greedy / lazy loop -/
def moreT : Bool → PT → PT
  | true, x => .inr x
  | false, x => .inl x

/-- "leave" at the union of a greedy / lazy loop -/
def leaveT : Bool → PT
  | true => .inl .eps
  | false => .inr .eps

/-- greedy: one more round is tried before leaving -/
theorem prefer_more_leave_greedy (x : PT) : Prefer (moreT false x) (leaveT false) := .inlr
/-- lazy: leaving is tried before one more round -/
theorem prefer_leave_more_lazy (x : PT) : Prefer (leaveT true) (moreT true x) := .inlr

/-! ### `First`: the outcome on the least candidate -/

/-- `t` is a guard-respecting tree of `A` at the front of `w`, the rest being `w'` -/
structure Cand (A : PSet) (w : Str) (v : Vis) (t : PT) (w' : Str) : Prop where
  mem : A t
  split : w = t.word ++ w'
  ok : RunOK v t.flat

/-- the outcome of the continuation after the tree -/
def PT.out (t : PT) (v : Vis) (c : Caps) (k : Kont) (w' : Str) : Option Caps :=
  k w' (after v t.flat) (t.caps c)

/-- `o` is the outcome of `k` after the `Prefer`-least candidate on which `k` succeeds -/
def First (A : PSet) (w : Str) (v : Vis) (c : Caps) (k : Kont) (o : Option Caps) : Prop :=
  (∀ res, o = some res → ∃ t w', Cand A w v t w' ∧ t.out v c k w' = some res ∧
      ∀ t' w'', Cand A w v t' w'' → Prefer t' t → t'.out v c k w'' = none) ∧
  (o = none → ∀ t w', Cand A w v t w' → t.out v c k w' = none)

/-- a piece of the program computes `First` of its trees -/
def Spec (A : PSet) (f : Step) : Prop := ∀ w v c k, First A w v c k (f w v c k)

theorem First.congr {A A' : PSet} {w v c k o} (h : First A w v c k o) (e : ∀ t, A' t ↔ A t) :
    First A' w v c k o := by
  have ec : ∀ {t w'}, Cand A' w v t w' ↔ Cand A w v t w' :=
    fun {t w'} => ⟨fun h => ⟨(e t).mp h.mem, h.split, h.ok⟩, fun h => ⟨(e t).mpr h.mem, h.split, h.ok⟩⟩
  constructor
  · intro res ho
    obtain ⟨t, w', ct, h1, h2⟩ := h.1 res ho
    exact ⟨t, w', ec.mpr ct, h1, fun t' w'' ct' => h2 t' w'' (ec.mp ct')⟩
  · intro ho t w' ct
    exact h.2 ho t w' (ec.mp ct)

theorem First.empty {A : PSet} {w v c k} (h : ∀ t w', ¬ Cand A w v t w') : First A w v c k none :=
  ⟨fun _ ho => (by cases ho), fun _ t w' ct => (h t w' ct).elim⟩

theorem First.eps {w v c k} : First EpsP w v c k (k w v c) := by
  constructor
  · intro res ho
    refine ⟨.eps, w, ⟨rfl, rfl, trivial⟩, ho, ?_⟩
    rintro t' w'' ⟨rfl, _, _⟩ hp
    cases hp
  · rintro ho t w' ⟨rfl, hs, _⟩
    have : w = w' := hs
    subst this
    exact ho

/-- **concatenation is lexicographic** -/
theorem First.seq {A B : PSet} {w v c k o} {k1 : Kont} (hA : First A w v c k1 o)
    (hB : ∀ a w', Cand A w v a w' →
      First B w' (after v a.flat) (a.caps c) k (k1 w' (after v a.flat) (a.caps c))) :
    First (SeqP A B) w v c k o := by
  have dec : ∀ {a' b' w''}, Cand (SeqP A B) w v (.seq a' b') w'' →
      Cand A w v a' (b'.word ++ w'') ∧ Cand B (b'.word ++ w'') (after v a'.flat) b' w'' := by
    rintro a' b' w'' ⟨⟨a2, b2, e, ha, hb⟩, hs, hok⟩
    cases e
    simp only [PT.flat, runOK_append] at hok
    exact ⟨⟨ha, by simpa only [PT.word, List.append_assoc] using hs, hok.1⟩, ⟨hb, rfl, hok.2⟩⟩
  constructor
  · intro res ho
    obtain ⟨a, w1, ca, hout, hmin⟩ := hA.1 res ho
    obtain ⟨b, w2, cb, hout2, hmin2⟩ := (hB a w1 ca).1 res hout
    refine ⟨.seq a b, w2, ⟨⟨a, b, rfl, ca.mem, cb.mem⟩, ?_, ?_⟩, ?_, ?_⟩
    · simp only [PT.word, List.append_assoc, ← cb.split, ← ca.split]
    · simp only [PT.flat, runOK_append]
      exact ⟨ca.ok, cb.ok⟩
    · simpa only [PT.out, PT.flat, PT.caps, after_append] using hout2
    · rintro t' w'' ct' hp
      obtain ⟨a', b', rfl, _, _⟩ := ct'.mem
      obtain ⟨ca', cb'⟩ := dec ct'
      cases hp with
      | seqL h =>
        have h1 := hmin a' _ ca' h
        have h2 := (hB a' _ ca').2 h1 b' w'' cb'
        simpa only [PT.out, PT.flat, PT.caps, after_append] using h2
      | seqR h =>
        have e : w1 = b'.word ++ w'' := List.append_cancel_left (ca.split.symm.trans ca'.split)
        subst e
        have h2 := hmin2 b' w'' cb' h
        simpa only [PT.out, PT.flat, PT.caps, after_append] using h2
  · intro ho t w' ct
    obtain ⟨a', b', rfl, _, _⟩ := ct.mem
    obtain ⟨ca', cb'⟩ := dec ct
    have h1 := hA.2 ho a' _ ca'
    have h2 := (hB a' _ ca').2 h1 b' w' cb'
    simpa only [PT.out, PT.flat, PT.caps, after_append] using h2

theorem First.seq' {A B : PSet} {w v c k o} {g : Step} (hA : First A w v c (fun w' v' c' => g w' v' c' k) o)
    (hB : Spec B g) : First (SeqP A B) w v c k o :=
  First.seq hA (fun _ _ _ => hB _ _ _ _)

/-- a union state -/
theorem First.st {A : PSet} {x : Sid} {w v c k} {f : Vis → Option Caps}
    (hA : x ∉ v → First A w (x :: v) c k (f (x :: v))) : First (StP x A) w v c k (enter x v f) := by
  by_cases hx : x ∈ v
  · have : enter x v f = none := by
      unfold enter
      rw [if_pos (by simpa using hx)]
    rw [this]
    apply First.empty
    rintro t w' ⟨⟨a, rfl, _⟩, _, hok⟩
    exact hok.1 hx
  · rw [enter_fresh hx]
    have h := hA hx
    have dec : ∀ {t w'}, Cand (StP x A) w v t w' → ∃ a, t = .st x a ∧ Cand A w (x :: v) a w' := by
      rintro t w' ⟨⟨a, rfl, ha⟩, hs, hok⟩
      exact ⟨a, rfl, ha, hs, hok.2⟩
    constructor
    · intro res ho
      obtain ⟨a, w1, ca, hout, hmin⟩ := h.1 res ho
      refine ⟨.st x a, w1, ⟨⟨a, rfl, ca.mem⟩, ca.split, ⟨hx, ca.ok⟩⟩, hout, ?_⟩
      intro t' w'' ct' hp
      obtain ⟨a', rfl, ca'⟩ := dec ct'
      cases hp with
      | st hp => exact hmin a' w'' ca' hp
    · intro ho t w' ct
      obtain ⟨a', rfl, ca'⟩ := dec ct
      exact h.2 ho a' w' ca'

/-- **a union: the first alternative that leads to success wins** -/
theorem First.or {A B : PSet} {w v c k} {a : Option Caps} {b : Unit → Option Caps}
    (hA : First A w v c k a) (hB : First B w v c k (b ())) : First (OrP A B) w v c k (orElse' a b) := by
  have decl : ∀ {t w'}, Cand (OrP A B) w v (.inl t) w' → Cand A w v t w' := by
    rintro t w' ⟨h | h, hs, hok⟩
    · obtain ⟨a, e, ha⟩ := h
      cases e
      exact ⟨ha, hs, hok⟩
    · obtain ⟨a, e, ha⟩ := h
      cases e
  have decr : ∀ {t w'}, Cand (OrP A B) w v (.inr t) w' → Cand B w v t w' := by
    rintro t w' ⟨h | h, hs, hok⟩
    · obtain ⟨a, e, ha⟩ := h
      cases e
    · obtain ⟨a, e, ha⟩ := h
      cases e
      exact ⟨ha, hs, hok⟩
  have shape : ∀ {t w'}, Cand (OrP A B) w v t w' → (∃ a, t = .inl a) ∨ (∃ b, t = .inr b) := by
    rintro t w' ⟨h | h, _, _⟩
    · obtain ⟨a, e, _⟩ := h
      exact Or.inl ⟨a, e⟩
    · obtain ⟨a, e, _⟩ := h
      exact Or.inr ⟨a, e⟩
  cases a with
  | some x =>
    constructor
    · intro res ho
      obtain ⟨t, w1, ct, hout, hmin⟩ := hA.1 res ho
      refine ⟨.inl t, w1, ⟨Or.inl ⟨t, rfl, ct.mem⟩, ct.split, ct.ok⟩, hout, ?_⟩
      intro t' w'' ct' hp
      cases hp with
      | @inl a' _ hp => exact hmin a' w'' (decl ct') hp
    · intro ho
      cases ho
  | none =>
    have hAn := hA.2 rfl
    constructor
    · intro res ho
      have ho : b () = some res := ho
      obtain ⟨t, w1, ct, hout, hmin⟩ := hB.1 res ho
      refine ⟨.inr t, w1, ⟨Or.inr ⟨t, rfl, ct.mem⟩, ct.split, ct.ok⟩, hout, ?_⟩
      intro t' w'' ct' hp
      cases hp with
      | @inlr a' _ => exact hAn a' w'' (decl ct')
      | @inr b' _ hp => exact hmin b' w'' (decr ct') hp
    · intro ho t w' ct
      have ho : b () = none := ho
      rcases shape ct with ⟨a, rfl⟩ | ⟨a, rfl⟩
      · exact hAn a w' (decl ct)
      · exact hB.2 ho a w' (decr ct)

/-- the union of a loop -/
theorem First.prefer {M L : PSet} {lazy : Bool} {w v c k} {more leave : Unit → Option Caps}
    (hM : First M w v c k (more ())) (hL : First L w v c k (leave ())) :
    First (PrefP lazy M L) w v c k (prefer lazy more leave) := by
  cases lazy with
  | true =>
    simp only [PrefP, Wax.prefer, if_true]
    exact First.or hL hM
  | false =>
    simp only [PrefP, Wax.prefer, Bool.false_eq_true, if_false]
    exact First.or hM hL

/-- a union whose "more" side has no candidate -/
theorem First.prefer_leave {M : PSet} {lazy : Bool} {w v c k} (hM : ∀ t w', ¬ Cand M w v t w') :
    First (PrefP lazy M EpsP) w v c k (k w v c) := by
  have h1 : First M w v c k none := First.empty hM
  have h2 : First EpsP w v c k (k w v c) := First.eps
  cases lazy with
  | true =>
    have := First.or (b := fun _ => none) h2 h1
    have e : orElse' (k w v c) (fun _ => none) = k w v c := by
      unfold orElse'
      cases k w v c <;> rfl
    rw [e] at this
    exact this
  | false =>
    exact First.or (a := none) (b := fun _ => k w v c) h1 h2

/-- a group: the slot receives the text consumed -/
theorem First.cap {A : PSet} {n : Nat} {w v c k o}
    (hA : First A w v c (fun w' v' c' => k w' v' (c'.set n (some (w.take (w.length - w'.length))))) o) :
    First (CapP n A) w v c k o := by
  have dec : ∀ {t w'}, Cand (CapP n A) w v t w' → ∃ a, t = .cap n a ∧ Cand A w v a w' := by
    rintro t w' ⟨⟨a, rfl, ha⟩, hs, hok⟩
    exact ⟨a, rfl, ha, hs, hok⟩
  have eo : ∀ {a w'}, Cand A w v a w' →
      (PT.cap n a).out v c k w' =
        a.out v c (fun w' v' c' => k w' v' (c'.set n (some (w.take (w.length - w'.length))))) w' := by
    intro a w' ca
    simp only [PT.out, PT.flat, PT.caps]
    rw [ca.split, take_consumed]
  constructor
  · intro res ho
    obtain ⟨a, w1, ca, hout, hmin⟩ := hA.1 res ho
    refine ⟨.cap n a, w1, ⟨⟨a, rfl, ca.mem⟩, ca.split, ca.ok⟩, (eo ca).trans hout, ?_⟩
    intro t' w'' ct' hp
    obtain ⟨a', rfl, ca'⟩ := dec ct'
    cases hp with
    | cap hp => exact (eo ca').trans (hmin a' w'' ca' hp)
  · intro ho t w' ct
    obtain ⟨a', rfl, ca'⟩ := dec ct
    exact (eo ca').trans (hA.2 ho a' w' ca')

/-! ### the flat traces of the trees are traces of `Wax/Proofs/ExecTrace.lean` -/

/-- the traces of the trees of `A` are in `A'` -/
def Sub (A : PSet) (A' : TS) : Prop := ∀ t, A t → A' t.flat

/-- all trees begin alike -/
def FEDP (A : PSet) : Prop := ∀ t1 t2, A t1 → A t2 → hk t1.flat = hk t2.flat

theorem Sub.fed {A : PSet} {A' : TS} (h : Sub A A') (hf : FED A') : FEDP A :=
  fun t1 t2 h1 h2 => hf _ _ (h t1 h1) (h t2 h2)

theorem Sub.eps : Sub EpsP Eps := by
  rintro t rfl
  rfl

theorem Sub.none : Sub NoneP (fun _ => False) := fun _ h => h

theorem Sub.seq {A B : PSet} {A' B' : TS} (hA : Sub A A') (hB : Sub B B') : Sub (SeqP A B) (Seq A' B') := by
  rintro t ⟨a, b, rfl, ha, hb⟩
  exact ⟨a.flat, b.flat, rfl, hA a ha, hB b hb⟩

theorem Sub.st {A : PSet} {A' : TS} (x : Sid) (hA : Sub A A') : Sub (StP x A) (Pre x A') := by
  rintro t ⟨a, rfl, ha⟩
  exact ⟨a.flat, rfl, hA a ha⟩

theorem Sub.or {A B : PSet} {A' B' : TS} (hA : Sub A A') (hB : Sub B B') : Sub (OrP A B) (Or A' B') := by
  rintro t (⟨a, rfl, ha⟩ | ⟨b, rfl, hb⟩)
  · exact Or.inl (hA a ha)
  · exact Or.inr (hB b hb)

theorem Sub.pref {M L : PSet} {M' L' : TS} (lazy : Bool) (hM : Sub M M') (hL : Sub L L') :
    Sub (PrefP lazy M L) (Or M' L') := by
  cases lazy with
  | true =>
    intro t ht
    exact (Sub.or hL hM t ht).symm
  | false => exact Sub.or hM hL

theorem Sub.cap {A : PSet} {A' : TS} (n : Nat) (hA : Sub A A') : Sub (CapP n A) A' := by
  rintro t ⟨a, rfl, ha⟩
  exact hA a ha

/-! ### the loops -/

/-- `U: x → U | leave` -/
inductive LUP (lazy : Bool) (B : PSet) (U : Sid) : PSet
  | leave : LUP lazy B U (.st U (leaveT lazy))
  | more {a l : PT} : B a → LUP lazy B U l → LUP lazy B U (.st U (moreT lazy (.seq a l)))

/-- `x; P: x | leave` -/
inductive PLP (lazy : Bool) (B : PSet) (P : Sid) : PSet
  | last {a : PT} : B a → PLP lazy B P (.seq a (.st P (leaveT lazy)))
  | more {a l : PT} : B a → PLP lazy B P l → PLP lazy B P (.seq a (.st P (moreT lazy l)))

/-- `Q: x+ | leave` -/
def SQP (lazy : Bool) (B : PSet) (Q P : Sid) : PSet := StP Q (PrefP lazy (PLP lazy B P) EpsP)

theorem prefP_iff {lazy : Bool} {M L : PSet} {t : PT} :
    PrefP lazy M L t ↔ (∃ x, t = moreT lazy x ∧ M x) ∨ (∃ y, (t = match lazy with | true => .inl y | false => .inr y) ∧ L y) := by
  cases lazy with
  | true => simp only [PrefP, OrP, moreT]; exact Or.comm
  | false => simp only [PrefP, OrP, moreT]

theorem prefP_more {lazy : Bool} {M L : PSet} {x : PT} (h : M x) : PrefP lazy M L (moreT lazy x) :=
  prefP_iff.mpr (Or.inl ⟨x, rfl, h⟩)

theorem prefP_leave {lazy : Bool} {M : PSet} : PrefP lazy M EpsP (leaveT lazy) :=
  prefP_iff.mpr (Or.inr ⟨.eps, by cases lazy <;> rfl, rfl⟩)

theorem prefP_eps_cases {lazy : Bool} {M : PSet} {t : PT} (h : PrefP lazy M EpsP t) :
    (∃ x, t = moreT lazy x ∧ M x) ∨ t = leaveT lazy := by
  rcases prefP_iff.mp h with h | ⟨y, e, rfl⟩
  · exact Or.inl h
  · right
    cases lazy <;> exact e

theorem lup_unfold {lazy : Bool} {B : PSet} {U : Sid} (t : PT) :
    LUP lazy B U t ↔ StP U (PrefP lazy (SeqP B (LUP lazy B U)) EpsP) t := by
  constructor
  · intro h
    cases h with
    | leave => exact ⟨_, rfl, prefP_leave⟩
    | more ha hl => exact ⟨_, rfl, prefP_more ⟨_, _, rfl, ha, hl⟩⟩
  · rintro ⟨y, rfl, hy⟩
    rcases prefP_eps_cases hy with ⟨x, rfl, a, l, rfl, ha, hl⟩ | rfl
    · exact .more ha hl
    · exact .leave

theorem plp_unfold {lazy : Bool} {B : PSet} {P : Sid} (t : PT) :
    PLP lazy B P t ↔ SeqP B (StP P (PrefP lazy (PLP lazy B P) EpsP)) t := by
  constructor
  · intro h
    cases h with
    | last ha => exact ⟨_, _, rfl, ha, _, rfl, prefP_leave⟩
    | more ha hl => exact ⟨_, _, rfl, ha, _, rfl, prefP_more hl⟩
  · rintro ⟨a, y, rfl, ha, z, rfl, hz⟩
    rcases prefP_eps_cases hz with ⟨x, rfl, hl⟩ | rfl
    · exact .more ha hl
    · exact .last ha

theorem flat_moreT (lazy : Bool) (x : PT) : (moreT lazy x).flat = x.flat := by cases lazy <;> rfl
theorem flat_leaveT (lazy : Bool) : (leaveT lazy).flat = [] := by cases lazy <;> rfl

theorem LUP.flat_head {lazy : Bool} {B : PSet} {U : Sid} {l : PT} (h : LUP lazy B U l) :
    ∃ r, l.flat = .s U :: r := by
  cases h with
  | leave => exact ⟨_, rfl⟩
  | more _ _ => exact ⟨_, rfl⟩

theorem PLP.flat_head {lazy : Bool} {B : PSet} {P : Sid} {l : PT} (h : PLP lazy B P l) :
    ∃ a r, B a ∧ l.flat = a.flat ++ .s P :: r := by
  cases h with
  | last ha => exact ⟨_, _, ha, rfl⟩
  | more ha _ => exact ⟨_, _, ha, rfl⟩

theorem Sub.lup {B : PSet} {B' : TS} (lazy : Bool) (U : Sid) (hB : Sub B B') : Sub (LUP lazy B U) (LU B' U) := by
  intro t ht
  induction ht with
  | leave =>
    simp only [PT.flat, flat_leaveT]
    exact .leave
  | more ha _ ih =>
    simp only [PT.flat, flat_moreT]
    exact .more (hB _ ha) ih

theorem Sub.plp {B : PSet} {B' : TS} (lazy : Bool) (P : Sid) (hB : Sub B B') : Sub (PLP lazy B P) (PL B' P) := by
  intro t ht
  induction ht with
  | last ha =>
    simp only [PT.flat, flat_leaveT]
    exact ⟨_, _, rfl, hB _ ha, .leave⟩
  | more ha _ ih =>
    simp only [PT.flat, flat_moreT]
    obtain ⟨a2, l2, e, h1, h2⟩ := ih
    rw [e]
    exact ⟨_, _, rfl, hB _ ha, .more h1 h2⟩

theorem Sub.sq {B : PSet} {B' : TS} (lazy : Bool) (Q P : Sid) (hB : Sub B B') :
    Sub (SQP lazy B Q P) (SQ B' Q P) :=
  Sub.st Q (Sub.pref lazy (Sub.plp lazy P hB) Sub.eps)

/-- after an empty round the loop state would be entered again -/
theorem lup_after_empty {lazy : Bool} {B : PSet} {U : Sid} {a l : PT} {v : Vis} (hl : LUP lazy B U l)
    (ha : a.word = []) (hU : U ∈ v) : ¬ RunOK (after v a.flat) l.flat := by
  obtain ⟨r, e⟩ := hl.flat_head
  rw [e]
  intro h
  exact h.1 (mem_after_of_mem a.flat v U (by rw [PT.word_flat, ha]) hU)

/-- after an empty round another round would enter its first state again -/
theorem plp_after_empty {lazy : Bool} {B : PSet} {P : Sid} {a l : PT} {v : Vis} (hfed : FEDP B) (hl : PLP lazy B P l)
    (hB : B a) (ha : a.word = []) : ¬ RunOK (P :: after v a.flat) l.flat := by
  obtain ⟨a2, r, ha2, e⟩ := hl.flat_head
  rw [e]
  intro h
  have hh := hfed a a2 hB ha2
  have hw : Wax.word a.flat = [] := by rw [PT.word_flat, ha]
  rcases word_nil_cases a.flat hw with e1 | ⟨x, t', e1⟩
  · have : a2.flat = [] := by rw [← hk_eq_none, ← hh, e1]; rfl
    rw [this] at h
    exact h.1 (List.mem_cons_self ..)
  · rw [e1] at hh
    obtain ⟨t2, e2⟩ := hk_s_cases hh.symm
    rw [e2] at h
    have hx : x ∈ after v a.flat := by
      rw [e1]
      exact mem_after_of_ev _ v x (e1 ▸ hw) (List.mem_cons_self ..)
    exact h.1 (List.mem_cons_of_mem _ hx)

theorem word_nil_of_not_lt {u w w' : Str} (hs : w = u ++ w') (h : ¬ w'.length < w.length) : u = [] := by
  have := congrArg List.length hs
  simp only [List.length_append] at this
  exact List.length_eq_zero_iff.mp (by omega)

section loops
variable {B : PSet} {body : Step}

theorem loopU_first (hb : Spec B body) (U : Sid) (lazy : Bool) : ∀ (fuel : Nat) (w : Str) (v : Vis) (c : Caps)
    (k : Kont), w.length ≤ fuel → First (LUP lazy B U) w v c k (loopU body U lazy fuel w v c k) := by
  intro fuel
  induction fuel with
  | zero =>
    intro w v c k hlen
    simp only [loopU]
    refine First.congr ?_ lup_unfold
    refine First.st (f := fun v' => k w v' c) (fun hU => ?_)
    refine First.prefer_leave ?_
    rintro t w' ⟨⟨a, l, rfl, _, hl⟩, hs, hok⟩
    have hw : w = [] := List.length_eq_zero_iff.mp (by omega)
    subst hw
    simp only [PT.word, List.append_assoc] at hs
    have ha : a.word = [] := (List.append_eq_nil_iff.mp hs.symm).1
    simp only [PT.flat, runOK_append] at hok
    exact lup_after_empty hl ha (List.mem_cons_self ..) hok.2
  | succ n ih =>
    intro w v c k hlen
    simp only [loopU]
    refine First.congr ?_ lup_unfold
    refine First.st (f := fun v' => prefer lazy
        (fun _ => body w v' c (fun w' v'' c' =>
          if w'.length < w.length then loopU body U lazy n w' v'' c' k else none))
        (fun _ => k w v' c)) (fun hU => ?_)
    refine First.prefer ?_ First.eps
    refine First.seq (hb _ _ _ _) ?_
    intro a w' ca
    by_cases hlt : w'.length < w.length
    · simp only [if_pos hlt]
      exact ih w' _ _ k (by omega)
    · simp only [if_neg hlt]
      apply First.empty
      rintro l w'' ⟨hl, _, hok⟩
      exact lup_after_empty hl (word_nil_of_not_lt ca.split hlt) (List.mem_cons_self ..) hok

theorem plusLoop_first (hb : Spec B body) (hfed : FEDP B) (P : Sid) (lazy : Bool) : ∀ (fuel : Nat) (w : Str)
    (v : Vis) (c : Caps) (k : Kont), w.length ≤ fuel →
    First (PLP lazy B P) w v c k (plusLoop body P lazy fuel w v c k) := by
  intro fuel
  induction fuel with
  | zero =>
    intro w v c k hlen
    simp only [plusLoop]
    refine First.congr ?_ plp_unfold
    refine First.seq (hb _ _ _ _) ?_
    intro a w' ca
    refine First.st (f := fun v'' => k w' v'' (a.caps c)) (fun hP => ?_)
    refine First.prefer_leave ?_
    rintro l w'' ⟨hl, _, hok⟩
    have hw : w = [] := List.length_eq_zero_iff.mp (by omega)
    have ha : a.word = [] := (List.append_eq_nil_iff.mp (hw ▸ ca.split).symm).1
    exact plp_after_empty hfed hl ca.mem ha hok
  | succ n ih =>
    intro w v c k hlen
    simp only [plusLoop]
    refine First.congr ?_ plp_unfold
    refine First.seq (hb _ _ _ _) ?_
    intro a w' ca
    refine First.st (f := fun v'' => prefer lazy
        (fun _ => if w'.length < w.length then plusLoop body P lazy n w' v'' (a.caps c) k else none)
        (fun _ => k w' v'' (a.caps c))) (fun hP => ?_)
    refine First.prefer ?_ First.eps
    by_cases hlt : w'.length < w.length
    · simp only [if_pos hlt]
      have hl' : w'.length ≤ n := by omega
      exact ih w' _ _ k hl'
    · simp only [if_neg hlt]
      apply First.empty
      rintro l w'' ⟨hl, _, hok⟩
      exact plp_after_empty hfed hl ca.mem (word_nil_of_not_lt ca.split hlt) hok

theorem starQ_spec (hb : Spec B body) (hfed : FEDP B) (Q P : Sid) (lazy : Bool) :
    Spec (SQP lazy B Q P) (starQ body Q P lazy) := by
  intro w v c k
  simp only [starQ]
  refine First.st (f := fun v' => prefer lazy (fun _ => plusLoop body P lazy w.length w v' c k)
    (fun _ => k w v' c)) (fun hQ => ?_)
  exact First.prefer (plusLoop_first hb hfed P lazy _ _ _ _ _ (Nat.le_refl _)) First.eps

end loops

/-! ### unrolled copies -/

def ExactlyP (B : Nat → PSet) : Nat → Nat → PSet
  | 0, _ => EpsP
  | n + 1, i => SeqP (B i) (ExactlyP B n (i + 1))

def OptNestP (B : Nat → PSet) (un : Nat → Sid) : Nat → Nat → PSet
  | 0, _ => EpsP
  | n + 1, i => StP (un i) (OrP (SeqP (B i) (OptNestP B un n (i + 1))) EpsP)

def StarP (nn : Bool) (B : Nat → PSet) (un : Nat → Sid) (lazy : Bool) : PSet :=
  if nn then LUP lazy (B 0) (un 0) else SQP lazy (B 0) (un 0) (un 1)

def RepeatP (nn : Bool) (B : Nat → PSet) (un : Nat → Sid) (lo : Nat) (hi : Option Nat) : PSet :=
  match hi with
  | some h => if lo ≤ h then SeqP (ExactlyP B lo 0) (OptNestP B un (h - lo) lo) else NoneP
  | none =>
    match lo with
    | 0 => StarP nn B un false
    | m + 1 => SeqP (ExactlyP B m 0) (PLP false (B m) (un m))

section copies
variable {B : Nat → PSet} {B' : Nat → TS} {body : Nat → Step}

theorem Sub.exactly (hB : ∀ i, Sub (B i) (B' i)) : ∀ (n i : Nat), Sub (ExactlyP B n i) (Exactly B' n i)
  | 0, _ => Sub.eps
  | n + 1, i => Sub.seq (hB i) (Sub.exactly hB n (i + 1))

theorem Sub.optNest (hB : ∀ i, Sub (B i) (B' i)) (un : Nat → Sid) :
    ∀ (n i : Nat), Sub (OptNestP B un n i) (OptNest B' un n i)
  | 0, _ => Sub.eps
  | n + 1, i => Sub.st (un i) (Sub.or (Sub.seq (hB i) (Sub.optNest hB un n (i + 1))) Sub.eps)

theorem Sub.starP (hB : ∀ i, Sub (B i) (B' i)) (nn : Bool) (un : Nat → Sid) (lazy : Bool) :
    Sub (StarP nn B un lazy) (StarT nn B' un) := by
  unfold StarP StarT
  split
  · exact Sub.lup lazy _ (hB 0)
  · exact Sub.sq lazy _ _ (hB 0)

theorem Sub.repeatP (hB : ∀ i, Sub (B i) (B' i)) (nn : Bool) (un : Nat → Sid) (lo : Nat) (hi : Option Nat) :
    Sub (RepeatP nn B un lo hi) (RepT nn B' un lo hi) := by
  cases hi with
  | some h =>
    by_cases hle : lo ≤ h
    · simp only [RepeatP, RepT, if_pos hle]
      exact Sub.seq (Sub.exactly hB _ _) (Sub.optNest hB un _ _)
    · simp only [RepeatP, RepT, if_neg hle]
      exact Sub.none
  | none =>
    cases lo with
    | zero =>
      simp only [RepeatP, RepT]
      exact Sub.starP hB nn un false
    | succ m =>
      simp only [RepeatP, RepT]
      exact Sub.seq (Sub.exactly hB _ _) (Sub.plp false _ (hB _))

theorem exactly_spec (hb : ∀ i, Spec (B i) (body i)) : ∀ (n i : Nat), Spec (ExactlyP B n i) (exactly body n i)
  | 0, _ => fun _ _ _ _ => First.eps
  | n + 1, i => fun w v c k => by
    simp only [exactly, ExactlyP]
    exact First.seq' (g := exactly body n (i + 1)) (hb i _ _ _ _) (exactly_spec hb n (i + 1))

theorem optNest_spec (hb : ∀ i, Spec (B i) (body i)) (un : Nat → Sid) :
    ∀ (n i : Nat), Spec (OptNestP B un n i) (optNest body un n i)
  | 0, _ => fun _ _ _ _ => First.eps
  | n + 1, i => fun w v c k => by
    simp only [optNest, OptNestP]
    refine First.st (f := fun v' => orElse'
      (body i w v' c (fun w' v'' c' => optNest body un n (i + 1) w' v'' c' k)) (fun _ => k w v' c)) (fun _ => ?_)
    exact First.or (First.seq' (g := optNest body un n (i + 1)) (hb i _ _ _ _) (optNest_spec hb un n (i + 1)))
      First.eps

theorem starLoop_spec (hb : ∀ i, Spec (B i) (body i)) (hfed : ∀ i, FEDP (B i)) (nn : Bool) (un : Nat → Sid)
    (lazy : Bool) : Spec (StarP nn B un lazy) (starLoop nn body un lazy) := by
  intro w v c k
  unfold StarP starLoop
  split
  · exact loopU_first (hb 0) _ lazy _ _ _ _ _ (Nat.le_refl _)
  · exact starQ_spec (hb 0) (hfed 0) _ _ lazy _ _ _ _

theorem repLoop_spec (hb : ∀ i, Spec (B i) (body i)) (hfed : ∀ i, FEDP (B i)) (nn : Bool) (un : Nat → Sid)
    (lo : Nat) (hi : Option Nat) : Spec (RepeatP nn B un lo hi) (repLoop nn body un lo hi) := by
  intro w v c k
  cases hi with
  | some hh =>
    by_cases hle : lo ≤ hh
    · simp only [RepeatP, repLoop, if_pos hle]
      exact First.seq' (g := optNest body un (hh - lo) lo) (exactly_spec hb lo 0 _ _ _ _) (optNest_spec hb un _ _)
    · simp only [RepeatP, repLoop, if_neg hle]
      exact First.empty (fun _ _ h => h.mem)
  | none =>
    cases lo with
    | zero =>
      simp only [RepeatP, repLoop]
      exact starLoop_spec hb hfed nn un false _ _ _ _
    | succ m =>
      simp only [RepeatP, repLoop]
      refine First.seq (exactly_spec hb m 0 _ _ _ _) ?_
      intro a w' _
      exact plusLoop_first (hb m) (hfed m) _ false _ _ _ _ _ (Nat.le_refl _)

end copies

/-! ### the trees of a pattern -/

mutual
  /-- the parse trees of `r` at node `id`, the first group of `r` having slot `n` -/
  def Re.PT (σ : Sem) : Re → Sid → Nat → PSet
    | .lit s ci, _, _ => fun t => ∃ u, litEq σ ci s u = true ∧ t = .chars u
    | .chr p, _, _ => fun t => ∃ a, p.holds σ a = true ∧ t = .chars [a]
    | .never, _, _ => NoneP
    | .cat l, id, n => Re.PTCat σ l id 0 n
    | .alt l, id, n =>
      match l with
      | _ :: _ :: _ => StP (0 :: id) (Re.PTAlt σ l id 1 n)
      | _ => Re.PTAlt σ l id 1 n
    | .star r, id, n =>
      StarP r.nonNull (fun i => Re.PT σ r ((2 * i + 1) :: id) n) (fun i => (2 * i) :: id) false
    | .lazyStar r, id, n =>
      StarP r.nonNull (fun i => Re.PT σ r ((2 * i + 1) :: id) n) (fun i => (2 * i) :: id) true
    | .opt r, id, n => StP (0 :: id) (OrP (Re.PT σ r (1 :: id) n) EpsP)
    | .rep r lo hi, id, n =>
      RepeatP r.nonNull (fun i => Re.PT σ r ((2 * i + 1) :: id) n) (fun i => (2 * i) :: id) lo hi
    | .cap r, id, n => CapP n (Re.PT σ r (0 :: id) (n + 1))
    | .grp r, id, n => Re.PT σ r (0 :: id) n
  /-- concatenation: element `j` is node `j :: id` and owns the slots from `n` -/
  def Re.PTCat (σ : Sem) : List Re → Sid → Nat → Nat → PSet
    | [], _, _, _ => EpsP
    | r :: rs, id, j, n => SeqP (Re.PT σ r (j :: id) n) (Re.PTCat σ rs id (j + 1) (n + r.ncaps))
  /-- alternation: the earlier branch is the first alternative -/
  def Re.PTAlt (σ : Sem) : List Re → Sid → Nat → Nat → PSet
    | [], _, _, _ => NoneP
    | r :: rs, id, j, n => OrP (Re.PT σ r (j :: id) n) (Re.PTAlt σ rs id (j + 1) (n + r.ncaps))
end

mutual
  /-- the trees are trees of paths of `Wax/Proofs/ExecCompleteAll.lean` -/
  theorem pt_sub_tr (σ : Sem) : ∀ (r : Re) (id : Sid) (n : Nat), Sub (r.PT σ id n) (r.Tr σ id)
    | .lit s ci, id, n => by
      rintro t ⟨u, hu, rfl⟩
      exact ⟨u, hu, rfl⟩
    | .chr p, id, n => by
      rintro t ⟨a, ha, rfl⟩
      exact ⟨a, ha, rfl⟩
    | .never, id, n => Sub.none
    | .cat l, id, n => by
      simp only [Re.PT, Re.Tr]
      exact ptCat_sub_tr σ l id 0 n
    | .alt l, id, n => by
      have h := ptAlt_sub_tr σ l id 1 n
      rcases l with _ | ⟨a, _ | ⟨b, l⟩⟩
      · simp only [Re.PT, Re.Tr]; exact h
      · simp only [Re.PT, Re.Tr]; exact h
      · simp only [Re.PT, Re.Tr]; exact Sub.st _ h
    | .star r, id, n => by
      simp only [Re.PT, Re.Tr]
      exact Sub.starP (fun i => pt_sub_tr σ r _ n) _ _ _
    | .lazyStar r, id, n => by
      simp only [Re.PT, Re.Tr]
      exact Sub.starP (fun i => pt_sub_tr σ r _ n) _ _ _
    | .opt r, id, n => by
      simp only [Re.PT, Re.Tr]
      exact Sub.st _ (Sub.or (pt_sub_tr σ r _ n) Sub.eps)
    | .rep r lo hi, id, n => by
      simp only [Re.PT, Re.Tr]
      exact Sub.repeatP (fun i => pt_sub_tr σ r _ n) _ _ lo hi
    | .cap r, id, n => by
      simp only [Re.PT, Re.Tr]
      exact Sub.cap n (pt_sub_tr σ r _ (n + 1))
    | .grp r, id, n => by
      simp only [Re.PT, Re.Tr]
      exact pt_sub_tr σ r _ n
  theorem ptCat_sub_tr (σ : Sem) : ∀ (l : List Re) (id : Sid) (j n : Nat),
      Sub (Re.PTCat σ l id j n) (Re.TrCat σ l id j)
    | [], id, j, n => by simp only [Re.PTCat, Re.TrCat]; exact Sub.eps
    | r :: rs, id, j, n => by
      simp only [Re.PTCat, Re.TrCat]
      exact Sub.seq (pt_sub_tr σ r _ n) (ptCat_sub_tr σ rs id (j + 1) _)
  theorem ptAlt_sub_tr (σ : Sem) : ∀ (l : List Re) (id : Sid) (j n : Nat),
      Sub (Re.PTAlt σ l id j n) (Re.TrAlt σ l id j)
    | [], id, j, n => by simp only [Re.PTAlt, Re.TrAlt]; exact Sub.none
    | r :: rs, id, j, n => by
      simp only [Re.PTAlt, Re.TrAlt]
      exact Sub.or (pt_sub_tr σ r _ n) (ptAlt_sub_tr σ rs id (j + 1) _)
end

theorem pt_fed (σ : Sem) (r : Re) (id : Sid) (n : Nat) : FEDP (r.PT σ id n) :=
  (pt_sub_tr σ r id n).fed (tr_fed σ r id)

/-! ### `Re.run` computes `First` -/

theorem litEq_len (σ : Sem) (ci : Bool) : ∀ (s u : Str), litEq σ ci s u = true → u.length = s.length
  | [], [], _ => rfl
  | [], _ :: _, h => by simp [litEq] at h
  | _ :: _, [], h => by simp [litEq] at h
  | a :: s, b :: u, h => by
    simp only [litEq, Bool.and_eq_true] at h
    simp only [List.length_cons, litEq_len σ ci s u h.2]

mutual
  /-- **the search computes the least candidate**, for every pattern -/
  theorem run_first (σ : Sem) : ∀ (r : Re) (id : Sid) (n : Nat), Spec (r.PT σ id n) (r.run σ id n)
    | .lit s ci, id, n => by
      intro w v c k
      simp only [Re.run]
      have hcand : ∀ {t w'}, Cand ((Re.lit s ci).PT σ id n) w v t w' →
          litStrip σ ci s w = some w' ∧ t.out v c k w' = k w' (if s.isEmpty then v else []) c := by
        rintro t w' ⟨⟨u, hu, rfl⟩, hs, _⟩
        obtain ⟨h1, h2⟩ := litStrip_complete σ ci s u w' hu
        have hs : w = u ++ w' := hs
        subst hs
        refine ⟨h1, ?_⟩
        simp only [PT.out, PT.flat, PT.caps, after_map_c]
        by_cases hu' : u = []
        · rw [if_pos hu', if_pos (h2.mpr hu')]
        · rw [if_neg hu', if_neg (fun h => hu' (h2.mp h))]
      cases hw : litStrip σ ci s w with
      | none =>
        apply First.empty
        intro t w' ct
        rw [(hcand ct).1] at hw
        cases hw
      | some w1 =>
        simp only
        obtain ⟨u, rfl, hu⟩ := litStrip_sound σ ci _ _ _ hw
        have ct : Cand ((Re.lit s ci).PT σ id n) (u ++ w1) v (.chars u) w1 :=
          ⟨⟨u, hu, rfl⟩, rfl, by simp only [PT.flat]; exact runOK_map_c u v⟩
        constructor
        · intro res ho
          refine ⟨.chars u, w1, ct, (hcand ct).2.trans ho, ?_⟩
          rintro t' w'' ⟨⟨u', _, rfl⟩, _, _⟩ hp
          cases hp
        · intro ho t w' ct'
          obtain ⟨h1, h2⟩ := hcand ct'
          rw [hw] at h1
          cases h1
          exact h2.trans ho
    | .chr p, id, n => by
      intro w v c k
      simp only [Re.run]
      have hcand : ∀ {t w'}, Cand ((Re.chr p).PT σ id n) w v t w' →
          ∃ a, w = a :: w' ∧ p.holds σ a = true ∧ t = .chars [a] := by
        rintro t w' ⟨⟨a, ha, rfl⟩, hs, _⟩
        exact ⟨a, hs, ha, rfl⟩
      cases w with
      | nil =>
        apply First.empty
        intro t w' ct
        obtain ⟨a, e, _⟩ := hcand ct
        cases e
      | cons a w1 =>
        simp only
        by_cases ha : p.holds σ a = true
        · rw [if_pos ha]
          constructor
          · intro res ho
            refine ⟨.chars [a], w1, ⟨⟨a, ha, rfl⟩, rfl, trivial⟩, ho, ?_⟩
            rintro t' w'' ct' hp
            obtain ⟨_, _, _, rfl⟩ := hcand ct'
            cases hp
          · intro ho t w' ct
            obtain ⟨a', e, _, rfl⟩ := hcand ct
            cases e
            exact ho
        · rw [if_neg ha]
          apply First.empty
          intro t w' ct
          obtain ⟨a', e, ha', _⟩ := hcand ct
          cases e
          exact ha ha'
    | .never, id, n => fun w v c k => by
      simp only [Re.run]
      exact First.empty (fun _ _ h => h.mem)
    | .cat l, id, n => fun w v c k => by
      simp only [Re.run, Re.PT]
      exact runCat_first σ l id 0 n w v c k
    | .alt l, id, n => fun w v c k => by
      have h := runAlt_first σ l id 1 n
      rcases l with _ | ⟨a, _ | ⟨b, l⟩⟩
      · simp only [Re.run, Re.PT]; exact h w v c k
      · simp only [Re.run, Re.PT]; exact h w v c k
      · simp only [Re.run, Re.PT]
        exact First.st (f := fun v' => Re.runAlt σ (a :: b :: l) id 1 n w v' c k) (fun _ => h w _ c k)
    | .star r, id, n => fun w v c k => by
      simp only [Re.run, Re.PT]
      exact starLoop_spec (fun i => run_first σ r _ n) (fun i => pt_fed σ r _ n) _ _ false w v c k
    | .lazyStar r, id, n => fun w v c k => by
      simp only [Re.run, Re.PT]
      exact starLoop_spec (fun i => run_first σ r _ n) (fun i => pt_fed σ r _ n) _ _ true w v c k
    | .opt r, id, n => fun w v c k => by
      simp only [Re.run, Re.PT]
      exact First.st (f := fun v' => orElse' (Re.run σ r (1 :: id) n w v' c k) (fun _ => k w v' c))
        (fun _ => First.or (run_first σ r (1 :: id) n w _ c k) First.eps)
    | .rep r lo hi, id, n => fun w v c k => by
      simp only [Re.run, Re.PT]
      exact repLoop_spec (fun i => run_first σ r _ n) (fun i => pt_fed σ r _ n) _ _ lo hi w v c k
    | .cap r, id, n => fun w v c k => by
      simp only [Re.run, Re.PT]
      exact First.cap (run_first σ r (0 :: id) (n + 1) w v c _)
    | .grp r, id, n => fun w v c k => by
      simp only [Re.run, Re.PT]
      exact run_first σ r (0 :: id) n w v c k
  theorem runCat_first (σ : Sem) : ∀ (l : List Re) (id : Sid) (j n : Nat),
      Spec (Re.PTCat σ l id j n) (Re.runCat σ l id j n)
    | [], id, j, n => fun w v c k => by
      simp only [Re.runCat, Re.PTCat]
      exact First.eps
    | r :: rs, id, j, n => fun w v c k => by
      simp only [Re.runCat, Re.PTCat]
      exact First.seq' (g := Re.runCat σ rs id (j + 1) (n + r.ncaps)) (run_first σ r (j :: id) n w v c _)
        (runCat_first σ rs id (j + 1) (n + r.ncaps))
  theorem runAlt_first (σ : Sem) : ∀ (l : List Re) (id : Sid) (j n : Nat),
      Spec (Re.PTAlt σ l id j n) (Re.runAlt σ l id j n)
    | [], id, j, n => fun w v c k => by
      simp only [Re.runAlt, Re.PTAlt]
      exact First.empty (fun _ _ h => h.mem)
    | r :: rs, id, j, n => fun w v c k => by
      simp only [Re.runAlt, Re.PTAlt]
      exact First.or (run_first σ r (j :: id) n w v c k) (runAlt_first σ rs id (j + 1) (n + r.ncaps) w v c k)
end

/-! ### the theorem for `Re.exec` -/

/-- the slots before the search -/
abbrev Re.initCaps (r : Re) : Caps := List.replicate r.ncaps none

/-- `t` is a guard-respecting parse tree of the whole haystack `s` -/
structure Accepts (σ : Sem) (r : Re) (s : Str) (t : PT) : Prop where
  mem : r.PT σ [] 0 t
  word : t.word = s
  ok : RunOK [] t.flat

/-- `t` is a guard-respecting parse tree of `s` to which no other one is preferred -/
def IsLeast (σ : Sem) (r : Re) (s : Str) (t : PT) : Prop :=
  Accepts σ r s t ∧ ∀ t', Accepts σ r s t' → ¬ Prefer t' t

theorem accepts_cand {σ : Sem} {r : Re} {s : Str} {t : PT} :
    Accepts σ r s t ↔ Cand (r.PT σ [] 0) s [] t [] := by
  constructor
  · rintro ⟨h1, h2, h3⟩
    exact ⟨h1, by rw [h2, List.append_nil], h3⟩
  · rintro ⟨h1, h2, h3⟩
    exact ⟨h1, by rw [h2, List.append_nil], h3⟩

theorem out_atEnd (t : PT) (v : Vis) (c : Caps) (w' : Str) :
    t.out v c atEnd w' = if w'.isEmpty then some (t.caps c) else none := rfl

/-- **`Re.exec` reports the captures of the least guard-respecting parse tree** (property C04) -/
theorem exec_least {σ : Sem} {r : Re} {s : Str} {caps : Caps} (h : r.exec σ s = some (some s :: caps)) :
    ∃ t, IsLeast σ r s t ∧ t.caps r.initCaps = caps := by
  have hf := run_first σ r [] 0 s [] r.initCaps atEnd
  unfold Re.exec at h
  cases hr : r.run σ [] 0 s [] (List.replicate r.ncaps none) atEnd with
  | none => rw [hr] at h; cases h
  | some res =>
    rw [hr] at h
    simp only [Option.some.injEq, List.cons.injEq, true_and] at h
    subst h
    obtain ⟨t, w', ct, hout, hmin⟩ := hf.1 res hr
    rw [out_atEnd] at hout
    have hw : w' = [] := by
      cases w' with
      | nil => rfl
      | cons _ _ => simp at hout
    subst hw
    simp only [List.isEmpty_nil, if_true, Option.some.injEq] at hout
    refine ⟨t, ⟨accepts_cand.mpr ct, ?_⟩, hout⟩
    intro t' ht' hp
    have := hmin t' [] (accepts_cand.mp ht') hp
    rw [out_atEnd] at this
    simp at this

/-- no match = no guard-respecting parse tree -/
theorem exec_none_iff_no_tree {σ : Sem} {r : Re} {s : Str} : r.exec σ s = none ↔ ∀ t, ¬ Accepts σ r s t := by
  have hf := run_first σ r [] 0 s [] r.initCaps atEnd
  constructor
  · intro h t ht
    unfold Re.exec at h
    cases hr : r.run σ [] 0 s [] (List.replicate r.ncaps none) atEnd with
    | some res => rw [hr] at h; cases h
    | none =>
      have := hf.2 hr t [] (accepts_cand.mp ht)
      rw [out_atEnd] at this
      simp at this
  · intro h
    cases he : r.exec σ s with
    | none => rfl
    | some res =>
      exfalso
      unfold Re.exec at he
      cases hr : r.run σ [] 0 s [] (List.replicate r.ncaps none) atEnd with
      | none => rw [hr] at he; cases he
      | some res' =>
        obtain ⟨t, w', ct, hout, _⟩ := hf.1 res' hr
        rw [out_atEnd] at hout
        have hw : w' = [] := by
          cases w' with
          | nil => rfl
          | cons _ _ => simp at hout
        subst hw
        exact h t (accepts_cand.mpr ct)

/-! ### the hypotheses are satisfiable -/

/-- `(?:a?b?)*` on `ab`: a loop whose body matches the empty string (the guard matters) -/
example : ∃ t, IsLeast trivSem exLoopAB ['a', 'b'] t ∧ t.caps exLoopAB.initCaps = [] :=
  exec_least (by decide)

/-- `(?:([^/]*)){1,}` on `xy` -/
example : ∃ t, IsLeast trivSem exLoopNullable ['x', 'y'] t ∧ t.caps exLoopNullable.initCaps = [some ['x', 'y']] :=
  exec_least (by decide)

/-- the classic `(a|ab)(c|bcd)(d*)` on `abcd`: leftmost-first reports `a`, `bcd`, `` (POSIX
    leftmost-longest would report `ab`, `c`, `d`) -/
def exPerl : Re := .cat [.cap (.alt [.lit ['a'] false, .lit ['a', 'b'] false]),
  .cap (.alt [.lit ['c'] false, .lit ['b', 'c', 'd'] false]), .cap (.star (.lit ['d'] false))]

example : ∃ t, IsLeast trivSem exPerl ['a', 'b', 'c', 'd'] t ∧
    t.caps exPerl.initCaps = [some ['a'], some ['b', 'c', 'd'], some []] :=
  exec_least (by decide)

/-- no match, no tree -/
example : ∀ t, ¬ Accepts trivSem exPerl ['a', 'b'] t := exec_none_iff_no_tree.mp (by decide)

/-! ### the restriction to guard-respecting trees is necessary

`(?:a?)*` on the empty text: the tree with one (empty) round is the one the search reports; the tree
with two empty rounds is a tree of the pattern, is preferred to it ("one more round" beats "leave"),
and is not guard respecting (the state of `a?` is entered twice).  With `k` empty rounds for every
`k` there is an infinite descending chain, so "the least of *all* parse trees" does not exist. -/

def exOptStar : Re := .star (.opt (.lit ['a'] false))

/-- one empty round -/
def exOptStar1 : PT :=
  .st [0] (.inl (.seq (.st [0, 1] (.inr .eps)) (.st [2] (.inr .eps))))

/-- two empty rounds -/
def exOptStar2 : PT :=
  .st [0] (.inl (.seq (.st [0, 1] (.inr .eps))
    (.st [2] (.inl (.seq (.st [0, 1] (.inr .eps)) (.st [2] (.inr .eps)))))))

theorem exOptStar_nullable : (Re.opt (.lit ['a'] false)).nonNull = false := by decide

theorem exOptStar_skip : (Re.opt (.lit ['a'] false)).PT trivSem [1] 0 (.st [0, 1] (.inr .eps)) := by
  simp only [Re.PT]
  exact ⟨_, rfl, Or.inr ⟨_, rfl, rfl⟩⟩

theorem exOptStar1_mem : exOptStar.PT trivSem [] 0 exOptStar1 := by
  simp only [exOptStar, Re.PT, StarP, exOptStar_nullable]
  exact ⟨_, rfl, Or.inl ⟨_, rfl, PLP.last (lazy := false) exOptStar_skip⟩⟩

theorem exOptStar2_mem : exOptStar.PT trivSem [] 0 exOptStar2 := by
  simp only [exOptStar, Re.PT, StarP, exOptStar_nullable]
  exact ⟨_, rfl, Or.inl ⟨_, rfl, PLP.more (lazy := false) exOptStar_skip (PLP.last (lazy := false) exOptStar_skip)⟩⟩

/-- the reported tree is `exOptStar1` … -/
example : Accepts trivSem exOptStar [] exOptStar1 := ⟨exOptStar1_mem, rfl, by decide⟩

/-- … although `exOptStar2` is a tree of the same text that is preferred to it: it is killed by the
    guard -/
example : exOptStar.PT trivSem [] 0 exOptStar2 ∧ exOptStar2.word = [] ∧ Prefer exOptStar2 exOptStar1 ∧
    ¬ RunOK [] exOptStar2.flat :=
  ⟨exOptStar2_mem, rfl, .st (.inl (.seqR (.st .inlr))), by decide⟩

end Wax
