import Wax.Proofs.Root
/-!
C06 / C12: the rooting rule of the (repaired) checker, as a structural predicate, implies that a
glob is either always rooted or never rooted.  "Nothing precedes" (`ln`) is inherited by the first
token of a branch only — the context-freeness the repair of `outer` restores — and a sub-glob may
not be rooted by its starting token, leaf *or branch*, where that would make the root uncertain.
-/
namespace Wax

/-- the starting token of the sub-glob is never rooting (`has_root() == Never`) -/
def startNever (b : Tok) : Bool := rootTok b == some .never

mutual
  /-- `check_alternation` / `check_repetition`, rootedness arms, with inherited left context -/
  def rootRule (ln : Bool) : Tok → Bool
    | .alt _ bs => rootRuleBranches ln bs
    | .rep _ body lo hi => (!(ln && lowerUnbounded lo hi) || startNever body) && rootRule ln body
    | .cat _ ts => rootRuleList ln ts
    | _ => true
  def rootRuleList (ln : Bool) : List Tok → Bool
    | [] => true
    | t :: ts => rootRule ln t && rootRuleList false ts
  def rootRuleBranches (ln : Bool) : List Tok → Bool
    | [] => true
    | b :: bs => (!ln || startNever b) && rootRule ln b && rootRuleBranches ln bs
end

def Certain (o : Option When) : Prop := o = some .always ∨ o = some .never

theorem rootBranches_never : ∀ (bs : List Tok), bs ≠ [] → (∀ b ∈ bs, rootTok b = some .never) →
    rootBranches bs = some .never
  | [], h, _ => absurd rfl h
  | [b], _, h => by simp [rootBranches, h b (List.mem_singleton.mpr rfl)]
  | b :: b2 :: bs, _, h => by
    have h1 := h b (List.mem_cons_self ..)
    have h2 := rootBranches_never (b2 :: bs) (by simp) (fun x hx => h x (List.mem_cons_of_mem _ hx))
    have e : rootBranches (b :: b2 :: bs) =
        (match rootTok b, rootBranches (b2 :: bs) with
          | some x, some y => some (x.certainty y)
          | some x, none => some x
          | none, y => y) := rfl
    rw [e, h1, h2]; rfl

theorem rootRuleBranches_startNever : ∀ (bs : List Tok), rootRuleBranches true bs = true →
    ∀ b ∈ bs, rootTok b = some .never
  | [], _, _, hb => by cases hb
  | b0 :: bs, h, b, hb => by
    simp only [rootRuleBranches, Bool.not_true, Bool.false_or, Bool.and_eq_true] at h
    cases hb with
    | head => simpa [startNever] using h.1.1
    | tail _ hm => exact rootRuleBranches_startNever bs h.2 b hm

/-- **C06 / C12**: a glob that passes the rooting rule is always rooted or never rooted -/
theorem glob_root_certain : ∀ (t : Tok), shaped t = true → rootRule true t = true → Certain (rootTok t)
  | .sep _, _, _ => Or.inl rfl
  | .tree _ true, _, _ => Or.inl rfl
  | .tree _ false, _, _ => Or.inr rfl
  | .lit .., _, _ => Or.inr rfl
  | .cls .., _, _ => Or.inr rfl
  | .one _, _, _ => Or.inr rfl
  | .zom .., _, _ => Or.inr rfl
  | .alt _ bs, hs, hr => by
    simp only [shaped, Bool.and_eq_true] at hs
    simp only [rootRule] at hr
    right
    simp only [rootTok]
    refine rootBranches_never bs ?_ (rootRuleBranches_startNever bs hr)
    intro h; simp [h] at hs
  | .cat _ [], hs, _ => by simp [shaped] at hs
  | .cat _ (t :: ts), hs, hr => by
    simp only [shaped, shapedL, Bool.and_eq_true] at hs
    simp only [rootRule, rootRuleList, Bool.and_eq_true] at hr
    simp only [rootTok, rootFirst]
    exact glob_root_certain t hs.2.1 hr.1
  | .rep _ body lo hi, hs, hr => by
    simp only [shaped, Bool.and_eq_true] at hs
    simp only [rootRule, Bool.and_eq_true, Bool.true_and] at hr
    have ih := glob_root_certain body hs.1 hr.2
    simp only [rootTok]
    by_cases hl : lowerUnbounded lo hi = true
    · have hsn : rootTok body = some .never := by
        have := hr.1
        simp only [hl, Bool.not_true, Bool.false_or] at this
        simpa [startNever] using this
      simp [hsn, hl, When.and, Certain]
    · rcases ih with h | h <;> simp [h, hl, Certain]

/-- in terms of the query: never `Sometimes` -/
theorem glob_never_sometimes (t : Tok) (hs : shaped t = true) (hr : rootRule true t = true) :
    hasRoot t ≠ .sometimes := by
  unfold hasRoot
  rcases glob_root_certain t hs hr with h | h <;> simp [h]

end Wax
