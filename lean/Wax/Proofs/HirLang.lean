import Wax.Proofs.HirAlt
import Wax.Unicode
import Wax.Exec
/-!
# `Re.hirNorm` preserves the language

`Re.hirNorm orbit σ r` is the model of what `regex-syntax` turns the pattern into before it is
compiled (flattening, literal merging, one-character alternations as classes, bounded repetitions
of empty-only expressions clipped, and the prefix factoring `(?:PA|PB)` → `P(?:A|B)`).

Headline: `hirNorm_lang : HirHyp orbit σ r → (Matches σ (r.hirNorm orbit σ) w ↔ Matches σ r w)`.

The two hypotheses (`HirHyp`) are necessary:

* `bounds`: every `x{lo,hi}` has `lo ≤ hi`.  Without it the statement is false
  (`hirNorm_lang_false_of_bad_bounds`): `(?:){3,2}` matches nothing in the model (the crate rejects
  the pattern) but `Hir::repetition` clips the bounds of an expression that can only match the empty
  string to `{1,1}` first, and the result matches the empty string.  The encoder never emits such a
  repetition for a glob that passed the rule check.
* `orbit`: for every character `c` of a case-insensitive literal, `orbit c` lists exactly the
  characters `σ.ceq c` relates to `c` (other than `c` itself).  The normal form of `(?i:c)` is the
  class of `c :: orbit c` (a case-sensitive literal when that is one point), and classes are
  compared by their point sets when a common prefix is factored; if `orbit` and `σ.ceq` disagree,
  the statement is false (`hirNorm_lang_false_of_bad_orbit`).
-/
namespace Wax

/-! ### hypotheses -/

mutual
  /-- every bounded repetition has its bounds in order -/
  def Re.boundsOk : Re → Bool
    | .lit .. | .chr _ | .never => true
    | .cat l | .alt l => Re.boundsOkList l
    | .star r | .lazyStar r | .opt r | .cap r | .grp r => r.boundsOk
    | .rep r lo hi => (match hi with | some h => decide (lo ≤ h) | none => true) && r.boundsOk
  def Re.boundsOkList : List Re → Bool
    | [] => true
    | r :: rs => r.boundsOk && Re.boundsOkList rs
end

mutual
  /-- the characters of the case-insensitive literals -/
  def Re.ciChars : Re → List Char
    | .lit s ci => if ci then s else []
    | .chr _ | .never => []
    | .cat l | .alt l => Re.ciCharsList l
    | .star r | .lazyStar r | .opt r | .cap r | .grp r | .rep r _ _ => r.ciChars
  def Re.ciCharsList : List Re → List Char
    | [] => []
    | r :: rs => r.ciChars ++ Re.ciCharsList rs
end

/-- `orbit c` is the set of case-folding partners of `c` according to `σ` -/
def OrbitAt (orbit : Char → List Char) (σ : Sem) (c : Char) : Prop :=
  ∀ b, σ.ceq c b = true ↔ (b = c ∨ b ∈ orbit c)

/-- what `hirNorm_lang` needs of the pattern and of the modelled Unicode tables -/
structure HirHyp (orbit : Char → List Char) (σ : Sem) (r : Re) : Prop where
  bounds : r.boundsOk = true
  orbit : ∀ c ∈ r.ciChars, OrbitAt orbit σ c

/-! ### the one-character atoms -/

theorem char_le_max (c : Char) : c.toNat ≤ maxScalar := by
  have h : c.toNat.isValidChar := c.valid
  unfold Nat.isValidChar at h
  unfold maxScalar
  omega

theorem archRange_valid : ∀ (items : List Arch), ∀ r ∈ items.map archRange,
    r.1.isValidChar ∧ r.2.isValidChar := by
  intro items r hr
  obtain ⟨it, _, rfl⟩ := List.mem_map.mp hr
  cases it with
  | chr c => exact ⟨c.valid, c.valid⟩
  | rng a b => exact ⟨a.valid, b.valid⟩

theorem bdd_items (items : List Arch) : Ranges.Bdd (items.map archRange) := by
  rintro n ⟨r, hr, _, h2⟩
  have := (archRange_valid items r hr).2
  unfold Nat.isValidChar at this
  unfold maxScalar
  omega

theorem bdd_slash : Ranges.Bdd slash := by
  intro n hn
  unfold slash at hn
  rw [Ranges.mem_single] at hn
  unfold maxScalar
  omega

theorem arch_any_iff (c : Char) : ∀ (items : List Arch),
    items.any (Arch.mem c) = true ↔ Ranges.Mem c.toNat (items.map archRange)
  | [] => by simp [Ranges.mem_nil]
  | it :: items => by
    rw [List.any_cons, Bool.or_eq_true, arch_any_iff c items, List.map_cons, Ranges.mem_cons]
    apply or_congr_left
    cases it with
    | chr x =>
      simp only [Arch.mem, archRange, beq_iff_eq]
      constructor
      · rintro rfl; exact ⟨Nat.le_refl _, Nat.le_refl _⟩
      · intro h; exact Char.toNat_inj.mp (by omega)
    | rng a b => simp only [Arch.mem, archRange, Bool.and_eq_true, decide_eq_true_eq]

/-- `CharPred.holds` on code points -/
def HoldsN (σ : Sem) : CharPred → Nat → Prop
  | .sepc, n => n = 0x2f
  | .nsep, n => n ≠ 0x2f
  | .dot, n => σ.dotall = true ∨ n ≠ 0xa
  | .cls false items, n => n ≠ 0x2f ∧ Ranges.Mem n (items.map archRange)
  | .cls true items, n => n ≠ 0x2f ∧ ¬ Ranges.Mem n (items.map archRange)

theorem toNat_eq_iff (c d : Char) (n : Nat) (hd : d.toNat = n) : (c == d) = true ↔ c.toNat = n := by
  rw [beq_iff_eq, ← hd, Char.toNat_inj]

theorem holds_iff (σ : Sem) (p : CharPred) (c : Char) : p.holds σ c = true ↔ HoldsN σ p c.toNat := by
  cases p with
  | sepc => simp only [CharPred.holds, HoldsN]; exact toNat_eq_iff c '/' 0x2f rfl
  | nsep =>
    simp only [CharPred.holds, HoldsN, bne_iff_ne, ne_eq]
    exact not_congr (by rw [← beq_iff_eq]; exact toNat_eq_iff c '/' 0x2f rfl)
  | dot =>
    simp only [CharPred.holds, HoldsN, Bool.or_eq_true, bne_iff_ne, ne_eq]
    exact or_congr_right (not_congr (by rw [← beq_iff_eq]; exact toNat_eq_iff c '\n' 0xa rfl))
  | cls neg items =>
    have h1 : (c != '/') = true ↔ c.toNat ≠ 0x2f := by
      rw [bne_iff_ne, ne_eq, ne_eq]
      exact not_congr (by rw [← beq_iff_eq]; exact toNat_eq_iff c '/' 0x2f rfl)
    cases neg with
    | false =>
      simp only [CharPred.holds, HoldsN, Bool.and_eq_true, h1, Bool.false_eq_true, if_false,
        arch_any_iff]
    | true =>
      simp only [CharPred.holds, HoldsN, Bool.and_eq_true, h1, if_true, Bool.not_eq_true',
        ← Bool.not_eq_true, arch_any_iff]

theorem mem_slash {n : Nat} : Ranges.Mem n slash ↔ n = 0x2f := by
  unfold slash
  rw [Ranges.mem_single]
  omega

theorem ranges_mem (σ : Sem) (p : CharPred) (n : Nat) :
    Ranges.Mem n (p.ranges σ) ↔ n ≤ maxScalar ∧ HoldsN σ p n := by
  cases p with
  | sepc =>
    simp only [CharPred.ranges, HoldsN, mem_slash]
    unfold maxScalar
    omega
  | nsep => simp only [CharPred.ranges, HoldsN, Ranges.mem_negate bdd_slash, mem_slash, ne_eq]
  | dot =>
    simp only [CharPred.ranges, HoldsN]
    split
    · rename_i h
      rw [Ranges.mem_single]
      simp only [h, true_or, and_true]
      omega
    · rename_i h
      have hb : Ranges.Bdd [(0xa, 0xa)] := by
        intro m hm; rw [Ranges.mem_single] at hm; unfold maxScalar; omega
      rw [Ranges.mem_negate hb, Ranges.mem_single]
      simp only [h, Bool.false_eq_true, false_or]
      unfold maxScalar
      omega
  | cls neg items =>
    cases neg with
    | false =>
      simp only [CharPred.ranges, HoldsN]
      rw [Ranges.mem_inter (Ranges.bdd_canon (bdd_items items)) (Ranges.bdd_negate bdd_slash),
        Ranges.mem_canon, Ranges.mem_negate bdd_slash, mem_slash]
      constructor
      · rintro ⟨h1, h2, h3⟩; exact ⟨h2, h3, h1⟩
      · rintro ⟨h2, h3, h1⟩; exact ⟨h1, h2, h3⟩
    | true =>
      simp only [CharPred.ranges, HoldsN]
      rw [Ranges.mem_negate (Ranges.bdd_union (bdd_items items) bdd_slash), Ranges.mem_union, mem_slash]
      constructor
      · rintro ⟨h1, h2⟩; exact ⟨h1, fun h => h2 (Or.inr h), fun h => h2 (Or.inl h)⟩
      · rintro ⟨h1, h2, h3⟩; exact ⟨h1, fun h => h.elim h3 h2⟩

theorem ranges_canon (σ : Sem) (p : CharPred) : CanonFrom 0 (p.ranges σ) := by
  cases p with
  | sepc => simp [CharPred.ranges, slash, CanonFrom]
  | nsep => exact Ranges.canon_negate _
  | dot =>
    simp only [CharPred.ranges]
    split
    · simp [CanonFrom, maxScalar]
    · exact Ranges.canon_negate _
  | cls neg items =>
    cases neg with
    | false => exact Ranges.canon_inter _ _
    | true => exact Ranges.canon_negate _

/-- a class that is a single point is a single *scalar value*, never a surrogate code point -/
theorem singleton_valid (σ : Sem) (p : CharPred) (a : Nat)
    (h : ∀ n, n = a ↔ n ≤ maxScalar ∧ HoldsN σ p n) : a.isValidChar := by
  have ha := (h a).mp rfl
  unfold maxScalar at h ha
  unfold Nat.isValidChar
  cases p with
  | sepc => simp only [HoldsN] at ha; omega
  | nsep =>
    have h0 := (h 0).mpr ⟨by omega, by simp [HoldsN]⟩
    have h1 := (h 1).mpr ⟨by omega, by simp [HoldsN]⟩
    omega
  | dot =>
    have h0 := (h 0).mpr ⟨by omega, Or.inr (by omega)⟩
    have h1 := (h 1).mpr ⟨by omega, Or.inr (by omega)⟩
    omega
  | cls neg items =>
    cases neg with
    | false =>
      simp only [HoldsN] at ha h
      obtain ⟨ha1, ha2, r, hr, hr1, hr2⟩ := ha
      have hv := (archRange_valid items r hr).1
      unfold Nat.isValidChar at hv
      by_cases e : r.1 = a
      · omega
      · have hlo : r.1 = 0x2f := by
          apply Classical.byContradiction
          intro hne
          have := (h r.1).mpr ⟨by omega, hne, r, hr, Nat.le_refl _, by omega⟩
          omega
        by_cases e30 : a = 0x30
        · omega
        · have := (h 0x30).mpr ⟨by omega, by omega, r, hr, by omega, by omega⟩
          omega
    | true =>
      simp only [HoldsN] at ha h
      obtain ⟨ha1, ha2, ha3⟩ := ha
      have hprev : a = 0 ∨ (a - 1).isValidChar := by
        by_cases e0 : a = 0
        · exact Or.inl e0
        · right
          have hn : ¬ (a - 1 ≤ 1114111 ∧ a - 1 ≠ 47 ∧ ¬ Ranges.Mem (a - 1) (items.map archRange)) :=
            fun hh => by have := (h (a - 1)).mpr hh; omega
          by_cases e2f : a - 1 = 0x2f
          · unfold Nat.isValidChar; omega
          · have hm : Ranges.Mem (a - 1) (items.map archRange) := by
              apply Classical.byContradiction
              intro hm; exact hn ⟨by omega, e2f, hm⟩
            obtain ⟨r, hr, hr1, hr2⟩ := hm
            have hv := (archRange_valid items r hr).2
            have : ¬ (r.1 ≤ a ∧ a ≤ r.2) := fun hh => ha3 ⟨r, hr, hh⟩
            have : r.2 = a - 1 := by omega
            rw [← this]; exact hv
      have hnext : a = 1114111 ∨ (a + 1).isValidChar := by
        by_cases e0 : a = 1114111
        · exact Or.inl e0
        · right
          have hn : ¬ (a + 1 ≤ 1114111 ∧ a + 1 ≠ 47 ∧ ¬ Ranges.Mem (a + 1) (items.map archRange)) :=
            fun hh => by have := (h (a + 1)).mpr hh; omega
          by_cases e2f : a + 1 = 0x2f
          · unfold Nat.isValidChar; omega
          · have hm : Ranges.Mem (a + 1) (items.map archRange) := by
              apply Classical.byContradiction
              intro hm; exact hn ⟨by omega, e2f, hm⟩
            obtain ⟨r, hr, hr1, hr2⟩ := hm
            have hv := (archRange_valid items r hr).1
            have : ¬ (r.1 ≤ a ∧ a ≤ r.2) := fun hh => ha3 ⟨r, hr, hh⟩
            have : r.1 = a + 1 := by omega
            rw [← this]; exact hv
      unfold Nat.isValidChar at hprev hnext
      omega

theorem chr_toH_sem (σ : Sem) (p : CharPred) :
    H.WF (SetSem σ) (mkClass (p.ranges σ) (.chr p)) ∧
      ∀ w, H.L σ (mkClass (p.ranges σ) (.chr p)) w ↔ Matches σ (.chr p) w := by
  have hsem : ∀ w, Matches σ (.chr p) w ↔ ∃ c : Char, w = [c] ∧ Ranges.Mem c.toNat (p.ranges σ) := by
    intro w
    rw [matches_chr_iff]
    constructor
    · rintro ⟨c, hw, hc⟩
      exact ⟨c, hw, (ranges_mem σ p _).mpr ⟨char_le_max c, (holds_iff σ p c).mp hc⟩⟩
    · rintro ⟨c, hw, hc⟩
      exact ⟨c, hw, (holds_iff σ p c).mpr ((ranges_mem σ p _).mp hc).2⟩
  obtain ⟨h1, h2⟩ := mkClass_sem hsem (ranges_canon σ p) (by
    intro a ha
    apply singleton_valid σ p a
    intro n
    rw [← ranges_mem, ha, Ranges.mem_single]
    omega)
  exact ⟨h1, fun w => (h2 w).trans (hsem w).symm⟩

/-! ### literals -/

/-- the normal form of one character of a literal -/
def litCharH (orbit : Char → List Char) (ci : Bool) (c : Char) : H :=
  if ci then mkClass (Ranges.canon ((c :: orbit c).map fun d => (d.toNat, d.toNat))) (.lit [c] true)
  else .lit [c]

theorem mem_charRanges {n : Nat} : ∀ (l : List Char),
    Ranges.Mem n (l.map fun d => (d.toNat, d.toNat)) ↔ ∃ d ∈ l, d.toNat = n
  | [] => by simp [Ranges.mem_nil]
  | d :: l => by
    simp only [List.map_cons, Ranges.mem_cons, mem_charRanges l]
    constructor
    · rintro (h | ⟨e, he, h⟩)
      · exact ⟨d, List.mem_cons_self .., by omega⟩
      · exact ⟨e, List.mem_cons_of_mem _ he, h⟩
    · rintro ⟨e, he, h⟩
      rcases List.mem_cons.mp he with rfl | he
      · exact Or.inl (by omega)
      · exact Or.inr ⟨e, he, h⟩

theorem matches_ci_char {σ : Sem} {c : Char} {w : Str} :
    Matches σ (.lit [c] true) w ↔ ∃ b, w = [b] ∧ σ.ceq c b = true := by
  rw [matches_lit_iff, litEq_cons_iff]
  simp only [if_true, litEq_nil_iff]
  constructor
  · rintro ⟨b, v, rfl, hb, rfl⟩; exact ⟨b, rfl, hb⟩
  · rintro ⟨b, rfl, hb⟩; exact ⟨b, [], rfl, hb, rfl⟩

theorem litCharH_sem {orbit : Char → List Char} {σ : Sem} (ci : Bool) (c : Char)
    (hc : ci = true → OrbitAt orbit σ c) :
    H.WF (SetSem σ) (litCharH orbit ci c) ∧
      ∀ w, H.L σ (litCharH orbit ci c) w ↔ ∃ b, w = [b] ∧ (if ci then σ.ceq c b else c == b) = true := by
  unfold litCharH
  cases ci with
  | false =>
    simp only [Bool.false_eq_true, if_false]
    refine ⟨.lit _, fun w => ?_⟩
    rw [H.L_lit]
    constructor
    · rintro rfl; exact ⟨c, rfl, by simp⟩
    · rintro ⟨b, rfl, hb⟩
      have : c = b := by simpa using hb
      rw [this]
  | true =>
    simp only [if_true]
    have ho := hc rfl
    have hmem : ∀ b : Char, Ranges.Mem b.toNat (Ranges.canon ((c :: orbit c).map fun d => (d.toNat, d.toNat))) ↔
        σ.ceq c b = true := by
      intro b
      rw [Ranges.mem_canon, mem_charRanges, ho b, ← List.mem_cons]
      constructor
      · rintro ⟨d, hd, e⟩; rw [← Char.toNat_inj.mp e]; exact hd
      · intro h; exact ⟨b, h, rfl⟩
    have hsem : ∀ w, Matches σ (.lit [c] true) w ↔
        ∃ b : Char, w = [b] ∧ Ranges.Mem b.toNat (Ranges.canon ((c :: orbit c).map fun d => (d.toNat, d.toNat))) := by
      intro w
      rw [matches_ci_char]
      simp only [hmem]
    obtain ⟨h1, h2⟩ := mkClass_sem hsem (Ranges.canon_canon _) (by
      intro a ha
      have : Ranges.Mem c.toNat (Ranges.canon ((c :: orbit c).map fun d => (d.toNat, d.toNat))) := by
        rw [Ranges.mem_canon, mem_charRanges]
        exact ⟨c, List.mem_cons_self .., rfl⟩
      rw [ha, Ranges.mem_single] at this
      have : c.toNat = a := by omega
      rw [← this]; exact c.valid)
    refine ⟨h1, fun w => ?_⟩
    rw [h2]
    simp only [hmem]

theorem lit_toH_sem {orbit : Char → List Char} {σ : Sem} (ci : Bool) : ∀ (s : Str),
    (∀ c ∈ s, ci = true → OrbitAt orbit σ c) →
    (∀ x ∈ s.map (litCharH orbit ci), H.WF (SetSem σ) x) ∧
      ∀ w, H.Ls σ (s.map (litCharH orbit ci)) w ↔ litEq σ ci s w = true
  | [], _ => ⟨fun _ h => (by cases h), fun w => by rw [List.map_nil, H.Ls_nil, litEq_nil_iff]⟩
  | c :: s, h => by
    obtain ⟨ih1, ih2⟩ := lit_toH_sem ci s (fun d hd => h d (List.mem_cons_of_mem _ hd))
    obtain ⟨h1, h2⟩ := litCharH_sem (orbit := orbit) (σ := σ) ci c (h c (List.mem_cons_self ..))
    constructor
    · intro x hx
      rw [List.map_cons] at hx
      rcases List.mem_cons.mp hx with rfl | hx
      · exact h1
      · exact ih1 x hx
    · intro w
      rw [List.map_cons, H.Ls_cons, litEq_cons_iff]
      simp only [h2, ih2]
      constructor
      · rintro ⟨u, v, rfl, ⟨b, rfl, hb⟩, hv⟩; exact ⟨b, v, rfl, hb, hv⟩
      · rintro ⟨b, v, rfl, hb, hv⟩; exact ⟨[b], v, rfl, ⟨b, rfl, hb⟩, hv⟩

theorem toH_lit_eq (orbit : Char → List Char) (σ : Sem) (s : Str) (ci : Bool) :
    (Re.lit s ci).toH orbit σ = mkCat (s.map (litCharH orbit ci)) := by
  simp only [Re.toH]; rfl

/-! ### repetition operators as `RepL` -/

theorem RepL_star {A : Str → Prop} {w : Str} : RepL A 0 none w ↔ ∃ m, IterN A m w := by
  unfold RepL
  constructor
  · rintro ⟨m, _, _, hm⟩; exact ⟨m, hm⟩
  · rintro ⟨m, hm⟩; exact ⟨m, Nat.zero_le _, (by intro _ e; cases e), hm⟩

theorem RepL_opt {A : Str → Prop} {w : Str} : RepL A 0 (some 1) w ↔ w = [] ∨ A w := by
  unfold RepL
  constructor
  · rintro ⟨m, _, h2, hm⟩
    have := h2 1 rfl
    match m, hm with
    | 0, hm => exact Or.inl hm
    | 1, hm => exact Or.inr (IterN.one_iff.mp hm)
    | m + 2, _ => omega
  · rintro (rfl | h)
    · exact ⟨0, Nat.le_refl _, (by intro _ e; cases e; omega), rfl⟩
    · exact ⟨1, Nat.zero_le _, (by intro _ e; cases e; omega), IterN.one h⟩

/-! ### the translation -/

/-- what is to be shown of the normal form `h` of `r` -/
def ToHSem (σ : Sem) (r : Re) (h : H) : Prop :=
  H.WF (SetSem σ) h ∧ ∀ w, H.L σ h w ↔ Matches σ r w

mutual
  theorem toH_sem (orbit : Char → List Char) (σ : Sem) : ∀ (r : Re), r.boundsOk = true →
      (∀ c ∈ r.ciChars, OrbitAt orbit σ c) → ToHSem σ r (r.toH orbit σ)
    | .lit s ci, _, ho => by
      rw [toH_lit_eq]
      obtain ⟨h1, h2⟩ := lit_toH_sem (orbit := orbit) (σ := σ) ci s (by
        intro c hc hci
        apply ho
        simp only [Re.ciChars, hci, if_true]
        exact hc)
      exact ⟨wf_mkCat h1, fun w => by rw [mkCat_lang, h2, matches_lit_iff]⟩
    | .chr p, _, _ => by
      simp only [Re.toH]
      exact chr_toH_sem σ p
    | .never, _, _ => by
      simp only [Re.toH]
      exact ⟨.fail, fun w => ⟨fun h => absurd h H.L_fail, fun h => absurd h not_matches_never⟩⟩
    | .cat l, hb, ho => by
      simp only [Re.boundsOk] at hb
      simp only [Re.ciChars] at ho
      obtain ⟨h1, h2, _⟩ := toHList_sem orbit σ l hb ho
      simp only [Re.toH]
      exact ⟨wf_mkCat h1, fun w => by rw [mkCat_lang, h2, matches_cat_iff]⟩
    | .alt l, hb, ho => by
      simp only [Re.boundsOk] at hb
      simp only [Re.ciChars] at ho
      obtain ⟨h1, _, h3⟩ := toHList_sem orbit σ l hb ho
      simp only [Re.toH]
      obtain ⟨h4, h5⟩ := mkAlt_sem (σ := σ) _ h1
      exact ⟨h4, fun w => by rw [h5, h3, matches_alt_iff]⟩
    | .star r, hb, ho => by
      simp only [Re.boundsOk] at hb
      simp only [Re.ciChars] at ho
      obtain ⟨h1, h2⟩ := toH_sem orbit σ r hb ho
      simp only [Re.toH]
      refine ⟨wf_mkRep h1, fun w => ?_⟩
      rw [mkRep_lang _ _ _ _ (by intro _ e; cases e), RepL.congr h2, RepL_star, matches_star_iff]
    | .lazyStar r, hb, ho => by
      simp only [Re.boundsOk] at hb
      simp only [Re.ciChars] at ho
      obtain ⟨h1, h2⟩ := toH_sem orbit σ r hb ho
      simp only [Re.toH]
      refine ⟨wf_mkRep h1, fun w => ?_⟩
      rw [mkRep_lang _ _ _ _ (by intro _ e; cases e), RepL.congr h2, RepL_star, matches_lazyStar_iff]
    | .opt r, hb, ho => by
      simp only [Re.boundsOk] at hb
      simp only [Re.ciChars] at ho
      obtain ⟨h1, h2⟩ := toH_sem orbit σ r hb ho
      simp only [Re.toH]
      refine ⟨wf_mkRep h1, fun w => ?_⟩
      rw [mkRep_lang _ _ _ _ (by intro _ e; cases e; omega), RepL.congr h2, RepL_opt, matches_opt_iff]
    | .rep r lo hi, hb, ho => by
      simp only [Re.boundsOk, Bool.and_eq_true] at hb
      simp only [Re.ciChars] at ho
      obtain ⟨h1, h2⟩ := toH_sem orbit σ r hb.2 ho
      simp only [Re.toH]
      refine ⟨wf_mkRep h1, fun w => ?_⟩
      rw [mkRep_lang _ _ _ _ (by intro h e; subst e; simpa using hb.1), RepL.congr h2, matches_rep_iff]
      rfl
    | .cap r, hb, ho => by
      simp only [Re.boundsOk] at hb
      simp only [Re.ciChars] at ho
      obtain ⟨h1, h2⟩ := toH_sem orbit σ r hb ho
      simp only [Re.toH]
      exact ⟨.cap h1, fun w => by rw [H.L_cap, h2, matches_cap_iff]⟩
    | .grp r, hb, ho => by
      simp only [Re.boundsOk] at hb
      simp only [Re.ciChars] at ho
      obtain ⟨h1, h2⟩ := toH_sem orbit σ r hb ho
      simp only [Re.toH]
      exact ⟨h1, fun w => by rw [h2, matches_grp_iff]⟩
  theorem toHList_sem (orbit : Char → List Char) (σ : Sem) : ∀ (l : List Re), Re.boundsOkList l = true →
      (∀ c ∈ Re.ciCharsList l, OrbitAt orbit σ c) →
      (∀ x ∈ Re.toHList orbit σ l, H.WF (SetSem σ) x) ∧
      (∀ w, H.Ls σ (Re.toHList orbit σ l) w ↔ MatchesAll σ l w) ∧
      (∀ w, H.Lany σ (Re.toHList orbit σ l) w ↔ ∃ r ∈ l, Matches σ r w)
    | [], _, _ => by
      simp only [Re.toHList]
      refine ⟨fun _ h => (by cases h), fun w => (by rw [H.Ls_nil, matchesAll_nil_iff]), fun w => ?_⟩
      exact ⟨fun h => absurd h Lany_nil, fun ⟨_, h, _⟩ => by cases h⟩
    | r :: rs, hb, ho => by
      simp only [Re.boundsOkList, Bool.and_eq_true] at hb
      simp only [Re.ciCharsList, List.mem_append] at ho
      obtain ⟨h1, h2⟩ := toH_sem orbit σ r hb.1 (fun c hc => ho c (Or.inl hc))
      obtain ⟨i1, i2, i3⟩ := toHList_sem orbit σ rs hb.2 (fun c hc => ho c (Or.inr hc))
      simp only [Re.toHList]
      refine ⟨?_, fun w => ?_, fun w => ?_⟩
      · intro x hx
        rcases List.mem_cons.mp hx with rfl | hx
        · exact h1
        · exact i1 x hx
      · rw [H.Ls_cons, matchesAll_cons_iff]
        simp only [h2, i2]
      · rw [Lany_cons, h2, i3]
        constructor
        · rintro (h | ⟨x, hx, h⟩)
          · exact ⟨r, List.mem_cons_self .., h⟩
          · exact ⟨x, List.mem_cons_of_mem _ hx, h⟩
        · rintro ⟨x, hx, h⟩
          rcases List.mem_cons.mp hx with rfl | hx
          · exact Or.inl h
          · exact Or.inr ⟨x, hx, h⟩
end

/-- **the normalisation preserves the language** -/
theorem hirNorm_lang {orbit : Char → List Char} {σ : Sem} {r : Re} (h : HirHyp orbit σ r) (w : Str) :
    Matches σ (r.hirNorm orbit σ) w ↔ Matches σ r w :=
  (toH_sem orbit σ r h.bounds h.orbit).2 w

/-- the same for the decision procedure -/
theorem hirNorm_matchB {orbit : Char → List Char} {σ : Sem} {r : Re} (h : HirHyp orbit σ r) (w : Str) :
    (r.hirNorm orbit σ).matchB σ w = r.matchB σ w := by
  rw [Bool.eq_iff_iff, matchB_iff, matchB_iff, hirNorm_lang h]

/-- **the match model is sound**: what `cmdM` computes (`exec` on the normal form) reports a match
    only for a haystack in the language of the pattern wax printed -/
theorem match_model_sound {orbit : Char → List Char} {σ : Sem} {r : Re} (h : HirHyp orbit σ r)
    {s : Str} {caps : List (Option Str)} (he : (r.hirNorm orbit σ).exec σ s = some caps) :
    Matches σ r s :=
  (hirNorm_lang h s).mp (exec_sound he).1

/-- contrapositive, for the decision procedure -/
theorem match_model_none {orbit : Char → List Char} {σ : Sem} {r : Re} (h : HirHyp orbit σ r)
    {s : Str} (hm : r.matchB σ s = false) : (r.hirNorm orbit σ).exec σ s = none :=
  exec_none_of_not_matchB (by rw [hirNorm_matchB h]; exact hm)

/-! ### the hypotheses are satisfiable -/

/-- tables without any case folding -/
def trivSem : Sem := ⟨fun a b => a == b, true⟩
def trivOrbit : Char → List Char := fun _ => []

theorem orbitAt_triv (c : Char) : OrbitAt trivOrbit trivSem c := by
  intro b
  simp only [trivSem, trivOrbit, beq_iff_eq, List.not_mem_nil, or_false]
  exact eq_comm

theorem hirHyp_triv {r : Re} (h : r.boundsOk = true) : HirHyp trivOrbit trivSem r :=
  ⟨h, fun c _ => orbitAt_triv c⟩

/-- a pattern without case-insensitive literals needs nothing of the tables -/
theorem hirHyp_of_cs {orbit : Char → List Char} {σ : Sem} {r : Re} (h : r.boundsOk = true)
    (hc : r.ciChars = []) : HirHyp orbit σ r :=
  ⟨h, fun c hcm => by rw [hc] at hcm; cases hcm⟩

/-- `{*a,*b}` as the encoder prints it, `(?:(?:[^/]*(?-i:a))|(?:[^/]*(?-i:b)))`: the pattern whose
    captures the prefix factoring changes -/
def exAltStar : Re :=
  .cap (.alt [.grp (.cat [.grp (.star (.chr .nsep)), .lit ['a'] false]),
              .grp (.cat [.grp (.star (.chr .nsep)), .lit ['b'] false])])

example : HirHyp trivOrbit trivSem exAltStar := hirHyp_triv (by decide)
example (orbit : Char → List Char) (σ : Sem) : HirHyp orbit σ exAltStar := hirHyp_of_cs (by decide) (by decide)
example : HirHyp trivOrbit trivSem (.cat [.lit ['x', 'Y'] true, .rep (.chr .dot) 2 (some 3)]) :=
  hirHyp_triv (by decide)

/-! ### the hypotheses are necessary -/

/-- without `bounds` the statement is false: `(?:){3,2}` matches nothing, its normal form is the
    empty pattern -/
theorem hirNorm_lang_false_of_bad_bounds :
    ∃ (r : Re) (w : Str), (∀ c ∈ r.ciChars, OrbitAt trivOrbit trivSem c) ∧
      ¬ (Matches trivSem (r.hirNorm trivOrbit trivSem) w ↔ Matches trivSem r w) :=
  ⟨.rep (.lit [] false) 3 (some 2), [], fun c _ => orbitAt_triv c, by decide⟩

theorem mkRep_bad_bounds : mkRep 3 (some 2) false .empty = .empty := by rfl

/-- without `orbit` the statement is false: if `σ.ceq` relates `a` and `b` but `orbit a` does not
    say so, `(?i:a)` becomes the case-sensitive literal `a` -/
theorem hirNorm_lang_false_of_bad_orbit :
    ∃ (σ : Sem) (r : Re) (w : Str), r.boundsOk = true ∧
      ¬ (Matches σ (r.hirNorm trivOrbit σ) w ↔ Matches σ r w) := by
  refine ⟨⟨fun _ _ => true, true⟩, .lit ['a'] true, ['b'], rfl, ?_⟩
  have h1 : Ranges.canon [(97, 97)] = [(97, 97)] := by simp [Ranges.canon, insertRange, mergeSorted]
  have h2 : ('a' : Char).toNat = 97 := rfl
  have h : Re.hirNorm trivOrbit ⟨fun _ _ => true, true⟩ (.lit ['a'] true) = .lit ['a'] false := by
    simp only [Re.hirNorm, Re.toH, trivOrbit, List.map_cons, List.map_nil, h2, h1, if_true, mkClass]
    rfl
  rw [h]
  decide

end Wax
