import Wax.Proofs.SpecRe
import Wax.Walk
import Wax.Fragment
import Wax.Proofs.Compose
import Wax.Proofs.EncodeSpec
import Wax.Proofs.NotWalk
import Wax.Proofs.Regex
import Wax.Proofs.ExhShape
/-!
C03: a negation discards exactly what it matches.

* `intoAlternatives_lang`: `Token::into_alternatives` preserves the documented language
  (unconditionally: every unwrapping happens at the top of a whole pattern, where the context is
  `⟨true, true⟩`), and its fuel is sufficient (`nonTrivial_nonTrivial`, `intoAlternatives_noAlt`).
* `partition_total`: the two buckets of `FilterAny::any` partition the alternatives; an empty
  bucket has no program; the empty pattern still matches the empty path.
* `residue_iff_matches_partial`: on `F01` the residue is not `keep` exactly on the language.
* `not_program_walk_exact_partial`: composed with `WalkTree.not_exact`.
-/
namespace Wax.Walk
open Wax

/-! ### 0. sizes and the once-only repetition -/

theorem fromClosedOpen_inv_one {lo : Nat} {hi : Option Nat}
    (h : NRange.fromClosedOpen lo hi = .inv 1) : lo = 1 ∧ hi = some 1 := by
  unfold NRange.fromClosedOpen BVR.tryFrom at h
  cases hi with
  | none =>
    simp only [Option.getD_none] at h
    split at h
    · cases h
    · split at h <;> simp_all
  | some o =>
    by_cases hc : lo > o
    · simp only [hc, ↓reduceIte, Option.getD_some] at h
      split at h
      · cases h
      · split at h
        · cases h
        · rename_i hn
          simp only [NRange.inv.injEq] at h
          subst h
          have h0 : (lo == 0) = false := by simp; omega
          simp [h0] at hn
    · simp only [hc, ↓reduceIte, Option.getD_some] at h
      split at h
      · cases h
      · split at h
        · cases h
        · rename_i hn
          simp only [NRange.inv.injEq] at h
          subst h
          split at hn <;> simp_all <;> omega

theorem fromClosedOpen_one_one : NRange.fromClosedOpen 1 (some 1) = .inv 1 := rfl

theorem tokSize_pos (t : Tok) : 1 ≤ tokSize t := by
  cases t <;> simp [tokSize] <;> omega

theorem tokSizeL_append (xs ys : List Tok) : tokSizeL (xs ++ ys) = tokSizeL xs + tokSizeL ys := by
  induction xs with
  | nil => simp [tokSizeL]
  | cons x xs ih => simp [tokSizeL, ih]; omega

theorem tokSizeL_filter_le (p : Tok → Bool) (xs : List Tok) : tokSizeL (xs.filter p) ≤ tokSizeL xs := by
  induction xs with
  | nil => simp [tokSizeL]
  | cons x xs ih =>
    by_cases hp : p x = true
    · simp [List.filter, hp, tokSizeL]; omega
    · simp [List.filter, hp, tokSizeL]; omega

theorem tokSizeL_eq_zero {xs : List Tok} (h : tokSizeL xs = 0) : xs = [] := by
  cases xs with
  | nil => rfl
  | cons x xs => have := tokSize_pos x; simp [tokSizeL] at h; omega

/-! ### 1. `into_non_trivial` preserves the language and reaches a non-trivial token -/

/-- single-branch braces around a whole pattern -/
theorem matches_alt_single (σ : Sem) (sp : Span) (b : Tok) (w : Str) :
    Spec.Matches σ (.alt sp [b]) w ↔ Spec.Matches σ b w := by
  rw [any_union]; simp

/-- a single-token concatenation that is a whole pattern -/
theorem matches_cat_single (σ : Sem) (sp : Span) (b : Tok) (w : Str) :
    Spec.Matches σ (.cat sp [b]) w ↔ Spec.Matches σ b w := by
  unfold Spec.Matches
  show SMs σ ⟨true, true⟩ [b] w ↔ _
  cases b with
  | cat sp' ts => rw [sms_singleton, sm_cat]; rfl
  | _ => rfl

/-- a once-only repetition that is a whole pattern -/
theorem matches_rep_once (σ : Sem) (sp : Span) (b : Tok) (w : Str) :
    Spec.Matches σ (.rep sp b 1 (some 1)) w ↔ Spec.Matches σ b w := by
  unfold Spec.Matches
  show SMs σ ⟨true, true⟩ [Tok.rep sp b 1 (some 1)] w ↔ _
  rw [sms_singleton, sm_rep]
  constructor
  · rintro ⟨n, h1, h2, h3⟩
    have : n = 1 := by have := h2 1 rfl; omega
    subst this
    cases h3 with
    | one h => exact h
  · intro h
    exact ⟨1, Nat.le_refl _, fun h' hh => by cases hh; exact Nat.le_refl _, .one h⟩

/-- `Token::into_non_trivial` does not change what a whole pattern matches (whatever the fuel) -/
theorem nonTrivialF_lang (σ : Sem) (w : Str) : ∀ (k : Nat) (t : Tok),
    Spec.Matches σ (nonTrivialF k t) w ↔ Spec.Matches σ t w := by
  intro k
  induction k with
  | zero => intro t; rfl
  | succ k ih =>
    intro t
    unfold nonTrivialF
    split
    · rw [ih, matches_alt_single]
    · rw [ih, matches_cat_single]
    · rename_i sp b lo hi
      split
      · rename_i hr
        obtain ⟨rfl, rfl⟩ := fromClosedOpen_inv_one hr
        rw [ih, matches_rep_once]
      · rfl
    · rfl

theorem nonTrivial_lang (σ : Sem) (t : Tok) (w : Str) :
    Spec.Matches σ (nonTrivial t) w ↔ Spec.Matches σ t w := nonTrivialF_lang σ w _ t

theorem nonTrivialF_size : ∀ (k : Nat) (t : Tok), tokSize (nonTrivialF k t) ≤ tokSize t := by
  intro k
  induction k with
  | zero => intro t; exact Nat.le_refl _
  | succ k ih =>
    intro t
    unfold nonTrivialF
    split
    · rename_i sp b
      have := ih b; simp only [tokSize, tokSizeL]; omega
    · rename_i sp b
      have := ih b; simp only [tokSize, tokSizeL]; omega
    · rename_i sp b lo hi
      split
      · have := ih b; simp only [tokSize]; omega
      · exact Nat.le_refl _
    · exact Nat.le_refl _

theorem nonTrivial_size (t : Tok) : tokSize (nonTrivial t) ≤ tokSize t := nonTrivialF_size _ t

theorem tokSizeL_map_nonTrivial (xs : List Tok) : tokSizeL (xs.map nonTrivial) ≤ tokSizeL xs := by
  induction xs with
  | nil => simp [tokSizeL]
  | cons x xs ih => have := nonTrivial_size x; simp only [List.map, tokSizeL]; omega

/-- a branch token without semantic effect: what `into_non_trivial` unwraps -/
def isTrivial : Tok → Bool
  | .alt _ [_] => true
  | .cat _ [_] => true
  | .rep _ _ lo hi => (match NRange.fromClosedOpen lo hi with | .inv 1 => true | _ => false)
  | _ => false

/-- the fuel of `nonTrivialF` is sufficient: the result is not trivial -/
theorem nonTrivialF_nonTrivial : ∀ (k : Nat) (t : Tok), tokSize t ≤ k →
    isTrivial (nonTrivialF k t) = false := by
  intro k
  induction k with
  | zero => intro t h; have := tokSize_pos t; omega
  | succ k ih =>
    intro t h
    unfold nonTrivialF
    split
    · rename_i sp b
      exact ih b (by simp only [tokSize, tokSizeL] at h; omega)
    · rename_i sp b
      exact ih b (by simp only [tokSize, tokSizeL] at h; omega)
    · rename_i sp b lo hi
      split
      · exact ih b (by simp only [tokSize] at h; omega)
      · rename_i hne
        simp only [isTrivial]
    · rename_i h1 h2 h3
      cases t with
      | alt sp bs =>
        cases bs with
        | nil => rfl
        | cons b bs =>
          cases bs with
          | nil => exact absurd rfl (h1 sp b)
          | cons => rfl
      | cat sp bs =>
        cases bs with
        | nil => rfl
        | cons b bs =>
          cases bs with
          | nil => exact absurd rfl (h2 sp b)
          | cons => rfl
      | rep sp b lo hi => exact absurd rfl (h3 sp b lo hi)
      | _ => rfl

theorem nonTrivial_nonTrivial (t : Tok) : isTrivial (nonTrivial t) = false :=
  nonTrivialF_nonTrivial _ t (Nat.le_refl _)

/-! ### 2. the queue of `into_alternatives` -/

/-- some token of the list matches -/
def AnyM (σ : Sem) (w : Str) (l : List Tok) : Prop := ∃ a ∈ l, Spec.Matches σ a w

theorem anyM_nil (σ : Sem) (w : Str) : AnyM σ w [] ↔ False := by simp [AnyM]

theorem anyM_cons (σ : Sem) (w : Str) (t : Tok) (l : List Tok) :
    AnyM σ w (t :: l) ↔ Spec.Matches σ t w ∨ AnyM σ w l := by simp [AnyM]

theorem anyM_append (σ : Sem) (w : Str) (xs ys : List Tok) :
    AnyM σ w (xs ++ ys) ↔ AnyM σ w xs ∨ AnyM σ w ys := by
  simp only [AnyM, List.mem_append]
  constructor
  · rintro ⟨a, ha | ha, hm⟩
    · exact .inl ⟨a, ha, hm⟩
    · exact .inr ⟨a, ha, hm⟩
  · rintro (⟨a, ha, hm⟩ | ⟨a, ha, hm⟩)
    · exact ⟨a, .inl ha, hm⟩
    · exact ⟨a, .inr ha, hm⟩

theorem anyM_filter_split (σ : Sem) (w : Str) (p : Tok → Bool) (l : List Tok) :
    AnyM σ w l ↔ AnyM σ w (l.filter p) ∨ AnyM σ w (l.filter (fun b => !p b)) := by
  simp only [AnyM, List.mem_filter]
  constructor
  · rintro ⟨a, ha, hm⟩
    by_cases hp : p a = true
    · exact .inl ⟨a, ⟨ha, hp⟩, hm⟩
    · exact .inr ⟨a, ⟨ha, by simpa using hp⟩, hm⟩
  · rintro (⟨a, ⟨ha, _⟩, hm⟩ | ⟨a, ⟨ha, _⟩, hm⟩) <;> exact ⟨a, ha, hm⟩

theorem anyM_map_nonTrivial (σ : Sem) (w : Str) (l : List Tok) :
    AnyM σ w (l.map nonTrivial) ↔ AnyM σ w l := by
  simp only [AnyM, List.mem_map]
  constructor
  · rintro ⟨_, ⟨b, hb, rfl⟩, hm⟩
    exact ⟨b, hb, (nonTrivial_lang σ b w).mp hm⟩
  · rintro ⟨b, hb, hm⟩
    exact ⟨_, ⟨b, hb, rfl⟩, (nonTrivial_lang σ b w).mpr hm⟩

/-- one step of the loop on an alternation -/
theorem alternativesLoop_alt (k : Nat) (sp : Span) (bs queue acc : List Tok) :
    alternativesLoop (k + 1) (.alt sp bs :: queue) acc =
      alternativesLoop k (queue ++ (bs.map nonTrivial).filter isAlt)
        (acc ++ (bs.map nonTrivial).filter (fun b => !isAlt b)) := rfl

/-- one step of the loop on anything else -/
theorem alternativesLoop_other (k : Nat) (t : Tok) (queue acc : List Tok) (h : isAlt t = false) :
    alternativesLoop (k + 1) (t :: queue) acc = alternativesLoop k queue (acc ++ [t]) := by
  cases t <;> first | rfl | cases h

/-- with enough fuel the loop matches what the accumulated alternatives and the queued tokens match -/
theorem alternativesLoop_lang (σ : Sem) (w : Str) : ∀ (k : Nat) (queue acc : List Tok),
    tokSizeL queue ≤ k →
    (AnyM σ w (alternativesLoop k queue acc) ↔ AnyM σ w acc ∨ AnyM σ w queue) := by
  intro k
  induction k with
  | zero =>
    intro queue acc h
    have := tokSizeL_eq_zero (Nat.le_zero.mp h)
    subst this
    simp [alternativesLoop, anyM_nil]
  | succ k ih =>
    intro queue acc h
    cases queue with
    | nil => simp [alternativesLoop, anyM_nil]
    | cons t queue =>
      by_cases ht : isAlt t = true
      · cases t with
        | alt sp bs =>
          rw [alternativesLoop_alt]
          have hsz : tokSizeL (queue ++ (bs.map nonTrivial).filter isAlt) ≤ k := by
            have h1 := tokSizeL_filter_le isAlt (bs.map nonTrivial)
            have h2 := tokSizeL_map_nonTrivial bs
            rw [tokSizeL_append]
            simp only [tokSizeL, tokSize] at h
            omega
          rw [ih _ _ hsz, anyM_append, anyM_append, anyM_cons]
          have hu : Spec.Matches σ (.alt sp bs) w ↔ AnyM σ w bs := any_union sp bs w
          rw [hu, ← anyM_map_nonTrivial σ w bs, anyM_filter_split σ w isAlt (bs.map nonTrivial)]
          constructor
          · rintro ((h | h) | (h | h))
            · exact .inl h
            · exact .inr (.inl (.inr h))
            · exact .inr (.inr h)
            · exact .inr (.inl (.inl h))
          · rintro (h | (h | h) | h)
            · exact .inl (.inl h)
            · exact .inr (.inr h)
            · exact .inl (.inr h)
            · exact .inr (.inl h)
        | _ => cases ht
      · have ht' : isAlt t = false := by simpa using ht
        rw [alternativesLoop_other k t queue acc ht']
        have hsz : tokSizeL queue ≤ k := by
          have := tokSize_pos t
          simp only [tokSizeL] at h
          omega
        rw [ih _ _ hsz, anyM_append, anyM_cons, anyM_cons, anyM_nil]
        constructor
        · rintro ((h | h | h) | h)
          · exact .inl h
          · exact .inr (.inl h)
          · exact h.elim
          · exact .inr (.inr h)
        · rintro (h | h | h)
          · exact .inl (.inl h)
          · exact .inl (.inr (.inl h))
          · exact .inr h

/-- **`into_alternatives` preserves the language** (goal 1): a whole pattern matches a path exactly
    when one of its alternatives does.  No hypothesis on the shape of the tree is needed: every
    unwrapping and every flattening happens at the top of a whole pattern. -/
theorem intoAlternatives_lang (σ : Sem) (t : Tok) (w : Str) :
    Spec.Matches σ t w ↔ ∃ a ∈ intoAlternatives t, Spec.Matches σ a w := by
  have hsz : tokSizeL [nonTrivial t] ≤ tokSize t + 1 := by
    have := nonTrivial_size t
    simp only [tokSizeL]; omega
  have := alternativesLoop_lang σ w (tokSize t + 1) [nonTrivial t] [] hsz
  unfold intoAlternatives
  show _ ↔ AnyM σ w _
  rw [this, anyM_nil, anyM_cons, anyM_nil, nonTrivial_lang]
  simp

/-- the fuel of the loop is sufficient: no alternation is left among the alternatives -/
theorem alternativesLoop_noAlt : ∀ (k : Nat) (queue acc : List Tok),
    tokSizeL queue ≤ k → (∀ a ∈ acc, isAlt a = false) →
    ∀ a ∈ alternativesLoop k queue acc, isAlt a = false := by
  intro k
  induction k with
  | zero =>
    intro queue acc h hacc
    have := tokSizeL_eq_zero (Nat.le_zero.mp h)
    subst this
    simpa [alternativesLoop] using hacc
  | succ k ih =>
    intro queue acc h hacc
    cases queue with
    | nil => simpa [alternativesLoop] using hacc
    | cons t queue =>
      by_cases ht : isAlt t = true
      · cases t with
        | alt sp bs =>
          rw [alternativesLoop_alt]
          have hsz : tokSizeL (queue ++ (bs.map nonTrivial).filter isAlt) ≤ k := by
            have h1 := tokSizeL_filter_le isAlt (bs.map nonTrivial)
            have h2 := tokSizeL_map_nonTrivial bs
            rw [tokSizeL_append]
            simp only [tokSizeL, tokSize] at h
            omega
          refine ih _ _ hsz ?_
          intro a ha
          rcases List.mem_append.mp ha with ha | ha
          · exact hacc a ha
          · simpa using (List.mem_filter.mp ha).2
        | _ => cases ht
      · have ht' : isAlt t = false := by simpa using ht
        rw [alternativesLoop_other k t queue acc ht']
        have hsz : tokSizeL queue ≤ k := by
          have := tokSize_pos t
          simp only [tokSizeL] at h
          omega
        refine ih _ _ hsz ?_
        intro a ha
        rcases List.mem_append.mp ha with ha | ha
        · exact hacc a ha
        · simp only [List.mem_singleton] at ha; subst ha; exact ht'

theorem intoAlternatives_noAlt (t : Tok) : ∀ a ∈ intoAlternatives t, isAlt a = false := by
  have hsz : tokSizeL [nonTrivial t] ≤ tokSize t + 1 := by
    have := nonTrivial_size t
    simp only [tokSizeL]; omega
  exact alternativesLoop_noAlt _ _ [] hsz (by simp)

/-! ### 3. the two buckets of `FilterAny::any` -/

/-- the alternatives `is_exhaustive` calls `Always` -/
def exBucket (t : Tok) : List Tok := (intoAlternatives t).filter alwaysExhaustive
/-- all the others -/
def nxBucket (t : Tok) : List Tok := (intoAlternatives t).filter (fun a => !alwaysExhaustive a)

theorem notProgram_eq (t : Tok) :
    notProgram t = ⟨anyProgram (exBucket t), anyProgram (nxBucket t)⟩ := rfl

/-- does the program of a bucket match?  An absent program matches nothing. -/
def optMatch (σ : Sem) (r : Option Re) (w : Str) : Bool :=
  match r with
  | some r => r.matchB σ w
  | none => false

theorem residue_eq (σ : Sem) (p : NotProgram) (rel : Str) :
    p.residue σ rel =
      if optMatch σ p.exhaustive rel then .tree
      else if optMatch σ p.nonexhaustive rel then .file else .keep := rfl

theorem residue_tree_iff (σ : Sem) (p : NotProgram) (rel : Str) :
    p.residue σ rel = .tree ↔ optMatch σ p.exhaustive rel = true := by
  rw [residue_eq]
  generalize optMatch σ p.exhaustive rel = a
  generalize optMatch σ p.nonexhaustive rel = b
  cases a <;> cases b <;> simp

theorem residue_file_iff (σ : Sem) (p : NotProgram) (rel : Str) :
    p.residue σ rel = .file ↔
      optMatch σ p.exhaustive rel = false ∧ optMatch σ p.nonexhaustive rel = true := by
  rw [residue_eq]
  generalize optMatch σ p.exhaustive rel = a
  generalize optMatch σ p.nonexhaustive rel = b
  cases a <;> cases b <;> simp

theorem residue_keep_iff (σ : Sem) (p : NotProgram) (rel : Str) :
    p.residue σ rel = .keep ↔
      optMatch σ p.exhaustive rel = false ∧ optMatch σ p.nonexhaustive rel = false := by
  rw [residue_eq]
  generalize optMatch σ p.exhaustive rel = a
  generalize optMatch σ p.nonexhaustive rel = b
  cases a <;> cases b <;> simp

theorem anyProgram_nil : anyProgram [] = none := rfl

theorem anyProgram_cons (a : Tok) (l : List Tok) :
    anyProgram (a :: l) = some (encodeTop (.alt ⟨0, 0⟩ (a :: l))) := rfl

theorem anyProgram_eq_none (l : List Tok) : anyProgram l = none ↔ l = [] := by
  cases l with
  | nil => simp [anyProgram_nil]
  | cons a l => simp [anyProgram_cons]

/-- **the partition is total and disjoint** (goal 2): every alternative is in exactly one bucket,
    the buckets together are the alternatives, a bucket has a program exactly when it is not empty,
    and an absent program never produces its verdict -/
theorem partition_total (t : Tok) :
    (∀ a ∈ intoAlternatives t,
      (a ∈ exBucket t ∧ a ∉ nxBucket t) ∨ (a ∉ exBucket t ∧ a ∈ nxBucket t)) ∧
    (exBucket t ++ nxBucket t).Perm (intoAlternatives t) ∧
    (exBucket t).length + (nxBucket t).length = (intoAlternatives t).length ∧
    ((notProgram t).exhaustive = none ↔ exBucket t = []) ∧
    ((notProgram t).nonexhaustive = none ↔ nxBucket t = []) ∧
    (exBucket t = [] → ∀ σ rel, (notProgram t).residue σ rel ≠ .tree) ∧
    (nxBucket t = [] → ∀ σ rel, (notProgram t).residue σ rel ≠ .file) ∧
    (exBucket t = [] → nxBucket t = [] → ∀ σ rel, (notProgram t).residue σ rel = .keep) := by
  have hperm := List.filter_append_perm alwaysExhaustive (intoAlternatives t)
  refine ⟨?_, hperm, ?_, ?_, ?_, ?_, ?_, ?_⟩
  · intro a ha
    by_cases hx : alwaysExhaustive a = true
    · refine .inl ⟨List.mem_filter.mpr ⟨ha, hx⟩, fun h => ?_⟩
      have := (List.mem_filter.mp h).2
      simp [hx] at this
    · refine .inr ⟨fun h => hx (List.mem_filter.mp h).2, List.mem_filter.mpr ⟨ha, by simpa using hx⟩⟩
  · have := hperm.length_eq
    simpa [exBucket, nxBucket] using this
  · rw [notProgram_eq]; exact anyProgram_eq_none _
  · rw [notProgram_eq]; exact anyProgram_eq_none _
  · intro he σ rel h
    rw [residue_tree_iff, notProgram_eq, he, anyProgram_nil] at h
    cases h
  · intro hn σ rel h
    rw [residue_file_iff, notProgram_eq, hn, anyProgram_nil] at h
    cases h.2
  · intro he hn σ rel
    rw [residue_keep_iff, notProgram_eq, he, hn, anyProgram_nil]
    exact ⟨rfl, rfl⟩

/-- the empty *pattern* (not an empty bucket) still matches the empty path: it has one alternative,
    the empty literal, in the non-exhaustive bucket, and its program accepts `""` (and nothing else),
    whatever the semantics of the regex engine -/
theorem empty_pattern_matches_empty (σ : Sem) (sp : Span) (rel : Str) :
    (notProgram (.lit sp [] false)).residue σ rel = if rel = [] then .file else .keep := by
  have hnp : notProgram (.lit sp [] false) =
      ⟨none, some (encodeTop (.alt ⟨0, 0⟩ [.lit sp [] false]))⟩ := rfl
  rw [hnp]
  have hm : (encodeTop (.alt ⟨0, 0⟩ [.lit sp [] false])).matchB σ rel = true ↔ rel = [] := by
    rw [matchB_iff]
    show Matches σ (.cat [G true (.alt [.grp (.cat [.lit [] false])])]) rel ↔ _
    rw [matches_cat_singleton, matches_G, matches_alt]
    simp only [List.mem_singleton, exists_eq_left]
    rw [matches_grp, matches_cat_singleton, matches_lit]
    cases rel <;> simp [litEq]
  by_cases hr : rel = []
  · rw [if_pos hr, residue_file_iff]
    exact ⟨rfl, hm.mpr hr⟩
  · rw [if_neg hr, residue_keep_iff]
    refine ⟨rfl, ?_⟩
    cases hb : optMatch σ (some (encodeTop (.alt ⟨0, 0⟩ [.lit sp [] false]))) rel with
    | false => rfl
    | true => exact absurd (hm.mp hb) hr

/-! ### 4. the residue against the documented language -/

/-- the fragment for a negation: the `any` of its alternatives lies in `F01`, i.e. every
    alternative, compiled as a branch of a top-level alternation, sends no tree wildcard through a
    site whose form is wrong for its context and has no class that fails to compile -/
def notF01 (t : Tok) : Bool := F01 (.alt ⟨0, 0⟩ (intoAlternatives t))

theorem F01_alt (sp : Span) (l : List Tok) :
    F01 (.alt sp l) = okBranches (some .only) ⟨true, true⟩ l := by
  simp [F01, okTok, supOr]

theorem okBranches_filter (sup : Option Pos) (c : Ctx) (p : Tok → Bool) : ∀ (l : List Tok),
    okBranches sup c l = true → okBranches sup c (l.filter p) = true
  | [], _ => by simp [okBranches]
  | b :: bs, h => by
    rw [okBranches_cons, Bool.and_eq_true] at h
    have ih := okBranches_filter sup c p bs h.2
    by_cases hp : p b = true
    · rw [List.filter_cons_of_pos hp, okBranches_cons, Bool.and_eq_true]
      exact ⟨h.1, ih⟩
    · rw [List.filter_cons_of_neg hp]; exact ih

theorem F01_alt_filter (sp : Span) (p : Tok → Bool) (l : List Tok) (h : F01 (.alt sp l) = true) :
    F01 (.alt sp (l.filter p)) = true := by
  rw [F01_alt] at h ⊢
  exact okBranches_filter _ _ p l h

/-- the program of a bucket in the fragment accepts exactly what one of its tokens matches; an
    empty bucket accepts nothing -/
theorem anyProgram_match (σ : Sem) (hdot : σ.dotall = true) (l : List Tok)
    (hF : F01 (.alt ⟨0, 0⟩ l) = true) (w : Str) :
    optMatch σ (anyProgram l) w = true ↔ ∃ a ∈ l, Spec.Matches σ a w := by
  cases l with
  | nil => simp [anyProgram_nil, optMatch]
  | cons a l =>
    rw [anyProgram_cons]
    show (encodeTop (.alt ⟨0, 0⟩ (a :: l))).matchB σ w = true ↔ _
    rw [matchB_iff, encode_eq_spec_partial σ hdot _ hF, any_union]

theorem exMatch_iff (σ : Sem) (hdot : σ.dotall = true) (t : Tok) (hF : notF01 t = true) (w : Str) :
    optMatch σ (notProgram t).exhaustive w = true ↔
      ∃ a ∈ intoAlternatives t, alwaysExhaustive a = true ∧ Spec.Matches σ a w := by
  show optMatch σ (anyProgram ((intoAlternatives t).filter alwaysExhaustive)) w = true ↔ _
  rw [anyProgram_match σ hdot _ (F01_alt_filter _ _ _ hF)]
  simp only [List.mem_filter]
  constructor
  · rintro ⟨a, ⟨ha, hx⟩, hm⟩; exact ⟨a, ha, hx, hm⟩
  · rintro ⟨a, ha, hx, hm⟩; exact ⟨a, ⟨ha, hx⟩, hm⟩

theorem nxMatch_iff (σ : Sem) (hdot : σ.dotall = true) (t : Tok) (hF : notF01 t = true) (w : Str) :
    optMatch σ (notProgram t).nonexhaustive w = true ↔
      ∃ a ∈ intoAlternatives t, alwaysExhaustive a = false ∧ Spec.Matches σ a w := by
  show optMatch σ (anyProgram ((intoAlternatives t).filter (fun a => !alwaysExhaustive a))) w = true ↔ _
  rw [anyProgram_match σ hdot _ (F01_alt_filter _ _ _ hF)]
  simp only [List.mem_filter, Bool.not_eq_eq_eq_not, Bool.not_true]
  constructor
  · rintro ⟨a, ⟨ha, hx⟩, hm⟩; exact ⟨a, ha, hx, hm⟩
  · rintro ⟨a, ha, hx, hm⟩; exact ⟨a, ⟨ha, hx⟩, hm⟩

/-- `Tree` exactly when an alternative the fold calls `Always` matches -/
theorem residue_tree_iff_matches_partial (σ : Sem) (hdot : σ.dotall = true) (t : Tok)
    (hF : notF01 t = true) (rel : Str) :
    (notProgram t).residue σ rel = .tree ↔
      ∃ a ∈ intoAlternatives t, alwaysExhaustive a = true ∧ Spec.Matches σ a rel := by
  rw [residue_tree_iff, exMatch_iff σ hdot t hF]

/-- **C03 on the fragment, per entry** (goal 3): a negation discards (as a file or as a tree)
    exactly the entries whose relative path the pattern matches

    Full statement (without `hF`): false in general, since outside `F01` the compiled program of a
    bucket is not the documented language (C01), e.g. `not("/**")`: under `any` the rooted tree
    wildcard is compiled as `(.*)`, which also matches the empty path. -/
theorem residue_iff_matches_partial (σ : Sem) (hdot : σ.dotall = true) (t : Tok)
    (hF : notF01 t = true) (rel : Str) :
    (notProgram t).residue σ rel ≠ .keep ↔ Spec.Matches σ t rel := by
  rw [intoAlternatives_lang σ t rel, Ne, residue_keep_iff]
  have he := exMatch_iff σ hdot t hF rel
  have hn := nxMatch_iff σ hdot t hF rel
  constructor
  · intro h
    cases hb : optMatch σ (notProgram t).exhaustive rel with
    | true =>
      obtain ⟨a, ha, _, hm⟩ := he.mp hb
      exact ⟨a, ha, hm⟩
    | false =>
      cases hb2 : optMatch σ (notProgram t).nonexhaustive rel with
      | true =>
        obtain ⟨a, ha, _, hm⟩ := hn.mp hb2
        exact ⟨a, ha, hm⟩
      | false => exact absurd ⟨hb, hb2⟩ h
  · rintro ⟨a, ha, hm⟩ ⟨h1, h2⟩
    cases hx : alwaysExhaustive a with
    | true => rw [he.mpr ⟨a, ha, hx, hm⟩] at h1; cases h1
    | false => rw [hn.mpr ⟨a, ha, hx, hm⟩] at h2; cases h2

/-- ... and when it discards the entry as a tree, an alternative of the exhaustive bucket matches -/
theorem residue_tree_matches_partial (σ : Sem) (hdot : σ.dotall = true) (t : Tok)
    (hF : notF01 t = true) (rel : Str) (h : (notProgram t).residue σ rel = .tree) :
    ∃ a ∈ exBucket t, Spec.Matches σ a rel := by
  obtain ⟨a, ha, hx, hm⟩ := (residue_tree_iff_matches_partial σ hdot t hF rel).mp h
  exact ⟨a, List.mem_filter.mpr ⟨ha, hx⟩, hm⟩

/-- `File` exactly when the pattern matches but no `Always` alternative does -/
theorem residue_file_iff_matches_partial (σ : Sem) (hdot : σ.dotall = true) (t : Tok)
    (hF : notF01 t = true) (rel : Str) :
    (notProgram t).residue σ rel = .file ↔
      Spec.Matches σ t rel ∧
        ¬ ∃ a ∈ intoAlternatives t, alwaysExhaustive a = true ∧ Spec.Matches σ a rel := by
  rw [← residue_iff_matches_partial σ hdot t hF, ← residue_tree_iff_matches_partial σ hdot t hF]
  cases (notProgram t).residue σ rel <;> simp

/-! ### 5. composed with the walk -/

open Wax.WalkTree in
theorem mem_okKept (P : Str → Bool) (e : WalkTree.Entry) : ∀ (items : List WalkTree.Item),
    e ∈ okKept P items ↔ (WalkTree.Item.ok e ∈ items ∧ P (relOf e.path) = false)
  | [] => by simp [okKept]
  | .ok e' :: rest => by
    have ih := mem_okKept P e rest
    by_cases hP : P (relOf e'.path) = true
    · simp only [okKept, hP, ↓reduceIte, ih, List.mem_cons, WalkTree.Item.ok.injEq]
      constructor
      · rintro ⟨h1, h2⟩; exact ⟨.inr h1, h2⟩
      · rintro ⟨h1 | h1, h2⟩
        · subst h1; rw [hP] at h2; cases h2
        · exact ⟨h1, h2⟩
    · simp only [okKept, hP, Bool.false_eq_true, ↓reduceIte, ih, List.mem_cons, WalkTree.Item.ok.injEq]
      constructor
      · rintro (h | ⟨h1, h2⟩)
        · subst h; exact ⟨.inl rfl, by simpa using hP⟩
        · exact ⟨.inr h1, h2⟩
      · rintro ⟨h1 | h1, h2⟩
        · exact .inl h1
        · exact .inr ⟨h1, h2⟩
  | .err p :: rest => by
    have ih := mem_okKept P e rest
    simp [okKept, ih]

/-- what a consumer of `walk.not(t)` does not receive: the residue is `File` or `Tree` -/
def discards (σ : Sem) (t : Tok) (w : Str) : Bool := (notProgram t).residue σ w != .keep
/-- where `walk.not(t)` cancels the traversal (on a directory): the residue is `Tree` -/
def prunes (σ : Sem) (t : Tok) (w : Str) : Bool := (notProgram t).residue σ w == .tree

theorem discards_eq_false (σ : Sem) (hdot : σ.dotall = true) (t : Tok) (hF : notF01 t = true)
    (w : Str) : discards σ t w = false ↔ ¬ Spec.Matches σ t w := by
  rw [← residue_iff_matches_partial σ hdot t hF w]
  simp [discards]

/-- the decidable fragment on which an `Always` alternative is descendant-closed: every flat
    expansion ends in a tree wildcard, or (for a concatenation) the tokens are in `F09b` -/
def descFrag (a : Tok) : Bool :=
  endsList a.concatenation || (match a with | .cat _ ts => F09b ts | _ => false)

theorem alwaysExhaustive_iff (a : Tok) : alwaysExhaustive a = true ↔ isExhaustive a = .ok .always := by
  unfold alwaysExhaustive
  split
  · rename_i h; simp [h]
  · rename_i h
    constructor
    · intro h'; cases h'
    · intro h'; exact absurd h' h

/-- `exhaustive_sound_partial` / `exhaustive_sound_branch_partial` on an alternative -/
theorem descFrag_sound (σ : Sem) (a : Tok) (hfrag : descFrag a = true)
    (hA : alwaysExhaustive a = true) (w x : Str) (hm : Spec.Matches σ a w) :
    Spec.Matches σ a (w ++ '/' :: x) := by
  simp only [descFrag, Bool.or_eq_true] at hfrag
  rcases hfrag with h | h
  · exact endsInTree_descClosed σ a h w hm x
  · cases a with
    | cat sp ts =>
      exact exhaustive_sound_branch_partial σ sp ts h ((alwaysExhaustive_iff _).mp hA) w hm x
    | _ => cases h

theorem prunes_imp_discards (σ : Sem) (t : Tok) (w : Str) (h : prunes σ t w = true) :
    discards σ t w = true := by
  have : (notProgram t).residue σ w = .tree := by simpa [prunes] using h
  simp [discards, this]

open Wax.WalkTree in
/-- the exhaustive bucket is closed under descending from an entry of the walk -/
theorem prunes_closed (σ : Sem) (hdot : σ.dotall = true) (t : Tok) (hF : notF01 t = true)
    (hdesc : ∀ a ∈ intoAlternatives t, alwaysExhaustive a = true →
      ∀ w x, Spec.Matches σ a w → Spec.Matches σ a (w ++ '/' :: x))
    (hempty : ∀ a ∈ intoAlternatives t, alwaysExhaustive a = true → ¬ Spec.Matches σ a [])
    (a q : List Str) (ha : prunes σ t (relOf a) = true) : prunes σ t (relOf (a ++ q)) = true := by
  have hE : ∀ w, prunes σ t w = true ↔
      ∃ a ∈ intoAlternatives t, alwaysExhaustive a = true ∧ Spec.Matches σ a w := by
    intro w
    rw [← residue_tree_iff_matches_partial σ hdot t hF w]
    simp [prunes]
  by_cases hq : q = []
  · subst hq; simpa using ha
  · obtain ⟨b, hb, hx, hm⟩ := (hE _).mp ha
    by_cases hp : a = []
    · subst hp; exact absurd hm (hempty b hb hx)
    · rw [relOf_append hp hq]
      exact (hE _).mpr ⟨b, hb, hx, hdesc b hb hx _ _ hm⟩

open Wax.WalkTree in
/-- **C03 composed** (goal 4), for a negation in `notF01` all of whose `Always` alternatives are
    descendant-closed and do not match the empty path: walking with `not(t)` — every entry gets the
    residue of the partitioned program as verdict, and the traversal is cancelled beneath the
    directories discarded as `Tree` — the consumer receives exactly the Ok entries of the unpruned
    walk whose relative path the pattern does not match.

    Full statement (without `hdesc`, `hF`): false, see `not_program_walk_needs_desc` and
    `residue_iff_matches_needs_F01` below. -/
theorem not_program_walk_exact_partial (σ : Sem) (hdot : σ.dotall = true) (t : Tok)
    (hF : notF01 t = true)
    (hdesc : ∀ a ∈ intoAlternatives t, alwaysExhaustive a = true →
      ∀ w x, Spec.Matches σ a w → Spec.Matches σ a (w ++ '/' :: x))
    (hempty : ∀ a ∈ intoAlternatives t, alwaysExhaustive a = true → ¬ Spec.Matches σ a [])
    (n : WalkTree.Node) (p : List Str) :
    okKept (discards σ t) (visit (fun e => prunes σ t (relOf e.path)) p n) =
        okKept (discards σ t) (visit never p n) ∧
    ∀ e, e ∈ okKept (discards σ t) (visit (fun e => prunes σ t (relOf e.path)) p n) ↔
      (WalkTree.Item.ok e ∈ visit never p n ∧ ¬ Spec.Matches σ t (relOf e.path)) := by
  have heq := not_exact (discards σ t) (prunes σ t) (prunes_imp_discards σ t)
    (prunes_closed σ hdot t hF hdesc hempty) n p
  refine ⟨heq, fun e => ?_⟩
  rw [heq, mem_okKept, discards_eq_false σ hdot t hF]

open Wax.WalkTree in
/-- the same for the whole walk as the walkdir machine runs it (`WalkTree.run` from the frame of
    the root directory, cancelled where the residue is `Tree`) -/
theorem not_program_run_exact_partial (σ : Sem) (hdot : σ.dotall = true) (t : Tok)
    (hF : notF01 t = true)
    (hdesc : ∀ a ∈ intoAlternatives t, alwaysExhaustive a = true →
      ∀ w x, Spec.Matches σ a w → Spec.Matches σ a (w ++ '/' :: x))
    (hempty : ∀ a ∈ intoAlternatives t, alwaysExhaustive a = true → ¬ Spec.Matches σ a [])
    (root : List Str) (cs : List WalkTree.Node) :
    let pruned := WalkTree.run (fun e => prunes σ t (relOf e.path))
      (WalkTree.stackSize [⟨root, cs⟩]) [⟨root, cs⟩]
    let full := WalkTree.run never (WalkTree.stackSize [⟨root, cs⟩]) [⟨root, cs⟩]
    okKept (discards σ t) pruned = okKept (discards σ t) full ∧
    ∀ e, e ∈ okKept (discards σ t) pruned ↔
      (WalkTree.Item.ok e ∈ full ∧ ¬ Spec.Matches σ t (relOf e.path)) := by
  intro pruned full
  have hp : pruned = visitList (fun e => prunes σ t (relOf e.path)) root cs := walk_refines _ root cs
  have hf : full = visitList never root cs := walk_refines _ root cs
  have heq := not_exactL (discards σ t) (prunes σ t) (prunes_imp_discards σ t)
    (prunes_closed σ hdot t hF hdesc hempty) cs root
  rw [hp, hf]
  refine ⟨heq, fun e => ?_⟩
  rw [heq, mem_okKept, discards_eq_false σ hdot t hF]

/-- the hypothesis on the empty path follows from "the pattern does not match the empty path" -/
theorem hempty_of_not_matches (σ : Sem) (t : Tok) (h : ¬ Spec.Matches σ t []) :
    ∀ a ∈ intoAlternatives t, alwaysExhaustive a = true → ¬ Spec.Matches σ a [] :=
  fun a ha _ hm => h ((intoAlternatives_lang σ t []).mpr ⟨a, ha, hm⟩)

/-- a decidable sufficient condition for the two semantic hypotheses: every alternative of the
    exhaustive bucket is in `descFrag` and matches at least one character -/
def notWalkFrag (t : Tok) : Bool :=
  (exBucket t).all (fun a => descFrag a && decide (1 ≤ minLenTop a.concatenation))

open Wax.WalkTree in
/-- the same with decidable hypotheses only, for the walk machine itself (`WalkTree.run` from the
    root frame, by `walk_refines`) -/
theorem not_program_walk_exact_frag (σ : Sem) (hdot : σ.dotall = true) (t : Tok)
    (hF : notF01 t = true) (hW : notWalkFrag t = true) (n : WalkTree.Node) (p : List Str) :
    okKept (discards σ t) (visit (fun e => prunes σ t (relOf e.path)) p n) =
        okKept (discards σ t) (visit never p n) ∧
    ∀ e, e ∈ okKept (discards σ t) (visit (fun e => prunes σ t (relOf e.path)) p n) ↔
      (WalkTree.Item.ok e ∈ visit never p n ∧ ¬ Spec.Matches σ t (relOf e.path)) := by
  have hall : ∀ a ∈ intoAlternatives t, alwaysExhaustive a = true →
      descFrag a = true ∧ 1 ≤ minLenTop a.concatenation := by
    intro a ha hx
    have := List.all_eq_true.mp hW a (List.mem_filter.mpr ⟨ha, hx⟩)
    simpa using this
  refine not_program_walk_exact_partial σ hdot t hF ?_ ?_ n p
  · intro a ha hx w x hm
    exact descFrag_sound σ a (hall a ha hx).1 hx w x hm
  · intro a ha hx hm
    have h1 := (hall a ha hx).2
    have h2 := sms_minLenTop σ (show SMs σ ⟨true, true⟩ a.concatenation [] from hm)
    simp only [List.length_nil] at h2
    omega

/-! ### 6. the theorems at work: `not("{a,{b,c/**}}")` -/

/-- `{a,{b,c/**}}` as parsed -/
def npTok : Tok :=
  .cat ⟨0, 12⟩ [.alt ⟨0, 12⟩ [.cat ⟨1, 1⟩ [.lit ⟨1, 1⟩ ['a'] false],
    .cat ⟨3, 8⟩ [.alt ⟨3, 8⟩ [.cat ⟨4, 1⟩ [.lit ⟨4, 1⟩ ['b'] false],
      .cat ⟨6, 4⟩ [.lit ⟨6, 1⟩ ['c'] false, .tree ⟨7, 3⟩ true]]]]]

set_option maxRecDepth 100000 in
theorem npTok_parse : parse "{a,{b,c/**}}".toList = .ok npTok := by rfl

/-- the single-token concatenations are unwrapped, the nested alternation is flattened -/
theorem npTok_alternatives :
    intoAlternatives npTok =
      [.lit ⟨1, 1⟩ ['a'] false, .lit ⟨4, 1⟩ ['b'] false,
        .cat ⟨6, 4⟩ [.lit ⟨6, 1⟩ ['c'] false, .tree ⟨7, 3⟩ true]] := rfl

-- `intoAlternatives_lang` on it: the pattern matches `c/x/y` because the third alternative does
example (σ : Sem) (h : Spec.Matches σ (.cat ⟨6, 4⟩ [.lit ⟨6, 1⟩ ['c'] false, .tree ⟨7, 3⟩ true]) "c/x/y".toList) :
    Spec.Matches σ npTok "c/x/y".toList :=
  (intoAlternatives_lang σ npTok _).mpr ⟨_, by rw [npTok_alternatives]; simp, h⟩

-- `partition_total` on it: two alternatives are not exhaustive, one is
example : exBucket npTok = [.cat ⟨6, 4⟩ [.lit ⟨6, 1⟩ ['c'] false, .tree ⟨7, 3⟩ true]] ∧
    nxBucket npTok = [.lit ⟨1, 1⟩ ['a'] false, .lit ⟨4, 1⟩ ['b'] false] := ⟨rfl, rfl⟩

-- a negation with an empty bucket: `not("a")` has no exhaustive program
example : (notProgram (.lit ⟨0, 1⟩ ['a'] false)).exhaustive = none := rfl

-- the hypotheses of `residue_iff_matches_partial` and `not_program_walk_exact_frag` hold for it
example : σcs.dotall = true ∧ notF01 npTok = true ∧ notWalkFrag npTok = true := ⟨rfl, rfl, rfl⟩

-- ... so `c/x` is discarded as a tree, `b` as a file, and `d` is kept, and by the theorem that is
-- what the documented language says
example : (notProgram npTok).residue σcs "c/x".toList = .tree ∧
    (notProgram npTok).residue σcs "b".toList = .file ∧
    (notProgram npTok).residue σcs "d".toList = .keep := by
  refine ⟨by decide, by decide, by decide⟩

example : Spec.Matches σcs npTok "c/x".toList ∧ ¬ Spec.Matches σcs npTok "d".toList := by
  constructor
  · exact (residue_iff_matches_partial σcs rfl npTok rfl _).mp (by decide)
  · intro h
    exact absurd ((residue_iff_matches_partial σcs rfl npTok rfl _).mpr h) (by decide)

/-- a tree: `a`, `c/{x/{y}}`, `d/{a, e}` -/
def npTree : List WalkTree.Node :=
  [.file ['a'], .dir ['c'] [.dir ['x'] [.file ['y']]], .dir ['d'] [.file ['a'], .file ['e']]]

open Wax.WalkTree in
-- the pruned walk never reads `c`; the consumer receives `d`, `d/a` (only the *relative path* `a`
-- is matched), `d/e` — the entries of the unpruned walk that the pattern does not match
example :
    okKept (discards σcs npTok) (visitList (fun e => prunes σcs npTok (relOf e.path)) [] npTree) =
      [⟨[['d']], true⟩, ⟨[['d'], ['a']], false⟩, ⟨[['d'], ['e']], false⟩] ∧
    (visitList (fun e => prunes σcs npTok (relOf e.path)) [] npTree).length = 5 ∧
    (visitList never [] npTree).length = 7 := by
  refine ⟨by decide, by decide, by decide⟩

/-! ### 7. what happens without the hypotheses -/

/-- `/**/a` as parsed -/
def npRootedTreeTok : Tok := .cat ⟨0, 5⟩ [.tree ⟨0, 4⟩ true, .lit ⟨4, 1⟩ ['a'] false]

set_option maxRecDepth 100000 in
theorem npRootedTreeTok_parse : parse "/**/a".toList = .ok npRootedTreeTok := by rfl

/-- **`residue_iff_matches_partial` is false without `notF01`**: `not("/**/a")`.  A rooted tree
    wildcard at the start of a pattern is compiled as `([/].*[/]?)` (finding K-ENC-ROOTED-FIRST),
    which accepts half a component: the negation discards `/xa`, which the documented language of
    `/**/a` does not contain.  (Until the repair of `{/**}` — a rooted tree wildcard that is a whole
    branch at the start of a pattern, compiled as `(?:.*)` — the witness here was `not("/**")`,
    which discarded every path as a tree.) -/
theorem residue_iff_matches_needs_F01 :
    notF01 npRootedTreeTok = false ∧
    (notProgram npRootedTreeTok).residue σcs "/xa".toList = .file ∧
    ¬ Spec.Matches σcs npRootedTreeTok "/xa".toList := by
  refine ⟨rfl, by decide, ?_⟩
  intro h
  have := (specRe_correct σcs rfl npRootedTreeTok "/xa".toList).mpr h
  rw [← matchB_iff] at this
  revert this
  decide

/-- `**/{a}` as parsed -/
def npFalseAlwaysTok : Tok :=
  .cat ⟨0, 6⟩ [.tree ⟨0, 3⟩ false, .alt ⟨3, 3⟩ [.cat ⟨4, 1⟩ [.lit ⟨4, 1⟩ ['a'] false]]]

set_option maxRecDepth 100000 in
theorem npFalseAlwaysTok_parse : parse "**/{a}".toList = .ok npFalseAlwaysTok := by rfl

open Wax.WalkTree in
/-- **`not_program_walk_exact_partial` is false without `hdesc`**: `not("**/{a}")` is inside `notF01`
    and does not match the empty path, but `is_exhaustive` calls its only alternative `Always`
    although it matches `a` and not `a/x`.  On the tree `a/{x}` the walk is cancelled at `a`, and the
    consumer never receives `a/x`, which the pattern does not match. -/
theorem not_program_walk_needs_desc :
    notF01 npFalseAlwaysTok = true ∧ exBucket npFalseAlwaysTok = [npFalseAlwaysTok] ∧
    (notProgram npFalseAlwaysTok).residue σcs [] = .keep ∧
    notWalkFrag npFalseAlwaysTok = false ∧
    okKept (discards σcs npFalseAlwaysTok)
      (visitList (fun e => prunes σcs npFalseAlwaysTok (relOf e.path)) [] [.dir ['a'] [.file ['x']]]) = [] ∧
    okKept (discards σcs npFalseAlwaysTok) (visitList never [] [.dir ['a'] [.file ['x']]]) =
      [⟨[['a'], ['x']], false⟩] ∧
    ¬ Spec.Matches σcs npFalseAlwaysTok "a/x".toList := by
  refine ⟨rfl, rfl, by decide, rfl, by decide, by decide, ?_⟩
  intro h
  exact absurd ((residue_iff_matches_partial σcs rfl npFalseAlwaysTok rfl _).mpr h) (by decide)

end Wax.Walk
