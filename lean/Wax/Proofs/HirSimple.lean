import Wax.Proofs.HirAlt
import Wax.Proofs.ExecComplete
/-!
`Re.hirNorm` keeps the fragment of `Wax/Proofs/ExecComplete.lean`: if the unbounded loops of `r`
have bodies without union states (`r.loopsSimple`), so have those of the normal form
(`hirNorm_loopsSimple`).  Hence the hypothesis of `match_model_complete` can be put on the pattern
wax printed.
-/
namespace Wax

/-- the pattern of the normal form has simple loops -/
def H.S (h : H) : Prop := h.toRe.loopsSimple = true
/-- the pattern of the normal form has no union states -/
def H.U (h : H) : Prop := h.toRe.unionFree = true

theorem loopsSimpleL_iff : ∀ (l : List Re), Re.loopsSimpleL l = true ↔ ∀ r ∈ l, r.loopsSimple = true
  | [] => by simp [Re.loopsSimpleL]
  | r :: rs => by simp [Re.loopsSimpleL, loopsSimpleL_iff rs]

theorem unionFreeL_iff : ∀ (l : List Re), Re.unionFreeL l = true ↔ ∀ r ∈ l, r.unionFree = true
  | [] => by simp [Re.unionFreeL]
  | r :: rs => by simp [Re.unionFreeL, unionFreeL_iff rs]

theorem S_list_iff (l : List H) : Re.loopsSimpleL (H.toReList l) = true ↔ ∀ x ∈ l, x.S := by
  rw [loopsSimpleL_iff, H.toReList_eq_map]
  simp only [List.mem_map, forall_exists_index, and_imp, forall_apply_eq_imp_iff₂]
  rfl

theorem U_list_iff (l : List H) : Re.unionFreeL (H.toReList l) = true ↔ ∀ x ∈ l, x.U := by
  rw [unionFreeL_iff, H.toReList_eq_map]
  simp only [List.mem_map, forall_exists_index, and_imp, forall_apply_eq_imp_iff₂]
  rfl

theorem S_cat {l : List H} : (H.cat l).S ↔ ∀ x ∈ l, x.S := by
  rw [← S_list_iff]; simp only [H.S, H.toRe, Re.loopsSimple]

theorem U_cat {l : List H} : (H.cat l).U ↔ ∀ x ∈ l, x.U := by
  rw [← U_list_iff]; simp only [H.U, H.toRe, Re.unionFree]

theorem S_alt {l : List H} : (H.alt l).S ↔ ∀ x ∈ l, x.S := by
  rw [← S_list_iff]; simp only [H.S, H.toRe, Re.loopsSimple]

theorem S_empty : H.empty.S := by simp [H.S, H.toRe, Re.loopsSimple]
theorem U_empty : H.empty.U := by simp [H.U, H.toRe, Re.unionFree]
theorem S_lit (s : Str) : (H.lit s).S := by simp [H.S, H.toRe, Re.loopsSimple]
theorem U_lit (s : Str) : (H.lit s).U := by simp [H.U, H.toRe, Re.unionFree]
theorem S_fail : H.fail.S := by simp [H.S, H.toRe, Re.loopsSimple]
theorem U_fail : H.fail.U := by simp [H.U, H.toRe, Re.unionFree]

/-! ### `mkCat` -/

theorem S_catFlat {x : H} (h : x.S) : ∀ y ∈ catFlat x, y.S := by
  cases x <;> simp only [catFlat, List.mem_singleton, forall_eq, List.not_mem_nil, false_imp_iff,
    implies_true] <;> first | exact h | exact S_cat.mp h

theorem U_catFlat {x : H} (h : x.U) : ∀ y ∈ catFlat x, y.U := by
  cases x <;> simp only [catFlat, List.mem_singleton, forall_eq, List.not_mem_nil, false_imp_iff,
    implies_true] <;> first | exact h | exact U_cat.mp h

theorem S_catOf : ∀ {xs : List H}, (∀ x ∈ xs, x.S) → (catOf xs).S
  | [], _ => S_empty
  | [x], h => h x (List.mem_cons_self ..)
  | _ :: _ :: _, h => S_cat.mpr h

theorem U_catOf : ∀ {xs : List H}, (∀ x ∈ xs, x.U) → (catOf xs).U
  | [], _ => U_empty
  | [x], h => h x (List.mem_cons_self ..)
  | _ :: _ :: _, h => U_cat.mpr h

theorem S_mkCat {l : List H} (h : ∀ x ∈ l, x.S) : (mkCat l).S := by
  rw [mkCat_eq]
  apply S_catOf
  intro x hx
  rcases mem_mergeLits _ hx with hx | ⟨s, rfl⟩
  · obtain ⟨y, hy, hxy⟩ := List.mem_flatMap.mp hx
    exact S_catFlat (h y hy) x hxy
  · exact S_lit s

theorem U_mkCat {l : List H} (h : ∀ x ∈ l, x.U) : (mkCat l).U := by
  rw [mkCat_eq]
  apply U_catOf
  intro x hx
  rcases mem_mergeLits _ hx with hx | ⟨s, rfl⟩
  · obtain ⟨y, hy, hxy⟩ := List.mem_flatMap.mp hx
    exact U_catFlat (h y hy) x hxy
  · exact U_lit s

/-! ### `mkRep`, `mkClass` -/

theorem S_repOf {lo : Nat} {hi : Option Nat} {lz : Bool} {sub : H} (hs : sub.S) (hu : hi = none → sub.U) :
    (repOf lo hi lz sub).S := by
  unfold repOf
  split
  · exact S_empty
  · split
    · exact hs
    · simp only [H.S, H.toRe]
      split
      · rename_i hc
        simp only [Bool.and_eq_true, beq_iff_eq] at hc
        simp only [Re.loopsSimple]
        exact hu hc.2
      · cases hi with
        | none => simp only [Re.loopsSimple]; exact hu rfl
        | some n => simp only [Re.loopsSimple]; exact hs

theorem S_mkRep {lo : Nat} {hi : Option Nat} {lz : Bool} {sub : H} (hs : sub.S) (hu : hi = none → sub.U) :
    (mkRep lo hi lz sub).S := by
  rw [mkRep_eq]
  split
  · exact S_repOf hs (by intro e; cases e)
  · exact S_repOf hs hu

theorem S_mkClass {key : Ranges} {impl : Re} (h : impl.loopsSimple = true) : (mkClass key impl).S := by
  rcases mkClass_cases key impl with ⟨_, he⟩ | ⟨a, _, he⟩ | ⟨_, _, he⟩ <;> rw [he]
  · exact S_fail
  · exact S_lit _
  · simpa only [H.S, H.toRe] using h

theorem U_mkClass {key : Ranges} {impl : Re} (h : impl.unionFree = true) : (mkClass key impl).U := by
  rcases mkClass_cases key impl with ⟨_, he⟩ | ⟨a, _, he⟩ | ⟨_, _, he⟩ <;> rw [he]
  · exact U_fail
  · exact U_lit _
  · simpa only [H.U, H.toRe] using h

/-! ### `mkAltF` -/

theorem S_altFlat {x : H} (h : x.S) : ∀ y ∈ altFlat x, y.S := by
  cases x <;> simp only [altFlat, List.mem_singleton, forall_eq] <;> first | exact h | exact S_alt.mp h

theorem S_flat {l : List H} (h : ∀ x ∈ l, x.S) : ∀ y ∈ l.flatMap altFlat, y.S := by
  intro y hy
  obtain ⟨x, hx, hxy⟩ := List.mem_flatMap.mp hy
  exact S_altFlat (h x hx) y hxy

theorem S_impl {flat : List H} (h : ∀ x ∈ flat, x.S) : (Re.grp (.alt (H.toReList flat))).loopsSimple = true := by
  simp only [Re.loopsSimple]; exact (S_list_iff flat).mpr h

theorem liftPrefix_S (fuel : Nat) (p : List H) (rest : List (List H)) (flat : List H)
    (hflat : ∀ x ∈ flat, x.S) (hwf : ∀ xs ∈ p :: rest, ∀ x ∈ xs, x.S)
    (ih : ∀ l, (∀ x ∈ l, x.S) → (mkAltF fuel l).S) : (liftPrefix fuel flat p rest).S := by
  unfold liftPrefix
  dsimp only
  generalize List.foldl (fun n ys => min n (commonLen p ys)) p.length rest = len
  split
  · exact S_alt.mpr hflat
  · apply S_mkCat
    intro x hx
    rcases List.mem_append.mp hx with hx | hx
    · exact hwf p (List.mem_cons_self ..) x (List.mem_of_mem_take hx)
    · rw [List.mem_singleton.mp hx]
      apply ih
      intro s hs
      obtain ⟨xs, hxs, rfl⟩ := List.mem_map.mp hs
      exact S_mkCat (fun x hx => hwf xs hxs x (List.mem_of_mem_drop hx))

theorem altLift_S (fuel : Nat) (flat : List H) (first : H) (others : List H)
    (hflat : flat = first :: others) (hwf : ∀ x ∈ flat, x.S)
    (ih : ∀ f, fuel = f + 1 → ∀ l, (∀ x ∈ l, x.S) → (mkAltF f l).S) :
    (altLift fuel flat first others).S := by
  cases fuel with
  | zero => exact S_alt.mpr hwf
  | succ f =>
    simp only [altLift]
    split
    · rename_i p rest hp hrest
      have hflat' : flat = (p :: rest).map H.cat := by
        rw [hflat, catElems_some hp, allCats_some hrest]; rfl
      refine liftPrefix_S f p rest flat hwf ?_ (ih f rfl)
      intro xs hxs
      have : H.cat xs ∈ flat := by rw [hflat']; exact List.mem_map.mpr ⟨xs, hxs, rfl⟩
      exact S_cat.mp (hwf _ this)
    · exact S_alt.mpr hwf

theorem altMain_S (fuel : Nat) (flat : List H) (first : H) (others : List H)
    (hflat : flat = first :: others) (hwf : ∀ x ∈ flat, x.S)
    (ih : ∀ f, fuel = f + 1 → ∀ l, (∀ x ∈ l, x.S) → (mkAltF f l).S) :
    (altMain fuel flat first others).S := by
  unfold altMain
  dsimp only
  split
  · exact S_mkClass (S_impl hwf)
  · split
    · exact S_mkClass (S_impl hwf)
    · exact altLift_S fuel flat first others hflat hwf ih

theorem mkAltF_S_core (fuel : Nat) (l : List H) (hwf : ∀ x ∈ l, x.S)
    (ih : ∀ f, fuel = f + 1 → ∀ l, (∀ x ∈ l, x.S) → (mkAltF f l).S) : (mkAltF fuel l).S := by
  rw [mkAltF_eq]
  have hfw := S_flat hwf
  generalize l.flatMap altFlat = flat at hfw
  match flat, hfw with
  | [], _ => exact S_fail
  | [x], hfw => exact hfw x (List.mem_cons_self ..)
  | first :: y :: others, hfw => exact altMain_S fuel (first :: y :: others) first (y :: others) rfl hfw ih

theorem mkAltF_S : ∀ (fuel : Nat) (l : List H), (∀ x ∈ l, x.S) → (mkAltF fuel l).S := by
  intro fuel
  induction fuel with
  | zero => intro l hwf; exact mkAltF_S_core 0 l hwf (fun f hf => by cases hf)
  | succ n ih => intro l hwf; exact mkAltF_S_core (n + 1) l hwf (fun f hf => by cases hf; exact ih)

theorem mkAlt_S (l : List H) (hwf : ∀ x ∈ l, x.S) : (mkAlt l).S := by
  rw [mkAlt_eq]; exact mkAltF_S _ l hwf

/-! ### the translation -/

theorem litChar_U (orbit : Char → List Char) (ci : Bool) (c : Char) :
    (if ci then mkClass (Ranges.canon ((c :: orbit c).map fun d => (d.toNat, d.toNat))) (.lit [c] true)
      else H.lit [c]).U := by
  cases ci with
  | false => exact U_lit _
  | true => exact U_mkClass (by simp [Re.unionFree])

theorem U_S_lit (orbit : Char → List Char) (σ : Sem) (s : Str) (ci : Bool) :
    ((Re.lit s ci).toH orbit σ).U := by
  simp only [Re.toH]
  apply U_mkCat
  intro x hx
  obtain ⟨c, _, rfl⟩ := List.mem_map.mp hx
  exact litChar_U orbit ci c

mutual
  theorem toH_U (orbit : Char → List Char) (σ : Sem) : ∀ (r : Re), r.unionFree = true → (r.toH orbit σ).U
    | .lit s ci, _ => U_S_lit orbit σ s ci
    | .chr p, _ => by simp only [Re.toH]; exact U_mkClass (by simp [Re.unionFree])
    | .never, _ => by simp only [Re.toH]; exact U_fail
    | .cat l, h => by
      simp only [Re.unionFree] at h
      simp only [Re.toH]
      exact U_mkCat (toHList_U orbit σ l h)
    | .cap r, h => by
      simp only [Re.unionFree] at h
      have := toH_U orbit σ r h
      simp only [H.U, Re.toH, H.toRe, Re.unionFree] at this ⊢
      exact this
    | .grp r, h => by
      simp only [Re.unionFree] at h
      simp only [Re.toH]
      exact toH_U orbit σ r h
    | .alt _, h => by simp [Re.unionFree] at h
    | .star _, h => by simp [Re.unionFree] at h
    | .lazyStar _, h => by simp [Re.unionFree] at h
    | .opt _, h => by simp [Re.unionFree] at h
    | .rep _ _ _, h => by simp [Re.unionFree] at h
  theorem toHList_U (orbit : Char → List Char) (σ : Sem) : ∀ (l : List Re), Re.unionFreeL l = true →
      ∀ x ∈ Re.toHList orbit σ l, x.U
    | [], _ => by simp [Re.toHList]
    | r :: rs, h => by
      simp only [Re.unionFreeL, Bool.and_eq_true] at h
      simp only [Re.toHList]
      intro x hx
      rcases List.mem_cons.mp hx with rfl | hx
      · exact toH_U orbit σ r h.1
      · exact toHList_U orbit σ rs h.2 x hx
end

mutual
  theorem unionFree_loopsSimple : ∀ (r : Re), r.unionFree = true → r.loopsSimple = true
    | .lit .., _ => by simp [Re.loopsSimple]
    | .chr _, _ => by simp [Re.loopsSimple]
    | .never, _ => by simp [Re.loopsSimple]
    | .cat l, h => by
      simp only [Re.unionFree] at h
      simp only [Re.loopsSimple]
      exact unionFreeL_loopsSimpleL l h
    | .cap r, h => by
      simp only [Re.unionFree] at h
      simp only [Re.loopsSimple]
      exact unionFree_loopsSimple r h
    | .grp r, h => by
      simp only [Re.unionFree] at h
      simp only [Re.loopsSimple]
      exact unionFree_loopsSimple r h
    | .alt _, h => by simp [Re.unionFree] at h
    | .star _, h => by simp [Re.unionFree] at h
    | .lazyStar _, h => by simp [Re.unionFree] at h
    | .opt _, h => by simp [Re.unionFree] at h
    | .rep _ _ _, h => by simp [Re.unionFree] at h
  theorem unionFreeL_loopsSimpleL : ∀ (l : List Re), Re.unionFreeL l = true → Re.loopsSimpleL l = true
    | [], _ => by simp [Re.loopsSimpleL]
    | r :: rs, h => by
      simp only [Re.unionFreeL, Bool.and_eq_true] at h
      simp only [Re.loopsSimpleL, Bool.and_eq_true]
      exact ⟨unionFree_loopsSimple r h.1, unionFreeL_loopsSimpleL rs h.2⟩
end

theorem H.U.toS {h : H} (hu : h.U) : h.S := unionFree_loopsSimple _ hu

mutual
  theorem toH_S (orbit : Char → List Char) (σ : Sem) : ∀ (r : Re), r.loopsSimple = true → (r.toH orbit σ).S
    | .lit s ci, _ => (U_S_lit orbit σ s ci).toS
    | .chr p, _ => by simp only [Re.toH]; exact S_mkClass (by simp [Re.loopsSimple])
    | .never, _ => by simp only [Re.toH]; exact S_fail
    | .cat l, h => by
      simp only [Re.loopsSimple] at h
      simp only [Re.toH]
      exact S_mkCat (toHList_S orbit σ l h)
    | .alt l, h => by
      simp only [Re.loopsSimple] at h
      simp only [Re.toH]
      exact mkAlt_S _ (toHList_S orbit σ l h)
    | .star r, h => by
      simp only [Re.loopsSimple] at h
      simp only [Re.toH]
      have := toH_U orbit σ r h
      exact S_mkRep this.toS (fun _ => this)
    | .lazyStar r, h => by
      simp only [Re.loopsSimple] at h
      simp only [Re.toH]
      have := toH_U orbit σ r h
      exact S_mkRep this.toS (fun _ => this)
    | .opt r, h => by
      simp only [Re.loopsSimple] at h
      simp only [Re.toH]
      exact S_mkRep (toH_S orbit σ r h) (by intro e; cases e)
    | .rep r lo (some hh), h => by
      simp only [Re.loopsSimple] at h
      simp only [Re.toH]
      exact S_mkRep (toH_S orbit σ r h) (by intro e; cases e)
    | .rep r lo none, h => by
      simp only [Re.loopsSimple] at h
      simp only [Re.toH]
      have := toH_U orbit σ r h
      exact S_mkRep this.toS (fun _ => this)
    | .cap r, h => by
      simp only [Re.loopsSimple] at h
      have := toH_S orbit σ r h
      simp only [H.S, Re.toH, H.toRe, Re.loopsSimple] at this ⊢
      exact this
    | .grp r, h => by
      simp only [Re.loopsSimple] at h
      simp only [Re.toH]
      exact toH_S orbit σ r h
  theorem toHList_S (orbit : Char → List Char) (σ : Sem) : ∀ (l : List Re), Re.loopsSimpleL l = true →
      ∀ x ∈ Re.toHList orbit σ l, x.S
    | [], _ => by simp [Re.toHList]
    | r :: rs, h => by
      simp only [Re.loopsSimpleL, Bool.and_eq_true] at h
      simp only [Re.toHList]
      intro x hx
      rcases List.mem_cons.mp hx with rfl | hx
      · exact toH_S orbit σ r h.1
      · exact toHList_S orbit σ rs h.2 x hx
end

/-- the normal form of a pattern with simple loops has simple loops -/
theorem hirNorm_loopsSimple {orbit : Char → List Char} {σ : Sem} {r : Re} (h : r.loopsSimple = true) :
    (r.hirNorm orbit σ).loopsSimple = true := toH_S orbit σ r h

end Wax
