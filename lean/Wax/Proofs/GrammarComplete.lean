import Wax.Proofs.GrammarSound
import Wax.Proofs.Fuel
/-!
Completeness of the parser model for the grammar of `Wax/Proofs/Grammar.lean`: whatever `GTok` /
`GToks` / `GBranches` spell, the mutually recursive parsers return, for every amount of fuel above
a bound that is linear in the length of the text (by recursion on the derivation).
-/
set_option linter.unusedSimpArgs false
set_option linter.unusedVariables false
namespace Wax

/-! ### what "the parser returns it" means, per syntactic category -/

def TokC (t : Term) (first : Bool) (p : Nat) (c : Bool) (s rest : Str) (tok : Tok) (c' : Bool) :
    Prop :=
  ∀ (sub fuel : Nat), sub ≤ p → first = (sub == p) → 4 * (s ++ rest).length + 2 ≤ fuel →
    ∃ sb, parseToken fuel t ⟨s ++ rest, p, c, sub⟩ = some (tok, ⟨rest, p + ulen s, c', sb⟩) ∧
      sb < p + ulen s

def BodyC (t : Term) (a : Bool) (sp : Span) (q : Nat) (c : Bool) (body rest : Str) (tok : Tok)
    (c' : Bool) : Prop :=
  ∀ (i : Input) (sub n : Nat), a = (sub == q) → sub ≤ q → sp = ⟨i.loc, q + ulen body - i.loc⟩ →
    4 * (body ++ rest).length + 1 ≤ n →
    ∃ sb, bodyParse n t i ⟨body ++ rest, q, c, sub⟩ =
        some (tok, ⟨rest, q + ulen body, c', sb⟩) ∧ sb < q + ulen body

def ToksC (t : Term) (first : Bool) (p : Nat) (c : Bool) (s rest : Str) (ts : List Tok)
    (c' : Bool) : Prop :=
  ∀ (sub fuel : Nat) (acc : List Tok), sub ≤ p → first = (sub == p) →
    4 * (s ++ rest).length + 3 ≤ fuel →
    ∃ sb, parseTokens fuel t ⟨s ++ rest, p, c, sub⟩ acc =
        some (acc ++ ts, ⟨rest, p + ulen s, c', sb⟩) ∧ sb ≤ p + ulen s

def GlobC (t : Term) (p : Nat) (c : Bool) (s rest : Str) (ts : List Tok) (c' : Bool) : Prop :=
  ∀ (sub fuel : Nat), 4 * (s ++ rest).length + 4 ≤ fuel →
    ∃ sb, parseGlob fuel t ⟨s ++ rest, p, c, sub⟩ =
        some (.cat ⟨p, ulen s⟩ ts, ⟨rest, p + ulen s, c', sb⟩) ∧ sb ≤ p + ulen s

def BrC (p : Nat) (c : Bool) (s rest : Str) (bs : List Tok) (c' : Bool) : Prop :=
  ∀ (sub fuel : Nat) (acc : List Tok), sub ≤ p → 4 * (s ++ rest).length + 1 ≤ fuel →
    ∃ sb, parseBranches fuel ⟨s ++ rest, p, c, sub⟩ acc =
        (acc ++ bs, ⟨rest, p + ulen s, c', sb⟩) ∧ sb ≤ p + ulen s

/-- no token starts here: end of text or a terminator character -/
def StopAt (rest : Str) : Prop := rest = [] ∨ ∃ ch r, rest = ch :: r ∧ isTermC ch = true

theorem stop_token_none {rest : Str} (h : StopAt rest) (fuel : Nat) (t : Term) (p : Nat)
    (c : Bool) (sub : Nat) : parseToken fuel t ⟨rest, p, c, sub⟩ = none := by
  rcases h with rfl | ⟨ch, r, rfl, hc⟩
  · exact parseToken_nil fuel t _ rfl
  · exact parseToken_term_none fuel t _ ch r rfl hc

theorem TermAt.stop {t : Term} {r : Str} (h : TermAt t r) : StopAt r := h.head

/-! ### token sequences, sub-expressions, branches -/

theorem toksC_nil {t : Term} {first : Bool} {p : Nat} {c : Bool} {rest : Str} (h : StopAt rest) :
    ToksC t first p c [] rest [] c := by
  intro sub fuel acc _ _ hf
  cases fuel with
  | zero => omega
  | succ n =>
    rw [parseTokens]
    rw [show ([] : Str) ++ rest = rest from rfl, stop_token_none h]
    exact ⟨sub, by simp [ulen], by simp [ulen]; omega⟩

theorem toksC_cons {t : Term} {first : Bool} {p : Nat} {c : Bool} {s1 s2 rest : Str} {tok : Tok}
    {c1 : Bool} {toks : List Tok} {c' : Bool} (h1 : TokC t first p c s1 (s2 ++ rest) tok c1)
    (hne : s1 ≠ []) (h2 : ToksC t false (p + ulen s1) c1 s2 rest toks c') :
    ToksC t first p c (s1 ++ s2) rest (tok :: toks) c' := by
  intro sub fuel acc hs hfst hf
  have hlen : 0 < s1.length := List.length_pos_iff.mpr hne
  have hpos := ulen_pos hne
  cases fuel with
  | zero => omega
  | succ n =>
    rw [parseTokens]
    have e : (s1 ++ s2) ++ rest = s1 ++ (s2 ++ rest) := by simp
    rw [e] at hf ⊢
    obtain ⟨sb1, k1, k2⟩ := h1 sub n hs hfst (by omega)
    rw [k1]
    dsimp only
    have hl : (p + ulen s1 == p) = false := by simp only [beq_eq_false_iff_ne, ne_eq]; omega
    rw [hl]
    simp only [Bool.false_eq_true, if_false]
    obtain ⟨sb, k3, k4⟩ := h2 sb1 n (acc ++ [tok]) (by omega)
      (by symm; simp only [beq_eq_false_iff_ne, ne_eq]; omega)
      (by simp only [List.length_append] at hf ⊢; omega)
    rw [k3]
    refine ⟨sb, ?_, by rw [ulen_append]; omega⟩
    simp only [List.append_assoc, List.singleton_append, ulen_append, Nat.add_assoc]

theorem globC {t : Term} {p : Nat} {c : Bool} {s rest : Str} {ts : List Tok} {c' : Bool}
    (h : ToksC t true p c s rest ts c') (hne : ts ≠ []) (ht : TermAt t rest) :
    GlobC t p c s rest ts c' := by
  intro sub fuel hf
  cases fuel with
  | zero => omega
  | succ n =>
    rw [parseGlob]
    dsimp only
    obtain ⟨sb, k1, k2⟩ := h p n [] (Nat.le_refl _) (by simp) (by omega)
    rw [k1]
    dsimp only
    have : ([] ++ ts).isEmpty = false := by cases ts <;> simp at hne ⊢
    rw [this, (term_iff t ⟨rest, p + ulen s, c', sb⟩).mpr ht]
    simp only [Bool.false_eq_true, if_false, if_true, List.nil_append, Nat.add_sub_cancel_left]
    exact ⟨sb, rfl, k2⟩

theorem tag_comma_none {r : Str} (p : Nat) (c : Bool) (sub : Nat) :
    (Input.mk ('}' :: r) p c sub).tag "," = none :=
  tag1_none "," ',' (by decide) (by intro b hb; simp at hb)

theorem brC_nil {p : Nat} {c : Bool} {rest : Str} (h : ∃ r, rest = '}' :: r) :
    BrC p c [] rest [] c := by
  obtain ⟨r, rfl⟩ := h
  intro sub fuel acc _ hf
  cases fuel with
  | zero => omega
  | succ n =>
    rw [parseBranches, show ([] : Str) ++ '}' :: r = '}' :: r from rfl, tag_comma_none]
    exact ⟨sub, by simp [ulen], by simp [ulen]; omega⟩

theorem brC_cons {p : Nat} {c : Bool} {s s2 rest : Str} {toks : List Tok} {c1 : Bool}
    {bs : List Tok} {c' : Bool} (hg : GlobC .altT (p + 1) c s (s2 ++ rest) toks c1)
    (h2 : BrC (p + 1 + ulen s) c1 s2 rest bs c') :
    BrC p c (',' :: s ++ s2) rest (.cat ⟨p + 1, ulen s⟩ toks :: bs) c' := by
  have u1 : (',' : Char).utf8Size = 1 := by decide
  intro sub fuel acc hs hf
  cases fuel with
  | zero => omega
  | succ n =>
    rw [parseBranches]
    have e : (',' :: s ++ s2) ++ rest = ',' :: (s ++ (s2 ++ rest)) := by simp
    rw [e] at hf ⊢
    rw [tag_comma_eq]
    dsimp only
    obtain ⟨sb1, k1, k2⟩ := hg sub n (by simp only [List.length_cons] at hf; omega)
    rw [k1]
    dsimp only
    obtain ⟨sb, k3, k4⟩ := h2 sb1 n (acc ++ [.cat ⟨p + 1, ulen s⟩ toks]) k2
      (by simp only [List.length_cons, List.length_append] at hf ⊢; omega)
    rw [k3]
    refine ⟨sb, ?_, by simp only [ulen_cons', ulen_append, u1]; omega⟩
    simp only [List.append_assoc, List.singleton_append, ulen_append, ulen_cons', u1, Prod.mk.injEq,
      Input.mk.injEq, true_and, and_true]
    omega

/-! ### token bodies -/

/-- with a stop character other than `\`, `<`, `{` at the head only the tail of `parseToken`'s
alternatives remains -/
theorem bodyParse_tail {n : Nat} {t : Term} {i f : Input} {ch : Char} {cs : Str}
    (hr : f.rest = ch :: cs) (h1 : ch ≠ '\\') (hs : literalStop.contains ch = true) (h2 : ch ≠ '<')
    (h3 : ch ≠ '{') : bodyParse n t i f = tokTail t i f none none := by
  unfold bodyParse
  rw [parseLiteral_stop hr h1 hs, rep_none_head n hr h2, alt_none_head n hr h3]

theorem bodyC_lit {t : Term} {a : Bool} {sp : Span} {q : Nat} {c : Bool} {body rest text : Str}
    (h : LitText body text) (hb : body ≠ []) (he : LitEnd rest) :
    BodyC t a sp q c body rest (.lit sp text c) c := by
  intro i sub n _ hs hsp _
  unfold bodyParse
  rw [parseLiteral_complete h hb he]
  dsimp only
  have := ulen_pos hb
  exact ⟨sub, by rw [hsp], by omega⟩

theorem tag_lt_eq (b : Str) (p : Nat) (c : Bool) (sub : Nat) :
    (Input.mk ('<' :: b) p c sub).tag "<" = some ⟨b, p + 1, c, sub⟩ :=
  tag1_eq "<" '<' (by decide) (by decide) b p c sub

theorem tag_gt_eq (b : Str) (p : Nat) (c : Bool) (sub : Nat) :
    (Input.mk ('>' :: b) p c sub).tag ">" = some ⟨b, p + 1, c, sub⟩ :=
  tag1_eq ">" '>' (by decide) (by decide) b p c sub

theorem tag_lbrace_eq (b : Str) (p : Nat) (c : Bool) (sub : Nat) :
    (Input.mk ('{' :: b) p c sub).tag "{" = some ⟨b, p + 1, c, sub⟩ :=
  tag1_eq "{" '{' (by decide) (by decide) b p c sub

theorem tag_rbrace_eq (b : Str) (p : Nat) (c : Bool) (sub : Nat) :
    (Input.mk ('}' :: b) p c sub).tag "}" = some ⟨b, p + 1, c, sub⟩ :=
  tag1_eq "}" '}' (by decide) (by decide) b p c sub

theorem bodyC_rep {t : Term} {a : Bool} {sp : Span} {q : Nat} {c : Bool} {bs bd rest : Str}
    {toks : List Tok} {lo : Nat} {hi : Option Nat} {c' : Bool}
    (hg : GlobC .repT (q + 1) c bs (bd ++ '>' :: rest) toks c') (hb : Bounds bd lo hi) :
    BodyC t a sp q c ('<' :: bs ++ bd ++ ['>']) rest
      (.rep sp (.cat ⟨q + 1, ulen bs⟩ toks) lo hi) c' := by
  have u1 : ('<' : Char).utf8Size = 1 := by decide
  have u2 : ('>' : Char).utf8Size = 1 := by decide
  intro i sub n _ hs hsp hn
  have e : ('<' :: bs ++ bd ++ ['>']) ++ rest = '<' :: (bs ++ (bd ++ '>' :: rest)) := by simp
  rw [e] at hn ⊢
  unfold bodyParse
  rw [parseLiteral_stop (i := ⟨'<' :: (bs ++ (bd ++ '>' :: rest)), q, c, sub⟩) rfl (by decide)
    (by decide)]
  dsimp only
  unfold tokTail
  cases n with
  | zero => omega
  | succ m =>
    rw [parseRepetition, tag_lt_eq]
    dsimp only
    obtain ⟨sb, k1, k2⟩ := hg sub m (by simp only [List.length_cons] at hn; omega)
    rw [k1]
    dsimp only
    rw [parseBounds_complete hb]
    dsimp only
    rw [tag_gt_eq]
    dsimp only
    have hpos : q + 1 + ulen bs + ulen bd + 1 = q + ulen ('<' :: bs ++ bd ++ ['>']) := by
      simp only [ulen_cons', ulen_append, ulen_nil, u1, u2]; omega
    rw [hpos, hsp]
    exact ⟨sb, rfl, by omega⟩

theorem bodyC_alt {t : Term} {a : Bool} {sp : Span} {q : Nat} {c : Bool} {s1 s2 rest : Str}
    {toks : List Tok} {c1 : Bool} {bs : List Tok} {c' : Bool}
    (hg : GlobC .altT (q + 1) c s1 (s2 ++ '}' :: rest) toks c1)
    (hbr : BrC (q + 1 + ulen s1) c1 s2 ('}' :: rest) bs c') :
    BodyC t a sp q c ('{' :: s1 ++ s2 ++ ['}']) rest
      (.alt sp (.cat ⟨q + 1, ulen s1⟩ toks :: bs)) c' := by
  have u1 : ('{' : Char).utf8Size = 1 := by decide
  have u2 : ('}' : Char).utf8Size = 1 := by decide
  intro i sub n _ hs hsp hn
  have e : ('{' :: s1 ++ s2 ++ ['}']) ++ rest = '{' :: (s1 ++ (s2 ++ '}' :: rest)) := by simp
  rw [e] at hn ⊢
  unfold bodyParse
  rw [parseLiteral_stop (i := ⟨'{' :: (s1 ++ (s2 ++ '}' :: rest)), q, c, sub⟩) rfl (by decide)
    (by decide)]
  dsimp only
  rw [rep_none_head n (i := ⟨'{' :: (s1 ++ (s2 ++ '}' :: rest)), q, c, sub⟩) rfl (by decide)]
  unfold tokTail
  dsimp only
  cases n with
  | zero => omega
  | succ m =>
    rw [parseAlternation, tag_lbrace_eq]
    dsimp only
    obtain ⟨sb1, k1, k2⟩ := hg sub m (by simp only [List.length_cons] at hn; omega)
    rw [k1]
    dsimp only
    obtain ⟨sb, k3, k4⟩ := hbr sb1 m [.cat ⟨q + 1, ulen s1⟩ toks] k2
      (by simp only [List.length_cons, List.length_append] at hn ⊢; omega)
    rw [k3]
    dsimp only
    rw [tag_rbrace_eq]
    dsimp only
    have hpos : q + 1 + ulen s1 + ulen s2 + 1 = q + ulen ('{' :: s1 ++ s2 ++ ['}']) := by
      simp only [ulen_cons', ulen_append, ulen_nil, u1, u2]; omega
    rw [hpos, hsp]
    exact ⟨sb, rfl, by omega⟩

theorem tag_q_eq (b : Str) (p : Nat) (c : Bool) (sub : Nat) :
    (Input.mk ('?' :: b) p c sub).tag "?" = some ⟨b, p + 1, c, sub⟩ :=
  tag1_eq "?" '?' (by decide) (by decide) b p c sub

theorem tag_q_none {ch : Char} {r : Str} (h : ch ≠ '?') (p : Nat) (c : Bool) (sub : Nat) :
    (Input.mk (ch :: r) p c sub).tag "?" = none :=
  tag1_none "?" '?' (by decide) (by intro b hb; dsimp only at hb; injection hb with hb _; exact h hb)

theorem bodyC_one {t : Term} {a : Bool} {sp : Span} {q : Nat} {c : Bool} {rest : Str} :
    BodyC t a sp q c ['?'] rest (.one sp) c := by
  have u1 : ('?' : Char).utf8Size = 1 := by decide
  intro i sub n _ hs hsp hn
  rw [bodyParse_tail (f := ⟨['?'] ++ rest, q, c, sub⟩) (ch := '?') (cs := rest) rfl (by decide)
    (by decide) (by decide) (by decide)]
  unfold tokTail
  dsimp only
  rw [parseWildcard_eq, show ['?'] ++ rest = '?' :: rest from rfl, tag_q_eq]
  dsimp only
  have hpos : q + 1 = q + ulen ['?'] := by simp [ulen, u1]
  rw [hpos, hsp]
  exact ⟨sub, rfl, by rw [← hpos]; omega⟩

theorem TreeSpell.head {t : Term} {a c : Bool} {body rest : Str} {root c' : Bool}
    (h : TreeSpell t a c body rest root c') :
    ∃ ch tl, body = ch :: tl ∧ (ch = '/' ∨ ch = '*') := by
  match h with
  | .mk _ pre _ c1 post _ _ hpre _ =>
    match hpre with
    | .rooted _ fl _ _ => exact ⟨'/', _, rfl, .inl rfl⟩
    | .start _ _ => exact ⟨'*', _, rfl, .inr rfl⟩

theorem bodyC_tree {t : Term} {a : Bool} {sp : Span} {q : Nat} {c : Bool} {body rest : Str}
    {root c' : Bool} (h : TreeSpell t a c body rest root c') :
    BodyC t a sp q c body rest (.tree sp root) c' := by
  intro i sub n ha hs hsp hn
  obtain ⟨ch, tl, e, hch⟩ := h.head
  have hw := wildTree_complete h q sub ha
  have hb := ulen_pos h.body_ne
  rw [bodyParse_tail (f := ⟨body ++ rest, q, c, sub⟩) (ch := ch) (cs := tl ++ rest)
    (by rw [e]; rfl)
    (by rcases hch with rfl | rfl <;> decide) (by rcases hch with rfl | rfl <;> decide)
    (by rcases hch with rfl | rfl <;> decide) (by rcases hch with rfl | rfl <;> decide)]
  unfold tokTail
  dsimp only
  have hq : (Input.mk (body ++ rest) q c sub).tag "?" = none := by
    rw [e]; exact tag_q_none (by rcases hch with rfl | rfl <;> decide) _ _ _
  rw [parseWildcard_eq, hq]
  dsimp only
  rw [hw]
  dsimp only
  rw [hsp]
  exact ⟨sub, rfl, by omega⟩

theorem bodyC_zom {t : Term} {a : Bool} {sp : Span} {q : Nat} {c : Bool} {rest : Str}
    (h : ZomOk t rest) : BodyC t a sp q c ['*'] rest (.zom sp false) c := by
  have u1 : ('*' : Char).utf8Size = 1 := by decide
  intro i sub n _ hs hsp hn
  rw [bodyParse_tail (f := ⟨['*'] ++ rest, q, c, sub⟩) (ch := '*') (cs := rest) rfl (by decide)
    (by decide) (by decide) (by decide)]
  unfold tokTail
  dsimp only
  rw [parseWildcard_eq, show ['*'] ++ rest = '*' :: rest from rfl, tag_q_none (by decide),
    wildTree_none_zom h]
  dsimp only
  rw [wildZom_complete h "*" '*' (by decide) (by decide)]
  dsimp only
  have hpos : q + 1 = q + ulen ['*'] := by simp [ulen, u1]
  rw [hpos, hsp]
  exact ⟨sub, rfl, by rw [← hpos]; omega⟩

theorem bodyC_zomLazy {t : Term} {a : Bool} {sp : Span} {q : Nat} {c : Bool} {rest : Str}
    (h : ZomOk t rest) : BodyC t a sp q c ['$'] rest (.zom sp true) c := by
  have u1 : ('$' : Char).utf8Size = 1 := by decide
  intro i sub n _ hs hsp hn
  rw [bodyParse_tail (f := ⟨['$'] ++ rest, q, c, sub⟩) (ch := '$') (cs := rest) rfl (by decide)
    (by decide) (by decide) (by decide)]
  unfold tokTail
  dsimp only
  rw [parseWildcard_eq, show ['$'] ++ rest = '$' :: rest from rfl, tag_q_none (by decide),
    wildTree_none_head (by decide) (by decide) (by decide)]
  dsimp only
  have hz : wildZom t ⟨'$' :: rest, q, c, sub⟩ "*" false = none := by
    unfold wildZom
    rw [tag1_none "*" '*' (by decide) (i := ⟨'$' :: rest, q, c, sub⟩) (by intro b hb; simp at hb)]
  rw [hz]
  dsimp only
  rw [wildZom_complete h "$" '$' (by decide) (by decide)]
  dsimp only
  have hpos : q + 1 = q + ulen ['$'] := by simp [ulen, u1]
  rw [hpos, hsp]
  exact ⟨sub, rfl, by rw [← hpos]; omega⟩

theorem ClassSpell.head {body : Str} {neg : Bool} {items : List Arch}
    (h : ClassSpell body neg items) : ∃ tl, body = '[' :: tl := by
  cases h with
  | pos s items _ _ _ => exact ⟨_, rfl⟩
  | neg s items _ _ => exact ⟨_, rfl⟩

theorem bodyC_cls {t : Term} {a : Bool} {sp : Span} {q : Nat} {c : Bool} {body rest : Str}
    {neg : Bool} {items : List Arch} (h : ClassSpell body neg items) :
    BodyC t a sp q c body rest (.cls sp neg items) c := by
  intro i sub n _ hs hsp hn
  obtain ⟨tl, e⟩ := h.head
  have hb : body ≠ [] := by rw [e]; simp
  have hp := ulen_pos hb
  rw [bodyParse_tail (f := ⟨body ++ rest, q, c, sub⟩) (ch := '[') (cs := tl ++ rest)
    (by rw [e]; rfl) (by decide) (by decide) (by decide) (by decide)]
  unfold tokTail
  dsimp only
  rw [wildcard_none_head t (i := ⟨body ++ rest, q, c, sub⟩) (c := '[') (cs := tl ++ rest)
    (by rw [e]; rfl) (by decide) (by decide) (by decide) (by decide) (by decide)]
  dsimp only
  rw [parseClass_complete h]
  dsimp only
  rw [hsp]
  exact ⟨sub, rfl, by omega⟩

theorem bodyC_sep {t : Term} {a : Bool} {sp : Span} {q : Nat} {c : Bool} {rest : Str}
    (h : ¬ ∃ (body' rest' : Str) (c' : Bool),
      '/' :: rest = body' ++ rest' ∧ TreeSpell t a c body' rest' true c') :
    BodyC t a sp q c ['/'] rest (.sep sp) c := by
  have u1 : ('/' : Char).utf8Size = 1 := by decide
  intro i sub n ha hs hsp hn
  rw [bodyParse_tail (f := ⟨['/'] ++ rest, q, c, sub⟩) (ch := '/') (cs := rest) rfl (by decide)
    (by decide) (by decide) (by decide)]
  unfold tokTail
  dsimp only
  have hT : wildTree t ⟨'/' :: rest, q, c, sub⟩ = none := by
    cases hh : wildTree t ⟨'/' :: rest, q, c, sub⟩ with
    | none => rfl
    | some r =>
      obtain ⟨kd, j⟩ := r
      obtain ⟨body, root, e0, e1, e2, e3, e4⟩ := wildTree_sound hh (not_flagHead_cons (by decide))
      dsimp only at e1 e2
      exfalso
      apply h
      rw [← ha] at e2
      have hroot : root = true := by
        match e2 with
        | .mk _ pre _ c1 post _ _ hpre _ =>
          match hpre with
          | .rooted _ fl _ _ => rfl
          | .start _ _ => simp at e1
      subst hroot
      exact ⟨body, j.rest, j.ci, e1, e2⟩
  have hz1 : wildZom t ⟨'/' :: rest, q, c, sub⟩ "*" false = none := by
    unfold wildZom
    rw [tag1_none "*" '*' (by decide) (i := ⟨'/' :: rest, q, c, sub⟩) (by intro b hb; simp at hb)]
  have hz2 : wildZom t ⟨'/' :: rest, q, c, sub⟩ "$" true = none := by
    unfold wildZom
    rw [tag1_none "$" '$' (by decide) (i := ⟨'/' :: rest, q, c, sub⟩) (by intro b hb; simp at hb)]
  rw [parseWildcard_eq, show ['/'] ++ rest = '/' :: rest from rfl, tag_q_none (by decide), hT]
  dsimp only
  rw [hz1, hz2]
  dsimp only
  rw [class_none_head (i := ⟨'/' :: rest, q, c, sub⟩) (c := '/') (cs := rest) rfl (by decide)]
  dsimp only
  rw [tag_slash_eq]
  dsimp only
  have hpos : q + 1 = q + ulen ['/'] := by simp [ulen, u1]
  rw [hpos, hsp]
  exact ⟨sub, rfl, by rw [← hpos]; omega⟩

/-! ### tokens -/

theorem tokC_mk {t : Term} {first : Bool} {p : Nat} {c : Bool} {fl : Str} {c1 : Bool}
    {body rest : Str} {tok : Tok} {c' : Bool} (hfl : Flags c fl c1)
    (hb : BodyC t (first && fl.isEmpty) ⟨p, ulen (fl ++ body)⟩ (p + ulen fl) c1 body rest tok c')
    (hh : ¬ FlagHead (body ++ rest)) : TokC t first p c (fl ++ body) rest tok c' := by
  intro sub fuel hs hfst hf
  cases fuel with
  | zero => omega
  | succ n =>
    rw [parseToken_body]
    have e : (fl ++ body) ++ rest = fl ++ (body ++ rest) := by simp
    rw [e] at hf ⊢
    rw [flagsS_complete hfl _ hh]
    obtain ⟨sb, k1, k2⟩ := hb ⟨fl ++ (body ++ rest), p, c, sub⟩ sub n
      (by rw [hfst, first_after_flags fl hs]) (by omega)
      (by dsimp only; rw [ulen_append]
          have : p + ulen fl + ulen body - p = ulen fl + ulen body := by omega
          rw [this])
      (by simp only [List.length_append] at hf ⊢; omega)
    rw [k1]
    refine ⟨sb, ?_, by rw [ulen_append]; omega⟩
    simp only [ulen_append, Nat.add_assoc]

/-! ### the recursion on derivations -/

theorem GBody.head_ne {t : Term} {a : Bool} {sp : Span} {q : Nat} {c : Bool} {body rest : Str}
    {tok : Tok} {c' : Bool} (h : GBody t a sp q c body rest tok c') :
    ∃ ch tl, body = ch :: tl ∧ ch ≠ '(' := by
  match h with
  | .lit _ _ _ _ _ _ _ _ h1 h2 _ => exact lit_head_ne h1 h2
  | .rep .. => exact ⟨'<', _, rfl, by decide⟩
  | .alt .. => exact ⟨'{', _, rfl, by decide⟩
  | .one .. => exact ⟨'?', _, rfl, by decide⟩
  | .tree _ _ _ _ _ _ _ _ _ h1 =>
    obtain ⟨ch, tl, e, hch⟩ := h1.head
    exact ⟨ch, tl, e, by rcases hch with rfl | rfl <;> decide⟩
  | .zom .. => exact ⟨'*', _, rfl, by decide⟩
  | .zomLazy .. => exact ⟨'$', _, rfl, by decide⟩
  | .cls _ _ _ _ _ _ _ _ _ h1 =>
    obtain ⟨tl, e⟩ := h1.head
    exact ⟨'[', tl, e, by decide⟩
  | .sep .. => exact ⟨'/', _, rfl, by decide⟩

theorem GBody.not_flagHead {t : Term} {a : Bool} {sp : Span} {q : Nat} {c : Bool}
    {body rest : Str} {tok : Tok} {c' : Bool} (h : GBody t a sp q c body rest tok c') :
    ¬ FlagHead (body ++ rest) := by
  obtain ⟨ch, tl, e, hc⟩ := h.head_ne
  rw [e]; exact not_flagHead_cons hc

theorem GTok.ne_nil {t : Term} {first : Bool} {p : Nat} {c : Bool} {s rest : Str} {tok : Tok}
    {c' : Bool} (h : GTok t first p c s rest tok c') : s ≠ [] := by
  match h with
  | .mk _ _ _ _ fl _ body _ _ _ _ hb =>
    obtain ⟨ch, tl, e, _⟩ := hb.head_ne
    rw [e]; simp

theorem Bounds.term {bd : Str} {lo : Nat} {hi : Option Nat} (h : Bounds bd lo hi) (rest : Str) :
    TermAt .repT (bd ++ '>' :: rest) := by
  cases h with
  | none => exact ⟨rest, .inr rfl⟩
  | open_ => exact ⟨_, .inl rfl⟩
  | exact ds n _ => exact ⟨_, .inl rfl⟩
  | atLeast ds n _ => exact ⟨_, .inl rfl⟩
  | range ds es n m _ _ => exact ⟨_, .inl rfl⟩

theorem GBranches.term {p : Nat} {c : Bool} {s rest : Str} {bs : List Tok} {c' : Bool}
    (h : GBranches p c s rest bs c') (hr : ∃ r, rest = '}' :: r) : TermAt .altT (s ++ rest) := by
  match h with
  | .nil .. => obtain ⟨r, rfl⟩ := hr; exact ⟨r, .inr rfl⟩
  | .cons .. => exact ⟨_, .inl rfl⟩

mutual
theorem cTok : ∀ {t : Term} {first : Bool} {p : Nat} {c : Bool} {s rest : Str} {tok : Tok}
    {c' : Bool}, GTok t first p c s rest tok c' → TokC t first p c s rest tok c'
  | _, _, _, _, _, _, _, _, .mk _ _ _ _ _ _ _ _ _ _ hfl hb => tokC_mk hfl (cBody hb) hb.not_flagHead

theorem cBody : ∀ {t : Term} {a : Bool} {sp : Span} {q : Nat} {c : Bool} {body rest : Str}
    {tok : Tok} {c' : Bool}, GBody t a sp q c body rest tok c' → BodyC t a sp q c body rest tok c'
  | _, _, _, _, _, _, _, _, _, .lit _ _ _ _ _ _ _ _ h1 h2 h3 => bodyC_lit h1 h2 h3
  | _, _, _, _, _, _, _, _, _, .rep _ _ _ _ _ _ _ rest _ _ _ _ hT hne hB =>
    bodyC_rep (globC (cToks hT (hB.term rest).stop) hne (hB.term rest)) hB
  | _, _, _, _, _, _, _, _, _, .alt _ _ _ _ _ _ _ rest _ _ _ _ hT hne hBr =>
    bodyC_alt (globC (cToks hT (hBr.term ⟨rest, rfl⟩).stop) hne (hBr.term ⟨rest, rfl⟩))
      (cBr hBr ⟨rest, rfl⟩)
  | _, _, _, _, _, _, _, _, _, .one .. => bodyC_one
  | _, _, _, _, _, _, _, _, _, .tree _ _ _ _ _ _ _ _ _ h1 => bodyC_tree h1
  | _, _, _, _, _, _, _, _, _, .zom _ _ _ _ _ _ h1 => bodyC_zom h1
  | _, _, _, _, _, _, _, _, _, .zomLazy _ _ _ _ _ _ h1 => bodyC_zomLazy h1
  | _, _, _, _, _, _, _, _, _, .cls _ _ _ _ _ _ _ _ _ h1 => bodyC_cls h1
  | _, _, _, _, _, _, _, _, _, .sep _ _ _ _ _ _ h1 => bodyC_sep h1

theorem cToks : ∀ {t : Term} {first : Bool} {p : Nat} {c : Bool} {s rest : Str} {ts : List Tok}
    {c' : Bool}, GToks t first p c s rest ts c' → StopAt rest → ToksC t first p c s rest ts c'
  | _, _, _, _, _, _, _, _, .nil .., hs => toksC_nil hs
  | _, _, _, _, _, _, _, _, .cons _ _ _ _ _ _ _ _ _ _ _ h1 h2, hs =>
    toksC_cons (cTok h1) h1.ne_nil (cToks h2 hs)

theorem cBr : ∀ {p : Nat} {c : Bool} {s rest : Str} {bs : List Tok} {c' : Bool},
    GBranches p c s rest bs c' → (∃ r, rest = '}' :: r) → BrC p c s rest bs c'
  | _, _, _, _, _, _, .nil .., hr => brC_nil hr
  | _, _, _, _, _, _, .cons _ _ _ _ _ _ _ _ _ hT hne hBr, hr =>
    brC_cons (globC (cToks hT (hBr.term hr).stop) hne (hBr.term hr)) (cBr hBr hr)
end

end Wax
