import Wax.Proofs.FoldMachine
/-!
The `Starting` / `Ending` sequencers (token/walk.rs:433-467): the fold loop that enqueues only a
*selection* of each branch's children computes the structural fold of the tree pruned by that
selection — for every selection that is natural in the children (it picks positions, not values),
as "the first child of a conjunctive branch", "the last child", "all children" are.
-/
namespace Wax.FoldMachine

variable {L B Term : Type}

/-- the loop with a sequencer -/
def runSel (f : Fold L B Term) (sel : {α : Type} → B → List α → List α) :
    Nat → List (T L B × Nat) → List (Frame B Term) → Option Term
  | 0, _, _ => none
  | _ + 1, [], bs =>
    match foldN f bs.length bs with
    | fr :: _ => frameFold f fr
    | [] => none
  | n + 1, (t, d) :: toks, bs =>
    let bs1 := pop f d bs
    match t with
    | .branch b cs =>
      runSel f sel n (((sel b cs).reverse.map fun c => (c, d + 1)) ++ toks)
        ((b, (f.init b).toList) :: bs1)
    | .leaf l =>
      match bs1 with
      | [] => some (f.term l)
      | (b, ts) :: r => runSel f sel n toks ((b, f.term l :: ts) :: r)

mutual
  /-- the tree with every branch's children replaced by the selected ones, recursively -/
  def prune (sel : {α : Type} → B → List α → List α) : T L B → T L B
    | .leaf l => .leaf l
    | .branch b cs => .branch b (sel b (pruneList sel cs))
  def pruneList (sel : {α : Type} → B → List α → List α) : List (T L B) → List (T L B)
    | [] => []
    | c :: cs => prune sel c :: pruneList sel cs
end

theorem pruneList_eq_map (sel : {α : Type} → B → List α → List α) :
    ∀ (cs : List (T L B)), pruneList sel cs = cs.map (prune sel)
  | [] => rfl
  | c :: cs => by simp [pruneList, pruneList_eq_map sel cs]

/-- the selection picks positions: it commutes with mapping over the children -/
def Natural (sel : {α : Type} → B → List α → List α) : Prop :=
  ∀ {α β : Type} (g : α → β) (b : B) (l : List α), sel b (l.map g) = (sel b l).map g

theorem runSel_eq_run_prune (f : Fold L B Term) (sel : {α : Type} → B → List α → List α)
    (hnat : Natural (B := B) sel) :
    ∀ (n : Nat) (toks : List (T L B × Nat)) (bs : List (Frame B Term)),
      runSel f sel n toks bs = run f n (toks.map fun p => (prune sel p.1, p.2)) bs
  | 0, _, _ => rfl
  | n + 1, [], bs => rfl
  | n + 1, (.leaf l, d) :: toks, bs => by
    simp only [runSel, List.map_cons, prune, run]
    cases hp : pop f d bs with
    | nil => rfl
    | cons fr r =>
      obtain ⟨b, ts⟩ := fr
      exact runSel_eq_run_prune f sel hnat n toks _
  | n + 1, (.branch b cs, d) :: toks, bs => by
    simp only [runSel, List.map_cons, prune, run]
    rw [runSel_eq_run_prune f sel hnat n]
    congr 1
    have hn : sel b (cs.map (prune sel)) = (sel b cs).map (prune sel) := hnat (prune sel) b cs
    rw [pruneList_eq_map, hn]
    simp [List.map_append, List.map_reverse, List.map_map, Function.comp_def]

/-- **the loop with a sequencer computes the structural fold of the pruned tree** -/
theorem runSel_eq_sfold (f : Fold L B Term) (sel : {α : Type} → B → List α → List α)
    (hnat : Natural (B := B) sel) (t : T L B) :
    runSel f sel (nodes (prune sel t) + 1) [(t, 0)] [] = sfold f (prune sel t) := by
  rw [runSel_eq_run_prune f sel hnat]
  exact run_eq_sfold f (prune sel t)

/-- `Starting`: the first child of a conjunctive branch, every child of a disjunctive one -/
def starting (disj : B → Bool) : {α : Type} → B → List α → List α :=
  fun b l => if disj b then l else l.take 1

/-- `Ending`: the last child of a conjunctive branch (`skip(len - 1)`), every child of a
disjunctive one (`skip(0)`) -/
def ending (disj : B → Bool) : {α : Type} → B → List α → List α :=
  fun b l => if disj b then l else l.drop (l.length - 1)

theorem starting_natural (disj : B → Bool) : Natural (B := B) (starting disj) := by
  intro α β g b l
  by_cases h : disj b = true <;> simp [starting, h, List.map_take]

theorem ending_natural (disj : B → Bool) : Natural (B := B) (ending disj) := by
  intro α β g b l
  by_cases h : disj b = true <;> simp [ending, h, List.map_drop]

end Wax.FoldMachine
