import Wax.Rule
import Wax.Proofs.ParseShape
/-!
The checker with error identity (`check`, a level-by-level search that reproduces the queue order of
rule.rs) accepts exactly when the structural verdict `checkS` accepts and the size rule passes.
-/
set_option linter.unusedSimpArgs false
set_option linter.unusedVariables false
namespace Wax

/-! ### searching the levels -/

theorem searchLevels_none {α} (f : Nat → Option α) :
    ∀ n d, searchLevels f n d = none → ∀ k, k < n → f (d + k) = none
  | 0, _, _, k, hk => absurd hk (Nat.not_lt_zero k)
  | n + 1, d, h, k, hk => by
    simp only [searchLevels] at h
    split at h
    · cases h
    · rename_i hfd
      cases k with
      | zero => simpa using hfd
      | succ k =>
        have := searchLevels_none f n (d + 1) h k (by omega)
        have e : d + 1 + k = d + (k + 1) := by omega
        rw [e] at this; exact this

theorem searchLevels_all_none {α} (f : Nat → Option α) (h : ∀ d, f d = none) :
    ∀ n d, searchLevels f n d = none
  | 0, _ => rfl
  | n + 1, d => by simp only [searchLevels, h d]; exact searchLevels_all_none f h n (d + 1)

theorem orElse_eq_none {α} {a b : Option α} : orElse a b = none ↔ a = none ∧ b = none := by
  cases a <;> simp [orElse]

theorem findAtL_cons_none {α} {f : Tok → Option α} {d : Nat} {t : Tok} {ts : List Tok} :
    findAtL f d (t :: ts) = none ↔ findAt f d t = none ∧ findAtL f d ts = none := by
  simp only [findAtL]
  cases findAt f d t <;> simp

/-! ### nothing lives below the height of a tree -/

mutual
  theorem findAt_beyond {α} (f : Tok → Option α) : ∀ (t : Tok) (d : Nat), t.height < d →
      findAt f d t = none
    | .alt _ bs, d, h => by
      cases d with
      | zero => omega
      | succ d => simp only [Tok.height] at h; simp only [findAt]; exact findAtL_beyond f bs d (by omega)
    | .cat _ ts, d, h => by
      cases d with
      | zero => omega
      | succ d => simp only [Tok.height] at h; simp only [findAt]; exact findAtL_beyond f ts d (by omega)
    | .rep _ b _ _, d, h => by
      cases d with
      | zero => omega
      | succ d => simp only [Tok.height] at h; simp only [findAt]; exact findAt_beyond f b d (by omega)
    | .lit .., d, h => by cases d with | zero => omega | succ d => simp [findAt]
    | .sep _, d, h => by cases d with | zero => omega | succ d => simp [findAt]
    | .cls .., d, h => by cases d with | zero => omega | succ d => simp [findAt]
    | .one _, d, h => by cases d with | zero => omega | succ d => simp [findAt]
    | .zom .., d, h => by cases d with | zero => omega | succ d => simp [findAt]
    | .tree .., d, h => by cases d with | zero => omega | succ d => simp [findAt]
  theorem findAtL_beyond {α} (f : Tok → Option α) : ∀ (ts : List Tok) (d : Nat), heightL ts < d →
      findAtL f d ts = none
    | [], _, _ => by simp [findAtL]
    | t :: ts, d, h => by
      simp only [heightL] at h
      rw [findAtL_cons_none]
      exact ⟨findAt_beyond f t d (by omega), findAtL_beyond f ts d (by omega)⟩
end

theorem bfsFind_none_iff {α} (f : Tok → Option α) (t : Tok) :
    bfsFind f t = none ↔ ∀ d, findAt f d t = none := by
  constructor
  · intro h d
    by_cases hd : d < t.height + 1
    · simpa using searchLevels_none _ _ _ h d hd
    · exact findAt_beyond f t d (by omega)
  · intro h
    exact searchLevels_all_none _ h _ _

/-! ### the branch rule below the height -/

theorem branchSeq_skip (d : Nat) (inh : Outer) (prev : Option Tok) (t : Tok) (rest : List Tok)
    (ha : ∀ sp bs, t ≠ .alt sp bs) (hr : ∀ sp b lo hi, t ≠ .rep sp b lo hi) :
    branchSeq d inh prev (t :: rest) = branchSeq d inh (some t) rest := by
  cases t with
  | alt sp bs => exact absurd rfl (ha sp bs)
  | rep sp b lo hi => exact absurd rfl (hr sp b lo hi)
  | _ => cases d <;> simp [branchSeq]

theorem okSeq_skip (inh : Outer) (prev : Option Tok) (t : Tok) (rest : List Tok)
    (ha : ∀ sp bs, t ≠ .alt sp bs) (hr : ∀ sp b lo hi, t ≠ .rep sp b lo hi) :
    okSeq inh prev (t :: rest) = okSeq inh (some t) rest := by
  cases t with
  | alt sp bs => exact absurd rfl (ha sp bs)
  | rep sp b lo hi => exact absurd rfl (hr sp b lo hi)
  | _ => simp [okSeq]

mutual
  theorem branchAt_beyond : ∀ (t : Tok) (d : Nat) (o : Outer), t.height < d → branchAt d o t = none
    | .cat _ ts, d, o, h => by
      simp only [Tok.height] at h
      simp only [branchAt]
      exact branchSeq_beyond ts d o none (by omega)
    | .alt _ bs, d, o, h => by
      cases d with
      | zero => omega
      | succ d =>
        simp only [Tok.height] at h; simp only [branchAt]; exact branchAll_beyond bs d o (by omega)
    | .rep _ b _ _, d, o, h => by
      cases d with
      | zero => omega
      | succ d =>
        simp only [Tok.height] at h; simp only [branchAt]; exact branchAt_beyond b d o (by omega)
    | .lit .., d, o, _ => by cases d <;> simp [branchAt]
    | .sep _, d, o, _ => by cases d <;> simp [branchAt]
    | .cls .., d, o, _ => by cases d <;> simp [branchAt]
    | .one _, d, o, _ => by cases d <;> simp [branchAt]
    | .zom .., d, o, _ => by cases d <;> simp [branchAt]
    | .tree .., d, o, _ => by cases d <;> simp [branchAt]
  theorem branchSeq_beyond : ∀ (ts : List Tok) (d : Nat) (inh : Outer) (prev : Option Tok),
      heightL ts < d → branchSeq d inh prev ts = none
    | [], d, _, _, _ => by cases d <;> simp [branchSeq]
    | .alt sp bs :: rest, d, inh, prev, h => by
      simp only [heightL, Tok.height] at h
      cases d with
      | zero => omega
      | succ d =>
        simp only [branchSeq, orElse_eq_none]
        exact ⟨branchAll_beyond bs d _ (by omega), branchSeq_beyond rest (d + 1) inh _ (by omega)⟩
    | .rep sp b lo hi :: rest, d, inh, prev, h => by
      simp only [heightL, Tok.height] at h
      cases d with
      | zero => omega
      | succ d =>
        simp only [branchSeq, orElse_eq_none]
        exact ⟨branchAt_beyond b d _ (by omega), branchSeq_beyond rest (d + 1) inh _ (by omega)⟩
    | .lit a b c :: rest, d, inh, prev, h => by
      simp only [heightL] at h
      rw [branchSeq_skip _ _ _ _ _ (by intros; simp) (by intros; simp)]
      exact branchSeq_beyond rest d inh _ (by omega)
    | .sep a :: rest, d, inh, prev, h => by
      simp only [heightL] at h
      rw [branchSeq_skip _ _ _ _ _ (by intros; simp) (by intros; simp)]
      exact branchSeq_beyond rest d inh _ (by omega)
    | .cls a b c :: rest, d, inh, prev, h => by
      simp only [heightL] at h
      rw [branchSeq_skip _ _ _ _ _ (by intros; simp) (by intros; simp)]
      exact branchSeq_beyond rest d inh _ (by omega)
    | .one a :: rest, d, inh, prev, h => by
      simp only [heightL] at h
      rw [branchSeq_skip _ _ _ _ _ (by intros; simp) (by intros; simp)]
      exact branchSeq_beyond rest d inh _ (by omega)
    | .zom a b :: rest, d, inh, prev, h => by
      simp only [heightL] at h
      rw [branchSeq_skip _ _ _ _ _ (by intros; simp) (by intros; simp)]
      exact branchSeq_beyond rest d inh _ (by omega)
    | .tree a b :: rest, d, inh, prev, h => by
      simp only [heightL] at h
      rw [branchSeq_skip _ _ _ _ _ (by intros; simp) (by intros; simp)]
      exact branchSeq_beyond rest d inh _ (by omega)
    | .cat a b :: rest, d, inh, prev, h => by
      simp only [heightL] at h
      rw [branchSeq_skip _ _ _ _ _ (by intros; simp) (by intros; simp)]
      exact branchSeq_beyond rest d inh _ (by omega)
  theorem branchAll_beyond : ∀ (bs : List Tok) (d : Nat) (o : Outer), heightL bs < d →
      branchAll d o bs = none
    | [], d, _, _ => by simp [branchAll]
    | b :: bs, d, o, h => by
      simp only [heightL] at h
      simp only [branchAll, orElse_eq_none]
      exact ⟨branchAt_beyond b d o (by omega), branchAll_beyond bs d o (by omega)⟩
end

theorem ruleBranch_none_iff (t : Tok) :
    ruleBranch t = none ↔ ∀ d, branchAt d ⟨none, none⟩ t = none := by
  constructor
  · intro h d
    by_cases hd : d < t.height + 1
    · simpa using searchLevels_none _ _ _ h d hd
    · exact branchAt_beyond t d _ (by omega)
  · intro h
    exact searchLevels_all_none _ h _ _

/-! ### the checks of one site: error kinds against the Boolean verdicts of `RuleS` -/

theorem branch_core (io a a' b b' c c' eb ez sb sz : Bool) :
    ((if (a && eb) = true then some RuleErr.adjBoundary
      else if (a' && sb) = true then some RuleErr.adjBoundary
      else if (io && b) = true then some RuleErr.singularTree
      else if (!io && b && eb) = true then some RuleErr.adjBoundary
      else if (!io && b' && sb) = true then some RuleErr.adjBoundary
      else if (c && ez) = true then some RuleErr.adjZom
      else if (c' && sz) = true then some RuleErr.adjZom
      else none) = none) ↔
    (!(a && eb) && !(a' && sb) && !(io && b) && !(!io && b && eb) && !(!io && b' && sb) &&
      !(c && ez) && !(c' && sz)) = true := by
  cases io <;> cases a <;> cases a' <;> cases b <;> cases b' <;> cases c <;> cases c' <;> cases eb <;>
    cases ez <;> cases sb <;> cases sz <;> decide

theorem checkBranch_none_iff (ts : Terms) (o : Outer) :
    checkBranch ts o = none ↔ checkBranchOk ts o = true := by
  cases ts with
  | only t => exact branch_core true _ _ _ _ _ _ _ _ _ _
  | startEnd s e => exact branch_core false _ _ _ _ _ _ _ _ _ _

theorem checkAlternation_none_iff (ts : Terms) (o : Outer) :
    checkAlternation ts o = none ↔ checkAlternationOk ts o = true := by
  simp only [checkAlternation, checkAlternationOk]
  generalize o.left.isNone = a
  generalize rootsIt ts.start = b
  cases a <;> cases b <;> simp

theorem rep_core (io a b c d d' e f : Bool) :
    ((if (a && b && c) = true then some RuleErr.rooted
      else if (!io && d && d') = true then some RuleErr.adjBoundary
      else if (io && e) = true then some RuleErr.adjBoundary
      else if (io && f) = true then some RuleErr.singularZom
      else none) = none) ↔
    (!(a && b && c) && !(!io && d && d') && !(io && e) && !(io && f)) = true := by
  cases io <;> cases a <;> cases b <;> cases c <;> cases d <;> cases d' <;> cases e <;> cases f <;> decide

theorem checkRepetition_none_iff (ts : Terms) (o : Outer) (lo : Nat) (hi : Option Nat) :
    checkRepetition ts o lo hi = none ↔ checkRepetitionOk ts o lo hi = true := by
  cases ts with
  | only t => exact rep_core true _ _ _ _ _ _ _
  | startEnd s e => exact rep_core false _ _ _ _ _ _ _

/-! ### neighbours that look alike

`okSeq` hands the previous token on with its span erased; only what the checks can see of the
neighbours matters. -/

structure Outer.Sim (o o' : Outer) : Prop where
  eb : endsWith Tok.isBoundaryT o.left = endsWith Tok.isBoundaryT o'.left
  ez : endsWith Tok.isZomT o.left = endsWith Tok.isZomT o'.left
  sb : startsWith Tok.isBoundaryT o.right = startsWith Tok.isBoundaryT o'.right
  sz : startsWith Tok.isZomT o.right = startsWith Tok.isZomT o'.right
  ln : o.left.isNone = o'.left.isNone

structure LSim (l l' : Option Tok) : Prop where
  eb : endsWith Tok.isBoundaryT l = endsWith Tok.isBoundaryT l'
  ez : endsWith Tok.isZomT l = endsWith Tok.isZomT l'
  ln : l.isNone = l'.isNone

theorem Outer.Sim.refl (o : Outer) : o.Sim o := ⟨rfl, rfl, rfl, rfl, rfl⟩
theorem LSim.refl (l : Option Tok) : LSim l l := ⟨rfl, rfl, rfl⟩

theorem lsim_alt (sp : Span) (bs : List Tok) : LSim (some (.alt sp bs)) (some (.alt ⟨0, 0⟩ bs)) :=
  ⟨by simp [endsWith, anyEnd, Tok.isBoundaryT], by simp [endsWith, anyEnd, Tok.isZomT], rfl⟩

theorem lsim_rep (sp : Span) (b : Tok) (lo : Nat) (hi : Option Nat) :
    LSim (some (.rep sp b lo hi)) (some (.rep ⟨0, 0⟩ b lo hi)) :=
  ⟨by simp [endsWith, anyEnd, Tok.isBoundaryT], by simp [endsWith, anyEnd, Tok.isZomT], rfl⟩

theorem or_sim {o o' : Outer} (h : o.Sim o') {l l' : Option Tok} (hl : LSim l l') (r : Option Tok) :
    (o.or l r).Sim (o'.or l' r) := by
  have hln := hl.ln
  cases l with
  | none =>
    cases l' with
    | some b => simp at hln
    | none =>
      cases r with
      | none => exact ⟨h.eb, h.ez, h.sb, h.sz, h.ln⟩
      | some x => exact ⟨h.eb, h.ez, rfl, rfl, h.ln⟩
  | some a =>
    cases l' with
    | none => simp at hln
    | some b =>
      cases r with
      | none => exact ⟨hl.eb, hl.ez, h.sb, h.sz, rfl⟩
      | some x => exact ⟨hl.eb, hl.ez, rfl, rfl, rfl⟩

theorem checkBranchOk_sim {o o' : Outer} (h : o.Sim o') (ts : Terms) :
    checkBranchOk ts o = checkBranchOk ts o' := by
  unfold checkBranchOk
  rw [h.eb, h.ez, h.sb, h.sz]

theorem checkAlternationOk_sim {o o' : Outer} (h : o.Sim o') (ts : Terms) :
    checkAlternationOk ts o = checkAlternationOk ts o' := by
  unfold checkAlternationOk
  rw [h.ln]

theorem checkRepetitionOk_sim {o o' : Outer} (h : o.Sim o') (ts : Terms) (lo : Nat) (hi : Option Nat) :
    checkRepetitionOk ts o lo hi = checkRepetitionOk ts o' lo hi := by
  unfold checkRepetitionOk
  rw [h.ln]

theorem match_none_iff {α β} (x : Option α) (sp : β) :
    (match x with | some k => some (k, sp) | none => none) = none ↔ x = none := by
  cases x <;> simp

theorem termsAlt_none_iff {o o' : Outer} (h : o.Sim o') (b : Tok) :
    termsErr (fun ts => orElse (checkBranch ts o) (checkAlternation ts o)) b = none ↔
    termsOk (fun ts => checkBranchOk ts o' && checkAlternationOk ts o') b = true := by
  unfold termsErr termsOk
  cases terminals b.concatenation with
  | none => simp
  | some ts =>
    simp only [orElse_eq_none, Bool.and_eq_true, checkBranch_none_iff, checkAlternation_none_iff,
      checkBranchOk_sim h, checkAlternationOk_sim h]

theorem termsRep_none_iff {o o' : Outer} (h : o.Sim o') (b : Tok) (lo : Nat) (hi : Option Nat) :
    termsErr (fun ts => orElse (checkBranch ts o) (checkRepetition ts o lo hi)) b = none ↔
    termsOk (fun ts => checkBranchOk ts o' && checkRepetitionOk ts o' lo hi) b = true := by
  unfold termsErr termsOk
  cases terminals b.concatenation with
  | none => simp
  | some ts =>
    simp only [orElse_eq_none, Bool.and_eq_true, checkBranch_none_iff, checkRepetition_none_iff,
      checkBranchOk_sim h, checkRepetitionOk_sim h]

theorem siteRep_none_iff {o o' : Outer} (h : o.Sim o') (sp : Span) (b : Tok) (lo : Nat) (hi : Option Nat) :
    siteRep sp o b lo hi = none ↔
    termsOk (fun ts => checkBranchOk ts o' && checkRepetitionOk ts o' lo hi) b = true := by
  rw [← termsRep_none_iff h]
  simp only [siteRep]
  cases termsErr (fun ts => orElse (checkBranch ts o) (checkRepetition ts o lo hi)) b <;> simp

theorem siteAlt_cons_none_iff {o o' : Outer} (h : o.Sim o') (sp : Span) (b : Tok) (bs : List Tok) :
    siteAlt sp o (b :: bs) = none ↔
    termsOk (fun ts => checkBranchOk ts o' && checkAlternationOk ts o') b = true ∧
      siteAlt sp o bs = none := by
  rw [← termsAlt_none_iff h]
  simp only [siteAlt]
  cases termsErr (fun ts => orElse (checkBranch ts o) (checkAlternation ts o)) b <;> simp

theorem firstAdj_none_iff : ∀ (ts : List Tok), firstAdjBoundary ts = none ↔ noAdjBoundary ts = true
  | [] => by simp [firstAdjBoundary, noAdjBoundary]
  | [a] => by simp [firstAdjBoundary, noAdjBoundary]
  | a :: b :: rest => by
    simp only [firstAdjBoundary, noAdjBoundary]
    have ih := firstAdj_none_iff (b :: rest)
    cases hab : (a.isBoundaryT && b.isBoundaryT) <;> simp [hab, ih]

theorem boundaryAt_cat_none_iff (sp : Span) (ts : List Tok) :
    boundaryAt (.cat sp ts) = none ↔ noAdjBoundary ts = true := by
  rw [← firstAdj_none_iff]
  simp only [boundaryAt]
  cases firstAdjBoundary ts <;> simp

theorem boundsAt_rep_none_iff (sp : Span) (b : Tok) (lo : Nat) (hi : Option Nat) :
    boundsAt (.rep sp b lo hi) = none ↔ boundsOk lo hi = true := by
  simp only [boundsAt]
  cases boundsOk lo hi <;> simp

/-! ### no hit at any level ⇒ the structural verdict accepts -/

theorem findAt_succ_alt {α} (f : Tok → Option α) (d : Nat) (sp : Span) (bs : List Tok) :
    findAt f (d + 1) (.alt sp bs) = findAtL f d bs := by simp [findAt]
theorem findAt_succ_cat {α} (f : Tok → Option α) (d : Nat) (sp : Span) (ts : List Tok) :
    findAt f (d + 1) (.cat sp ts) = findAtL f d ts := by simp [findAt]
theorem findAt_succ_rep {α} (f : Tok → Option α) (d : Nat) (sp : Span) (b : Tok) (lo : Nat)
    (hi : Option Nat) : findAt f (d + 1) (.rep sp b lo hi) = findAt f d b := by simp [findAt]
theorem findAt_zero {α} (f : Tok → Option α) (t : Tok) : findAt f 0 t = f t := by
  cases t <;> simp [findAt]

mutual
  theorem okBody_of_none : ∀ (t : Tok) (o o' : Outer), o.Sim o' →
      (∀ d, findAt boundaryAt d t = none) → (∀ d, findAt boundsAt d t = none) →
      (∀ d, branchAt d o t = none) → okBody o' t = true
    | .cat sp ts, o, o', hs, hb, hd, hr => by
      simp only [okBody, Bool.and_eq_true]
      refine ⟨?_, okSeq_of_none ts o o' none none hs (LSim.refl _)
        (fun d => by rw [← findAt_succ_cat _ d sp]; exact hb (d + 1))
        (fun d => by rw [← findAt_succ_cat _ d sp]; exact hd (d + 1))
        (fun d => by have := hr d; simpa only [branchAt] using this)⟩
      have := hb 0
      rw [findAt_zero] at this
      exact (boundaryAt_cat_none_iff sp ts).mp this
    | .alt sp bs, o, o', hs, hb, hd, hr => by
      simp only [okBody]
      exact okBranches_of_none bs o o' sp hs
        (fun d => by rw [← findAt_succ_alt _ d sp]; exact hb (d + 1))
        (fun d => by rw [← findAt_succ_alt _ d sp]; exact hd (d + 1))
        (by have := hr 0; simpa only [branchAt] using this)
        (fun d => by have := hr (d + 1); simpa only [branchAt] using this)
    | .rep sp b lo hi, o, o', hs, hb, hd, hr => by
      simp only [okBody, Bool.and_eq_true]
      refine ⟨⟨?_, ?_⟩, okBody_of_none b o o' hs
        (fun d => by rw [← findAt_succ_rep _ d sp b lo hi]; exact hb (d + 1))
        (fun d => by rw [← findAt_succ_rep _ d sp b lo hi]; exact hd (d + 1))
        (fun d => by have := hr (d + 1); simpa only [branchAt] using this)⟩
      · have := hd 0
        rw [findAt_zero] at this
        exact (boundsAt_rep_none_iff sp b lo hi).mp this
      · have := hr 0
        simp only [branchAt] at this
        exact (siteRep_none_iff hs sp b lo hi).mp this
    | .lit .., _, _, _, _, _, _ => by simp [okBody]
    | .sep _, _, _, _, _, _, _ => by simp [okBody]
    | .cls .., _, _, _, _, _, _ => by simp [okBody]
    | .one _, _, _, _, _, _, _ => by simp [okBody]
    | .zom .., _, _, _, _, _, _ => by simp [okBody]
    | .tree .., _, _, _, _, _, _ => by simp [okBody]
  theorem okSeq_of_none : ∀ (ts : List Tok) (inh inh' : Outer) (prev prev' : Option Tok),
      inh.Sim inh' → LSim prev prev' →
      (∀ d, findAtL boundaryAt d ts = none) → (∀ d, findAtL boundsAt d ts = none) →
      (∀ d, branchSeq d inh prev ts = none) → okSeq inh' prev' ts = true
    | [], _, _, _, _, _, _, _, _, _ => by simp [okSeq]
    | .alt sp bs :: rest, inh, inh', prev, prev', hs, hl, hb, hd, hr => by
      simp only [okSeq, Bool.and_eq_true]
      have hsim := or_sim hs hl rest.head?
      have h0 := hr 0
      simp only [branchSeq, orElse_eq_none] at h0
      have hS : ∀ d, branchSeq d inh (some (.alt sp bs)) rest = none := fun d => by
        cases d with
        | zero => exact h0.2
        | succ d => have := hr (d + 1); simp only [branchSeq, orElse_eq_none] at this; exact this.2
      have hA : ∀ d, branchAll d (inh.or prev rest.head?) bs = none := fun d => by
        have := hr (d + 1); simp only [branchSeq, orElse_eq_none] at this; exact this.1
      exact ⟨okBranches_of_none bs _ _ sp hsim
          (fun d => by rw [← findAt_succ_alt _ d sp]; exact (findAtL_cons_none.mp (hb (d + 1))).1)
          (fun d => by rw [← findAt_succ_alt _ d sp]; exact (findAtL_cons_none.mp (hd (d + 1))).1)
          h0.1 hA,
        okSeq_of_none rest inh inh' _ _ hs (lsim_alt sp bs)
          (fun d => (findAtL_cons_none.mp (hb d)).2) (fun d => (findAtL_cons_none.mp (hd d)).2) hS⟩
    | .rep sp b lo hi :: rest, inh, inh', prev, prev', hs, hl, hb, hd, hr => by
      simp only [okSeq, Bool.and_eq_true]
      have hsim := or_sim hs hl rest.head?
      have h0 := hr 0
      simp only [branchSeq, orElse_eq_none] at h0
      have hS : ∀ d, branchSeq d inh (some (.rep sp b lo hi)) rest = none := fun d => by
        cases d with
        | zero => exact h0.2
        | succ d => have := hr (d + 1); simp only [branchSeq, orElse_eq_none] at this; exact this.2
      have hA : ∀ d, branchAt d (inh.or prev rest.head?) b = none := fun d => by
        have := hr (d + 1); simp only [branchSeq, orElse_eq_none] at this; exact this.1
      have hbo : boundsOk lo hi = true := by
        have := (findAtL_cons_none.mp (hd 0)).1
        rw [findAt_zero] at this
        exact (boundsAt_rep_none_iff sp b lo hi).mp this
      exact ⟨⟨⟨hbo, (siteRep_none_iff hsim sp b lo hi).mp h0.1⟩,
          okBody_of_none b _ _ hsim
            (fun d => by rw [← findAt_succ_rep _ d sp b lo hi]; exact (findAtL_cons_none.mp (hb (d + 1))).1)
            (fun d => by rw [← findAt_succ_rep _ d sp b lo hi]; exact (findAtL_cons_none.mp (hd (d + 1))).1)
            hA⟩,
        okSeq_of_none rest inh inh' _ _ hs (lsim_rep sp b lo hi)
          (fun d => (findAtL_cons_none.mp (hb d)).2) (fun d => (findAtL_cons_none.mp (hd d)).2) hS⟩
    | .lit a b c :: rest, inh, inh', prev, prev', hs, hl, hb, hd, hr => by
      rw [okSeq_skip _ _ _ _ (by intros; simp) (by intros; simp)]
      exact okSeq_of_none rest inh inh' _ _ hs (LSim.refl _)
        (fun d => (findAtL_cons_none.mp (hb d)).2) (fun d => (findAtL_cons_none.mp (hd d)).2)
        (fun d => by rw [← branchSeq_skip d inh prev _ rest (by intros; simp) (by intros; simp)]; exact hr d)
    | .sep a :: rest, inh, inh', prev, prev', hs, hl, hb, hd, hr => by
      rw [okSeq_skip _ _ _ _ (by intros; simp) (by intros; simp)]
      exact okSeq_of_none rest inh inh' _ _ hs (LSim.refl _)
        (fun d => (findAtL_cons_none.mp (hb d)).2) (fun d => (findAtL_cons_none.mp (hd d)).2)
        (fun d => by rw [← branchSeq_skip d inh prev _ rest (by intros; simp) (by intros; simp)]; exact hr d)
    | .cls a b c :: rest, inh, inh', prev, prev', hs, hl, hb, hd, hr => by
      rw [okSeq_skip _ _ _ _ (by intros; simp) (by intros; simp)]
      exact okSeq_of_none rest inh inh' _ _ hs (LSim.refl _)
        (fun d => (findAtL_cons_none.mp (hb d)).2) (fun d => (findAtL_cons_none.mp (hd d)).2)
        (fun d => by rw [← branchSeq_skip d inh prev _ rest (by intros; simp) (by intros; simp)]; exact hr d)
    | .one a :: rest, inh, inh', prev, prev', hs, hl, hb, hd, hr => by
      rw [okSeq_skip _ _ _ _ (by intros; simp) (by intros; simp)]
      exact okSeq_of_none rest inh inh' _ _ hs (LSim.refl _)
        (fun d => (findAtL_cons_none.mp (hb d)).2) (fun d => (findAtL_cons_none.mp (hd d)).2)
        (fun d => by rw [← branchSeq_skip d inh prev _ rest (by intros; simp) (by intros; simp)]; exact hr d)
    | .zom a b :: rest, inh, inh', prev, prev', hs, hl, hb, hd, hr => by
      rw [okSeq_skip _ _ _ _ (by intros; simp) (by intros; simp)]
      exact okSeq_of_none rest inh inh' _ _ hs (LSim.refl _)
        (fun d => (findAtL_cons_none.mp (hb d)).2) (fun d => (findAtL_cons_none.mp (hd d)).2)
        (fun d => by rw [← branchSeq_skip d inh prev _ rest (by intros; simp) (by intros; simp)]; exact hr d)
    | .tree a b :: rest, inh, inh', prev, prev', hs, hl, hb, hd, hr => by
      rw [okSeq_skip _ _ _ _ (by intros; simp) (by intros; simp)]
      exact okSeq_of_none rest inh inh' _ _ hs (LSim.refl _)
        (fun d => (findAtL_cons_none.mp (hb d)).2) (fun d => (findAtL_cons_none.mp (hd d)).2)
        (fun d => by rw [← branchSeq_skip d inh prev _ rest (by intros; simp) (by intros; simp)]; exact hr d)
    | .cat a b :: rest, inh, inh', prev, prev', hs, hl, hb, hd, hr => by
      rw [okSeq_skip _ _ _ _ (by intros; simp) (by intros; simp)]
      exact okSeq_of_none rest inh inh' _ _ hs (LSim.refl _)
        (fun d => (findAtL_cons_none.mp (hb d)).2) (fun d => (findAtL_cons_none.mp (hd d)).2)
        (fun d => by rw [← branchSeq_skip d inh prev _ rest (by intros; simp) (by intros; simp)]; exact hr d)
  theorem okBranches_of_none : ∀ (bs : List Tok) (o o' : Outer) (sp : Span), o.Sim o' →
      (∀ d, findAtL boundaryAt d bs = none) → (∀ d, findAtL boundsAt d bs = none) →
      siteAlt sp o bs = none → (∀ d, branchAll d o bs = none) → okBranchesR o' bs = true
    | [], _, _, _, _, _, _, _, _ => by simp [okBranchesR]
    | b :: bs, o, o', sp, hs, hb, hd, h0, hr => by
      simp only [okBranchesR, Bool.and_eq_true]
      have h0' := (siteAlt_cons_none_iff hs sp b bs).mp h0
      have hA : ∀ d, branchAt d o b = none ∧ branchAll d o bs = none := fun d => by
        have := hr d; simpa only [branchAll, orElse_eq_none] using this
      exact ⟨⟨h0'.1, okBody_of_none b o o' hs (fun d => (findAtL_cons_none.mp (hb d)).1)
          (fun d => (findAtL_cons_none.mp (hd d)).1) (fun d => (hA d).1)⟩,
        okBranches_of_none bs o o' sp hs (fun d => (findAtL_cons_none.mp (hb d)).2)
          (fun d => (findAtL_cons_none.mp (hd d)).2) h0'.2 (fun d => (hA d).2)⟩
end

/-- the three structural rules of `check` find nothing ⇒ `checkS` accepts (no hypothesis on the
    shape of the tree) -/
theorem checkS_of_rules_none (t : Tok) (hb : ruleBoundary t = none) (hd : ruleBounds t = none)
    (hr : ruleBranch t = none) : checkS t = true :=
  okBody_of_none t _ _ (Outer.Sim.refl _) ((bfsFind_none_iff _ t).mp hb) ((bfsFind_none_iff _ t).mp hd)
    ((ruleBranch_none_iff t).mp hr)

theorem check_none_parts (t : Tok) (h : check t = .ok none) :
    ruleBoundary t = none ∧ ruleBounds t = none ∧ ruleBranch t = none ∧ ruleSize t = .ok none := by
  unfold check at h
  cases hb : ruleBoundary t with
  | some e => rw [hb] at h; simp [pure, Except.pure] at h
  | none =>
    rw [hb] at h
    cases hd : ruleBounds t with
    | some e => rw [hd] at h; simp [pure, Except.pure] at h
    | none =>
      rw [hd] at h
      cases hr : ruleBranch t with
      | some e => rw [hr] at h; simp [pure, Except.pure] at h
      | none => rw [hr] at h; exact ⟨rfl, rfl, rfl, h⟩

/-- **the direction the theorems use**: whatever `rule::check` (with error identity) accepts, the
    structural verdict accepts -/
theorem checkS_of_check (t : Tok) (h : check t = .ok none) : checkS t = true := by
  obtain ⟨hb, hd, hr, _⟩ := check_none_parts t h
  exact checkS_of_rules_none t hb hd hr

/-! ### the structural verdict accepts ⇒ no hit at any level

`okSeq` does not look inside a concatenation that sits directly in a concatenation; the parser never
produces one (`noCatIn`, see `Proofs/ParseShape.lean`). -/

theorem findAt_leaf_none {α} (f : Tok → Option α) (t : Tok) (hf : f t = none)
    (ha : ∀ sp bs, t ≠ .alt sp bs) (hc : ∀ sp ts, t ≠ .cat sp ts)
    (hr : ∀ sp b lo hi, t ≠ .rep sp b lo hi) : ∀ d, findAt f d t = none := by
  intro d
  cases d with
  | zero => rw [findAt_zero]; exact hf
  | succ d =>
    cases t with
    | alt sp bs => exact absurd rfl (ha sp bs)
    | cat sp ts => exact absurd rfl (hc sp ts)
    | rep sp b lo hi => exact absurd rfl (hr sp b lo hi)
    | _ => simp [findAt]

mutual
  theorem none_of_okBody : ∀ (t : Tok) (o o' : Outer), o.Sim o' → noCatIn t = true →
      okBody o' t = true →
      (∀ d, findAt boundaryAt d t = none) ∧ (∀ d, findAt boundsAt d t = none) ∧
        (∀ d, branchAt d o t = none)
    | .cat sp ts, o, o', hs, hn, h => by
      simp only [okBody, Bool.and_eq_true] at h
      simp only [noCatIn] at hn
      obtain ⟨hb, hd, hr⟩ := none_of_okSeq ts o o' none none hs (LSim.refl _) hn h.2
      refine ⟨fun d => ?_, fun d => ?_, fun d => by simp only [branchAt]; exact hr d⟩
      · cases d with
        | zero => rw [findAt_zero]; exact (boundaryAt_cat_none_iff sp ts).mpr h.1
        | succ d => rw [findAt_succ_cat]; exact hb d
      · cases d with
        | zero => rw [findAt_zero]; simp [boundsAt]
        | succ d => rw [findAt_succ_cat]; exact hd d
    | .alt sp bs, o, o', hs, hn, h => by
      simp only [okBody] at h
      simp only [noCatIn] at hn
      obtain ⟨hb, hd, h0, hr⟩ := none_of_okBranches bs o o' sp hs hn h
      refine ⟨fun d => ?_, fun d => ?_, fun d => ?_⟩
      · cases d with
        | zero => rw [findAt_zero]; simp [boundaryAt]
        | succ d => rw [findAt_succ_alt]; exact hb d
      · cases d with
        | zero => rw [findAt_zero]; simp [boundsAt]
        | succ d => rw [findAt_succ_alt]; exact hd d
      · cases d with
        | zero => simp only [branchAt]; exact h0
        | succ d => simp only [branchAt]; exact hr d
    | .rep sp b lo hi, o, o', hs, hn, h => by
      simp only [okBody, Bool.and_eq_true] at h
      simp only [noCatIn] at hn
      obtain ⟨hb, hd, hr⟩ := none_of_okBody b o o' hs hn h.2
      refine ⟨fun d => ?_, fun d => ?_, fun d => ?_⟩
      · cases d with
        | zero => rw [findAt_zero]; simp [boundaryAt]
        | succ d => rw [findAt_succ_rep]; exact hb d
      · cases d with
        | zero => rw [findAt_zero]; exact (boundsAt_rep_none_iff sp b lo hi).mpr h.1.1
        | succ d => rw [findAt_succ_rep]; exact hd d
      · cases d with
        | zero => simp only [branchAt]; exact (siteRep_none_iff hs sp b lo hi).mpr h.1.2
        | succ d => simp only [branchAt]; exact hr d
    | .lit a b c, o, _, _, _, _ =>
      ⟨findAt_leaf_none _ _ (by simp [boundaryAt]) (by intros; simp) (by intros; simp) (by intros; simp),
       findAt_leaf_none _ _ (by simp [boundsAt]) (by intros; simp) (by intros; simp) (by intros; simp),
       fun d => by cases d <;> simp [branchAt]⟩
    | .sep a, o, _, _, _, _ =>
      ⟨findAt_leaf_none _ _ (by simp [boundaryAt]) (by intros; simp) (by intros; simp) (by intros; simp),
       findAt_leaf_none _ _ (by simp [boundsAt]) (by intros; simp) (by intros; simp) (by intros; simp),
       fun d => by cases d <;> simp [branchAt]⟩
    | .cls a b c, o, _, _, _, _ =>
      ⟨findAt_leaf_none _ _ (by simp [boundaryAt]) (by intros; simp) (by intros; simp) (by intros; simp),
       findAt_leaf_none _ _ (by simp [boundsAt]) (by intros; simp) (by intros; simp) (by intros; simp),
       fun d => by cases d <;> simp [branchAt]⟩
    | .one a, o, _, _, _, _ =>
      ⟨findAt_leaf_none _ _ (by simp [boundaryAt]) (by intros; simp) (by intros; simp) (by intros; simp),
       findAt_leaf_none _ _ (by simp [boundsAt]) (by intros; simp) (by intros; simp) (by intros; simp),
       fun d => by cases d <;> simp [branchAt]⟩
    | .zom a b, o, _, _, _, _ =>
      ⟨findAt_leaf_none _ _ (by simp [boundaryAt]) (by intros; simp) (by intros; simp) (by intros; simp),
       findAt_leaf_none _ _ (by simp [boundsAt]) (by intros; simp) (by intros; simp) (by intros; simp),
       fun d => by cases d <;> simp [branchAt]⟩
    | .tree a b, o, _, _, _, _ =>
      ⟨findAt_leaf_none _ _ (by simp [boundaryAt]) (by intros; simp) (by intros; simp) (by intros; simp),
       findAt_leaf_none _ _ (by simp [boundsAt]) (by intros; simp) (by intros; simp) (by intros; simp),
       fun d => by cases d <;> simp [branchAt]⟩
  theorem none_of_okSeq : ∀ (ts : List Tok) (inh inh' : Outer) (prev prev' : Option Tok),
      inh.Sim inh' → LSim prev prev' → noCatInL true ts = true → okSeq inh' prev' ts = true →
      (∀ d, findAtL boundaryAt d ts = none) ∧ (∀ d, findAtL boundsAt d ts = none) ∧
        (∀ d, branchSeq d inh prev ts = none)
    | [], _, _, _, _, _, _, _, _ =>
      ⟨fun d => by simp [findAtL], fun d => by simp [findAtL], fun d => by cases d <;> simp [branchSeq]⟩
    | .alt sp bs :: rest, inh, inh', prev, prev', hs, hl, hn, h => by
      simp only [okSeq, Bool.and_eq_true] at h
      simp only [noCatInL, noCatIn, Bool.and_eq_true] at hn
      have hsim := or_sim hs hl rest.head?
      obtain ⟨hb1, hd1, h01, hr1⟩ := none_of_okBranches bs _ _ sp hsim hn.1.2 h.1
      obtain ⟨hb2, hd2, hr2⟩ := none_of_okSeq rest inh inh' _ _ hs (lsim_alt sp bs) hn.2 h.2
      refine ⟨fun d => findAtL_cons_none.mpr ⟨?_, hb2 d⟩, fun d => findAtL_cons_none.mpr ⟨?_, hd2 d⟩,
        fun d => ?_⟩
      · cases d with
        | zero => rw [findAt_zero]; simp [boundaryAt]
        | succ d => rw [findAt_succ_alt]; exact hb1 d
      · cases d with
        | zero => rw [findAt_zero]; simp [boundsAt]
        | succ d => rw [findAt_succ_alt]; exact hd1 d
      · cases d with
        | zero => simp only [branchSeq, orElse_eq_none]; exact ⟨h01, hr2 0⟩
        | succ d => simp only [branchSeq, orElse_eq_none]; exact ⟨hr1 d, hr2 (d + 1)⟩
    | .rep sp b lo hi :: rest, inh, inh', prev, prev', hs, hl, hn, h => by
      simp only [okSeq, Bool.and_eq_true] at h
      simp only [noCatInL, noCatIn, Bool.and_eq_true] at hn
      have hsim := or_sim hs hl rest.head?
      obtain ⟨hb1, hd1, hr1⟩ := none_of_okBody b _ _ hsim hn.1.2 h.1.2
      obtain ⟨hb2, hd2, hr2⟩ := none_of_okSeq rest inh inh' _ _ hs (lsim_rep sp b lo hi) hn.2 h.2
      refine ⟨fun d => findAtL_cons_none.mpr ⟨?_, hb2 d⟩, fun d => findAtL_cons_none.mpr ⟨?_, hd2 d⟩,
        fun d => ?_⟩
      · cases d with
        | zero => rw [findAt_zero]; simp [boundaryAt]
        | succ d => rw [findAt_succ_rep]; exact hb1 d
      · cases d with
        | zero => rw [findAt_zero]; exact (boundsAt_rep_none_iff sp b lo hi).mpr h.1.1.1
        | succ d => rw [findAt_succ_rep]; exact hd1 d
      · cases d with
        | zero =>
          simp only [branchSeq, orElse_eq_none]
          exact ⟨(siteRep_none_iff hsim sp b lo hi).mpr h.1.1.2, hr2 0⟩
        | succ d => simp only [branchSeq, orElse_eq_none]; exact ⟨hr1 d, hr2 (d + 1)⟩
    | .lit a b c :: rest, inh, inh', prev, prev', hs, hl, hn, h => by
      rw [okSeq_skip _ _ _ _ (by intros; simp) (by intros; simp)] at h
      simp only [noCatInL, Bool.and_eq_true] at hn
      obtain ⟨hb2, hd2, hr2⟩ := none_of_okSeq rest inh inh' _ _ hs (LSim.refl _) hn.2 h
      exact ⟨fun d => findAtL_cons_none.mpr ⟨findAt_leaf_none _ _ (by simp [boundaryAt]) (by intros; simp)
          (by intros; simp) (by intros; simp) d, hb2 d⟩,
        fun d => findAtL_cons_none.mpr ⟨findAt_leaf_none _ _ (by simp [boundsAt]) (by intros; simp)
          (by intros; simp) (by intros; simp) d, hd2 d⟩,
        fun d => by rw [branchSeq_skip d inh prev _ rest (by intros; simp) (by intros; simp)]; exact hr2 d⟩
    | .sep a :: rest, inh, inh', prev, prev', hs, hl, hn, h => by
      rw [okSeq_skip _ _ _ _ (by intros; simp) (by intros; simp)] at h
      simp only [noCatInL, Bool.and_eq_true] at hn
      obtain ⟨hb2, hd2, hr2⟩ := none_of_okSeq rest inh inh' _ _ hs (LSim.refl _) hn.2 h
      exact ⟨fun d => findAtL_cons_none.mpr ⟨findAt_leaf_none _ _ (by simp [boundaryAt]) (by intros; simp)
          (by intros; simp) (by intros; simp) d, hb2 d⟩,
        fun d => findAtL_cons_none.mpr ⟨findAt_leaf_none _ _ (by simp [boundsAt]) (by intros; simp)
          (by intros; simp) (by intros; simp) d, hd2 d⟩,
        fun d => by rw [branchSeq_skip d inh prev _ rest (by intros; simp) (by intros; simp)]; exact hr2 d⟩
    | .cls a b c :: rest, inh, inh', prev, prev', hs, hl, hn, h => by
      rw [okSeq_skip _ _ _ _ (by intros; simp) (by intros; simp)] at h
      simp only [noCatInL, Bool.and_eq_true] at hn
      obtain ⟨hb2, hd2, hr2⟩ := none_of_okSeq rest inh inh' _ _ hs (LSim.refl _) hn.2 h
      exact ⟨fun d => findAtL_cons_none.mpr ⟨findAt_leaf_none _ _ (by simp [boundaryAt]) (by intros; simp)
          (by intros; simp) (by intros; simp) d, hb2 d⟩,
        fun d => findAtL_cons_none.mpr ⟨findAt_leaf_none _ _ (by simp [boundsAt]) (by intros; simp)
          (by intros; simp) (by intros; simp) d, hd2 d⟩,
        fun d => by rw [branchSeq_skip d inh prev _ rest (by intros; simp) (by intros; simp)]; exact hr2 d⟩
    | .one a :: rest, inh, inh', prev, prev', hs, hl, hn, h => by
      rw [okSeq_skip _ _ _ _ (by intros; simp) (by intros; simp)] at h
      simp only [noCatInL, Bool.and_eq_true] at hn
      obtain ⟨hb2, hd2, hr2⟩ := none_of_okSeq rest inh inh' _ _ hs (LSim.refl _) hn.2 h
      exact ⟨fun d => findAtL_cons_none.mpr ⟨findAt_leaf_none _ _ (by simp [boundaryAt]) (by intros; simp)
          (by intros; simp) (by intros; simp) d, hb2 d⟩,
        fun d => findAtL_cons_none.mpr ⟨findAt_leaf_none _ _ (by simp [boundsAt]) (by intros; simp)
          (by intros; simp) (by intros; simp) d, hd2 d⟩,
        fun d => by rw [branchSeq_skip d inh prev _ rest (by intros; simp) (by intros; simp)]; exact hr2 d⟩
    | .zom a b :: rest, inh, inh', prev, prev', hs, hl, hn, h => by
      rw [okSeq_skip _ _ _ _ (by intros; simp) (by intros; simp)] at h
      simp only [noCatInL, Bool.and_eq_true] at hn
      obtain ⟨hb2, hd2, hr2⟩ := none_of_okSeq rest inh inh' _ _ hs (LSim.refl _) hn.2 h
      exact ⟨fun d => findAtL_cons_none.mpr ⟨findAt_leaf_none _ _ (by simp [boundaryAt]) (by intros; simp)
          (by intros; simp) (by intros; simp) d, hb2 d⟩,
        fun d => findAtL_cons_none.mpr ⟨findAt_leaf_none _ _ (by simp [boundsAt]) (by intros; simp)
          (by intros; simp) (by intros; simp) d, hd2 d⟩,
        fun d => by rw [branchSeq_skip d inh prev _ rest (by intros; simp) (by intros; simp)]; exact hr2 d⟩
    | .tree a b :: rest, inh, inh', prev, prev', hs, hl, hn, h => by
      rw [okSeq_skip _ _ _ _ (by intros; simp) (by intros; simp)] at h
      simp only [noCatInL, Bool.and_eq_true] at hn
      obtain ⟨hb2, hd2, hr2⟩ := none_of_okSeq rest inh inh' _ _ hs (LSim.refl _) hn.2 h
      exact ⟨fun d => findAtL_cons_none.mpr ⟨findAt_leaf_none _ _ (by simp [boundaryAt]) (by intros; simp)
          (by intros; simp) (by intros; simp) d, hb2 d⟩,
        fun d => findAtL_cons_none.mpr ⟨findAt_leaf_none _ _ (by simp [boundsAt]) (by intros; simp)
          (by intros; simp) (by intros; simp) d, hd2 d⟩,
        fun d => by rw [branchSeq_skip d inh prev _ rest (by intros; simp) (by intros; simp)]; exact hr2 d⟩
    | .cat a b :: rest, _, _, _, _, _, _, hn, _ => by
      simp [noCatInL, isCatT] at hn
  theorem none_of_okBranches : ∀ (bs : List Tok) (o o' : Outer) (sp : Span), o.Sim o' →
      noCatInL false bs = true → okBranchesR o' bs = true →
      (∀ d, findAtL boundaryAt d bs = none) ∧ (∀ d, findAtL boundsAt d bs = none) ∧
        siteAlt sp o bs = none ∧ (∀ d, branchAll d o bs = none)
    | [], _, _, _, _, _, _ =>
      ⟨fun d => by simp [findAtL], fun d => by simp [findAtL], by simp [siteAlt],
        fun d => by simp [branchAll]⟩
    | b :: bs, o, o', sp, hs, hn, h => by
      simp only [okBranchesR, Bool.and_eq_true] at h
      simp only [noCatInL, Bool.false_and, Bool.not_false, Bool.true_and, Bool.and_eq_true] at hn
      obtain ⟨hb1, hd1, hr1⟩ := none_of_okBody b o o' hs hn.1 h.1.2
      obtain ⟨hb2, hd2, h02, hr2⟩ := none_of_okBranches bs o o' sp hs hn.2 h.2
      exact ⟨fun d => findAtL_cons_none.mpr ⟨hb1 d, hb2 d⟩, fun d => findAtL_cons_none.mpr ⟨hd1 d, hd2 d⟩,
        (siteAlt_cons_none_iff hs sp b bs).mpr ⟨h.1.1, h02⟩,
        fun d => by simp only [branchAll, orElse_eq_none]; exact ⟨hr1 d, hr2 d⟩⟩
end

/-- `checkS` accepts ⇒ the three structural rules of `check` find nothing, on trees of the shape the
    parser produces -/
theorem rules_none_of_checkS (t : Tok) (hn : noCatIn t = true) (h : checkS t = true) :
    ruleBoundary t = none ∧ ruleBounds t = none ∧ ruleBranch t = none := by
  obtain ⟨hb, hd, hr⟩ := none_of_okBody t _ _ (Outer.Sim.refl _) hn h
  exact ⟨(bfsFind_none_iff _ t).mpr hb, (bfsFind_none_iff _ t).mpr hd, (ruleBranch_none_iff t).mpr hr⟩

/-- **equivalence**: `rule::check` with error identity accepts exactly when the structural verdict
    accepts and the size rule passes (without panicking) -/
theorem check_none_iff (t : Tok) (hn : noCatIn t = true) :
    check t = .ok none ↔ (checkS t = true ∧ ruleSize t = .ok none) := by
  constructor
  · intro h
    exact ⟨checkS_of_check t h, (check_none_parts t h).2.2.2⟩
  · rintro ⟨hc, hz⟩
    obtain ⟨hb, hd, hr⟩ := rules_none_of_checkS t hn hc
    unfold check
    rw [hb, hd, hr]
    exact hz

/-- for what the parser produces -/
theorem check_none_iff_of_parse (e : Str) (t : Tok) (hp : parse e = .ok t) :
    check t = .ok none ↔ (checkS t = true ∧ ruleSize t = .ok none) :=
  check_none_iff t (pshape_noCatIn t (parse_pshape e t hp))

end Wax
