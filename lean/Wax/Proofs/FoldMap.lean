import Wax.FoldMap
import Wax.RuleS
/-!
`Token::fold_map` (model: `Wax/FoldMap.lean`).

* `compose_decompose`: `Repetition::compose ∘ Repetition::decompose` is the identity on the bounds
  exactly when they are ordered (`compose_decompose_iff`); otherwise they come back swapped.
* `foldMap_machine_eq`: the explicit-stack loop equals the structural map, for every tree and `f`,
  panics included.
* `foldMap_id`: mapping with the identity returns the tree itself.
-/
namespace Wax.FoldMap

/-! ## (a) the bounds round trip -/

deriving instance DecidableEq for Except

/-- the bounds are `usize` values -/
def fitsUsize (lo : Nat) (hi : Option Nat) : Bool :=
  decide (lo < usizeLim) && match hi with | some h => decide (h < usizeLim) | none => true

/-- the exact domain of the round trip: ordered bounds (`<_:0,0>` included) -/
def ordered (lo : Nat) (hi : Option Nat) : Bool :=
  match hi with | some h => decide (lo ≤ h) | none => true

/-- what `compose (decompose lo hi)` is: the bounds, reordered -/
def normBounds (lo : Nat) (hi : Option Nat) : Nat × Option Nat :=
  match hi with
  | some h => if lo > h then (h, some lo) else (lo, some h)
  | none => (lo, none)

theorem cadd_ok (w : String) (a b : Nat) (h : a + b < usizeLim) : cadd w a b = .ok (a + b) := by
  simp [cadd, h, pure, Except.pure]

theorem compose_both (lo e : Nat) (h : lo + e < usizeLim) :
    composeBounds (.var (.bounded (.both lo e))) = .ok (lo, some (lo + e)) := by
  simp [composeBounds, NRange.upperB, BVR.upperB, cadd_ok _ _ _ h, NRange.lowerB, BVR.lowerB,
    NBound.lowerUsize, NBound.upperUsize, bind, Except.bind, pure, Except.pure]

theorem compose_lower (n : Nat) :
    composeBounds (.var (.bounded (.lower n))) = .ok (n, none) := rfl
theorem compose_upper (n : Nat) :
    composeBounds (.var (.bounded (.upper n))) = .ok (0, some n) := rfl
theorem compose_unbounded : composeBounds (.var .unbounded) = .ok (0, none) := rfl
theorem compose_inv (n : Nat) : composeBounds (.inv n) = .ok (n, some n) := by
  by_cases h : n = 0
  · subst h; rfl
  · simp [composeBounds, NRange.upperB, NRange.lowerB, NBound.ofNat, h, NBound.lowerUsize,
      NBound.upperUsize, bind, Except.bind, pure, Except.pure]

/-- `decompose` of ordered bounds, case by case -/
theorem decompose_ordered (lo h : Nat) (hle : lo ≤ h) :
    decomposeBounds lo (some h) =
      if lo = h then .inv lo
      else if lo = 0 then .var (.bounded (.upper h))
      else .var (.bounded (.both lo (h - lo))) := by
  have hng : ¬ lo > h := by omega
  by_cases h1 : lo = h
  · subst h1
    by_cases h0 : lo = 0
    · subst h0; rfl
    · simp [decomposeBounds, NRange.fromClosedOpen, BVR.tryFrom, h0]
  · by_cases h0 : lo = 0
    · subst h0
      have : h ≠ 0 := by omega
      simp [decomposeBounds, NRange.fromClosedOpen, BVR.tryFrom, this, h1]
    · have hh : h ≠ 0 := by omega
      have hlt : lo < h := by omega
      simp [decomposeBounds, NRange.fromClosedOpen, BVR.tryFrom, hng, h0, hh, hlt, h1]

theorem decompose_none (lo : Nat) :
    decomposeBounds lo none = if lo = 0 then .var .unbounded else .var (.bounded (.lower lo)) := by
  by_cases h0 : lo = 0
  · subst h0; rfl
  · simp [decomposeBounds, NRange.fromClosedOpen, BVR.tryFrom, h0]

theorem decompose_swap (lo h : Nat) (hgt : lo > h) :
    decomposeBounds lo (some h) = decomposeBounds h (some lo) := by
  have : ¬ h > lo := by omega
  simp [decomposeBounds, NRange.fromClosedOpen, hgt, this]

theorem compose_decompose_ordered (lo h : Nat) (hle : lo ≤ h) (hf : h < usizeLim) :
    composeBounds (decomposeBounds lo (some h)) = .ok (lo, some h) := by
  rw [decompose_ordered lo h hle]
  by_cases h1 : lo = h
  · subst h1; simp [compose_inv]
  · by_cases h0 : lo = 0
    · subst h0; simp [h1, compose_upper]
    · simp only [h1, h0, if_false]
      rw [compose_both lo (h - lo) (by omega)]
      congr 3; omega

/-- the round trip in general (for `usize` bounds): the bounds come back *reordered* -/
theorem compose_decompose_norm (lo : Nat) (hi : Option Nat) (hf : fitsUsize lo hi = true) :
    composeBounds (decomposeBounds lo hi) = .ok (normBounds lo hi) := by
  cases hi with
  | none =>
    rw [decompose_none]
    by_cases h0 : lo = 0
    · subst h0; rfl
    · simp [h0, compose_lower, normBounds]
  | some h =>
    simp only [fitsUsize, Bool.and_eq_true, decide_eq_true_eq] at hf
    by_cases hgt : lo > h
    · rw [decompose_swap lo h hgt, compose_decompose_ordered h lo (by omega) hf.1]
      simp [normBounds, hgt]
    · rw [compose_decompose_ordered lo h (by omega) hf.2]
      simp [normBounds, hgt]

/-- **(a)** for every bound specification that the rule checker accepts, the round trip through
`NaturalRange` is the identity -/
theorem compose_decompose (lo : Nat) (hi : Option Nat) (h : boundsOk lo hi = true)
    (hf : fitsUsize lo hi = true) :
    composeBounds (decomposeBounds lo hi) = .ok (lo, hi) := by
  rw [compose_decompose_norm lo hi hf]
  cases hi with
  | none => rfl
  | some u =>
    simp only [boundsOk, Bool.not_eq_true', Bool.or_eq_false_iff, decide_eq_false_iff_not] at h
    simp [normBounds, h.1]

theorem boundsOk_ordered (lo : Nat) (hi : Option Nat) (h : boundsOk lo hi = true) :
    ordered lo hi = true := by
  cases hi with
  | none => rfl
  | some u =>
    simp only [boundsOk, Bool.not_eq_true', Bool.or_eq_false_iff, decide_eq_false_iff_not] at h
    simp only [ordered, decide_eq_true_eq]; omega

/-- **the exact domain**: on `usize` bounds the round trip is the identity iff the bounds are
ordered (this is `boundsOk` plus the specification `0,0`) -/
theorem compose_decompose_iff (lo : Nat) (hi : Option Nat) (hf : fitsUsize lo hi = true) :
    composeBounds (decomposeBounds lo hi) = .ok (lo, hi) ↔ ordered lo hi = true := by
  rw [compose_decompose_norm lo hi hf]
  cases hi with
  | none => simp [normBounds, ordered]
  | some u =>
    by_cases hgt : lo > u
    · have hne : ¬ lo ≤ u := by omega
      simp only [normBounds, hgt, if_true, ordered, decide_eq_true_eq, hne, iff_false]
      intro heq
      injection heq with heq
      injection heq with h1 h2
      omega
    · have : lo ≤ u := by omega
      simp [normBounds, hgt, ordered, this]

/-- non-vacuity, and the bound specifications of the task -/
example : composeBounds (decomposeBounds 2 (some 3)) = .ok (2, some 3) :=
  compose_decompose 2 (some 3) (by decide) (by decide)
example : composeBounds (decomposeBounds 0 (some 2)) = .ok (0, some 2) :=
  compose_decompose 0 (some 2) (by decide) (by decide)
example : composeBounds (decomposeBounds 1 none) = .ok (1, none) :=
  compose_decompose 1 none (by decide) (by decide)
example : composeBounds (decomposeBounds 0 none) = .ok (0, none) :=
  compose_decompose 0 none (by decide) (by decide)
example : composeBounds (decomposeBounds 3 (some 3)) = .ok (3, some 3) :=
  compose_decompose 3 (some 3) (by decide) (by decide)

/-- `0,0` is rejected by the rule checker but survives the round trip -/
example : boundsOk 0 (some 0) = false ∧ composeBounds (decomposeBounds 0 (some 0)) = .ok (0, some 0) :=
  ⟨by decide, by decide⟩

/-- **counterexamples outside the domain**: unordered bounds come back swapped -/
theorem compose_decompose_unordered :
    composeBounds (decomposeBounds 3 (some 1)) = .ok (1, some 3) ∧
    composeBounds (decomposeBounds 5 (some 0)) = .ok (0, some 5) ∧
    composeBounds (decomposeBounds 3 (some 1)) ≠ .ok (3, some 1) ∧
    composeBounds (decomposeBounds 5 (some 0)) ≠ .ok (5, some 0) := by decide

/-- outside `usize` (impossible in the crate) the model's `upper()` reports the overflow panic -/
example : ∃ e, composeBounds (decomposeBounds 1 (some usizeLim)) = .error e := ⟨_, rfl⟩

/-! ## (b) the loop equals the structural map -/

variable {A B : Type}

mutual
  /-- the structural map: annotations through `f`, leaves kept, every branch rebuilt from its
  mapped children in order, repetition bounds through `decompose` / `compose` -/
  def smap (f : A → B) : ATok A → P (ATok B)
    | .leaf a l => pure (.leaf (f a) l)
    | .alt a cs => do
      let cs' ← smapList f cs
      pure (.alt (f a) cs')
    | .cat a cs => do
      let cs' ← smapList f cs
      pure (.cat (f a) cs')
    | .rep a b lo hi => do
      let b' ← smap f b
      let p ← composeBounds (decomposeBounds lo hi)
      pure (.rep (f a) b' p.1 p.2)
  def smapList (f : A → B) : List (ATok A) → P (List (ATok B))
    | [] => pure []
    | c :: cs => do
      let c' ← smap f c
      let cs' ← smapList f cs
      pure (c' :: cs')
end

mutual
  /-- the same without the panic channel: bounds reordered by `normBounds` -/
  def pmap (f : A → B) : ATok A → ATok B
    | .leaf a l => .leaf (f a) l
    | .alt a cs => .alt (f a) (pmapList f cs)
    | .cat a cs => .cat (f a) (pmapList f cs)
    | .rep a b lo hi => .rep (f a) (pmap f b) (normBounds lo hi).1 (normBounds lo hi).2
  def pmapList (f : A → B) : List (ATok A) → List (ATok B)
    | [] => []
    | c :: cs => pmap f c :: pmapList f cs
end

theorem pmapList_eq_map (f : A → B) : ∀ cs : List (ATok A), pmapList f cs = cs.map (pmap f)
  | [] => rfl
  | c :: cs => by simp [pmapList, pmapList_eq_map f cs]

mutual
  /-- every repetition's bounds satisfy `p` -/
  def allBounds (p : Nat → Option Nat → Bool) : ATok A → Bool
    | .leaf _ _ => true
    | .alt _ cs => allBoundsList p cs
    | .cat _ cs => allBoundsList p cs
    | .rep _ b lo hi => p lo hi && allBounds p b
  def allBoundsList (p : Nat → Option Nat → Bool) : List (ATok A) → Bool
    | [] => true
    | c :: cs => allBounds p c && allBoundsList p cs
end

/-! ### bind lemmas for `P` -/

@[simp] theorem ok_bind {α β : Type} (a : α) (g : α → P β) : (Except.ok a >>= g) = g a := rfl
@[simp] theorem err_bind {α β : Type} (e : String) (g : α → P β) :
    ((Except.error e : P α) >>= g) = .error e := rfl
@[simp] theorem pure_eq_ok {α : Type} (a : α) : (pure a : P α) = .ok a := rfl

theorem bind_assoc' {α β γ : Type} (x : P α) (g : α → P β) (h : β → P γ) :
    (x >>= g) >>= h = x >>= fun a => g a >>= h := by
  cases x <;> rfl

theorem bind_ok' {α : Type} (x : P α) : (x >>= fun a => Except.ok a) = x := by
  cases x <;> rfl

theorem bind_congr' {α β : Type} (x : P α) (g h : α → P β) (hgh : ∀ a, x = .ok a → g a = h a) :
    (x >>= g) = (x >>= h) := by
  cases x with
  | error e => rfl
  | ok a => exact hgh a rfl

/-! ### `fold_n` -/

theorem pushTok_length (t : ATok B) (bs : List (Frame A B)) :
    (pushTok t bs).length = bs.length := by
  cases bs <;> simp [pushTok]

theorem pushOpt_length (o : Option (ATok B)) (bs : List (Frame A B)) :
    (pushOpt o bs).length = bs.length := by
  cases o <;> simp [pushOpt, pushTok_length]

theorem foldN_zero (f : A → B) (bs : List (Frame A B)) : foldN f 0 bs = .ok bs := by
  simp [foldN]

theorem foldN_nil (f : A → B) (n : Nat) : foldN f n ([] : List (Frame A B)) = .ok [] := by
  cases n <;> simp [foldN]

theorem foldN_single (f : A → B) (n : Nat) (x : Frame A B) : foldN f n [x] = .ok [x] := by
  cases n <;> simp [foldN]

theorem foldN_succ (f : A → B) (n : Nat) (fr p : Frame A B) (r : List (Frame A B)) :
    foldN f (n + 1) (fr :: p :: r) =
      frameFold f fr >>= fun o => foldN f n (pushOpt o (p :: r)) := by
  simp [foldN]

theorem foldN_length (f : A → B) : ∀ (n : Nat) (bs bs' : List (Frame A B)),
    foldN f n bs = .ok bs' → bs'.length = bs.length - min n (bs.length - 1)
  | 0, bs, bs', h => by rw [foldN_zero] at h; cases h; simp
  | n + 1, [], bs', h => by rw [foldN_nil] at h; cases h; simp
  | n + 1, [x], bs', h => by rw [foldN_single] at h; cases h; simp
  | n + 1, fr :: p :: r, bs', h => by
    rw [foldN_succ] at h
    cases ho : frameFold f fr with
    | error e => rw [ho] at h; cases h
    | ok o =>
      rw [ho, ok_bind] at h
      have := foldN_length f n _ bs' h
      rw [pushOpt_length] at this
      simp only [List.length_cons] at this ⊢
      omega

theorem foldN_add (f : A → B) : ∀ (a b : Nat) (bs : List (Frame A B)),
    foldN f (a + b) bs = foldN f a bs >>= foldN f b
  | 0, b, bs => by simp [foldN_zero]
  | a + 1, b, [] => by simp [foldN_nil]
  | a + 1, b, [x] => by simp [foldN_single]
  | a + 1, b, fr :: p :: r => by
    rw [show a + 1 + b = (a + b) + 1 by omega, foldN_succ, foldN_succ, bind_assoc']
    apply bind_congr'
    intro o _
    exact foldN_add f a b _

theorem foldN_sat (f : A → B) (n : Nat) (bs : List (Frame A B)) (h : bs.length - 1 ≤ n) :
    foldN f n bs = foldN f (bs.length - 1) bs := by
  obtain ⟨k, rfl⟩ : ∃ k, n = (bs.length - 1) + k := ⟨n - (bs.length - 1), by omega⟩
  rw [foldN_add]
  cases hc : foldN f (bs.length - 1) bs with
  | error e => rfl
  | ok cs =>
    have hl := foldN_length f _ _ _ hc
    have : cs.length ≤ 1 := by rw [hl]; omega
    match cs, this with
    | [], _ => simp [foldN_nil]
    | [x], _ => simp [foldN_single]

/-- fold the stack down to `d` frames -/
def settle (f : A → B) (d : Nat) (bs : List (Frame A B)) : P (List (Frame A B)) :=
  foldN f (bs.length - d) bs

theorem settle_length (f : A → B) (d : Nat) (bs bs' : List (Frame A B))
    (h1 : 1 ≤ d) (h2 : d ≤ bs.length) (h : settle f d bs = .ok bs') : bs'.length = d := by
  have := foldN_length f _ _ _ h
  omega

theorem settle_settle (f : A → B) (d d' : Nat) (bs : List (Frame A B))
    (h1 : 1 ≤ d) (h2 : d ≤ d') (h3 : d' ≤ bs.length) :
    settle f d' bs >>= settle f d = settle f d bs := by
  cases hc : settle f d' bs with
  | error e =>
    have : settle f d bs = foldN f (bs.length - d') bs >>= foldN f (d' - d) := by
      unfold settle; rw [← foldN_add]; congr 1; omega
    rw [this]
    unfold settle at hc
    rw [hc]
    rfl
  | ok cs =>
    have hl := settle_length f d' bs cs (by omega) h3 hc
    have : settle f d bs = foldN f (bs.length - d') bs >>= foldN f (d' - d) := by
      unfold settle; rw [← foldN_add]; congr 1; omega
    rw [this]
    unfold settle at hc ⊢
    rw [hc, ok_bind, ok_bind, hl]

theorem settle_self (f : A → B) (bs : List (Frame A B)) : settle f bs.length bs = .ok bs := by
  simp [settle, foldN_zero]

theorem pop_eq_settle (f : A → B) (d : Nat) (bs : List (Frame A B)) (h : d ≤ bs.length) :
    pop f d bs = settle f d bs := by
  simp [pop, settle, h]

/-- folding exactly the top frame -/
theorem settle_top (f : A → B) (fr : Frame A B) (bs : List (Frame A B)) (h : 1 ≤ bs.length) :
    settle f bs.length (fr :: bs) = frameFold f fr >>= fun o => .ok (pushOpt o bs) := by
  cases bs with
  | nil => simp at h
  | cons p r =>
    have : (fr :: p :: r).length - (p :: r).length = 0 + 1 := by simp
    unfold settle
    rw [this, foldN_succ]
    simp [foldN_zero]

/-! ### the refinement -/

/-- append tokens at the back of the top frame -/
def pushToks (ts : List (ATok B)) : List (Frame A B) → List (Frame A B)
  | fr :: r => { fr with toks := fr.toks ++ ts } :: r
  | [] => []

theorem pushToks_nil (bs : List (Frame A B)) : pushToks [] bs = bs := by
  cases bs <;> simp [pushToks]

theorem pushToks_pushTok (t : ATok B) (ts : List (ATok B)) (bs : List (Frame A B)) :
    pushToks ts (pushTok t bs) = pushToks (t :: ts) bs := by
  cases bs <;> simp [pushToks, pushTok]

/-- the pending tokens below the current one are at most as deep as the current depth -/
def restOk (d : Nat) : List (ATok A × Nat) → Prop
  | [] => True
  | (_, e) :: _ => 1 ≤ e ∧ e ≤ d

theorem restOk_mono {d d' : Nat} (h : d ≤ d') : ∀ {rest : List (ATok A × Nat)},
    restOk d rest → restOk d' rest
  | [], _ => trivial
  | (_, e) :: _, ⟨h1, h2⟩ => ⟨h1, by omega⟩

/-- what the loop does with the top of the token stack, after `path.pop(depth)` -/
def step (f : A → B) (n : Nat) (t : ATok A) (d : Nat) (toks : List (ATok A × Nat))
    (bs1 : List (Frame A B)) : P (ATok B) :=
  match t with
  | .leaf a l =>
    match bs1 with
    | [] => pure (.leaf (f a) l)
    | fr :: r => run f n toks ({ fr with toks := fr.toks ++ [.leaf (f a) l] } :: r)
  | .alt a cs => run f n ((cs.map fun c => (c, d + 1)) ++ toks) (⟨a, .alt, []⟩ :: bs1)
  | .cat a cs => run f n ((cs.map fun c => (c, d + 1)) ++ toks) (⟨a, .cat, []⟩ :: bs1)
  | .rep a b lo hi => run f n ((b, d + 1) :: toks) (⟨a, .rep (decomposeBounds lo hi), []⟩ :: bs1)

theorem run_cons (f : A → B) (n : Nat) (t : ATok A) (d : Nat) (toks : List (ATok A × Nat))
    (bs : List (Frame A B)) :
    run f (n + 1) ((t, d) :: toks) bs = pop f d bs >>= step f n t d toks := by
  rw [run]
  cases pop f d bs with
  | error e => rfl
  | ok bs1 => cases t <;> rfl

theorem run_nil (f : A → B) (n : Nat) (bs : List (Frame A B)) :
    run f (n + 1) [] bs = finish f bs := by
  rw [run]

/-- the last frame, folded (`branches.pop().and_then(..)` and `expect`) -/
def finish1 (f : A → B) (bs : List (Frame A B)) : P (ATok B) :=
  match bs with
  | fr :: _ =>
    frameFold f fr >>= fun o =>
      match o with
      | some t => pure t
      | none => throw "no tokens in non-empty tree path"
  | [] => throw "no tokens in non-empty tree path"

theorem finish_eq (f : A → B) (bs : List (Frame A B)) :
    finish f bs = settle f 1 bs >>= finish1 f := by
  have hs : settle f 1 bs = foldN f bs.length bs := by
    unfold settle; rw [foldN_sat f bs.length bs (by omega)]
  rw [hs]
  unfold finish
  cases foldN f bs.length bs with
  | error e => rfl
  | ok cs =>
    cases cs with
    | nil => rfl
    | cons fr r =>
      simp only [ok_bind, finish1]
      cases frameFold f fr with
      | error e => rfl
      | ok o => cases o <;> rfl

/-- **laziness does not matter**: the branches above depth `d` may be folded before the loop goes
on, when the next pending token is at most that deep -/
theorem run_settle (f : A → B) (k d : Nat) (rest : List (ATok A × Nat)) (bs : List (Frame A B))
    (h1 : 1 ≤ d) (h2 : d ≤ bs.length) (hr : restOk d rest) :
    run f (k + 1) rest bs = settle f d bs >>= run f (k + 1) rest := by
  cases rest with
  | nil =>
    rw [run_nil, finish_eq, ← settle_settle f 1 d bs (by omega) h1 h2, bind_assoc']
    apply bind_congr'
    intro bs' _
    rw [run_nil, finish_eq]
  | cons x rest' =>
    obtain ⟨t, e⟩ := x
    obtain ⟨he1, he2⟩ := hr
    rw [run_cons, pop_eq_settle f e bs (by omega), ← settle_settle f e d bs he1 he2 h2, bind_assoc']
    apply bind_congr'
    intro bs' hbs'
    have hl := settle_length f d bs bs' h1 h2 hbs'
    rw [run_cons, pop_eq_settle f e bs' (by omega)]

theorem smapList_append_single (f : A → B) (b : ATok A) :
    smapList f [b] = smap f b >>= fun b' => .ok [b'] := by
  simp only [smapList]
  cases smap f b <;> rfl

/-- what processing one token (with its whole subtree) does to the machine -/
def PropA (f : A → B) (t : ATok A) : Prop :=
  ∀ (d : Nat) (rest : List (ATok A × Nat)) (bs : List (Frame A B)) (k : Nat),
    1 ≤ d → d ≤ bs.length → restOk d rest →
    run f (nodes t + (k + 1)) ((t, d) :: rest) bs =
      settle f d bs >>= fun bs1 => smap f t >>= fun t' => run f (k + 1) rest (pushTok t' bs1)

/-- the same for a list of siblings -/
def PropL (f : A → B) (xs : List (ATok A)) : Prop :=
  ∀ (e : Nat) (rest : List (ATok A × Nat)) (bs : List (Frame A B)) (k : Nat),
    1 ≤ e → e ≤ bs.length → restOk e rest →
    run f (nodesList xs + (k + 1)) ((xs.map fun c => (c, e)) ++ rest) bs =
      settle f e bs >>= fun bs1 => smapList f xs >>= fun xs' => run f (k + 1) rest (pushToks xs' bs1)

theorem propL_nil (f : A → B) : PropL f ([] : List (ATok A)) := by
  intro e rest bs k h1 h2 hr
  simp only [nodesList, Nat.zero_add, List.map_nil, List.nil_append, smapList, pure_eq_ok, ok_bind,
    pushToks_nil]
  exact run_settle f k e rest bs h1 h2 hr

theorem propL_cons (f : A → B) (x : ATok A) (xs : List (ATok A)) (hx : PropA f x)
    (hxs : PropL f xs) : PropL f (x :: xs) := by
  intro e rest bs k h1 h2 hr
  have hr' : restOk e ((xs.map fun c => (c, e)) ++ rest) := by
    cases xs with
    | nil => simpa using hr
    | cons y ys => exact ⟨h1, Nat.le_refl _⟩
  have hn : nodesList (x :: xs) + (k + 1) = nodes x + ((nodesList xs + k) + 1) := by
    simp only [nodesList]; omega
  rw [hn]
  simp only [List.map_cons, List.cons_append]
  rw [hx e _ bs (nodesList xs + k) h1 h2 hr']
  apply bind_congr'
  intro bs1 hbs1
  have hl := settle_length f e bs bs1 h1 h2 hbs1
  simp only [smapList, bind_assoc', pure_eq_ok, ok_bind]
  apply bind_congr'
  intro x' _
  have hl' : (pushTok x' bs1).length = e := by rw [pushTok_length, hl]
  rw [show nodesList xs + k + 1 = nodesList xs + (k + 1) by omega,
    hxs e rest (pushTok x' bs1) k h1 (by omega) hr]
  have hself := settle_self f (pushTok x' bs1)
  rw [hl'] at hself
  rw [hself, ok_bind]
  apply bind_congr'
  intro xs' _
  rw [pushToks_pushTok]

/-- a branch whose frame folds to `mk cs'`: children pushed, processed, frame folded -/
theorem propA_branch (f : A → B) (t : ATok A) (a : A) (bf : BF) (cs : List (ATok A))
    (hnodes : nodes t = nodesList cs + 1)
    (hstep : ∀ n d toks bs1, step f n t d toks bs1 =
      run f n ((cs.map fun c => (c, d + 1)) ++ toks) (⟨a, bf, []⟩ :: bs1))
    (hsmap : smap f t = smapList f cs >>= fun cs' =>
      frameFold f ⟨a, bf, cs'⟩ >>= fun o => match o with
        | some t' => .ok t'
        | none => .error "unreachable")
    (hsome : ∀ cs' o, smapList f cs = .ok cs' → frameFold f ⟨a, bf, cs'⟩ = .ok o → o ≠ none)
    (hcs : PropL f cs) : PropA f t := by
  intro d rest bs k h1 h2 hr
  rw [show nodes t + (k + 1) = (nodesList cs + (k + 1)) + 1 by omega, run_cons,
    pop_eq_settle f d bs h2]
  apply bind_congr'
  intro bs1 hbs1
  have hl := settle_length f d bs bs1 h1 h2 hbs1
  rw [hstep]
  have hlen : ((⟨a, bf, []⟩ : Frame A B) :: bs1).length = d + 1 := by simp [hl]
  rw [hcs (d + 1) rest (⟨a, bf, []⟩ :: bs1) k (by omega) (by omega) (restOk_mono (by omega) hr)]
  have hself := settle_self f ((⟨a, bf, []⟩ : Frame A B) :: bs1)
  rw [hlen] at hself
  rw [hself, ok_bind, hsmap, bind_assoc']
  apply bind_congr'
  intro cs' hcs'
  simp only [pushToks, List.nil_append]
  rw [run_settle f k d rest (⟨a, bf, cs'⟩ :: bs1) h1 (by simp [hl]) hr]
  have htop := settle_top f ⟨a, bf, cs'⟩ bs1 (by omega)
  rw [hl] at htop
  rw [htop, bind_assoc', bind_assoc']
  apply bind_congr'
  intro o ho
  cases o with
  | none => exact absurd rfl (hsome cs' none hcs' ho)
  | some t' => simp [pushOpt]

theorem propA_leaf (f : A → B) (a : A) (l : Leaf) : PropA f (.leaf a l) := by
  intro d rest bs k h1 h2 hr
  rw [show nodes (ATok.leaf a l) + (k + 1) = (k + 1) + 1 by simp [nodes]; omega, run_cons,
    pop_eq_settle f d bs h2]
  apply bind_congr'
  intro bs1 hbs1
  have hl := settle_length f d bs bs1 h1 h2 hbs1
  cases bs1 with
  | nil => simp at hl; omega
  | cons fr r => simp [step, smap, pushTok]

mutual
  theorem propA_all (f : A → B) : ∀ t : ATok A, PropA f t
    | .leaf a l => propA_leaf f a l
    | .alt a cs =>
      propA_branch f (.alt a cs) a .alt cs (by simp [nodes]; omega) (fun _ _ _ _ => rfl)
        (by
          simp only [smap, frameFold, BF.fold, pure_eq_ok, ok_bind])
        (by
          intro cs' o _ h
          simp only [frameFold, BF.fold, pure_eq_ok] at h
          cases h; simp)
        (propL_all f cs)
    | .cat a cs =>
      propA_branch f (.cat a cs) a .cat cs (by simp [nodes]; omega) (fun _ _ _ _ => rfl)
        (by
          simp only [smap, frameFold, BF.fold, pure_eq_ok, ok_bind])
        (by
          intro cs' o _ h
          simp only [frameFold, BF.fold, pure_eq_ok] at h
          cases h; simp)
        (propL_all f cs)
    | .rep a b lo hi =>
      propA_branch f (.rep a b lo hi) a (.rep (decomposeBounds lo hi)) [b]
        (by simp [nodes, nodesList]; omega) (fun _ _ _ _ => rfl)
        (by
          rw [smapList_append_single, bind_assoc']
          simp only [smap]
          apply bind_congr'
          intro b' _
          simp only [ok_bind, frameFold, BF.fold]
          cases composeBounds (decomposeBounds lo hi) <;> rfl)
        (by
          intro cs' o h1 h
          rw [smapList_append_single] at h1
          cases hb : smap f b with
          | error e => rw [hb] at h1; cases h1
          | ok b' =>
            rw [hb] at h1
            cases h1
            simp only [frameFold, BF.fold] at h
            cases hc : composeBounds (decomposeBounds lo hi) with
            | error e => rw [hc] at h; cases h
            | ok p => rw [hc] at h; cases h; simp)
        (propL_cons f b [] (propA_all f b) (propL_nil f))
  theorem propL_all (f : A → B) : ∀ cs : List (ATok A), PropL f cs
    | [] => propL_nil f
    | c :: cs => propL_cons f c cs (propA_all f c) (propL_all f cs)
end

/-- **(b) the loop computes the structural map**, for every tree and every `f`: children are
neither dropped nor reordered, and the loop panics exactly when the structural map does (only
through `upper_from_lower_extent`, never through the final `expect`, never out of fuel) -/
theorem foldMap_machine_eq (f : A → B) (t : ATok A) : foldMap f t = smap f t := by
  unfold foldMap
  -- the root has no frame below it, so it is handled like `propA_branch` with an empty path
  have root : ∀ (a : A) (bf : BF) (cs : List (ATok A)),
      nodes t = nodesList cs + 1 →
      (∀ n d toks bs1, step f n t d toks bs1 =
        run f n ((cs.map fun c => (c, d + 1)) ++ toks) (⟨a, bf, []⟩ :: bs1)) →
      (smap f t = smapList f cs >>= fun cs' =>
        frameFold f ⟨a, bf, cs'⟩ >>= fun o => match o with
          | some t' => .ok t'
          | none => .error "unreachable") →
      (∀ cs' o, smapList f cs = .ok cs' → frameFold f ⟨a, bf, cs'⟩ = .ok o → o ≠ none) →
      run f (nodes t + 1) [(t, 0)] [] = smap f t := by
    intro a bf cs hnodes hstep hsmap hsome
    rw [show nodes t + 1 = (nodesList cs + (0 + 1)) + 1 by omega, run_cons]
    have hpop : pop f 0 ([] : List (Frame A B)) = .ok [] := by simp [pop, foldN_zero]
    rw [hpop, ok_bind, hstep]
    have := propL_all f cs 1 [] [⟨a, bf, []⟩] 0 (by omega) (by simp) trivial
    simp only [List.append_nil] at this ⊢
    rw [this]
    have hself := settle_self f [(⟨a, bf, []⟩ : Frame A B)]
    simp only [List.length_cons, List.length_nil, Nat.zero_add] at hself
    rw [hself, ok_bind, hsmap]
    apply bind_congr'
    intro cs' hcs'
    simp only [pushToks, List.nil_append]
    rw [run_nil, finish_eq]
    have hself' := settle_self f [(⟨a, bf, cs'⟩ : Frame A B)]
    simp only [List.length_cons, List.length_nil, Nat.zero_add] at hself'
    rw [hself', ok_bind, finish1]
    apply bind_congr'
    intro o ho
    cases o with
    | none => exact absurd rfl (hsome cs' none hcs' ho)
    | some t' => rfl
  cases t with
  | leaf a l => simp [nodes, run_cons, pop, foldN_zero, step, smap]
  | alt a cs =>
    exact root a .alt cs (by simp [nodes]; omega) (fun _ _ _ _ => rfl)
      (by simp only [smap, frameFold, BF.fold, pure_eq_ok, ok_bind])
      (by
        intro cs' o _ h
        simp only [frameFold, BF.fold, pure_eq_ok] at h
        cases h; simp)
  | cat a cs =>
    exact root a .cat cs (by simp [nodes]; omega) (fun _ _ _ _ => rfl)
      (by simp only [smap, frameFold, BF.fold, pure_eq_ok, ok_bind])
      (by
        intro cs' o _ h
        simp only [frameFold, BF.fold, pure_eq_ok] at h
        cases h; simp)
  | rep a b lo hi =>
    exact root a (.rep (decomposeBounds lo hi)) [b]
      (by simp [nodes, nodesList]; omega) (fun _ _ _ _ => rfl)
      (by
        rw [smapList_append_single, bind_assoc']
        simp only [smap]
        apply bind_congr'
        intro b' _
        simp only [ok_bind, frameFold, BF.fold]
        cases composeBounds (decomposeBounds lo hi) <;> rfl)
      (by
        intro cs' o h1 h
        rw [smapList_append_single] at h1
        cases hb : smap f b with
        | error e => rw [hb] at h1; cases h1
        | ok b' =>
          rw [hb] at h1
          cases h1
          simp only [frameFold, BF.fold] at h
          cases hc : composeBounds (decomposeBounds lo hi) with
          | error e => rw [hc] at h; cases h
          | ok p => rw [hc] at h; cases h; simp)


/-! ## (c) mapping with the identity -/

mutual
  theorem smap_eq_pmap (f : A → B) : ∀ t : ATok A, allBounds fitsUsize t = true →
      smap f t = .ok (pmap f t)
    | .leaf a l, _ => rfl
    | .alt a cs, h => by
      simp only [allBounds] at h
      simp only [smap, pmap, smapList_eq_pmapList f cs h, ok_bind, pure_eq_ok]
    | .cat a cs, h => by
      simp only [allBounds] at h
      simp only [smap, pmap, smapList_eq_pmapList f cs h, ok_bind, pure_eq_ok]
    | .rep a b lo hi, h => by
      simp only [allBounds, Bool.and_eq_true] at h
      simp only [smap, pmap, smap_eq_pmap f b h.2, compose_decompose_norm lo hi h.1, ok_bind,
        pure_eq_ok]
  theorem smapList_eq_pmapList (f : A → B) : ∀ cs : List (ATok A), allBoundsList fitsUsize cs = true →
      smapList f cs = .ok (pmapList f cs)
    | [], _ => rfl
    | c :: cs, h => by
      simp only [allBoundsList, Bool.and_eq_true] at h
      simp only [smapList, pmapList, smap_eq_pmap f c h.1, smapList_eq_pmapList f cs h.2, ok_bind,
        pure_eq_ok]
end

/-- the loop as a total function: for trees whose bounds are `usize` values (all trees of the
crate) `fold_map` does not panic and is the plain structural map; only the bounds of a repetition
are touched (`normBounds`), children are neither dropped nor reordered -/
theorem foldMap_eq_pmap (f : A → B) (t : ATok A) (hf : allBounds fitsUsize t = true) :
    foldMap f t = .ok (pmap f t) := by
  rw [foldMap_machine_eq, smap_eq_pmap f t hf]

theorem normBounds_ordered (lo : Nat) (hi : Option Nat) :
    normBounds lo hi = (lo, hi) ↔ ordered lo hi = true := by
  cases hi with
  | none => simp [normBounds, ordered]
  | some u =>
    by_cases hgt : lo > u
    · have hne : ¬ lo ≤ u := by omega
      simp only [normBounds, hgt, if_true, ordered, decide_eq_true_eq, hne, iff_false]
      intro heq
      injection heq with h1 h2
      omega
    · have : lo ≤ u := by omega
      simp [normBounds, hgt, ordered, this]

mutual
  theorem pmap_id_iff : ∀ t : ATok A, pmap id t = t ↔ allBounds ordered t = true
    | .leaf a l => by simp [pmap, allBounds]
    | .alt a cs => by simp [pmap, allBounds, pmapList_id_iff cs]
    | .cat a cs => by simp [pmap, allBounds, pmapList_id_iff cs]
    | .rep a b lo hi => by
      simp only [pmap, allBounds, id, Bool.and_eq_true, ← pmap_id_iff b, ← normBounds_ordered,
        ATok.rep.injEq, true_and]
      constructor
      · rintro ⟨h1, h2, h3⟩
        exact ⟨Prod.ext h2 h3, h1⟩
      · rintro ⟨h1, h2⟩
        rw [h1]
        exact ⟨h2, rfl, rfl⟩
  theorem pmapList_id_iff : ∀ cs : List (ATok A), pmapList id cs = cs ↔ allBoundsList ordered cs = true
    | [] => by simp [pmapList, allBoundsList]
    | c :: cs => by
      simp [pmapList, allBoundsList, pmap_id_iff c, pmapList_id_iff cs]
end

/-- **(c)** `fold_map` with the identity (this is `Token::into_owned`) returns the tree itself
when every repetition's bounds are ordered -/
theorem foldMap_id (t : ATok A) (hf : allBounds fitsUsize t = true)
    (ho : allBounds ordered t = true) : foldMap id t = .ok t := by
  rw [foldMap_eq_pmap id t hf, (pmap_id_iff t).mpr ho]

/-- ... and only then: the exact domain -/
theorem foldMap_id_iff (t : ATok A) (hf : allBounds fitsUsize t = true) :
    foldMap id t = .ok t ↔ allBounds ordered t = true := by
  rw [foldMap_eq_pmap id t hf, ← pmap_id_iff t]
  constructor
  · intro h; injection h
  · intro h; rw [h]

theorem normBounds_idem (lo : Nat) (hi : Option Nat) :
    normBounds (normBounds lo hi).1 (normBounds lo hi).2 = normBounds lo hi := by
  cases hi with
  | none => rfl
  | some u =>
    by_cases hgt : lo > u
    · have : ¬ u > lo := by omega
      simp [normBounds, hgt, this]
    · simp [normBounds, hgt]

mutual
  /-- functor law: two maps in a row are one map (the bounds are normalised once) -/
  theorem pmap_comp {C : Type} (f : A → B) (g : B → C) : ∀ t : ATok A,
      pmap g (pmap f t) = pmap (g ∘ f) t
    | .leaf a l => rfl
    | .alt a cs => by simp [pmap, pmapList_comp f g cs]
    | .cat a cs => by simp [pmap, pmapList_comp f g cs]
    | .rep a b lo hi => by simp [pmap, pmap_comp f g b, normBounds_idem]
  theorem pmapList_comp {C : Type} (f : A → B) (g : B → C) : ∀ cs : List (ATok A),
      pmapList g (pmapList f cs) = pmapList (g ∘ f) cs
    | [] => rfl
    | c :: cs => by simp [pmapList, pmap_comp f g c, pmapList_comp f g cs]
end

/-- `fold_map` changes annotations only: the tree without its annotations (what `token::any`
keeps, `fold_map(|_| ())`) is the same before and after any `fold_map(f)` -/
theorem foldMap_shape (f : A → B) (t : ATok A) (hf : allBounds fitsUsize t = true) :
    (foldMap f t).map (pmap fun _ => ()) = .ok (pmap (fun _ => ()) t) := by
  rw [foldMap_eq_pmap f t hf]
  simp only [Except.map, pmap_comp]

mutual
  theorem allBounds_mono {p q : Nat → Option Nat → Bool} (hpq : ∀ lo hi, p lo hi = true → q lo hi = true) :
      ∀ t : ATok A, allBounds p t = true → allBounds q t = true
    | .leaf _ _, _ => rfl
    | .alt _ cs, h => by simp only [allBounds] at h ⊢; exact allBoundsList_mono hpq cs h
    | .cat _ cs, h => by simp only [allBounds] at h ⊢; exact allBoundsList_mono hpq cs h
    | .rep _ b lo hi, h => by
      simp only [allBounds, Bool.and_eq_true] at h ⊢
      exact ⟨hpq lo hi h.1, allBounds_mono hpq b h.2⟩
  theorem allBoundsList_mono {p q : Nat → Option Nat → Bool}
      (hpq : ∀ lo hi, p lo hi = true → q lo hi = true) :
      ∀ cs : List (ATok A), allBoundsList p cs = true → allBoundsList q cs = true
    | [], _ => rfl
    | c :: cs, h => by
      simp only [allBoundsList, Bool.and_eq_true] at h ⊢
      exact ⟨allBounds_mono hpq c h.1, allBoundsList_mono hpq cs h.2⟩
end

/-- for every tree that the rule checker accepts (bounds `boundsOk` at every repetition) -/
theorem foldMap_id_of_boundsOk (t : ATok A) (hf : allBounds fitsUsize t = true)
    (hb : allBounds boundsOk t = true) : foldMap id t = .ok t :=
  foldMap_id t hf (allBounds_mono boundsOk_ordered t hb)

/-! ### on the parser's trees -/

mutual
  theorem toTok_ofTok : ∀ t : Tok, toTok (ofTok t) = t
    | .lit .. | .sep .. | .cls .. | .one .. | .zom .. | .tree .. => rfl
    | .alt sp bs => by simp [ofTok, toTok, toToks_ofToks bs]
    | .cat sp ts => by simp [ofTok, toTok, toToks_ofToks ts]
    | .rep sp b lo hi => by simp [ofTok, toTok, toTok_ofTok b]
  theorem toToks_ofToks : ∀ ts : List Tok, toToks (ofToks ts) = ts
    | [] => rfl
    | t :: ts => by simp [ofToks, toToks, toTok_ofTok t, toToks_ofToks ts]
end

mutual
  /-- every repetition's bounds satisfy `p` -/
  def tokBounds (p : Nat → Option Nat → Bool) : Tok → Bool
    | .alt _ cs => tokBoundsList p cs
    | .cat _ cs => tokBoundsList p cs
    | .rep _ b lo hi => p lo hi && tokBounds p b
    | _ => true
  def tokBoundsList (p : Nat → Option Nat → Bool) : List Tok → Bool
    | [] => true
    | c :: cs => tokBounds p c && tokBoundsList p cs
end

mutual
  theorem allBounds_ofTok (p : Nat → Option Nat → Bool) : ∀ t : Tok,
      allBounds p (ofTok t) = tokBounds p t
    | .lit .. | .sep .. | .cls .. | .one .. | .zom .. | .tree .. => rfl
    | .alt sp bs => by simp [ofTok, allBounds, tokBounds, allBoundsList_ofToks p bs]
    | .cat sp ts => by simp [ofTok, allBounds, tokBounds, allBoundsList_ofToks p ts]
    | .rep sp b lo hi => by simp [ofTok, allBounds, tokBounds, allBounds_ofTok p b]
  theorem allBoundsList_ofToks (p : Nat → Option Nat → Bool) : ∀ ts : List Tok,
      allBoundsList p (ofToks ts) = tokBoundsList p ts
    | [] => rfl
    | t :: ts => by
      simp [ofToks, allBoundsList, tokBoundsList, allBounds_ofTok p t, allBoundsList_ofToks p ts]
end

/-- **C19 on `Tok`**: `fold_map` with the identity (`into_owned`) gives back the parsed tree -/
theorem foldMap_id_tok (t : Tok) (hf : tokBounds fitsUsize t = true)
    (hb : tokBounds boundsOk t = true) :
    (foldMap id (ofTok t)).map toTok = .ok t := by
  rw [foldMap_id_of_boundsOk (ofTok t) (by rw [allBounds_ofTok, hf]) (by rw [allBounds_ofTok, hb])]
  simp [Except.map, toTok_ofTok]

/-! ### non-vacuity: `{a,<b*:0,2>,<{c,d}:1,>}` -/

/-- `{a,<b*:0,2>,<{c,d}:1,>}` as parsed (nested alternation and repetitions) -/
def exTree : ATok Span :=
  .cat ⟨0, 23⟩ [.alt ⟨0, 23⟩ [
    .cat ⟨1, 1⟩ [.leaf ⟨1, 1⟩ (.lit ['a'] false)],
    .cat ⟨3, 8⟩ [.rep ⟨3, 8⟩ (.cat ⟨4, 2⟩ [.leaf ⟨4, 1⟩ (.lit ['b'] false), .leaf ⟨5, 1⟩ (.zom false)])
      0 (some 2)],
    .cat ⟨12, 10⟩ [.rep ⟨12, 10⟩ (.cat ⟨13, 5⟩ [.alt ⟨13, 5⟩ [
        .cat ⟨14, 1⟩ [.leaf ⟨14, 1⟩ (.lit ['c'] false)],
        .cat ⟨16, 1⟩ [.leaf ⟨16, 1⟩ (.lit ['d'] false)]]])
      1 none]]]

example : allBounds fitsUsize exTree = true ∧ allBounds boundsOk exTree = true := by decide

example : foldMap id exTree = .ok exTree :=
  foldMap_id_of_boundsOk exTree (by decide) (by decide)

/-- the machine really runs (kernel evaluation of the loop itself, without the theorems) -/
example : foldMap id exTree = .ok exTree := by rfl

example : foldMap (fun _ => ()) exTree = .ok (pmap (fun _ => ()) exTree) :=
  foldMap_eq_pmap _ exTree (by decide)

/-- outside the domain: unordered bounds (rejected by the rule checker) come back swapped, so
`fold_map` with the identity is not the identity there -/
def exBad : ATok Unit := .cat () [.rep () (.leaf () (.lit ['a'] false)) 3 (some 1)]

theorem foldMap_id_unordered :
    foldMap id exBad = .ok (.cat () [.rep () (.leaf () (.lit ['a'] false)) 1 (some 3)]) ∧
    foldMap id exBad ≠ .ok exBad := by
  refine ⟨rfl, ?_⟩
  rw [Ne, foldMap_id_iff exBad (by decide)]
  decide

end Wax.FoldMap
