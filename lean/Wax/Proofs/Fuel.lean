import Wax.Proofs.Spans
/-!
C05 / soundness of the parser model: the fuel `4 * length + 8` that `parse` hands to the mutually
recursive grammar is always enough — more fuel never changes the result, so running out of fuel is
never the reason for a failure or for the choice of an alternative.
-/
set_option linter.unusedSimpArgs false
namespace Wax

def Input.len (i : Input) : Nat := i.rest.length

theorem ulen_replicate (n : Nat) : ulen (List.replicate n 'a') = n := by
  induction n with
  | zero => rfl
  | succ n ih =>
    have h1 : ('a' : Char).utf8Size = 1 := by decide
    simp only [List.replicate_succ, ulen, List.map_cons, List.sum_cons, h1] at ih ⊢
    omega

/-- every parser state is well-formed with respect to *some* expression -/
theorem wf_some (i : Input) : WF (List.replicate i.loc 'a' ++ i.rest) i :=
  ⟨List.replicate i.loc 'a', rfl, (ulen_replicate _).symm⟩

theorem Adv.len_le {i j : Input} (h : Adv i j) : j.len ≤ i.len := by
  obtain ⟨mid, hr, _⟩ := h
  simp only [Input.len, hr, List.length_append]; omega

theorem Adv.len_lt {i j : Input} (h : Adv i j) (hne : (j.loc == i.loc) = false) : j.len < i.len := by
  obtain ⟨mid, hr, hl⟩ := h
  have hm : mid ≠ [] := by
    intro e; subst e
    simp [ulen] at hl
    simp [hl] at hne
  simp only [Input.len, hr, List.length_append]
  have : 0 < mid.length := List.length_pos_iff.mpr hm
  omega

theorem tag_len1 {i j : Input} {t : String} {a : Char} (ht : t.toList = [a]) (h : i.tag t = some j) :
    j.len + 1 = i.len := by
  unfold Input.tag at h
  dsimp only at h
  rw [ht] at h
  split at h
  · rename_i hp
    injection h with h; subst h
    cases hr : i.rest with
    | nil => simp [hr, List.isPrefixOf] at hp
    | cons c cs => simp [Input.len, Input.adv, hr]
  · cases h

theorem token_Adv {fuel : Nat} {t : Term} {i j : Input} {tok : Tok}
    (h : parseToken fuel t i = some (tok, j)) : Adv i j :=
  ((inv_all _ fuel).token t i tok j h (wf_some i)).1

theorem glob_Adv {fuel : Nat} {t : Term} {i j : Input} {tok : Tok}
    (h : parseGlob fuel t i = some (tok, j)) : Adv i j :=
  ((inv_all _ fuel).glob t i tok j h (wf_some i)).1

structure FE (fuel : Nat) : Prop where
  glob : ∀ t i, 4 * i.len + 4 ≤ fuel → parseGlob (fuel + 1) t i = parseGlob fuel t i
  tokens : ∀ t i acc, 4 * i.len + 3 ≤ fuel → parseTokens (fuel + 1) t i acc = parseTokens fuel t i acc
  token : ∀ t i, 4 * i.len + 2 ≤ fuel → parseToken (fuel + 1) t i = parseToken fuel t i
  rep : ∀ i, 4 * i.len + 1 ≤ fuel → parseRepetition (fuel + 1) i = parseRepetition fuel i
  alt : ∀ i, 4 * i.len + 1 ≤ fuel → parseAlternation (fuel + 1) i = parseAlternation fuel i
  branches : ∀ i acc, 4 * i.len + 1 ≤ fuel → parseBranches (fuel + 1) i acc = parseBranches fuel i acc

theorem fe_zero : FE 0 where
  glob := by intro t i h; omega
  tokens := by intro t i acc h; omega
  token := by intro t i h; omega
  rep := by intro i h; omega
  alt := by intro i h; omega
  branches := by intro i acc h; omega

theorem fe_succ (fuel : Nat) (ih : FE fuel) : FE (fuel + 1) where
  glob := by
    intro t i0 h
    conv => lhs; rw [parseGlob]
    conv => rhs; rw [parseGlob]
    dsimp only
    rw [ih.tokens t { i0 with sub := i0.loc } [] (by simp only [Input.len] at h ⊢; omega)]
  tokens := by
    intro t i acc h
    conv => lhs; rw [parseTokens]
    conv => rhs; rw [parseTokens]
    rw [ih.token t i (by omega)]
    cases hk : parseToken fuel t i with
    | none => rfl
    | some r =>
      obtain ⟨tok, j⟩ := r
      dsimp only
      cases hl : (j.loc == i.loc) with
      | true => rfl
      | false =>
        have := (token_Adv hk).len_lt hl
        simp only [Bool.false_eq_true, ↓reduceIte]
        exact ih.tokens t j _ (by omega)
  token := by
    intro t i h
    have hf : (flagsS i).len ≤ i.len := (flags_Adv true _ i).len_le
    conv => lhs; rw [parseToken]
    conv => rhs; rw [parseToken]
    dsimp only
    rw [ih.rep (flagsS i) (by omega), ih.alt (flagsS i) (by omega)]
  rep := by
    intro i h
    conv => lhs; rw [parseRepetition]
    conv => rhs; rw [parseRepetition]
    cases hj : i.tag "<" with
    | none => rfl
    | some j =>
      have := tag_len1 (a := '<') (by decide) hj
      dsimp only
      rw [ih.glob .repT j (by omega)]
  alt := by
    intro i h
    conv => lhs; rw [parseAlternation]
    conv => rhs; rw [parseAlternation]
    cases hj : i.tag "{" with
    | none => rfl
    | some j =>
      have hjl := tag_len1 (a := '{') (by decide) hj
      dsimp only
      rw [ih.glob .altT j (by omega)]
      cases hg : parseGlob fuel .altT j with
      | none => rfl
      | some r =>
        obtain ⟨b, k⟩ := r
        have := (glob_Adv hg).len_le
        dsimp only
        rw [ih.branches k [b] (by omega)]
  branches := by
    intro i acc h
    conv => lhs; rw [parseBranches]
    conv => rhs; rw [parseBranches]
    cases hj : i.tag "," with
    | none => rfl
    | some j =>
      have hjl := tag_len1 (a := ',') (by decide) hj
      dsimp only
      rw [ih.glob .altT j (by omega)]
      cases hg : parseGlob fuel .altT j with
      | none => rfl
      | some r =>
        obtain ⟨b, k⟩ := r
        have := (glob_Adv hg).len_le
        dsimp only
        exact ih.branches k _ (by omega)

theorem fe_all : ∀ fuel, FE fuel
  | 0 => fe_zero
  | n + 1 => fe_succ n (fe_all n)

/-- more fuel than `4 * length + 3` never changes what the token loop returns -/
theorem parseTokens_fuel_enough (t : Term) (i : Input) (acc : List Tok) (fuel : Nat)
    (h : 4 * i.len + 3 ≤ fuel) : ∀ k, parseTokens (fuel + k) t i acc = parseTokens fuel t i acc
  | 0 => rfl
  | k + 1 => by
    rw [← Nat.add_assoc, (fe_all (fuel + k)).tokens t i acc (by omega)]
    exact parseTokens_fuel_enough t i acc fuel h k

/-- `parse` with the fuel as a parameter -/
def parseF (fuel : Nat) (e : Str) : ParseResult :=
  if e.isEmpty then .ok (.lit ⟨0, 0⟩ [] false) else
  let i : Input := { rest := e, loc := 0, ci := false, sub := 0 }
  let i := { i with sub := i.loc }
  match parseTokens fuel .eof i [] with
  | none => .err []
  | some (toks, j) =>
    if toks.isEmpty then .err [(flagsS i).loc, 0, 0, 0]
    else if j.rest.isEmpty then .ok (.cat ⟨0, j.loc⟩ toks)
    else .err [j.loc]

theorem parse_eq_parseF (e : Str) : parse e = parseF (4 * e.length + 8) e := rfl

/-- **the parser's fuel is always enough**: for every expression, giving the grammar any amount of
fuel beyond `4 * length + 8` yields the same result (tree or error) as `parse` -/
theorem parse_fuel_enough (e : Str) (k : Nat) : parseF (4 * e.length + 8 + k) e = parse e := by
  rw [parse_eq_parseF]
  unfold parseF
  split
  · rfl
  · dsimp only
    rw [parseTokens_fuel_enough .eof _ [] (4 * e.length + 8) (by simp [Input.len]) k]

end Wax
