import Wax.Proofs.Escape
import Wax.Proofs.RuleEquiv
import Wax.Proofs.DepthTree
import Wax.Proofs.Spans
import Wax.Proofs.RuleSpans
/-! C18, rule half: the tokens an escaped text parses to pass `rule::check` exactly when the text
has no two adjacent separators and is shorter than the invariant-size limit.  Together with
`parse_escape` (the text parses) and `escape_matches_exactly` (the program matches the text and
nothing else) this closes the property "the escaped text BUILDS". -/
set_option linter.unusedSimpArgs false
set_option linter.unusedVariables false
namespace Wax

/- `noDoubleSep` (no `//` in the text) is the one of `Proofs/DepthTree.lean` (`canonicalPath`) -/

def headSlash : Str → Bool
  | c :: _ => c == '/'
  | [] => false

def headSepT : List Tok → Bool
  | t :: _ => t.isBoundaryT
  | [] => false

/-! ### small facts about the text -/

theorem noDoubleSep_cons (a : Char) (r : Str) :
    noDoubleSep (a :: r) = (!(a == '/' && headSlash r) && noDoubleSep r) := by
  cases r with
  | nil => simp [noDoubleSep, headSlash]
  | cons b r => simp [noDoubleSep, headSlash]

theorem noDoubleSep_chunk : ∀ (w s : Str), Chunk w → noDoubleSep (w ++ s) = noDoubleSep s
  | [], s, _ => rfl
  | c :: w, s, h => by
    have hc : (c == '/') = false := by simpa using (h c (by simp)).1
    rw [List.cons_append, noDoubleSep_cons, hc]
    simpa using noDoubleSep_chunk w s (fun d hd => h d (by simp [hd]))

theorem headSlash_chunk (w s : Str) (hne : w ≠ []) (h : Chunk w) : headSlash (w ++ s) = false := by
  cases w with
  | nil => exact absurd rfl hne
  | cons c w => simpa [headSlash] using (h c (by simp)).1

theorem noAdjBoundary_cons (a : Tok) (r : List Tok) :
    noAdjBoundary (a :: r) = (!(a.isBoundaryT && headSepT r) && noAdjBoundary r) := by
  cases r with
  | nil => simp [noAdjBoundary, headSepT]
  | cons b r => simp [noAdjBoundary, headSepT]

theorem utf8Len_eq_ulen : ∀ (s : Str), utf8Len s = ulen s
  | [] => rfl
  | c :: s => by rw [utf8Len, ulen_cons, utf8Len_eq_ulen s]

theorem ulen_slash (s : Str) : ulen ('/' :: s) = 1 + ulen s := by
  rw [ulen_cons]; rfl

/-! ### what `Spells` says about the token list -/

theorem spells_head {loc : Nat} {toks : List Tok} {s : Str} (h : Spells loc toks s) :
    headSepT toks = headSlash s := by
  cases h with
  | nil => rfl
  | lit loc w ts s hne hch _ _ =>
    rw [headSlash_chunk w s hne hch]; rfl
  | sep loc ts s _ => rfl

/-- adjacent separators in the token list are exactly the `//` of the text -/
theorem spells_noAdj {loc : Nat} {toks : List Tok} {s : Str} (h : Spells loc toks s) :
    noAdjBoundary toks = noDoubleSep s := by
  induction h with
  | nil => rfl
  | lit loc w ts s hne hch _ _ ih =>
    rw [noAdjBoundary_cons, noDoubleSep_chunk w s hch, ih]
    simp [Tok.isBoundaryT]
  | sep loc ts s hs ih =>
    rw [noAdjBoundary_cons, noDoubleSep_cons, ih, spells_head hs]
    simp [Tok.isBoundaryT]

/-- the branch rules have nothing to look at in a flat list of literals and separators -/
theorem spells_okSeq {loc : Nat} {toks : List Tok} {s : Str} (h : Spells loc toks s) :
    ∀ (inh : Outer) (prev : Option Tok), okSeq inh prev toks = true := by
  induction h with
  | nil => intro inh prev; simp [okSeq]
  | lit loc w ts s _ _ _ _ ih => intro inh prev; simp only [okSeq]; exact ih _ _
  | sep loc ts s _ ih => intro inh prev; simp only [okSeq]; exact ih _ _

theorem spells_heightL {loc : Nat} {toks : List Tok} {s : Str} (h : Spells loc toks s) :
    heightL toks = 0 := by
  induction h with
  | nil => rfl
  | lit loc w ts s _ _ _ _ ih => simp [heightL, Tok.height, ih]
  | sep loc ts s _ ih => simp [heightL, Tok.height, ih]

theorem spells_noCatInL {loc : Nat} {toks : List Tok} {s : Str} (h : Spells loc toks s) :
    noCatInL true toks = true := by
  induction h with
  | nil => rfl
  | lit loc w ts s _ _ _ _ ih => simp [noCatInL, noCatIn, isCatT, ih]
  | sep loc ts s _ ih => simp [noCatInL, noCatIn, isCatT, ih]

/-- **the structural verdict on an escaped text** is "no `//`" -/
theorem spells_checkS {loc : Nat} {toks : List Tok} {s : Str} (h : Spells loc toks s) (sp : Span) :
    checkS (.cat sp toks) = noDoubleSep s := by
  simp only [checkS, okBody, spells_noAdj h, spells_okSeq h, Bool.and_true]

/-! ### the size rule -/

theorem cadd_ok' (what : String) (a b : Nat) (h : a + b < usizeLim) : cadd what a b = .ok (a + b) := by
  simp [cadd, h, pure, Except.pure]

/-- the terms of the tokens exist, are invariant, and add up to the byte length of the text -/
theorem spells_sizeAll {loc : Nat} {toks : List Tok} {s : Str} (h : Spells loc toks s) :
    ∃ l, sizeAll toks = .ok l ∧ ∀ acc, acc + ulen s < usizeLim →
      foldlP NVar.conj (.inv acc) l = .ok (.inv (acc + ulen s)) := by
  induction h with
  | nil => exact ⟨[], rfl, fun acc _ => by simp [foldlP, ulen, pure, Except.pure]⟩
  | lit loc w ts s _ _ _ _ ih =>
    obtain ⟨l, hl, hf⟩ := ih
    refine ⟨.inv (ulen w) :: l, ?_, fun acc hacc => ?_⟩
    · simp [sizeAll, sizeTok, hl, utf8Len_eq_ulen, bind, Except.bind, pure, Except.pure]
    · rw [ulen_append] at hacc
      have h1 : cadd "conjunction of unsigned word" acc (ulen w) = .ok (acc + ulen w) :=
        cadd_ok' _ _ _ (by omega)
      have h2 := hf (acc + ulen w) (by omega)
      simp only [foldlP, NVar.conj, h1, bind, Except.bind, pure, Except.pure]
      rw [h2, ulen_append, Nat.add_assoc]
  | sep loc ts s _ ih =>
    obtain ⟨l, hl, hf⟩ := ih
    refine ⟨.inv 1 :: l, ?_, fun acc hacc => ?_⟩
    · simp [sizeAll, sizeTok, hl, bind, Except.bind, pure, Except.pure]
    · rw [ulen_slash] at hacc
      have h1 : cadd "conjunction of unsigned word" acc 1 = .ok (acc + 1) :=
        cadd_ok' _ _ _ (by omega)
      have h2 := hf (acc + 1) (by omega)
      simp only [foldlP, NVar.conj, h1, bind, Except.bind, pure, Except.pure]
      rw [h2, ulen_slash, Nat.add_assoc]

/-- **the invariant size of the concatenation is the byte length of the text** -/
theorem spells_sizeVariance {loc : Nat} {toks : List Tok} {s : Str} (h : Spells loc toks s)
    (hne : s ≠ []) (hl : ulen s < usizeLim) (sp : Span) :
    sizeVariance (.cat sp toks) = .ok (.inv (ulen s)) := by
  cases h with
  | nil => exact absurd rfl hne
  | lit loc w ts s _ _ _ hs =>
    obtain ⟨l, hl', hf⟩ := spells_sizeAll hs
    rw [ulen_append] at hl
    have := hf (ulen w) hl
    simp only [sizeVariance, sizeTok, sizeAll, hl', utf8Len_eq_ulen, reduceP, this, bind, Except.bind,
      pure, Except.pure, ulen_append]
  | sep loc ts s hs =>
    obtain ⟨l, hl', hf⟩ := spells_sizeAll hs
    rw [ulen_slash] at hl
    have := hf 1 hl
    simp only [sizeVariance, sizeTok, sizeAll, hl', reduceP, this, bind, Except.bind,
      pure, Except.pure, ulen_slash]

theorem sizeAt_lit (sp : Span) (w : Str) (ci : Bool) (h : ulen w < Generated.maxInvariantSize) :
    sizeAt (.lit sp w ci) = .ok none := by
  have : ¬ ulen w ≥ Generated.maxInvariantSize := by omega
  simp [sizeAt, sizeVariance, sizeTok, utf8Len_eq_ulen, this, bind, Except.bind, pure, Except.pure]

theorem sizeAt_sep (sp : Span) : sizeAt (.sep sp) = .ok none := by
  simp [sizeAt, sizeVariance, sizeTok, Generated.maxInvariantSize, bind, Except.bind, pure, Except.pure]

theorem findAtP_zero {α} (f : Tok → P (Option α)) (t : Tok) : findAtP f 0 t = f t := by
  cases t <;> simp [findAtP]

/-- no single token of the escaped text is oversized -/
theorem spells_level1 {loc : Nat} {toks : List Tok} {s : Str} (h : Spells loc toks s)
    (hl : ulen s < Generated.maxInvariantSize) : findAtLP sizeAt 0 toks = .ok none := by
  induction h with
  | nil => rfl
  | lit loc w ts s _ _ _ _ ih =>
    rw [ulen_append] at hl
    simp only [findAtLP, findAtP_zero, sizeAt_lit _ w false (by omega), ih (by omega), bind, Except.bind]
  | sep loc ts s _ ih =>
    rw [ulen_slash] at hl
    simp only [findAtLP, findAtP_zero, sizeAt_sep, ih (by omega), bind, Except.bind]

theorem sizeAt_cat {loc : Nat} {toks : List Tok} {s : Str} (h : Spells loc toks s)
    (hne : s ≠ []) (hl : ulen s < usizeLim) (sp : Span) :
    sizeAt (.cat sp toks) =
      .ok (if ulen s ≥ Generated.maxInvariantSize then some (.oversized, sp) else none) := by
  simp only [sizeAt, spells_sizeVariance h hne hl sp, bind, Except.bind, pure, Except.pure, Tok.span]

theorem maxInv_lt_usizeLim : Generated.maxInvariantSize < usizeLim := by decide

/-- the size rule accepts the escaped text when it is below the limit -/
theorem spells_ruleSize {loc : Nat} {toks : List Tok} {s : Str} (h : Spells loc toks s)
    (hne : s ≠ []) (hl : ulen s < Generated.maxInvariantSize) (sp : Span) :
    ruleSize (.cat sp toks) = .ok none := by
  have hlt := maxInv_lt_usizeLim
  have h0 : sizeAt (.cat sp toks) = .ok none := by
    rw [sizeAt_cat h hne (by omega) sp]
    have : ¬ ulen s ≥ Generated.maxInvariantSize := by omega
    simp [this]
  simp only [ruleSize, bfsFindP, Tok.height, spells_heightL h, searchLevelsP, findAtP, h0,
    spells_level1 h hl, bind, Except.bind, pure, Except.pure]

/-- ... and reports the whole expression when it is not -/
theorem spells_ruleSize_over {loc : Nat} {toks : List Tok} {s : Str} (h : Spells loc toks s)
    (hne : s ≠ []) (hl : Generated.maxInvariantSize ≤ ulen s) (hu : ulen s < usizeLim) (sp : Span) :
    ruleSize (.cat sp toks) = .ok (some (.oversized, sp)) := by
  have h0 : sizeAt (.cat sp toks) = .ok (some (.oversized, sp)) := by
    rw [sizeAt_cat h hne hu sp]
    simp [hl]
  simp only [ruleSize, bfsFindP, Tok.height, searchLevelsP, findAtP, h0, bind, Except.bind, pure,
    Except.pure]

/-! ### headline -/

/-- **C18, rule half.**  For every non-empty text without a backslash, without `//` and shorter
than the invariant-size limit, the tokens the escaped text parses to pass both the structural
verdict and `rule::check` with error identity: the escaped text builds. -/
theorem escape_builds (s : Str) (hne : s ≠ []) (hb : '\\' ∉ s) (hd : noDoubleSep s = true)
    (hl : ulen s < Generated.maxInvariantSize) :
    ∃ toks, parse (escape s) = .ok (.cat ⟨0, ulen (escape s)⟩ toks) ∧ Spells 0 toks s ∧
      checkS (.cat ⟨0, ulen (escape s)⟩ toks) = true ∧
      check (.cat ⟨0, ulen (escape s)⟩ toks) = .ok none := by
  obtain ⟨toks, hp, hs⟩ := parse_escape s hne hb
  have hc : checkS (.cat ⟨0, ulen (escape s)⟩ toks) = true := by rw [spells_checkS hs, hd]
  refine ⟨toks, hp, hs, hc, ?_⟩
  rw [check_none_iff _ (by simp only [noCatIn]; exact spells_noCatInL hs)]
  exact ⟨hc, spells_ruleSize hs hne hl _⟩

/-- the same for any token list that spells the text (the one of `parse_escape` is unique, the
    parser being a function) -/
theorem escape_builds_spells (s : Str) (hne : s ≠ []) (hd : noDoubleSep s = true)
    (hl : ulen s < Generated.maxInvariantSize) (loc : Nat) (toks : List Tok) (hs : Spells loc toks s)
    (sp : Span) : checkS (.cat sp toks) = true ∧ check (.cat sp toks) = .ok none := by
  have hc : checkS (.cat sp toks) = true := by rw [spells_checkS hs, hd]
  refine ⟨hc, ?_⟩
  rw [check_none_iff _ (by simp only [noCatIn]; exact spells_noCatInL hs)]
  exact ⟨hc, spells_ruleSize hs hne hl _⟩

/-- **converse, `//`.**  When the text contains two adjacent separators the escaped text parses
but the checker rejects it: the structural verdict is `false` and `rule::check` does not accept. -/
theorem escape_rejects_double_sep (s : Str) (hne : s ≠ []) (hb : '\\' ∉ s)
    (hd : noDoubleSep s = false) :
    ∃ toks, parse (escape s) = .ok (.cat ⟨0, ulen (escape s)⟩ toks) ∧
      checkS (.cat ⟨0, ulen (escape s)⟩ toks) = false ∧
      check (.cat ⟨0, ulen (escape s)⟩ toks) ≠ .ok none := by
  obtain ⟨toks, hp, hs⟩ := parse_escape s hne hb
  have hc : checkS (.cat ⟨0, ulen (escape s)⟩ toks) = false := by rw [spells_checkS hs, hd]
  refine ⟨toks, hp, hc, fun h => ?_⟩
  have := checkS_of_check _ h
  rw [hc] at this; cases this

theorem searchLevels_hit {α} (f : Nat → Option α) (n d : Nat) (x : α) (h : f d = some x) :
    searchLevels f (n + 1) d = some x := by
  simp [searchLevels, h]

/-- ... and the error it reports is the boundary-adjacency one -/
theorem escape_rejects_adjBoundary (s : Str) (hne : s ≠ []) (hb : '\\' ∉ s)
    (hd : noDoubleSep s = false) :
    ∃ toks sp, parse (escape s) = .ok (.cat ⟨0, ulen (escape s)⟩ toks) ∧
      check (.cat ⟨0, ulen (escape s)⟩ toks) = .ok (some (.adjBoundary, sp)) := by
  obtain ⟨toks, hp, hs⟩ := parse_escape s hne hb
  have hn : noAdjBoundary toks = false := by rw [spells_noAdj hs, hd]
  cases hf : firstAdjBoundary toks with
  | none => rw [(firstAdj_none_iff toks).mp hf] at hn; cases hn
  | some sp =>
    refine ⟨toks, sp, hp, ?_⟩
    have : ruleBoundary (.cat ⟨0, ulen (escape s)⟩ toks) = some (.adjBoundary, sp) := by
      simp only [ruleBoundary, bfsFind]
      exact searchLevels_hit _ _ _ _ (by simp [findAt, boundaryAt, hf])
    simp only [check, this]; rfl

/-- **converse, size.**  Without `//` but at or above the limit (and below the word size, where the
size computation itself would overflow), `rule::check` reports the whole expression as oversized. -/
theorem escape_rejects_oversized (s : Str) (hne : s ≠ []) (hb : '\\' ∉ s) (hd : noDoubleSep s = true)
    (hl : Generated.maxInvariantSize ≤ ulen s) (hu : ulen s < usizeLim) :
    ∃ toks, parse (escape s) = .ok (.cat ⟨0, ulen (escape s)⟩ toks) ∧
      checkS (.cat ⟨0, ulen (escape s)⟩ toks) = true ∧
      check (.cat ⟨0, ulen (escape s)⟩ toks) = .ok (some (.oversized, ⟨0, ulen (escape s)⟩)) := by
  obtain ⟨toks, hp, hs⟩ := parse_escape s hne hb
  have hc : checkS (.cat ⟨0, ulen (escape s)⟩ toks) = true := by rw [spells_checkS hs, hd]
  refine ⟨toks, hp, hc, ?_⟩
  obtain ⟨h1, h2, h3⟩ := rules_none_of_checkS _ (by simp only [noCatIn]; exact spells_noCatInL hs) hc
  simp only [check, h1, h2, h3]
  exact spells_ruleSize_over hs hne hl hu _

/-- the three cases together: the verdict of the checker on the escaped text of `s` -/
theorem escape_check_iff (s : Str) (hne : s ≠ []) (hb : '\\' ∉ s) (hu : ulen s < usizeLim) :
    ∃ toks, parse (escape s) = .ok (.cat ⟨0, ulen (escape s)⟩ toks) ∧
      (check (.cat ⟨0, ulen (escape s)⟩ toks) = .ok none ↔
        (noDoubleSep s = true ∧ ulen s < Generated.maxInvariantSize)) := by
  obtain ⟨toks, hp, hs⟩ := parse_escape s hne hb
  refine ⟨toks, hp, ?_⟩
  rw [check_none_iff _ (by simp only [noCatIn]; exact spells_noCatInL hs), spells_checkS hs]
  constructor
  · rintro ⟨hd, hz⟩
    refine ⟨hd, ?_⟩
    by_cases hl : ulen s < Generated.maxInvariantSize
    · exact hl
    · rw [spells_ruleSize_over hs hne (by omega) hu] at hz; cases hz
  · rintro ⟨hd, hl⟩
    exact ⟨hd, spells_ruleSize hs hne hl _⟩

/-! ### the hypotheses are satisfiable, the conclusions are not trivial -/

example : ∃ toks, parse (escape "a*/{b}".toList) = .ok (.cat ⟨0, 9⟩ toks) ∧ Spells 0 toks "a*/{b}".toList ∧
    checkS (.cat ⟨0, 9⟩ toks) = true ∧ check (.cat ⟨0, 9⟩ toks) = .ok none := by
  have h := escape_builds "a*/{b}".toList (by decide) (by decide) (by decide) (by decide)
  have hu : ulen (escape "a*/{b}".toList) = 9 := by decide
  rw [hu] at h; exact h

example : ∃ toks, parse (escape "a//b".toList) = .ok (.cat ⟨0, 4⟩ toks) ∧
    checkS (.cat ⟨0, 4⟩ toks) = false ∧ check (.cat ⟨0, 4⟩ toks) ≠ .ok none := by
  have h := escape_rejects_double_sep "a//b".toList (by decide) (by decide) (by decide)
  have hu : ulen (escape "a//b".toList) = 4 := by decide
  rw [hu] at h; exact h

/-! the size limit is sharp: 65535 letters build, 65536 are reported as oversized -/

theorem ulen_replicate_a : ∀ n, ulen (List.replicate n 'a') = n
  | 0 => rfl
  | n + 1 => by
    rw [List.replicate_succ, ulen_cons, ulen_replicate_a n]
    have : 'a'.utf8Size = 1 := by decide
    omega

theorem chunk_replicate_a (n : Nat) : Chunk (List.replicate n 'a') := by
  intro c hc
  rw [List.eq_of_mem_replicate hc]
  exact ⟨by decide, by decide⟩

theorem letters_ok (n : Nat) (hn : 0 < n) :
    List.replicate n 'a' ≠ [] ∧ '\\' ∉ List.replicate n 'a' ∧ noDoubleSep (List.replicate n 'a') = true := by
  refine ⟨by cases n <;> simp_all, fun h => (chunk_replicate_a n _ h).2 rfl, ?_⟩
  have := noDoubleSep_chunk (List.replicate n 'a') [] (chunk_replicate_a n)
  simpa [noDoubleSep] using this

example : ∃ toks, parse (escape (List.replicate 65535 'a')) = .ok (.cat ⟨0, 65535⟩ toks) ∧
    check (.cat ⟨0, 65535⟩ toks) = .ok none := by
  obtain ⟨h1, h2, h3⟩ := letters_ok 65535 (by omega)
  obtain ⟨toks, hp, _, _, hc⟩ := escape_builds _ h1 h2 h3
    (by rw [ulen_replicate_a]; decide)
  have e : escape (List.replicate 65535 'a') = List.replicate 65535 'a' :=
    escape_id _ (fun c hc => by rw [List.eq_of_mem_replicate hc]; decide)
  rw [e, ulen_replicate_a] at hp hc
  exact ⟨toks, by rw [e]; exact hp, hc⟩

example : ∃ toks, parse (escape (List.replicate 65536 'a')) = .ok (.cat ⟨0, 65536⟩ toks) ∧
    check (.cat ⟨0, 65536⟩ toks) = .ok (some (.oversized, ⟨0, 65536⟩)) := by
  obtain ⟨h1, h2, h3⟩ := letters_ok 65536 (by omega)
  obtain ⟨toks, hp, _, hc⟩ := escape_rejects_oversized _ h1 h2 h3
    (by rw [ulen_replicate_a]; decide) (by rw [ulen_replicate_a]; decide)
  have e : escape (List.replicate 65536 'a') = List.replicate 65536 'a' :=
    escape_id _ (fun c hc => by rw [List.eq_of_mem_replicate hc]; decide)
  rw [e, ulen_replicate_a] at hp hc
  exact ⟨toks, by rw [e]; exact hp, hc⟩

end Wax
