import Wax.GeneratedConst
import Wax.Encode
/-! The tie by regeneration (separator, never-matching class, semantic literals): the table the model's definitions use is the table `tools/extract.py` has just read out
of `/repo/src` (by EVALUATING the source's `match`, so arm order and grouping are immaterial). Closed by `decide`: an edit of the
Rust source that changes the table breaks the build here, naming the table; only the properties that list these theorems are
concerned. -/
namespace Wax

/-- the separator of the unix configuration and the root separator expression of the parser are the
    model's `/`; the never-matching class and the semantic literals are the model's -/
theorem constants_are_source :
    Generated.separatorClassExpression.toList = ['/'] ∧
    Generated.rootSeparatorExpression.toList = ['/'] ∧
    Generated.neverExpression.toList = "[a&&b]".toList ∧
    Generated.semanticLiterals.map String.toList = [['.'], ['.', '.']] := by decide

/-- the printer of the never-matching class emits the regenerated constant -/
theorem never_print_is_source : Re.never.print = Generated.neverExpression := by
  simp [Re.print, Generated.neverExpression]

end Wax
