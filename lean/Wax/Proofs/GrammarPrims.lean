import Wax.Proofs.Grammar
import Wax.Proofs.SpanReparse
import Wax.Proofs.ParseZom
/-!
The leaf parsers of `Wax/Parse.lean` (inline flags, literals, classes, bounds, wildcards) accept
exactly the leaf relations of `Wax/Proofs/Grammar.lean`: for each, a soundness lemma (what the
parser returns is spelled as the relation says) and a completeness lemma (what the relation spells,
the parser returns — on an explicit parser state `⟨text ++ rest, p, c, sub⟩`).
-/
set_option linter.unusedSimpArgs false
set_option linter.unusedVariables false
namespace Wax

/-! ### parser states -/

theorem ulen_nil : ulen [] = 0 := rfl

theorem ulen_cons' (c : Char) (s : Str) : ulen (c :: s) = c.utf8Size + ulen s := by
  simp [ulen]

theorem adv_eq {i : Input} {a b : Str} (h : i.rest = a ++ b) :
    i.adv a.length = ⟨b, i.loc + ulen a, i.ci, i.sub⟩ := by
  unfold Input.adv
  simp [h, ulen]

theorem adv1_eq {i : Input} {a : Char} {b : Str} (h : i.rest = a :: b) :
    i.adv 1 = ⟨b, i.loc + ulen [a], i.ci, i.sub⟩ := adv_eq (a := [a]) h

theorem adv2_eq {i : Input} {a d : Char} {b : Str} (h : i.rest = a :: d :: b) :
    i.adv 2 = ⟨b, i.loc + ulen [a, d], i.ci, i.sub⟩ := adv_eq (a := [a, d]) h

theorem tag_eq {i : Input} {t : String} {b : Str} (h : i.rest = t.toList ++ b) :
    i.tag t = some ⟨b, i.loc + ulen t.toList, i.ci, i.sub⟩ := by
  rw [tag_of_rest h, adv_eq h]

theorem tag_inv {i j : Input} {t : String} (h : i.tag t = some j) :
    ∃ b, i.rest = t.toList ++ b ∧ j = ⟨b, i.loc + ulen t.toList, i.ci, i.sub⟩ := by
  obtain ⟨b, hb, hj, _⟩ := tag_some h
  exact ⟨b, hb, by rw [hj, adv_eq hb]⟩

theorem tag_none_of {i : Input} {t : String} (h : ∀ b, i.rest ≠ t.toList ++ b) : i.tag t = none := by
  cases hh : i.tag t with
  | none => rfl
  | some j => obtain ⟨b, hb, _⟩ := tag_inv hh; exact absurd hb (h b)

/-- single-character tags on an explicit state -/
theorem tag1_eq (t : String) (a : Char) (ht : t.toList = [a]) (h1 : a.utf8Size = 1)
    (b : Str) (p : Nat) (c : Bool) (sub : Nat) :
    (Input.mk (a :: b) p c sub).tag t = some ⟨b, p + 1, c, sub⟩ := by
  have := tag_eq (i := ⟨a :: b, p, c, sub⟩) (t := t) (b := b) (by rw [ht]; rfl)
  rw [this, ht]
  simp [ulen, h1]

theorem tag1_inv (t : String) (a : Char) (ht : t.toList = [a]) (h1 : a.utf8Size = 1)
    {i j : Input} (h : i.tag t = some j) :
    ∃ b, i.rest = a :: b ∧ j = ⟨b, i.loc + 1, i.ci, i.sub⟩ := by
  obtain ⟨b, hb, hj⟩ := tag_inv h
  rw [ht] at hb hj
  refine ⟨b, hb, ?_⟩
  rw [hj]; simp [ulen, h1]

theorem tag1_inv' (t : String) (a : Char) (ht : t.toList = [a]) (h1 : a.utf8Size = 1)
    {i j : Input} (h : i.tag t = some j) :
    ∃ b, i.rest = a :: b ∧ j.rest = b ∧ j.loc = i.loc + 1 ∧ j.ci = i.ci ∧ j.sub = i.sub := by
  obtain ⟨b, hb, hj⟩ := tag1_inv t a ht h1 h
  exact ⟨b, hb, by rw [hj], by rw [hj], by rw [hj], by rw [hj]⟩

theorem tag1_none (t : String) (a : Char) (ht : t.toList = [a]) {i : Input}
    (h : ∀ b, i.rest ≠ a :: b) : i.tag t = none :=
  tag_none_of (by intro b; rw [ht]; exact h b)

theorem input_eta (i : Input) {r : Str} (h : i.rest = r) : i = ⟨r, i.loc, i.ci, i.sub⟩ := by
  subst h; rfl

/-! ### toggles -/

theorem ToggleRun.restart {c w c'} (h : ToggleRun c w c') (hw : w ≠ []) (d : Bool) :
    ToggleRun d w c' := by
  cases h with
  | nil => exact absurd rfl hw
  | on _ w c' h => exact .on _ _ _ h
  | off _ w c' h => exact .off _ _ _ h

theorem ToggleRun.length_pos {c w c'} (h : ToggleRun c w c') (hw : w ≠ []) : 0 < w.length :=
  List.length_pos_iff.mpr hw

theorem tag_i_eq (b : Str) (p : Nat) (c : Bool) (sub : Nat) :
    (Input.mk ('i' :: b) p c sub).tag "i" = some ⟨b, p + 1, c, sub⟩ :=
  tag1_eq "i" 'i' (by decide) (by decide) b p c sub

theorem tag_mi_eq (b : Str) (p : Nat) (c : Bool) (sub : Nat) :
    (Input.mk ('-' :: 'i' :: b) p c sub).tag "-i" = some ⟨b, p + 2, c, sub⟩ := by
  have e : "-i".toList = ['-', 'i'] := by decide
  have := tag_eq (i := ⟨'-' :: 'i' :: b, p, c, sub⟩) (t := "-i") (b := b) (by rw [e]; rfl)
  rw [this, e]
  have h1 : ('-' : Char).utf8Size = 1 := by decide
  have h2 : ('i' : Char).utf8Size = 1 := by decide
  simp [ulen, h1, h2]

/-- completeness of `flagToggles` -/
theorem toggles_complete {c w c'} (h : ToggleRun c w c') :
    ∀ (n : Nat) (r : Str) (p sub : Nat) (any : Bool), w.length ≤ n → (any = true ∨ w ≠ []) →
      flagToggles true n ⟨w ++ ')' :: r, p, c, sub⟩ any = some ⟨')' :: r, p + ulen w, c', sub⟩ := by
  induction h with
  | nil c =>
    intro n r p sub any hn ha
    have hany : any = true := by rcases ha with h | h; exact h; exact absurd rfl h
    subst hany
    cases n with
    | zero => simp [flagToggles, ulen]
    | succ n =>
      rw [flagToggles]
      have h1 : (Input.mk ([] ++ ')' :: r) p c sub).tag "i" = none :=
        tag1_none "i" 'i' (by decide) (by intro b hb; simp at hb)
      have h2 : (Input.mk ([] ++ ')' :: r) p c sub).tag "-i" = none :=
        tag_none_of (by intro b hb; have e : "-i".toList = ['-', 'i'] := by decide
                        rw [e] at hb; simp at hb)
      rw [h1, h2]; simp [ulen]
  | on c w c' h ih =>
    intro n r p sub any hn ha
    cases n with
    | zero => simp at hn
    | succ n =>
      rw [flagToggles]
      have h1 := tag_i_eq (w ++ ')' :: r) p c sub
      simp only [List.cons_append] at h1 ⊢
      rw [h1]
      dsimp only
      have := ih n r (p + 1) sub true (by simpa using hn) (.inl rfl)
      simp only [if_true]
      rw [this]
      have hu : ('i' : Char).utf8Size = 1 := by decide
      simp [ulen_cons', hu]; omega
  | off c w c' h ih =>
    intro n r p sub any hn ha
    cases n with
    | zero => simp at hn
    | succ n =>
      rw [flagToggles]
      have h0 : (Input.mk ('-' :: 'i' :: w ++ ')' :: r) p c sub).tag "i" = none :=
        tag1_none "i" 'i' (by decide) (by intro b hb; simp at hb)
      have h1 := tag_mi_eq (w ++ ')' :: r) p c sub
      simp only [List.cons_append] at h0 h1 ⊢
      rw [h0, h1]
      dsimp only
      have := ih n r (p + 2) sub true (by simp at hn; omega) (.inl rfl)
      simp only [if_true]
      rw [this]
      have hu : ('i' : Char).utf8Size = 1 := by decide
      have hm : ('-' : Char).utf8Size = 1 := by decide
      simp [ulen_cons', hu, hm]; omega

/-- soundness of `flagToggles` -/
theorem toggles_sound : ∀ (n : Nat) (i : Input) (any : Bool) (k : Input),
    flagToggles true n i any = some k →
    ∃ w c', i.rest = w ++ k.rest ∧ ToggleRun i.ci w c' ∧ k.loc = i.loc + ulen w ∧ k.ci = c' ∧
      k.sub = i.sub ∧ (any = false → w ≠ [])
  | 0, i, any, k, h => by
    simp only [flagToggles] at h
    split at h
    · rename_i ha
      injection h with h; subst h
      exact ⟨[], i.ci, rfl, .nil _, rfl, rfl, rfl, by intro hf; rw [ha] at hf; cases hf⟩
    · cases h
  | n + 1, i, any, k, h => by
    rw [flagToggles] at h
    split at h
    · rename_i j hj
      obtain ⟨b, hb, hj'⟩ := tag1_inv "i" 'i' (by decide) (by decide) hj
      subst hj'
      simp only [if_true] at h
      obtain ⟨w, c', hr, ht, hl, hc, hs, _⟩ := toggles_sound n _ true k h
      dsimp only at hr ht hl hc hs
      refine ⟨'i' :: w, c', by rw [hb, hr]; rfl, .on _ _ _ ht, ?_, hc, hs, by intro _; simp⟩
      have hu : ('i' : Char).utf8Size = 1 := by decide
      rw [hl, ulen_cons', hu]; omega
    · split at h
      · rename_i j hj
        obtain ⟨b, hb, hj'⟩ := tag_inv hj
        have e : "-i".toList = ['-', 'i'] := by decide
        rw [e] at hb hj'
        subst hj'
        simp only [if_true] at h
        obtain ⟨w, c', hr, ht, hl, hc, hs, _⟩ := toggles_sound n _ true k h
        dsimp only at hr ht hl hc hs
        refine ⟨'-' :: 'i' :: w, c', by rw [hb, hr]; rfl, .off _ _ _ ht, ?_, hc, hs,
          by intro _; simp⟩
        have hu : ('i' : Char).utf8Size = 1 := by decide
        have hm : ('-' : Char).utf8Size = 1 := by decide
        rw [hl]; simp only [ulen_cons', hu, hm, ulen_nil]; omega
      · split at h
        · rename_i ha
          injection h with h; subst h
          exact ⟨[], i.ci, rfl, .nil _, rfl, rfl, rfl, by intro hf; rw [ha] at hf; cases hf⟩
        · cases h

/-! ### flag groups -/

theorem tag_open_inv {i j : Input} (h : i.tag "(?" = some j) :
    ∃ b, i.rest = '(' :: '?' :: b ∧ j = ⟨b, i.loc + 2, i.ci, i.sub⟩ := by
  obtain ⟨b, hb, hj⟩ := tag_inv h
  have e : "(?".toList = ['(', '?'] := by decide
  rw [e] at hb hj
  refine ⟨b, hb, ?_⟩
  rw [hj]
  have h1 : ('(' : Char).utf8Size = 1 := by decide
  have h2 : ('?' : Char).utf8Size = 1 := by decide
  simp [ulen, h1, h2]

theorem tag_open_eq (b : Str) (p : Nat) (c : Bool) (sub : Nat) :
    (Input.mk ('(' :: '?' :: b) p c sub).tag "(?" = some ⟨b, p + 2, c, sub⟩ := by
  have e : "(?".toList = ['(', '?'] := by decide
  have := tag_eq (i := ⟨'(' :: '?' :: b, p, c, sub⟩) (t := "(?") (b := b) (by rw [e]; rfl)
  rw [this, e]
  have h1 : ('(' : Char).utf8Size = 1 := by decide
  have h2 : ('?' : Char).utf8Size = 1 := by decide
  simp [ulen, h1, h2]

theorem tag_open_none {i : Input} (h : ∀ b, i.rest ≠ '(' :: '?' :: b) : i.tag "(?" = none :=
  tag_none_of (by intro b; have e : "(?".toList = ['(', '?'] := by decide
                  rw [e]; exact h b)

theorem tag_close_eq (b : Str) (p : Nat) (c : Bool) (sub : Nat) :
    (Input.mk (')' :: b) p c sub).tag ")" = some ⟨b, p + 1, c, sub⟩ :=
  tag1_eq ")" ')' (by decide) (by decide) b p c sub

theorem ulen_group (w : Str) : ulen ('(' :: '?' :: w ++ [')']) = ulen w + 3 := by
  have h1 : ('(' : Char).utf8Size = 1 := by decide
  have h2 : ('?' : Char).utf8Size = 1 := by decide
  have h3 : (')' : Char).utf8Size = 1 := by decide
  simp only [ulen_cons', ulen_append, ulen_nil, h1, h2, h3]; omega

/-- the parser consumes all the flag groups there are (soundness of `flags`) -/
theorem flags_sound : ∀ (n : Nat) (i : Input), i.rest.length ≤ n →
    ∃ fl c', i.rest = fl ++ (flags true n i).rest ∧ Flags i.ci fl c' ∧
      ¬ FlagHead (flags true n i).rest ∧ (flags true n i).loc = i.loc + ulen fl ∧
      (flags true n i).ci = c' ∧ (flags true n i).sub = i.sub
  | 0, i, hn => by
    have hr : i.rest = [] := List.length_eq_zero_iff.mp (by omega)
    refine ⟨[], i.ci, rfl, .nil _, ?_, rfl, rfl, rfl⟩
    rintro ⟨c, w, c1, r', _, _, h⟩
    simp only [flags] at h; rw [hr] at h; cases h
  | n + 1, i, hn => by
    rw [flags]
    cases h1 : i.tag "(?" with
    | none =>
      refine ⟨[], i.ci, rfl, .nil _, ?_, rfl, rfl, rfl⟩
      rintro ⟨c, w, c1, r', _, _, h⟩
      dsimp only at h
      have := tag_eq (i := i) (t := "(?") (b := w ++ ')' :: r')
        (by have e : "(?".toList = ['(', '?'] := by decide
            rw [e, h]; rfl)
      rw [h1] at this; cases this
    | some j =>
      obtain ⟨b, hb, hj⟩ := tag_open_inv h1
      dsimp only
      -- if the text begins with a flag group, the toggles and the closing parenthesis are found
      have key : FlagHead i.rest → ∃ w c1 r', w ≠ [] ∧ b = w ++ ')' :: r' ∧
          flagToggles true j.rest.length j false =
            some ⟨')' :: r', i.loc + 2 + ulen w, c1, i.sub⟩ := by
        rintro ⟨c, w, c1, r', ht, hw, h⟩
        rw [hb] at h
        injection h with _ h; injection h with _ h
        refine ⟨w, c1, r', hw, h, ?_⟩
        rw [hj]; dsimp only; rw [h]
        exact toggles_complete (ht.restart hw i.ci) _ r' _ _ false (by simp) (.inr hw)
      cases h2 : flagToggles true j.rest.length j false with
      | none =>
        refine ⟨[], i.ci, rfl, .nil _, ?_, rfl, rfl, rfl⟩
        intro hf
        obtain ⟨w, c1, r', _, _, h⟩ := key hf
        rw [h2] at h; cases h
      | some k =>
        dsimp only
        cases h3 : k.tag ")" with
        | none =>
          refine ⟨[], i.ci, rfl, .nil _, ?_, rfl, rfl, rfl⟩
          intro hf
          obtain ⟨w, c1, r', _, _, h⟩ := key hf
          rw [h2] at h; injection h with h
          rw [h, tag_close_eq] at h3; cases h3
        | some l =>
          dsimp only
          obtain ⟨w, c1, hr, ht, hl, hc, hs, hw⟩ := toggles_sound _ j false k h2
          have hw := hw rfl
          obtain ⟨b', hb', hl'⟩ := tag1_inv ")" ')' (by decide) (by decide) h3
          rw [hj] at hr ht hl hs
          dsimp only at hr ht hl hs
          have hlen : l.rest.length ≤ n := by
            rw [hl']; dsimp only
            have : i.rest.length = 2 + (w.length + (1 + b'.length)) := by
              rw [hb, hr, hb']; simp; omega
            omega
          obtain ⟨fl, c', e1, e2, e3, e4, e5, e6⟩ := flags_sound n l hlen
          refine ⟨'(' :: '?' :: w ++ ')' :: fl, c', ?_, ?_, e3, ?_, e5, ?_⟩
          · rw [hb, hr, hb']
            have : b' = l.rest := by rw [hl']
            rw [this]; conv => lhs; rw [e1]
            simp
          · refine .group _ w c1 fl c' ht hw ?_
            have : l.ci = c1 := by rw [hl']; exact hc
            rw [← this]; exact e2
          · rw [e4, hl']; dsimp only; rw [hl]
            have := ulen_group w
            have h3 : (')' : Char).utf8Size = 1 := by decide
            have h1 : ('(' : Char).utf8Size = 1 := by decide
            have h2 : ('?' : Char).utf8Size = 1 := by decide
            simp only [ulen_cons', ulen_append, h1, h2, h3]; omega
          · rw [e6, hl']; dsimp only; exact hs

/-- without a flag group at the head, `flags` does nothing -/
theorem flags_id (n : Nat) (r : Str) (p : Nat) (c : Bool) (sub : Nat) (hn : r.length ≤ n)
    (hf : ¬ FlagHead r) : flags true n ⟨r, p, c, sub⟩ = ⟨r, p, c, sub⟩ := by
  obtain ⟨fl, c', e1, e2, e3, e4, e5, e6⟩ := flags_sound n ⟨r, p, c, sub⟩ hn
  dsimp only at e1 e2 e4 e6
  cases e2 with
  | nil =>
    generalize flags true n ⟨r, p, c, sub⟩ = R at *
    obtain ⟨r0, l0, c0, s0⟩ := R
    simp only [List.nil_append, ulen_nil, Nat.add_zero] at e1 e4 e5 e6
    subst e1 e4 e5 e6; rfl
  | group _ w c1 s _ ht hw hs =>
    exact absurd ⟨c, w, c1, s ++ (flags true n ⟨r, p, c, sub⟩).rest, ht, hw,
      e1.trans (by simp)⟩ hf

/-- completeness of `flags`: a maximal sequence of flag groups is what the parser consumes -/
theorem flags_complete {c fl c'} (h : Flags c fl c') : ∀ (r : Str), ¬ FlagHead r →
    ∀ (n p sub : Nat), (fl ++ r).length ≤ n →
      flags true n ⟨fl ++ r, p, c, sub⟩ = ⟨r, p + ulen fl, c', sub⟩ := by
  induction h with
  | nil c => intro r hf n p sub hn; exact flags_id n r p c sub hn hf
  | group c w c1 s c' ht hw hs ih =>
    intro r hf n p sub hn
    cases n with
    | zero => simp at hn
    | succ n =>
      rw [flags]
      have e : ('(' :: '?' :: w ++ ')' :: s) ++ r = '(' :: '?' :: (w ++ ')' :: (s ++ r)) := by simp
      rw [e, tag_open_eq]
      dsimp only
      rw [toggles_complete ht _ (s ++ r) _ _ false (by simp) (.inr hw)]
      dsimp only
      rw [tag_close_eq]
      dsimp only
      rw [ih r hf n _ sub (by rw [e] at hn; simp at hn ⊢; omega)]
      have h3 : (')' : Char).utf8Size = 1 := by decide
      have h1 : ('(' : Char).utf8Size = 1 := by decide
      have h2 : ('?' : Char).utf8Size = 1 := by decide
      simp only [ulen_cons', ulen_append, h1, h2, h3, Input.mk.injEq, true_and, and_true]; omega

theorem flagsS_sound (i : Input) :
    ∃ fl c', i.rest = fl ++ (flagsS i).rest ∧ Flags i.ci fl c' ∧
      ¬ FlagHead (flagsS i).rest ∧ (flagsS i).loc = i.loc + ulen fl ∧
      (flagsS i).ci = c' ∧ (flagsS i).sub = i.sub :=
  flags_sound _ i (Nat.le_refl _)

theorem flagsS_complete {c fl c'} (h : Flags c fl c') (r : Str) (hf : ¬ FlagHead r) (p sub : Nat) :
    flagsS ⟨fl ++ r, p, c, sub⟩ = ⟨r, p + ulen fl, c', sub⟩ :=
  flags_complete h r hf _ p sub (Nat.le_refl _)

theorem flagsS_id (r : Str) (p : Nat) (c : Bool) (sub : Nat) (hf : ¬ FlagHead r) :
    flagsS ⟨r, p, c, sub⟩ = ⟨r, p, c, sub⟩ := flags_id _ r p c sub (Nat.le_refl _) hf

theorem not_flagHead_nil : ¬ FlagHead [] := by
  rintro ⟨c, w, c1, r', _, _, h⟩; cases h

theorem not_flagHead_cons {ch : Char} {r : Str} (h : ch ≠ '(') : ¬ FlagHead (ch :: r) := by
  rintro ⟨c, w, c1, r', _, _, h'⟩; injection h' with h' _; exact h h'

/-- the flag text does not depend on the state it is read in -/
theorem Flags.restart {c fl c'} (h : Flags c fl c') (d : Bool) : ∃ d', Flags d fl d' := by
  cases h with
  | nil => exact ⟨d, .nil _⟩
  | group _ w c1 s _ ht hw hs => exact ⟨c', .group _ w c1 s c' (ht.restart hw d) hw hs⟩

theorem Flags.head {c fl c'} (h : Flags c fl c') : fl = [] ∨ ∃ r, fl = '(' :: r := by
  cases h with
  | nil => exact .inl rfl
  | group _ w c1 s _ ht hw hs => exact .inr ⟨_, rfl⟩

/-! ### literals -/

theorem stop_bs : literalStop.contains '\\' = true := by decide

theorem LitText.text_ne {s t : Str} (h : LitText s t) (hs : s ≠ []) : t ≠ [] := by
  cases h with
  | nil => exact absurd rfl hs
  | plain => simp
  | esc => simp

theorem LitText.body_ne {s t : Str} (h : LitText s t) (ht : t ≠ []) : s ≠ [] := by
  cases h with
  | nil => exact absurd rfl ht
  | plain => simp
  | esc => simp

theorem lit_complete {s t : Str} (h : LitText s t) : ∀ (rest : Str), LitEnd rest →
    ∀ (n p : Nat) (c : Bool) (sub : Nat) (acc : Str), (s ++ rest).length ≤ n →
      literalLoop n ⟨s ++ rest, p, c, sub⟩ acc =
        if (acc ++ t).isEmpty then none else some (acc ++ t, ⟨rest, p + ulen s, c, sub⟩) := by
  induction h with
  | nil =>
    intro rest he n p c sub acc hn
    cases n with
    | zero =>
      have hr : rest = [] := List.length_eq_zero_iff.mp (by simpa using hn)
      subst hr
      simp [literalLoop, ulen]
    | succ n =>
      rcases he with hr | ⟨ch, r, hr, hs, hc⟩
      · subst hr; rw [literalLoop]; simp [ulen]
      · subst hr
        rw [lit_stop (i := ⟨[] ++ ch :: r, p, c, sub⟩) rfl hc hs]
        simp [ulen]
  | plain ch s t hs h ih =>
    intro rest he n p c sub acc hn
    cases n with
    | zero => simp at hn
    | succ n =>
      have hc : ch ≠ '\\' := by intro e; subst e; rw [stop_bs] at hs; cases hs
      rw [lit_norm (i := ⟨ch :: s ++ rest, p, c, sub⟩) rfl hc (by rw [hs]; simp)]
      have := adv_eq (i := ⟨ch :: s ++ rest, p, c, sub⟩) (a := [ch]) (b := s ++ rest) rfl
      dsimp only [List.length_cons, List.length_nil] at this
      rw [this]
      rw [ih rest he n _ c sub (acc ++ [ch]) (by simp at hn ⊢; omega)]
      simp only [List.append_assoc, List.singleton_append, ulen_cons', ulen_nil]
      have e : p + (ch.utf8Size + 0) + ulen s = p + (ch.utf8Size + ulen s) := by omega
      rw [e]
  | esc ch s t hs h ih =>
    intro rest he n p c sub acc hn
    cases n with
    | zero => simp at hn
    | succ n =>
      rw [lit_esc (i := ⟨'\\' :: ch :: s ++ rest, p, c, sub⟩) rfl hs]
      have := adv_eq (i := ⟨'\\' :: ch :: s ++ rest, p, c, sub⟩) (a := ['\\', ch]) (b := s ++ rest) rfl
      dsimp only [List.length_cons, List.length_nil] at this
      rw [this]
      rw [ih rest he n _ c sub (acc ++ [ch]) (by simp at hn ⊢; omega)]
      simp only [List.append_assoc, List.singleton_append, ulen_cons', ulen_nil]
      have e : p + (Char.utf8Size '\\' + (ch.utf8Size + 0)) + ulen s =
          p + (Char.utf8Size '\\' + (ch.utf8Size + ulen s)) := by omega
      rw [e]

theorem lit_sound : ∀ (n : Nat) (i : Input) (acc t' : Str) (j : Input), i.rest.length ≤ n →
    literalLoop n i acc = some (t', j) →
    ∃ s t, i.rest = s ++ j.rest ∧ LitText s t ∧ t' = acc ++ t ∧ t' ≠ [] ∧ LitEnd j.rest ∧
      j.loc = i.loc + ulen s ∧ j.ci = i.ci ∧ j.sub = i.sub
  | 0, i, acc, t', j, hn, h => by
    have hr : i.rest = [] := List.length_eq_zero_iff.mp (by omega)
    simp only [literalLoop] at h
    split at h
    · cases h
    · rename_i ha
      injection h with h; injection h with h1 h2; subst h1 h2
      exact ⟨[], [], rfl, .nil, by simp, by simpa using ha, .inl hr, rfl, rfl, rfl⟩
  | n + 1, i, acc, t', j, hn, h => by
    cases hr : i.rest with
    | nil =>
      rw [literalLoop, hr] at h
      dsimp only at h
      split at h
      · cases h
      · rename_i ha
        injection h with h; injection h with h1 h2; subst h1 h2
        exact ⟨[], [], by simp [hr], .nil, by simp, by simpa using ha, .inl hr, rfl, rfl, rfl⟩
    | cons ch cs =>
      by_cases hc : ch = '\\'
      · subst hc
        cases cs with
        | nil => rw [lit_esc_end hr] at h; cases h
        | cons d ds =>
          by_cases hd : literalEsc.contains d = true
          · rw [lit_esc hr hd] at h
            have ha := adv_eq (i := i) (a := ['\\', d]) (b := ds) hr
            dsimp only [List.length_cons, List.length_nil] at ha
            rw [ha] at h
            obtain ⟨s, t, e1, e2, e3, e4, e5, e6, e7, e8⟩ :=
              lit_sound n _ (acc ++ [d]) t' j (by rw [hr] at hn; simp at hn ⊢; omega) h
            dsimp only at e1 e6 e7 e8
            refine ⟨'\\' :: d :: s, d :: t, by rw [e1]; rfl, .esc d s t hd e2,
              by rw [e3]; simp, e4, e5, ?_, e7, e8⟩
            rw [e6]; simp only [ulen_cons', ulen_nil]; omega
          · rw [lit_esc_bad hr hd] at h; cases h
      · by_cases hs : literalStop.contains ch = true
        · rw [lit_stop hr hc hs] at h
          split at h
          · cases h
          · rename_i ha
            injection h with h; injection h with h1 h2; subst h1 h2
            exact ⟨[], [], by simp [hr], .nil, by simp, by simpa using ha,
              .inr ⟨ch, cs, hr, hs, hc⟩, rfl, rfl, rfl⟩
        · rw [lit_norm hr hc hs] at h
          have ha := adv_eq (i := i) (a := [ch]) (b := cs) hr
          dsimp only [List.length_cons, List.length_nil] at ha
          rw [ha] at h
          obtain ⟨s, t, e1, e2, e3, e4, e5, e6, e7, e8⟩ :=
            lit_sound n _ (acc ++ [ch]) t' j (by rw [hr] at hn; simp at hn ⊢; omega) h
          dsimp only at e1 e6 e7 e8
          refine ⟨ch :: s, ch :: t, by rw [e1]; rfl, .plain ch s t (by simpa using hs) e2,
            by rw [e3]; simp, e4, e5, ?_, e7, e8⟩
          rw [e6]; simp only [ulen_cons', ulen_nil]; omega

theorem parseLiteral_complete {body text rest : Str} (h : LitText body text) (hb : body ≠ [])
    (he : LitEnd rest) (p : Nat) (c : Bool) (sub : Nat) :
    parseLiteral ⟨body ++ rest, p, c, sub⟩ = some (text, c, ⟨rest, p + ulen body, c, sub⟩) := by
  unfold parseLiteral
  dsimp only
  rw [lit_complete h rest he _ p c sub [] (Nat.le_refl _)]
  have := h.text_ne hb
  simp [this]

theorem parseLiteral_sound {i j : Input} {text : Str} {ci : Bool}
    (h : parseLiteral i = some (text, ci, j)) :
    ∃ body, i.rest = body ++ j.rest ∧ LitText body text ∧ body ≠ [] ∧ LitEnd j.rest ∧ ci = i.ci ∧
      j.loc = i.loc + ulen body ∧ j.ci = i.ci ∧ j.sub = i.sub := by
  unfold parseLiteral at h
  split at h
  · rename_i t' j' hl
    injection h with h; injection h with h1 h; injection h with h2 h3
    subst h1 h2 h3
    obtain ⟨s, t, e1, e2, e3, e4, e5, e6, e7, e8⟩ := lit_sound _ i [] _ _ (Nat.le_refl _) hl
    simp only [List.nil_append] at e3
    subst e3
    exact ⟨s, e1, e2, e2.body_ne e4, e5, rfl, e6, e7, e8⟩
  · cases h

/-! ### classes -/

theorem ClassChar.head {s : Str} {a : Char} (h : ClassChar s a) :
    ∃ ch tl, s = ch :: tl ∧ ch ≠ '-' ∧ ch ≠ ']' ∧ ch ≠ '[' := by
  cases h with
  | plain ch h1 h2 h3 h4 => exact ⟨a, [], rfl, h4, h3, h2⟩
  | esc ch h => exact ⟨'\\', [a], rfl, by decide, by decide, by decide⟩

theorem ClassItem.head {s : Str} {a : Arch} (h : ClassItem s a) :
    ∃ ch tl, s = ch :: tl ∧ ch ≠ '-' ∧ ch ≠ ']' ∧ ch ≠ '[' := by
  cases h with
  | chr s a h => exact h.head
  | rng s1 s2 a b h1 h2 =>
    obtain ⟨ch, tl, e, hh⟩ := h1.head
    exact ⟨ch, tl ++ '-' :: s2, by rw [e]; rfl, hh⟩

theorem classChar_complete {s : Str} {a : Char} (h : ClassChar s a) (r : Str) (p : Nat) (c : Bool)
    (sub : Nat) : classChar ⟨s ++ r, p, c, sub⟩ = some (a, ⟨r, p + ulen s, c, sub⟩) := by
  cases h with
  | plain ch h1 h2 h3 h4 =>
    show classChar ⟨a :: r, p, c, sub⟩ = some (a, ⟨r, p + ulen [a], c, sub⟩)
    rw [cc_plain (i := ⟨a :: r, p, c, sub⟩) rfl h1]
    have : isClsSpecial a = false := by simp [isClsSpecial, h2, h3, h4]
    rw [this]
    have := adv1_eq (i := ⟨a :: r, p, c, sub⟩) (a := a) (b := r) rfl
    simp only [Bool.false_eq_true, if_false]
    rw [this]
  | esc ch h =>
    show classChar ⟨'\\' :: a :: r, p, c, sub⟩ = some (a, ⟨r, p + ulen ['\\', a], c, sub⟩)
    rw [cc_esc (i := ⟨'\\' :: a :: r, p, c, sub⟩) rfl]
    have : isClsSpecial a = true := by rcases h with h | h | h <;> subst h <;> decide
    rw [this]
    have := adv2_eq (i := ⟨'\\' :: a :: r, p, c, sub⟩) (a := '\\') (d := a) (b := r) rfl
    simp only [if_true]
    rw [this]

theorem isClsSpecial_false {ch : Char} (h : isClsSpecial ch = false) :
    ch ≠ '[' ∧ ch ≠ ']' ∧ ch ≠ '-' := by
  simp only [isClsSpecial, Bool.or_eq_false_iff, beq_eq_false_iff_ne] at h
  exact ⟨h.1.1, h.1.2, h.2⟩

theorem isClsSpecial_true {ch : Char} (h : isClsSpecial ch = true) :
    ch = '[' ∨ ch = ']' ∨ ch = '-' := by
  simp only [isClsSpecial, Bool.or_eq_true, beq_iff_eq] at h
  rcases h with (h | h) | h
  · exact .inl h
  · exact .inr (.inl h)
  · exact .inr (.inr h)

theorem classChar_sound {i j : Input} {a : Char} (h : classChar i = some (a, j)) :
    ∃ s, i.rest = s ++ j.rest ∧ ClassChar s a ∧ j.loc = i.loc + ulen s ∧ j.ci = i.ci ∧
      j.sub = i.sub := by
  cases hr : i.rest with
  | nil => rw [cc_nil hr] at h; cases h
  | cons ch cs =>
    by_cases hc : ch = '\\'
    · subst hc
      cases cs with
      | nil => rw [cc_esc_end hr] at h; cases h
      | cons e ds =>
        rw [cc_esc hr] at h
        cases he : isClsSpecial e with
        | false => rw [he] at h; cases h
        | true =>
          rw [he] at h
          simp only [if_true] at h
          injection h with h; injection h with h1 h2; subst h1 h2
          have := adv_eq (i := i) (a := ['\\', e]) (b := ds) hr
          dsimp only [List.length_cons, List.length_nil] at this
          rw [this]
          exact ⟨['\\', e], rfl, .esc e (isClsSpecial_true he), rfl, rfl, rfl⟩
    · rw [cc_plain hr hc] at h
      cases he : isClsSpecial ch with
      | true => rw [he] at h; cases h
      | false =>
        rw [he] at h
        simp only [Bool.false_eq_true, if_false] at h
        injection h with h; injection h with h1 h2; subst h1 h2
        have := adv_eq (i := i) (a := [ch]) (b := cs) hr
        dsimp only [List.length_cons, List.length_nil] at this
        rw [this]
        obtain ⟨h1, h2, h3⟩ := isClsSpecial_false he
        exact ⟨[ch], rfl, .plain ch hc h1 h2 h3, rfl, rfl, rfl⟩

theorem tag_dash_eq (b : Str) (p : Nat) (c : Bool) (sub : Nat) :
    (Input.mk ('-' :: b) p c sub).tag "-" = some ⟨b, p + 1, c, sub⟩ :=
  tag1_eq "-" '-' (by decide) (by decide) b p c sub

theorem archetype_complete {s : Str} {a : Arch} (h : ClassItem s a) (r : Str)
    (hr : ∀ r', r ≠ '-' :: r') (p : Nat) (c : Bool) (sub : Nat) :
    archetype ⟨s ++ r, p, c, sub⟩ = some (a, ⟨r, p + ulen s, c, sub⟩) := by
  unfold archetype
  cases h with
  | chr s a h =>
    rw [classChar_complete h]
    dsimp only
    rw [tag1_none "-" '-' (by decide) (i := ⟨r, p + ulen s, c, sub⟩) hr]
  | rng s1 s2 a b h1 h2 =>
    have e : (s1 ++ '-' :: s2) ++ r = s1 ++ ('-' :: (s2 ++ r)) := by simp
    rw [e, classChar_complete h1]
    dsimp only
    rw [tag_dash_eq]
    dsimp only
    rw [classChar_complete h2]
    dsimp only
    have hm : ('-' : Char).utf8Size = 1 := by decide
    simp only [ulen_append, ulen_cons', hm, Option.some.injEq, Prod.mk.injEq, Input.mk.injEq,
      true_and, and_true]
    omega

theorem archetype_sound {i j : Input} {a : Arch} (h : archetype i = some (a, j)) :
    ∃ s, i.rest = s ++ j.rest ∧ ClassItem s a ∧ j.loc = i.loc + ulen s ∧ j.ci = i.ci ∧
      j.sub = i.sub := by
  unfold archetype at h
  split at h
  · cases h
  · rename_i a' j' h1
    obtain ⟨s1, e1, c1, l1, ci1, sb1⟩ := classChar_sound h1
    split at h
    · rename_i k hk
      obtain ⟨b, hb, hk'⟩ := tag1_inv "-" '-' (by decide) (by decide) hk
      split at h
      · rename_i b' l hl
        injection h with h; injection h with h2 h3; subst h2 h3
        obtain ⟨s2, e2, c2, l2, ci2, sb2⟩ := classChar_sound hl
        rw [hk'] at e2 l2 ci2 sb2
        dsimp only at e2 l2 ci2 sb2
        refine ⟨s1 ++ '-' :: s2, by rw [e1, hb, e2]; simp, .rng s1 s2 a' b' c1 c2, ?_,
          by rw [ci2, ci1], by rw [sb2, sb1]⟩
        have hm : ('-' : Char).utf8Size = 1 := by decide
        rw [l2, l1]; simp only [ulen_append, ulen_cons', hm]; omega
      · injection h with h; injection h with h2 h3; subst h2 h3
        exact ⟨s1, e1, .chr s1 a' c1, l1, ci1, sb1⟩
    · injection h with h; injection h with h2 h3; subst h2 h3
      exact ⟨s1, e1, .chr s1 a' c1, l1, ci1, sb1⟩

theorem ClassItems.follow {s : Str} {as : List Arch} (h : ClassItems s as) (r : Str) :
    ∀ r', s ++ ']' :: r ≠ '-' :: r' := by
  intro r' e
  cases h with
  | nil => simp at e
  | cons s s' a as h1 h2 =>
    obtain ⟨ch, tl, e1, hh, _⟩ := h1.head
    rw [e1] at e; simp at e; exact hh e.1

theorem archetypes_complete {s : Str} {as : List Arch} (h : ClassItems s as) :
    ∀ (r : Str) (n p : Nat) (c : Bool) (sub : Nat) (acc : List Arch), (s ++ ']' :: r).length ≤ n →
      archetypes n ⟨s ++ ']' :: r, p, c, sub⟩ acc = (acc ++ as, ⟨']' :: r, p + ulen s, c, sub⟩) := by
  induction h with
  | nil =>
    intro r n p c sub acc hn
    cases n with
    | zero => simp at hn
    | succ n =>
      rw [archetypes]
      have : archetype ⟨[] ++ ']' :: r, p, c, sub⟩ = none := by
        unfold archetype
        rw [cc_plain (i := ⟨[] ++ ']' :: r, p, c, sub⟩) rfl (by decide)]
        rfl
      rw [this]; simp [ulen]
  | cons s s' a as h1 h2 ih =>
    intro r n p c sub acc hn
    cases n with
    | zero => simp at hn
    | succ n =>
      rw [archetypes]
      have e : (s ++ s') ++ ']' :: r = s ++ (s' ++ ']' :: r) := by simp
      rw [e, archetype_complete h1 _ (h2.follow r)]
      dsimp only
      obtain ⟨ch, tl, e1, _⟩ := h1.head
      rw [ih r n _ c sub (acc ++ [a]) (by rw [e, e1] at hn; simp at hn ⊢; omega)]
      simp only [List.append_assoc, List.singleton_append, ulen_append, Prod.mk.injEq,
        Input.mk.injEq, true_and, and_true]
      omega

theorem archetypes_sound : ∀ (n : Nat) (i : Input) (acc : List Arch),
    ∃ s as, (archetypes n i acc).1 = acc ++ as ∧ ClassItems s as ∧
      i.rest = s ++ (archetypes n i acc).2.rest ∧ (archetypes n i acc).2.loc = i.loc + ulen s ∧
      (archetypes n i acc).2.ci = i.ci ∧ (archetypes n i acc).2.sub = i.sub
  | 0, i, acc => ⟨[], [], by simp [archetypes], .nil, rfl, rfl, rfl, rfl⟩
  | n + 1, i, acc => by
    rw [archetypes]
    split
    · rename_i a j h
      obtain ⟨s1, e1, c1, l1, ci1, sb1⟩ := archetype_sound h
      obtain ⟨s2, as, f1, f2, f3, f4, f5, f6⟩ := archetypes_sound n j (acc ++ [a])
      refine ⟨s1 ++ s2, a :: as, by rw [f1]; simp, .cons s1 s2 a as c1 f2,
        by rw [e1, List.append_assoc, ← f3], ?_, by rw [f5, ci1], by rw [f6, sb1]⟩
      rw [f4, l1, ulen_append]; omega
    · exact ⟨[], [], by simp, .nil, rfl, rfl, rfl, rfl⟩

theorem tag_rbr_eq (b : Str) (p : Nat) (c : Bool) (sub : Nat) :
    (Input.mk (']' :: b) p c sub).tag "]" = some ⟨b, p + 1, c, sub⟩ :=
  tag1_eq "]" ']' (by decide) (by decide) b p c sub

theorem classBody_complete {s : Str} {items : List Arch} (h : ClassItems s items)
    (hi : items ≠ []) (neg : Bool) (rest : Str) (p : Nat) (c : Bool) (sub : Nat) :
    classBody neg ⟨s ++ ']' :: rest, p, c, sub⟩ =
      some (neg, items, ⟨rest, p + ulen s + 1, c, sub⟩) := by
  unfold classBody
  dsimp only
  rw [archetypes_complete h rest _ p c sub [] (Nat.le_refl _)]
  dsimp only
  have : ([] ++ items).isEmpty = false := by cases items <;> simp at hi ⊢
  rw [this, tag_rbr_eq]
  simp

theorem classBody_sound {neg neg' : Bool} {k m : Input} {items : List Arch}
    (h : classBody neg k = some (neg', items, m)) :
    ∃ s, neg' = neg ∧ ClassItems s items ∧ items ≠ [] ∧ k.rest = s ++ ']' :: m.rest ∧
      m.loc = k.loc + ulen s + 1 ∧ m.ci = k.ci ∧ m.sub = k.sub := by
  unfold classBody at h
  obtain ⟨s, as, f1, f2, f3, f4, f5, f6⟩ := archetypes_sound k.rest.length k []
  generalize archetypes k.rest.length k [] = R at h f1 f3 f4 f5 f6
  obtain ⟨its, l⟩ := R
  dsimp only at h f1 f3 f4 f5 f6
  split at h
  · cases h
  · rename_i hne
    split at h
    · rename_i m' hm
      injection h with h; injection h with h1 h; injection h with h2 h3
      subst h1 h2 h3
      obtain ⟨b, hb, hm'⟩ := tag1_inv "]" ']' (by decide) (by decide) hm
      simp only [List.nil_append] at f1
      subst f1
      refine ⟨s, rfl, f2, by intro e; rw [e] at hne; exact hne rfl, ?_, ?_, ?_, ?_⟩
      · rw [f3, hb, hm']
      · rw [hm']; dsimp only; rw [f4]
      · rw [hm']; exact f5
      · rw [hm']; exact f6
    · cases h

theorem tag_lbr_eq (b : Str) (p : Nat) (c : Bool) (sub : Nat) :
    (Input.mk ('[' :: b) p c sub).tag "[" = some ⟨b, p + 1, c, sub⟩ :=
  tag1_eq "[" '[' (by decide) (by decide) b p c sub

theorem tag_bang_eq (b : Str) (p : Nat) (c : Bool) (sub : Nat) :
    (Input.mk ('!' :: b) p c sub).tag "!" = some ⟨b, p + 1, c, sub⟩ :=
  tag1_eq "!" '!' (by decide) (by decide) b p c sub

theorem parseClass_complete {body : Str} {neg : Bool} {items : List Arch}
    (h : ClassSpell body neg items) (rest : Str) (p : Nat) (c : Bool) (sub : Nat) :
    parseClass ⟨body ++ rest, p, c, sub⟩ = some (neg, items, ⟨rest, p + ulen body, c, sub⟩) := by
  have h1 : ('[' : Char).utf8Size = 1 := by decide
  have h2 : (']' : Char).utf8Size = 1 := by decide
  have h3 : ('!' : Char).utf8Size = 1 := by decide
  rw [parseClass_eq]
  cases h with
  | pos s items hi hne hb =>
    have e : ('[' :: s ++ [']']) ++ rest = '[' :: (s ++ ']' :: rest) := by simp
    rw [e, tag_lbr_eq]
    dsimp only
    have : (Input.mk (s ++ ']' :: rest) (p + 1) c sub).tag "!" = none := by
      apply tag1_none "!" '!' (by decide)
      intro b hb'
      dsimp only at hb'
      cases s with
      | nil => simp at hb'
      | cons ch tl => simp at hb'; exact hb tl (by rw [hb'.1])
    rw [this]
    dsimp only
    rw [classBody_complete hi hne]
    simp only [ulen_cons', ulen_append, ulen_nil, h1, h2, Option.some.injEq, Prod.mk.injEq,
      Input.mk.injEq, true_and, and_true]
    omega
  | neg s items hi hne =>
    have e : ('[' :: '!' :: s ++ [']']) ++ rest = '[' :: '!' :: (s ++ ']' :: rest) := by simp
    rw [e, tag_lbr_eq]
    dsimp only
    rw [tag_bang_eq]
    dsimp only
    rw [classBody_complete hi hne]
    simp only [ulen_cons', ulen_append, ulen_nil, h1, h2, h3, Option.some.injEq, Prod.mk.injEq,
      Input.mk.injEq, true_and, and_true]
    omega

theorem parseClass_sound {i j : Input} {neg : Bool} {items : List Arch}
    (h : parseClass i = some (neg, items, j)) :
    ∃ body, i.rest = body ++ j.rest ∧ ClassSpell body neg items ∧ j.loc = i.loc + ulen body ∧
      j.ci = i.ci ∧ j.sub = i.sub := by
  have h1 : ('[' : Char).utf8Size = 1 := by decide
  have h2 : (']' : Char).utf8Size = 1 := by decide
  have h3 : ('!' : Char).utf8Size = 1 := by decide
  rw [parseClass_eq] at h
  split at h
  · cases h
  · rename_i a ha
    obtain ⟨b, hb, ha'⟩ := tag1_inv "[" '[' (by decide) (by decide) ha
    split at h
    · rename_i k hk
      obtain ⟨b2, hb2, hk'⟩ := tag1_inv "!" '!' (by decide) (by decide) hk
      obtain ⟨s, e1, e2, e3, e4, e5, e6, e7⟩ := classBody_sound h
      subst e1
      rw [hk', ha'] at e4 e5 e6 e7
      rw [ha'] at hb2
      dsimp only at e4 e5 e6 e7 hb2
      refine ⟨'[' :: '!' :: s ++ [']'], by rw [hb, hb2, e4]; simp, .neg s items e2 e3, ?_, e6, e7⟩
      rw [e5]; simp only [ulen_cons', ulen_append, ulen_nil, h1, h2, h3]; omega
    · rename_i hk
      obtain ⟨s, e1, e2, e3, e4, e5, e6, e7⟩ := classBody_sound h
      subst e1
      rw [ha'] at e4 e5 e6 e7
      dsimp only at e4 e5 e6 e7
      refine ⟨'[' :: s ++ [']'], by rw [hb, e4]; simp, .pos s items e2 e3 ?_, ?_, e6, e7⟩
      · intro s' es
        have : a.rest = '!' :: (s' ++ ']' :: j.rest) := by rw [ha']; dsimp only; rw [e4, es]; rfl
        have := tag_eq (i := a) (t := "!") (b := s' ++ ']' :: j.rest)
          (by have e : "!".toList = ['!'] := by decide
              rw [e, this]; rfl)
        rw [this] at hk
        cases hk
      · rw [e5]; simp only [ulen_cons', ulen_append, ulen_nil, h1, h2]; omega

/-! ### bounds -/

theorem toUsize_iff {ds : Str} {n : Nat} :
    toUsize ds = some n ↔ ds ≠ [] ∧ decimal ds = n ∧ n ≤ usizeMax := by
  unfold toUsize decimal
  cases ds with
  | nil => simp
  | cons d ds =>
    simp only [List.isEmpty_cons, Bool.false_eq_true, if_false, ne_eq, reduceCtorEq,
      not_false_eq_true, true_and]
    constructor
    · intro h
      split at h
      · rename_i hle; injection h with h; subst h; exact ⟨rfl, hle⟩
      · cases h
    · rintro ⟨h1, h2⟩
      subst h1
      rw [if_pos h2]

theorem toUsize_nil : toUsize [] = none := rfl

theorem takeWhile_digits : ∀ (ds r : Str), (∀ ch ∈ ds, ch.isDigit = true) →
    (∀ ch r', r = ch :: r' → ch.isDigit = false) → List.takeWhile Char.isDigit (ds ++ r) = ds
  | [], r, _, hr => by
    cases r with
    | nil => rfl
    | cons ch r' => simp [List.takeWhile, hr ch r' rfl]
  | d :: ds, r, hd, hr => by
    have h1 : d.isDigit = true := hd d (by simp)
    simp only [List.cons_append, List.takeWhile, h1]
    rw [takeWhile_digits ds r (fun ch hc => hd ch (by simp [hc])) hr]

theorem mem_takeWhile_true (p : Char → Bool) : ∀ (l : Str) (ch : Char),
    ch ∈ List.takeWhile p l → p ch = true
  | [], ch, h => by simp at h
  | d :: l, ch, h => by
    cases hd : p d with
    | false => simp [List.takeWhile, hd] at h
    | true =>
      simp only [List.takeWhile, hd, List.mem_cons] at h
      rcases h with h | h
      · rw [h]; exact hd
      · exact mem_takeWhile_true p l ch h

theorem digits_complete (ds r : Str) (hd : ∀ ch ∈ ds, ch.isDigit = true)
    (hr : ∀ ch r', r = ch :: r' → ch.isDigit = false) (p : Nat) (c : Bool) (sub : Nat) :
    digits ⟨ds ++ r, p, c, sub⟩ = (ds, ⟨r, p + ulen ds, c, sub⟩) := by
  unfold digits
  dsimp only
  rw [takeWhile_digits ds r hd hr, adv_eq (i := ⟨ds ++ r, p, c, sub⟩) rfl]

theorem digits_sound (i : Input) :
    i.rest = (digits i).1 ++ (digits i).2.rest ∧ (∀ ch ∈ (digits i).1, ch.isDigit = true) ∧
      (digits i).2.loc = i.loc + ulen (digits i).1 ∧ (digits i).2.ci = i.ci ∧
      (digits i).2.sub = i.sub := by
  unfold digits
  dsimp only
  have h : i.rest = List.takeWhile Char.isDigit i.rest ++ List.dropWhile Char.isDigit i.rest :=
    (List.takeWhile_append_dropWhile).symm
  rw [adv_eq h]
  refine ⟨h, ?_, rfl, rfl, rfl⟩
  intro ch hc
  exact mem_takeWhile_true _ _ _ hc

theorem Number.of {ds : Str} {n : Nat} (h : toUsize ds = some n) (hd : ∀ ch ∈ ds, ch.isDigit = true) :
    Number ds n := by
  obtain ⟨h1, h2, h3⟩ := toUsize_iff.mp h
  exact ⟨h1, hd, h2, h3⟩

theorem Number.toUsize {ds : Str} {n : Nat} (h : Number ds n) : toUsize ds = some n :=
  toUsize_iff.mpr ⟨h.1, h.2.2.1, h.2.2.2⟩

theorem tag_colon_eq (b : Str) (p : Nat) (c : Bool) (sub : Nat) :
    (Input.mk (':' :: b) p c sub).tag ":" = some ⟨b, p + 1, c, sub⟩ :=
  tag1_eq ":" ':' (by decide) (by decide) b p c sub

theorem tag_comma_eq (b : Str) (p : Nat) (c : Bool) (sub : Nat) :
    (Input.mk (',' :: b) p c sub).tag "," = some ⟨b, p + 1, c, sub⟩ :=
  tag1_eq "," ',' (by decide) (by decide) b p c sub

theorem gt_not_digit : ∀ (ch : Char) (r' : Str), '>' :: (rest : Str) = ch :: r' → ch.isDigit = false := by
  intro ch r' h; injection h with h _; subst h; decide

theorem comma_not_digit : ∀ (ch : Char) (r' : Str), ',' :: (rest : Str) = ch :: r' → ch.isDigit = false := by
  intro ch r' h; injection h with h _; subst h; decide

theorem parseBounds_complete {bd : Str} {lo : Nat} {hi : Option Nat} (h : Bounds bd lo hi)
    (rest : Str) (p : Nat) (c : Bool) (sub : Nat) :
    parseBounds ⟨bd ++ '>' :: rest, p, c, sub⟩ = (lo, hi, ⟨'>' :: rest, p + ulen bd, c, sub⟩) := by
  have hc : (':' : Char).utf8Size = 1 := by decide
  have hm : (',' : Char).utf8Size = 1 := by decide
  rw [parseBounds_eq]
  cases h with
  | none =>
    rw [tag1_none ":" ':' (by decide) (i := ⟨[] ++ '>' :: rest, p, c, sub⟩)
      (by intro b hb; simp at hb)]
    rfl
  | open_ =>
    have e : [':'] ++ '>' :: rest = ':' :: '>' :: rest := rfl
    rw [e, tag_colon_eq]
    dsimp only
    have hd := digits_complete [] ('>' :: rest) (by simp) gt_not_digit (p + 1) c sub
    simp only [List.nil_append] at hd
    unfold boundsRange
    rw [hd]
    dsimp only
    rw [toUsize_nil]
    simp [ulen_cons', hc, ulen_nil]
  | exact ds n hn =>
    have e : (':' :: ds) ++ '>' :: rest = ':' :: (ds ++ '>' :: rest) := rfl
    rw [e, tag_colon_eq]
    dsimp only
    have hd := digits_complete ds ('>' :: rest) hn.2.1 gt_not_digit (p + 1) c sub
    unfold boundsRange
    rw [hd]
    dsimp only
    rw [hn.toUsize]
    dsimp only
    rw [tag1_none "," ',' (by decide) (i := ⟨'>' :: rest, p + 1 + ulen ds, c, sub⟩)
      (by intro b hb; simp at hb)]
    dsimp only
    simp only [ulen_cons', hc, Prod.mk.injEq, Input.mk.injEq, true_and, and_true]
    omega
  | atLeast ds n hn =>
    have e : (':' :: ds ++ [',']) ++ '>' :: rest = ':' :: (ds ++ ',' :: '>' :: rest) := by simp
    rw [e, tag_colon_eq]
    dsimp only
    have hd := digits_complete ds (',' :: '>' :: rest) hn.2.1 comma_not_digit (p + 1) c sub
    unfold boundsRange
    rw [hd]
    dsimp only
    rw [hn.toUsize]
    dsimp only
    rw [tag_comma_eq]
    dsimp only
    have hd2 := digits_complete [] ('>' :: rest) (by simp) gt_not_digit (p + 1 + ulen ds + 1) c sub
    simp only [List.nil_append] at hd2
    rw [hd2]
    simp only [List.isEmpty_nil, if_true, ulen_cons', ulen_append, ulen_nil, hc, hm, Prod.mk.injEq,
      Input.mk.injEq, true_and, and_true]
    omega
  | range ds es n m hn hm' =>
    have e : (':' :: ds ++ ',' :: es) ++ '>' :: rest = ':' :: (ds ++ ',' :: (es ++ '>' :: rest)) := by
      simp
    rw [e, tag_colon_eq]
    dsimp only
    have hd := digits_complete ds (',' :: (es ++ '>' :: rest)) hn.2.1 comma_not_digit (p + 1) c sub
    unfold boundsRange
    rw [hd]
    dsimp only
    rw [hn.toUsize]
    dsimp only
    rw [tag_comma_eq]
    dsimp only
    have hd2 := digits_complete es ('>' :: rest) hm'.2.1 gt_not_digit (p + 1 + ulen ds + 1) c sub
    rw [hd2]
    dsimp only
    have : es.isEmpty = false := by cases es with
      | nil => exact absurd rfl hm'.1
      | cons => rfl
    rw [this, hm'.toUsize]
    simp only [Bool.false_eq_true, if_false, ulen_cons', ulen_append, hc, hm, Prod.mk.injEq,
      Input.mk.injEq, true_and, and_true]
    omega

theorem boundsRange_sound {j l : Input} {lo : Nat} {hi : Option Nat}
    (h : boundsRange j = some (lo, hi, l)) :
    ∃ bd, Bounds (':' :: bd) lo hi ∧ j.rest = bd ++ l.rest ∧ l.loc = j.loc + ulen bd ∧
      l.ci = j.ci ∧ l.sub = j.sub := by
  have hm : (',' : Char).utf8Size = 1 := by decide
  unfold boundsRange at h
  obtain ⟨d1, d2, d3, d4, d5⟩ := digits_sound j
  split at h
  · cases h
  · rename_i lo' hlo
    split at h
    · cases h
    · rename_i l0 hl0
      obtain ⟨b, hb, lr, ll, lc, ls⟩ := tag1_inv' "," ',' (by decide) (by decide) hl0
      obtain ⟨f1, f2, f3, f4, f5⟩ := digits_sound l0
      split at h
      · rename_i hemp
        injection h with h; injection h with h1 h; injection h with h2 h3
        subst h1 h2 h3
        refine ⟨(digits j).1 ++ [','], .atLeast _ _ (Number.of hlo d2), ?_, ?_, ?_, ?_⟩
        · conv => lhs; rw [d1, hb]
          rw [lr]; simp
        · rw [ll, d3]; simp only [ulen_append, ulen_cons', ulen_nil, hm]; omega
        · rw [lc]; exact d4
        · rw [ls]; exact d5
      · split at h
        · rename_i hi' hhi
          injection h with h; injection h with h1 h; injection h with h2 h3
          subst h1 h2 h3
          refine ⟨(digits j).1 ++ ',' :: (digits l0).1,
            .range _ _ _ _ (Number.of hlo d2) (Number.of hhi f2), ?_, ?_, ?_, ?_⟩
          · conv => lhs; rw [d1, hb, ← lr, f1]
            simp
          · rw [f3, ll, d3]; simp only [ulen_append, ulen_cons', hm]; omega
          · rw [f4, lc, d4]
          · rw [f5, ls, d5]
        · cases h

theorem parseBounds_sound {i l : Input} {lo : Nat} {hi : Option Nat}
    (h : parseBounds i = (lo, hi, l)) :
    ∃ bd, Bounds bd lo hi ∧ i.rest = bd ++ l.rest ∧ l.loc = i.loc + ulen bd ∧ l.ci = i.ci ∧
      l.sub = i.sub := by
  have hc : (':' : Char).utf8Size = 1 := by decide
  rw [parseBounds_eq] at h
  split at h
  · injection h with h1 h; injection h with h2 h3
    subst h1 h2 h3
    exact ⟨[], .none, rfl, rfl, rfl, rfl⟩
  · rename_i j hj
    obtain ⟨b, hb, jr, jl, jc, js⟩ := tag1_inv' ":" ':' (by decide) (by decide) hj
    split at h
    · rename_i r hr
      subst h
      obtain ⟨bd, e1, e2, e3, e4, e5⟩ := boundsRange_sound hr
      refine ⟨':' :: bd, e1, by rw [hb, ← jr, e2]; rfl, ?_, by rw [e4, jc], by rw [e5, js]⟩
      rw [e3, jl, ulen_cons', hc]; omega
    · obtain ⟨d1, d2, d3, d4, d5⟩ := digits_sound j
      split at h
      · rename_i n hn
        injection h with h1 h; injection h with h2 h3
        subst h1 h2 h3
        refine ⟨':' :: (digits j).1, .exact _ _ (Number.of hn d2), by rw [hb, ← jr, d1]; rfl, ?_,
          by rw [d4, jc], by rw [d5, js]⟩
        rw [d3, jl, ulen_cons', hc]; omega
      · injection h with h1 h; injection h with h2 h3
        subst h1 h2 h3
        refine ⟨[':'], .open_, by rw [hb, jr]; rfl, ?_, jc, js⟩
        rw [jl]; simp [ulen_cons', hc, ulen_nil]

/-! ### terminators and the look-ahead of `*` / `$` -/

theorem term_iff (t : Term) (i : Input) : i.term t = true ↔ TermAt t i.rest := by
  cases t with
  | eof => simp [Input.term, TermAt]
  | altT =>
    simp only [Input.term, TermAt]
    cases i.rest with
    | nil => simp
    | cons ch r =>
      simp
      constructor
      · rintro (h | h)
        · exact ⟨r, .inl ⟨h, rfl⟩⟩
        · exact ⟨r, .inr ⟨h, rfl⟩⟩
      · rintro ⟨r', ⟨h, _⟩ | ⟨h, _⟩⟩
        · exact .inl h
        · exact .inr h
  | repT =>
    simp only [Input.term, TermAt]
    cases i.rest with
    | nil => simp
    | cons ch r =>
      simp
      constructor
      · rintro (h | h)
        · exact ⟨r, .inl ⟨h, rfl⟩⟩
        · exact ⟨r, .inr ⟨h, rfl⟩⟩
      · rintro ⟨r', ⟨h, _⟩ | ⟨h, _⟩⟩
        · exact .inl h
        · exact .inr h

theorem TermAt.head {t : Term} {r : Str} (h : TermAt t r) :
    r = [] ∨ ∃ ch r', r = ch :: r' ∧ isTermC ch = true := by
  cases t with
  | eof => exact .inl h
  | altT =>
    obtain ⟨r', h | h⟩ := h
    · exact .inr ⟨',', r', h, by decide⟩
    · exact .inr ⟨'}', r', h, by decide⟩
  | repT =>
    obtain ⟨r', h | h⟩ := h
    · exact .inr ⟨':', r', h, by decide⟩
    · exact .inr ⟨'>', r', h, by decide⟩

theorem isTermC_ne {ch : Char} (h : isTermC ch = true) :
    ch ≠ '(' ∧ ch ≠ '/' ∧ ch ≠ '*' ∧ ch ≠ '$' ∧ ch ≠ '?' := by
  rcases isTermC_cases h with rfl | rfl | rfl | rfl <;> decide

theorem TermAt.not_flagHead {t : Term} {r : Str} (h : TermAt t r) : ¬ FlagHead r := by
  rcases h.head with rfl | ⟨ch, r', rfl, hc⟩
  · exact not_flagHead_nil
  · exact not_flagHead_cons (isTermC_ne hc).1

theorem isNotStarDollar_rest {i j : Input} (h : i.rest = j.rest) :
    isNotStarDollar i = isNotStarDollar j := by
  unfold isNotStarDollar; rw [h]

theorem nsf_iff (j : Input) : isNotStarDollar (flagsN j) = true ↔ NotStarAfterFlags j.rest := by
  rw [isNotStarDollar_rest (AdjN.flagsS_rest j).symm]
  constructor
  · intro h
    obtain ⟨fl, c', e1, e2, e3, _⟩ := flagsS_sound j
    unfold isNotStarDollar at h
    cases hr : (flagsS j).rest with
    | nil => rw [hr] at h; cases h
    | cons ch r =>
      rw [hr] at h e1 e3
      simp only [Bool.and_eq_true, bne_iff_ne, ne_eq] at h
      exact ⟨j.ci, fl, c', ch, r, e2, e1, e3, h.1, h.2⟩
  · rintro ⟨c, fl, c', ch, r, e2, e1, e3, h1, h2⟩
    obtain ⟨d', hd⟩ := e2.restart j.ci
    have := flagsS_complete hd (ch :: r) e3 j.loc j.sub
    rw [← e1] at this
    have ej : j = ⟨j.rest, j.loc, j.ci, j.sub⟩ := rfl
    rw [← ej] at this
    rw [this]
    simp [isNotStarDollar, h1, h2]

theorem zomOk_iff (t : Term) (j : Input) :
    (isNotStarDollar (flagsN j) = true ∨ j.term t = true) ↔ ZomOk t j.rest := by
  unfold ZomOk; rw [nsf_iff, term_iff]

/-- after a `*` / `$` that is allowed, the text does not go on with `*` -/
theorem ZomOk.not_star {t : Term} {rest : Str} (h : ZomOk t rest) : ∀ r', rest ≠ '*' :: r' := by
  intro r' e
  rcases h with ⟨c, fl, c', ch, r, e2, e1, e3, h1, h2⟩ | h
  · rcases e2.head with rfl | ⟨q, rfl⟩
    · rw [e] at e1; injection e1 with e1 _; exact h1 e1.symm
    · rw [e] at e1; injection e1 with e1 _; revert e1; decide
  · rcases h.head with rfl | ⟨ch, r'', rfl, hc⟩
    · cases e
    · injection e with e _; subst e; revert hc; decide

/-! ### wildcards -/

theorem tag_slash_eq (b : Str) (p : Nat) (c : Bool) (sub : Nat) :
    (Input.mk ('/' :: b) p c sub).tag "/" = some ⟨b, p + 1, c, sub⟩ :=
  tag1_eq "/" '/' (by decide) (by decide) b p c sub

theorem tag_ss_eq (b : Str) (p : Nat) (c : Bool) (sub : Nat) :
    (Input.mk ('*' :: '*' :: b) p c sub).tag "**" = some ⟨b, p + 2, c, sub⟩ := by
  have e : "**".toList = ['*', '*'] := by decide
  have := tag_eq (i := ⟨'*' :: '*' :: b, p, c, sub⟩) (t := "**") (b := b) (by rw [e]; rfl)
  rw [this, e]
  have h1 : ('*' : Char).utf8Size = 1 := by decide
  simp [ulen, h1]

theorem tag_ss_inv {i j : Input} (h : i.tag "**" = some j) :
    ∃ b, i.rest = '*' :: '*' :: b ∧ j.rest = b ∧ j.loc = i.loc + 2 ∧ j.ci = i.ci ∧ j.sub = i.sub := by
  obtain ⟨b, hb, hj⟩ := tag_inv h
  have e : "**".toList = ['*', '*'] := by decide
  rw [e] at hb hj
  have h1 : ('*' : Char).utf8Size = 1 := by decide
  refine ⟨b, hb, by rw [hj], ?_, by rw [hj], by rw [hj]⟩
  rw [hj]; simp [ulen, h1]

theorem tag_ss_none {i : Input} (h : ∀ b, i.rest ≠ '*' :: '*' :: b) : i.tag "**" = none :=
  tag_none_of (by intro b; have e : "**".toList = ['*', '*'] := by decide
                  rw [e]; exact h b)

theorem wildPre_complete {a : Bool} {c : Bool} {pre : Str} {root : Bool} {c1 : Bool}
    (h : TreePre a c pre root c1) (r : Str) (p sub : Nat) (ha : a = (sub == p)) :
    wildPre ⟨pre ++ '*' :: r, p, c, sub⟩ = some (root, ⟨'*' :: r, p + ulen pre, c1, sub⟩) := by
  have hs : ('/' : Char).utf8Size = 1 := by decide
  unfold wildPre
  match h with
  | .rooted _ fl _ hf =>
    have e : ('/' :: fl) ++ '*' :: r = '/' :: (fl ++ '*' :: r) := rfl
    rw [e, tag_slash_eq]
    dsimp only
    rw [flagsS_complete hf _ (not_flagHead_cons (by decide))]
    simp only [ulen_cons', hs, Option.some.injEq, Prod.mk.injEq, Input.mk.injEq, true_and, and_true]
    omega
  | .start _ hst =>
    rw [tag1_none "/" '/' (by decide) (i := ⟨[] ++ '*' :: r, p, c, sub⟩)
      (by intro b hb; simp at hb)]
    dsimp only
    rw [hst] at ha
    rw [← ha]
    simp only [if_true]
    rw [show ([] : Str) ++ '*' :: r = '*' :: r from rfl, flagsS_id _ _ _ _ (not_flagHead_cons (by decide))]
    rfl

theorem treePost_complete {t : Term} {c1 : Bool} {post rest : Str} {c' : Bool}
    (h : TreePost t c1 post rest c') (root : Bool) (p sub : Nat) :
    (match (flagsS ⟨post ++ rest, p, c1, sub⟩).tag "/" with
      | some l => some (WildK.tree root, l)
      | none => if (Input.mk (post ++ rest) p c1 sub).term t then
          some (WildK.tree root, ⟨post ++ rest, p, c1, sub⟩) else none) =
      some (.tree root, ⟨rest, p + ulen post, c', sub⟩) := by
  have hs : ('/' : Char).utf8Size = 1 := by decide
  match h with
  | .slash _ fl _ _ hf =>
    have e : (fl ++ ['/']) ++ rest = fl ++ '/' :: rest := by simp
    rw [e, flagsS_complete hf _ (not_flagHead_cons (by decide)), tag_slash_eq]
    simp only [ulen_append, ulen_cons', ulen_nil, hs, Option.some.injEq, Prod.mk.injEq,
      Input.mk.injEq, true_and, and_true]
    omega
  | .term _ _ ht =>
    rw [show ([] : Str) ++ rest = rest from rfl, flagsS_id _ _ _ _ ht.not_flagHead]
    have : (Input.mk rest p c1 sub).tag "/" = none := by
      apply tag1_none "/" '/' (by decide)
      intro b hb
      dsimp only at hb
      rcases ht.head with h0 | ⟨ch, r', h0, hc⟩
      · rw [h0] at hb; cases hb
      · rw [h0] at hb; injection hb with hb _; exact (isTermC_ne hc).2.1 hb
    rw [this]
    dsimp only
    rw [(term_iff t ⟨rest, p, c1, sub⟩).mpr ht]
    rfl

theorem wildTree_complete {t : Term} {a : Bool} {c : Bool} {body rest : Str} {root : Bool}
    {c' : Bool} (h : TreeSpell t a c body rest root c') (p sub : Nat) (ha : a = (sub == p)) :
    wildTree t ⟨body ++ rest, p, c, sub⟩ = some (.tree root, ⟨rest, p + ulen body, c', sub⟩) := by
  have hs : ('*' : Char).utf8Size = 1 := by decide
  match h with
  | .mk _ pre _ c1 post _ _ hpre hpost =>
    unfold wildTree
    have e : (pre ++ '*' :: '*' :: post) ++ rest = pre ++ '*' :: ('*' :: (post ++ rest)) := by simp
    rw [e, wildPre_complete hpre _ p sub ha]
    dsimp only
    rw [tag_ss_eq]
    dsimp only
    refine (treePost_complete hpost root _ sub).trans ?_
    simp only [ulen_append, ulen_cons', hs, Option.some.injEq, Prod.mk.injEq, Input.mk.injEq,
      true_and, and_true]
    omega

theorem wildTree_sound {t : Term} {f j : Input} {kd : WildK} (h : wildTree t f = some (kd, j))
    (hf : ¬ FlagHead f.rest) :
    ∃ body root, kd = .tree root ∧ f.rest = body ++ j.rest ∧
      TreeSpell t (f.sub == f.loc) f.ci body j.rest root j.ci ∧ j.loc = f.loc + ulen body ∧
      j.sub = f.sub := by
  have hs : ('*' : Char).utf8Size = 1 := by decide
  have hsl : ('/' : Char).utf8Size = 1 := by decide
  unfold wildTree at h
  split at h
  · cases h
  · rename_i root a ha
    -- the prefix
    have hpre : ∃ pre, f.rest = pre ++ a.rest ∧ TreePre (f.sub == f.loc) f.ci pre root a.ci ∧
        a.loc = f.loc + ulen pre ∧ a.sub = f.sub := by
      unfold wildPre at ha
      split at ha
      · rename_i j0 hj0
        injection ha with ha; injection ha with h1 h2; subst h1 h2
        obtain ⟨b, hb, jr, jl, jc, js⟩ := tag1_inv' "/" '/' (by decide) (by decide) hj0
        obtain ⟨fl, c1, e1, e2, e3, e4, e5, e6⟩ := flagsS_sound j0
        refine ⟨'/' :: fl, by rw [hb, ← jr, e1]; rfl, ?_, ?_, by rw [e6, js]⟩
        · rw [jc] at e2; rw [e5]; exact .rooted _ _ _ e2
        · rw [e4, jl, ulen_cons', hsl]; omega
      · split at ha
        · rename_i hsub
          injection ha with ha; injection ha with h1 h2; subst h1 h2
          have ef : f = ⟨f.rest, f.loc, f.ci, f.sub⟩ := rfl
          have := flagsS_id f.rest f.loc f.ci f.sub hf
          rw [← ef] at this
          rw [this]
          exact ⟨[], rfl, .start _ hsub, rfl, rfl⟩
        · cases ha
    obtain ⟨pre, p1, p2, p3, p4⟩ := hpre
    split at h
    · cases h
    · rename_i k hk
      obtain ⟨b, hb, kr, kl, kc, ks⟩ := tag_ss_inv hk
      split at h
      · rename_i l hl
        injection h with h; injection h with h1 h2; subst h1 h2
        obtain ⟨b2, hb2, lr, ll, lc, ls⟩ := tag1_inv' "/" '/' (by decide) (by decide) hl
        obtain ⟨fl, c2, e1, e2, e3, e4, e5, e6⟩ := flagsS_sound k
        refine ⟨pre ++ '*' :: '*' :: (fl ++ ['/']), root, rfl, ?_, ?_, ?_, ?_⟩
        · rw [p1, hb, ← kr, e1, hb2, lr]; simp
        · refine .mk _ pre root a.ci _ _ _ p2 ?_
          rw [kc] at e2; rw [lc, e5]
          exact .slash _ _ _ _ e2
        · rw [ll, e4, kl, p3]
          simp only [ulen_append, ulen_cons', ulen_nil, hs, hsl]; omega
        · rw [ls, e6, ks, p4]
      · split at h
        · rename_i hterm
          injection h with h; injection h with h1 h2; subst h1 h2
          refine ⟨pre ++ '*' :: '*' :: [], root, rfl, ?_, ?_, ?_, ?_⟩
          · rw [p1, hb, kr]; simp
          · refine .mk _ pre root a.ci _ _ _ p2 ?_
            rw [kc]
            exact .term _ _ ((term_iff t _).mp hterm)
          · rw [kl, p3]; simp only [ulen_append, ulen_cons', ulen_nil, hs]; omega
          · rw [ks, p4]
        · cases h

theorem wildZom_complete {t : Term} {rest : Str} (h : ZomOk t rest) (sym : String) (a : Char)
    (ht : sym.toList = [a]) (h1 : a.utf8Size = 1) (lazy : Bool) (p : Nat) (c : Bool) (sub : Nat) :
    wildZom t ⟨a :: rest, p, c, sub⟩ sym lazy = some (.zom lazy, ⟨rest, p + 1, c, sub⟩) := by
  unfold wildZom
  rw [tag1_eq sym a ht h1]
  dsimp only
  have := (zomOk_iff t ⟨rest, p + 1, c, sub⟩).mpr h
  rcases this with h | h
  · rw [if_pos h]
  · by_cases h' : isNotStarDollar (flagsN ⟨rest, p + 1, c, sub⟩) = true
    · rw [if_pos h']
    · rw [if_neg h', if_pos h]

theorem wildZom_sound {t : Term} {i j : Input} {sym : String} {lazy : Bool} {kd : WildK}
    (a : Char) (ht : sym.toList = [a]) (h1 : a.utf8Size = 1)
    (h : wildZom t i sym lazy = some (kd, j)) :
    kd = .zom lazy ∧ i.rest = a :: j.rest ∧ ZomOk t j.rest ∧ j.loc = i.loc + 1 ∧ j.ci = i.ci ∧
      j.sub = i.sub := by
  unfold wildZom at h
  split at h
  · cases h
  · rename_i k hk
    obtain ⟨b, hb, kr, kl, kc, ks⟩ := tag1_inv' sym a ht h1 hk
    split at h
    · rename_i hn
      injection h with h; injection h with h2 h3; subst h2 h3
      exact ⟨rfl, by rw [hb, kr], (zomOk_iff t k).mp (.inl hn), kl, kc, ks⟩
    · split at h
      · rename_i hn
        injection h with h; injection h with h2 h3; subst h2 h3
        exact ⟨rfl, by rw [hb, kr], (zomOk_iff t k).mp (.inr hn), kl, kc, ks⟩
      · cases h

/-- where a `*` may stand as a zero-or-more wildcard, no tree wildcard starts -/
theorem wildTree_none_zom {t : Term} {rest : Str} (h : ZomOk t rest) (p : Nat) (c : Bool)
    (sub : Nat) : wildTree t ⟨'*' :: rest, p, c, sub⟩ = none := by
  unfold wildTree wildPre
  rw [tag1_none "/" '/' (by decide) (i := ⟨'*' :: rest, p, c, sub⟩) (by intro b hb; simp at hb)]
  dsimp only
  split
  · rfl
  · rename_i root j hj
    split at hj
    · injection hj with hj; injection hj with _ hj; subst hj
      rw [flagsS_id _ _ _ _ (not_flagHead_cons (by decide)),
        tag_ss_none (i := ⟨'*' :: rest, p, c, sub⟩)
          (by intro b hb; dsimp only at hb; injection hb with _ hb; exact h.not_star _ hb)]
    · cases hj

theorem wildTree_none_head {t : Term} {ch : Char} {r : Str} (h1 : ch ≠ '/') (h2 : ch ≠ '*')
    (h3 : ch ≠ '(') (p : Nat) (c : Bool) (sub : Nat) : wildTree t ⟨ch :: r, p, c, sub⟩ = none := by
  unfold wildTree wildPre
  rw [tag1_none "/" '/' (by decide) (i := ⟨ch :: r, p, c, sub⟩)
    (by intro b hb; dsimp only at hb; injection hb with hb _; exact h1 hb)]
  dsimp only
  split
  · rfl
  · rename_i root j hj
    split at hj
    · injection hj with hj; injection hj with _ hj; subst hj
      rw [flagsS_id _ _ _ _ (not_flagHead_cons h3),
        tag_ss_none (i := ⟨ch :: r, p, c, sub⟩)
          (by intro b hb; dsimp only at hb; injection hb with hb _; exact h2 hb)]
    · cases hj

end Wax
