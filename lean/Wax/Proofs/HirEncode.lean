import Wax.Proofs.ExecCaps
import Wax.Proofs.HirDrv
import Wax.Proofs.Captures
import Wax.Proofs.ParseShape
/-!
The hypotheses of `match_model_caps_sound` hold for what the driver command `M` (`cmdM`) runs:
the encoder never puts a capture group inside a repetition (`capsKept_encodeTop`), and an expression
that parses and passes the rule check has its repetition bounds in order (`boundsOk_encodeTop`).
Hence `cmdM_caps_sound`: C04 for the captures `cmdM` prints.
-/
namespace Wax

/-! ### `Re.groups` of `Wax/Proofs/Captures.lean` is `Re.ncaps` -/

mutual
  theorem groups_eq_ncaps : ∀ (r : Re), r.groups = r.ncaps
    | .lit .. => rfl
    | .chr _ => rfl
    | .never => rfl
    | .cat l => by simp only [Re.groups, Re.ncaps]; exact groupsL_eq_ncapsList l
    | .alt l => by simp only [Re.groups, Re.ncaps]; exact groupsL_eq_ncapsList l
    | .star r => by simp only [Re.groups, Re.ncaps]; exact groups_eq_ncaps r
    | .lazyStar r => by simp only [Re.groups, Re.ncaps]; exact groups_eq_ncaps r
    | .opt r => by simp only [Re.groups, Re.ncaps]; exact groups_eq_ncaps r
    | .rep r _ _ => by simp only [Re.groups, Re.ncaps]; exact groups_eq_ncaps r
    | .grp r => by simp only [Re.groups, Re.ncaps]; exact groups_eq_ncaps r
    | .cap r => by simp only [Re.groups, Re.ncaps, groups_eq_ncaps r]; omega
  theorem groupsL_eq_ncapsList : ∀ (l : List Re), Re.groupsL l = Re.ncapsList l
    | [] => rfl
    | r :: rs => by simp only [Re.groupsL, Re.ncapsList, groups_eq_ncaps r, groupsL_eq_ncapsList rs]
end

/-! ### bounds -/

@[simp] theorem boundsOk_G (c : Bool) (r : Re) : (G c r).boundsOk = r.boundsOk := by
  cases c <;> simp [G, Re.boundsOk]

@[simp] theorem capsKept_G (c : Bool) (r : Re) : (G c r).capsKept = r.capsKept := by
  cases c <;> simp [G, Re.capsKept]

theorem boundsOk_encodeTree (c : Bool) (sup : Option Pos) (p : Pos) (r : Bool) :
    (encodeTree c sup p r).boundsOk = true := by
  cases c <;> cases p <;> cases r <;> rcases sup with _ | (_ | _ | _ | _) <;> rfl

theorem capsKept_encodeTree (c : Bool) (sup : Option Pos) (p : Pos) (r : Bool) :
    (encodeTree c sup p r).capsKept = true := by
  cases c <;> cases p <;> cases r <;> rcases sup with _ | (_ | _ | _ | _) <;> rfl

theorem boundsOk_rep_shaped {lo : Nat} {hi : Option Nat}
    (hs : (match hi with | some x => decide (lo ≤ x) && decide (0 < x) | none => true) = true) (r : Re) :
    (Re.rep r lo hi).boundsOk = r.boundsOk := by
  cases hi with
  | none => simp [Re.boundsOk]
  | some x =>
    simp only [Bool.and_eq_true, decide_eq_true_eq] at hs
    simp [Re.boundsOk, hs.1]

mutual
  theorem boundsOk_encodeTok : ∀ (t : Tok) (c : Bool) (sup : Option Pos) (p : Pos), shaped t = true →
      (encodeTok c sup p t).boundsOk = true
    | .lit .., _, _, _, _ => by simp [encodeTok, Re.boundsOk]
    | .sep _, _, _, _, _ => by simp [encodeTok, Re.boundsOk]
    | .cls _ _ items, _, _, _, _ => by
      by_cases h : classValid items = true <;> simp [encodeTok, h, Re.boundsOk]
    | .one _, _, _, _, _ => by simp [encodeTok, Re.boundsOk]
    | .zom _ false, _, _, _, _ => by simp [encodeTok, Re.boundsOk]
    | .zom _ true, _, _, _, _ => by simp [encodeTok, Re.boundsOk]
    | .tree _ r, c, sup, p, _ => by simp [encodeTok, boundsOk_encodeTree]
    | .alt _ bs, c, sup, p, h => by
      simp only [shaped, Bool.and_eq_true] at h
      simp only [encodeTok, boundsOk_G, Re.boundsOk]
      exact boundsOk_encodeBranches bs (supOr sup p) h.2
    | .rep _ (.cat bsp ts) lo hi, c, sup, p, h => by
      simp only [shaped, Bool.and_eq_true] at h
      simp only [encodeTok, boundsOk_G]
      rw [boundsOk_rep_shaped h.2]
      simp only [Re.boundsOk]
      exact boundsOk_encodeList ts false (supOr sup p) 0 ts.length h.1.2
    | .rep _ (.lit bsp s ci) lo hi, c, sup, p, h => by
      simp only [shaped, Bool.and_eq_true] at h
      simp only [encodeTok, boundsOk_G]
      rw [boundsOk_rep_shaped h.2]
      simp [Re.boundsOk, Re.boundsOkList]
    | .rep _ (.sep bsp) lo hi, c, sup, p, h => by
      simp only [shaped, Bool.and_eq_true] at h
      simp only [encodeTok, boundsOk_G]
      rw [boundsOk_rep_shaped h.2]
      simp [Re.boundsOk, Re.boundsOkList]
    | .rep _ (.cls bsp ng items) lo hi, c, sup, p, h => by
      simp only [shaped, Bool.and_eq_true] at h
      have := boundsOk_encodeTok (.cls bsp ng items) false (supOr sup p) .only rfl
      simp only [encodeTok, boundsOk_G] at this ⊢
      rw [boundsOk_rep_shaped h.2]
      simp only [Re.boundsOk, Re.boundsOkList, Bool.and_true]
      exact this
    | .rep _ (.one bsp) lo hi, c, sup, p, h => by
      simp only [shaped, Bool.and_eq_true] at h
      simp only [encodeTok, boundsOk_G]
      rw [boundsOk_rep_shaped h.2]
      simp [Re.boundsOk, Re.boundsOkList]
    | .rep _ (.zom bsp false) lo hi, c, sup, p, h => by
      simp only [shaped, Bool.and_eq_true] at h
      simp only [encodeTok, boundsOk_G]
      rw [boundsOk_rep_shaped h.2]
      simp [Re.boundsOk, Re.boundsOkList]
    | .rep _ (.zom bsp true) lo hi, c, sup, p, h => by
      simp only [shaped, Bool.and_eq_true] at h
      simp only [encodeTok, boundsOk_G]
      rw [boundsOk_rep_shaped h.2]
      simp [Re.boundsOk, Re.boundsOkList]
    | .rep _ (.tree bsp r) lo hi, c, sup, p, h => by
      simp only [shaped, Bool.and_eq_true] at h
      simp only [encodeTok, boundsOk_G]
      rw [boundsOk_rep_shaped h.2]
      simp [Re.boundsOk, Re.boundsOkList, boundsOk_encodeTree]
    | .rep _ (.alt bsp bs2) lo hi, c, sup, p, h => by
      simp only [shaped, Bool.and_eq_true] at h
      have := boundsOk_encodeTok (.alt bsp bs2) false (supOr sup p) .only (by
        simp only [shaped, Bool.and_eq_true]; exact h.1)
      simp only [encodeTok, boundsOk_G] at this ⊢
      rw [boundsOk_rep_shaped h.2]
      simp only [Re.boundsOk, Re.boundsOkList, Bool.and_true]
      exact this
    | .rep _ (.rep bsp b2 lo2 hi2) lo hi, c, sup, p, h => by
      simp only [shaped, Bool.and_eq_true] at h
      have := boundsOk_encodeTok (.rep bsp b2 lo2 hi2) false (supOr sup p) .only (by
        simp only [shaped, Bool.and_eq_true]; exact h.1)
      simp only [encodeTok, boundsOk_G] at this ⊢
      rw [boundsOk_rep_shaped h.2]
      simp only [Re.boundsOk, Re.boundsOkList, Bool.and_true]
      exact this
    | .cat _ ts, c, sup, p, h => by
      simp only [shaped, Bool.and_eq_true] at h
      simp only [encodeTok, Re.boundsOk]
      exact boundsOk_encodeList ts c sup 0 ts.length h.2
  theorem boundsOk_encodeList : ∀ (ts : List Tok) (c : Bool) (sup : Option Pos) (i n : Nat), shapedL ts = true →
      Re.boundsOkList (encodeList c sup ts i n) = true
    | [], _, _, _, _, _ => by simp [encodeList, Re.boundsOkList]
    | t :: ts, c, sup, i, n, h => by
      simp only [shapedL, Bool.and_eq_true] at h
      simp only [encodeList, Re.boundsOkList, Bool.and_eq_true]
      exact ⟨boundsOk_encodeTok t c sup (posOf i n) h.1, boundsOk_encodeList ts c sup (i + 1) n h.2⟩
  theorem boundsOk_encodeBranches : ∀ (bs : List Tok) (sup : Option Pos), shapedL bs = true →
      Re.boundsOkList (encodeBranches sup bs) = true
    | [], _, _ => by simp [encodeBranches, Re.boundsOkList]
    | .cat bsp ts :: bs, sup, h => by
      simp only [shapedL, shaped, Bool.and_eq_true] at h
      simp only [encodeBranches, Re.boundsOkList, Re.boundsOk, Bool.and_eq_true]
      exact ⟨boundsOk_encodeList ts false sup 0 ts.length h.1.2, boundsOk_encodeBranches bs sup h.2⟩
    | .lit bsp s ci :: bs, sup, h => by
      simp only [shapedL, Bool.and_eq_true] at h
      simp [encodeBranches, Re.boundsOkList, Re.boundsOk, encodeTok, boundsOk_encodeBranches bs sup h.2]
    | .sep bsp :: bs, sup, h => by
      simp only [shapedL, Bool.and_eq_true] at h
      simp [encodeBranches, Re.boundsOkList, Re.boundsOk, encodeTok, boundsOk_encodeBranches bs sup h.2]
    | .cls bsp ng items :: bs, sup, h => by
      simp only [shapedL, Bool.and_eq_true] at h
      have := boundsOk_encodeTok (.cls bsp ng items) false sup .only rfl
      simp only [encodeBranches, Re.boundsOkList, Re.boundsOk, Bool.and_eq_true, and_true]
      exact ⟨this, boundsOk_encodeBranches bs sup h.2⟩
    | .one bsp :: bs, sup, h => by
      simp only [shapedL, Bool.and_eq_true] at h
      simp [encodeBranches, Re.boundsOkList, Re.boundsOk, encodeTok, boundsOk_encodeBranches bs sup h.2]
    | .zom bsp false :: bs, sup, h => by
      simp only [shapedL, Bool.and_eq_true] at h
      simp [encodeBranches, Re.boundsOkList, Re.boundsOk, encodeTok, boundsOk_encodeBranches bs sup h.2]
    | .zom bsp true :: bs, sup, h => by
      simp only [shapedL, Bool.and_eq_true] at h
      simp [encodeBranches, Re.boundsOkList, Re.boundsOk, encodeTok, boundsOk_encodeBranches bs sup h.2]
    | .tree bsp r :: bs, sup, h => by
      simp only [shapedL, Bool.and_eq_true] at h
      simp [encodeBranches, Re.boundsOkList, Re.boundsOk, encodeTok, boundsOk_encodeTree,
        boundsOk_encodeBranches bs sup h.2]
    | .alt bsp bs2 :: bs, sup, h => by
      simp only [shapedL, Bool.and_eq_true] at h
      have := boundsOk_encodeTok (.alt bsp bs2) false sup .only h.1
      simp only [encodeBranches, Re.boundsOkList, Re.boundsOk, Bool.and_eq_true, and_true]
      exact ⟨this, boundsOk_encodeBranches bs sup h.2⟩
    | .rep bsp b2 lo2 hi2 :: bs, sup, h => by
      simp only [shapedL, Bool.and_eq_true] at h
      have := boundsOk_encodeTok (.rep bsp b2 lo2 hi2) false sup .only h.1
      simp only [encodeBranches, Re.boundsOkList, Re.boundsOk, Bool.and_eq_true, and_true]
      exact ⟨this, boundsOk_encodeBranches bs sup h.2⟩
end

theorem boundsOk_encodeTop (t : Tok) (h : shaped t = true) : (encodeTop t).boundsOk = true := by
  cases t with
  | cat sp ts =>
    simp only [shaped, Bool.and_eq_true] at h
    simp only [encodeTop, Re.boundsOk]
    exact boundsOk_encodeList ts true none 0 ts.length h.2
  | lit sp s ci => simp [encodeTop, Re.boundsOk, Re.boundsOkList, boundsOk_encodeTok (.lit sp s ci) true none .only h]
  | sep sp => simp [encodeTop, Re.boundsOk, Re.boundsOkList, boundsOk_encodeTok (.sep sp) true none .only h]
  | cls sp n i => simp [encodeTop, Re.boundsOk, Re.boundsOkList, boundsOk_encodeTok (.cls sp n i) true none .only h]
  | one sp => simp [encodeTop, Re.boundsOk, Re.boundsOkList, boundsOk_encodeTok (.one sp) true none .only h]
  | zom sp l => simp [encodeTop, Re.boundsOk, Re.boundsOkList, boundsOk_encodeTok (.zom sp l) true none .only h]
  | tree sp r => simp [encodeTop, Re.boundsOk, Re.boundsOkList, boundsOk_encodeTok (.tree sp r) true none .only h]
  | alt sp bs => simp [encodeTop, Re.boundsOk, Re.boundsOkList, boundsOk_encodeTok (.alt sp bs) true none .only h]
  | rep sp b lo hi =>
    simp [encodeTop, Re.boundsOk, Re.boundsOkList, boundsOk_encodeTok (.rep sp b lo hi) true none .only h]

/-! ### no group inside a repetition -/

theorem capsKept_rep {r : Re} {lo : Nat} {hi : Option Nat} (h0 : (G false (Re.rep r lo hi)).ncaps = 0) :
    (Re.rep r lo hi).capsKept = r.capsKept := by
  simp only [G, Bool.false_eq_true, if_false, Re.ncaps] at h0
  simp [Re.capsKept, h0]

mutual
  theorem capsKept_encodeTok : ∀ (t : Tok) (c : Bool) (sup : Option Pos) (p : Pos),
      (encodeTok c sup p t).capsKept = true
    | .lit .., _, _, _ => by simp [encodeTok, Re.capsKept]
    | .sep _, _, _, _ => by simp [encodeTok, Re.capsKept]
    | .cls _ _ items, _, _, _ => by
      by_cases h : classValid items = true <;> simp [encodeTok, h, Re.capsKept]
    | .one _, _, _, _ => by simp [encodeTok, Re.capsKept]
    | .zom _ false, _, _, _ => by simp [encodeTok, Re.capsKept]
    | .zom _ true, _, _, _ => by simp [encodeTok, Re.capsKept]
    | .tree _ r, c, sup, p => by simp [encodeTok, capsKept_encodeTree]
    | .alt _ bs, c, sup, p => by
      simp only [encodeTok, capsKept_G, Re.capsKept]
      exact capsKept_encodeBranches bs (supOr sup p)
    | .rep sp (.cat bsp ts) lo hi, c, sup, p => by
      have h0 := groups_encodeTok_false (.rep sp (.cat bsp ts) lo hi) sup p
      rw [groups_eq_ncaps] at h0
      simp only [encodeTok] at h0 ⊢
      rw [capsKept_G, capsKept_rep h0]
      simp only [Re.capsKept]
      exact capsKept_encodeList ts false (supOr sup p) 0 ts.length
    | .rep sp (.lit bsp s ci) lo hi, c, sup, p => by
      have h0 := groups_encodeTok_false (.rep sp (.lit bsp s ci) lo hi) sup p
      rw [groups_eq_ncaps] at h0
      simp only [encodeTok] at h0 ⊢
      rw [capsKept_G, capsKept_rep h0]
      simp [Re.capsKept, Re.capsKeptL]
    | .rep sp (.sep bsp) lo hi, c, sup, p => by
      have h0 := groups_encodeTok_false (.rep sp (.sep bsp) lo hi) sup p
      rw [groups_eq_ncaps] at h0
      simp only [encodeTok] at h0 ⊢
      rw [capsKept_G, capsKept_rep h0]
      simp [Re.capsKept, Re.capsKeptL]
    | .rep sp (.cls bsp ng items) lo hi, c, sup, p => by
      have h0 := groups_encodeTok_false (.rep sp (.cls bsp ng items) lo hi) sup p
      have := capsKept_encodeTok (.cls bsp ng items) false (supOr sup p) .only
      rw [groups_eq_ncaps] at h0
      simp only [encodeTok] at h0 this ⊢
      rw [capsKept_G, capsKept_rep h0]
      simp only [Re.capsKept, Re.capsKeptL, Bool.and_true]
      exact this
    | .rep sp (.one bsp) lo hi, c, sup, p => by
      have h0 := groups_encodeTok_false (.rep sp (.one bsp) lo hi) sup p
      rw [groups_eq_ncaps] at h0
      simp only [encodeTok] at h0 ⊢
      rw [capsKept_G, capsKept_rep h0]
      simp [Re.capsKept, Re.capsKeptL]
    | .rep sp (.zom bsp false) lo hi, c, sup, p => by
      have h0 := groups_encodeTok_false (.rep sp (.zom bsp false) lo hi) sup p
      rw [groups_eq_ncaps] at h0
      simp only [encodeTok] at h0 ⊢
      rw [capsKept_G, capsKept_rep h0]
      simp [Re.capsKept, Re.capsKeptL]
    | .rep sp (.zom bsp true) lo hi, c, sup, p => by
      have h0 := groups_encodeTok_false (.rep sp (.zom bsp true) lo hi) sup p
      rw [groups_eq_ncaps] at h0
      simp only [encodeTok] at h0 ⊢
      rw [capsKept_G, capsKept_rep h0]
      simp [Re.capsKept, Re.capsKeptL]
    | .rep sp (.tree bsp r) lo hi, c, sup, p => by
      have h0 := groups_encodeTok_false (.rep sp (.tree bsp r) lo hi) sup p
      rw [groups_eq_ncaps] at h0
      simp only [encodeTok] at h0 ⊢
      rw [capsKept_G, capsKept_rep h0]
      simp [Re.capsKept, Re.capsKeptL, capsKept_encodeTree]
    | .rep sp (.alt bsp bs2) lo hi, c, sup, p => by
      have h0 := groups_encodeTok_false (.rep sp (.alt bsp bs2) lo hi) sup p
      have := capsKept_encodeTok (.alt bsp bs2) false (supOr sup p) .only
      rw [groups_eq_ncaps] at h0
      simp only [encodeTok] at h0 this ⊢
      rw [capsKept_G, capsKept_rep h0]
      simp only [Re.capsKept, Re.capsKeptL, Bool.and_true]
      exact this
    | .rep sp (.rep bsp b2 lo2 hi2) lo hi, c, sup, p => by
      have h0 := groups_encodeTok_false (.rep sp (.rep bsp b2 lo2 hi2) lo hi) sup p
      have := capsKept_encodeTok (.rep bsp b2 lo2 hi2) false (supOr sup p) .only
      rw [groups_eq_ncaps] at h0
      simp only [encodeTok] at h0 this ⊢
      rw [capsKept_G, capsKept_rep h0]
      simp only [Re.capsKept, Re.capsKeptL, Bool.and_true]
      exact this
    | .cat _ ts, c, sup, p => by
      simp only [encodeTok, Re.capsKept]
      exact capsKept_encodeList ts c sup 0 ts.length
  theorem capsKept_encodeList : ∀ (ts : List Tok) (c : Bool) (sup : Option Pos) (i n : Nat),
      Re.capsKeptL (encodeList c sup ts i n) = true
    | [], _, _, _, _ => by simp [encodeList, Re.capsKeptL]
    | t :: ts, c, sup, i, n => by
      simp only [encodeList, Re.capsKeptL, Bool.and_eq_true]
      exact ⟨capsKept_encodeTok t c sup (posOf i n), capsKept_encodeList ts c sup (i + 1) n⟩
  theorem capsKept_encodeBranches : ∀ (bs : List Tok) (sup : Option Pos),
      Re.capsKeptL (encodeBranches sup bs) = true
    | [], _ => by simp [encodeBranches, Re.capsKeptL]
    | .cat bsp ts :: bs, sup => by
      simp only [encodeBranches, Re.capsKeptL, Re.capsKept, Bool.and_eq_true]
      exact ⟨capsKept_encodeList ts false sup 0 ts.length, capsKept_encodeBranches bs sup⟩
    | .lit bsp s ci :: bs, sup => by
      simp [encodeBranches, Re.capsKeptL, Re.capsKept, encodeTok, capsKept_encodeBranches bs sup]
    | .sep bsp :: bs, sup => by
      simp [encodeBranches, Re.capsKeptL, Re.capsKept, encodeTok, capsKept_encodeBranches bs sup]
    | .cls bsp ng items :: bs, sup => by
      have := capsKept_encodeTok (.cls bsp ng items) false sup .only
      simp only [encodeBranches, Re.capsKeptL, Re.capsKept, Bool.and_eq_true, and_true]
      exact ⟨this, capsKept_encodeBranches bs sup⟩
    | .one bsp :: bs, sup => by
      simp [encodeBranches, Re.capsKeptL, Re.capsKept, encodeTok, capsKept_encodeBranches bs sup]
    | .zom bsp false :: bs, sup => by
      simp [encodeBranches, Re.capsKeptL, Re.capsKept, encodeTok, capsKept_encodeBranches bs sup]
    | .zom bsp true :: bs, sup => by
      simp [encodeBranches, Re.capsKeptL, Re.capsKept, encodeTok, capsKept_encodeBranches bs sup]
    | .tree bsp r :: bs, sup => by
      simp [encodeBranches, Re.capsKeptL, Re.capsKept, encodeTok, capsKept_encodeTree,
        capsKept_encodeBranches bs sup]
    | .alt bsp bs2 :: bs, sup => by
      have := capsKept_encodeTok (.alt bsp bs2) false sup .only
      simp only [encodeBranches, Re.capsKeptL, Re.capsKept, Bool.and_eq_true, and_true]
      exact ⟨this, capsKept_encodeBranches bs sup⟩
    | .rep bsp b2 lo2 hi2 :: bs, sup => by
      have := capsKept_encodeTok (.rep bsp b2 lo2 hi2) false sup .only
      simp only [encodeBranches, Re.capsKeptL, Re.capsKept, Bool.and_eq_true, and_true]
      exact ⟨this, capsKept_encodeBranches bs sup⟩
end

/-- the encoder never puts a capture group inside a repetition -/
theorem capsKept_encodeTop (t : Tok) : (encodeTop t).capsKept = true := by
  cases t with
  | cat sp ts =>
    simp only [encodeTop, Re.capsKept]
    exact capsKept_encodeList ts true none 0 ts.length
  | lit sp s ci => simp [encodeTop, Re.capsKept, Re.capsKeptL, capsKept_encodeTok (.lit sp s ci) true none .only]
  | sep sp => simp [encodeTop, Re.capsKept, Re.capsKeptL, capsKept_encodeTok (.sep sp) true none .only]
  | cls sp n i => simp [encodeTop, Re.capsKept, Re.capsKeptL, capsKept_encodeTok (.cls sp n i) true none .only]
  | one sp => simp [encodeTop, Re.capsKept, Re.capsKeptL, capsKept_encodeTok (.one sp) true none .only]
  | zom sp l => simp [encodeTop, Re.capsKept, Re.capsKeptL, capsKept_encodeTok (.zom sp l) true none .only]
  | tree sp r => simp [encodeTop, Re.capsKept, Re.capsKeptL, capsKept_encodeTok (.tree sp r) true none .only]
  | alt sp bs => simp [encodeTop, Re.capsKept, Re.capsKeptL, capsKept_encodeTok (.alt sp bs) true none .only]
  | rep sp b lo hi =>
    simp [encodeTop, Re.capsKept, Re.capsKeptL, capsKept_encodeTok (.rep sp b lo hi) true none .only]

/-! ### C04 for the driver command `M` -/

/-- **C04 on the model, end to end**: for an expression that parses and passes the rule check, every
    capture that the match command of the driver prints (`cmdM`: `exec` with the driver tables on the
    `regex-syntax` normal form of the encoded pattern) is a contiguous piece of the path and is
    matched by the capture group with the same number of the pattern wax compiled; the whole path is
    in the language of that pattern; and there is one entry per group.  The only hypothesis left is
    on the tables: the characters of case-insensitive literals are in the driver alphabet and are
    not `ß` (where `drvCeq` and `drvOrbit` disagree). -/
theorem cmdM_caps_sound (e : Str) (t : Tok) (hp : parse e = .ok t) (hc : checkS t = true)
    (hci : ∀ c ∈ (encodeTop t).ciChars, c ∈ drvAlphabet ∧ c.toNat ≠ 0xdf)
    {s : Str} {caps : List (Option Str)}
    (he : ((encodeTop t).hirNorm drvOrbit drvSem).exec drvSem s = some caps) :
    Matches drvSem (encodeTop t) s ∧ caps.length = (encodeTop t).ncaps + 1 ∧
      ∀ i u, caps[i]? = some (some u) → u <:+: s ∧ Matches drvSem ((encodeTop t).group i) u := by
  have hsh : shaped t = true := okBody_shaped t ⟨none, none⟩ (parse_pshape e t hp) hc
  have hh : HirHyp drvOrbit drvSem (encodeTop t) := hirHyp_drv (boundsOk_encodeTop t hsh) hci
  have hk := capsKept_encodeTop t
  exact ⟨match_model_sound hh he, match_model_caps_length hk he,
    fun i u hi => match_model_caps_sound hh hk he hi⟩

/-- everything `cmdM_caps_sound` asks of the expression `e` and the path `s`, as one computation -/
def cmdMHyps (e s : Str) : Bool :=
  match parse e with
  | .ok t => checkS t && (encodeTop t).loopsSimple && (encodeTop t).ciChars.isEmpty &&
      (encodeTop t).matchB drvSem s
  | .err _ => false

/-- the hypotheses of `cmdM_caps_sound` hold for the expression `{*a,*b}` and the path `xab` (the
    pattern whose captures the prefix factoring changes).  That the match command reports a match at
    all follows from `match_model_complete_partial'` -/
example : ∃ t caps, parse ['{', '*', 'a', ',', '*', 'b', '}'] = .ok t ∧ checkS t = true ∧
    (∀ c ∈ (encodeTop t).ciChars, c ∈ drvAlphabet ∧ c.toNat ≠ 0xdf) ∧
    ((encodeTop t).hirNorm drvOrbit drvSem).exec drvSem ['x', 'a', 'b'] = some caps := by
  have hk : cmdMHyps ['{', '*', 'a', ',', '*', 'b', '}'] ['x', 'a', 'b'] = true := by decide +kernel
  unfold cmdMHyps at hk
  cases hp : parse ['{', '*', 'a', ',', '*', 'b', '}'] with
  | err l => rw [hp] at hk; cases hk
  | ok t =>
    rw [hp] at hk
    simp only [Bool.and_eq_true, List.isEmpty_iff] at hk
    obtain ⟨⟨⟨hc, hl⟩, hci⟩, hm⟩ := hk
    have hsh : shaped t = true := okBody_shaped t ⟨none, none⟩ (parse_pshape _ t hp) hc
    have hh : HirHyp drvOrbit drvSem (encodeTop t) := hirHyp_of_cs (boundsOk_encodeTop t hsh) hci
    obtain ⟨caps, hcaps⟩ := match_model_complete_partial' hh hl ((matchB_iff _ _ _).mp hm)
    refine ⟨t, caps, rfl, hc, ?_, hcaps⟩
    rw [hci]
    intro c h
    cases h

end Wax
