import Wax.GeneratedBehavior
import Wax.Behavior
/-! The tie by TRANSLATION (src/walk/behavior.rs): `tools/rs2lean.py` has just translated these straight-line integer functions of the Rust
source into `Wax/GeneratedBehavior.lean`. Each theorem says that the hand-written model IS the translated function, for all arguments; an edit
of the source that changes what one of them computes makes the proof fail here, naming the function; an edit outside the
translatable fragment leaves the function out of the generated file, so that the theorem no longer elaborates. Only the
properties whose theorems live here are affected. -/
namespace Wax
open Wax.Walk

namespace DepthBehavior

theorem atPivot_min_is_source (n p : Nat) :
    atPivot (.min n) p = (Generated.minAtPivot n p, none) := by
  simp [atPivot, Generated.minAtPivot, Generated.satSub]

theorem atPivot_max_is_source (n p : Nat) :
    atPivot (.max n) p = (0, some (Generated.maxAtPivot n p)) := by
  simp [atPivot, Generated.maxAtPivot, Generated.satSub]

/-- `DepthMinMax::max` does not saturate for values built from two `usize` depths -/
theorem upper_minMax_is_source (a e : Nat) (h : a + e ≤ Generated.usizeMax) :
    upper (.minMax a e) = some (Generated.depthMinMaxMax a e) := by
  simp [upper, Generated.depthMinMaxMax, Generated.satAdd, h]

theorem atPivot_minMax_is_source (a e p : Nat) (h : a + e ≤ Generated.usizeMax) :
    atPivot (.minMax a e) p =
      ((Generated.minMaxAtPivot a e p).1,
        clampMax (Generated.minMaxAtPivot a e p).1 (some (Generated.minMaxAtPivot a e p).2)) := by
  simp [atPivot, Generated.minMaxAtPivot, Generated.depthMinMaxMax, Generated.satAdd, Generated.satSub, h]

/-- the model's word limit is the translator's -/
theorem usizeMax_is_source : usizeMax = Generated.usizeMax := rfl

end DepthBehavior

end Wax
