import Wax.WalkTree
import Wax.Proofs.Prune
/-!
C02: pruning directories by the glob's leading component programs loses no match.  The walker
cancels a directory tree when one of the entry's names is rejected by the program of the
boundary-free component at the same position; the entries it then yields that match the glob are
exactly the entries an unpruned walk yields that match the glob.
-/
set_option linter.unusedSimpArgs false

namespace Wax.WalkTree
open Wax

mutual
  /-- file names contain no separator -/
  def NamesOk : Node → Prop
    | .file n => SepFree n
    | .dir n cs => SepFree n ∧ NamesOkL cs
    | .errChild _ => True
    | .errHere => True
  def NamesOkL : List Node → Prop
    | [] => True
    | n :: ns => NamesOk n ∧ NamesOkL ns
end

def PathOk (p : List Str) : Prop := ∀ n ∈ p, SepFree n

theorem pathOk_append {p q : List Str} : PathOk (p ++ q) ↔ PathOk p ∧ PathOk q := by
  simp only [PathOk, List.mem_append]
  constructor
  · intro h; exact ⟨fun n hn => h n (Or.inl hn), fun n hn => h n (Or.inr hn)⟩
  · rintro ⟨h1, h2⟩ n (hn | hn)
    · exact h1 n hn
    · exact h2 n hn

theorem pathOk_single {n : Str} : PathOk [n] ↔ SepFree n := by simp [PathOk]

mutual
  theorem all_dropped' (P : Str → Bool) : ∀ (n : Node) (p : List Str),
      (∀ q, PathOk q → P (relOf (p ++ q)) = true) → NamesOk n → okKept P (visit never p n) = []
    | .file nm, p, h, hn => by
      simp only [NamesOk] at hn
      simp [visit, okKept, h [nm] (pathOk_single.mpr hn)]
    | .errChild nm, p, _, _ => by simp [visit, okKept]
    | .errHere, p, _, _ => by simp [visit, okKept]
    | .dir nm cs, p, h, hn => by
      simp only [NamesOk] at hn
      simp only [visit, never, Bool.false_eq_true, ↓reduceIte, okKept, h [nm] (pathOk_single.mpr hn.1)]
      exact all_droppedL' P cs (p ++ [nm])
        (fun q hq => by
          simpa using h ([nm] ++ q) (pathOk_append.mpr ⟨pathOk_single.mpr hn.1, hq⟩)) hn.2
  theorem all_droppedL' (P : Str → Bool) : ∀ (ns : List Node) (p : List Str),
      (∀ q, PathOk q → P (relOf (p ++ q)) = true) → NamesOkL ns → okKept P (visitList never p ns) = []
    | [], _, _, _ => rfl
    | n :: ns, p, h, hn => by
      simp only [NamesOkL] at hn
      simp only [visitList, okKept_append, all_dropped' P n p h hn.1, all_droppedL' P ns p h hn.2,
        List.append_nil]
end

mutual
  /-- pruning by a verdict on the *name list* that implies the filter and is closed under
      extension is per-entry filtering -/
  theorem prune_exact (P : Str → Bool) (E : List Str → Bool)
      (hEP : ∀ p, PathOk p → E p = true → P (relOf p) = true)
      (hcl : ∀ p q, E p = true → E (p ++ q) = true) : ∀ (n : Node) (p : List Str),
      PathOk p → NamesOk n →
      okKept P (visit (fun e => E e.path) p n) = okKept P (visit never p n)
    | .file nm, p, _, _ => by simp [visit]
    | .errChild nm, p, _, _ => by simp [visit]
    | .errHere, p, _, _ => by simp [visit]
    | .dir nm cs, p, hp, hn => by
      simp only [NamesOk] at hn
      have hpn : PathOk (p ++ [nm]) := pathOk_append.mpr ⟨hp, pathOk_single.mpr hn.1⟩
      by_cases hE : E (p ++ [nm]) = true
      · have hP : P (relOf (p ++ [nm])) = true := hEP _ hpn hE
        have hall : ∀ q, PathOk q → P (relOf ((p ++ [nm]) ++ q)) = true :=
          fun q hq => hEP _ (pathOk_append.mpr ⟨hpn, hq⟩) (hcl _ q hE)
        simp [visit, never, hE, okKept, hP, all_droppedL' P cs (p ++ [nm]) hall hn.2]
      · simp only [visit, never, hE, Bool.false_eq_true, ↓reduceIte]
        by_cases hP : P (relOf (p ++ [nm])) = true
        · simp only [okKept, hP, ↓reduceIte]
          exact prune_exactL P E hEP hcl cs (p ++ [nm]) hpn hn.2
        · simp only [okKept, hP, Bool.false_eq_true, ↓reduceIte]
          rw [prune_exactL P E hEP hcl cs (p ++ [nm]) hpn hn.2]
  theorem prune_exactL (P : Str → Bool) (E : List Str → Bool)
      (hEP : ∀ p, PathOk p → E p = true → P (relOf p) = true)
      (hcl : ∀ p q, E p = true → E (p ++ q) = true) : ∀ (ns : List Node) (p : List Str),
      PathOk p → NamesOkL ns →
      okKept P (visitList (fun e => E e.path) p ns) = okKept P (visitList never p ns)
    | [], _, _, _ => rfl
    | n :: ns, p, hp, hn => by
      simp only [NamesOkL] at hn
      simp only [visitList, okKept_append, prune_exact P E hEP hcl n p hp hn.1,
        prune_exactL P E hEP hcl ns p hp hn.2]
end

/-! ### the glob side -/

/-- boundary-free components joined by separators, then the rest of the glob -/
def joinSep : List (List Tok × Span) → List Tok → List Tok
  | [], rest => rest
  | (c, sp) :: cs, rest => c ++ .sep sp :: joinSep cs rest

/-- some name is rejected by the program at its position -/
def hasBad : List (Str → Bool) → List Str → Bool
  | g :: gs, n :: ns => !g n || hasBad gs ns
  | _, _ => false

theorem hasBad_append : ∀ (gs : List (Str → Bool)) (a b : List Str),
    hasBad gs a = true → hasBad gs (a ++ b) = true
  | [], a, b, h => by cases a <;> simp [hasBad] at h
  | g :: gs, [], b, h => by simp [hasBad] at h
  | g :: gs, n :: ns, b, h => by
    simp only [hasBad, Bool.or_eq_true, List.cons_append] at h ⊢
    rcases h with h | h
    · exact Or.inl h
    · exact Or.inr (hasBad_append gs ns b h)

/-- each program accepts at least what its component matches (first component in the glob's own
    "first" context, the others not first; never last) -/
def ProgsOk (σ : Sem) : Bool → List (List Tok × Span) → List (Str → Bool) → Prop
  | _, _, [] => True
  | f, (c, _) :: cs, g :: gs =>
    (noBoundaryL c = true ∧ ∀ n, SMs σ ⟨f, false⟩ c n → g n = true) ∧ ProgsOk σ false cs gs
  | _, [], _ :: _ => False

theorem split_unique {u v n m : Str} (hu : SepFree u) (hn : SepFree n)
    (h : u ++ '/' :: v = n ++ '/' :: m) : u = n ∧ v = m := by
  have h1 := takeWhile_nonsep (v := v) hu
  have h2 := takeWhile_nonsep (v := m) hn
  rw [h] at h1
  have hun : u = n := by rw [← h1, h2]
  subst hun
  exact ⟨rfl, by simpa using h⟩

/-- a path the glob matches has no rejected name -/
theorem matched_not_bad (σ : Sem) (hσ : SepIsolated σ) (rest : List Tok) :
    ∀ (gs : List (Str → Bool)) (comps : List (List Tok × Span)) (f l : Bool) (p : List Str),
      ProgsOk σ f comps gs → PathOk p → SMs σ ⟨f, l⟩ (joinSep comps rest) (relOf p) →
      hasBad gs p = false
  | [], _, _, _, p, _, _, _ => by cases p <;> simp [hasBad]
  | g :: gs, [], _, _, _, hok, _, _ => by simp [ProgsOk] at hok
  | g :: gs, (c, sp) :: cs, f, l, [], _, _, _ => by simp [hasBad]
  | g :: gs, (c, sp) :: cs, f, l, [n], hok, hp, hm => by
    simp only [joinSep] at hm
    simp only [ProgsOk] at hok
    obtain ⟨u, v, hw, _, _, _⟩ := first_component σ hσ ⟨f, l⟩ c (joinSep cs rest) sp hok.1.1 _ hm
    have hn : SepFree n := hp n (by simp)
    simp only [relOf] at hw
    have : '/' ∈ n := by rw [hw]; simp
    exact absurd rfl (hn _ this)
  | g :: gs, (c, sp) :: cs, f, l, n :: n2 :: ns, hok, hp, hm => by
    simp only [joinSep] at hm
    simp only [ProgsOk] at hok
    obtain ⟨u, v, hw, hu, hmu, hmv⟩ :=
      first_component σ hσ ⟨f, l⟩ c (joinSep cs rest) sp hok.1.1 _ hm
    have hn : SepFree n := hp n (by simp)
    have hrel : relOf (n :: n2 :: ns) = n ++ '/' :: relOf (n2 :: ns) := by simp [relOf]
    rw [hrel] at hw
    obtain ⟨rfl, rfl⟩ := split_unique hu hn hw.symm
    have hg : g u = true := hok.1.2 u hmu
    have ih := matched_not_bad σ hσ rest gs cs false l (n2 :: ns) hok.2
      (fun x hx => hp x (List.mem_cons_of_mem _ hx)) hmv
    simp [hasBad, hg, ih]

/-- **C02 (exactness of the pruned walk, partial)**: for a glob that starts with boundary-free
components, any pruning verdict that (a) only fires on name lists in which some name is rejected by
the program at its position and (b) stays fired on every extension, yields exactly the matching
entries of the unpruned walk — for every directory tree with separator-free names, including
unreadable directories and broken links. -/
theorem globWalk_exact_partial (σ : Sem) (hσ : SepIsolated σ)
    (comps : List (List Tok × Span)) (rest : List Tok) (gs : List (Str → Bool))
    (hok : ProgsOk σ true comps gs)
    (M : Str → Bool) (hM : ∀ w, M w = true ↔ SMs σ ⟨true, true⟩ (joinSep comps rest) w)
    (E : List Str → Bool) (hE : ∀ p, E p = true → hasBad gs p = true)
    (hcl : ∀ p q, E p = true → E (p ++ q) = true)
    (n : Node) (hn : NamesOk n) :
    okKept (fun w => !M w) (visit (fun e => E e.path) [] n) =
      okKept (fun w => !M w) (visit never [] n) := by
  refine prune_exact (fun w => !M w) E ?_ hcl n [] (by intro x hx; cases hx) hn
  intro p hp hEp
  have hbad := hE p hEp
  cases hMp : M (relOf p) with
  | false => rfl
  | true =>
    have := matched_not_bad σ hσ rest gs comps true true p hok hp ((hM _).mp hMp)
    rw [this] at hbad; cases hbad

/-- the verdict "some name is rejected" is itself admissible -/
theorem hasBad_admissible (gs : List (Str → Bool)) :
    (∀ p, hasBad gs p = true → hasBad gs p = true) ∧
    (∀ p q, hasBad gs p = true → hasBad gs (p ++ q) = true) :=
  ⟨fun _ h => h, fun p q h => hasBad_append gs p q h⟩

/-- the crate's verdict: only names *before the last one* are tested for pruning (the last
candidate component decides keep / drop of the entry itself, not of its tree) -/
def crateVerdict (gs : List (Str → Bool)) (p : List Str) : Bool := hasBad gs p.dropLast

theorem crateVerdict_admissible (gs : List (Str → Bool)) :
    (∀ p, crateVerdict gs p = true → hasBad gs p = true) ∧
    (∀ p q, crateVerdict gs p = true → crateVerdict gs (p ++ q) = true) := by
  have ha : ∀ p, crateVerdict gs p = true → hasBad gs p = true := by
    intro p h
    by_cases hp : p = []
    · subst hp; cases gs <;> simp [crateVerdict, hasBad] at h
    · have := hasBad_append gs p.dropLast [p.getLast hp] h
      rwa [List.dropLast_concat_getLast] at this
  refine ⟨ha, ?_⟩
  intro p q h
  by_cases hq : q = []
  · subst hq; simpa using h
  · unfold crateVerdict
    rw [List.dropLast_append_of_ne_nil hq]
    exact hasBad_append gs p q.dropLast (ha p h)

-- the hypotheses are satisfiable: `a/...` with the program "is the name `a`"
example (σ : Sem) (sp : Span) :
    ProgsOk σ true [([.lit sp ['a'] false], sp)] [fun n => n == ['a']] := by
  refine ⟨⟨by simp [noBoundaryL, noBoundary], ?_⟩, trivial⟩
  intro n h
  rw [sms_singleton] at h
  cases h with
  | lit hl =>
    cases n with
    | nil => simp [litEq] at hl
    | cons c cs =>
      cases cs with
      | nil => simp [litEq] at hl; simp [hl.symm]
      | cons d ds => simp [litEq] at hl

end Wax.WalkTree
