import Wax.Text
import Wax.Proofs.Root
/-!
C11: if a pattern reports invariant text, that text is the only path it matches (in the documented
language; with C01 also for the compiled program on `F01`).  The hypothesis `CasingOk` — a
character that case folding relates to a *different* character "has casing" — is about two Unicode
tables (std's and regex-syntax's); it is stated here and checked exhaustively by the harness.
-/
namespace Wax

def CasingOk (σ : Sem) (κ : Casing) : Prop := ∀ a b, σ.ceq a b = true → a ≠ b → κ.hasCasing a = true

theorem litEq_eq {σ : Sem} {κ : Casing} (hκ : CasingOk σ κ) {ci : Bool} :
    ∀ {s w : Str}, litEq σ ci s w = true → (ci && s.any κ.hasCasing) = false → w = s
  | [], [], _, _ => rfl
  | a :: s, b :: w, h, hc => by
    simp only [litEq, Bool.and_eq_true] at h
    have hc' : (ci && s.any κ.hasCasing) = false := by
      cases ci <;> simp_all [List.any_cons]
    have := litEq_eq hκ h.2 hc'
    subst this
    cases ci with
    | false =>
      have : a = b := by simpa using h.1
      subst this; rfl
    | true =>
      have hca : κ.hasCasing a = false := by simp_all [List.any_cons]
      by_cases hab : a = b
      · subst hab; rfl
      · have := hκ a b (by simpa using h.1) hab
        simp [hca] at this
  | [], _ :: _, h, _ => by simp [litEq] at h
  | _ :: _, [], h, _ => by simp [litEq] at h

theorem fragsToStr_append (a b : List Frag) : fragsToStr (a ++ b) = fragsToStr a ++ fragsToStr b := by
  induction a with
  | nil => rfl
  | cons f fs ih => simp [fragsToStr, ih]

theorem fragsToStr_dropLast_getLast {l : List Frag} {f : Frag} (h : l.getLast? = some f) :
    fragsToStr l = fragsToStr l.dropLast ++ f.text := by
  have : l = l.dropLast ++ [f] := by
    have hne : l ≠ [] := by intro h'; simp [h'] at h
    have := List.dropLast_concat_getLast hne
    rw [List.getLast?_eq_some_getLast hne] at h
    simp only [Option.some.injEq] at h
    rw [← h]; exact this.symm
  conv => lhs; rw [this]
  simp [fragsToStr_append, fragsToStr]

theorem fragsToStr_fragConj (a b : List Frag) : fragsToStr (fragConj a b) = fragsToStr a ++ fragsToStr b := by
  cases b with
  | nil => cases a <;> simp [fragConj, fragsToStr]
  | cons r0 rs =>
    cases a with
    | nil => simp [fragConj, fragsToStr]
    | cons a0 as =>
      generalize hL : a0 :: as = l
      have hfc : fragConj l (r0 :: rs) =
          (match l.getLast?, r0 with
            | some (.nom a), .nom b => l.dropLast ++ [.nom (a ++ b)] ++ rs
            | some (.str a), .str b => l.dropLast ++ [.str (a ++ b)] ++ rs
            | _, _ => l ++ r0 :: rs) := by
        subst hL; rfl
      rw [hfc]
      cases hl : l.getLast? with
      | none => simp [fragsToStr_append, fragsToStr]
      | some f =>
        have hd := fragsToStr_dropLast_getLast hl
        cases f <;> cases r0 <;> simp only [fragsToStr_append, fragsToStr, Frag.text] <;> rw [hd] <;>
          simp [Frag.text]

def repeatStr (s : Str) : Nat → Str
  | 0 => []
  | n + 1 => s ++ repeatStr s n

theorem fragsToStr_repeat (fs : List Frag) (n : Nat) : fragsToStr (repeatFrags fs n) = repeatStr (fragsToStr fs) n := by
  induction n with
  | zero => rfl
  | succ n ih => simp [repeatFrags, repeatStr, fragsToStr_append, ih]

theorem disj_inv {l r : TVar} {fs : List Frag} (h : l.disj r = .inv fs) : l = .inv fs ∧ r = .inv fs := by
  unfold TVar.disj at h
  by_cases he : l = r
  · simp only [he, ↓reduceIte] at h; subst he; exact ⟨h, h⟩
  · simp only [he, ↓reduceIte] at h
    cases l <;> cases r <;> simp at h

theorem conj_inv {l r : TVar} {fs : List Frag} (h : l.conj r = .inv fs) :
    ∃ a b, l = .inv a ∧ r = .inv b ∧ fs = fragConj a b := by
  cases l <;> cases r <;> simp [TVar.conj] at h
  exact ⟨_, _, rfl, rfl, h.symm⟩

theorem fromClosedOpen_inv {lo : Nat} {hi : Option Nat} {k : Nat} (h : NRange.fromClosedOpen lo hi = .inv k) :
    hi = some lo ∧ k = lo := by
  unfold NRange.fromClosedOpen at h
  cases hi with
  | none =>
    simp only [BVR.tryFrom, Option.getD] at h
    by_cases hl : lo = 0
    · subst hl; simp at h
    · have : (lo == 0) = false := by simpa using hl
      simp [this] at h
  | some hv =>
    by_cases hgt : lo > hv
    · simp only [hgt, ↓reduceIte, BVR.tryFrom, Option.getD] at h
      by_cases h0 : hv = 0
      · subst h0
        have : (lo == 0) = false := by simp; omega
        simp [this] at h
      · have h0' : (hv == 0) = false := by simpa using h0
        have hl0 : (lo == 0) = false := by simp; omega
        simp [h0', hl0, hgt] at h
    · simp only [hgt, ↓reduceIte, BVR.tryFrom, Option.getD] at h
      by_cases hl : lo = 0
      · subst hl
        by_cases h0 : hv = 0
        · subst h0; simp at h; exact ⟨rfl, h.symm⟩
        · have h0' : (hv == 0) = false := by simpa using h0
          simp [h0'] at h
      · have hl' : (lo == 0) = false := by simpa using hl
        have h0' : (hv == 0) = false := by simp; omega
        by_cases hlt : lo < hv
        · simp [hl', h0', hlt] at h
        · simp [hl', h0', hlt] at h
          have : hv = lo := by omega
          subst this; exact ⟨rfl, h.symm⟩

theorem char_eq_of_toNat_between {a ch : Char} (h1 : a.toNat ≤ ch.toNat) (h2 : ch.toNat ≤ a.toNat) : ch = a :=
  Char.toNat_inj.mp (by omega)

theorem archText_unique {a : Arch} {fs : List Frag} (h : archText a = .inv fs) (ch : Char)
    (hm : Arch.mem ch a = true) : [ch] = fragsToStr fs := by
  cases a with
  | chr c =>
    simp only [archText, TVar.inv.injEq] at h
    subst h
    simp only [Arch.mem, beq_iff_eq] at hm
    subst hm; rfl
  | rng a b =>
    simp only [archText] at h
    by_cases hab : a ≠ b
    · simp [hab] at h
    · simp only [hab, ↓reduceIte, TVar.inv.injEq] at h
      subst h
      have hab' : a = b := by simpa using hab
      subst hab'
      simp only [Arch.mem, Bool.and_eq_true, decide_eq_true_eq] at hm
      rw [char_eq_of_toNat_between hm.1 hm.2]; rfl

theorem classText_unique : ∀ {items : List Arch} {fs : List Frag}, classText items = .inv fs →
    ∀ ch, items.any (Arch.mem ch) = true → [ch] = fragsToStr fs := by
  intro items
  induction items with
  | nil => intro _ _ ch hm; simp at hm
  | cons a rest ih =>
    intro fs h ch hm
    cases rest with
    | nil =>
      simp only [classText] at h
      simp only [List.any_cons, List.any_nil, Bool.or_false] at hm
      exact archText_unique h ch hm
    | cons b rest' =>
      simp only [classText] at h
      obtain ⟨h1, h2⟩ := disj_inv h
      simp only [List.any_cons] at hm
      rcases (Bool.or_eq_true _ _).mp hm with hm | hm
      · exact archText_unique h1 ch hm
      · exact ih h2 ch (by simpa [List.any_cons] using hm)

/-- a body that always matches the same text, iterated `n` times, matches that text `n` times -/
theorem srep_const {σ : Sem} {body : List Tok} {s : Str} (hb : ∀ c u, SMs σ c body u → u = s) :
    ∀ {c : Ctx} {n : Nat} {w : Str}, SRep σ c body n w → w = repeatStr s n
  | _, _, _, .zero => rfl
  | _, _, _, .one h => by simp [repeatStr, hb _ _ h]
  | _, _, _, .more hu hv => by
    rw [hb _ _ hu, srep_const hb hv]; rfl

mutual
  theorem text_tok (σ : Sem) (κ : Casing) (hκ : CasingOk σ κ) : ∀ (t : Tok) (fs : List Frag),
      textTok κ t = .inv fs → ∀ (c : Ctx) (w : Str), SM σ c t w → w = fragsToStr fs
    | .lit _ s ci, fs, h, c, w, hm => by
      simp only [textTok] at h
      by_cases hc : (ci && s.any κ.hasCasing) = true
      · simp [hc] at h
      · have hc' : (ci && s.any κ.hasCasing) = false := by simpa using hc
        simp only [hc', Bool.false_eq_true, ↓reduceIte, TVar.inv.injEq] at h
        subst h
        cases hm with
        | lit hl => simp [fragsToStr, Frag.text, litEq_eq hκ hl hc']
    | .sep _, fs, h, c, w, hm => by
      simp only [textTok, TVar.inv.injEq] at h; subst h
      cases hm; rfl
    | .cls _ neg items, fs, h, c, w, hm => by
      simp only [textTok] at h
      cases neg with
      | true => simp at h
      | false =>
        simp only [Bool.false_eq_true, ↓reduceIte] at h
        cases hm with
        | cls hp =>
          simp only [classHolds, Bool.false_eq_true, ↓reduceIte, Bool.and_eq_true] at hp
          exact classText_unique h _ hp.2
    | .one _, fs, h, _, _, _ => by simp [textTok] at h
    | .zom .., fs, h, _, _, _ => by simp [textTok] at h
    | .tree .., fs, h, _, _, _ => by simp [textTok] at h
    | .alt _ bs, fs, h, c, w, hm => by
      simp only [textTok] at h
      cases hm with
      | alt hb hms => exact text_alt σ κ hκ bs fs h _ hb c w ((sms_conc_iff _).mp hms)
    | .cat _ ts, fs, h, c, w, hm => by
      simp only [textTok] at h
      cases hm with
      | cat hms => exact text_cat σ κ hκ ts fs h c w hms
    | .rep _ body lo hi, fs, h, c, w, hm => by
      simp only [textTok] at h
      cases hm with
      | rep h1 h2 h3 =>
        cases hb : textTok κ body with
        | inv a =>
          rw [hb] at h
          cases hr : NRange.fromClosedOpen lo hi with
          | var v => rw [hr] at h; cases v <;> simp [TVar.prod] at h
          | inv k =>
            rw [hr] at h
            simp only [TVar.prod, TVar.inv.injEq] at h
            subst h
            obtain ⟨hhi, hk⟩ := fromClosedOpen_inv hr
            subst hk
            have hn := h2 k hhi
            have : ∀ c' u, SMs σ c' body.concatenation u → u = fragsToStr a :=
              fun c' u hu => text_tok σ κ hκ body a hb c' u ((sms_conc_iff _).mp hu)
            rw [srep_const this h3, fragsToStr_repeat]
            congr 1; omega
        | unb =>
          rw [hb] at h
          cases hr : NRange.fromClosedOpen lo hi with
          | var v => rw [hr] at h; simp [TVar.prod] at h
          | inv k =>
            rw [hr] at h
            obtain ⟨hhi, hk⟩ := fromClosedOpen_inv hr
            subst hk
            simp only [TVar.prod] at h
            by_cases h0 : k = 0
            · subst h0
              simp only [beq_self_eq_true, ↓reduceIte, TVar.inv.injEq] at h
              subst h
              have hn0 := h2 0 hhi
              cases h3 with
              | zero => rfl
              | one _ => omega
              | more _ _ => omega
            · have : (k == 0) = false := by simpa using h0
              simp [this] at h
        | bnd =>
          rw [hb] at h
          cases hr : NRange.fromClosedOpen lo hi with
          | var v => rw [hr] at h; cases v <;> simp [TVar.prod] at h
          | inv k =>
            rw [hr] at h
            obtain ⟨hhi, hk⟩ := fromClosedOpen_inv hr
            subst hk
            simp only [TVar.prod] at h
            by_cases h0 : k = 0
            · subst h0
              simp only [beq_self_eq_true, ↓reduceIte, TVar.inv.injEq] at h
              subst h
              have hn0 := h2 0 hhi
              cases h3 with
              | zero => rfl
              | one _ => omega
              | more _ _ => omega
            · have : (k == 0) = false := by simpa using h0
              simp [this] at h
  theorem text_cat (σ : Sem) (κ : Casing) (hκ : CasingOk σ κ) : ∀ (ts : List Tok) (fs : List Frag),
      textCat κ ts = .inv fs → ∀ (c : Ctx) (w : Str), SMs σ c ts w → w = fragsToStr fs
    | [], fs, h, c, w, hm => by
      simp only [textCat, TVar.inv.injEq] at h; subst h
      cases hm; rfl
    | [t], fs, h, c, w, hm => by
      simp only [textCat] at h
      exact text_tok σ κ hκ t fs h c w (sms_singleton.mp hm)
    | t :: t2 :: ts, fs, h, c, w, hm => by
      simp only [textCat] at h
      obtain ⟨a, b, ha, hb, rfl⟩ := conj_inv h
      cases hm with
      | cons hu hv =>
        rw [text_tok σ κ hκ t a ha _ _ hu, text_cat σ κ hκ (t2 :: ts) b hb _ _ hv, fragsToStr_fragConj]
  theorem text_alt (σ : Sem) (κ : Casing) (hκ : CasingOk σ κ) : ∀ (bs : List Tok) (fs : List Frag),
      textAlt κ bs = .inv fs → ∀ b ∈ bs, ∀ (c : Ctx) (w : Str), SM σ c b w → w = fragsToStr fs
    | [], _, _, _, hb, _, _, _ => by cases hb
    | [t], fs, h, b, hb, c, w, hm => by
      simp only [textAlt] at h
      simp only [List.mem_singleton] at hb
      subst hb
      exact text_tok σ κ hκ b fs h c w hm
    | t :: t2 :: ts, fs, h, b, hb, c, w, hm => by
      simp only [textAlt] at h
      obtain ⟨h1, h2⟩ := disj_inv h
      cases hb with
      | head => exact text_tok σ κ hκ t fs h1 c w hm
      | tail _ hmem => exact text_alt σ κ hκ (t2 :: ts) fs h2 b hmem c w hm
end

/-- **C11 (uniqueness)**: invariant text is the only path the pattern matches -/
theorem text_unique (σ : Sem) (κ : Casing) (hκ : CasingOk σ κ) (t : Tok) (fs : List Frag)
    (h : textTok κ t = .inv fs) (w : Str) (hm : Spec.Matches σ t w) : w = fragsToStr fs :=
  text_tok σ κ hκ t fs h ⟨true, true⟩ w ((sms_conc_iff t).mp hm)

end Wax
