import Wax.Proofs.RuleSpecEquiv
import Wax.Proofs.AuditFixes
/-!
C06 without the enumeration cap.

`Wax/RuleSpec.lean` evaluates the documented well-formedness rules over all flat expansions, but
gives up (`none`) as soon as a node has more than `expCap = 3000` of them, and
`build_eq_wfSpec_partial` is silent wherever `wfSpec t = none`.  Here is the same specification
over the cap-free enumeration `expU` (`RuleAdjNested.lean`):

* `wfSpecU : Tok → Bool`   the rules R1..R6 over `expU` and an uncapped `canRootU` (the size rule
                           R7 `oversized` is treated exactly as `wfSpec` treats it: it is not part
                           of `wfSpec`, nor of the verdict `checkS`, so it is not part of `wfSpecU`);
* `wfSpec_eq_wfSpecU`      wherever the capped specification answers, the uncapped one agrees
                           (EVERY token tree: no shape hypothesis, no fragment);
* `build_eq_wfSpecU_partial`  for every expression of the fragment `repsSafe ∧ onceOpen`, however
                           many expansions it has, the checker's verdict IS `wfSpecU`;
* the two negative witnesses, for expressions, phrased with `wfSpecU`.
-/
set_option linter.unusedSimpArgs false
set_option linter.unusedVariables false
namespace Wax
open AdjN

/-! ### the uncapped specification -/

/-- `canRoot` without the cap: some flat expansion (bodies written once) starts with a root -/
def canRootU (b : Tok) : Bool := (expU false b).any (headP LK.roots)

mutual
  /-- the local rules R3-R6 (`localOk` of `Wax/RuleSpec.lean`, with `canRootU` for `canRoot`) -/
  def localOkU (first : Bool) : Tok → Bool
    | .alt _ bs => localAltU first bs
    | .cat _ ts => localCatU first ts
    | .rep _ b lo hi =>
      if !boundsOk lo hi then false                                          -- R6
      else if soleLeaf Tok.isTreeT b then false                               -- R3
      else if soleLeaf Tok.isSepT b || soleLeaf Tok.isZomT b then false       -- R4
      else !(first && lowerUnbounded lo hi && canRootU b) && localOkU first b  -- R5
    | _ => true
  def localAltU (first : Bool) : List Tok → Bool
    | [] => true
    | b :: bs =>
      if soleLeaf Tok.isTreeT b then false else                               -- R3
      !(first && canRootU b) && localOkU first b && localAltU first bs        -- R5
  def localCatU (first : Bool) : List Tok → Bool
    | [] => true
    | t :: ts => localOkU first t && localCatU false ts
end

/-- **the documented rules R1-R6 over ALL flat expansions, no cap**: no expansion (repetition
bodies written once and, where the bound allows, twice) has two adjacent component boundaries (R1),
no expansion has two adjacent zero-or-more wildcards (R2), and the local rules hold (R3-R6) -/
def wfSpecU (t : Tok) : Bool :=
  (expU true t).all (noAdj LK.isB) && (expU false t).all (noAdj LK.isZ) && localOkU true t

/-- the same as a proposition -/
theorem wfSpecU_iff (t : Tok) : wfSpecU t = true ↔
    (∀ l ∈ expU true t, noAdj LK.isB l = true) ∧ (∀ l ∈ expU false t, noAdj LK.isZ l = true) ∧
      localOkU true t = true := by
  simp only [wfSpecU, Bool.and_eq_true, List.all_eq_true, and_assoc]

/-! ### (1) the capped specification agrees with the uncapped one wherever it answers -/

theorem canRoot_eq_canRootU {b : Tok} {r : Bool} (h : canRoot b = some r) : r = canRootU b := by
  unfold canRoot at h
  split at h
  · cases h
  · rename_i es he
    have := expTok_eq false b es he; subst this
    injection h with h; subst h
    unfold canRootU
    congr 1

theorem canRoot_isSome_iff (b : Tok) : (canRoot b).isSome = (expTok false b).isSome := by
  unfold canRoot
  cases expTok false b <;> rfl

mutual
  theorem localOk_eq_localOkU : ∀ (t : Tok) (first r : Bool), localOk first t = some r →
      r = localOkU first t
    | .lit .., _, r, h => by simp only [localOk, Option.some.injEq] at h; rw [← h]; rfl
    | .cls .., _, r, h => by simp only [localOk, Option.some.injEq] at h; rw [← h]; rfl
    | .one _, _, r, h => by simp only [localOk, Option.some.injEq] at h; rw [← h]; rfl
    | .sep _, _, r, h => by simp only [localOk, Option.some.injEq] at h; rw [← h]; rfl
    | .tree .., _, r, h => by simp only [localOk, Option.some.injEq] at h; rw [← h]; rfl
    | .zom .., _, r, h => by simp only [localOk, Option.some.injEq] at h; rw [← h]; rfl
    | .alt _ bs, first, r, h => by
      simp only [localOk] at h
      simp only [localOkU]
      exact localAlt_eq_localAltU bs first r h
    | .cat _ ts, first, r, h => by
      simp only [localOk] at h
      simp only [localOkU]
      exact localCat_eq_localCatU ts first r h
    | .rep _ b lo hi, first, r, h => by
      rw [localOk] at h
      rw [localOkU]
      by_cases h1 : (!boundsOk lo hi) = true
      · rw [if_pos h1] at h ⊢; injection h with h; exact h.symm
      · rw [if_neg h1] at h ⊢
        by_cases h2 : soleLeaf Tok.isTreeT b = true
        · rw [if_pos h2] at h ⊢; injection h with h; exact h.symm
        · rw [if_neg h2] at h ⊢
          by_cases h3 : (soleLeaf Tok.isSepT b || soleLeaf Tok.isZomT b) = true
          · rw [if_pos h3] at h ⊢; injection h with h; exact h.symm
          · rw [if_neg h3] at h ⊢
            split at h
            · rename_i r' ok hr hok
              injection h with h
              have e2 := localOk_eq_localOkU b first ok hok
              by_cases hc : (first && lowerUnbounded lo hi) = true
              · rw [if_pos hc] at hr
                have e1 := canRoot_eq_canRootU hr
                rw [← h, hc, e1, e2, Bool.true_and]
              · rw [if_neg hc] at hr
                injection hr with hr
                have hc' : (first && lowerUnbounded lo hi) = false := by simpa using hc
                rw [← h, hc', ← hr, e2, Bool.false_and]
            · cases h
  theorem localAlt_eq_localAltU : ∀ (bs : List Tok) (first r : Bool), localAlt first bs = some r →
      r = localAltU first bs
    | [], _, r, h => by simp only [localAlt, Option.some.injEq] at h; rw [← h]; rfl
    | b :: bs, first, r, h => by
      rw [localAlt] at h
      rw [localAltU]
      by_cases h2 : soleLeaf Tok.isTreeT b = true
      · rw [if_pos h2] at h ⊢; injection h with h; exact h.symm
      · rw [if_neg h2] at h ⊢
        split at h
        · rename_i r' ok rest hr hok hrest
          injection h with h
          have e2 := localOk_eq_localOkU b first ok hok
          have e3 := localAlt_eq_localAltU bs first rest hrest
          cases first with
          | true =>
            rw [if_pos rfl] at hr
            have e1 := canRoot_eq_canRootU hr
            rw [← h, e1, e2, e3, Bool.true_and]
          | false =>
            rw [if_neg (by decide)] at hr
            injection hr with hr
            rw [← h, ← hr, e2, e3, Bool.false_and]
        · cases h
  theorem localCat_eq_localCatU : ∀ (ts : List Tok) (first r : Bool), localCat first ts = some r →
      r = localCatU first ts
    | [], _, r, h => by simp only [localCat, Option.some.injEq] at h; rw [← h]; rfl
    | t :: ts, first, r, h => by
      rw [localCat] at h
      rw [localCatU]
      split at h
      · rename_i a b ha hb
        injection h with h
        rw [← h, localOk_eq_localOkU t first a ha, localCat_eq_localCatU ts false b hb]
      · cases h
end

/-- **(1) the capped executable specification agrees with the uncapped one wherever it answers**
-- for EVERY token tree (no shape hypothesis, no fragment) -/
theorem wfSpec_eq_wfSpecU (t : Tok) (b : Bool) (h : wfSpec t = some b) : wfSpecU t = b := by
  obtain ⟨e2, e1, loc, h2, h1, hl, rfl⟩ := wfSpec_some h
  have a2 := expTok_eq true t e2 h2
  have a1 := expTok_eq false t e1 h1
  have a3 := localOk_eq_localOkU t true loc hl
  subst a2 a1 a3
  rfl

-- non-vacuity: `wfSpec` answers with both verdicts (`ex1`: 18 expansions, `ex2`: rejected)
example : wfSpec ex1 = some true ∧ wfSpecU ex1 = true := ⟨by decide, wfSpec_eq_wfSpecU _ _ (by decide)⟩
example : wfSpec ex2 = some false ∧ wfSpecU ex2 = false := ⟨by decide, wfSpec_eq_wfSpecU _ _ (by decide)⟩

/-! ### (2) the checker is the uncapped specification, on the fragment -/

/-- `canRootU` is `anyStart` of the rooting leaves (as `canRoot_eq`, cap-free) -/
theorem canRootU_eq_anyStart {b : Tok} (hs : pshape b = true) :
    canRootU b = anyStart (liftK LK.roots) b := by
  unfold canRootU
  cases ha : anyStart (liftK LK.roots) b with
  | true =>
    obtain ⟨l, hl, hh⟩ := (rsem LK.roots false b hs).2.1 ha
    exact List.any_eq_true.2 ⟨l, hl, hh⟩
  | false =>
    rw [List.any_eq_false]
    intro l hl hh
    have := (sem LK.roots false b hs l hl).2.1 hh
    rw [ha] at this; cases this

mutual
  /-- the local part of the checker is the local part of the uncapped specification -/
  theorem localOkU_eq_locBody : ∀ (t : Tok) (first : Bool), pshape t = true →
      localOkU first t = locBody first t
    | .lit .., _, _ => rfl
    | .cls .., _, _ => rfl
    | .one _, _, _ => rfl
    | .sep _, _, _ => rfl
    | .tree .., _, _ => rfl
    | .zom .., _, _ => rfl
    | .alt _ bs, first, hs => by
      simp only [pshape, Bool.and_eq_true] at hs
      simp only [localOkU, locBody]
      exact localAltU_eq_locBranches bs first hs.2
    | .cat _ ts, first, hs => by
      simp only [pshape, Bool.and_eq_true] at hs
      simp only [localOkU, locBody]
      exact localCatU_eq_locSeq ts first hs.2
    | .rep _ b lo hi, first, hs => by
      simp only [pshape] at hs
      rw [localOkU, locBody, termsOk_locRep, localOkU_eq_locBody b first hs, canRootU_eq_anyStart hs]
      generalize boundsOk lo hi = x1, soleLeaf Tok.isTreeT b = x2, soleLeaf Tok.isSepT b = x3,
        soleLeaf Tok.isZomT b = x4, (first && lowerUnbounded lo hi && anyStart (liftK LK.roots) b) = x5,
        locBody first b = x6
      revert x1 x2 x3 x4 x5 x6
      decide
  theorem localAltU_eq_locBranches : ∀ (bs : List Tok) (first : Bool), pshapeL false bs = true →
      localAltU first bs = locBranches first bs
    | [], _, _ => rfl
    | b :: bs, first, hs => by
      simp only [pshapeL, Bool.false_and, Bool.not_false, Bool.true_and, Bool.and_eq_true] at hs
      rw [localAltU, locBranches, termsOk_locBranch, localOkU_eq_locBody b first hs.1,
        localAltU_eq_locBranches bs first hs.2, canRootU_eq_anyStart hs.1]
      generalize soleLeaf Tok.isTreeT b = x2, (first && anyStart (liftK LK.roots) b) = x5,
        locBody first b = x6, locBranches first bs = x7
      revert x2 x5 x6 x7
      decide
  theorem localCatU_eq_locSeq : ∀ (ts : List Tok) (first : Bool), pshapeL true ts = true →
      localCatU first ts = locSeq first ts
    | [], _, _ => rfl
    | t :: ts, first, hs => by
      simp only [pshapeL, Bool.and_eq_true] at hs
      rw [localCatU, locSeq, localOkU_eq_locBody t first hs.1.2, localCatU_eq_locSeq ts false hs.2]
end

/-- **C06, soundness on the fragment, no cap**: whatever the checker accepts satisfies all
documented rules in EVERY flat expansion, however many there are.

Full statement (FALSE, `rep_nested_counterexampleU`): `pshape t → checkS t = true → wfSpecU t = true` -/
theorem checkS_soundU_partial (t : Tok) (hs : pshape t = true)
    (hz : catsNoAdj Tok.isZomT t = true) (hf : repsSafe Tok.isBoundaryT t = true)
    (h : checkS t = true) : wfSpecU t = true := by
  rw [wfSpecU_iff]
  refine ⟨checkS_noAdj_nested_uncapped t hs hf h, ?_, ?_⟩
  · rw [← liftK_isZ] at hz
    exact M_body false ruleFor_isZ (fun e => by cases e) t _ hs hz (fun e => by cases e) h
  · have hd := okBody_eq t ⟨none, none⟩ hs
    unfold checkS at h
    rw [h] at hd
    have hd' := hd.symm
    simp only [Bool.and_eq_true] at hd'
    rw [localOkU_eq_locBody t true hs]
    exact hd'.2

/-- **C06, completeness on the fragment, no cap**: whatever satisfies the documented rules in
every flat expansion is accepted by the checker.

Full statement (FALSE, `once_rep_counterexampleU`): `pshape t → wfSpecU t = true → checkS t = true` -/
theorem checkS_completeU_partial (t : Tok) (hs : pshape t = true)
    (ho : onceOpen Tok.isBoundaryT t = true) (hw : wfSpecU t = true) : checkS t = true := by
  obtain ⟨a2, a1, a3⟩ := (wfSpecU_iff t).1 hw
  have c1 := adjBody_complete (p := LK.isB) true true true (fun _ => rfl) t hs
    (fun _ => by rw [liftK_isB]; exact ho) a2
  have c2 := adjBody_complete (p := LK.isZ) false false false (fun e => by cases e) t hs
    (fun e => by cases e) a1
  rw [liftK_isB] at c1
  rw [liftK_isZ] at c2
  rw [localOkU_eq_locBody t true hs] at a3
  unfold checkS
  rw [okBody_eq t ⟨none, none⟩ hs, c1, c2]
  exact a3

/-- **C06 on the fragment, no cap: the checker decides exactly the documented rules** -/
theorem checkS_eq_wfSpecU_partial (t : Tok) (hs : pshape t = true)
    (hz : catsNoAdj Tok.isZomT t = true) (hf : repsSafe Tok.isBoundaryT t = true)
    (ho : onceOpen Tok.isBoundaryT t = true) : checkS t = wfSpecU t := by
  cases h : checkS t with
  | true => exact (checkS_soundU_partial t hs hz hf h).symm
  | false =>
    cases hw : wfSpecU t with
    | false => rfl
    | true => rw [checkS_completeU_partial t hs ho hw] at h; cases h

/-- **(2) C06 for expressions, on the fragment, WITHOUT the enumeration cap**: parse, then the
checker's verdict is the verdict of the documented rules R1-R6 over all flat expansions -- for
every expression in the fragment, however many expansions it has.

Full statement: `parse e = .ok t → checkS t = wfSpecU t`.  It is FALSE
(`wfSpecU_full_statement_false`): `rep_nested_counterexampleU` (outside `repsSafe` the checker
accepts what the rules forbid) and `once_rep_counterexampleU` (outside `onceOpen` the checker
rejects what the rules allow).  What is missing is not a proof: each hypothesis excludes a real
disagreement between rule.rs and the documented rules. -/
theorem build_eq_wfSpecU_partial (e : Str) (t : Tok) (hp : parse e = .ok t)
    (hf : repsSafe Tok.isBoundaryT t = true) (ho : onceOpen Tok.isBoundaryT t = true) :
    checkS t = wfSpecU t :=
  checkS_eq_wfSpecU_partial t (parse_pshape e t hp) (parse_noAdjZom e t hp) hf ho

/-- the two directions for expressions, each under its own hypothesis only -/
theorem build_soundU_partial (e : Str) (t : Tok) (hp : parse e = .ok t)
    (hf : repsSafe Tok.isBoundaryT t = true) (h : checkS t = true) : wfSpecU t = true :=
  checkS_soundU_partial t (parse_pshape e t hp) (parse_noAdjZom e t hp) hf h

theorem build_completeU_partial (e : Str) (t : Tok) (hp : parse e = .ok t)
    (ho : onceOpen Tok.isBoundaryT t = true) (hw : wfSpecU t = true) : checkS t = true :=
  checkS_completeU_partial t (parse_pshape e t hp) ho hw

/-- `build_eq_wfSpec_partial` is a corollary: (1) and (2) together -/
theorem build_eq_wfSpec_of_uncapped (e : Str) (t : Tok) (b : Bool) (hp : parse e = .ok t)
    (hf : repsSafe Tok.isBoundaryT t = true) (ho : onceOpen Tok.isBoundaryT t = true)
    (hw : wfSpec t = some b) : checkS t = b := by
  rw [build_eq_wfSpecU_partial e t hp hf ho]; exact wfSpec_eq_wfSpecU t b hw

/-! ### (3) non-vacuity beyond the cap

`{a,b}` written twelve times has `2^12 = 4096 > expCap` flat expansions: `wfSpec` answers `none`
(`expTok_cap_reached`) and `build_eq_wfSpec_partial` says nothing.  `build_eq_wfSpecU_partial`
applies, and it is what PROVES the verdict of `wfSpecU` below: no expansion is enumerated. -/

theorem parsed_of_match {e : Str} {f : Tok → Bool}
    (h : (match parse e with | .ok t => f t | .err _ => false) = true) :
    ∃ t, parse e = .ok t ∧ f t = true := by
  cases hp : parse e with
  | ok t => rw [hp] at h; exact ⟨t, rfl, h⟩
  | err x => rw [hp] at h; cases h

/-- the hypotheses of an expression, packed for `decide` -/
def inFragment (t : Tok) : Bool := repsSafe Tok.isBoundaryT t && onceOpen Tok.isBoundaryT t

theorem inFragment_iff (t : Tok) : inFragment t = true ↔
    repsSafe Tok.isBoundaryT t = true ∧ onceOpen Tok.isBoundaryT t = true := by
  simp only [inFragment, Bool.and_eq_true]

/-- `build_eq_wfSpecU_partial` for a verdict that `decide` can compute: the checker's -/
def beyondCap (v : Bool) (t : Tok) : Bool := inFragment t && (wfSpec t).isNone && (checkS t == v)

theorem wfSpecU_of_check (e : Str) (v : Bool)
    (h : (match parse e with | .ok t => beyondCap v t | .err _ => false) = true) :
    ∃ t, parse e = .ok t ∧ repsSafe Tok.isBoundaryT t = true ∧ onceOpen Tok.isBoundaryT t = true ∧
      wfSpec t = none ∧ checkS t = v ∧ wfSpecU t = v := by
  obtain ⟨t, hp, h⟩ := parsed_of_match h
  simp only [beyondCap, Bool.and_eq_true, beq_iff_eq, Option.isNone_iff_eq_none] at h
  obtain ⟨⟨h1, h2⟩, h3⟩ := h
  obtain ⟨f1, f2⟩ := (inFragment_iff t).1 h1
  exact ⟨t, hp, f1, f2, h2, h3, by rw [← build_eq_wfSpecU_partial e t hp f1 f2]; exact h3⟩

/-- **accepted beyond the cap**: `{a,b}` × 12 is in the fragment, the capped specification is
silent, the checker accepts, and so ALL 4096 expansions satisfy the documented rules -/
theorem uncapped_accept :
    ∃ t, parse "{a,b}{a,b}{a,b}{a,b}{a,b}{a,b}{a,b}{a,b}{a,b}{a,b}{a,b}{a,b}".toList = .ok t ∧
      repsSafe Tok.isBoundaryT t = true ∧ onceOpen Tok.isBoundaryT t = true ∧
      wfSpec t = none ∧ checkS t = true ∧ wfSpecU t = true :=
  wfSpecU_of_check _ _ (by decide +kernel)

/-- **rejected beyond the cap**: `{a,b}` × 12 followed by `{c/,d}/e` (8192 expansions): the capped
specification is silent, the checker rejects, and so SOME expansion breaks a documented rule -/
theorem uncapped_reject :
    ∃ t, parse "{a,b}{a,b}{a,b}{a,b}{a,b}{a,b}{a,b}{a,b}{a,b}{a,b}{a,b}{a,b}{c/,d}/e".toList = .ok t ∧
      repsSafe Tok.isBoundaryT t = true ∧ onceOpen Tok.isBoundaryT t = true ∧
      wfSpec t = none ∧ checkS t = false ∧ wfSpecU t = false :=
  wfSpecU_of_check _ _ (by decide +kernel)

/-- **accepted beyond the cap, with a repetition that is written out twice**:
`{a,b}` × 12 followed by `<c{d,e}/:1,3>` (`4096 × (2 + 4) = 24576` expansions) -/
theorem uncapped_accept_rep :
    ∃ t, parse "{a,b}{a,b}{a,b}{a,b}{a,b}{a,b}{a,b}{a,b}{a,b}{a,b}{a,b}{a,b}<c{d,e}/:1,3>".toList = .ok t ∧
      repsSafe Tok.isBoundaryT t = true ∧ onceOpen Tok.isBoundaryT t = true ∧
      wfSpec t = none ∧ checkS t = true ∧ wfSpecU t = true :=
  wfSpecU_of_check _ _ (by decide +kernel)

/-- **rejected beyond the cap, rule R2**: eleven `{a,b}`, then `{*,b}*` -/
theorem uncapped_reject_zom :
    ∃ t, parse "{a,b}{a,b}{a,b}{a,b}{a,b}{a,b}{a,b}{a,b}{a,b}{a,b}{a,b}{*,b}*".toList = .ok t ∧
      repsSafe Tok.isBoundaryT t = true ∧ onceOpen Tok.isBoundaryT t = true ∧
      wfSpec t = none ∧ checkS t = false ∧ wfSpecU t = false :=
  wfSpecU_of_check _ _ (by decide +kernel)

-- cross-check by brute force (the kernel enumerates the expansions): `wfSpecU` evaluated directly
-- gives the verdicts the theorem derives, and the numbers of expansions are the ones announced
example : (match parse "{a,b}{a,b}{a,b}{a,b}{a,b}{a,b}{a,b}{a,b}{a,b}{a,b}{a,b}{a,b}".toList with
    | .ok t => wfSpecU t && (expU true t).length == 4096 && (expU false t).length == 4096
    | .err _ => false) = true := by decide +kernel
example : (match parse "{a,b}{a,b}{a,b}{a,b}{a,b}{a,b}{a,b}{a,b}{a,b}{a,b}{a,b}{a,b}{c/,d}/e".toList with
    | .ok t => !wfSpecU t && (expU true t).length == 8192 &&
        -- the culprit: `a`×12 `c / / e`
        (expU true t).any (fun l => !noAdj LK.isB l) && localOkU true t
    | .err _ => false) = true := by decide +kernel

/-! ### (4) the fragment is needed: the two negative witnesses, for `wfSpecU` -/

/-- **completeness is FALSE outside `onceOpen`**: `x</a/:1>y` parses, is in `repsSafe`, satisfies
every documented rule in its only expansion `x/a/y`, and is rejected (the checker applies the
self-adjacency rule of repetition bodies whatever the bounds are) -/
theorem once_rep_counterexampleU :
    ∃ t, parse "x</a/:1>y".toList = .ok t ∧ repsSafe Tok.isBoundaryT t = true ∧
      onceOpen Tok.isBoundaryT t = false ∧ wfSpecU t = true ∧ checkS t = false := by
  obtain ⟨t, hp, h⟩ := parsed_of_match (e := "x</a/:1>y".toList)
    (f := fun t => repsSafe Tok.isBoundaryT t && !onceOpen Tok.isBoundaryT t && wfSpecU t && !checkS t)
    (by decide +kernel)
  simp only [Bool.and_eq_true, Bool.not_eq_true'] at h
  exact ⟨t, hp, h.1.1.1, h.1.1.2, h.1.2, h.2⟩

/-- **soundness is FALSE outside `repsSafe`** (finding K-RULE-REP-NESTED): `x<{/a,b}c/:2>` parses,
is in `onceOpen`, is accepted, and its expansion `x /ac/ /ac/` has two adjacent separators -/
theorem rep_nested_counterexampleU :
    ∃ t, parse "x<{/a,b}c/:2>".toList = .ok t ∧ onceOpen Tok.isBoundaryT t = true ∧
      repsSafe Tok.isBoundaryT t = false ∧ checkS t = true ∧ wfSpecU t = false := by
  obtain ⟨t, hp, h⟩ := parsed_of_match (e := "x<{/a,b}c/:2>".toList)
    (f := fun t => onceOpen Tok.isBoundaryT t && !repsSafe Tok.isBoundaryT t && checkS t && !wfSpecU t)
    (by decide +kernel)
  simp only [Bool.and_eq_true, Bool.not_eq_true'] at h
  exact ⟨t, hp, h.1.1.1, h.1.1.2, h.1.2, h.2⟩

/-- **the full statement of (2) is FALSE** -/
theorem wfSpecU_full_statement_false :
    ¬ (∀ (e : Str) (t : Tok), parse e = .ok t → checkS t = wfSpecU t) := by
  intro h
  obtain ⟨t, hp, _, _, h1, h2⟩ := once_rep_counterexampleU
  have := h _ t hp
  rw [h1, h2] at this; cases this

/-- neither hypothesis alone suffices -/
theorem wfSpecU_needs_onceOpen :
    ¬ (∀ (e : Str) (t : Tok), parse e = .ok t → repsSafe Tok.isBoundaryT t = true →
        checkS t = wfSpecU t) := by
  intro h
  obtain ⟨t, hp, hf, _, h1, h2⟩ := once_rep_counterexampleU
  have := h _ t hp hf
  rw [h1, h2] at this; cases this

theorem wfSpecU_needs_repsSafe :
    ¬ (∀ (e : Str) (t : Tok), parse e = .ok t → onceOpen Tok.isBoundaryT t = true →
        checkS t = wfSpecU t) := by
  intro h
  obtain ⟨t, hp, ho, _, h1, h2⟩ := rep_nested_counterexampleU
  have := h _ t hp ho
  rw [h1, h2] at this; cases this

namespace AdjN
/-- the two witnesses of `RuleSpecEquiv.lean` / `RuleAdjNested.lean` on token trees, kept, with the
uncapped specification in place of `wfSpec … = some …` -/
theorem once_rep_counterexample_uncapped :
    ¬ (∀ t : Tok, pshape t = true → wfSpecU t = true → checkS t = true) := by
  intro h
  have := h ex6 (by decide) (by decide)
  revert this; decide

theorem rep_nested_counterexample_uncapped :
    ¬ (∀ t : Tok, pshape t = true → checkS t = true → wfSpecU t = true) := by
  intro h
  have := h ex3 (by decide) (by decide)
  revert this; decide

-- the capped originals remain theorems of the library
example := @once_rep_counterexample
example := @rep_nested_counterexample
example := @rep_nested_counterexample'
end AdjN

end Wax
