import Wax.Proofs.CapTile
import Wax.Proofs.HirEncode
import Wax.Walk
import Wax.Proofs.HirRuns
/-!
C04 for COMBINATORS: `wax::any` "groups all captures and therefore only exposes the complete text
of a match".  The model of `token::any` is an alternation of the member trees at the top level
(`Walk.anyProgram`); its program has exactly ONE group, and whenever the executable semantics
returns captures for it, they are `[whole, whole]`: capture 0 and capture 1 are the complete
candidate path and there is nothing beyond, however many members there are and whatever they
capture on their own.
-/
namespace Wax
open Walk

theorem anyProgram_eq {ts : List Tok} (h : ts ≠ []) :
    anyProgram ts = some (encodeTop (.alt ⟨0, 0⟩ ts)) := by
  cases ts with
  | nil => exact absurd rfl h
  | cons t ts => simp [anyProgram]

/-- the program of a combinator has one group, whatever its members are -/
theorem any_one_group {ts : List Tok} {r : Re} (h : anyProgram ts = some r) : r.ncaps = 1 := by
  unfold anyProgram at h
  split at h
  · cases h
  · cases h
    have := groups_encodeTok_true (.alt ⟨0, 0⟩ ts) (by simp [Tok.isCat]) none .only
    rw [groups_eq_ncaps] at this
    simp only [encodeTop, Re.ncaps, Re.ncapsList, this, Tok.capturing]
    simp

/-- **a combinator exposes the complete text and nothing else**: the captures the executable
    semantics reports for the program of `any(ts)` are capture 0 = capture 1 = the candidate path -/
theorem any_caps_complete {σ : Sem} {ts : List Tok} {r : Re} {s : Str} {caps : List (Option Str)}
    (h : anyProgram ts = some r) (he : r.exec σ s = some caps) : caps = [some s, some s] := by
  have hts : ts ≠ [] := by
    intro e; subst e; simp [anyProgram] at h
  rw [anyProgram_eq hts] at h
  cases h
  obtain ⟨_, _, hh, hl⟩ := exec_sound he
  match caps, hh, hl with
  | c0 :: rest, hh, hl =>
    simp only [List.head?_cons, Option.some.injEq] at hh
    subst hh
    rw [encodeTop_eq] at he
    obtain ⟨us, ht⟩ := exec_tiling he
    have hc : ∀ t ∈ (Tok.alt ⟨0, 0⟩ ts).concatenation, t.isCat = false := by
      intro t ht'; simp [Tok.concatenation] at ht'; subst ht'; rfl
    have hlen := ht.len
    simp only [topRs, Tok.concatenation, encodeList_length] at hlen
    match us, hlen with
    | [u], _ =>
      have hs : s = u := by simpa using ht.cover
      subst hs
      have := nontree_capture_segment hc ht (e := 0) (t := .alt ⟨0, 0⟩ ts) (u := s) rfl rfl
        (fun _ _ h => by cases h) rfl
      have hrl := caps_length_top hc ht
      simp only [Tok.concatenation, List.filter, Tok.capturing, List.length_cons, List.length_nil] at hrl
      simp only [capIdx, List.take_zero, List.filter_nil, List.length_nil] at this
      match rest, hrl, this with
      | [x], _, this =>
        simp only [List.getElem?_cons_zero, Option.some.injEq] at this
        subst this; rfl

/-- the same **through the normalisation of regex-syntax** (what the crate's engine runs): whatever
    captures the match model reports for the program of a combinator, they are `[whole, whole]` -/
theorem any_caps_complete_model {orbit : Char → List Char} {σ : Sem} {ts : List Tok} {r : Re} {s : Str}
    {caps : List (Option Str)} (h : anyProgram ts = some r) (hh : HirHyp orbit σ r)
    (he : (r.hirNorm orbit σ).exec σ s = some caps) : caps = [some s, some s] := by
  have hts : ts ≠ [] := by
    intro e; subst e; simp [anyProgram] at h
  rw [anyProgram_eq hts] at h
  cases h
  obtain ⟨_, _, hd, _⟩ := exec_sound he
  match caps, hd with
  | c0 :: rest, hd =>
    simp only [List.head?_cons, Option.some.injEq] at hd
    subst hd
    obtain ⟨us, ht⟩ := model_tok_tiling hh he
    have hc : ∀ t ∈ (Tok.alt ⟨0, 0⟩ ts).concatenation, t.isCat = false := by
      intro t ht'; simp [Tok.concatenation] at ht'; subst ht'; rfl
    have hlen := ht.len
    simp only [topRs, Tok.concatenation, encodeList_length] at hlen
    match us, hlen with
    | [u], _ =>
      have hs : s = u := by simpa using ht.cover
      subst hs
      have := nontree_capture_segment hc ht (e := 0) (t := .alt ⟨0, 0⟩ ts) (u := s) rfl rfl
        (fun _ _ h => by cases h) rfl
      have hrl := caps_length_top hc ht
      simp only [Tok.concatenation, List.filter, Tok.capturing, List.length_cons, List.length_nil] at hrl
      simp only [capIdx, List.take_zero, List.filter_nil, List.length_nil] at this
      match rest, hrl, this with
      | [x], _, this =>
        simp only [List.getElem?_cons_zero, Option.some.injEq] at this
        subst this; rfl

/-- non-vacuity: `any(["a*", "b/**"])` -/
def exAny : List Tok := [.cat ⟨0,2⟩ [.lit ⟨0,1⟩ ['a'] false, .zom ⟨1,1⟩ false],
    .cat ⟨0,4⟩ [.lit ⟨0,1⟩ ['b'] false, .tree ⟨1,3⟩ true]]

example : ∃ r, anyProgram exAny = some r ∧ r.ncaps = 1 :=
  ⟨encodeTop (.alt ⟨0, 0⟩ exAny), rfl, any_one_group (ts := exAny) rfl⟩

/-- the member `a*` would capture `x` on its own; the combinator reports the complete text twice -/
example : (encodeTop (.alt ⟨0, 0⟩ exAny)).exec ⟨fun a b => a == b, true⟩ "ax".toList
    = some [some "ax".toList, some "ax".toList] := by decide +kernel

example : any_caps_complete (σ := ⟨fun a b => a == b, true⟩) (ts := exAny) (s := "b/c/d".toList)
    (caps := [some "b/c/d".toList, some "b/c/d".toList]) rfl (by decide +kernel) = rfl := rfl

end Wax
