import Wax.Proofs.RuleAdjComplete
/-!
C06: the structural checker split into its three independent parts,
`okBody o t = adjBody isBoundary .. && adjBody isZom .. && locBody ..` (boundary adjacency R1,
wildcard adjacency R2, the local rules R3-R6), and the local part tied to `localOk` of
`Wax/RuleSpec.lean` (which needs: `rootsIt` / `has_root ≠ Never` is exactly "some expansion starts
with a root").
-/
set_option linter.unusedSimpArgs false
namespace Wax
namespace AdjN

/-! ### the local part of the checker -/

def isOnlyT : Terms → Bool | .only _ => true | _ => false

def locBranch (first : Bool) (ts : Terms) : Bool :=
  !(isOnlyT ts && ts.start.isTreeT) && !(first && rootsIt ts.start)

def locRep (first : Bool) (lo : Nat) (hi : Option Nat) (ts : Terms) : Bool :=
  !(isOnlyT ts && ts.start.isTreeT) && !(isOnlyT ts && ts.start.isSepT) &&
  !(isOnlyT ts && ts.start.isZomT) && !(first && lowerUnbounded lo hi && rootsIt ts.start)

mutual
  /-- rules R3-R6 as the checker applies them; `first`: nothing precedes (`outer.left = None`) -/
  def locBody (first : Bool) : Tok → Bool
    | .cat _ ts => locSeq first ts
    | .alt _ bs => locBranches first bs
    | .rep _ b lo hi => boundsOk lo hi && termsOk (locRep first lo hi) b && locBody first b
    | _ => true
  def locSeq (first : Bool) : List Tok → Bool
    | [] => true
    | a :: rest => locBody first a && locSeq false rest
  def locBranches (first : Bool) : List Tok → Bool
    | [] => true
    | b :: bs => termsOk (locBranch first) b && locBody first b && locBranches first bs
end

theorem isB_eq (t : Tok) : t.isBoundaryT = (t.isSepT || t.isTreeT) := by cases t <;> rfl

theorem brEq (ts : Terms) (o : Outer) : (checkBranchOk ts o && checkAlternationOk ts o) =
    (genOk Tok.isBoundaryT o ts && genOk Tok.isZomT o ts && locBranch o.left.isNone ts) := by
  cases ts with
  | only t =>
    simp only [checkBranchOk, checkAlternationOk, genOk, locBranch, isOnlyT, Terms.start,
      Terms.end_, isB_eq]
    generalize t.isSepT = a, t.isTreeT = b, t.isZomT = c, endsWith Tok.isBoundaryT o.left = d,
      startsWith Tok.isBoundaryT o.right = e, endsWith Tok.isZomT o.left = f,
      startsWith Tok.isZomT o.right = g, o.left.isNone = h, rootsIt t = i
    revert a b c d e f g h i
    decide
  | startEnd s e' =>
    simp only [checkBranchOk, checkAlternationOk, genOk, locBranch, isOnlyT, Terms.start,
      Terms.end_, isB_eq]
    generalize s.isSepT = a, s.isTreeT = b, s.isZomT = c, endsWith Tok.isBoundaryT o.left = d,
      startsWith Tok.isBoundaryT o.right = e, endsWith Tok.isZomT o.left = f,
      startsWith Tok.isZomT o.right = g, o.left.isNone = h, rootsIt s = i,
      e'.isSepT = a', e'.isTreeT = b', e'.isZomT = c'
    revert a b c d e f g h i a' b' c'
    decide

theorem repEq (ts : Terms) (o : Outer) (lo : Nat) (hi : Option Nat) :
    (checkBranchOk ts o && checkRepetitionOk ts o lo hi) =
    ((genOk Tok.isBoundaryT o ts && selfOk Tok.isBoundaryT true ts) &&
      (genOk Tok.isZomT o ts && selfOk Tok.isZomT false ts) && locRep o.left.isNone lo hi ts) := by
  cases ts with
  | only t =>
    simp only [checkBranchOk, checkRepetitionOk, genOk, selfOk, locRep, isOnlyT, Terms.start,
      Terms.end_, isB_eq]
    generalize t.isSepT = a, t.isTreeT = b, t.isZomT = c, endsWith Tok.isBoundaryT o.left = d,
      startsWith Tok.isBoundaryT o.right = e, endsWith Tok.isZomT o.left = f,
      startsWith Tok.isZomT o.right = g, o.left.isNone = h, rootsIt t = i,
      lowerUnbounded lo hi = j
    revert a b c d e f g h i j
    decide
  | startEnd s e' =>
    simp only [checkBranchOk, checkRepetitionOk, genOk, selfOk, locRep, isOnlyT, Terms.start,
      Terms.end_, isB_eq]
    generalize s.isSepT = a, s.isTreeT = b, s.isZomT = c, endsWith Tok.isBoundaryT o.left = d,
      startsWith Tok.isBoundaryT o.right = e, endsWith Tok.isZomT o.left = f,
      startsWith Tok.isZomT o.right = g, o.left.isNone = h, rootsIt s = i,
      e'.isSepT = a', e'.isTreeT = b', e'.isZomT = c', lowerUnbounded lo hi = j
    revert a b c d e f g h i a' b' c' j
    decide

theorem termsOk_congr {f g : Terms → Bool} (h : ∀ ts, f ts = g ts) (b : Tok) :
    termsOk f b = termsOk g b := by
  have : f = g := funext h
  rw [this]

theorem termsOk_and3 (f g h : Terms → Bool) (b : Tok) :
    termsOk (fun ts => f ts && g ts && h ts) b = (termsOk f b && termsOk g b && termsOk h b) := by
  unfold termsOk
  cases terminals b.concatenation <;> simp

/-! ### the decomposition -/

mutual
  theorem okBody_eq : ∀ (t : Tok) (o : Outer), pshape t = true →
      okBody o t = (adjBody Tok.isBoundaryT true true o t && adjBody Tok.isZomT false false o t &&
        locBody o.left.isNone t)
    | .lit .., _, _ => rfl
    | .cls .., _, _ => rfl
    | .one _, _, _ => rfl
    | .sep _, _, _ => rfl
    | .tree .., _, _ => rfl
    | .zom .., _, _ => rfl
    | .alt _ bs, o, hs => by
      simp only [pshape, Bool.and_eq_true] at hs
      simp only [okBody, adjBody, locBody]
      exact okBranches_eq bs o hs.2
    | .cat _ ts, o, hs => by
      simp only [pshape, Bool.and_eq_true] at hs
      simp only [okBody, adjBody, locBody, okSeq_eq ts o none hs.2, noAdjT_isB, or_none_left,
        Bool.not_true, Bool.not_false, Bool.false_or, Bool.true_or, Bool.true_and]
      ac_rfl
    | .rep _ b lo hi, o, hs => by
      simp only [pshape] at hs
      simp only [okBody, adjBody, locBody, okBody_eq b o hs]
      rw [termsOk_congr (fun ts => repEq ts o lo hi), termsOk_and3]
      ac_rfl
  theorem okSeq_eq : ∀ (ts : List Tok) (inh : Outer) (prev : Option Tok), pshapeL true ts = true →
      okSeq inh prev ts = (adjSeq Tok.isBoundaryT true true inh prev ts &&
        adjSeq Tok.isZomT false false inh prev ts && locSeq (inh.or prev none).left.isNone ts)
    | [], _, _, _ => rfl
    | a :: rest, inh, prev, hs => by
      simp only [pshapeL, Bool.and_eq_true, Bool.true_and, Bool.not_eq_true'] at hs
      rw [okSeq_cons hs.1.1, okBody_eq a _ hs.1.2, okSeq_eq rest inh _ hs.2]
      simp only [adjSeq, locSeq, or_left inh prev rest.head?, or_left_some, Option.isNone_some]
      ac_rfl
  theorem okBranches_eq : ∀ (bs : List Tok) (o : Outer), pshapeL false bs = true →
      okBranchesR o bs = (adjBranches Tok.isBoundaryT true true o bs &&
        adjBranches Tok.isZomT false false o bs && locBranches o.left.isNone bs)
    | [], _, _ => rfl
    | b :: bs, o, hs => by
      simp only [pshapeL, Bool.false_and, Bool.not_false, Bool.true_and, Bool.and_eq_true] at hs
      simp only [okBranchesR, adjBranches, locBranches, okBody_eq b o hs.1, okBranches_eq bs o hs.2]
      rw [termsOk_congr (fun ts => brEq ts o), termsOk_and3]
      ac_rfl
end


/-! ### `has_root ≠ Never` is "some leftmost path starts with a root" -/

def neverB : Option When → Bool
  | none => true
  | some .never => true
  | _ => false

theorem neverB_certainty (x y : When) :
    neverB (some (x.certainty y)) = (neverB (some x) && neverB (some y)) := by
  cases x <;> cases y <;> rfl

theorem neverB_and (x : When) : neverB (some (x.and .sometimes)) = neverB (some x) := by
  cases x <;> rfl

mutual
  theorem rootTok_never : ∀ (t : Tok), neverB (rootTok t) = !anyStart (liftK LK.roots) t
    | .lit .. => rfl
    | .cls .. => rfl
    | .one _ => rfl
    | .zom .. => rfl
    | .sep _ => rfl
    | .tree _ r => by cases r <;> rfl
    | .alt _ bs => by rw [anyStart_alt, rootTok]; exact rootBranches_never bs
    | .cat _ ts => by rw [anyStart_cat, rootTok]; exact rootFirst_never ts
    | .rep _ b lo hi => by
      rw [anyStart_rep, rootTok, ← rootTok_never b]
      cases rootTok b with
      | none => rfl
      | some x =>
        dsimp only
        split
        · exact neverB_and x
        · rfl
  theorem rootFirst_never : ∀ (ts : List Tok), neverB (rootFirst ts) = !anyStartF (liftK LK.roots) ts
    | [] => rfl
    | t :: _ => by rw [rootFirst, anyStartF]; exact rootTok_never t
  theorem rootBranches_never : ∀ (bs : List Tok),
      neverB (rootBranches bs) = !anyStartB (liftK LK.roots) bs
    | [] => rfl
    | b :: bs => by
      rw [rootBranches, anyStartB, Bool.not_or, ← rootTok_never b, ← rootBranches_never bs]
      cases rootTok b with
      | none => cases rootBranches bs <;> rfl
      | some x =>
        cases rootBranches bs with
        | none => simp [neverB]
        | some y => exact neverB_certainty x y
end

theorem hasRoot_ne_never (t : Tok) : (hasRoot t != .never) = anyStart (liftK LK.roots) t := by
  have := rootTok_never t
  unfold hasRoot
  generalize anyStart (liftK LK.roots) t = s at this
  cases h : rootTok t with
  | none => rw [h] at this; cases s <;> simp_all [neverB]
  | some x => rw [h] at this; cases x <;> cases s <;> simp_all [neverB]

/-- `rootsIt` (with repair 11) is `anyStart` of the rooting leaves -/
theorem rootsIt_eq (t : Tok) : rootsIt t = anyStart (liftK LK.roots) t := by
  unfold rootsIt
  rw [hasRoot_ne_never]
  cases t with
  | tree sp r => cases r <;> rfl
  | alt => simp [Tok.isSepT, Tok.isRootedTreeT, Tok.isBranchT]
  | cat => simp [Tok.isSepT, Tok.isRootedTreeT, Tok.isBranchT]
  | rep => simp [Tok.isSepT, Tok.isRootedTreeT, Tok.isBranchT]
  | _ => rfl


/-- `canRoot` of the specification (some expansion starts with a root) is `anyStart` -/
theorem canRoot_eq {b : Tok} {r : Bool} (hs : pshape b = true) (h : canRoot b = some r) :
    r = anyStart (liftK LK.roots) b := by
  unfold canRoot at h
  split at h
  · cases h
  · rename_i es he
    have := expTok_eq false b es he; subst this
    injection h with h; subst h
    cases ha : anyStart (liftK LK.roots) b with
    | true =>
      obtain ⟨l, hl, hh⟩ := (rsem LK.roots false b hs).2.1 ha
      refine List.any_eq_true.2 ⟨l, hl, ?_⟩
      cases l with
      | nil => cases hh
      | cons x r => exact hh
    | false =>
      rw [List.any_eq_false]
      intro l hl hh
      have h2 : headP LK.roots l = true := by
        cases l with
        | nil => cases hh
        | cons x r => exact hh
      have := (sem LK.roots false b hs l hl).2.1 h2
      rw [ha] at this; cases this

theorem anyStart_conc (p : LK → Bool) (b : Tok) : anyStart (liftK p) b =
    match b.concatenation with | a :: _ => anyStart (liftK p) a | [] => false := by
  cases b with
  | cat sp ts => rw [anyStart_cat]; cases ts <;> rfl
  | _ => rfl

theorem termsOk_locRep (first : Bool) (lo : Nat) (hi : Option Nat) (b : Tok) :
    termsOk (locRep first lo hi) b = (!soleLeaf Tok.isTreeT b && !soleLeaf Tok.isSepT b &&
      !soleLeaf Tok.isZomT b && !(first && lowerUnbounded lo hi && anyStart (liftK LK.roots) b)) := by
  rw [anyStart_conc]
  unfold termsOk soleLeaf
  generalize b.concatenation = l
  match l with
  | [] => simp [terminals]
  | [a] => simp [terminals, locRep, isOnlyT, Terms.start, rootsIt_eq]
  | a :: x :: xs => simp [terminals, locRep, isOnlyT, Terms.start, rootsIt_eq]

theorem termsOk_locBranch (first : Bool) (b : Tok) :
    termsOk (locBranch first) b = (!soleLeaf Tok.isTreeT b &&
      !(first && anyStart (liftK LK.roots) b)) := by
  rw [anyStart_conc]
  unfold termsOk soleLeaf
  generalize b.concatenation = l
  match l with
  | [] => simp [terminals]
  | [a] => simp [terminals, locBranch, isOnlyT, Terms.start, rootsIt_eq]
  | a :: x :: xs => simp [terminals, locBranch, isOnlyT, Terms.start, rootsIt_eq]

/-! ### the local part of the checker is `localOk` of the specification -/

mutual
  theorem localOk_eq : ∀ (t : Tok) (first r : Bool), pshape t = true → localOk first t = some r →
      r = locBody first t
    | .lit .., _, r, _, h => by simp only [localOk, Option.some.injEq] at h; rw [← h]; rfl
    | .cls .., _, r, _, h => by simp only [localOk, Option.some.injEq] at h; rw [← h]; rfl
    | .one _, _, r, _, h => by simp only [localOk, Option.some.injEq] at h; rw [← h]; rfl
    | .sep _, _, r, _, h => by simp only [localOk, Option.some.injEq] at h; rw [← h]; rfl
    | .tree .., _, r, _, h => by simp only [localOk, Option.some.injEq] at h; rw [← h]; rfl
    | .zom .., _, r, _, h => by simp only [localOk, Option.some.injEq] at h; rw [← h]; rfl
    | .alt _ bs, first, r, hs, h => by
      simp only [pshape, Bool.and_eq_true] at hs
      simp only [localOk] at h
      simp only [locBody]
      exact localAlt_eq bs first r hs.2 h
    | .cat _ ts, first, r, hs, h => by
      simp only [pshape, Bool.and_eq_true] at hs
      simp only [localOk] at h
      simp only [locBody]
      exact localCat_eq ts first r hs.2 h
    | .rep _ b lo hi, first, r, hs, h => by
      simp only [pshape] at hs
      simp only [locBody, termsOk_locRep]
      rw [localOk] at h
      by_cases h1 : boundsOk lo hi = true
      · simp only [h1, Bool.not_true, Bool.false_eq_true, if_false] at h
        by_cases h2 : soleLeaf Tok.isTreeT b = true
        · simp only [h2, if_true, Option.some.injEq] at h
          simp [← h, h2]
        · have h2' : soleLeaf Tok.isTreeT b = false := by simpa using h2
          simp only [h2', Bool.false_eq_true, if_false] at h
          by_cases h3 : (soleLeaf Tok.isSepT b || soleLeaf Tok.isZomT b) = true
          · simp only [h3, if_true, Option.some.injEq] at h
            simp only [Bool.or_eq_true] at h3
            rcases h3 with h3 | h3 <;> simp [← h, h3]
          · have h3' : soleLeaf Tok.isSepT b = false ∧ soleLeaf Tok.isZomT b = false := by
              simpa using h3
            simp only [h3'.1, h3'.2, Bool.or_self, Bool.false_eq_true, if_false] at h
            cases hok : localOk first b with
            | none =>
              rw [hok] at h
              split at h <;> simp_all
            | some ok =>
              have e2 := localOk_eq b first ok hs hok
              by_cases hc : (first && lowerUnbounded lo hi) = true
              · rw [if_pos hc, hok] at h
                cases hr : canRoot b with
                | none => rw [hr] at h; cases h
                | some r' =>
                  rw [hr] at h
                  injection h with h
                  have e1 := canRoot_eq hs hr
                  simp only [Bool.and_eq_true] at hc
                  subst e1 e2
                  simp [← h, h1, h2', h3'.1, h3'.2, hc.1, hc.2]
              · rw [if_neg hc, hok] at h
                injection h with h
                have hc' : (first && lowerUnbounded lo hi) = false := by simpa using hc
                simp [← h, h1, h2', h3'.1, h3'.2, hc', ← e2]
      · simp only [h1, Bool.not_false, if_true, Option.some.injEq] at h
        simp [← h, h1]
  theorem localAlt_eq : ∀ (bs : List Tok) (first r : Bool), pshapeL false bs = true →
      localAlt first bs = some r → r = locBranches first bs
    | [], _, r, _, h => by simp only [localAlt, Option.some.injEq] at h; rw [← h]; rfl
    | b :: bs, first, r, hs, h => by
      simp only [pshapeL, Bool.false_and, Bool.not_false, Bool.true_and, Bool.and_eq_true] at hs
      simp only [locBranches, termsOk_locBranch]
      rw [localAlt] at h
      by_cases h2 : soleLeaf Tok.isTreeT b = true
      · simp only [h2, if_true, Option.some.injEq] at h
        simp [← h, h2]
      · have h2' : soleLeaf Tok.isTreeT b = false := by simpa using h2
        simp only [h2', Bool.false_eq_true, if_false] at h
        cases hok : localOk first b with
        | none =>
          rw [hok] at h
          split at h <;> simp_all
        | some ok =>
          have e2 := localOk_eq b first ok hs.1 hok
          cases hrest : localAlt first bs with
          | none =>
            rw [hrest] at h
            split at h <;> simp_all
          | some rest =>
            have e3 := localAlt_eq bs first rest hs.2 hrest
            rw [hok, hrest] at h
            cases first with
            | true =>
              rw [if_pos rfl] at h
              cases hr : canRoot b with
              | none => rw [hr] at h; cases h
              | some r' =>
                rw [hr] at h
                injection h with h
                have e1 := canRoot_eq hs.1 hr
                simp [← h, h2', ← e1, ← e2, ← e3]
            | false =>
              simp only [Bool.false_eq_true, if_false, Option.some.injEq] at h
              simp [← h, h2', ← e2, ← e3]
  theorem localCat_eq : ∀ (ts : List Tok) (first r : Bool), pshapeL true ts = true →
      localCat first ts = some r → r = locSeq first ts
    | [], _, r, _, h => by simp only [localCat, Option.some.injEq] at h; rw [← h]; rfl
    | t :: ts, first, r, hs, h => by
      simp only [pshapeL, Bool.and_eq_true] at hs
      simp only [locSeq]
      rw [localCat] at h
      split at h
      · rename_i a b ha hb
        injection h with h
        rw [← h, localOk_eq t first a hs.1.2 ha, localCat_eq ts false b hs.2 hb]
      · cases h
end

end AdjN
end Wax
