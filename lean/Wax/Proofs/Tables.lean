import Wax.Generated
import Wax.Parse
import Wax.Depth
/-! The tie by regeneration: the tables the model's definitions use are the tables
`tools/extract.py` has just read out of `/repo/src`.  Each theorem is closed by `decide`, so an
edit of the Rust source that changes a table breaks the build here, naming the table. -/
namespace Wax

theorem literalStop_is_source : literalStop = Generated.literalStopSet := by decide
theorem literalEsc_is_source : literalEsc = Generated.literalEscapes := by decide
theorem literalEsc_is_meta : literalEsc = Generated.metaChars := by decide

def ofT : Generated.T → Termn
  | .open_ => .open_ | .first => .first | .last => .last | .closed => .closed | .coal => .coal
def ofK : Generated.K → Termn → Coal
  | .left => .left | .right => .right | .neither => .neither

/-- every row of `Termination`'s conjunction in the source is the model's, and there are 25 -/
theorem termn_table_is_source :
    Generated.terminationTable.all (fun r => decide ((ofT r.1).conj (ofT r.2.1) = ofK r.2.2.1 (ofT r.2.2.2))) = true ∧
    Generated.terminationTable.length = 25 ∧
    (Generated.terminationTable.map fun r => (r.1, r.2.1)).Nodup := by decide

end Wax
