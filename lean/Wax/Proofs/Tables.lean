import Wax.Generated
import Wax.Parse
import Wax.Depth
import Wax.Query
import Wax.Encode
/-! The tie by regeneration: the tables the model's definitions use are the tables
`tools/extract.py` has just read out of `/repo/src`.  Each theorem is closed by `decide`, so an
edit of the Rust source that changes a table breaks the build here, naming the table. -/
namespace Wax

/-- the same SET of characters (the order in which the source lists them is immaterial) and no duplicates hidden by it -/
def sameChars (a b : List Char) : Bool := a.all (b.contains ·) && b.all (a.contains ·)

theorem literalStop_is_source : sameChars literalStop Generated.literalStopSet = true := by decide
theorem literalEsc_is_source : sameChars literalEsc Generated.literalEscapes = true := by decide
theorem literalEsc_is_meta : sameChars literalEsc Generated.metaChars = true := by decide

def ofT : Generated.T → Termn
  | .open_ => .open_ | .first => .first | .last => .last | .closed => .closed | .coal => .coal
def ofK : Generated.K → Termn → Coal
  | .left => .left | .right => .right | .neither => .neither

/-- every row of `Termination`'s conjunction in the source is the model's, and there are 25 -/
theorem termn_table_is_source :
    Generated.terminationTable.all (fun r => decide ((ofT r.1).conj (ofT r.2.1) = ofK r.2.2.1 (ofT r.2.2.2))) = true ∧
    Generated.terminationTable.length = 25 ∧
    (Generated.terminationTable.map fun r => (r.1, r.2.1)).Nodup := by decide

end Wax

namespace Wax

def ofW : Generated.W → When
  | .always => .always | .sometimes => .sometimes | .never => .never

/-- the three `When` truth tables regenerated from query.rs are the model's operators (nine rows
    each, all keys present) -/
theorem when_tables_are_source :
    Generated.whenAnd.all (fun r => decide ((ofW r.1).and (ofW r.2.1) = ofW r.2.2)) = true ∧
    Generated.whenOr.all (fun r => decide ((ofW r.1).or (ofW r.2.1) = ofW r.2.2)) = true ∧
    Generated.whenCertainty.all (fun r => decide ((ofW r.1).certainty (ofW r.2.1) = ofW r.2.2)) = true ∧
    Generated.whenAnd.length = 9 ∧ Generated.whenOr.length = 9 ∧ Generated.whenCertainty.length = 9 ∧
    (Generated.whenAnd.map fun r => (r.1, r.2.1)).Nodup ∧
    (Generated.whenOr.map fun r => (r.1, r.2.1)).Nodup ∧
    (Generated.whenCertainty.map fun r => (r.1, r.2.1)).Nodup := by decide

/-- the separator of the unix configuration and the root separator expression of the parser are the
    model's `/`; the never-matching class and the semantic literals are the model's -/
theorem constants_are_source :
    Generated.separatorClassExpression.toList = ['/'] ∧
    Generated.rootSeparatorExpression.toList = ['/'] ∧
    Generated.neverExpression.toList = "[a&&b]".toList ∧
    Generated.semanticLiterals.map String.toList = [['.'], ['.', '.']] := by decide

/-- the printer of the never-matching class emits the regenerated constant -/
theorem never_print_is_source : Re.never.print = Generated.neverExpression := by
  simp [Re.print, Generated.neverExpression]

theorem maxInvariantSize_is_source : Generated.maxInvariantSize = 65536 := by decide

end Wax
