import Wax.Proofs.NonVacuity
import Wax.Proofs.AuditFixes
import Wax.Proofs.RuleSpecUncapped
import Wax.Proofs.HirRuns
import Wax.Proofs.PriorityCor
import Wax.Proofs.ChainRefines
import Wax.Proofs.GrammarUnparse
import Wax.Proofs.GlobWalkE2E

/-!
Second audit (`/verif/audit/REPORT2.md`): non-vacuity witnesses for the theorems
added to `/verif/tools/obligations.json` after the first audit that had no `example` instantiating
them next to their statement.  One namespace `Wax.NonVacuity2.Cxx` per property; every `example`
instantiates the named theorem itself on a concrete input (the `parse` of a glob expression, a
walked tree) and states the concrete conclusion.
-/

namespace Wax.NonVacuity2.C01
open Wax

/-- `a*` derived by hand in the grammar: a literal, then a zero-or-more wildcard that ends the
    expression (`ZomOk` through `TermAt .eof`) -/
theorem gram_aStar : Gram false "a*".toList [.lit ⟨0, 1⟩ ['a'] false, .zom ⟨1, 1⟩ false] false := by
  have h1 : GTok .eof true 0 false ['a'] (['*'] ++ []) (.lit ⟨0, 1⟩ ['a'] false) false :=
    .mk _ _ _ _ [] false ['a'] _ _ _ (.nil _)
      (.lit _ _ _ _ _ _ _ _ (.plain 'a' [] [] (by decide) .nil) (by simp)
        (.inr ⟨'*', [], rfl, by decide, by decide⟩))
  have h2 : GTok .eof false 1 false ['*'] ([] ++ []) (.zom ⟨1, 1⟩ false) false :=
    .mk _ _ _ _ [] false ['*'] _ _ _ (.nil _) (.zom _ _ _ _ _ _ (.inr rfl))
  exact .cons _ _ _ _ ['a'] ['*'] [] _ _ _ _ h1
    (.cons _ _ _ _ ['*'] [] [] _ _ _ _ h2 (.nil _ _ _ _ _))

-- parse_complete: from the hand-written derivation (no parser run), the parser's answer on `a*`
example : parse "a*".toList = .ok (.cat ⟨0, 2⟩ [.lit ⟨0, 1⟩ ['a'] false, .zom ⟨1, 1⟩ false]) :=
  parse_complete gram_aStar

-- parse_sound: the parser's tree for `{a,b}<c?:2>` is a grammar derivation (tokens and final flag state exist)
example : ∃ ts f, Gram false "{a,b}<c?:2>".toList ts f ∧
    Tok.cat ⟨0, 11⟩ [.alt ⟨0, 5⟩ [.cat ⟨1, 1⟩ [.lit ⟨1, 1⟩ ['a'] false], .cat ⟨3, 1⟩ [.lit ⟨3, 1⟩ ['b'] false]],
      .rep ⟨5, 6⟩ (.cat ⟨6, 2⟩ [.lit ⟨6, 1⟩ ['c'] false, .one ⟨7, 1⟩]) 2 (some 2)] =
      topTok "{a,b}<c?:2>".toList ts :=
  parse_sound (by rfl)

-- Gram_functional: ANY derivation of `a*` (whatever its tokens, spans and final flag state) is the hand-written one
example (ts : List Tok) (f : Bool) (h : Gram false "a*".toList ts f) :
    ts = [.lit ⟨0, 1⟩ ['a'] false, .zom ⟨1, 1⟩ false] ∧ f = false :=
  Gram_functional h gram_aStar

-- parse_err_iff, direction "derivation ⇒ no error": `a*` is not an error because it has a derivation
example : ¬ ∃ locs, parse "a*".toList = .err locs := fun h =>
  (parse_err_iff _).mp h ⟨_, _, gram_aStar⟩

-- parse_err_iff, direction "error ⇒ no derivation": `a**` (error at byte 1) has no derivation
example : ¬ ∃ ts f, Gram false "a**".toList ts f := (parse_err_iff _).mp ⟨[1], by rfl⟩

end Wax.NonVacuity2.C01

namespace Wax.NonVacuity2.C05
open Wax

-- parse_ok_fuel_independent: `a/**/{b,c}` (10 chars) with fuel 43 = 4·10+3 (five less than `parse` uses) and with fuel 1000
example : parseF 43 "a/**/{b,c}".toList = .ok (.cat ⟨0, 10⟩ [.lit ⟨0, 1⟩ ['a'] false, .tree ⟨1, 4⟩ true,
    .alt ⟨5, 5⟩ [.cat ⟨6, 1⟩ [.lit ⟨6, 1⟩ ['b'] false], .cat ⟨8, 1⟩ [.lit ⟨8, 1⟩ ['c'] false]]]) :=
  (parse_ok_fuel_independent (by decide)).mpr (by rfl)
example : parseF 1000 "a/**/{b,c}".toList = .ok (.cat ⟨0, 10⟩ [.lit ⟨0, 1⟩ ['a'] false, .tree ⟨1, 4⟩ true,
    .alt ⟨5, 5⟩ [.cat ⟨6, 1⟩ [.lit ⟨6, 1⟩ ['b'] false], .cat ⟨8, 1⟩ [.lit ⟨8, 1⟩ ['c'] false]]]) :=
  (parse_ok_fuel_independent (by decide)).mpr (by rfl)

-- conjFixed_sound on the operand pair of the pinned `unreachable!()` (upper-open + lower-open): [..2] + [1..] = [1..]
example : (BVR.lower 1).mem (2 + 5) :=
  conjFixed_sound (.upper 2) (.lower 1) (.lower 1) (by simp [BVR.wf]) (by simp [BVR.wf]) (by rfl) 2 5
    (by simp [BVR.mem]) (by simp [BVR.mem])

end Wax.NonVacuity2.C05

namespace Wax.NonVacuity2.C07
open Wax Wax.NonVacuity.C07

/-! `<a?:0,2>/b` as parsed: a repetition that may iterate ZERO times (what `srep_iff` / `rep_unroll`
    of the first list leave out), then `/b` -/
example : parse "<a?:0,2>/b".toList = .ok (.cat ⟨0, 10⟩ ([] ++ [.rep ⟨0, 8⟩ body_A 0 (some 2)] ++ postR_A)) := by rfl

theorem body_ne : body_A.concatenation ≠ [] := by simp [body_A, Tok.concatenation]

-- srep_iff_all at n = 0: zero iterations of `a?` match exactly the pattern written out zero times (the empty text)
example : ∀ w, SRep σcs ⟨true, false⟩ body_A.concatenation 0 w ↔ SMs σcs ⟨true, false⟩ (repeatList body_A.concatenation 0) w :=
  srep_iff_all body_ne 0 ⟨true, false⟩
example : SRep σcs ⟨true, false⟩ body_A.concatenation 0 [] :=
  (srep_iff_all body_ne 0 ⟨true, false⟩ []).mpr (by simp only [repeatList]; exact sms_nil.mpr rfl)

-- sm_rep_all_bounds: the token `<a?:0,2>` matches `axay` (n = 2) and the empty text (n = 0), not `axayaz`
example : SM σcs ⟨true, true⟩ (.rep ⟨0, 8⟩ body_A 0 (some 2)) "axay".toList :=
  (sm_rep_all_bounds ⟨true, true⟩ ⟨0, 8⟩ body_A 0 (some 2) body_ne _).mpr
    ⟨2, by decide, by intro h hh; cases hh; exact Nat.le_refl 2,
      (specRe_correct σcs rfl (.cat ⟨0, 4⟩ (repeatList body_A.concatenation 2)) "axay".toList).mp
        ((matchB_iff _ _ _).mp (by decide))⟩
example : SM σcs ⟨true, true⟩ (.rep ⟨0, 8⟩ body_A 0 (some 2)) [] :=
  (sm_rep_all_bounds ⟨true, true⟩ ⟨0, 8⟩ body_A 0 (some 2) body_ne _).mpr
    ⟨0, by decide, by intro h _; exact Nat.zero_le _, by simp only [repeatList]; exact sms_nil.mpr rfl⟩
example : ¬ SM σcs ⟨true, true⟩ (.rep ⟨0, 8⟩ body_A 0 (some 2)) "axayaz".toList := fun h =>
  absurd ((matchB_iff _ _ _).mpr ((specRe_correct σcs rfl (.cat ⟨0, 8⟩ [.rep ⟨0, 8⟩ body_A 0 (some 2)])
    "axayaz".toList).mpr (sms_singleton.mpr h))) (by decide)

-- rep_zero_law: `<a?:0,2>/b` = `/b` (the empty literal in place of the repetition) or `<a?:1,2>/b`
example : ∀ w, SMs σcs ⟨true, true⟩ ([] ++ [.rep ⟨0, 8⟩ body_A 0 (some 2)] ++ postR_A) w ↔
    SMs σcs ⟨true, true⟩ ([] ++ [.lit ⟨0, 8⟩ [] false] ++ postR_A) w ∨
      ((∀ h, some 2 = some h → 1 ≤ h) ∧ SMs σcs ⟨true, true⟩ ([] ++ [.rep ⟨0, 8⟩ body_A 1 (some 2)] ++ postR_A) w) :=
  rep_zero_law ⟨true, true⟩ [] postR_A ⟨0, 8⟩ body_A (some 2)

-- rep_zero_law at work: `/b` is matched by `<a?:0,2>/b` through the first disjunct (zero iterations)
example : Spec.Matches σcs (.cat ⟨0, 10⟩ ([] ++ [.rep ⟨0, 8⟩ body_A 0 (some 2)] ++ postR_A)) "/b".toList :=
  (rep_zero_law ⟨true, true⟩ [] postR_A ⟨0, 8⟩ body_A (some 2) _).mpr (.inl
    (show Spec.Matches σcs (Tok.cat ⟨0, 10⟩ ([] ++ [Tok.lit ⟨0, 8⟩ [] false] ++ postR_A)) "/b".toList from
      (specRe_correct σcs rfl (Tok.cat ⟨0, 10⟩ ([] ++ [Tok.lit ⟨0, 8⟩ [] false] ++ postR_A)) "/b".toList).mp
        ((matchB_iff _ _ _).mp (by decide))))

end Wax.NonVacuity2.C07

namespace Wax.NonVacuity2.C06
open Wax AdjN

/-- `a/{b*,c/}<d?:1,2>x` as parsed: an alternation with a `*` and a separator inside, a repetition -/
def tU : Tok :=
  .cat ⟨0, 19⟩ [.lit ⟨0, 1⟩ ['a'] false, .sep ⟨1, 1⟩,
    .alt ⟨2, 8⟩ [.cat ⟨3, 2⟩ [.lit ⟨3, 1⟩ ['b'] false, .zom ⟨4, 1⟩ false],
      .cat ⟨6, 3⟩ [.lit ⟨6, 1⟩ ['c'] false, .sep ⟨7, 1⟩, .lit ⟨8, 1⟩ ['e'] false]],
    .rep ⟨10, 8⟩ (.cat ⟨11, 2⟩ [.lit ⟨11, 1⟩ ['d'] false, .one ⟨12, 1⟩]) 1 (some 2), .lit ⟨18, 1⟩ ['x'] false]

theorem parse_tU : parse "a/{b*,c/e}<d?:1,2>x".toList = .ok tU := by rfl
theorem check_tU : checkS tU = true := by decide

-- build_noAdjZom_uncapped / build_noAdj_once_uncapped: both flat expansions (bodies once) of the accepted expression
example : (expU false tU).length = 2 ∧ ∀ l ∈ expU false tU, noAdj LK.isZ l = true :=
  ⟨by decide, build_noAdjZom_uncapped _ tU parse_tU check_tU⟩
example : ∀ l ∈ expU false tU, noAdj LK.isB l = true :=
  build_noAdj_once_uncapped _ tU parse_tU check_tU

-- build_noAdj_nested_uncapped: the four expansions with the repetition body written once or twice
example : repsSafe Tok.isBoundaryT tU = true ∧ (expU true tU).length = 4 ∧
    ∀ l ∈ expU true tU, noAdj LK.isB l = true :=
  ⟨by decide, by decide, build_noAdj_nested_uncapped _ tU parse_tU (by decide) check_tU⟩

/-- `a/{b,/c}` as parsed: the second branch puts a separator next to the one before the alternation -/
def tR : Tok :=
  .cat ⟨0, 8⟩ [.lit ⟨0, 1⟩ ['a'] false, .sep ⟨1, 1⟩,
    .alt ⟨2, 6⟩ [.cat ⟨3, 1⟩ [.lit ⟨3, 1⟩ ['b'] false], .cat ⟨5, 2⟩ [.sep ⟨5, 1⟩, .lit ⟨6, 1⟩ ['c'] false]]]
theorem parse_tR : parse "a/{b,/c}".toList = .ok tR := by rfl

-- adjacent_rejected_uncapped: the expansion `a / / c` has adjacent boundaries, so the expression is rejected
example : checkS tR = false := by
  have hex : ∃ l ∈ expU true tR, noAdj LK.isB l = false := by decide
  obtain ⟨l, hl, hadj⟩ := hex
  exact adjacent_rejected_uncapped _ tR parse_tR (by decide) l hl hadj

end Wax.NonVacuity2.C06

namespace Wax.NonVacuity2.C12
open Wax Wax.NonVacuity2.C06

-- build_root_certain_some: `a/{b*,c/e}<d?:1,2>x` is never rooted, `/a/{b,c}` always: the fold itself answers
example : rootTok tU = some .always ∨ rootTok tU = some .never :=
  build_root_certain_some _ tU parse_tU check_tU
example : rootTok tU = some .never := by decide

example : ∃ t, parse "/a/{b,c}".toList = .ok t ∧ checkS t = true ∧ rootTok t = some .always ∧
    (rootTok t = some .always ∨ rootTok t = some .never) := by
  refine ⟨.cat ⟨0, 8⟩ [.sep ⟨0, 1⟩, .lit ⟨1, 1⟩ ['a'] false, .sep ⟨2, 1⟩,
    .alt ⟨3, 5⟩ [.cat ⟨4, 1⟩ [.lit ⟨4, 1⟩ ['b'] false], .cat ⟨6, 1⟩ [.lit ⟨6, 1⟩ ['c'] false]]],
    by rfl, by decide, by decide, ?_⟩
  exact build_root_certain_some "/a/{b,c}".toList _ (by rfl) (by decide)

end Wax.NonVacuity2.C12

namespace Wax.NonVacuity2.C14
open Wax

-- splitAtDepth_unwrap_total: `r/a/b/xs/f` at depth 3 (ancestor `r/a`), at depth 9 (no such ancestor), and an absolute path
example : (Path.stripPrefix "r/a/b/xs/f".toList ((Path.ancestors "r/a/b/xs/f".toList)[3]?.getD [])).isSome = true :=
  splitAtDepth_unwrap_total _ 3
example : (Path.ancestors "r/a/b/xs/f".toList)[3]? = some "r/a".toList ∧
    Path.stripPrefix "r/a/b/xs/f".toList "r/a".toList = some "b/xs/f".toList := by decide
example : (Path.stripPrefix "/r/a".toList ((Path.ancestors "/r/a".toList)[9]?.getD [])).isSome = true :=
  splitAtDepth_unwrap_total _ 9

end Wax.NonVacuity2.C14

namespace Wax.NonVacuity2.C09
open Wax Wax.NonVacuity.Findings_E

/-- the tokens of `src/**/[a-c]?` -/
def tsU : List Tok := [.lit ⟨0, 3⟩ ['s', 'r', 'c'] false, .tree ⟨3, 4⟩ true,
  .cls ⟨7, 5⟩ false [.rng 'a' 'c'], .one ⟨12, 1⟩]

-- F09a_untaken_never_always instantiated: last token `?` (untaken), so the verdict is not Always
example : isExhaustive (.cat ⟨0, 13⟩ tsU) ≠ .ok .always :=
  F09a_untaken_never_always ⟨0, 13⟩ tsU (.one ⟨12, 1⟩) rfl rfl

/-- the tokens of `a/{b,c}/**` (shape fragment: the Always verdict is computed, not assumed) -/
def tsA : List Tok := [.lit ⟨0, 1⟩ ['a'] false, .sep ⟨1, 1⟩,
  .alt ⟨2, 5⟩ [.cat ⟨3, 1⟩ [.lit ⟨3, 1⟩ ['b'] false], .cat ⟨5, 1⟩ [.lit ⟨5, 1⟩ ['c'] false]], .tree ⟨7, 3⟩ true]
example : parse "a/{b,c}/**".toList = .ok (.cat ⟨0, 10⟩ tsA) := by rfl

-- F09b_always_is_syntactic: `a/{b,c}/**` is in F09b, the fold says Always, hence it ends in `**` (or `** *`)
example : endsList tsA = true ∨ endsTreeZomB tsA = true :=
  F09b_always_is_syntactic ⟨0, 10⟩ tsA (by decide) (by decide)

-- closure_needs_no_verdict: from the shape alone, `a/b` matched gives `a/b/x/y` matched
example : Spec.Matches σcs (.cat ⟨0, 10⟩ tsA) "a/b/x/y".toList :=
  closure_needs_no_verdict σcs ⟨0, 10⟩ tsA (.inl (by decide)) "a/b".toList
    ((specRe_correct σcs rfl (.cat ⟨0, 10⟩ tsA) "a/b".toList).mp ((matchB_iff _ _ _).mp (by decide)))
    "x/y".toList

end Wax.NonVacuity2.C09

namespace Wax.NonVacuity2.C15
open Wax Wax.Walk

-- clampMax_some / not_over_clampMax: `min_depth 3, max_depth 1` becomes `3..3`
example : clampMax 3 (some 1) = some 3 := (clampMax_some 3 1).trans (by decide)
example : over 3 (clampMax 3 (some 1)) = false := not_over_clampMax 3 (some 1)

-- clamped_exact_depth through the theorem: in `a/{b, c/{d}}`, `x` walked with min 2 / max 1 every Ok item is at depth 2
example : ∀ it ∈ okItems (walkItems 2 (clampMax 2 (some 1)) never
      (.dir [.dir ['a'] [.leaf ['b'] .f, .dir ['c'] [.leaf ['d'] .f]], .leaf ['x'] .f])), it.depth = 2 :=
  fun it h => clamped_exact_depth 2 1 (by decide) never _ it h
example : okItems (walkItems 2 (clampMax 2 (some 1)) never
      (.dir [.dir ['a'] [.leaf ['b'] .f, .dir ['c'] [.leaf ['d'] .f]], .leaf ['x'] .f])) =
    [.ok ⟨[['a'], ['b']], .f⟩, .ok ⟨[['a'], ['c']], .d⟩] := by decide

-- atPivot_short_all for a `Max` behaviour: `max_depth 1` below a prefix of two components (`a/b/**`, the example of C15)
example : (DepthBehavior.pivotAdmits ((DepthBehavior.max 1).atPivot 2) 0) ∧ ¬ (DepthBehavior.max 1).admits (0 + 2) :=
  ⟨((DepthBehavior.atPivot_short_all (.max 1) 2 0 1 rfl (by decide)).1).mpr rfl,
   (DepthBehavior.atPivot_short_all (.max 1) 2 0 1 rfl (by decide)).2⟩

end Wax.NonVacuity2.C15

namespace Wax.NonVacuity2.C04
open Wax

/-! ### HirRuns: through the normalisation -/

theorem exFactored_exec : (exFactored.hirNorm trivOrbit trivSem).exec trivSem ['a', 'a', 'y', 'y', 'z'] =
    some (some ['a', 'a', 'y', 'y', 'z'] :: [some ['a', 'a', 'y', 'y'], some ['y', 'y']]) := by
  decide +kernel

-- match_model_runs: what the executor reports on the NORMAL FORM `(a*(?:xx|(yy)))z` of `((?:a*xx)|(?:a*(yy)))z`
-- for `aayyz` is an annotated derivation of the pattern AS PRINTED (two branches, each with its own `a*`)
example : Runs trivSem exFactored 0 ['a', 'a', 'y', 'y', 'z'] (List.replicate exFactored.ncaps none)
    [some ['a', 'a', 'y', 'y'], some ['y', 'y']] :=
  match_model_runs (hirHyp_triv (by decide)) (by decide) exFactored_exec

-- hirNorm_runs itself, applied (the example next to the theorem only shows its hypotheses)
example : Runs trivSem exFactored 0 ['a', 'a', 'y', 'y', 'z'] [none, none]
    [some ['a', 'a', 'y', 'y'], some ['y', 'y']] := by
  have h := exec_runs exFactored_exec
  rw [hirNorm_ncaps (by decide)] at h
  exact hirNorm_runs (hirHyp_triv (by decide)) (by decide) h

theorem exHypCat : HirHyp trivOrbit σcs (.cat (topRs (Tok.cat exSp exToks).concatenation)) := by
  have h := exModelHyp trivOrbit
  rwa [encodeTop_eq] at h

theorem exExecCat : ((Re.cat (topRs (Tok.cat exSp exToks).concatenation)).hirNorm trivOrbit σcs).exec σcs exPath =
    some (some exPath :: exCaps) := by
  have h := exModelExec
  rwa [encodeTop_eq] at h

-- model_caps_tile: `a/**/?[xb]*` on `a/x/y/bbc`, captures `x/y/`, `b`, `b`, `c` reported by the normal form:
-- one segment per element of the PRINTED pattern, every capture a window inside the segment of its element
example : ∃ us : List Str, us.length = (topRs (Tok.cat exSp exToks).concatenation).length ∧ exPath = us.flatten ∧
    (∀ (e : Nat) (r : Re) (u : Str), (topRs (Tok.cat exSp exToks).concatenation)[e]? = some r → us[e]? = some u →
      Matches σcs r u) ∧
    ∀ (e : Nat) (r : Re) (u : Str) (i : Nat) (x : Str),
      (topRs (Tok.cat exSp exToks).concatenation)[e]? = some r → us[e]? = some u →
      slotBase (topRs (Tok.cat exSp exToks).concatenation) e ≤ i →
      i < slotBase (topRs (Tok.cat exSp exToks).concatenation) e + r.ncaps → exCaps[i]? = some (some x) →
      ∃ a, segStart us e ≤ a ∧ a + x.length ≤ segStart us e + u.length ∧ x = (exPath.drop a).take x.length :=
  model_caps_tile exHypCat (by rw [← encodeTop_eq]; exact capsKept_encodeTop _) exExecCat

-- model_tree_token_capture (the listed one, with the segment): the `**` of `a/**/?[xb]*` on `a/x/y/bbc`
example : ∃ us u, Tiling σcs (topRs (Tok.cat exSp exToks).concatenation) exPath exCaps us ∧ us[1]? = some u ∧
    (((u = [] ∨ u = ['/']) ∧ exCaps[capIdx (Tok.cat exSp exToks).concatenation 1]? = some none) ∨
      ∃ x, exCaps[capIdx (Tok.cat exSp exToks).concatenation 1]? = some (some x) ∧ (u = x ∨ u = '/' :: x) ∧
        (Star CompSep x ∨ 1 + 1 = (Tok.cat exSp exToks).concatenation.length ∨
          (1 = 0 ∧ false = true ∧ (Tok.cat exSp exToks).concatenation.length ≠ 1))) :=
  model_tree_token_capture (t := .cat exSp exToks) (exModelHyp _) exToks_noCat exModelExec (e := 1) (sp := exSp) rfl

/-! ### Priority: the declarative specification, both directions -/

-- exec_iff_least, direction "least tree ⇒ what exec reports": the explicit tree `exOptStar1` (one empty round of
-- `(?:a?)*` on the empty text) is least, so exec reports its captures
example : exOptStar.exec trivSem [] = some (some [] :: exOptStar1.caps exOptStar.initCaps) :=
  exec_iff_least.mpr ⟨exOptStar1, exOptStar1_least, rfl⟩

-- exec_iff_least, direction "exec ⇒ least tree", on `(a|ab)(c|bcd)(d*)` / `abcd`
example : ∃ t, IsLeast trivSem exPerl ['a', 'b', 'c', 'd'] t ∧
    t.caps exPerl.initCaps = [some ['a'], some ['b', 'c', 'd'], some []] :=
  exec_iff_least.mp (by decide)

-- least_unique with an explicit tree: every least tree of `(?:a?)*` on the empty text IS `exOptStar1`
example (t : PT) (h : IsLeast trivSem exOptStar [] t) : t = exOptStar1 := least_unique h exOptStar1_least

-- exec_none_iff_no_tree, direction "no tree ⇒ no match"
example : exPerl.exec trivSem ['a', 'b'] = none :=
  exec_none_iff_no_tree.mpr (exec_none_iff_no_tree.mp (by decide))

/-! ### the capture groups in order -/

-- groupList_encodeTop applied to the parsed `a*/{b,c}?`: five tokens, the group lists have lengths 0 1 0 1 1
example : ∃ gs : List (List Re),
    (encodeTop (.cat ⟨0, 9⟩ [.lit ⟨0, 1⟩ ['a'] false, .zom ⟨1, 1⟩ false, .sep ⟨2, 1⟩,
      .alt ⟨3, 5⟩ [.cat ⟨4, 1⟩ [.lit ⟨4, 1⟩ ['b'] false], .cat ⟨6, 1⟩ [.lit ⟨6, 1⟩ ['c'] false]],
      .one ⟨8, 1⟩])).groupList = gs.flatten ∧ gs.map List.length = [0, 1, 0, 1, 1] := by
  obtain ⟨gs, h1, h2, _⟩ := groupList_encodeTop ⟨0, 9⟩ [.lit ⟨0, 1⟩ ['a'] false, .zom ⟨1, 1⟩ false, .sep ⟨2, 1⟩,
      .alt ⟨3, 5⟩ [.cat ⟨4, 1⟩ [.lit ⟨4, 1⟩ ['b'] false], .cat ⟨6, 1⟩ [.lit ⟨6, 1⟩ ['c'] false]],
      .one ⟨8, 1⟩] (by decide)
  exact ⟨gs, h1, h2.trans (by decide)⟩

end Wax.NonVacuity2.C04

namespace Wax.NonVacuity2.C13
open Wax Wax.Walk Wax.Chain

/-- two `not("d/**")`-like stages over `{d/{x}, y}` (the chain of `pinned_chain_twice`, repaired code) -/
def c2 : Chain := [.sub dTree, .sub dTree]

-- run_refines on a chain that is NOT the chain of a `Pipeline`: the trace is the collapsed machine driven by ONE Boolean
example : c2.run 0 none 6 (MState.init 0 twoTree) = (walkItems 0 none c2.cancelsB twoTree).map c2.obsOf :=
  run_refines c2 0 none twoTree 6 (by decide)
-- … concretely: `d` is pulled, cancelled once, `d/x` is never pulled, `y` is
example : pulled (c2.run 0 none 6 (MState.init 0 twoTree)) = [.ok ⟨[], .d⟩, .ok ⟨[['d']], .d⟩, .ok ⟨[['y']], .f⟩] := by
  rw [run_refines c2 0 none twoTree 6 (by decide)]; decide

-- feed_eq: the first feed of that chain = one pull (the root entry), then both stages, innermost first
example : c2.feed 0 none (MState.init 0 twoTree) =
    ((MState.init 0 twoTree).pull 0 none).map (fun r =>
      (thread c2.reverse (Sep.ofItem r.1), r.2.cancelN (thread c2.reverse (Sep.ofItem r.1)).cancels)) :=
  feed_eq 0 none c2 (MState.init 0 twoTree)
example : (c2.feed 0 none (MState.init 0 twoTree)).map (fun r => (r.1.sep, r.1.calls, r.1.cancels)) =
    some (.filtrate ⟨⟨[], .d⟩, 0⟩, [some (.filtrate ⟨⟨[], .d⟩, 0⟩), some (.filtrate ⟨⟨[], .d⟩, 0⟩)], 0) := by
  rw [feed_eq]; decide

-- sub_log_is_pulled: the OUTER stage (position 1 from `WalkTree`) is called on exactly the Ok entries pulled,
-- although the inner one has already turned `d` into tree residue
example : okEntries ((callLog 1 (c2.run 0 none 6 (MState.init 0 twoTree))).map Sep.item) =
    okEntries (pulled (c2.run 0 none 6 (MState.init 0 twoTree))) :=
  sub_log_is_pulled c2 0 none 6 (MState.init 0 twoTree) 1 dTree rfl
example : callLog 1 (c2.run 0 none 6 (MState.init 0 twoTree)) =
    [.filtrate ⟨⟨[], .d⟩, 0⟩, .tree ⟨[['d']], .d⟩, .filtrate ⟨⟨[['y']], .f⟩, 0⟩] := by decide

/-! the chain of the model's walk `a/b/**` from `` with `filter_entry(c ↦ File)` then `not("c/**")` over
    `{c/{x.txt}, y.txt}` (`kπ`, `kTree` of `Wax/Proofs/WalkLogs.lean`) -/

-- chain_refines_separations: per entry the final separation of the chain is `π.decide`
example : (trace kπ 0 none kTree).map (·.sep) = (kπ.items 0 none kTree).map (sepOf kπ) ∧
    pulled (trace kπ 0 none kTree) = kπ.items 0 none kTree :=
  chain_refines_separations kπ 0 none kTree
example : (kπ.items 0 none kTree).map (sepOf kπ) =
    [.filtrate ⟨⟨[], .d⟩, 2⟩, .tree ⟨[['c']], .d⟩, .filtrate ⟨⟨["y.txt".toList], .f⟩, 2⟩] := by
  rw [← (chain_refines_separations kπ 0 none kTree).1]; decide

-- chain_refines_cancels: one cancellation, for `c`, none for the others
example : (trace kπ 0 none kTree).map (·.cancels) = (kπ.items 0 none kTree).map (cancelCount kπ) :=
  (chain_refines_cancels kπ 0 none kTree).1
example : (kπ.items 0 none kTree).map (cancelCount kπ) = [0, 1, 0] := by
  rw [← (chain_refines_cancels kπ 0 none kTree).1]; decide

-- chain_log_eq_observedS: what the model DEFINES as observed by the `not` layer (index 1) is the call log of its stage
example : (callLog (layerPos kπ 1) (trace kπ 0 none kTree)).filterMap Sep.state? = kπ.observedS 0 none kTree 1 :=
  (chain_log_eq_observedS kπ 0 none kTree 1).2
example : kπ.observedS 0 none kTree 1 =
    [(⟨[], .d⟩, .filtrate), (⟨[['c']], .d⟩, .node), (⟨["y.txt".toList], .f⟩, .filtrate)] := by
  rw [← (chain_log_eq_observedS kπ 0 none kTree 1).2]; decide

-- chain_nothing_beneath_discarded: pulled = unpruned traversal minus what lies beneath the discarded `c`
example : okEntries (pulled (trace kπ 0 none kTree)) =
    (okEntries (walkItems 0 none never kTree)).filter (fun e =>
      Walk.within 0 none e.depth && !cutAbove (silenced 0 kπ.cancels) kTree.isDirRoot e) :=
  (chain_nothing_beneath_discarded kπ 0 none kTree).1
example : (okEntries (walkItems 0 none never kTree)).length = 4 ∧
    okEntries (pulled (trace kπ 0 none kTree)) = [⟨[], .d⟩, ⟨[['c']], .d⟩, ⟨["y.txt".toList], .f⟩] := by decide

end Wax.NonVacuity2.C13

namespace Wax.NonVacuity2.C16
open Wax Wax.Walk Wax.Chain Wax.NonVacuity.C03

-- chain_yields: the consumer loop of the iterator-level chain collects what the collapsed model yields
example : (ofPipeline kπ).collect 0 none (MState.init 0 kTree).size (MState.init 0 kTree) = kπ.yielded 0 none kTree :=
  chain_yields kπ 0 none kTree
example : kπ.yielded 0 none kTree = [.ok ⟨[], .d⟩, .ok ⟨["y.txt".toList], .f⟩] := by
  rw [← chain_yields]; decide

-- chain_order_independent: the path walk with the two layers of `kπ`, stack reversed (state-free: no pivot)
example : pulled (trace (pπ.withLayers kLayers.reverse) 0 none kTree) = pulled (trace pπ 0 none kTree) ∧
    (ofPipeline (pπ.withLayers kLayers.reverse)).collect 0 none (MState.init 0 kTree).size (MState.init 0 kTree) =
      (ofPipeline pπ).collect 0 none (MState.init 0 kTree).size (MState.init 0 kTree) :=
  ⟨(chain_order_independent pπ (pπ.stateFree_of_B (by decide)) kLayers.reverse
      (List.reverse_perm kLayers).symm 0 none kTree).1,
   (chain_order_independent pπ (pπ.stateFree_of_B (by decide)) kLayers.reverse
      (List.reverse_perm kLayers).symm 0 none kTree).2.1⟩
-- … whereas for `kπ` itself (glob walk with pivot 2 and a `not`: NOT state-free) the order matters: the hypothesis is needed
example : kπ.stateFreeB = false ∧
    (ofPipeline (kπ.withLayers kLayers.reverse)).collect 0 none 6 (MState.init 0 kTree) ≠
      (ofPipeline kπ).collect 0 none 6 (MState.init 0 kTree) := by decide

-- swalk_chain_perm: glob `{x,y}/b?` from `r`, not(`?/b[c-d]/**`), two arbitrary `filter_entry` functions, stack reversed
example : okEntries ((ofSWalk (wH.withLayers wH.layers.reverse)).collect 0 none (MState.init 0 treeH).size
      (MState.init 0 treeH)) =
    okEntries ((ofSWalk wH).collect 0 none (MState.init 0 treeH).size (MState.init 0 treeH)) :=
  (swalk_chain_perm wH (by decide) wH.layers.reverse (List.reverse_perm wH.layers).symm 0 none treeH).2

end Wax.NonVacuity2.C16

namespace Wax.NonVacuity2.C03
open Wax Wax.Walk Wax.WalkTree Wax.Chain Wax.NonVacuity.C03

-- swalk_chain_exact_partial: what the consumer of the ITERATOR-LEVEL chain collects for glob `{x,y}/b?` from `r`,
-- not(`?/b[c-d]/**`), filter_entry(links ↦ File), filter_entry(y ↦ Tree) over the 12-entry tree `treeH`
example : okEntries ((ofSWalk wH).collect 0 none (MState.init 0 treeH).size (MState.init 0 treeH)) =
    (okEntries (walkItems 0 none never treeH)).filter (fun e =>
      Walk.within 0 none e.depth &&
      wH.globMatches (relOf ([] ++ e.names)) &&
      negKeeps wH.σ wH.negs (relOf ([] ++ e.names)) &&
      stackKeeps wH.filters e &&
      !cutAbove (silenced 0 (stackTree wH.filters)) treeH.isDirRoot e) :=
  swalk_chain_exact_partial wH [] (by decide) rfl (by decide) wH_globOk 0 none treeH (by decide) (by decide)
example : okEntries ((ofSWalk wH).collect 0 none (MState.init 0 treeH).size (MState.init 0 treeH)) =
    [⟨[['x'], ['b', 'b']], .f⟩, ⟨[['x'], ['b', 'f']], .d⟩] :=
  (swalk_chain_exact_partial wH [] (by decide) rfl (by decide) wH_globOk 0 none treeH (by decide)
    (by decide)).trans (by decide)

end Wax.NonVacuity2.C03

namespace Wax.NonVacuity2.C02
open Wax Wax.Walk Wax.Path Wax.Cmd
open Wax.WalkTree (relOf joinSep)

/-! ### the ordinary walk: `src/**/*.rs` from the relative base `proj`, ASCII names

The question of the audit: do the hypotheses of `glob_walk_e2e_partial` hold for an everyday walk?
They do for this shape (a literal first component, then `/**/`, then anything: `cl = [src]`,
`tail = **/ * .rs`); they do NOT for `**/*.rs` (no boundary-free first component: outside the
compiled fragment — see `glob_walk_e2e_stop_partial` in `AuditFixes2.lean` for that shape). -/

def sCl : List Tok := [.lit ⟨0, 3⟩ "src".toList false]
def sTail : List Tok := [.tree ⟨3, 4⟩ true, .zom ⟨7, 1⟩ false, .lit ⟨8, 3⟩ ".rs".toList false]
/-- `src/**/*.rs` in the shape `c[/**…]` of the compiled fragment (no component before the last one) -/
def sTok : Tok := .cat ⟨0, 11⟩ (joinSep [] (sCl ++ sTail))

theorem sTok_parse : parse "src/**/*.rs".toList = .ok sTok := by rfl
theorem sTok_build : Cmd.build "src/**/*.rs".toList = some sTok := by
  have h : checkS sTok = true := by decide
  simp only [Cmd.build, sTok_parse, h, if_true]
/-- `Glob::anchor` for the base `proj`: the walk starts at `proj/src`, pivot 1 -/
theorem sTok_anchor : anchor drvCasing sTok "proj".toList = ("proj/src".toList, 1) := by decide
theorem sTok_spells : prefixSpells (partition drvCasing sTok).1 ["src".toList] = true := by decide

/-- below `proj/src`: `lib.rs`, `main.c`, `walk/{mod.rs, glob.rs, notes.txt, x.rs/ (a directory)}`, `target/{a.rs -> link}` -/
def sRv : RootView :=
  .dir [.leaf "lib.rs".toList .f, .leaf "main.c".toList .f,
        .dir "walk".toList [.leaf "mod.rs".toList .f, .leaf "glob.rs".toList .f, .leaf "notes.txt".toList .f,
          .dir "x.rs".toList []],
        .dir "target".toList [.leaf "a.rs".toList .l]]

-- glob_walk_e2e_partial: every hypothesis discharged (evaluation / the theorems for `drvSem`); the conclusion
-- determines the filtrate: the `.rs` entries at any depth (files, the directory `x.rs`, the link `a.rs`)
example :
    let π := globWalkPipeline drvSem drvCasing "proj".toList sTok []
    (π.root = "proj/src".toList ∧ π.pivot = 1) ∧
    π.filtrateEntries (π.items (DepthBehavior.unbounded.atPivot π.pivot).1
        (DepthBehavior.unbounded.atPivot π.pivot).2 sRv) =
     [⟨["lib.rs".toList], .f⟩, ⟨["walk".toList, "mod.rs".toList], .f⟩, ⟨["walk".toList, "glob.rs".toList], .f⟩,
      ⟨["walk".toList, "x.rs".toList], .d⟩, ⟨["target".toList, "a.rs".toList], .l⟩] := by
  intro π
  have h := glob_walk_e2e_partial drvSem drvSem_sepIsolated rfl drvCasing ⟨0, 11⟩ [] sCl sTail
    (by decide) (by decide) (Or.inr ⟨_, _, _, rfl⟩) (by decide) "proj".toList ["src".toList]
    sTok_spells .unbounded trivial (fun u hu => by cases hu) sRv (by decide)
  exact ⟨⟨h.1.1.trans (by decide), h.1.2⟩, h.2.2.1.trans (by decide)⟩

-- glob_walk_e2e_mem: `walk/glob.rs` is yielded BECAUSE `src/walk/glob.rs` is in the documented language of the glob
example : Spec.Matches drvSem sTok "src/walk/glob.rs".toList := by
  have h := (glob_walk_e2e_mem drvSem drvSem_sepIsolated rfl drvCasing ⟨0, 11⟩ [] sCl sTail
    (by decide) (by decide) (Or.inr ⟨_, _, _, rfl⟩) (by decide) "proj".toList ["src".toList]
    sTok_spells .unbounded trivial (fun u hu => by cases hu) sRv (by decide)).1
      ⟨["walk".toList, "glob.rs".toList], .f⟩
  exact (h.mp (by decide)).2.2.1

-- C14 part of the conclusion for the entry `walk/mod.rs`: path `proj/src/walk/mod.rs`,
-- root_relative_paths = (`proj`, `src/walk/mod.rs`), depth 3 = number of components of the relative segment
example :
    let π := globWalkPipeline drvSem drvCasing "proj".toList sTok []
    let e : Entry := ⟨["walk".toList, "mod.rs".toList], .f⟩
    π.path e = "proj/src/walk/mod.rs".toList ∧
    π.relativeFor e .filtrate = ("proj".toList, "src/walk/mod.rs".toList) ∧
    e.depth + π.pivot = 3 ∧ (components (π.relativeFor e .filtrate).2).length = 3 := by
  intro π e
  have h := (glob_walk_e2e_partial drvSem drvSem_sepIsolated rfl drvCasing ⟨0, 11⟩ [] sCl sTail
    (by decide) (by decide) (Or.inr ⟨_, _, _, rfl⟩) (by decide) "proj".toList ["src".toList]
    sTok_spells .unbounded trivial (fun u hu => by cases hu) sRv (by decide)).2.2.2 e (by decide)
  obtain ⟨h1, h2, _, _, h5⟩ := h
  exact ⟨h1.trans (by decide), h2.trans (by decide), by decide, h5.symm.trans (by decide)⟩

/-- the postfix `**/*.rs` of `partition` -/
def sPost : Tok := .cat ⟨0, 11⟩ [.tree ⟨0, 3⟩ false, .zom ⟨3, 1⟩ false, .lit ⟨4, 3⟩ ".rs".toList false]
theorem sTok_partition : partition drvCasing sTok = ("src".toList, 4, some sPost) := by rfl

-- glob_walk_e2e_postfix_partial (C02 ∘ C08): the same entries are those whose path BELOW `proj/src` the postfix
-- `**/*.rs` matches; the root of the walk `proj/src` itself is not yielded (the postfix is not the bare `**`)
example :
    let π := globWalkPipeline drvSem drvCasing "proj".toList sTok []
    let yielded := π.filtrateEntries (π.items (DepthBehavior.unbounded.atPivot π.pivot).1
        (DepthBehavior.unbounded.atPivot π.pivot).2 sRv)
    (∀ e, e.names ≠ [] → (e ∈ yielded ↔ e ∈ unpruned sRv ∧ Spec.Matches drvSem sPost (relOf e.names) ∧
      DepthBehavior.unbounded.admits (["src".toList] ++ e.names).length)) ∧
    (⟨[], .d⟩ : Entry) ∉ yielded := by
  intro π yielded
  have h := glob_walk_e2e_postfix_partial drvSem drvSem_sepIsolated rfl drvCasing ⟨0, 11⟩ [] sCl
    sTail (by decide) (by decide) (Or.inr ⟨_, _, _, rfl⟩) (by decide) (.inl (by decide)) (by decide)
    "src".toList 4 sPost sTok_partition "proj".toList ["src".toList] (by decide)
    .unbounded trivial (fun u hu => by cases hu) sRv (by decide)
  refine ⟨h.2.1, ?_⟩
  intro hm
  have := ((h.2.2.1 ⟨[], .d⟩ rfl).mp hm).2.2.1
  exact absurd this (by decide)

end Wax.NonVacuity2.C02

namespace Wax.NonVacuity2.C02
open Wax Wax.Walk Wax.Cmd

/-! `cmdWith_glob`: its hypotheses are equations between `String` functions (`unhex`, `parseStack`,
`behaviourOf`: `String.splitOn`), which the kernel does not reduce, so they cannot be discharged by
`decide` / `rfl` on a concrete request.  EVALUATED (compiler, not kernel): the hypotheses hold for the
request `W g proj src/**/*.rs f - - - /t <rec>` and the conclusion holds for it. -/
#guard unhex "73.72.63.2f.2a.2a.2f.2a.2e.72.73" == "src/**/*.rs".toList
#guard (build (unhex "73.72.63.2f.2a.2a.2f.2a.2e.72.73")).map
    (fun t => (programText (encodeTop t), (walkPrograms t).map programText)) ==
  some (programText (encodeTop sTok), (walkPrograms sTok).map programText)
#guard (parseStack "-").map List.length == some 0
#guard (behaviourOf "-" "-").map (fun b => decide (b = DepthBehavior.unbounded)) == some true
#guard cmdWith false ["g", "70.72.6f.6a", "73.72.63.2f.2a.2a.2f.2a.2e.72.73", "f", "-", "-", "-", "2f.74",
    "1:d:70.72.6f.6a;2:d:73.72.63;3:f:6c.69.62.2e.72.73;3:f:6d.2e.63"] ==
  (let π := globWalkPipeline drvSem drvCasing (unhex "70.72.6f.6a") sTok []
   match walkRootView π.root false (unhex "2f.74")
      (parseRec "1:d:70.72.6f.6a;2:d:73.72.63;3:f:6c.69.62.2e.72.73;3:f:6d.2e.63") with
   | none => "unsupported"
   | some rv => render false π [] (π.items (DepthBehavior.unbounded.atPivot π.pivot).1
        (DepthBehavior.unbounded.atPivot π.pivot).2 rv))

end Wax.NonVacuity2.C02

namespace Wax.NonVacuity2.C19
open Wax Wax.NonVacuity2.C01

-- unparse_roundtrip on the hand-written derivation of `a*`: whatever the grammar derives from the canonical
-- spelling is `a*` again, up to spans
example (ts' : List Tok) (f' : Bool)
    (h' : Gram false (unparse false [.lit ⟨0, 1⟩ ['a'] false, .zom ⟨1, 1⟩ false]) ts' f') :
    stripL ts' = stripL [.lit ⟨0, 1⟩ ['a'] false, .zom ⟨1, 1⟩ false] :=
  unparse_roundtrip gram_aStar h'

-- parse_unparse on `a/**/{b,(?i)c}<[!x-z]:1,2>*`: five top-level tokens, inline flag inside a branch, a negated
-- class, bounds — the canonical spelling (here: the text itself with `:1,2` kept) parses to the same tree up to spans
example : ∃ t', parse (unparse false (toksOf (.cat ⟨0, 27⟩
      [.lit ⟨0, 1⟩ ['a'] false, .tree ⟨1, 4⟩ true,
       .alt ⟨5, 9⟩ [.cat ⟨6, 1⟩ [.lit ⟨6, 1⟩ ['b'] false], .cat ⟨8, 5⟩ [.lit ⟨8, 5⟩ ['c'] true]],
       .rep ⟨14, 12⟩ (.cat ⟨15, 6⟩ [.cls ⟨15, 6⟩ true [.rng 'x' 'z']]) 1 (some 2),
       .zom ⟨26, 1⟩ false]))) = .ok t' ∧
    stripL (toksOf t') = stripL (toksOf (.cat ⟨0, 27⟩
      [.lit ⟨0, 1⟩ ['a'] false, .tree ⟨1, 4⟩ true,
       .alt ⟨5, 9⟩ [.cat ⟨6, 1⟩ [.lit ⟨6, 1⟩ ['b'] false], .cat ⟨8, 5⟩ [.lit ⟨8, 5⟩ ['c'] true]],
       .rep ⟨14, 12⟩ (.cat ⟨15, 6⟩ [.cls ⟨15, 6⟩ true [.rng 'x' 'z']]) 1 (some 2),
       .zom ⟨26, 1⟩ false])) :=
  parse_unparse (e := "a/**/{b,(?i)c}<[!x-z]:1,2>*".toList) (by rfl)

end Wax.NonVacuity2.C19

namespace Wax.NonVacuity2.C20
open Wax Wax.Walk Wax.Chain

/-- below the root: `d/` unreadable, a link `l` whose target is missing, the file `y` -/
def fTree : RootView := .dir [.dir ['d'] [.errHere], .errChild ['l'] false, .leaf ['y'] .f]

-- feed_eq on a feed that pulls an ERROR item (third pull: `d` was discarded as a tree, so its read error never
-- arises; the next item is the error for `l`): it passes both stages of
-- `[not-like, not-like]` without a call (`none`), no cancellation
example : ((NonVacuity2.C13.c2.run 0 none 9 (MState.init 0 fTree)).map (fun o => (o.sep, o.calls, o.cancels)))[2]? =
    some (.error [['l']] false, [none, none], 0) := by decide

-- run_refines with faults in the tree: the trace is still the collapsed machine
example : NonVacuity2.C13.c2.run 0 none 9 (MState.init 0 fTree) =
    (walkItems 0 none NonVacuity2.C13.c2.cancelsB fTree).map NonVacuity2.C13.c2.obsOf :=
  run_refines _ 0 none fTree 9 (by decide)

end Wax.NonVacuity2.C20
