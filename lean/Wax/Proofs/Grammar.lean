import Wax.Parse
import Wax.Proofs.Escape
/-!
C01 / C17 / C19 — a declarative GRAMMAR of glob expressions.

`Gram f e ts f'` says: the text `e` is a concatenation of tokens `ts`, each spelled as the
documentation of wax describes, read from flag state `f` (case-insensitivity off / on) and leaving
flag state `f'`; every token carries the byte span of its spelling.  Nothing here mentions fuel, the
order in which a parser tries alternatives, or backtracking: the relations are plain inductive
"this text spells that" statements over a split `text ++ rest` of the input (the `rest` is what
follows, which the side conditions may inspect).

Where the documented syntax is ambiguous, the resolution the parser makes by ordering is written
down as a side condition ("maximal munch"):

* a literal run ends only where no literal character follows (`LitEnd`);
* a `*` / `$` is never directly (or across inline flags) followed by another `*` / `$` unless it
  ends the (sub-)expression (`ZomOk`) — this is what separates `**` from two `*`;
* a `/` that could be absorbed into a following tree wildcard `/**` is not a separator (the side
  condition of `GBody.sep`); a `**` absorbs a following `/` whenever there is one (`TreePost`);
* a tree wildcard without a leading `/` only stands at the very beginning of a (sub-)expression
  (`TreePre.start`);
* `[!` always opens a negated class (`ClassSpell.pos` forbids a leading `!`); `-` is never a class
  character on its own (`ClassChar.plain`), so `a-b` is always a range;
* inline flags belong to the token that follows them (`GTok.mk`), and flag groups are consumed
  greedily (`FlagHead`).

`Wax/Proofs/GrammarParse.lean` proves that the parser model accepts exactly this grammar and builds
exactly these trees.
-/
namespace Wax

abbrev FlagState := Bool

/-! ### inline flags -/

/-- a possibly empty run of toggles `i` / `-i`: read from state `c`, it leaves state `c'` -/
inductive ToggleRun : Bool → Str → Bool → Prop
  | nil (c : Bool) : ToggleRun c [] c
  | on (c : Bool) (w : Str) (c' : Bool) : ToggleRun true w c' → ToggleRun c ('i' :: w) c'
  | off (c : Bool) (w : Str) (c' : Bool) : ToggleRun false w c' → ToggleRun c ('-' :: 'i' :: w) c'

/-- a possibly empty sequence of flag groups `(?` toggle⁺ `)` -/
inductive Flags : Bool → Str → Bool → Prop
  | nil (c : Bool) : Flags c [] c
  | group (c : Bool) (w : Str) (c1 : Bool) (s : Str) (c' : Bool) :
      ToggleRun c w c1 → w ≠ [] → Flags c1 s c' → Flags c ('(' :: '?' :: w ++ ')' :: s) c'

/-- the text begins with a well-formed flag group -/
def FlagHead (r : Str) : Prop :=
  ∃ (c : Bool) (w : Str) (c1 : Bool) (r' : Str), ToggleRun c w c1 ∧ w ≠ [] ∧ r = '(' :: '?' :: w ++ ')' :: r'

/-! ### literals -/

/-- `s` spells the literal text `t`: plain characters, and `\x` for a meta-character `x` -/
inductive LitText : Str → Str → Prop
  | nil : LitText [] []
  | plain (ch : Char) (s t : Str) : literalStop.contains ch = false → LitText s t →
      LitText (ch :: s) (ch :: t)
  | esc (ch : Char) (s t : Str) : literalEsc.contains ch = true → LitText s t →
      LitText ('\\' :: ch :: s) (ch :: t)

/-- maximal munch for literals: what follows a literal is the end of the text or a stop character
that is not a backslash (a backslash would continue the literal, or make the expression invalid) -/
def LitEnd (rest : Str) : Prop :=
  rest = [] ∨ ∃ (ch : Char) (r : Str), rest = ch :: r ∧ literalStop.contains ch = true ∧ ch ≠ '\\'

/-! ### character classes -/

inductive ClassChar : Str → Char → Prop
  | plain (ch : Char) : ch ≠ '\\' → ch ≠ '[' → ch ≠ ']' → ch ≠ '-' → ClassChar [ch] ch
  | esc (ch : Char) : (ch = '[' ∨ ch = ']' ∨ ch = '-') → ClassChar ['\\', ch] ch

inductive ClassItem : Str → Arch → Prop
  | chr (s : Str) (a : Char) : ClassChar s a → ClassItem s (.chr a)
  | rng (s1 s2 : Str) (a b : Char) : ClassChar s1 a → ClassChar s2 b →
      ClassItem (s1 ++ '-' :: s2) (.rng a b)

inductive ClassItems : Str → List Arch → Prop
  | nil : ClassItems [] []
  | cons (s s' : Str) (a : Arch) (as : List Arch) : ClassItem s a → ClassItems s' as →
      ClassItems (s ++ s') (a :: as)

inductive ClassSpell : Str → Bool → List Arch → Prop
  | pos (s : Str) (items : List Arch) : ClassItems s items → items ≠ [] → (∀ s', s ≠ '!' :: s') →
      ClassSpell ('[' :: s ++ [']']) false items
  | neg (s : Str) (items : List Arch) : ClassItems s items → items ≠ [] →
      ClassSpell ('[' :: '!' :: s ++ [']']) true items

/-! ### repetition bounds -/

def decimal (ds : Str) : Nat := ds.foldl (fun a c => a * 10 + (c.toNat - '0'.toNat)) 0

/-- `ds` is a non-empty string of ASCII digits whose value `n` fits a `usize` -/
def Number (ds : Str) (n : Nat) : Prop :=
  ds ≠ [] ∧ (∀ ch ∈ ds, ch.isDigit = true) ∧ decimal ds = n ∧ n ≤ usizeMax

/-- the text between the body of a repetition and its `>`, with the documented defaults -/
inductive Bounds : Str → Nat → Option Nat → Prop
  | none : Bounds [] 0 none
  | open_ : Bounds [':'] 1 none
  | exact (ds : Str) (n : Nat) : Number ds n → Bounds (':' :: ds) n (some n)
  | atLeast (ds : Str) (n : Nat) : Number ds n → Bounds (':' :: ds ++ [',']) n none
  | range (ds es : Str) (n m : Nat) : Number ds n → Number es m →
      Bounds (':' :: ds ++ ',' :: es) n (some m)

/-! ### wildcards -/

/-- the (sub-)expression ends here: end of text, or `,` `}` in a branch, or `:` `>` in a body -/
def TermAt : Term → Str → Prop
  | .eof, r => r = []
  | .altT, r => ∃ r', r = ',' :: r' ∨ r = '}' :: r'
  | .repT, r => ∃ r', r = ':' :: r' ∨ r = '>' :: r'

/-- skipping all inline flags, the next character exists and is neither `*` nor `$` -/
def NotStarAfterFlags (rest : Str) : Prop :=
  ∃ (c : Bool) (fl : Str) (c' : Bool) (ch : Char) (r : Str),
    Flags c fl c' ∧ rest = fl ++ ch :: r ∧ ¬ FlagHead (ch :: r) ∧ ch ≠ '*' ∧ ch ≠ '$'

/-- maximal munch for `*` and `$` -/
def ZomOk (t : Term) (rest : Str) : Prop := NotStarAfterFlags rest ∨ TermAt t rest

/-- what precedes the `**` of a tree wildcard: `/` and flags (rooted), or nothing at the very
beginning of a (sub-)expression -/
inductive TreePre (atStart : Bool) : Bool → Str → Bool → Bool → Prop
  | rooted (c : Bool) (fl : Str) (c1 : Bool) : Flags c fl c1 → TreePre atStart c ('/' :: fl) true c1
  | start (c : Bool) : atStart = true → TreePre atStart c [] false c

/-- what follows the `**`: flags and an absorbed `/`, or nothing when the (sub-)expression ends -/
inductive TreePost (t : Term) : Bool → Str → Str → Bool → Prop
  | slash (c : Bool) (fl rest : Str) (c' : Bool) : Flags c fl c' → TreePost t c (fl ++ ['/']) rest c'
  | term (c : Bool) (rest : Str) : TermAt t rest → TreePost t c [] rest c

inductive TreeSpell (t : Term) (atStart : Bool) : Bool → Str → Str → Bool → Bool → Prop
  | mk (c : Bool) (pre : Str) (root : Bool) (c1 : Bool) (post rest : Str) (c' : Bool) :
      TreePre atStart c pre root c1 → TreePost t c1 post rest c' →
      TreeSpell t atStart c (pre ++ '*' :: '*' :: post) rest root c'

/-! ### tokens -/

mutual
/-- `GTok t first p c s rest tok c'`: in a (sub-)expression terminated like `t`, at byte offset `p`
(`first`: nothing of the (sub-)expression precedes), in flag state `c`, the text `s` followed by
`rest` spells the token `tok` and leaves flag state `c'` -/
inductive GTok : Term → Bool → Nat → Bool → Str → Str → Tok → Bool → Prop
  | mk (t : Term) (first : Bool) (p : Nat) (c : Bool) (fl : Str) (c1 : Bool) (body rest : Str)
      (tok : Tok) (c' : Bool) :
      Flags c fl c1 →
      GBody t (first && fl.isEmpty) ⟨p, ulen (fl ++ body)⟩ (p + ulen fl) c1 body rest tok c' →
      GTok t first p c (fl ++ body) rest tok c'

/-- a token without its leading flags; `sp` is the span to record, `q` the offset of `body` -/
inductive GBody : Term → Bool → Span → Nat → Bool → Str → Str → Tok → Bool → Prop
  | lit (t : Term) (a : Bool) (sp : Span) (q : Nat) (c : Bool) (body rest text : Str) :
      LitText body text → body ≠ [] → LitEnd rest →
      GBody t a sp q c body rest (.lit sp text c) c
  | rep (t : Term) (a : Bool) (sp : Span) (q : Nat) (c : Bool) (bs bd rest : Str)
      (toks : List Tok) (lo : Nat) (hi : Option Nat) (c' : Bool) :
      GToks .repT true (q + 1) c bs (bd ++ '>' :: rest) toks c' → toks ≠ [] → Bounds bd lo hi →
      GBody t a sp q c ('<' :: bs ++ bd ++ ['>']) rest
        (.rep sp (.cat ⟨q + 1, ulen bs⟩ toks) lo hi) c'
  | alt (t : Term) (a : Bool) (sp : Span) (q : Nat) (c : Bool) (s1 s2 rest : Str)
      (toks : List Tok) (c1 : Bool) (bs : List Tok) (c' : Bool) :
      GToks .altT true (q + 1) c s1 (s2 ++ '}' :: rest) toks c1 → toks ≠ [] →
      GBranches (q + 1 + ulen s1) c1 s2 ('}' :: rest) bs c' →
      GBody t a sp q c ('{' :: s1 ++ s2 ++ ['}']) rest
        (.alt sp (.cat ⟨q + 1, ulen s1⟩ toks :: bs)) c'
  | one (t : Term) (a : Bool) (sp : Span) (q : Nat) (c : Bool) (rest : Str) :
      GBody t a sp q c ['?'] rest (.one sp) c
  | tree (t : Term) (a : Bool) (sp : Span) (q : Nat) (c : Bool) (body rest : Str) (root : Bool)
      (c' : Bool) :
      TreeSpell t a c body rest root c' → GBody t a sp q c body rest (.tree sp root) c'
  | zom (t : Term) (a : Bool) (sp : Span) (q : Nat) (c : Bool) (rest : Str) :
      ZomOk t rest → GBody t a sp q c ['*'] rest (.zom sp false) c
  | zomLazy (t : Term) (a : Bool) (sp : Span) (q : Nat) (c : Bool) (rest : Str) :
      ZomOk t rest → GBody t a sp q c ['$'] rest (.zom sp true) c
  | cls (t : Term) (a : Bool) (sp : Span) (q : Nat) (c : Bool) (body rest : Str) (neg : Bool)
      (items : List Arch) :
      ClassSpell body neg items → GBody t a sp q c body rest (.cls sp neg items) c
  | sep (t : Term) (a : Bool) (sp : Span) (q : Nat) (c : Bool) (rest : Str) :
      (¬ ∃ (body' rest' : Str) (c' : Bool),
          '/' :: rest = body' ++ rest' ∧ TreeSpell t a c body' rest' true c') →
      GBody t a sp q c ['/'] rest (.sep sp) c

/-- a concatenation of tokens -/
inductive GToks : Term → Bool → Nat → Bool → Str → Str → List Tok → Bool → Prop
  | nil (t : Term) (first : Bool) (p : Nat) (c : Bool) (rest : Str) : GToks t first p c [] rest [] c
  | cons (t : Term) (first : Bool) (p : Nat) (c : Bool) (s1 s2 rest : Str) (tok : Tok) (c1 : Bool)
      (toks : List Tok) (c' : Bool) :
      GTok t first p c s1 (s2 ++ rest) tok c1 → GToks t false (p + ulen s1) c1 s2 rest toks c' →
      GToks t first p c (s1 ++ s2) rest (tok :: toks) c'

/-- the branches of an alternation after the first: (`,` branch)* -/
inductive GBranches : Nat → Bool → Str → Str → List Tok → Bool → Prop
  | nil (p : Nat) (c : Bool) (rest : Str) : GBranches p c [] rest [] c
  | cons (p : Nat) (c : Bool) (s s2 rest : Str) (toks : List Tok) (c1 : Bool) (bs : List Tok)
      (c' : Bool) :
      GToks .altT true (p + 1) c s (s2 ++ rest) toks c1 → toks ≠ [] →
      GBranches (p + 1 + ulen s) c1 s2 rest bs c' →
      GBranches p c (',' :: s ++ s2) rest (.cat ⟨p + 1, ulen s⟩ toks :: bs) c'
end

/-- **the grammar of glob expressions**: the whole text `e`, read from flag state `f`, spells the
token sequence `ts` (with byte spans counted from 0) and leaves flag state `f'` -/
def Gram (f : FlagState) (e : Str) (ts : List Tok) (f' : FlagState) : Prop :=
  GToks .eof true 0 f e [] ts f'

/-- the tree that `parse` returns for a token sequence spelled by `e` -/
def topTok (e : Str) (ts : List Tok) : Tok :=
  if e.isEmpty then .lit ⟨0, 0⟩ [] false else .cat ⟨0, ulen e⟩ ts

end Wax
