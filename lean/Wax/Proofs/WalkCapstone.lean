import Wax.Proofs.GlobWalkE2E
import Wax.Proofs.WalkStack
import Wax.Proofs.ChainRefines
/-!
THE CAPSTONE FOR WALKS: C02 + C03 + C13 + C14 + C16 together, at iterator level.

`Glob::new(e).walk(base)` through the model's own `anchor` (partition, `join`, pivot) and the FULL
glob (`glob_walk_e2e_partial`), followed by an ARBITRARY stack of `not` / `filter_entry` layers with
arbitrary closures (`walk_stack_exact_partial`), executed by the ITERATOR-LEVEL chain of adaptors
(`run_refines`, `swalk_chain_refines`), with the call logs of the closures (`sub_log_is_pulled`).

1. `SWalk.GlobBeneath`, `walk_stack_exact_beneath`, `walk_stack_read_beneath`: the stack theorem read
   "beneath the base" — `rootExempt` of `walk_stack_exact_partial` disappears, as it did in
   `glob_walk_e2e_partial` — and the entries the machine reads, with the three sources of discarded
   trees named (`globTree`, `negTree`, `stackTree`);
2. `capWalk` (field for field `Cmd.globWalkPipeline`), the proviso `capOk`, `capNegsOk`,
   `cap_setup`, `cap_collapsed`;
3. the iterator level: `Spec.filtrates_payload` (the filtrates handed up are `GlobEntry`s with the
   pivot), `swalk_chain_consulted`, `swalk_chain_log_glob` (call logs of every stage);
4. **`walk_capstone_partial`** (headline);
   `globTree_only_nonmatching`, `negTree_closed`: what a tree verdict of the glob / a negation means;
5. corollaries: **`walk_capstone_perm`** (order independence), **`walk_capstone_insert`**
   (monotonicity), `capWalk_verdict_filter` / `capWalk_verdict_not`, **`capstone_driver`** (`capWalk`
   IS `Cmd.globWalkPipeline`; its chain IS `Chain.ofPipeline`);
6. instances on parsed globs, `drvSem` / `drvCasing`: `a/b/{x,y}*/**` from `r` with two closures over
   a tree four levels deep; `{x,y}*/**` with `not("xs/d/h/**")` and a closure; `*`;
7. **`capstone_needs_proviso`** (K-NOT-RESIDUE-PIVOT), **`capstone_needs_negsOk`**
   (K-NOT-FALSE-ALWAYS): the capstone is FALSE without either, by evaluation of the chain;
8. **`walk_capstone_driver`**: every recorded tree, the driver's tables, the harness layers.

What was learned:
* with a prefixed glob AND a negation the statement is false (`capstone_needs_proviso`): the theorem
  is stated for (no prefix ∧ any stack) ∨ (prefix ∧ no negation) — `capOk`, `capOk_iff`;
* the exemption of the root entry (`rootExempt`) is not a hypothesis of the composed statement: read
  "beneath the base", the base is never received, whatever the stack;
* every function of the stack — closures AND negations — and the `GlobWalker` closure are consulted
  on the same list of entries: the entries within the bounds not beneath a discarded tree, the
  discarded directory itself included (it is pulled, and handed up as residue);
* `min_depth` shows in (iv): a closure's tree verdict on a directory whose depth from the base is
  below the minimum depth prunes nothing (the directory is not reported, the closure never sees it).
-/
set_option linter.unusedSimpArgs false
set_option linter.unusedVariables false

namespace Wax.Walk
open Wax Wax.Path Wax.Cmd
open Wax.WalkTree (relOf relOf_append PathOk hasBad joinSep)

/-! ## 1. an `SWalk` with a glob, read "beneath the base" (no `rootExempt`) -/

/-- what the capstone needs of the glob of a walk: `SWalk.GlobOk` WITHOUT `rootExempt`, but with a
    component program (every glob of the compiled fragment has one: `compiled_components_ne_nil`) -/
structure SWalk.GlobBeneath (W : SWalk) (g : GlobProgram) (pre : List Str) : Prop where
  glob : W.glob = some g
  pivot : g.pivot = pre.length
  sound : ProgramsSound W.σ g
  comps : g.components ≠ []

theorem SWalk.GlobBeneath.pivotW {W : SWalk} {g : GlobProgram} {pre : List Str}
    (hG : W.GlobBeneath g pre) : W.pivot = pre.length := by
  simp only [SWalk.pivot, hG.glob, hG.pivot]

/-- the closure of the glob discards the entry (a directory) as a tree: some component program
    rejects a name of its path relative to the base (`relVerdict_tree_iff`) -/
def globTree (σ : Sem) (g : GlobProgram) (pre : List Str) (d : Entry) : Bool :=
  relVerdict σ g (pre ++ d.names) == .tree

/-- what the whole stack says of a faithful entry: kept iff it lies beneath the base and (i), (ii),
    (iii) -/
theorem SWalk.keeps_iff_beneath (W : SWalk) (g : GlobProgram) (pre : List Str)
    (hG : W.GlobBeneath g pre) (e : Entry)
    (hf : entryFaithfulP W.root pre e.names = true) :
    stackKeeps W.fns e =
      (!(pre ++ e.names).isEmpty && g.complete.matchB W.σ (relOf (pre ++ e.names)) &&
        negKeeps W.σ W.negs (relOf (pre ++ e.names)) && stackKeeps W.filters e) := by
  have hrel := W.relative_faithful pre hG.pivotW e hf
  have hl := layers_keeps W e _ hrel W.layers
  have hs := hG.sound
  have hg := hG.glob
  obtain ⟨σ, root, glob, layers⟩ := W
  simp only at hg
  subst hg
  have hk : ((globVerdict σ g (joinAll root e.names) e.names.length).1 == Verdict.keep) =
      (!(pre ++ e.names).isEmpty && g.complete.matchB σ (relOf (pre ++ e.names))) := by
    rw [Bool.eq_iff_iff, beq_iff_eq, ← globPipeline_filtrate,
      glob_filtrate_iff_beneath σ g hs hG.comps root pre hG.pivot e hf]
    simp
  have : stackKeeps (SWalk.fns ⟨σ, root, some g, layers⟩) e =
      (((globVerdict σ g (joinAll root e.names) e.names.length).1 == Verdict.keep) &&
        stackKeeps (layers.map (fun l e => l.verdict ⟨σ, root, some g, layers⟩ e .filtrate)) e) := by
    simp only [stackKeeps, SWalk.fns, List.singleton_append, List.all_cons, SWalk.path, Entry.depth]
  rw [this, hk, hl, Bool.and_assoc, Bool.and_assoc, Bool.and_assoc]
  rfl

/-- what the whole stack says of a faithful directory: discarded as a tree iff the glob closure,
    the exhaustive program of a negation, or a `filter_entry` function says so -/
theorem SWalk.tree_iff_beneath (W : SWalk) (g : GlobProgram) (pre : List Str)
    (hG : W.GlobBeneath g pre) (d : Entry)
    (hf : entryFaithfulP W.root pre d.names = true) :
    stackTree W.fns d =
      (globTree W.σ g pre d || negTree W.σ W.negs (relOf (pre ++ d.names)) ||
        stackTree W.filters d) := by
  have hrel := W.relative_faithful pre hG.pivotW d hf
  have hl := layers_tree W d _ hrel W.layers
  have hg := hG.glob
  obtain ⟨σ, root, glob, layers⟩ := W
  simp only at hg
  subst hg
  have hv := globVerdict_of_faithfulP σ g root pre d.names hG.pivot hf
  have : stackTree (SWalk.fns ⟨σ, root, some g, layers⟩) d =
      (((globVerdict σ g (joinAll root d.names) d.names.length).1 == Verdict.tree) ||
        stackTree (layers.map (fun l e => l.verdict ⟨σ, root, some g, layers⟩ e .filtrate)) d) := by
    simp only [stackTree, SWalk.fns, List.singleton_append, List.any_cons, SWalk.path, Entry.depth]
  rw [this, hl, hv, Bool.or_assoc]
  rfl

/-- a directory above an entry the glob matches and no negation matches is discarded as a tree only
    by a `filter_entry` function -/
theorem SWalk.tree_above_beneath (W : SWalk) (g : GlobProgram) (pre : List Str)
    (hdot : W.σ.dotall = true) (hneg : W.negsOk = true) (hG : W.GlobBeneath g pre) (e : Entry)
    (hpre : ∀ k, entryFaithfulP W.root pre (e.names.take k) = true)
    (hgm : g.complete.matchB W.σ (relOf (pre ++ e.names)) = true)
    (hnk : negKeeps W.σ W.negs (relOf (pre ++ e.names)) = true) (k : Nat) :
    stackTree W.fns ⟨e.names.take k, .d⟩ = stackTree W.filters ⟨e.names.take k, .d⟩ := by
  have hf := hpre k
  have hfe : entryFaithfulP W.root pre e.names = true := by
    have := hpre e.names.length
    rwa [List.take_length] at this
  rw [W.tree_iff_beneath g pre hG ⟨e.names.take k, .d⟩ hf]
  have hsplit : pre ++ e.names = (pre ++ e.names.take k) ++ e.names.drop k := by
    rw [List.append_assoc, List.take_append_drop]
  have hnt : negTree W.σ W.negs (relOf (pre ++ e.names.take k)) = false := by
    rw [Bool.eq_false_iff]
    intro h
    simp only [negTree, List.any_eq_true, beq_iff_eq] at h
    obtain ⟨t, ht, htree⟩ := h
    have hok := List.all_eq_true.mp hneg t ht
    simp only [Bool.and_eq_true] at hok
    have hp : prunes W.σ t (relOf (pre ++ e.names.take k)) = true := by simp [prunes, htree]
    have := negFrag_closed W.σ hdot t hok.1 hok.2 _ (e.names.drop k) hp
    rw [← hsplit] at this
    have hkeep := List.all_eq_true.mp hnk t ht
    simp only [beq_iff_eq] at hkeep
    simp [prunes, hkeep] at this
  have hgt : globTree W.σ g pre ⟨e.names.take k, .d⟩ = false := by
    rw [Bool.eq_false_iff]
    intro h
    have hc : (globPipeline W.σ W.root g).cancels ⟨e.names.take k, .d⟩ = true := by
      rw [globPipeline_cancels, globVerdict_of_faithfulP W.σ g W.root pre _ hG.pivot hf]
      exact h
    have := glob_prunes_only_nonmatching W.σ g hG.sound W.root pre hG.pivot (e.names.take k) hf hc
      (e.names.drop k) (by rw [List.take_append_drop]; exact hfe)
    rw [List.take_append_drop, hgm] at this
    cases this
  rw [hgt, Bool.false_or]
  show (negTree W.σ W.negs (relOf (pre ++ e.names.take k)) || _) = _
  rw [hnt, Bool.false_or]

/-- **`walk_stack_exact_partial` read beneath the base**: no `rootExempt`; the base itself (the
    entry with no name at all) is never received -/
theorem walk_stack_exact_beneath (W : SWalk) (g : GlobProgram) (pre : List Str)
    (hsf : W.stateFreeB = true) (hdot : W.σ.dotall = true) (hneg : W.negsOk = true)
    (hG : W.GlobBeneath g pre) (mn : Nat) (mx : Option Nat) (rv : RootView)
    (hf0 : entryFaithfulP W.root pre [] = true)
    (hfaith : allPathsLB (entryFaithfulP W.root pre) [] (toWTList rv.children) = true) :
    W.filtrate mn mx rv =
      (unpruned rv).filter (fun e =>
        !(pre ++ e.names).isEmpty &&
        g.complete.matchB W.σ (relOf (pre ++ e.names)) &&
        Walk.within mn mx e.depth &&
        negKeeps W.σ W.negs (relOf (pre ++ e.names)) &&
        stackKeeps W.filters e &&
        !cutAbove (silenced mn (stackTree W.filters)) rv.isDirRoot e) := by
  rw [W.filtrate_coded hsf]
  apply List.filter_congr
  intro e he
  have hpre := walk_ok_prefixes (entryFaithfulP W.root pre) 0 none never rv hf0 hfaith e he
  have hfe : entryFaithfulP W.root pre e.names = true := by
    have := hpre e.names.length
    rwa [List.take_length] at this
  rw [W.keeps_iff_beneath g pre hG e hfe]
  cases hne : (pre ++ e.names).isEmpty with
  | true => simp
  | false =>
    cases hgm : g.complete.matchB W.σ (relOf (pre ++ e.names)) with
    | false => simp
    | true =>
      cases hnk : negKeeps W.σ W.negs (relOf (pre ++ e.names)) with
      | false => simp
      | true =>
        have hc : cutAbove (silenced mn (stackTree W.fns)) rv.isDirRoot e =
            cutAbove (silenced mn (stackTree W.filters)) rv.isDirRoot e := by
          apply cutAbove_congr
          intro k _
          simp only [silenced]
          rw [W.tree_above_beneath g pre hdot hneg hG e hpre hgm hnk k]
        rw [hc]
        simp

/-- **the items the machine reads** (and so the entries every function of the stack is consulted
    on): the entries within the bounds that are not beneath a reported directory which the glob
    closure, the exhaustive program of a negation or a `filter_entry` function discards as a tree -/
theorem walk_stack_read_beneath (W : SWalk) (g : GlobProgram) (pre : List Str)
    (hsf : W.stateFreeB = true) (hG : W.GlobBeneath g pre) (mn : Nat) (mx : Option Nat)
    (rv : RootView)
    (hf0 : entryFaithfulP W.root pre [] = true)
    (hfaith : allPathsLB (entryFaithfulP W.root pre) [] (toWTList rv.children) = true) :
    okEntries (W.items mn mx rv) =
      (unpruned rv).filter (fun e =>
        Walk.within mn mx e.depth &&
        !cutAbove (silenced mn (fun d =>
            globTree W.σ g pre d || negTree W.σ W.negs (relOf (pre ++ d.names)) ||
              stackTree W.filters d)) rv.isDirRoot e) := by
  unfold SWalk.items
  rw [walk_cut_eq_filter_bounded, W.cancels_eq hsf, stackCancels_eq]
  apply List.filter_congr
  intro e he
  have hpre := walk_ok_prefixes (entryFaithfulP W.root pre) 0 none never rv hf0 hfaith e he
  congr 2
  apply cutAbove_congr
  intro k _
  simp only [silenced]
  rw [W.tree_iff_beneath g pre hG ⟨e.names.take k, .d⟩ (hpre k)]


/-! ## 2. `Glob::new(e).walk(base)` followed by a stack of layers with arbitrary closures -/

/-- the walk the capstone is about: root and pivot from `Glob::anchor`, the complete program of the
    FULL glob and the component programs of `WalkProgram::compile` — exactly the fields of
    `Cmd.globWalkPipeline` (`capWalk_pipeline`) — followed by `layers`: negations given as glob
    expressions (token trees) and `filter_entry` closures with ARBITRARY verdict functions -/
def capWalk (σ : Sem) (κ : Casing) (base : Str) (t : Tok) (layers : List SLayer) : SWalk :=
  ⟨σ, (anchor κ t base).1, some ⟨encodeTop t, walkPrograms t, (anchor κ t base).2⟩, layers⟩

/-- **the proviso** (decidable): no invariant prefix and any stack, or a prefix and no negation
    (`filter_entry` layers only).  With a prefix AND a negation the finding K-NOT-RESIDUE-PIVOT
    applies (`capstone_needs_proviso`). -/
def capOk (pre : List Str) (layers : List SLayer) : Bool :=
  pre.isEmpty || layers.all SLayer.isFilter

/-- the negations of the stack are in the fragment of C03 and their `Always` verdicts are sound
    (as `SWalk.negsOk`) -/
def capNegsOk (layers : List SLayer) : Bool :=
  (negsOf layers).all (fun t => notF01 t && notWalkFrag t)

theorem capOk_iff (pre : List Str) (layers : List SLayer) :
    capOk pre layers = true ↔ (pre = [] ∨ (pre ≠ [] ∧ negsOf layers = [])) := by
  have hl : ∀ ls : List SLayer, ls.all SLayer.isFilter = true ↔ negsOf ls = [] := by
    intro ls
    induction ls with
    | nil => simp [negsOf]
    | cons l ls ih => cases l <;> simp [negsOf, SLayer.isFilter, ih]
  simp only [capOk, Bool.or_eq_true, List.isEmpty_iff, hl]
  by_cases h : pre = [] <;> simp [h]

theorem atPivot_fst (b : DepthBehavior) (p : Nat) : (b.atPivot p).1 = b.lower - p := by
  cases b <;> simp [DepthBehavior.atPivot, DepthBehavior.lower]

/-- everything the capstone needs of the anchor, in one place (as `e2e_setup`) -/
theorem cap_setup (σ : Sem) (κ : Casing) (t : Tok) (base : Str) (pre : List Str)
    (hP : prefixSpells (partition κ t).1 pre = true) (layers : List SLayer) (rv : RootView)
    (hnames : allPathsLB goodNames [] (toWTList rv.children) = true) :
    let root := if (partition κ t).1 = [] then base else join base (partition κ t).1
    capWalk σ κ base t layers = ⟨σ, root, some (compiledProgram t pre.length), layers⟩ ∧
    entryFaithfulP root pre [] = true ∧
    allPathsLB (entryFaithfulP root pre) [] (toWTList rv.children) = true := by
  intro root
  have hPeq : (partition κ t).1 = (invariantTextPrefix κ t).2 := partition_fst κ t
  have hanchor := anchor_spells κ t base pre (hPeq ▸ hP)
  refine ⟨?_, anchor_faithful base _ pre [] hP rfl, ?_⟩
  · unfold capWalk
    rw [hanchor, ← hPeq]
    rfl
  · exact allPathsLB_mono goodNames _ (fun q hq => anchor_faithful base _ pre q hP hq) _ [] hnames

theorem capWalk_stateFree (σ : Sem) (root : Str) (t : Tok) (pre : List Str) (layers : List SLayer)
    (h : capOk pre layers = true) :
    (SWalk.mk σ root (some (compiledProgram t pre.length)) layers).stateFreeB = true := by
  simp only [capOk, Bool.or_eq_true, List.isEmpty_iff] at h
  simp only [SWalk.stateFreeB, SWalk.pivot, compiledProgram, Bool.or_eq_true, beq_iff_eq]
  rcases h with h | h
  · exact .inl (by rw [h]; rfl)
  · exact .inr h

/-- **the collapsed walk** (`SWalk.filtrate`, `SWalk.items`): the capstone before the iterator
    level -/
theorem cap_collapsed (σ : Sem) (hσ : SepIsolated σ) (hdot : σ.dotall = true) (κ : Casing)
    (sp : Span) (comps : List (List Tok × Span)) (cl tail : List Tok)
    (hcomps : ∀ c ∈ comps, compOk c.1 = true) (hcl : compOk cl = true) (ht : TailOk tail)
    (hF : F01 (.cat sp (joinSep comps (cl ++ tail))) = true)
    (base : Str) (pre : List Str)
    (hP : prefixSpells (partition κ (.cat sp (joinSep comps (cl ++ tail)))).1 pre = true)
    (layers : List SLayer) (hprov : capOk pre layers = true) (hneg : capNegsOk layers = true)
    (b : DepthBehavior) (hwf : b.wf) (hreach : ∀ u, b.upper = some u → pre.length ≤ u)
    (rv : RootView) (hnames : allPathsLB goodNames [] (toWTList rv.children) = true) :
    let t : Tok := .cat sp (joinSep comps (cl ++ tail))
    let W := capWalk σ κ base t layers
    let mn := (b.atPivot pre.length).1
    let mx := (b.atPivot pre.length).2
    W.filtrate mn mx rv =
      (unpruned rv).filter (fun e =>
        !(pre ++ e.names).isEmpty &&
        (encodeTop t).matchB σ (relOf (pre ++ e.names)) &&
        decide (b.admits (pre ++ e.names).length) &&
        negKeeps σ (negsOf layers) (relOf (pre ++ e.names)) &&
        stackKeeps (filtersOf layers) e &&
        !cutAbove (silenced mn (stackTree (filtersOf layers))) rv.isDirRoot e) ∧
    okEntries (W.items mn mx rv) =
      (unpruned rv).filter (fun e =>
        decide (b.admits (pre ++ e.names).length) &&
        !cutAbove (silenced mn (fun d =>
            globTree σ (compiledProgram t pre.length) pre d ||
              negTree σ (negsOf layers) (relOf (pre ++ d.names)) ||
              stackTree (filtersOf layers) d)) rv.isDirRoot e) := by
  intro t W mn mx
  obtain ⟨hW, hf0, hfaith⟩ := cap_setup σ κ t base pre hP layers rv hnames
  have hW' : W = ⟨σ, _, some (compiledProgram t pre.length), layers⟩ := hW
  have hs := programsSound_compiled σ hσ hdot sp comps cl tail hcomps hcl ht hF pre.length
  have hcomp := compiled_components_ne_nil sp comps cl tail hcomps hcl ht pre.length
  have hsf := capWalk_stateFree σ (if (partition κ t).1 = [] then base else join base (partition κ t).1)
    t pre layers hprov
  rw [hW']
  have hG : (SWalk.mk σ (if (partition κ t).1 = [] then base else join base (partition κ t).1)
      (some (compiledProgram t pre.length)) layers).GlobBeneath (compiledProgram t pre.length) pre :=
    ⟨rfl, rfl, hs, hcomp⟩
  have hd : ∀ e : Entry, Walk.within mn mx e.depth = decide (b.admits (pre ++ e.names).length) := by
    intro e
    rw [within_atPivot b hwf pre.length hreach]
    have : e.depth + pre.length = (pre ++ e.names).length := by
      simp only [Entry.depth, List.length_append]; omega
    rw [this]
  constructor
  · rw [walk_stack_exact_beneath _ _ pre hsf hdot hneg hG mn mx rv hf0 hfaith]
    apply List.filter_congr
    intro e _
    rw [hd]
    rfl
  · rw [walk_stack_read_beneath _ _ pre hsf hG mn mx rv hf0 hfaith]
    apply List.filter_congr
    intro e _
    rw [hd]
    rfl

end Wax.Walk

/-! ## 3. the iterator level: payloads and call logs of the chain of an `SWalk` -/

namespace Wax.Chain
open Wax Wax.Walk

/-- the `GlobEntry` / `TreeEntry` a filtrate separation carries -/
def Sep.sub? : Sep → Option Sub
  | .filtrate x => some x
  | _ => none

theorem sub_mkSep (pv : Nat) (e : Entry) (s : Sepn) :
    (mkSep pv e s).sub? = if decide (s = .filtrate) = true then some ⟨e, pv⟩ else none := by
  cases s <;> rfl

/-- **the payload of what the consumer receives**: the filtrate separations the chain hands up are,
    in order, the entries received, each with the pivot of the walk (a `GlobEntry`) -/
theorem Spec.filtrates_payload (S : Spec) (mn : Nat) (mx : Option Nat) (rv : RootView) :
    (S.chain.run mn mx (MState.init mn rv).size (MState.init mn rv)).filterMap (fun o => o.sep.sub?) =
      (okEntries (S.chain.collect mn mx (MState.init mn rv).size (MState.init mn rv))).map
        (fun e => ⟨e, S.pivot⟩) := by
  have h := S.refines mn mx rv
  rw [h.1, h.2.2]
  generalize walkItems mn mx S.cancels rv = items
  induction items with
  | nil => rfl
  | cons it rest ih =>
    cases it with
    | err p a =>
      simp only [List.map_cons, List.filterMap_cons, Spec.obsOf_err, Sep.sub?, okEntries_err] at ih ⊢
      exact ih
    | ok e =>
      simp only [List.map_cons, List.filterMap_cons, Spec.obsOf_ok, sub_mkSep, okEntries_ok,
        List.filter_cons] at ih ⊢
      by_cases hd : (S.decide e).1 = .filtrate
      · simp only [hd, decide_true, if_true, List.map_cons, ih]
      · simp only [hd, decide_false, Bool.false_eq_true, if_false, ih]

theorem specS_pivot (W : SWalk) : (specOfS W).pivot = W.pivot := by
  unfold Spec.pivot specOfS SWalk.pivot; cases W.glob <;> rfl

/-- the trace of the consumer's feeds of the chain of `W`, with the fuel the machine needs -/
def straceOf (W : SWalk) (mn : Nat) (mx : Option Nat) (rv : RootView) : List Obs :=
  (ofSWalk W).run mn mx (MState.init mn rv).size (MState.init mn rv)

/-- the entries the consumer of the chain of `W` receives (the consumer's `for` loop) -/
def sreceived (W : SWalk) (mn : Nat) (mx : Option Nat) (rv : RootView) : List Entry :=
  okEntries ((ofSWalk W).collect mn mx (MState.init mn rv).size (MState.init mn rv))

theorem swalk_filtrates_payload (W : SWalk) (mn : Nat) (mx : Option Nat) (rv : RootView) :
    (straceOf W mn mx rv).filterMap (fun o => o.sep.sub?) =
      (sreceived W mn mx rv).map (fun e => ⟨e, W.pivot⟩) := by
  have := (specOfS W).filtrates_payload mn mx rv
  rw [specS_pivot] at this
  exact this

theorem swalk_layer_stage (W : SWalk) (g : GlobProgram) (hg : W.glob = some g) (i : Nat)
    (l : SLayer) (hl : W.layers[i]? = some l) :
    (ofSWalk W).reverse[1 + i]? = some (.sub (slayerFn W l)) := by
  unfold ofSWalk Spec.chain
  rw [List.reverse_reverse]
  unfold Spec.stages Spec.globStages specOfS
  simp only [hg, Option.map_some]
  have : ([Stage.glob g.pivot fun e => (globVerdict W.σ g (W.path e) e.depth).1]).length = 1 := rfl
  rw [← this, getElem?_append_add, List.getElem?_map, List.getElem?_map, hl]
  rfl

/-- **the call log of every layer of the chain** (a negation or a `filter_entry` closure, at any
    position) is the list of the Ok entries the machine reads, each as often as it is read -/
theorem swalk_chain_consulted (W : SWalk) (g : GlobProgram) (hg : W.glob = some g)
    (mn : Nat) (mx : Option Nat) (rv : RootView) (i : Nat) (hi : i < W.layers.length) :
    okEntries ((callLog (1 + i) (straceOf W mn mx rv)).map Sep.item) = okEntries (W.items mn mx rv) := by
  have hl : W.layers[i]? = some W.layers[i] := List.getElem?_eq_getElem hi
  unfold straceOf
  rw [sub_log_is_pulled _ mn mx _ _ _ _ (swalk_layer_stage W g hg i _ hl),
    (swalk_chain_refines W mn mx rv).1]

/-- the `GlobWalker` closure is called once per entry read, on the filtrate `WalkTree` yields -/
theorem swalk_chain_log_glob (W : SWalk) (g : GlobProgram) (hg : W.glob = some g)
    (mn : Nat) (mx : Option Nat) (rv : RootView) :
    callLog 0 (straceOf W mn mx rv) =
      (okEntries (W.items mn mx rv)).map (fun e => .filtrate ⟨e, 0⟩) := by
  unfold straceOf ofSWalk
  rw [((specOfS W).refines mn mx rv).1, specS_cancels]
  show callLog 0 ((W.items mn mx rv).map _) = _
  rw [callLog, List.filterMap_map, okEntries, List.map_filterMap]
  apply filterMap_congr'
  intro it _
  cases it with
  | err p a =>
    simp only [Function.comp, Spec.obsOf_err, Obs.callOf, Item.entry?, Option.map_none]
    have hne : (specOfS W).chain.reverse ≠ [] := by
      rw [Spec.chain, List.reverse_reverse, Spec.stages, Spec.globStages, specOfS, hg]
      simp
    cases hc : (specOfS W).chain.reverse with
    | nil => exact absurd hc hne
    | cons st rest => rfl
  | ok e =>
    simp only [Function.comp, Spec.obsOf_ok, Obs.callOf, Item.entry?, Option.map_some,
      Spec.globCalls, specOfS, hg, Option.map_some, List.singleton_append, List.getElem?_cons_zero,
      Option.join_some]

end Wax.Chain

/-! ## 4. the capstone -/

namespace Wax.Walk
open Wax Wax.Path Wax.Cmd Wax.Chain
open Wax.WalkTree (relOf relOf_append PathOk hasBad joinSep)

theorem unpruned_nodup (rv : RootView) (hd : rv.distinct = true) : (unpruned rv).Nodup := by
  unfold unpruned
  rw [walkItems_eq_spec]
  exact walkSpec_nodup 0 none never rv hd

theorem negKeeps_iff (σ : Sem) (hdot : σ.dotall = true) (ts : List Tok)
    (hneg : ts.all (fun t => notF01 t && notWalkFrag t) = true) (rel : Str) :
    negKeeps σ ts rel = true ↔ ∀ t ∈ ts, ¬ Spec.Matches σ t rel := by
  simp only [negKeeps, List.all_eq_true, beq_iff_eq]
  have key : ∀ t ∈ ts, ((notProgram t).residue σ rel = .keep ↔ ¬ Spec.Matches σ t rel) := by
    intro t ht
    have hok := List.all_eq_true.mp hneg t ht
    simp only [Bool.and_eq_true] at hok
    rw [← residue_iff_matches_partial σ hdot t hok.1 rel]
    simp
  constructor
  · intro h t ht; exact (key t ht).mp (h t ht)
  · intro h t ht; exact (key t ht).mpr (h t ht)

/-- (iv) in words: no `filter_entry` closure returned a tree verdict for a REPORTED directory above
    `e` — reported: not the root of the walk unless walkdir reports it as a directory, and at a
    depth from the base that reaches the minimum depth of the behaviour -/
theorem cut_filters_false_iff (b : DepthBehavior) (p : Nat) (Fs : VStack) (rd : Bool) (e : Entry) :
    cutAbove (silenced (b.atPivot p).1 (stackTree Fs)) rd e = false ↔
      ∀ k, k < e.names.length → (k ≠ 0 ∨ rd = true) → b.lower ≤ p + k →
        ∀ f ∈ Fs, f ⟨e.names.take k, .d⟩ ≠ .tree := by
  rw [cutAbove_eq_false_iff]
  constructor
  · intro h k hk hg hm
    exact (silenced_tree_false_iff _ Fs e.names k hk).mp (h k hk hg) (by rw [atPivot_fst]; omega)
  · intro h k hk hg
    refine (silenced_tree_false_iff _ Fs e.names k hk).mpr (fun hm => h k hk hg ?_)
    rw [atPivot_fst] at hm; omega

/--
**THE CAPSTONE FOR WALKS (`walk_capstone_partial`): C02 + C03 + C13 + C14 + C16 together, at
iterator level.**

`Glob::new(e).walk(base)` — root and pivot from the model's own `anchor`, the complete program of
the FULL glob, the component programs of `WalkProgram::compile`: `capWalk`, field for field
`Cmd.globWalkPipeline`, which is what the driver runs (`capstone_driver`) — followed by ANY stack
`layers` of negations (given as glob expressions) and `filter_entry` closures with ARBITRARY verdict
functions `Entry → Verdict`, under any depth behaviour `b`, over any tree `rv` as walkdir sees it
(either link behaviour), EXECUTED BY THE ITERATOR-LEVEL CHAIN of adaptors (`Chain.collect`: the
consumer's `for` loop; `Chain.run`: the trace of its feeds; over `ofSWalk`, which for the harness
layers is `Chain.ofPipeline`, `capstone_driver`).

Hypotheses — exactly the union of those of the pieces, all decidable except `hσ`:
* `hσ`, `hdot`: the comparison of characters does not confuse the separator; `(?s)`;
* the compiled fragment (`hcomps`, `hcl`, `ht`, `hF`): `t = c₁/…/cₖ/c[/**…]`, boundary-free
  components inside `F01` (`glob_walk_e2e_partial`);
* `hP` (`prefixSpells`): the invariant text prefix is relative and spells the names `pre`
  canonically (excludes K-ENTRY-ROOTED-DEPTH, K-WALK-DOT-PREFIX);
* `hprov` (`capOk`): **no invariant prefix and any stack, or a prefix and no negation** — with a
  prefix and a negation K-NOT-RESIDUE-PIVOT applies (`capstone_needs_proviso`);
* `hneg` (`capNegsOk`): every negation in `notF01`, its `Always` verdicts sound (`notWalkFrag`:
  excludes K-NOT-FALSE-ALWAYS, `capstone_needs_negsOk`);
* `hwf`, `hreach`: the depth behaviour is representable and its maximum reaches the pivot
  (`reach_needed`);
* `hnames`: the names in the tree are names walkdir can report (`walkRootView_goodNames`).

Conclusion, with `received` the entries the consumer's loop receives and `trace` its feeds:
1. the walk starts at `join base P` (at `base` without prefix) with pivot `pre.length`;
2. `received` is — same entries, same order, same file types — the list of the entries `e` of the
   unpruned traversal that lie beneath the base, whose path relative to the base the full glob
   matches, whose depth from the base is admitted, that no negation discards, that every closure
   keeps, and that are not beneath a reported directory a closure discards as a tree;
3. the same as membership, in the documented languages: `e` is received iff it is an entry of the
   tree beneath the base with (i) its base-relative path in `Spec.Matches` of the glob, (o) its
   depth admitted, (ii) in `Spec.Matches` of NO negation, (iii) every `filter_entry` closure keeps
   it, (iv) no closure returned a tree verdict for a reported directory above it;
4. no entry twice (when no directory has two children of one name);
5. the filtrates handed up are `GlobEntry`s with the pivot `pre.length`, and for each received entry
   `root_relative_paths` is (`base` without trailing separators, that relative path), whose
   components are the prefix names and the names below the root, all `Normal`, `GlobEntry::depth`
   many;
6. the function of EVERY layer `i` (closure or negation; stage `1 + i` of the chain, stage 0 being
   the `GlobWalker` closure) is CALLED exactly on the entries within the bounds that are not
   beneath a reported directory which the glob's component programs (`globTree`), the exhaustive
   program of a negation (`negTree`) or a closure (`stackTree`) discarded as a tree — in traversal
   order, each once; and so is the `GlobWalker` closure (on the `TreeEntry` filtrates of `WalkTree`).

FULL statement (not proved; false as it stands for the listed findings): the same for every
`build e = some t`, every stack, without `hP`, `hprov`, `hneg`, `hreach`.  Partial in exactly the
sense of the pieces: compiled fragment; canonical relative prefix; the proviso; sound negations.
-/
theorem walk_capstone_partial (σ : Sem) (hσ : SepIsolated σ) (hdot : σ.dotall = true) (κ : Casing)
    (sp : Span) (comps : List (List Tok × Span)) (cl tail : List Tok)
    (hcomps : ∀ c ∈ comps, compOk c.1 = true) (hcl : compOk cl = true) (ht : TailOk tail)
    (hF : F01 (.cat sp (joinSep comps (cl ++ tail))) = true)
    (base : Str) (pre : List Str)
    (hP : prefixSpells (partition κ (.cat sp (joinSep comps (cl ++ tail)))).1 pre = true)
    (layers : List SLayer) (hprov : capOk pre layers = true) (hneg : capNegsOk layers = true)
    (b : DepthBehavior) (hwf : b.wf) (hreach : ∀ u, b.upper = some u → pre.length ≤ u)
    (rv : RootView) (hnames : allPathsLB goodNames [] (toWTList rv.children) = true) :
    let t : Tok := .cat sp (joinSep comps (cl ++ tail))
    let P := (partition κ t).1
    let W := capWalk σ κ base t layers
    let mn := (b.atPivot W.pivot).1
    let mx := (b.atPivot W.pivot).2
    let received := sreceived W mn mx rv
    let trace := straceOf W mn mx rv
    let rel : Entry → Str := fun e => relOf (pre ++ e.names)
    let discarded : Entry → Bool := fun d =>
      globTree σ (compiledProgram t pre.length) pre d || negTree σ (negsOf layers) (rel d) ||
        stackTree (filtersOf layers) d
    -- 1. the anchor
    (W.root = (if P = [] then base else join base P) ∧ W.pivot = pre.length) ∧
    -- 2. the entries received, in order
    received = (unpruned rv).filter (fun e =>
        !(pre ++ e.names).isEmpty &&
        (encodeTop t).matchB σ (rel e) &&
        decide (b.admits (pre ++ e.names).length) &&
        negKeeps σ (negsOf layers) (rel e) &&
        stackKeeps (filtersOf layers) e &&
        !cutAbove (silenced mn (stackTree (filtersOf layers))) rv.isDirRoot e) ∧
    -- 3. membership, in the documented languages
    (∀ e, e ∈ received ↔
      e ∈ unpruned rv ∧ pre ++ e.names ≠ [] ∧
      Spec.Matches σ t (rel e) ∧
      b.admits (pre ++ e.names).length ∧
      (∀ n ∈ negsOf layers, ¬ Spec.Matches σ n (rel e)) ∧
      (∀ f ∈ filtersOf layers, f e = .keep) ∧
      (∀ k, k < e.names.length → (k ≠ 0 ∨ rv.isDirRoot = true) → b.lower ≤ pre.length + k →
        ∀ f ∈ filtersOf layers, f ⟨e.names.take k, .d⟩ ≠ .tree)) ∧
    -- 4. no repetition
    (rv.distinct = true → received.Nodup) ∧
    -- 5. what each received entry carries
    (trace.filterMap (fun o => o.sep.sub?) = received.map (fun e => ⟨e, pre.length⟩) ∧
      ∀ e ∈ received,
        W.path e = joinAll (if P = [] then base else join base P) e.names ∧
        splitAtDepth (W.path e) (e.depth + pre.length) = (trim base, rel e) ∧
        components (rel e) = (pre ++ e.names).map Comp.normal ∧
        e.depth + pre.length = (components (rel e)).length) ∧
    -- 6. what every function is called on
    (callLog 0 trace = ((unpruned rv).filter (fun e =>
        decide (b.admits (pre ++ e.names).length) &&
          !cutAbove (silenced mn discarded) rv.isDirRoot e)).map (fun e => .filtrate ⟨e, 0⟩)) ∧
    (∀ i, i < layers.length →
      okEntries ((callLog (1 + i) trace).map Sep.item) = (unpruned rv).filter (fun e =>
        decide (b.admits (pre ++ e.names).length) &&
          !cutAbove (silenced mn discarded) rv.isDirRoot e) ∧
      (rv.distinct = true → (okEntries ((callLog (1 + i) trace).map Sep.item)).Nodup)) := by
  intro t P W mn mx received trace rel discarded
  obtain ⟨hW, hf0, hfaith⟩ := cap_setup σ κ t base pre hP layers rv hnames
  have hW' : W = ⟨σ, if P = [] then base else join base P, some (compiledProgram t pre.length),
      layers⟩ := hW
  have hpiv : W.pivot = pre.length := by rw [hW']; rfl
  have hroot : W.root = (if P = [] then base else join base P) := by rw [hW']
  have hglob : W.glob = some (compiledProgram t pre.length) := by rw [hW']
  obtain ⟨hfil, hread⟩ := cap_collapsed σ hσ hdot κ sp comps cl tail hcomps hcl ht hF base pre hP
    layers hprov hneg b hwf hreach rv hnames
  have hmn : mn = (b.atPivot pre.length).1 := by show (b.atPivot W.pivot).1 = _; rw [hpiv]
  have hmx : mx = (b.atPivot pre.length).2 := by show (b.atPivot W.pivot).2 = _; rw [hpiv]
  -- 2
  have h2 : received = (unpruned rv).filter (fun e =>
        !(pre ++ e.names).isEmpty &&
        (encodeTop t).matchB σ (rel e) &&
        decide (b.admits (pre ++ e.names).length) &&
        negKeeps σ (negsOf layers) (rel e) &&
        stackKeeps (filtersOf layers) e &&
        !cutAbove (silenced mn (stackTree (filtersOf layers))) rv.isDirRoot e) := by
    show sreceived W mn mx rv = _
    unfold sreceived
    rw [(swalk_chain_refines W mn mx rv).2, hmn, hmx]
    exact hfil
  have hitems : okEntries (W.items mn mx rv) = (unpruned rv).filter (fun e =>
        decide (b.admits (pre ++ e.names).length) &&
          !cutAbove (silenced mn discarded) rv.isDirRoot e) := by
    rw [hmn, hmx]; exact hread
  -- 3
  have h3 : ∀ e, e ∈ received ↔
      e ∈ unpruned rv ∧ pre ++ e.names ≠ [] ∧
      Spec.Matches σ t (rel e) ∧
      b.admits (pre ++ e.names).length ∧
      (∀ n ∈ negsOf layers, ¬ Spec.Matches σ n (rel e)) ∧
      (∀ f ∈ filtersOf layers, f e = .keep) ∧
      (∀ k, k < e.names.length → (k ≠ 0 ∨ rv.isDirRoot = true) → b.lower ≤ pre.length + k →
        ∀ f ∈ filtersOf layers, f ⟨e.names.take k, .d⟩ ≠ .tree) := by
    intro e
    have hm : ∀ w, (encodeTop t).matchB σ w = true ↔ Spec.Matches σ t w :=
      fun w => compiled_complete_iff σ hdot t hF 0 w
    rw [h2, List.mem_filter, hmn]
    simp only [Bool.and_eq_true, Bool.not_eq_true', List.isEmpty_eq_false_iff, decide_eq_true_eq,
      hm, negKeeps_iff σ hdot (negsOf layers) hneg,
      cut_filters_false_iff, and_assoc]
    have hk : stackKeeps (filtersOf layers) e = true ↔ ∀ f ∈ filtersOf layers, f e = .keep := by
      simp only [stackKeeps, List.all_eq_true, beq_iff_eq]
    rw [hk]
  refine ⟨⟨hroot, hpiv⟩, h2, h3, ?_, ⟨?_, ?_⟩, ?_, ?_⟩
  · -- 4
    intro hd
    rw [h2]
    exact (unpruned_nodup rv hd).sublist List.filter_sublist
  · -- 5a
    have := swalk_filtrates_payload W mn mx rv
    rw [hpiv] at this
    exact this
  · -- 5b
    intro e he
    obtain ⟨hmem, hne, _⟩ := (h3 e).mp he
    have hgn : goodNames e.names = true :=
      walk_ok_good goodNames 0 none never rv rfl hnames e hmem
    have hsplit := splitAtDepth_anchor base P pre e.names hP hgn
    have hnot : ¬ (P = [] ∧ e.names = []) := by
      rintro ⟨h1, h2⟩
      exact hne (by rw [(prefixSpells_nil_iff hP).mp h1, h2]; rfl)
    rw [if_neg hnot] at hsplit
    have hgood : goodNames (pre ++ e.names) = true :=
      goodNames_append.mpr ⟨by simp only [prefixSpells, Bool.and_eq_true] at hP; exact hP.1, hgn⟩
    have hpath : W.path e = joinAll (if P = [] then base else join base P) e.names := by
      rw [hW']; rfl
    refine ⟨hpath, ?_, components_relOf_good hgood, ?_⟩
    · rw [hpath]; exact hsplit
    · show e.depth + pre.length = (components (relOf (pre ++ e.names))).length
      simp only [components_relOf_good hgood, List.length_map, List.length_append, Entry.depth]
      omega
  · -- 6a
    show callLog 0 (straceOf W mn mx rv) = _
    rw [swalk_chain_log_glob W _ hglob mn mx rv, hitems]
  · -- 6b
    intro i hi
    have hi' : i < W.layers.length := by rw [hW']; exact hi
    have hc : okEntries ((callLog (1 + i) trace).map Sep.item) = (unpruned rv).filter (fun e =>
        decide (b.admits (pre ++ e.names).length) &&
          !cutAbove (silenced mn discarded) rv.isDirRoot e) := by
      show okEntries ((callLog (1 + i) (straceOf W mn mx rv)).map Sep.item) = _
      rw [swalk_chain_consulted W _ hglob mn mx rv i hi', hitems]
    refine ⟨hc, fun hd => ?_⟩
    rw [hc]
    exact (unpruned_nodup rv hd).sublist List.filter_sublist

end Wax.Walk

/-! ### what a tree verdict of the glob closure or of a negation means

Conclusion 6 of the capstone names three sources of discarded trees.  A closure may discard what it
likes.  The other two discard only directories beneath which nothing would be received anyway: -/

namespace Wax.Walk
open Wax Wax.Path Wax.Cmd Wax.Chain
open Wax.WalkTree (relOf relOf_append PathOk hasBad hasBad_append joinSep)

/-- the glob's component programs discard a directory as a tree only if the glob matches nothing
    at or beneath it -/
theorem globTree_only_nonmatching (σ : Sem) (g : GlobProgram) (hs : ProgramsSound σ g)
    (pre : List Str) (d : Entry) (h : globTree σ g pre d = true) (q : List Str)
    (hq : goodNames (pre ++ d.names ++ q) = true) :
    g.complete.matchB σ (relOf (pre ++ d.names ++ q)) = false := by
  have hbad := hasBad_append _ _ q (relVerdict_tree_hasBad σ g _ (beq_iff_eq.mp h))
  cases hm : g.complete.matchB σ (relOf (pre ++ d.names ++ q)) with
  | false => rfl
  | true =>
    have := hs.notBad _ (goodNames_pathOk hq) hm
    rw [hbad] at this
    cases this

/-- the exhaustive program of a sound negation discards a directory as a tree only if some
    negation matches (documented language) the directory and everything beneath it -/
theorem negTree_closed (σ : Sem) (hdot : σ.dotall = true) (layers : List SLayer)
    (hneg : capNegsOk layers = true) (a : List Str)
    (h : negTree σ (negsOf layers) (relOf a) = true) (q : List Str) :
    ∃ n ∈ negsOf layers, Spec.Matches σ n (relOf (a ++ q)) := by
  simp only [negTree, List.any_eq_true, beq_iff_eq] at h
  obtain ⟨n, hn, htree⟩ := h
  have hok := List.all_eq_true.mp hneg n hn
  simp only [Bool.and_eq_true] at hok
  have hp : prunes σ n (relOf a) = true := by simp [prunes, htree]
  have hc := negFrag_closed σ hdot n hok.1 hok.2 a q hp
  refine ⟨n, hn, ?_⟩
  rw [← residue_iff_matches_partial σ hdot n hok.1]
  simp only [prunes, beq_iff_eq] at hc
  rw [hc]
  simp

end Wax.Walk

/-! ## 5. corollaries at this level: order independence, monotonicity, the driver -/

namespace Wax.Walk
open Wax Wax.Path Wax.Cmd Wax.Chain
open Wax.WalkTree (relOf relOf_append PathOk hasBad joinSep)

theorem capWalk_stateFreeB (σ : Sem) (κ : Casing) (t : Tok) (base : Str) (pre : List Str)
    (hP : prefixSpells (partition κ t).1 pre = true) (layers : List SLayer)
    (hprov : capOk pre layers = true) : (capWalk σ κ base t layers).stateFreeB = true := by
  have hPeq : (partition κ t).1 = (invariantTextPrefix κ t).2 := partition_fst κ t
  have hanchor := anchor_spells κ t base pre (hPeq ▸ hP)
  simp only [capOk, Bool.or_eq_true, List.isEmpty_iff] at hprov
  simp only [SWalk.stateFreeB, SWalk.pivot, capWalk, hanchor, Bool.or_eq_true, beq_iff_eq]
  rcases hprov with h | h
  · exact .inl (by rw [h]; rfl)
  · exact .inr h

theorem capOk_perm {pre : List Str} {layers ls : List SLayer} (hp : layers.Perm ls)
    (h : capOk pre layers = true) : capOk pre ls = true := by
  simp only [capOk, Bool.or_eq_true, List.all_eq_true] at h ⊢
  rcases h with h | h
  · exact .inl h
  · exact .inr (fun l hl => h l (hp.mem_iff.mpr hl))

/-- **ORDER INDEPENDENCE at the level of the capstone (C16)**: under the proviso and `hP` alone (any
    glob, any closures, any bounds, any tree), building the chain of adaptors with the layers in
    another order changes neither the items pulled from `WalkTree`, nor the entries the consumer
    receives, nor their order, nor the call log of any layer, whatever position it is moved to.
    Without the proviso: `capstone_needs_proviso` (the reversed stack yields more). -/
theorem walk_capstone_perm (σ : Sem) (κ : Casing) (t : Tok) (base : Str) (pre : List Str)
    (hP : prefixSpells (partition κ t).1 pre = true) (layers ls : List SLayer)
    (hprov : capOk pre layers = true) (hp : layers.Perm ls)
    (mn : Nat) (mx : Option Nat) (rv : RootView) :
    pulled (straceOf (capWalk σ κ base t ls) mn mx rv) =
      pulled (straceOf (capWalk σ κ base t layers) mn mx rv) ∧
    sreceived (capWalk σ κ base t ls) mn mx rv = sreceived (capWalk σ κ base t layers) mn mx rv ∧
    (∀ i j, i < layers.length → j < ls.length →
      okEntries ((callLog (1 + j) (straceOf (capWalk σ κ base t ls) mn mx rv)).map Sep.item) =
        okEntries ((callLog (1 + i) (straceOf (capWalk σ κ base t layers) mn mx rv)).map Sep.item)) := by
  have hsf := capWalk_stateFreeB σ κ t base pre hP layers hprov
  have h := swalk_chain_perm (capWalk σ κ base t layers) hsf ls hp mn mx rv
  refine ⟨h.1, h.2, fun i j hi hj => ?_⟩
  rw [swalk_chain_consulted (capWalk σ κ base t ls) _ rfl mn mx rv j hj,
    swalk_chain_consulted (capWalk σ κ base t layers) _ rfl mn mx rv i hi]
  exact congrArg okEntries (walk_stack_perm (capWalk σ κ base t layers) hsf ls hp mn mx rv).1

/-- **MONOTONICITY at the level of the capstone**: put one more layer `l` (a negation or any
    closure) anywhere into the stack — under the proviso for the larger stack, the consumer of the
    chain receives exactly the entries it received before that `l` keeps and that are not beneath
    a reported directory `l` discards as a tree; in particular a sublist: same order, nothing
    added. -/
theorem walk_capstone_insert (σ : Sem) (κ : Casing) (t : Tok) (base : Str) (pre : List Str)
    (hP : prefixSpells (partition κ t).1 pre = true) (l₁ l₂ : List SLayer) (l : SLayer)
    (hprov : capOk pre (l₁ ++ l :: l₂) = true) (mn : Nat) (mx : Option Nat) (rv : RootView) :
    let W := capWalk σ κ base t (l₁ ++ l₂)
    sreceived (capWalk σ κ base t (l₁ ++ l :: l₂)) mn mx rv =
      (sreceived W mn mx rv).filter (fun e =>
        (l.verdict W e .filtrate == .keep) &&
          !cutAbove (silenced mn (fun d => l.verdict W d .filtrate == .tree)) rv.isDirRoot e) ∧
    (sreceived (capWalk σ κ base t (l₁ ++ l :: l₂)) mn mx rv).Sublist (sreceived W mn mx rv) ∧
    ∀ e ∈ sreceived (capWalk σ κ base t (l₁ ++ l :: l₂)) mn mx rv, e ∈ sreceived W mn mx rv := by
  intro W
  have hsf := capWalk_stateFreeB σ κ t base pre hP _ hprov
  have h := walk_stack_insert W l₁ l₂ l hsf mn mx rv
  have e1 : sreceived (capWalk σ κ base t (l₁ ++ l :: l₂)) mn mx rv =
      (W.withLayers (l₁ ++ l :: l₂)).filtrate mn mx rv :=
    (swalk_chain_refines (capWalk σ κ base t (l₁ ++ l :: l₂)) mn mx rv).2
  have e2 : sreceived W mn mx rv = (W.withLayers (l₁ ++ l₂)).filtrate mn mx rv :=
    (swalk_chain_refines W mn mx rv).2
  rw [e1, e2]
  exact ⟨h.1, h.2, fun e he => h.2.subset he⟩

/-- the verdict of an inserted layer, read: a closure is applied to the entry; a negation to the
    path of the entry relative to the base (under `hP`, for an entry with reportable names) -/
theorem capWalk_verdict_filter (σ : Sem) (κ : Casing) (t : Tok) (base : Str) (ls : List SLayer)
    (f : Entry → Verdict) (e : Entry) :
    (SLayer.filter f).verdict (capWalk σ κ base t ls) e .filtrate = f e := rfl

theorem capWalk_verdict_not (σ : Sem) (κ : Casing) (t : Tok) (base : Str) (pre : List Str)
    (hP : prefixSpells (partition κ t).1 pre = true) (ls : List SLayer) (n : Tok) (e : Entry)
    (hn : goodNames e.names = true) :
    (SLayer.not n).verdict (capWalk σ κ base t ls) e .filtrate =
      (notProgram n).residue σ (relOf (pre ++ e.names)) := by
  have hPeq : (partition κ t).1 = (invariantTextPrefix κ t).2 := partition_fst κ t
  have hanchor := anchor_spells κ t base pre (hPeq ▸ hP)
  have hsplit := splitAtDepth_anchor base (partition κ t).1 pre e.names hP hn
  simp only [SLayer.verdict, SWalk.relativeFor, SWalk.path, SWalk.pivot, capWalk, hanchor, if_true,
    Entry.depth, ← hPeq, hsplit]

/-! ### the tie to `Cmd.globWalkPipeline` and to the driver -/

/-- **`capWalk` IS `Cmd.globWalkPipeline`**: for the layers of the harness (`LayerSpec`: a negation
    given by its token tree, `filter_entry` with rules by file name — every stack `parseStack`
    accepts is of this form), the iterator chain of the driver's pipeline is, stage for stage, the
    chain of `capWalk` with the same layers; so the entries `cmdWith` prints (`cmdWith_glob`:
    `render` of `π.items`, whose `ok:` items are `π.yielded`) are the entries the capstone is about -/
theorem capstone_driver (σ : Sem) (κ : Casing) (base : Str) (t : Tok) (specs : List LayerSpec)
    (mn : Nat) (mx : Option Nat) (rv : RootView) :
    let π := globWalkPipeline σ κ base t (specs.map LayerSpec.layer)
    let W := capWalk σ κ base t (specs.map (LayerSpec.slayer π.root))
    ofPipeline π = ofSWalk W ∧
    okEntries (π.yielded mn mx rv) = sreceived W mn mx rv ∧
    π.items mn mx rv = pulled (straceOf W mn mx rv) := by
  intro π W
  have hc : ofPipeline π = ofSWalk W := by
    rw [ofPipeline_eq]
    unfold ofSWalk
    congr 1
    unfold specOf specOfS
    congr 1
    simp only [π, W, globWalkPipeline, capWalk, List.map_map]
    apply List.map_congr_left
    intro s _
    cases s <;> rfl
  refine ⟨hc, ?_, ?_⟩
  · rw [← chain_yields, hc]; rfl
  · rw [← (chain_refines_separations π mn mx rv).2]
    unfold Chain.trace straceOf
    rw [hc]

end Wax.Walk

/-! ## 6. the capstone is not vacuous: parsed globs, the driver's semantics, every hypothesis
discharged -/

namespace Wax.Walk
open Wax Wax.Path Wax.Cmd Wax.Chain
open Wax.WalkTree (relOf relOf_append PathOk hasBad joinSep)

/-! ### (A) `a/b/{x,y}*/**` from `r` (a two-component prefix) followed by two `filter_entry`
closures, over the tree `eRv` (four levels below `r/a/b/`) -/

/-- `filter_entry(|e| if e is named "d" { Tree } else { keep })` -/
def capFd : Entry → Verdict := fun e => if e.names.getLast? == some "d".toList then .tree else .keep
/-- `filter_entry(|e| if e is a file directly below the root of the walk { File } else { keep })` -/
def capFf : Entry → Verdict := fun e => if e.kind == .f && e.names.length == 1 then .file else .keep

def capLayersA : List SLayer := [.filter capFd, .filter capFf]

/-- every hypothesis of `walk_capstone_partial` holds for it, and the conclusion determines what the
    consumer of the chain receives: `a/b/xs` and `a/b/xs/f` — `xs/d` is discarded as a tree by the
    first closure (nothing beneath it is read), `y1` as a file by the second -/
example :
    let W := capWalk drvSem drvCasing "r".toList eTok capLayersA
    (W.root = "r/a/b/".toList ∧ W.pivot = 2) ∧
    sreceived W (DepthBehavior.unbounded.atPivot W.pivot).1 (DepthBehavior.unbounded.atPivot W.pivot).2
        eRv = [⟨["xs".toList], .d⟩, ⟨["xs".toList, "f".toList], .f⟩] ∧
    -- the closures are called on 9 of the 13 entries: not on `z/xq` (the component program `{x,y}*`
    -- rejects `z`), nor beneath `xs/d`
    okEntries ((callLog 2 (straceOf W 0 none eRv)).map Sep.item) =
      [⟨[], .d⟩, ⟨["xs".toList], .d⟩, ⟨["xs".toList, "f".toList], .f⟩, ⟨["xs".toList, "d".toList], .d⟩,
       ⟨["z".toList], .d⟩, ⟨["y1".toList], .f⟩, ⟨["n".toList], .f⟩, ⟨["u".toList], .d⟩,
       ⟨["w".toList], .l⟩] := by
  intro W
  have h := walk_capstone_partial drvSem drvSem_sepIsolated rfl drvCasing ⟨0, 13⟩ eComps eLast eTail
    (by decide) (by decide) (Or.inr ⟨_, _, _, rfl⟩) (by decide) "r".toList ["a".toList, "b".toList]
    eTok_spells capLayersA (by decide) (by decide) .unbounded trivial (fun u hu => by cases hu) eRv
    (by decide)
  refine ⟨⟨h.1.1.trans (by decide), h.1.2⟩, h.2.1.trans (by decide), ?_⟩
  have h6 := (h.2.2.2.2.2.2 1 (by decide)).1
  rw [h.1.2] at h6
  exact h6.trans (by decide)

/-- the same by evaluation of the chain alone (the consumer's loop over the adaptors), and the
    payload of the filtrates handed up: `GlobEntry`s with pivot 2 -/
example :
    let W := capWalk drvSem drvCasing "r".toList eTok capLayersA
    sreceived W 0 none eRv = [⟨["xs".toList], .d⟩, ⟨["xs".toList, "f".toList], .f⟩] ∧
    (straceOf W 0 none eRv).filterMap (fun o => o.sep.sub?) =
      [⟨⟨["xs".toList], .d⟩, 2⟩, ⟨⟨["xs".toList, "f".toList], .f⟩, 2⟩] := by
  decide

/-! ### (B) `{x,y}*/**` from `r/a/b` (no prefix) followed by `not("xs/d/h/**")` and a
`filter_entry` closure, over the same tree (four levels) -/

/-- what `xs/d/h/**` parses to -/
def capNotTok : Tok :=
  .cat ⟨0, 9⟩ [.lit ⟨0, 2⟩ "xs".toList false, .sep ⟨2, 1⟩, .lit ⟨3, 1⟩ ['d'] false, .sep ⟨4, 1⟩,
    .lit ⟨5, 1⟩ ['h'] false, .tree ⟨6, 3⟩ true]

theorem capNotTok_parse : parse "xs/d/h/**".toList = .ok capNotTok := by rfl

/-- `filter_entry(|e| if e is named "g" { File } else { keep })` -/
def capFg : Entry → Verdict := fun e => if e.names.getLast? == some "g".toList then .file else .keep

def capLayersB : List SLayer := [.not capNotTok, .filter capFg]

/-- the token tree of `{x,y}*/**` in the shape of the compiled fragment -/
def capCl : List Tok :=
  [.alt ⟨0, 5⟩ [.cat ⟨1, 1⟩ [.lit ⟨1, 1⟩ ['x'] false], .cat ⟨3, 1⟩ [.lit ⟨3, 1⟩ ['y'] false]],
   .zom ⟨5, 1⟩ false]

/-- every hypothesis of `walk_capstone_partial` holds (no prefix: the proviso admits the negation),
    and the conclusion determines what the consumer receives: the glob matches `xs` and everything
    beneath it and `y1`; the negation discards `xs/d/h` as a tree (so `xs/d/h/k` is never read);
    the closure discards `xs/d/g` -/
example :
    let W := capWalk drvSem drvCasing "r/a/b".toList nTok capLayersB
    (W.root = "r/a/b".toList ∧ W.pivot = 0) ∧
    sreceived W (DepthBehavior.unbounded.atPivot W.pivot).1 (DepthBehavior.unbounded.atPivot W.pivot).2
        eRv =
      [⟨["xs".toList], .d⟩, ⟨["xs".toList, "f".toList], .f⟩, ⟨["xs".toList, "d".toList], .d⟩,
       ⟨["y1".toList], .f⟩] ∧
    (⟨["xs".toList, "d".toList, "h".toList, "k".toList], .l⟩ : Entry) ∉
      okEntries ((callLog 2 (straceOf W 0 none eRv)).map Sep.item) := by
  intro W
  have h := walk_capstone_partial drvSem drvSem_sepIsolated rfl drvCasing ⟨0, 9⟩ [] capCl
    [.tree ⟨6, 3⟩ true] (by decide) (by decide) (Or.inr ⟨_, _, _, rfl⟩) (by decide) "r/a/b".toList []
    (by decide) capLayersB (by decide) (by decide) .unbounded trivial (fun u hu => by cases hu) eRv
    (by decide)
  refine ⟨⟨h.1.1.trans (by decide), h.1.2⟩, h.2.1.trans (by decide), ?_⟩
  have h6 := (h.2.2.2.2.2.2 1 (by decide)).1
  rw [h.1.2] at h6
  have h6' : okEntries ((callLog 2 (straceOf W 0 none eRv)).map Sep.item) = _ := h6
  rw [h6']
  decide

/-- by evaluation of the chain alone; and membership, from the theorem: `xs/d/g` is not received
    BECAUSE the closure does not keep it -/
example :
    let W := capWalk drvSem drvCasing "r/a/b".toList nTok capLayersB
    sreceived W 0 none eRv =
      [⟨["xs".toList], .d⟩, ⟨["xs".toList, "f".toList], .f⟩, ⟨["xs".toList, "d".toList], .d⟩,
       ⟨["y1".toList], .f⟩] ∧
    capFg ⟨["xs".toList, "d".toList, "g".toList], .f⟩ = .file := by
  decide

/-- order independence and monotonicity on it (`walk_capstone_perm`, `walk_capstone_insert`) -/
example :
    sreceived (capWalk drvSem drvCasing "r/a/b".toList nTok capLayersB.reverse) 0 none eRv =
      sreceived (capWalk drvSem drvCasing "r/a/b".toList nTok capLayersB) 0 none eRv ∧
    (sreceived (capWalk drvSem drvCasing "r/a/b".toList nTok ([] ++ .not capNotTok :: [.filter capFg]))
      0 none eRv).Sublist
      (sreceived (capWalk drvSem drvCasing "r/a/b".toList nTok ([] ++ [.filter capFg])) 0 none eRv) :=
  ⟨(walk_capstone_perm drvSem drvCasing nTok "r/a/b".toList [] (by decide) capLayersB
      capLayersB.reverse (by decide) (List.reverse_perm _).symm 0 none eRv).2.1,
   (walk_capstone_insert drvSem drvCasing nTok "r/a/b".toList [] (by decide) [] [.filter capFg]
      (.not capNotTok) (by decide) 0 none eRv).2.1⟩

/-- the driver's pipeline with harness layers IS a `capWalk` (`capstone_driver`): `W g r/a/b
    {x,y}*/** … n:xs/d/h/**;f:g=F` -/
example :
    let specs : List LayerSpec := [.not capNotTok, .rules [("g".toList, false)]]
    let π := globWalkPipeline drvSem drvCasing "r/a/b".toList nTok (specs.map LayerSpec.layer)
    okEntries (π.yielded 0 none eRv) =
      sreceived (capWalk drvSem drvCasing "r/a/b".toList nTok (specs.map (LayerSpec.slayer π.root)))
        0 none eRv :=
  (capstone_driver drvSem drvCasing "r/a/b".toList nTok _ 0 none eRv).2.1

/-! ### the base itself is never received (no `rootExempt` hypothesis): `*` from `r` -/

example :
    let t : Tok := .cat ⟨0, 1⟩ (joinSep [] ([.zom ⟨0, 1⟩ false] ++ []))
    (encodeTop t).matchB drvSem [] = true ∧
    sreceived (capWalk drvSem drvCasing "r".toList t [.filter (fun _ => .keep)]) 0 none
      (.dir [.leaf "q".toList .f]) = [⟨["q".toList], .f⟩] := by
  intro t
  have h := walk_capstone_partial drvSem drvSem_sepIsolated rfl drvCasing ⟨0, 1⟩ [] [.zom ⟨0, 1⟩ false] []
    (by decide) (by decide) (Or.inl rfl) (by decide) "r".toList [] (by decide)
    [.filter (fun _ => .keep)] (by decide) (by decide)
    .unbounded trivial (fun u hu => by cases hu) (.dir [.leaf "q".toList .f]) (by decide)
  exact ⟨by decide, h.2.1.trans (by decide)⟩

/-! ## 7. each hypothesis is needed

`hP`, `hreach`, the compiled fragment: as for `glob_walk_e2e_partial` (`reach_needed`,
`entry_rooted_off_by_one`, the examples at the end of `GlobWalkE2E.lean`).  The two hypotheses that
concern the STACK over a glob walk, at the level of the capstone: -/

/-- `filter_entry(|e| if e is named "c" { File } else { keep })` -/
def capFc : Entry → Verdict := fun e => if e.names.getLast? == some ['c'] then .file else .keep

/-- **`walk_capstone_partial` is FALSE without the proviso `capOk`** (K-NOT-RESIDUE-PIVOT, at
    iterator level): `a/b/**` (parsed: `fTok`) walked from `""` — root `a/b`, pivot 2 — followed by
    `filter_entry(c ↦ File)` and `not("c/**")`, over `a/b/{c/x.txt, y.txt}`.  Every other hypothesis
    holds.  The glob matches everything, `c/**` does not match `a/b/c/x.txt` (relative to the
    base), the closure keeps it, and no closure returns a tree verdict: the right-hand side of the
    capstone has `c/x.txt`.  But the chain hands the directory `c` to the negation as NODE residue
    — a `TreeEntry`, the pivot is gone — so that `c/**` matches its path `c`, the walk is cancelled,
    and the consumer never receives `c/x.txt`.  With the layers in the other order it does: order
    independence fails too. -/
theorem capstone_needs_proviso :
    let layers : List SLayer := [.filter capFc, .not kNotTok]
    let pre : List Str := [['a'], ['b']]
    let W := capWalk drvSem drvCasing [] fTok layers
    prefixSpells (partition drvCasing fTok).1 pre = true ∧
    capOk pre layers = false ∧ capNegsOk layers = true ∧
    allPathsLB goodNames [] (toWTList kTree.children) = true ∧
    (W.root = "a/b".toList ∧ W.pivot = 2) ∧
    sreceived W (DepthBehavior.unbounded.atPivot 2).1 (DepthBehavior.unbounded.atPivot 2).2 kTree =
      [⟨[], .d⟩, ⟨["y.txt".toList], .f⟩] ∧
    (unpruned kTree).filter (fun e =>
        !(pre ++ e.names).isEmpty &&
        (encodeTop fTok).matchB drvSem (relOf (pre ++ e.names)) &&
        decide (DepthBehavior.unbounded.admits (pre ++ e.names).length) &&
        negKeeps drvSem (negsOf layers) (relOf (pre ++ e.names)) &&
        stackKeeps (filtersOf layers) e &&
        !cutAbove (silenced 0 (stackTree (filtersOf layers))) kTree.isDirRoot e) =
      [⟨[], .d⟩, ⟨[['c'], "x.txt".toList], .f⟩, ⟨["y.txt".toList], .f⟩] ∧
    sreceived (capWalk drvSem drvCasing [] fTok layers.reverse) 0 none kTree =
      [⟨[], .d⟩, ⟨[['c'], "x.txt".toList], .f⟩, ⟨["y.txt".toList], .f⟩] ∧
    (straceOf W 0 none kTree).map (·.sep) =
      [.filtrate ⟨⟨[], .d⟩, 2⟩, .tree ⟨[['c']], .d⟩, .filtrate ⟨⟨["y.txt".toList], .f⟩, 2⟩] := by
  decide

/-- what `*/**` parses to, in the shape of the compiled fragment -/
def capStarTok : Tok := .cat ⟨0, 4⟩ (joinSep [] ([.zom ⟨0, 1⟩ false] ++ [.tree ⟨1, 3⟩ true]))
theorem capStarTok_parse : parse "*/**".toList = .ok capStarTok := by rfl

/-- **`walk_capstone_partial` is FALSE without `capNegsOk`** (K-NOT-FALSE-ALWAYS, at iterator
    level): `*/**` walked from `r` (no prefix: the proviso holds) followed by `not("**/{a}")`, over
    `r/a/x`.  `is_exhaustive` calls `**/{a}` `Always` although it matches `a` and not `a/x`: the
    chain cancels the walk at `a` and the consumer never receives `a/x`, which the glob matches
    and the negation does not.  Every other hypothesis holds. -/
theorem capstone_needs_negsOk :
    let layers : List SLayer := [.not npFalseAlwaysTok]
    let rv : RootView := .dir [.dir ['a'] [.leaf ['x'] .f]]
    let W := capWalk drvSem drvCasing "r".toList capStarTok layers
    prefixSpells (partition drvCasing capStarTok).1 [] = true ∧
    capOk [] layers = true ∧ capNegsOk layers = false ∧
    notF01 npFalseAlwaysTok = true ∧ notWalkFrag npFalseAlwaysTok = false ∧
    F01 capStarTok = true ∧
    allPathsLB goodNames [] (toWTList rv.children) = true ∧
    sreceived W 0 none rv = [] ∧
    (unpruned rv).filter (fun e =>
        !(([] : List Str) ++ e.names).isEmpty &&
        (encodeTop capStarTok).matchB drvSem (relOf ([] ++ e.names)) &&
        decide (DepthBehavior.unbounded.admits ([] ++ e.names).length) &&
        negKeeps drvSem (negsOf layers) (relOf ([] ++ e.names)) &&
        stackKeeps (filtersOf layers) e &&
        !cutAbove (silenced 0 (stackTree (filtersOf layers))) rv.isDirRoot e) =
      [⟨[['a'], ['x']], .f⟩] := by
  decide

end Wax.Walk

/-! ## 8. the capstone at the driver: every recorded tree, the driver's tables -/

namespace Wax.Walk
open Wax Wax.Path Wax.Cmd Wax.Chain
open Wax.WalkTree (relOf relOf_append PathOk hasBad joinSep)

/--
**the capstone at the driver (`walk_capstone_driver`)**: what `cmdWith` computes for a request
`W g <base> <expr> <link> <min> <max> <stack> <root> <rec>` (`cmdWith_glob`: the answer line is
`render` of `π.items`, its `ok:` items are `π.yielded`) with the driver's tables `drvSem` /
`drvCasing`, for EVERY recorded tree whose names are names walkdir can report (`hrec`, decidable),
every root view `rv` the driver resolves in it for the root of the walk, and every stack the
harness can specify (`specs`): the entries printed are the entries the consumer of the iterator
chain receives, and they are characterised as in `walk_capstone_partial` — membership in the
documented languages of the glob and of the negations, the verdicts of the `filter_entry` functions
(here: rules by file name).
-/
theorem walk_capstone_driver
    (sp : Span) (comps : List (List Tok × Span)) (cl tail : List Tok)
    (hcomps : ∀ c ∈ comps, compOk c.1 = true) (hcl : compOk cl = true) (ht : TailOk tail)
    (hF : F01 (.cat sp (joinSep comps (cl ++ tail))) = true)
    (base : Str) (pre : List Str)
    (hP : prefixSpells (partition drvCasing (.cat sp (joinSep comps (cl ++ tail)))).1 pre = true)
    (specs : List LayerSpec)
    (b : DepthBehavior) (hwf : b.wf) (hreach : ∀ u, b.upper = some u → pre.length ≤ u)
    (follow : Bool) (rootPath : Str) (recorded : List RNode)
    (hrec : rnodesOk (chainBelow recorded (normals (components rootPath))) = true)
    (rv : RootView) :
    let t : Tok := .cat sp (joinSep comps (cl ++ tail))
    let π := globWalkPipeline drvSem drvCasing base t (specs.map LayerSpec.layer)
    let layers := specs.map (LayerSpec.slayer π.root)
    let printed := okEntries (π.yielded (b.atPivot π.pivot).1 (b.atPivot π.pivot).2 rv)
    walkRootView π.root follow rootPath recorded = some rv →
    capOk pre layers = true → capNegsOk layers = true →
    printed = okEntries ((ofPipeline π).collect (b.atPivot π.pivot).1 (b.atPivot π.pivot).2
        (MState.init (b.atPivot π.pivot).1 rv).size (MState.init (b.atPivot π.pivot).1 rv)) ∧
    (∀ e, e ∈ printed ↔
      e ∈ unpruned rv ∧ pre ++ e.names ≠ [] ∧
      Spec.Matches drvSem t (relOf (pre ++ e.names)) ∧
      b.admits (pre ++ e.names).length ∧
      (∀ n ∈ negsOf layers, ¬ Spec.Matches drvSem n (relOf (pre ++ e.names))) ∧
      (∀ f ∈ filtersOf layers, f e = .keep) ∧
      (∀ k, k < e.names.length → (k ≠ 0 ∨ rv.isDirRoot = true) → b.lower ≤ pre.length + k →
        ∀ f ∈ filtersOf layers, f ⟨e.names.take k, .d⟩ ≠ .tree)) ∧
    (rv.distinct = true → printed.Nodup) := by
  intro t π layers printed hrv hprov hneg
  have hnames := walkRootView_goodNames _ follow rootPath recorded hrec rv hrv
  have h := walk_capstone_partial drvSem drvSem_sepIsolated rfl drvCasing sp comps cl tail hcomps hcl
    ht hF base pre hP layers hprov hneg b hwf hreach rv hnames
  have hd := capstone_driver drvSem drvCasing base t specs (b.atPivot π.pivot).1 (b.atPivot π.pivot).2 rv
  have hpr : printed = sreceived (capWalk drvSem drvCasing base t layers)
      (b.atPivot π.pivot).1 (b.atPivot π.pivot).2 rv := hd.2.1
  refine ⟨?_, ?_, ?_⟩
  · show okEntries (π.yielded _ _ rv) = _
    rw [← chain_yields]
  · intro e
    rw [hpr]
    exact h.2.2.1 e
  · rw [hpr]
    exact h.2.2.2.1

/-- `walk_capstone_driver` on the request `W g r a/b/{x,y}*/** f - - f:d=T,y1=F /t <eRec>`: every
    hypothesis is discharged; the driver prints `a/b/xs` and `a/b/xs/f` -/
example :
    let specs : List LayerSpec := [.rules [("d".toList, true), ("y1".toList, false)]]
    let π := globWalkPipeline drvSem drvCasing "r".toList eTok (specs.map LayerSpec.layer)
    okEntries (π.yielded (DepthBehavior.unbounded.atPivot π.pivot).1
        (DepthBehavior.unbounded.atPivot π.pivot).2 eRv) =
      [⟨["xs".toList], .d⟩, ⟨["xs".toList, "f".toList], .f⟩] ∧
    ((⟨["xs".toList, "f".toList], .f⟩ : Entry) ∈ okEntries (π.yielded
        (DepthBehavior.unbounded.atPivot π.pivot).1 (DepthBehavior.unbounded.atPivot π.pivot).2 eRv) →
      Spec.Matches drvSem eTok "a/b/xs/f".toList) := by
  intro specs π
  have h := walk_capstone_driver ⟨0, 13⟩ eComps eLast eTail (by decide) (by decide)
    (Or.inr ⟨_, _, _, rfl⟩) (by decide) "r".toList ["a".toList, "b".toList] eTok_spells specs
    .unbounded trivial (fun u hu => by cases hu) false "/t".toList eRec eRec_ok eRv eRv_resolved
    (by decide) (by decide)
  refine ⟨by decide, fun hm => ?_⟩
  exact ((h.2.1 _).mp hm).2.2.1

end Wax.Walk
