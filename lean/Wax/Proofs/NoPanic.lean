import Wax.Proofs.NoPanicOps
import Wax.Size
import Wax.ExhFold
import Wax.Rule
import Wax.Cmd.Build
/-!
C05, fold level: `sizeVariance`, `rule::check`, `depthVariance`, `isExhaustive` never panic (the
model never answers `Except.error`) on a token tree whose *weight* — an explicit structural
function: leaves count their bytes, concatenations and alternations add, repetitions multiply by
the larger of their bounds — is below `usizeLim = 2^64`; and `compilePanics` is false when every
repetition bound fits `u32`.  `small B D N` (bounds `≤ B`, repetitions nested at most `D` deep,
`N` bytes/tokens) is an explicit sufficient condition: `N * B^D < 2^64`.
-/
namespace Wax

/-! ### separated terms -/

/-- the variance of a separated term is well formed and, *after* `finalize` (which may add one),
    bounded by `W` -/
def SepTerm.Good (s : SepTerm) (W : Nat) : Prop := ∃ M, M + 1 ≤ W ∧ s.v.Ok M

theorem SepTerm.Good.mono {s : SepTerm} {W W' : Nat} (h : s.Good W) (hle : W ≤ W') : s.Good W' := by
  obtain ⟨M, hM, hok⟩ := h
  exact ⟨M, by omega, hok⟩

theorem SepTerm.finalize_ok {s : SepTerm} {M : Nat} (hs : s.v.Ok M) (h : M + 1 < usizeLim) :
    ∃ r, s.finalize = .ok r ∧ r.Ok (M + 1) := by
  unfold SepTerm.finalize
  cases s.t with
  | open_ => exact NVar.conj_ok hs (show (NVar.inv 1).Ok 1 from Nat.le_refl 1) h
  | closed =>
    refine ⟨_, rfl, ?_⟩
    cases hv : s.v with
    | inv n => rw [hv] at hs; exact (show n - 1 ≤ M + 1 by have : n ≤ M := hs; omega)
    | unb => trivial
    | bnd r => rw [hv] at hs; exact ⟨hs.1, by have := hs.2; omega⟩
  | first => exact ⟨_, rfl, hs.mono (by omega)⟩
  | last => exact ⟨_, rfl, hs.mono (by omega)⟩
  | coal => exact ⟨_, rfl, hs.mono (by omega)⟩

theorem SepTerm.conj_ok' {l r : SepTerm} {A B : Nat} (hl : l.v.Ok A) (hr : r.v.Ok B)
    (h : A + B + 1 < usizeLim) : ∃ s, l.conj r = .ok s ∧ s.v.Ok (A + B + 1) := by
  unfold SepTerm.conj
  cases l.t.conj r.t with
  | left t =>
    obtain ⟨x, hx, hxo⟩ := SepTerm.finalize_ok hl (by omega)
    obtain ⟨y, hy, hyo⟩ := NVar.conj_ok hxo hr (by omega)
    exact ⟨⟨t, y⟩, by simp only [hx, hy, P.ok_bind, P.pure_eq], hyo.mono (by omega)⟩
  | right t =>
    obtain ⟨x, hx, hxo⟩ := SepTerm.finalize_ok hr (by omega)
    obtain ⟨y, hy, hyo⟩ := NVar.conj_ok hl hxo (by omega)
    exact ⟨⟨t, y⟩, by simp only [hx, hy, P.ok_bind, P.pure_eq], hyo.mono (by omega)⟩
  | neither t =>
    obtain ⟨y, hy, hyo⟩ := NVar.conj_ok hl hr (by omega)
    exact ⟨⟨t, y⟩, by simp only [hy, P.ok_bind, P.pure_eq], hyo.mono (by omega)⟩

theorem SepTerm.conj_ok {l r : SepTerm} {A B : Nat} (hl : l.Good A) (hr : r.Good B)
    (h : A + B < usizeLim) : ∃ s, l.conj r = .ok s ∧ s.Good (A + B) := by
  obtain ⟨MA, hA, hlo⟩ := hl
  obtain ⟨MB, hB, hro⟩ := hr
  obtain ⟨s, hs, hso⟩ := SepTerm.conj_ok' hlo hro (by omega)
  exact ⟨s, hs, MA + MB + 1, by omega, hso⟩

theorem mul_max_one (M R A : Nat) (h : M + 1 ≤ A) : M * R + 1 ≤ A * max R 1 := by
  by_cases hR : R = 0
  · subst hR; simp; omega
  · have e : max R 1 = R := by omega
    rw [e]
    have h1 : (M + 1) * R ≤ A * R := Nat.mul_le_mul_right _ h
    have h2 : (M + 1) * R = M * R + R := by rw [Nat.add_mul]; omega
    omega

theorem SepTerm.prod_ok {s : SepTerm} {r : NRange} {A R : Nat} (hs : s.Good A) (hr : r.Ok R)
    (h : A * max R 1 < usizeLim) :
    ∃ v, s.v.prod r = .ok v ∧ (⟨s.t, v⟩ : SepTerm).Good (A * max R 1) := by
  obtain ⟨M, hM, hso⟩ := hs
  have h1 := mul_max_one M R A hM
  have hA : A * 1 ≤ A * max R 1 := Nat.mul_le_mul_left _ (by omega)
  have hR' : 1 * R ≤ A * max R 1 := Nat.mul_le_mul (by omega) (by omega)
  obtain ⟨v, hv, hvo⟩ := NVar.prod_ok hso hr (by omega) (by omega) (by omega)
  exact ⟨v, hv, M * R, h1, hvo⟩

/-! ### lists in the monad -/

theorem mapP_ok {α β} {f : α → P β} {Q : β → Prop} :
    ∀ {l : List α}, (∀ x ∈ l, ∃ y, f x = .ok y ∧ Q y) → ∃ ys, mapP f l = .ok ys ∧ ∀ y ∈ ys, Q y
  | [], _ => ⟨[], rfl, by intro y hy; cases hy⟩
  | x :: xs, h => by
    obtain ⟨y, hy, hq⟩ := h x (List.mem_cons_self ..)
    obtain ⟨ys, hys, hqs⟩ := mapP_ok (l := xs) (fun z hz => h z (List.mem_cons_of_mem _ hz))
    refine ⟨y :: ys, by simp only [mapP, hy, hys, P.ok_bind, P.pure_eq], ?_⟩
    intro z hz
    cases hz with
    | head => exact hq
    | tail _ hm => exact hqs z hm

theorem setOf_fold_sub (l : List SepTerm) : ∀ (acc : List SepTerm) (y : SepTerm),
    y ∈ l.foldl (fun acc x => if acc.contains x then acc else acc ++ [x]) acc → y ∈ acc ∨ y ∈ l := by
  induction l with
  | nil => intro acc y h; exact Or.inl h
  | cons x xs ih =>
    intro acc y h
    simp only [List.foldl_cons] at h
    rcases ih _ y h with h1 | h1
    · by_cases hc : acc.contains x = true
      · simp only [hc, ↓reduceIte] at h1; exact Or.inl h1
      · simp only [hc, Bool.false_eq_true, ↓reduceIte, List.mem_append, List.mem_singleton] at h1
        rcases h1 with h1 | h1
        · exact Or.inl h1
        · exact Or.inr (h1 ▸ List.mem_cons_self ..)
    · exact Or.inr (List.mem_cons_of_mem _ h1)

theorem setOf_sub {l : List SepTerm} {y : SepTerm} (h : y ∈ setOf l) : y ∈ l := by
  rcases setOf_fold_sub l [] y h with h | h
  · cases h
  · exact h

/-! ### tree terms -/

def DTerm.terms : DTerm → List SepTerm
  | .c s => [s]
  | .d l => l

def DTerm.Good (x : DTerm) (W : Nat) : Prop := ∀ s ∈ x.terms, SepTerm.Good s W

theorem DTerm.Good.mono {x : DTerm} {W W' : Nat} (h : x.Good W) (hle : W ≤ W') : x.Good W' :=
  fun s hs => (h s hs).mono hle

theorem DTerm.conj_ok {x y : DTerm} {A B : Nat} (hx : x.Good A) (hy : y.Good B)
    (h : A + B < usizeLim) : ∃ z, x.conj y = .ok z ∧ z.Good (A + B) := by
  cases x with
  | c l =>
    have hl : l.Good A := hx l (List.mem_singleton.mpr rfl)
    cases y with
    | c r =>
      have hr : r.Good B := hy r (List.mem_singleton.mpr rfl)
      obtain ⟨s, hs, hg⟩ := SepTerm.conj_ok hl hr h
      refine ⟨.c s, by simp only [DTerm.conj, hs, P.ok_bind, P.pure_eq], ?_⟩
      intro s' hs'; cases List.mem_singleton.mp hs'; exact hg
    | d rs =>
      obtain ⟨ys, hys, hq⟩ := mapP_ok (f := fun r => l.conj r) (Q := fun s => s.Good (A + B)) (l := rs)
        (fun r hr => SepTerm.conj_ok hl (hy r hr) h)
      refine ⟨.d (setOf ys), by simp only [DTerm.conj, hys, P.ok_bind, P.pure_eq], ?_⟩
      intro s hs; exact hq s (setOf_sub hs)
  | d ls =>
    cases y with
    | c r =>
      have hr : r.Good B := hy r (List.mem_singleton.mpr rfl)
      obtain ⟨ys, hys, hq⟩ := mapP_ok (f := fun l => l.conj r) (Q := fun s => s.Good (A + B)) (l := ls)
        (fun l hl => SepTerm.conj_ok (hx l hl) hr h)
      refine ⟨.d (setOf ys), by simp only [DTerm.conj, hys, P.ok_bind, P.pure_eq], ?_⟩
      intro s hs; exact hq s (setOf_sub hs)
    | d rs =>
      obtain ⟨rows, hrows, hq⟩ := mapP_ok (f := fun l => mapP (fun r => l.conj r) rs)
        (Q := fun row => ∀ s ∈ row, SepTerm.Good s (A + B)) (l := ls)
        (fun l hl => mapP_ok (fun r hr => SepTerm.conj_ok (hx l hl) (hy r hr) h))
      refine ⟨.d (setOf rows.flatten), by simp only [DTerm.conj, hrows, P.ok_bind, P.pure_eq], ?_⟩
      intro s hs
      obtain ⟨row, hrow, hin⟩ := List.mem_flatten.mp (setOf_sub hs)
      exact hq row hrow s hin

theorem DTerm.disj_good {x y : DTerm} {W : Nat} (hx : x.Good W) (hy : y.Good W) :
    (x.disj y).Good W := by
  intro s hs
  cases x with
  | c l =>
    cases y with
    | c r =>
      have := setOf_sub hs
      simp only [List.mem_cons, List.not_mem_nil, or_false] at this
      rcases this with rfl | rfl
      · exact hx _ (List.mem_singleton.mpr rfl)
      · exact hy _ (List.mem_singleton.mpr rfl)
    | d rs =>
      have := setOf_sub hs
      simp only [List.mem_append, List.mem_singleton] at this
      rcases this with h | rfl
      · exact hy _ h
      · exact hx _ (List.mem_singleton.mpr rfl)
  | d ls =>
    cases y with
    | c r =>
      have := setOf_sub hs
      simp only [List.mem_append, List.mem_singleton] at this
      rcases this with h | rfl
      · exact hx _ h
      · exact hy _ (List.mem_singleton.mpr rfl)
    | d rs =>
      have := setOf_sub hs
      simp only [List.mem_append] at this
      rcases this with h | h
      · exact hx _ h
      · exact hy _ h

theorem DTerm.prod_ok {x : DTerm} {r : NRange} {A R : Nat} (hx : x.Good A) (hr : r.Ok R)
    (h : A * max R 1 < usizeLim) : ∃ z, x.prod r = .ok z ∧ z.Good (A * max R 1) := by
  cases x with
  | c s =>
    obtain ⟨v, hv, hg⟩ := SepTerm.prod_ok (hx s (List.mem_singleton.mpr rfl)) hr h
    refine ⟨.c ⟨s.t, v⟩, by simp only [DTerm.prod, hv, P.ok_bind, P.pure_eq], ?_⟩
    intro s' hs'; cases List.mem_singleton.mp hs'; exact hg
  | d ls =>
    obtain ⟨ys, hys, hq⟩ := mapP_ok (f := fun s => do pure (⟨s.t, ← s.v.prod r⟩ : SepTerm))
      (Q := fun s => s.Good (A * max R 1)) (l := ls)
      (fun s hs => by
        obtain ⟨v, hv, hg⟩ := SepTerm.prod_ok (hx s hs) hr h
        exact ⟨⟨s.t, v⟩, by simp only [hv, P.ok_bind, P.pure_eq], hg⟩)
    simp only [P.pure_eq] at hys
    refine ⟨.d (setOf ys), by simp only [DTerm.prod, P.pure_eq, hys, P.ok_bind], ?_⟩
    intro s hs; exact hq s (setOf_sub hs)

theorem foldlP_disj_ok {W : Nat} (hW : W < usizeLim) : ∀ (vs : List NVar) (acc : NVar), acc.Ok W →
    (∀ v ∈ vs, NVar.Ok v W) → ∃ r, foldlP NVar.disj acc vs = .ok r ∧ r.Ok W
  | [], acc, ha, _ => ⟨acc, rfl, ha⟩
  | v :: vs, acc, ha, h => by
    obtain ⟨x, hx, hxo⟩ := NVar.disj_ok ha (h v (List.mem_cons_self ..)) hW
    obtain ⟨r, hr, hro⟩ := foldlP_disj_ok hW vs x hxo (fun z hz => h z (List.mem_cons_of_mem _ hz))
    exact ⟨r, by simp only [foldlP, hx, P.ok_bind, hr], hro⟩

theorem DTerm.finalize_ok {x : DTerm} {W : Nat} (hx : x.Good W) (hW : W < usizeLim) :
    ∃ v, x.finalize = .ok v ∧ v.Ok W := by
  cases x with
  | c s =>
    obtain ⟨M, hM, hso⟩ := hx s (List.mem_singleton.mpr rfl)
    obtain ⟨r, hr, hro⟩ := SepTerm.finalize_ok hso (by omega)
    exact ⟨r, hr, hro.mono hM⟩
  | d ls =>
    obtain ⟨vs, hvs, hq⟩ := mapP_ok (f := SepTerm.finalize) (Q := fun v => v.Ok W) (l := ls)
      (fun s hs => by
        obtain ⟨M, hM, hso⟩ := hx s hs
        obtain ⟨r, hr, hro⟩ := SepTerm.finalize_ok hso (by omega)
        exact ⟨r, hr, hro.mono hM⟩)
    cases vs with
    | nil => exact ⟨.inv 0, by simp only [DTerm.finalize, hvs, P.ok_bind, reduceP, P.pure_eq], Nat.zero_le _⟩
    | cons v vs =>
      obtain ⟨r, hr, hro⟩ := foldlP_disj_ok hW vs v (hq v (List.mem_cons_self ..))
        (fun z hz => hq z (List.mem_cons_of_mem _ hz))
      exact ⟨r, by simp only [DTerm.finalize, hvs, P.ok_bind, reduceP, hr, P.pure_eq], hro⟩

/-! ### the weight of a token tree -/

mutual
  /-- an explicit bound on every number the variance folds compute for the tree -/
  def Tok.weight : Tok → Nat
    | .lit _ s _ => utf8Len s + 1
    | .sep _ => 2
    | .cls .. => 5
    | .one _ => 5
    | .zom .. => 1
    | .tree .. => 1
    | .alt _ bs => weightL bs + 1
    | .cat _ ts => weightL ts + 1
    | .rep _ b lo hi => b.weight * max (max lo (hi.getD 0)) 1
  def weightL : List Tok → Nat
    | [] => 0
    | t :: ts => t.weight + weightL ts
end

theorem Tok.weight_pos : ∀ t : Tok, 0 < t.weight
  | .lit .. => by simp only [Tok.weight]; omega
  | .sep _ => by simp only [Tok.weight]; omega
  | .cls .. => by simp only [Tok.weight]; omega
  | .one _ => by simp only [Tok.weight]; omega
  | .zom .. => by simp only [Tok.weight]; omega
  | .tree .. => by simp only [Tok.weight]; omega
  | .alt .. => by simp only [Tok.weight]; omega
  | .cat .. => by simp only [Tok.weight]; omega
  | .rep _ b lo hi => by
    simp only [Tok.weight]
    exact Nat.mul_pos (Tok.weight_pos b) (by omega)

theorem Tok.weight_rep_le (sp : Span) (b : Tok) (lo : Nat) (hi : Option Nat) :
    b.weight ≤ (Tok.rep sp b lo hi).weight := by
  simp only [Tok.weight]
  have : b.weight * 1 ≤ b.weight * max (max lo (hi.getD 0)) 1 := Nat.mul_le_mul_left _ (by omega)
  omega

/-! ### size -/

/-- a list of variances whose bounds add up to at most `W` -/
def OkL : List NVar → Nat → Prop
  | [], _ => True
  | v :: vs, W => ∃ a b, a + b ≤ W ∧ v.Ok a ∧ OkL vs b

theorem OkL.mono : ∀ {vs : List NVar} {W W' : Nat}, OkL vs W → W ≤ W' → OkL vs W'
  | [], _, _, _, _ => trivial
  | _ :: _, _, _, ⟨a, b, hab, hv, hvs⟩, hle => ⟨a, b, by omega, hv, hvs⟩

theorem foldlP_conj_ok : ∀ (vs : List NVar) (acc : NVar) (A B : Nat), acc.Ok A → OkL vs B →
    A + B < usizeLim → ∃ r, foldlP NVar.conj acc vs = .ok r ∧ r.Ok (A + B)
  | [], acc, A, B, ha, _, _ => ⟨acc, rfl, ha.mono (by omega)⟩
  | v :: vs, acc, A, B, ha, ⟨a, b, hab, hv, hvs⟩, h => by
    obtain ⟨x, hx, hxo⟩ := NVar.conj_ok ha hv (by omega)
    obtain ⟨r, hr, hro⟩ := foldlP_conj_ok vs x (A + a) b hxo hvs (by omega)
    exact ⟨r, by simp only [foldlP, hx, P.ok_bind, hr], hro.mono (by omega)⟩

theorem foldlP_disjL_ok : ∀ (vs : List NVar) (acc : NVar) (A B : Nat), acc.Ok A → OkL vs B →
    A + B < usizeLim → ∃ r, foldlP NVar.disj acc vs = .ok r ∧ r.Ok (A + B)
  | [], acc, A, B, ha, _, _ => ⟨acc, rfl, ha.mono (by omega)⟩
  | v :: vs, acc, A, B, ha, ⟨a, b, hab, hv, hvs⟩, h => by
    obtain ⟨x, hx, hxo⟩ := NVar.disj_ok (M := A + a) (ha.mono (by omega)) (hv.mono (by omega)) (by omega)
    obtain ⟨r, hr, hro⟩ := foldlP_disjL_ok vs x (A + a) b hxo hvs (by omega)
    exact ⟨r, by simp only [foldlP, hx, P.ok_bind, hr], hro.mono (by omega)⟩

theorem reduceP_ok {f : NVar → NVar → P NVar}
    (hf : ∀ (vs : List NVar) (acc : NVar) (A B : Nat), acc.Ok A → OkL vs B →
      A + B < usizeLim → ∃ r, foldlP f acc vs = .ok r ∧ r.Ok (A + B))
    {vs : List NVar} {W : Nat} (h : OkL vs W) (hW : W < usizeLim) :
    ∃ r, reduceP f vs = .ok r ∧ ∀ x, r = some x → x.Ok W := by
  cases vs with
  | nil => exact ⟨none, rfl, by intro x hx; cases hx⟩
  | cons v vs =>
    obtain ⟨a, b, hab, hv, hvs⟩ := h
    obtain ⟨r, hr, hro⟩ := hf vs v a b hv hvs (by omega)
    refine ⟨some r, by simp only [reduceP, hr, P.ok_bind, P.pure_eq], ?_⟩
    intro x hx; cases hx; exact hro.mono hab

theorem classSize_ok (items : List Arch) : (classSize items).Ok 5 := by
  cases items with
  | nil => exact Nat.zero_le _
  | cons _ _ => exact (by decide : 4 ≤ 5)

mutual
  theorem sizeTok_ok : ∀ (t : Tok), t.weight < usizeLim →
      ∃ r, sizeTok t = .ok r ∧ ∀ x, r = some x → x.Ok t.weight
    | .alt _ bs, h => by
      simp only [Tok.weight] at h ⊢
      obtain ⟨rs, hrs, hok⟩ := sizeAll_ok bs (by omega)
      obtain ⟨r, hr, hro⟩ := reduceP_ok foldlP_disjL_ok hok (by omega)
      exact ⟨r, by simp only [sizeTok, hrs, P.ok_bind, hr], fun x hx => (hro x hx).mono (by omega)⟩
    | .cat _ ts, h => by
      simp only [Tok.weight] at h ⊢
      obtain ⟨rs, hrs, hok⟩ := sizeAll_ok ts (by omega)
      obtain ⟨r, hr, hro⟩ := reduceP_ok foldlP_conj_ok hok (by omega)
      exact ⟨r, by simp only [sizeTok, hrs, P.ok_bind, hr], fun x hx => (hro x hx).mono (by omega)⟩
    | .rep sp b lo hi, h => by
      have hle := Tok.weight_rep_le sp b lo hi
      obtain ⟨r, hr, hro⟩ := sizeTok_ok b (by omega)
      cases r with
      | none => exact ⟨none, by simp only [sizeTok, hr, P.ok_bind, P.pure_eq], by intro x hx; cases hx⟩
      | some v =>
        simp only [Tok.weight] at h hle ⊢
        have hbp := Tok.weight_pos b
        have h1 : b.weight * max lo (hi.getD 0) ≤ b.weight * max (max lo (hi.getD 0)) 1 :=
          Nat.mul_le_mul_left _ (by omega)
        have h2 : 1 * max lo (hi.getD 0) ≤ b.weight * max (max lo (hi.getD 0)) 1 :=
          Nat.mul_le_mul (by omega) (by omega)
        obtain ⟨y, hy, hyo⟩ := NVar.prod_ok (hro v rfl) (fco_ok lo hi) (by omega) (by omega) (by omega)
        refine ⟨some y, by simp only [sizeTok, hr, P.ok_bind, hy, P.pure_eq], ?_⟩
        intro x hx; cases hx; exact hyo.mono h1
    | .lit _ s _, _ => ⟨_, rfl, by
        intro x hx; cases hx; simp only [Tok.weight]; exact (Nat.le_succ _ : utf8Len s ≤ utf8Len s + 1)⟩
    | .sep _, _ => ⟨_, rfl, by intro x hx; cases hx; exact (by decide : 1 ≤ 2)⟩
    | .cls _ _ items, _ => ⟨_, rfl, by intro x hx; cases hx; exact classSize_ok items⟩
    | .one _, _ => ⟨_, rfl, by intro x hx; cases hx; exact (by decide : 4 ≤ 5)⟩
    | .zom .., _ => ⟨_, rfl, by intro x hx; cases hx; trivial⟩
    | .tree .., _ => ⟨_, rfl, by intro x hx; cases hx; trivial⟩
  theorem sizeAll_ok : ∀ (ts : List Tok), weightL ts < usizeLim →
      ∃ rs, sizeAll ts = .ok rs ∧ OkL rs (weightL ts)
    | [], _ => ⟨[], rfl, trivial⟩
    | t :: ts, h => by
      simp only [weightL] at h ⊢
      obtain ⟨r, hr, hro⟩ := sizeTok_ok t (by omega)
      obtain ⟨rs, hrs, hok⟩ := sizeAll_ok ts (by omega)
      cases r with
      | none => exact ⟨rs, by simp only [sizeAll, hr, hrs, P.ok_bind, P.pure_eq], hok.mono (by omega)⟩
      | some v =>
        exact ⟨v :: rs, by simp only [sizeAll, hr, hrs, P.ok_bind, P.pure_eq],
          t.weight, weightL ts, Nat.le_refl _, hro v rfl, hok⟩
end

theorem sizeVariance_ok {t : Tok} (h : t.weight < usizeLim) :
    ∃ v, sizeVariance t = .ok v ∧ v.Ok t.weight := by
  obtain ⟨r, hr, hro⟩ := sizeTok_ok t h
  cases r with
  | none => exact ⟨.inv 0, by simp only [sizeVariance, hr, P.ok_bind, P.pure_eq], Nat.zero_le _⟩
  | some v => exact ⟨v, by simp only [sizeVariance, hr, P.ok_bind, P.pure_eq], hro v rfl⟩

/-! ### `rule::check`: the size rule evaluates `sizeVariance` on every sub-token -/

theorem sizeAt_total {t : Tok} (h : t.weight < usizeLim) : ∃ r, sizeAt t = .ok r := by
  obtain ⟨v, hv, _⟩ := sizeVariance_ok h
  cases v <;> simp only [sizeAt, hv, P.ok_bind, P.pure_eq] <;> exact ⟨_, rfl⟩

theorem searchLevelsP_total {α} {f : Nat → P (Option α)} (hf : ∀ d, ∃ r, f d = .ok r) :
    ∀ n d, ∃ r, searchLevelsP f n d = .ok r
  | 0, _ => ⟨none, rfl⟩
  | n + 1, d => by
    obtain ⟨r, hr⟩ := hf d
    cases r with
    | some x => exact ⟨some x, by simp only [searchLevelsP, hr, P.ok_bind, P.pure_eq]⟩
    | none =>
      obtain ⟨r', hr'⟩ := searchLevelsP_total hf n (d + 1)
      exact ⟨r', by simp only [searchLevelsP, hr, P.ok_bind, hr']⟩

mutual
  theorem findAtP_total {α} {f : Tok → P (Option α)} {W : Nat}
      (hf : ∀ t : Tok, t.weight ≤ W → ∃ r, f t = .ok r) :
      ∀ (d : Nat) (t : Tok), t.weight ≤ W → ∃ r, findAtP f d t = .ok r
    | 0, t, h => by
      obtain ⟨r, hr⟩ := hf t h
      exact ⟨r, by simp only [findAtP, hr]⟩
    | d + 1, .alt _ bs, h => by
      simp only [Tok.weight] at h
      obtain ⟨r, hr⟩ := findAtLP_total hf d bs (by omega)
      exact ⟨r, by simp only [findAtP, hr]⟩
    | d + 1, .cat _ ts, h => by
      simp only [Tok.weight] at h
      obtain ⟨r, hr⟩ := findAtLP_total hf d ts (by omega)
      exact ⟨r, by simp only [findAtP, hr]⟩
    | d + 1, .rep sp b lo hi, h => by
      have := Tok.weight_rep_le sp b lo hi
      obtain ⟨r, hr⟩ := findAtP_total hf d b (by omega)
      exact ⟨r, by simp only [findAtP, hr]⟩
    | _ + 1, .lit .., _ => ⟨none, rfl⟩
    | _ + 1, .sep _, _ => ⟨none, rfl⟩
    | _ + 1, .cls .., _ => ⟨none, rfl⟩
    | _ + 1, .one _, _ => ⟨none, rfl⟩
    | _ + 1, .zom .., _ => ⟨none, rfl⟩
    | _ + 1, .tree .., _ => ⟨none, rfl⟩
  theorem findAtLP_total {α} {f : Tok → P (Option α)} {W : Nat}
      (hf : ∀ t : Tok, t.weight ≤ W → ∃ r, f t = .ok r) :
      ∀ (d : Nat) (ts : List Tok), weightL ts ≤ W → ∃ r, findAtLP f d ts = .ok r
    | _, [], _ => ⟨none, rfl⟩
    | d, t :: ts, h => by
      simp only [weightL] at h
      obtain ⟨r, hr⟩ := findAtP_total hf d t (by omega)
      cases r with
      | some x => exact ⟨some x, by simp only [findAtLP, hr, P.ok_bind, P.pure_eq]⟩
      | none =>
        obtain ⟨r', hr'⟩ := findAtLP_total hf d ts (by omega)
        exact ⟨r', by simp only [findAtLP, hr, P.ok_bind, hr']⟩
end

theorem ruleSize_total {t : Tok} (h : t.weight < usizeLim) : ∃ r, ruleSize t = .ok r :=
  searchLevelsP_total (fun d => findAtP_total (W := t.weight)
    (fun _ hu => sizeAt_total (Nat.lt_of_le_of_lt hu h)) d t (Nat.le_refl _)) _ _

theorem check_ok {t : Tok} (h : t.weight < usizeLim) : ∃ r, check t = .ok r := by
  unfold check
  cases ruleBoundary t with
  | some e => exact ⟨_, rfl⟩
  | none =>
    cases ruleBounds t with
    | some e => exact ⟨_, rfl⟩
    | none =>
      cases ruleBranch t with
      | some e => exact ⟨_, rfl⟩
      | none => exact ruleSize_total h

/-! ### depth -/

/-- a list of tree terms whose bounds add up to at most `W` -/
def GoodL : List DTerm → Nat → Prop
  | [], _ => True
  | v :: vs, W => ∃ a b, a + b ≤ W ∧ v.Good a ∧ GoodL vs b

theorem GoodL.mono : ∀ {vs : List DTerm} {W W' : Nat}, GoodL vs W → W ≤ W' → GoodL vs W'
  | [], _, _, _, _ => trivial
  | _ :: _, _, _, ⟨a, b, hab, hv, hvs⟩, hle => ⟨a, b, by omega, hv, hvs⟩

theorem foldlP_dconj_ok : ∀ (vs : List DTerm) (acc : DTerm) (A B : Nat), acc.Good A → GoodL vs B →
    A + B < usizeLim → ∃ r, foldlP DTerm.conj acc vs = .ok r ∧ r.Good (A + B)
  | [], acc, A, B, ha, _, _ => ⟨acc, rfl, ha.mono (by omega)⟩
  | v :: vs, acc, A, B, ha, ⟨a, b, hab, hv, hvs⟩, h => by
    obtain ⟨x, hx, hxo⟩ := DTerm.conj_ok ha hv (by omega)
    obtain ⟨r, hr, hro⟩ := foldlP_dconj_ok vs x (A + a) b hxo hvs (by omega)
    exact ⟨r, by simp only [foldlP, hx, P.ok_bind, hr], hro.mono (by omega)⟩

theorem foldlP_ddisj_ok : ∀ (vs : List DTerm) (acc : DTerm) (A B : Nat), acc.Good A → GoodL vs B →
    A + B < usizeLim →
    ∃ r, foldlP (fun a b => pure (DTerm.disj a b)) acc vs = .ok r ∧ r.Good (A + B)
  | [], acc, A, B, ha, _, _ => ⟨acc, rfl, ha.mono (by omega)⟩
  | v :: vs, acc, A, B, ha, ⟨a, b, hab, hv, hvs⟩, h => by
    have hxo : (acc.disj v).Good (A + a) := DTerm.disj_good (ha.mono (by omega)) (hv.mono (by omega))
    obtain ⟨r, hr, hro⟩ := foldlP_ddisj_ok vs _ (A + a) b hxo hvs (by omega)
    exact ⟨r, by simp only [foldlP, P.pure_eq, P.ok_bind]; simpa only [P.pure_eq] using hr,
      hro.mono (by omega)⟩

theorem reducePD_ok {f : DTerm → DTerm → P DTerm}
    (hf : ∀ (vs : List DTerm) (acc : DTerm) (A B : Nat), acc.Good A → GoodL vs B →
      A + B < usizeLim → ∃ r, foldlP f acc vs = .ok r ∧ r.Good (A + B))
    {vs : List DTerm} {W : Nat} (h : GoodL vs W) (hW : W < usizeLim) :
    ∃ r, reduceP f vs = .ok r ∧ ∀ x, r = some x → x.Good W := by
  cases vs with
  | nil => exact ⟨none, rfl, by intro x hx; cases hx⟩
  | cons v vs =>
    obtain ⟨a, b, hab, hv, hvs⟩ := h
    obtain ⟨r, hr, hro⟩ := hf vs v a b hv hvs (by omega)
    refine ⟨some r, by simp only [reduceP, hr, P.ok_bind, P.pure_eq], ?_⟩
    intro x hx; cases hx; exact hro.mono hab

theorem leafTerm_good (t : Tok) {W : Nat} (h1 : 1 ≤ W) (h2 : (∃ sp, t = .sep sp) → 2 ≤ W) :
    (DTerm.c (leafTerm t)).Good W := by
  intro s hs
  cases List.mem_singleton.mp hs
  cases t with
  | sep sp => exact ⟨1, h2 ⟨sp, rfl⟩, (Nat.le_refl 1 : 1 ≤ 1)⟩
  | tree sp r => exact ⟨0, h1, trivial⟩
  | lit sp s ci => exact ⟨0, h1, (Nat.le_refl 0 : 0 ≤ 0)⟩
  | cls sp n i => exact ⟨0, h1, (Nat.le_refl 0 : 0 ≤ 0)⟩
  | one sp => exact ⟨0, h1, (Nat.le_refl 0 : 0 ≤ 0)⟩
  | zom sp l => exact ⟨0, h1, (Nat.le_refl 0 : 0 ≤ 0)⟩
  | alt sp bs => exact ⟨0, h1, (Nat.le_refl 0 : 0 ≤ 0)⟩
  | cat sp ts => exact ⟨0, h1, (Nat.le_refl 0 : 0 ≤ 0)⟩
  | rep sp b lo hi => exact ⟨0, h1, (Nat.le_refl 0 : 0 ≤ 0)⟩

theorem DTerm.prod_fco_ok {x : DTerm} {sp : Span} {b : Tok} {lo : Nat} {hi : Option Nat}
    (hx : x.Good b.weight) (h : (Tok.rep sp b lo hi).weight < usizeLim) :
    ∃ z, x.prod (NRange.fromClosedOpen lo hi) = .ok z ∧ z.Good (Tok.rep sp b lo hi).weight := by
  simp only [Tok.weight] at h ⊢
  exact DTerm.prod_ok hx (fco_ok lo hi) h

mutual
  theorem depthTok_ok : ∀ (t : Tok), t.weight < usizeLim →
      ∃ r, depthTok t = .ok r ∧ ∀ x, r = some x → x.Good t.weight
    | .alt _ bs, h => by
      simp only [Tok.weight] at h ⊢
      obtain ⟨rs, hrs, hok⟩ := depthAll_ok bs (by omega)
      obtain ⟨r, hr, hro⟩ := reducePD_ok foldlP_ddisj_ok hok (by omega)
      exact ⟨r, by simp only [depthTok, hrs, P.ok_bind, hr], fun x hx => (hro x hx).mono (by omega)⟩
    | .cat _ ts, h => by
      simp only [Tok.weight] at h ⊢
      obtain ⟨rs, hrs, hok⟩ := depthAll_ok ts (by omega)
      obtain ⟨r, hr, hro⟩ := reducePD_ok foldlP_dconj_ok hok (by omega)
      exact ⟨r, by simp only [depthTok, hrs, P.ok_bind, hr], fun x hx => (hro x hx).mono (by omega)⟩
    | .rep sp b lo hi, h => by
      have hle := Tok.weight_rep_le sp b lo hi
      obtain ⟨r, hr, hro⟩ := depthTok_ok b (by omega)
      cases r with
      | none => exact ⟨none, by simp only [depthTok, hr, P.ok_bind, P.pure_eq], by intro x hx; cases hx⟩
      | some v =>
        obtain ⟨y, hy, hyo⟩ := DTerm.prod_fco_ok (sp := sp) (lo := lo) (hi := hi) (hro v rfl) h
        refine ⟨some y, by simp only [depthTok, hr, P.ok_bind, hy, P.pure_eq], ?_⟩
        intro x hx; cases hx; exact hyo
    | .lit sp s ci, _ => ⟨_, rfl, by
        intro x hx; cases hx; exact leafTerm_good _ (Tok.weight_pos _) (by rintro ⟨_, h⟩; cases h)⟩
    | .sep sp, _ => ⟨_, rfl, by
        intro x hx; cases hx; exact leafTerm_good _ (Tok.weight_pos _) (by intro _; exact Nat.le_refl 2)⟩
    | .cls sp n i, _ => ⟨_, rfl, by
        intro x hx; cases hx; exact leafTerm_good _ (Tok.weight_pos _) (by rintro ⟨_, h⟩; cases h)⟩
    | .one sp, _ => ⟨_, rfl, by
        intro x hx; cases hx; exact leafTerm_good _ (Tok.weight_pos _) (by rintro ⟨_, h⟩; cases h)⟩
    | .zom sp l, _ => ⟨_, rfl, by
        intro x hx; cases hx; exact leafTerm_good _ (Tok.weight_pos _) (by rintro ⟨_, h⟩; cases h)⟩
    | .tree sp r, _ => ⟨_, rfl, by
        intro x hx; cases hx; exact leafTerm_good _ (Tok.weight_pos _) (by rintro ⟨_, h⟩; cases h)⟩
  theorem depthAll_ok : ∀ (ts : List Tok), weightL ts < usizeLim →
      ∃ rs, depthAll ts = .ok rs ∧ GoodL rs (weightL ts)
    | [], _ => ⟨[], rfl, trivial⟩
    | t :: ts, h => by
      simp only [weightL] at h ⊢
      obtain ⟨r, hr, hro⟩ := depthTok_ok t (by omega)
      obtain ⟨rs, hrs, hok⟩ := depthAll_ok ts (by omega)
      cases r with
      | none => exact ⟨rs, by simp only [depthAll, hr, hrs, P.ok_bind, P.pure_eq], hok.mono (by omega)⟩
      | some v =>
        exact ⟨v :: rs, by simp only [depthAll, hr, hrs, P.ok_bind, P.pure_eq],
          t.weight, weightL ts, Nat.le_refl _, hro v rfl, hok⟩
end

theorem depthVariance_ok {t : Tok} (h : t.weight < usizeLim) :
    ∃ v, depthVariance t = .ok v ∧ v.Ok t.weight := by
  obtain ⟨r, hr, hro⟩ := depthTok_ok t h
  cases r with
  | none =>
    have hp := t.weight_pos
    obtain ⟨v, hv, hvo⟩ := SepTerm.finalize_ok (s := ⟨.open_, .inv 0⟩) (M := 0) (Nat.le_refl 0) (by omega)
    exact ⟨v, by simp only [depthVariance, hr, P.ok_bind, hv], hvo.mono (by omega)⟩
  | some x =>
    obtain ⟨v, hv, hvo⟩ := DTerm.finalize_ok (hro x rfl) h
    exact ⟨v, by simp only [depthVariance, hr, P.ok_bind, hv], hvo⟩

/-! ### exhaustiveness -/

theorem DTerm.zero_good {W : Nat} (h : 1 ≤ W) : DTerm.zero.Good W := by
  intro s hs
  cases List.mem_singleton.mp hs
  exact ⟨0, h, (Nat.le_refl 0 : 0 ≤ 0)⟩

theorem exhFinish_good {n k : Nat} {sum : Option DTerm} {W : Nat} (h1 : 1 ≤ W)
    (hs : ∀ x, sum = some x → x.Good W) : ∀ y, exhFinish n sum k = some y → y.Good W := by
  intro y hy
  unfold exhFinish at hy
  split at hy
  · exact hs y hy
  · cases sum with
    | none => simp only [Option.some.injEq] at hy; subst hy; exact DTerm.zero_good h1
    | some s =>
      simp only at hy
      split at hy
      · cases hy; exact hs _ rfl
      · cases hy; exact DTerm.zero_good h1

theorem ite_ok {α} {c : Bool} {x y : P α} {Q : α → Prop} (hx : ∃ r, x = .ok r ∧ Q r)
    (hy : ∃ r, y = .ok r ∧ Q r) : ∃ r, (if c = true then x else y) = .ok r ∧ Q r := by
  cases c
  · simpa using hy
  · simpa using hx

mutual
  theorem exhTok_ok : ∀ (t : Tok), t.weight < usizeLim →
      ∃ r, exhTok t = .ok r ∧ ∀ x, r = some x → x.Good t.weight
    | .alt _ bs, h => by
      simp only [Tok.weight] at h ⊢
      obtain ⟨rs, hrs, hok⟩ := exhSuffix_ok bs (by omega)
      obtain ⟨r, hr, hro⟩ := reducePD_ok foldlP_ddisj_ok hok (by omega)
      simp only [P.pure_eq] at hr
      simp only [exhTok, hrs, P.ok_bind, P.pure_eq, hr]
      exact ⟨_, rfl, exhFinish_good (by omega) (fun x hx => (hro x hx).mono (by omega))⟩
    | .cat _ ts, h => by
      simp only [Tok.weight] at h ⊢
      obtain ⟨rs, hrs, hok⟩ := exhSuffix_ok ts (by omega)
      obtain ⟨r, hr, hro⟩ := reducePD_ok foldlP_dconj_ok hok (by omega)
      simp only [exhTok, hrs, P.ok_bind, P.pure_eq, hr]
      exact ⟨_, rfl, exhFinish_good (by omega) (fun x hx => (hro x hx).mono (by omega))⟩
    | .rep sp b lo hi, h => by
      have hle := Tok.weight_rep_le sp b lo hi
      obtain ⟨r, hr, hro⟩ := exhTok_ok b (by omega)
      have hfin := exhFinish_good (n := 1) (k := if r.isSome then 1 else 0) b.weight_pos hro
      simp only [exhTok, hr, P.ok_bind]
      cases hE : exhFinish 1 r (if r.isSome = true then 1 else 0) with
      | none => exact ⟨none, rfl, by intro x hx; cases hx⟩
      | some term =>
        have hg := hfin term hE
        simp only []
        apply ite_ok
        · obtain ⟨y, hy, hyo⟩ := DTerm.prod_fco_ok (sp := sp) (lo := lo) (hi := hi) hg h
          refine ⟨some y, by simp only [hy, P.ok_bind, P.pure_eq], ?_⟩
          intro x hx; cases hx; exact hyo
        · refine ⟨some term, rfl, ?_⟩
          intro x hx; cases hx; exact hg.mono hle
    | .lit sp s ci, _ => ⟨_, rfl, by
        intro x hx; cases hx; exact leafTerm_good _ (Tok.weight_pos _) (by rintro ⟨_, h⟩; cases h)⟩
    | .sep sp, _ => ⟨_, rfl, by
        intro x hx; cases hx; exact leafTerm_good _ (Tok.weight_pos _) (by intro _; exact Nat.le_refl 2)⟩
    | .cls sp n i, _ => ⟨_, rfl, by
        intro x hx; cases hx; exact leafTerm_good _ (Tok.weight_pos _) (by rintro ⟨_, h⟩; cases h)⟩
    | .one sp, _ => ⟨_, rfl, by
        intro x hx; cases hx; exact leafTerm_good _ (Tok.weight_pos _) (by rintro ⟨_, h⟩; cases h)⟩
    | .zom sp l, _ => ⟨_, rfl, by
        intro x hx; cases hx; exact leafTerm_good _ (Tok.weight_pos _) (by rintro ⟨_, h⟩; cases h)⟩
    | .tree sp r, _ => ⟨_, rfl, by
        intro x hx; cases hx; exact leafTerm_good _ (Tok.weight_pos _) (by rintro ⟨_, h⟩; cases h)⟩
  theorem exhSuffix_ok : ∀ (ts : List Tok), weightL ts < usizeLim →
      ∃ rs, exhSuffix ts = .ok rs ∧ GoodL rs.1 (weightL ts)
    | [], _ => ⟨([], true), rfl, trivial⟩
    | t :: ts, h => by
      simp only [weightL] at h ⊢
      obtain ⟨rs, hrs, hok⟩ := exhSuffix_ok ts (by omega)
      simp only [exhSuffix, hrs, P.ok_bind]
      apply ite_ok (c := rs.2 && exhTake t)
      · obtain ⟨r, hr, hro⟩ := exhTok_ok t (by omega)
        cases r with
        | none =>
          simp only [hr, P.ok_bind, P.pure_eq]
          exact ⟨_, rfl, hok.mono (by omega)⟩
        | some v =>
          simp only [hr, P.ok_bind, P.pure_eq]
          exact ⟨_, rfl, t.weight, weightL ts, Nat.le_refl _, hro v rfl, hok⟩
      · exact ⟨_, rfl, hok.mono (by omega)⟩
end

theorem isExhaustive_ok {t : Tok} (h : t.weight < usizeLim) : ∃ w, isExhaustive t = .ok w := by
  obtain ⟨r, hr, _⟩ := exhTok_ok t h
  cases r <;> simp only [isExhaustive, hr, P.ok_bind, P.pure_eq] <;> exact ⟨_, rfl⟩

/-! ### the weight form of the theorem -/

/-- **C05, weight form**: below `usizeLim` of weight nothing panics in the four variance / rule
    queries, and their answers are bounded by the weight -/
theorem no_panic_of_weight {t : Tok} (h : t.weight < usizeLim) :
    (∃ v, sizeVariance t = .ok v ∧ v.Ok t.weight) ∧ (∃ r, check t = .ok r) ∧
    (∃ v, depthVariance t = .ok v ∧ v.Ok t.weight) ∧ (∃ w, isExhaustive t = .ok w) :=
  ⟨sizeVariance_ok h, check_ok h, depthVariance_ok h, isExhaustive_ok h⟩

/-! ### `small`: an explicit sufficient condition -/

mutual
  /-- every repetition bound of the tree (the lower one, and the upper one if present) is `≤ B` -/
  def Tok.boundsLe (B : Nat) : Tok → Bool
    | .alt _ bs => boundsLeL B bs
    | .cat _ ts => boundsLeL B ts
    | .rep _ b lo hi => decide (lo ≤ B) && decide (hi.getD 0 ≤ B) && b.boundsLe B
    | _ => true
  def boundsLeL (B : Nat) : List Tok → Bool
    | [] => true
    | t :: ts => t.boundsLe B && boundsLeL B ts
end

mutual
  /-- how deep repetitions are nested inside each other -/
  def Tok.repDepth : Tok → Nat
    | .alt _ bs => repDepthL bs
    | .cat _ ts => repDepthL ts
    | .rep _ b _ _ => b.repDepth + 1
    | _ => 0
  def repDepthL : List Tok → Nat
    | [] => 0
    | t :: ts => max t.repDepth (repDepthL ts)
end

mutual
  /-- the size of the expression: bytes of literals plus tokens (the weight with every repetition
      counted once) -/
  def Tok.base : Tok → Nat
    | .lit _ s _ => utf8Len s + 1
    | .sep _ => 2
    | .cls .. => 5
    | .one _ => 5
    | .zom .. => 1
    | .tree .. => 1
    | .alt _ bs => baseL bs + 1
    | .cat _ ts => baseL ts + 1
    | .rep _ b _ _ => b.base
  def baseL : List Tok → Nat
    | [] => 0
    | t :: ts => t.base + baseL ts
end

/-- repetition bounds at most `B`, repetitions nested at most `D` deep, expression size at most `N` -/
def small (B D N : Nat) (t : Tok) : Prop :=
  t.boundsLe B = true ∧ t.repDepth ≤ D ∧ t.base ≤ N

instance (B D N : Nat) (t : Tok) : Decidable (small B D N t) := by
  unfold small; infer_instance

theorem pow_pos_of_pos {B : Nat} (hB : 1 ≤ B) (d : Nat) : 1 ≤ B ^ d := Nat.pow_pos hB

mutual
  theorem Tok.weight_le_base {B : Nat} (hB : 1 ≤ B) : ∀ (t : Tok), t.boundsLe B = true →
      t.weight ≤ t.base * B ^ t.repDepth
    | .alt _ bs, h => by
      simp only [Tok.boundsLe] at h
      have ih := weightL_le_base hB bs h
      have hp := pow_pos_of_pos hB (repDepthL bs)
      simp only [Tok.weight, Tok.base, Tok.repDepth, Nat.add_mul]
      omega
    | .cat _ ts, h => by
      simp only [Tok.boundsLe] at h
      have ih := weightL_le_base hB ts h
      have hp := pow_pos_of_pos hB (repDepthL ts)
      simp only [Tok.weight, Tok.base, Tok.repDepth, Nat.add_mul]
      omega
    | .rep _ b lo hi, h => by
      simp only [Tok.boundsLe, Bool.and_eq_true, decide_eq_true_eq] at h
      have ih := Tok.weight_le_base hB b h.2
      simp only [Tok.weight, Tok.base, Tok.repDepth, Nat.pow_succ, ← Nat.mul_assoc]
      exact Nat.mul_le_mul ih (by omega)
    | .lit .., _ => by simp only [Tok.weight, Tok.base, Tok.repDepth, Nat.pow_zero, Nat.mul_one]; omega
    | .sep _, _ => by simp only [Tok.weight, Tok.base, Tok.repDepth, Nat.pow_zero, Nat.mul_one]; omega
    | .cls .., _ => by simp only [Tok.weight, Tok.base, Tok.repDepth, Nat.pow_zero, Nat.mul_one]; omega
    | .one _, _ => by simp only [Tok.weight, Tok.base, Tok.repDepth, Nat.pow_zero, Nat.mul_one]; omega
    | .zom .., _ => by simp only [Tok.weight, Tok.base, Tok.repDepth, Nat.pow_zero, Nat.mul_one]; omega
    | .tree .., _ => by simp only [Tok.weight, Tok.base, Tok.repDepth, Nat.pow_zero, Nat.mul_one]; omega
  theorem weightL_le_base {B : Nat} (hB : 1 ≤ B) : ∀ (ts : List Tok), boundsLeL B ts = true →
      weightL ts ≤ baseL ts * B ^ repDepthL ts
    | [], _ => by simp only [weightL]; omega
    | t :: ts, h => by
      simp only [boundsLeL, Bool.and_eq_true] at h
      have ih1 := Tok.weight_le_base hB t h.1
      have ih2 := weightL_le_base hB ts h.2
      simp only [weightL, baseL, repDepthL, Nat.add_mul]
      have m1 : B ^ t.repDepth ≤ B ^ max t.repDepth (repDepthL ts) :=
        Nat.pow_le_pow_right hB (Nat.le_max_left _ _)
      have m2 : B ^ repDepthL ts ≤ B ^ max t.repDepth (repDepthL ts) :=
        Nat.pow_le_pow_right hB (Nat.le_max_right _ _)
      have n1 := Nat.mul_le_mul_left t.base m1
      have n2 := Nat.mul_le_mul_left (baseL ts) m2
      omega
end

theorem small_weight {B D N : Nat} {t : Tok} (hB : 1 ≤ B) (h : small B D N t) :
    t.weight ≤ N * B ^ D := by
  obtain ⟨h1, h2, h3⟩ := h
  exact Nat.le_trans (Tok.weight_le_base hB t h1)
    (Nat.mul_le_mul h3 (Nat.pow_le_pow_right hB h2))

mutual
  theorem compilePanics_false {B : Nat} (hB : B ≤ u32Max) : ∀ (t : Tok), t.boundsLe B = true →
      compilePanics t = false
    | .alt _ bs, h => by
      simp only [Tok.boundsLe] at h
      simp only [compilePanics, compilePanicsL_false hB bs h]
    | .cat _ ts, h => by
      simp only [Tok.boundsLe] at h
      simp only [compilePanics, compilePanicsL_false hB ts h]
    | .rep _ b lo hi, h => by
      simp only [Tok.boundsLe, Bool.and_eq_true, decide_eq_true_eq] at h
      have h1 : ¬ lo > u32Max := by omega
      have h2 : ¬ hi.getD 0 > u32Max := by omega
      simp only [compilePanics, compilePanics_false hB b h.2, h1, h2, decide_false, Bool.or_self]
    | .lit .., _ => rfl
    | .sep _, _ => rfl
    | .cls .., _ => rfl
    | .one _, _ => rfl
    | .zom .., _ => rfl
    | .tree .., _ => rfl
  theorem compilePanicsL_false {B : Nat} (hB : B ≤ u32Max) : ∀ (ts : List Tok), boundsLeL B ts = true →
      compilePanicsL ts = false
    | [], _ => rfl
    | t :: ts, h => by
      simp only [boundsLeL, Bool.and_eq_true] at h
      simp only [compilePanicsL, compilePanics_false hB t h.1, compilePanicsL_false hB ts h.2,
        Bool.or_self]
end

/-!
The statement at full strength — *no* tree makes the queries panic — is false for the crate (and
the model): see `size_panics`, `check_panics` below.  What is proved is the statement under the
explicit decidable hypothesis `small B D N t` with `N * B ^ D < 2^64` (for the variance folds and
the rule check) and `B ≤ u32::MAX` (for compilation).
-/

/-- **C05**: nothing panics on a small tree -/
theorem no_panic_partial {B D N : Nat} (hB : 1 ≤ B) (hB32 : B ≤ u32Max)
    (hlim : N * B ^ D < usizeLim) {t : Tok} (h : small B D N t) :
    (∃ v, sizeVariance t = .ok v) ∧ (∃ r, check t = .ok r) ∧ (∃ v, depthVariance t = .ok v) ∧
    (∃ w, isExhaustive t = .ok w) ∧ compilePanics t = false := by
  have hw : t.weight < usizeLim := Nat.lt_of_le_of_lt (small_weight hB h) hlim
  obtain ⟨⟨v, hv, _⟩, hc, ⟨d, hd, _⟩, he⟩ := no_panic_of_weight hw
  exact ⟨⟨v, hv⟩, hc, ⟨d, hd⟩, he, compilePanics_false hB32 t h.1⟩

/-- repetition bounds up to `2^16`, nested three deep, in an expression of up to `65535`
    bytes/tokens: `65535 * (2^16)^3 < 2^64` -/
theorem no_panic_16 {t : Tok} (h : small (2 ^ 16) 3 65535 t) :
    (∃ v, sizeVariance t = .ok v) ∧ (∃ r, check t = .ok r) ∧ (∃ v, depthVariance t = .ok v) ∧
    (∃ w, isExhaustive t = .ok w) ∧ compilePanics t = false :=
  no_panic_partial (by decide) (by decide) (by decide) h

/-- every repetition bound the regex engine accepts (`u32::MAX`), repetitions not nested, in an
    expression of up to `2^32` bytes/tokens -/
theorem no_panic_32 {t : Tok} (h : small u32Max 1 (2 ^ 32) t) :
    (∃ v, sizeVariance t = .ok v) ∧ (∃ r, check t = .ok r) ∧ (∃ v, depthVariance t = .ok v) ∧
    (∃ w, isExhaustive t = .ok w) ∧ compilePanics t = false :=
  no_panic_partial (by decide) (by decide) (by decide) h

/-! ### the hypotheses are satisfiable, and they are needed -/

namespace NoPanicEx

def sp0 : Span := ⟨0, 0⟩

/-- `<a<?:1,65536>/:2,65536>{[a-z],xy}*`: accepted by `rule::check`, three levels of branches,
    two nested repetitions with bounds `2^16` -/
def smallEx : Tok :=
  .cat sp0 [.rep sp0 (.cat sp0 [.lit sp0 ['a'] false,
      .rep sp0 (.cat sp0 [.one sp0]) 1 (some 65536), .sep sp0]) 2 (some 65536),
    .alt sp0 [.cat sp0 [.cls sp0 false [.rng 'a' 'z']], .cat sp0 [.lit sp0 ['x', 'y'] false]],
    .zom sp0 false]

/-- `<a/:1,4294967295>y` -/
def flatEx : Tok :=
  .cat sp0 [.rep sp0 (.cat sp0 [.lit sp0 ['a'] false, .sep sp0]) 1 (some 4294967295),
    .lit sp0 ['y'] false]

/-- `<aa:9223372036854775808>`: the input that makes `Glob::new` panic -/
def bigRep : Tok :=
  .cat sp0 [.rep sp0 (.cat sp0 [.lit sp0 ['a', 'a'] false]) (2 ^ 63) (some (2 ^ 63))]

example : small (2 ^ 16) 3 65535 smallEx := by decide
example : check smallEx = .ok none := by rfl
example : depthVariance smallEx = .ok (.bnd (.both 3 65534)) := by rfl
example : small u32Max 1 (2 ^ 32) flatEx := by decide
example : check flatEx = .ok none := by rfl
example : sizeVariance flatEx = .ok (.bnd (.both 3 8589934588)) := by rfl
example : smallEx.weight < usizeLim ∧ flatEx.weight < usizeLim := by decide

/-- the statement without a size hypothesis is **false**: the size fold overflows `usize` -/
theorem size_panics : ∀ v, sizeVariance bigRep ≠ .ok v := by
  intro v h
  have : (sizeVariance bigRep).toBool = false := by decide
  rw [h] at this; cases this

/-- ... and so does `rule::check` (its size rule), which `Glob::new` always runs -/
theorem check_panics : ∀ r, check bigRep ≠ .ok r := by
  intro r h
  have : (check bigRep).toBool = false := by decide
  rw [h] at this; cases this

/-- the tree is neither small nor light, though nothing else is wrong with it: the other rules
    accept it and its bounds fit... `u64`, not `u32` -/
example : ¬ small (2 ^ 16) 3 65535 bigRep := by decide
example : ¬ bigRep.weight < usizeLim := by decide
example : ruleBoundary bigRep = none ∧ ruleBounds bigRep = none ∧ ruleBranch bigRep = none := by decide
example : compilePanics bigRep = true := by decide

end NoPanicEx

end Wax
