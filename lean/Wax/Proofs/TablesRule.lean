import Wax.GeneratedRule
import Wax.Rule
/-!
The tie by regeneration for the three decision tables of the branch rule (`check_branch`,
`check_alternation`, `check_repetition` in src/rule.rs).  `tools/ruletables.py` reads the three
`match` expressions out of `/repo/src/rule.rs` and EVALUATES them on every point of their abstract
domain (shape of the terminals x leaf kind of each terminal x the boolean observations of the
neighbours the guards make), so arm order, or-patterns and layout are immaterial.  Here the model's
functions are shown to compute exactly those tables: first abstractly (`…Abs`, closed by kernel
evaluation over the whole domain), then for every `Terms` / `Outer` the model can be applied to.
-/
namespace Wax
open Generated (TK)

/-- the leaf kind of a token as the branch rule sees it -/
def tk : Tok → TK
  | .sep _ => .sep
  | .tree _ true => .treeR
  | .tree _ false => .treeU
  | .zom .. => .zom
  | .alt .. | .cat .. | .rep .. => .branch
  | _ => .leaf

def errCode : Option RuleErr → Nat
  | none => 0 | some .adjBoundary => 1 | some .singularTree => 2 | some .adjZom => 3
  | some .rooted => 4 | some .singularZom => 5 | some _ => 8

def Generated.TK.isSep : TK → Bool | .sep => true | _ => false
def Generated.TK.isTree : TK → Bool | .treeR | .treeU => true | _ => false
def Generated.TK.isZom : TK → Bool | .zom => true | _ => false
def Generated.TK.isBoundary : TK → Bool | .sep | .treeR | .treeU => true | _ => false
/-- `rootsIt` on kinds: `hr` is the observation `has_root().is_maybe_true()` of a branch token -/
def Generated.TK.roots (k : TK) (hr : Bool) : Bool :=
  match k with | .sep | .treeR => true | .branch => hr | _ => false

/-- the model's `checkBranch` on the abstract domain -/
def checkBranchAbs (only : Bool) (s e0 : TK) (lb rb lz rz : Bool) : Option RuleErr :=
  let e := if only then s else e0
  if s.isSep && lb then some .adjBoundary
  else if e.isSep && rb then some .adjBoundary
  else if only && s.isTree then some .singularTree
  else if !only && s.isTree && lb then some .adjBoundary
  else if !only && e.isTree && rb then some .adjBoundary
  else if s.isZom && lz then some .adjZom
  else if e.isZom && rz then some .adjZom
  else none

def checkAlternationAbs (s : TK) (ln hr : Bool) : Option RuleErr :=
  if ln && s.roots hr then some .rooted else none

def checkRepetitionAbs (only : Bool) (s e0 : TK) (ln lu hr : Bool) : Option RuleErr :=
  let e := if only then s else e0
  if ln && lu && s.roots hr then some .rooted
  else if !only && s.isBoundary && e.isBoundary then some .adjBoundary
  else if only && s.isSep then some .adjBoundary
  else if only && s.isZom then some .singularZom
  else none

def allTK : List TK := [.sep, .treeR, .treeU, .zom, .leaf, .branch]
def allB : List Bool := [true, false]
theorem mem_allTK (k : TK) : k ∈ allTK := by cases k <;> simp [allTK]
theorem mem_allB (b : Bool) : b ∈ allB := by cases b <;> simp [allB]
theorem forall_of_all {α : Type} {l : List α} (hl : ∀ x, x ∈ l) {p : α → Bool} (h : l.all p = true) (x : α) :
    p x = true := List.all_eq_true.mp h x (hl x)

theorem branch_rows : (allB.all fun only => allTK.all fun s => allTK.all fun e => allB.all fun lb => allB.all fun rb =>
    allB.all fun lz => allB.all fun rz =>
      errCode (checkBranchAbs only s e lb rb lz rz) == Generated.checkBranch only s e lb rb lz rz) = true := by
  decide +kernel

theorem alternation_rows : (allB.all fun only => allTK.all fun s => allTK.all fun e => allB.all fun ln => allB.all fun hr =>
      errCode (checkAlternationAbs s ln hr) == Generated.checkAlternation only s e ln hr) = true := by
  decide +kernel

theorem repetition_rows : (allB.all fun only => allTK.all fun s => allTK.all fun e => allB.all fun ln => allB.all fun lu =>
    allB.all fun hr =>
      errCode (checkRepetitionAbs only s e ln lu hr) == Generated.checkRepetition only s e ln lu hr) = true := by
  decide +kernel

/-- **the three tables read from rule.rs are the model's tables**, on every point of the domain
    (1152 + 288 + 576 rows, kernel evaluation) -/
theorem rule_tables_are_source :
    (∀ only s e lb rb lz rz, errCode (checkBranchAbs only s e lb rb lz rz) = Generated.checkBranch only s e lb rb lz rz) ∧
    (∀ only s e ln hr, errCode (checkAlternationAbs s ln hr) = Generated.checkAlternation only s e ln hr) ∧
    (∀ only s e ln lu hr, errCode (checkRepetitionAbs only s e ln lu hr) = Generated.checkRepetition only s e ln lu hr) := by
  refine ⟨?_, ?_, ?_⟩
  · intro only s e lb rb lz rz
    have h := forall_of_all mem_allB branch_rows only
    have h := forall_of_all mem_allTK h s
    have h := forall_of_all mem_allTK h e
    have h := forall_of_all mem_allB h lb
    have h := forall_of_all mem_allB h rb
    have h := forall_of_all mem_allB h lz
    have h := forall_of_all mem_allB h rz
    exact beq_iff_eq.mp h
  · intro only s e ln hr
    have h := forall_of_all mem_allB alternation_rows only
    have h := forall_of_all mem_allTK h s
    have h := forall_of_all mem_allTK h e
    have h := forall_of_all mem_allB h ln
    have h := forall_of_all mem_allB h hr
    exact beq_iff_eq.mp h
  · intro only s e ln lu hr
    have h := forall_of_all mem_allB repetition_rows only
    have h := forall_of_all mem_allTK h s
    have h := forall_of_all mem_allTK h e
    have h := forall_of_all mem_allB h ln
    have h := forall_of_all mem_allB h lu
    have h := forall_of_all mem_allB h hr
    exact beq_iff_eq.mp h

/-! ### from the abstract domain to the model's functions -/

theorem isSepT_tk (t : Tok) : t.isSepT = (tk t).isSep := by
  cases t <;> first | rfl | (rename_i r; cases r <;> rfl)
theorem isTreeT_tk (t : Tok) : t.isTreeT = (tk t).isTree := by
  cases t <;> first | rfl | (rename_i r; cases r <;> rfl)
theorem isZomT_tk (t : Tok) : t.isZomT = (tk t).isZom := by
  cases t <;> first | rfl | (rename_i r; cases r <;> rfl)
theorem isBoundaryT_tk (t : Tok) : t.isBoundaryT = (tk t).isBoundary := by
  cases t <;> first | rfl | (rename_i r; cases r <;> rfl)
theorem rootsIt_tk (t : Tok) : rootsIt t = (tk t).roots (hasRoot t != .never) := by
  cases t <;> first | rfl | (rename_i r; cases r <;> rfl) | simp [rootsIt, tk, Generated.TK.roots, Tok.isSepT, Tok.isRootedTreeT, Tok.isBranchT]

theorem checkBranch_abs (ts : Terms) (o : Outer) :
    checkBranch ts o = checkBranchAbs ts.isOnly (tk ts.start) (tk ts.end_) (endsWith Tok.isBoundaryT o.left)
      (startsWith Tok.isBoundaryT o.right) (endsWith Tok.isZomT o.left) (startsWith Tok.isZomT o.right) := by
  cases ts <;> simp only [checkBranch, checkBranchAbs, Terms.isOnly, Terms.start, Terms.end_, isSepT_tk, isTreeT_tk, isZomT_tk,
    if_true, Bool.false_eq_true, if_false]

theorem checkAlternation_abs (ts : Terms) (o : Outer) :
    checkAlternation ts o = checkAlternationAbs (tk ts.start) o.left.isNone (hasRoot ts.start != .never) := by
  simp only [checkAlternation, checkAlternationAbs, rootsIt_tk]

theorem checkRepetition_abs (ts : Terms) (o : Outer) (lo : Nat) (hi : Option Nat) :
    checkRepetition ts o lo hi = checkRepetitionAbs ts.isOnly (tk ts.start) (tk ts.end_) o.left.isNone (lowerUnbounded lo hi)
      (hasRoot ts.start != .never) := by
  cases ts <;> simp only [checkRepetition, checkRepetitionAbs, Terms.isOnly, Terms.start, Terms.end_, isSepT_tk, isZomT_tk,
    isBoundaryT_tk, rootsIt_tk, if_true, Bool.false_eq_true, if_false] <;> rfl

/-- **`check_branch` of the model is the table read from rule.rs**, for every pair of terminals and
    every pair of neighbours: the observations are the kinds of the terminals and whether the
    left / right neighbour can end / start with a boundary or a zero-or-more wildcard -/
theorem checkBranch_is_source (ts : Terms) (o : Outer) :
    errCode (checkBranch ts o) = Generated.checkBranch ts.isOnly (tk ts.start) (tk ts.end_)
      (endsWith Tok.isBoundaryT o.left) (startsWith Tok.isBoundaryT o.right)
      (endsWith Tok.isZomT o.left) (startsWith Tok.isZomT o.right) := by
  rw [checkBranch_abs]; exact rule_tables_are_source.1 ..

theorem checkAlternation_is_source (ts : Terms) (o : Outer) :
    errCode (checkAlternation ts o) = Generated.checkAlternation ts.isOnly (tk ts.start) (tk ts.end_)
      o.left.isNone (hasRoot ts.start != .never) := by
  rw [checkAlternation_abs]; exact rule_tables_are_source.2.1 ..

theorem checkRepetition_is_source (ts : Terms) (o : Outer) (lo : Nat) (hi : Option Nat) :
    errCode (checkRepetition ts o lo hi) = Generated.checkRepetition ts.isOnly (tk ts.start) (tk ts.end_)
      o.left.isNone (lowerUnbounded lo hi) (hasRoot ts.start != .never) := by
  rw [checkRepetition_abs]; exact rule_tables_are_source.2.2 ..

/-- `errCode` loses nothing on the verdicts the three functions can return -/
theorem errCode_inj_branch {a b : Option RuleErr} (ha : a ≠ some .oversized ∧ a ≠ some .bounds)
    (hb : b ≠ some .oversized ∧ b ≠ some .bounds) (h : errCode a = errCode b) : a = b := by
  cases a with
  | none => cases b with
    | none => rfl
    | some y => cases y <;> simp_all [errCode]
  | some x => cases b with
    | none => cases x <;> simp_all [errCode]
    | some y => cases x <;> cases y <;> simp_all [errCode]

end Wax
