import Wax.Parse
import Wax.Proofs.SpecRe
import Wax.Proofs.EncodeSpec
import Wax.Proofs.Sites
import Wax.Proofs.SepFree
import Wax.Proofs.FoldMap
import Wax.Proofs.Text
import Wax.Proofs.TextMatches
import Wax.Proofs.EndToEnd
import Wax.Proofs.Root
import Wax.Proofs.ParseShape
import Wax.Proofs.FoldMachineSel
import Wax.Unicode
import Wax.RuleS
import Wax.Proofs.GlobWalk
import Wax.Proofs.Prune
import Wax.Proofs.GlobVerdict
import Wax.Proofs.GlobPrograms
import Wax.Proofs.GlobBounded
import Wax.Proofs.WalkLinks
import Wax.Proofs.NotWalk
import Wax.Proofs.NotProgram
import Wax.Proofs.WalkMachine
import Wax.Proofs.Entry
import Wax.Proofs.PathLemmas
import Wax.Proofs.Regex
import Wax.Proofs.HirEncode
import Wax.Proofs.ExecCompleteAll
import Wax.Proofs.Total
import Wax.Proofs.NoPanic
import Wax.Proofs.NestBound
import Wax.Proofs.NestParsed
import Wax.Proofs.RuleRoot
import Wax.Proofs.RuleAdj
import Wax.Proofs.RuleEquiv
import Wax.Proofs.RuleAdjNested
import Wax.Proofs.RuleSpecEquiv
import Wax.Proofs.PartitionFn
import Wax.Proofs.PartitionSpec
import Wax.Proofs.PartitionMore
import Wax.Proofs.PartitionAll
import Wax.Proofs.Spans
import Wax.Proofs.Arith
import Wax.Proofs.RuleSpans
import Wax.Proofs.SpanTile
import Wax.Proofs.SpanReparse
import Wax.Proofs.EscapeMatch
import Wax.Proofs.EscapeRule
import Wax.Proofs.ExhShape
import Wax.Proofs.DepthBranchTree
import Wax.Proofs.Behavior
import Wax.Proofs.WalkFaults
import Wax.Proofs.WalkLogs
import Wax.Proofs.RootRule
import Wax.Proofs.DepthBranch
import Wax.Proofs.CapRuns
import Wax.Proofs.CapTile
import Wax.Proofs.WalkStack
import Wax.Proofs.TranslatedBehavior
import Wax.Proofs.TranslatedJoin
import Wax.Proofs.TranslatedOps

/-!
Non-vacuity witnesses for the theorems listed in `/verif/tools/obligations.json` that had no
`example` instantiating them: one namespace `Wax.NonVacuity.Cxx` per property (several blocks per
property may occur, one per batch), each theorem instantiated on a concrete non-trivial input
(whenever possible the `parse` of a glob expression with wildcards / classes / branches), plus
`Wax.NonVacuity.Findings_*`: kernel-checked facts about weak or partly vacuous statements found on
the way (see `/root/scratch/proof-audit/REPORT.md`).
-/

/-! ## ===== batch A ===== -/
namespace Wax.NonVacuity.C01
open Wax

/-- `a/**/{b,[c-e]?}<x*:1,2>` as parsed: tree wildcard, alternation, class, `?`, repetition, `*` -/
def t1_A : Tok :=
  .cat ⟨0, 23⟩ [.lit ⟨0, 1⟩ ['a'] false, .tree ⟨1, 4⟩ true,
    .alt ⟨5, 10⟩ [.cat ⟨6, 1⟩ [.lit ⟨6, 1⟩ ['b'] false],
      .cat ⟨8, 6⟩ [.cls ⟨8, 5⟩ false [.rng 'c' 'e'], .one ⟨13, 1⟩]],
    .rep ⟨15, 8⟩ (.cat ⟨16, 2⟩ [.lit ⟨16, 1⟩ ['x'] false, .zom ⟨17, 1⟩ false]) 1 (some 2)]

example : parse "a/**/{b,[c-e]?}<x*:1,2>".toList = .ok t1_A := by rfl

-- specRe_correct: glob `a/**/{b,[c-e]?}<x*:1,2>`, path `a/q/r/dzx1x2` is in the documented language
example : Spec.Matches σcs t1_A "a/q/r/dzx1x2".toList :=
  (specRe_correct σcs rfl t1_A "a/q/r/dzx1x2".toList).mp ((matchB_iff _ _ _).mp (by decide))

-- specRe_correct (other direction): `a/q/fzx` (class `[c-e]` misses `f`) is not in the documented language
example : ¬ Spec.Matches σcs t1_A "a/q/fzx".toList := fun h =>
  absurd ((matchB_iff _ _ _).mpr ((specRe_correct σcs rfl t1_A "a/q/fzx".toList).mpr h)) (by decide)

example : F01 t1_A = true := by decide

-- encode_eq_spec_partial: glob `a/**/{b,[c-e]?}<x*:1,2>` (in F01), every path
example : ∀ w, Matches σcs (encodeTop t1_A) w ↔ Spec.Matches σcs t1_A w :=
  encode_eq_spec_partial σcs rfl t1_A (by decide)

-- encode_eq_spec_partial: the compiled program accepts `a/bx`, hence the documented language has it
example : Spec.Matches σcs t1_A "a/bx".toList :=
  (encode_eq_spec_partial σcs rfl t1_A (by decide) "a/bx".toList).mp ((matchB_iff _ _ _).mp (by decide))

-- encode_eq_oracle_partial: glob `a/**/{b,[c-e]?}<x*:1,2>` (in F01), every path: program and oracle agree
example : ∀ w, Matches σcs (encodeTop t1_A) w ↔ Matches σcs (specRe t1_A) w :=
  encode_eq_oracle_partial σcs rfl t1_A (by decide)

-- encode_eq_oracle_partial: the oracle rejects `a/ex/` (nothing after the repetition), so does the program
example : ¬ Matches σcs (encodeTop t1_A) "a/ex/".toList := fun h =>
  absurd ((encode_eq_oracle_partial σcs rfl t1_A (by decide) "a/ex/".toList).mp h) (by decide)

/-- exact comparison, `.` does NOT match a new line: the `DotOk` hypothesis of the site identities
    is a real restriction here -/
def σnl_A : Sem := { ceq := fun a b => a == b, dotall := false }

local instance decDotOk_A (σ : Sem) (w : Str) : Decidable (DotOk σ w) := by unfold DotOk; infer_instance
local instance decSepFree_A (w : Str) : Decidable (SepFree w) := by unfold SepFree; infer_instance

example : ¬ DotOk σnl_A "/x\n/".toList ∧ ¬ DotOk σnl_A ['/', '\n', '/'] := by decide

-- intermediate_eq_spec: site `(?:[/]|[/](.*[/]))`, new-line-free text `/x/yz/` is `/` C* (two components)
example : TreeLang ⟨false, false⟩ true "/x/yz/".toList :=
  (intermediate_eq_spec σnl_A true true "/x/yz/".toList (by decide)).mp (by decide)

-- intermediate_eq_spec: `/x/y` (half a component at the end) is outside, because the site rejects it
example : ¬ TreeLang ⟨false, false⟩ false "/x/y".toList := fun h =>
  absurd ((intermediate_eq_spec σnl_A false false "/x/y".toList (by decide)).mpr h) (by decide)

-- firstUnrooted_eq_spec: site `(?:[/]?|(.*[/]))`, text `x/yz/` is C* (an unrooted `**/` at the start)
example : TreeLang ⟨true, false⟩ false "x/yz/".toList :=
  (firstUnrooted_eq_spec σnl_A true "x/yz/".toList (by decide)).mp (by decide)

-- firstUnrooted_eq_spec: `x/y` is outside
example : ¬ TreeLang ⟨true, false⟩ false "x/y".toList := fun h =>
  absurd ((firstUnrooted_eq_spec σnl_A true "x/y".toList (by decide)).mpr h) (by decide)

-- last_eq_spec: site `(?:[/]?|[/](.*))`, text `/x/y` after something (`a/**` on `a/x/y`)
example : TreeLang ⟨false, true⟩ true "/x/y".toList :=
  (last_eq_spec σnl_A true true "/x/y".toList (by decide)).mp (by decide)

-- last_eq_spec: `x/y` (no separator after the preceding text) is outside
example : ¬ TreeLang ⟨false, true⟩ true "x/y".toList := fun h =>
  absurd ((last_eq_spec σnl_A true true "x/y".toList (by decide)).mpr h) (by decide)

-- only_eq_spec: site `(.*)`, the pattern `**` on `x/y`; the right side is `True` for every text
example : Matches σnl_A (siteOnly true) "x/y".toList ↔ TreeLang ⟨true, true⟩ false "x/y".toList :=
  only_eq_spec σnl_A true "x/y".toList (by decide)

-- only_eq_spec: consequence: the site accepts every new-line-free text, e.g. `x/y`
example : Matches σnl_A (siteOnly false) "x/y".toList :=
  (only_eq_spec σnl_A false "x/y".toList (by decide)).mpr (by simp [TreeLang])

-- onlyRooted_eq_spec: site `([/].*)`, the pattern `/**` on `/x/y`
example : TreeLang ⟨true, true⟩ true "/x/y".toList :=
  (onlyRooted_eq_spec σnl_A true "/x/y".toList (by decide)).mp (by decide)

-- onlyRooted_eq_spec: the relative path `x/y` is outside
example : ¬ TreeLang ⟨true, true⟩ true "x/y".toList := fun h =>
  absurd ((onlyRooted_eq_spec σnl_A true "x/y".toList (by decide)).mpr h) (by decide)

theorem σcs_sepIsolated_A : SepIsolated σcs := by
  intro a b h
  have : a = b := by simpa [σcs] using h
  subst this; rfl

/-- the single token of `{a?,[b-d]*}` -/
def tAlt_A : Tok :=
  .alt ⟨0, 11⟩ [.cat ⟨1, 2⟩ [.lit ⟨1, 1⟩ ['a'] false, .one ⟨2, 1⟩],
    .cat ⟨4, 6⟩ [.cls ⟨4, 5⟩ false [.rng 'b' 'd'], .zom ⟨9, 1⟩ false]]

example : parse "{a?,[b-d]*}".toList = .ok (.cat ⟨0, 11⟩ [tAlt_A]) := by rfl

theorem tAlt_matches_A : SM σcs ⟨true, true⟩ tAlt_A "cxyz".toList :=
  sms_singleton.mp ((specRe_correct σcs rfl (.cat ⟨0, 11⟩ [tAlt_A]) "cxyz".toList).mp
    ((matchB_iff _ _ _).mp (by decide)))

-- sm_sepFree: alternation `{a?,[b-d]*}` (no boundary inside) matching `cxyz`: the text has no separator
example : SepFree "cxyz".toList := sm_sepFree σcs σcs_sepIsolated_A tAlt_matches_A (by decide)

-- sm_sepFree: contrapositive, `{a?,[b-d]*}` cannot match `c/z` in any context
example (c : Ctx) : ¬ SM σcs c tAlt_A "c/z".toList := fun h =>
  absurd (sm_sepFree σcs σcs_sepIsolated_A h (by decide)) (by decide)

end Wax.NonVacuity.C01

namespace Wax.NonVacuity.C07
open Wax

/-! `a/{b,c?}.x` as parsed is `pre ++ [alt] ++ post` with these parts -/
def pre_A : List Tok := [.lit ⟨0, 1⟩ ['a'] false, .sep ⟨1, 1⟩]
def brs_A : List Tok :=
  [.cat ⟨3, 1⟩ [.lit ⟨3, 1⟩ ['b'] false], .cat ⟨5, 2⟩ [.lit ⟨5, 1⟩ ['c'] false, .one ⟨6, 1⟩]]
def post_A : List Tok := [.lit ⟨8, 2⟩ ['.', 'x'] false]

example : parse "a/{b,c?}.x".toList = .ok (.cat ⟨0, 10⟩ (pre_A ++ [.alt ⟨2, 6⟩ brs_A] ++ post_A)) := by rfl

theorem brs_ne_A : ∀ b ∈ brs_A, b.concatenation ≠ [] := by
  intro b hb
  simp only [brs_A, List.mem_cons, List.mem_nil_iff, or_false] at hb
  rcases hb with rfl | rfl <;> simp [Tok.concatenation]

-- alt_union: glob `a/{b,c?}.x`, every path: it matches iff `a/b.x` or `a/c?.x` (branch spliced in) matches
example : ∀ w, Spec.Matches σcs (.cat ⟨0, 10⟩ (pre_A ++ [.alt ⟨2, 6⟩ brs_A] ++ post_A)) w ↔
    ∃ b ∈ brs_A, Spec.Matches σcs (.cat ⟨0, 10⟩ (pre_A ++ b.concatenation ++ post_A)) w :=
  alt_union ⟨true, true⟩ pre_A post_A ⟨2, 6⟩ brs_A brs_ne_A

-- alt_union: `a/cq.x` matches the spliced pattern `a/c?.x`, hence the glob with the alternation
example : Spec.Matches σcs (.cat ⟨0, 10⟩ (pre_A ++ [.alt ⟨2, 6⟩ brs_A] ++ post_A)) "a/cq.x".toList :=
  (alt_union ⟨true, true⟩ pre_A post_A ⟨2, 6⟩ brs_A brs_ne_A _).mpr
    ⟨.cat ⟨5, 2⟩ [.lit ⟨5, 1⟩ ['c'] false, .one ⟨6, 1⟩], by simp [brs_A],
      (specRe_correct σcs rfl (Tok.cat ⟨0, 10⟩ (pre_A ++ [Tok.lit ⟨5, 1⟩ ['c'] false, Tok.one ⟨6, 1⟩] ++ post_A))
        "a/cq.x".toList).mp ((matchB_iff _ _ _).mp (by decide))⟩

/-! `<a?:1,2>/b` as parsed: the repetition first, then `/b` -/
def body_A : Tok := .cat ⟨1, 2⟩ [.lit ⟨1, 1⟩ ['a'] false, .one ⟨2, 1⟩]
def postR_A : List Tok := [.sep ⟨8, 1⟩, .lit ⟨9, 1⟩ ['b'] false]

example : parse "<a?:1,2>/b".toList = .ok (.cat ⟨0, 10⟩ ([] ++ [.rep ⟨0, 8⟩ body_A 1 (some 2)] ++ postR_A)) := by rfl

-- rep_unroll: glob `<a?:1,2>/b`, every path: it matches iff `a?/b` or `a?a?/b` matches
example : ∀ w, Spec.Matches σcs (.cat ⟨0, 10⟩ ([] ++ [.rep ⟨0, 8⟩ body_A 1 (some 2)] ++ postR_A)) w ↔
    ∃ n, 1 ≤ n ∧ (∀ h, some 2 = some h → n ≤ h) ∧
      Spec.Matches σcs (.cat ⟨0, 10⟩ ([] ++ repeatList body_A.concatenation n ++ postR_A)) w :=
  rep_unroll ⟨true, true⟩ [] postR_A ⟨0, 8⟩ body_A 1 (some 2) (by simp [body_A, Tok.concatenation])
    (Nat.le_refl 1)

-- rep_unroll: `axay/b` matches the body written out twice, hence the repetition
example : Spec.Matches σcs (.cat ⟨0, 10⟩ ([] ++ [.rep ⟨0, 8⟩ body_A 1 (some 2)] ++ postR_A)) "axay/b".toList :=
  (rep_unroll ⟨true, true⟩ [] postR_A ⟨0, 8⟩ body_A 1 (some 2) (by simp [body_A, Tok.concatenation])
    (Nat.le_refl 1) _).mpr
    ⟨2, by decide, by intro h hh; cases hh; exact Nat.le_refl 2,
      (specRe_correct σcs rfl (.cat ⟨0, 10⟩ ([] ++ repeatList body_A.concatenation 2 ++ postR_A))
        "axay/b".toList).mp ((matchB_iff _ _ _).mp (by decide))⟩

-- srep_iff: body `a?` iterated 3 times in context (first, not last) is `a?a?a?` written out
example : ∀ w, SRep σcs ⟨true, false⟩ body_A.concatenation 3 w ↔
    SMs σcs ⟨true, false⟩ (repeatList body_A.concatenation 3) w :=
  srep_iff (by simp [body_A, Tok.concatenation]) 2 ⟨true, false⟩

-- srep_iff: `axayaz` matches `a?a?a?`, hence three iterations of the body `a?`
example : SRep σcs ⟨true, true⟩ body_A.concatenation 3 "axayaz".toList :=
  (srep_iff (by simp [body_A, Tok.concatenation]) 2 ⟨true, true⟩ _).mpr
    ((specRe_correct σcs rfl (.cat ⟨0, 6⟩ (repeatList body_A.concatenation 3)) "axayaz".toList).mp
      ((matchB_iff _ _ _).mp (by decide)))

/-- the branch of `x{a*}/**` -/
def br1_A : Tok := .cat ⟨2, 2⟩ [.lit ⟨2, 1⟩ ['a'] false, .zom ⟨3, 1⟩ false]

example : parse "x{a*}/**".toList =
    .ok (.cat ⟨0, 8⟩ ([.lit ⟨0, 1⟩ ['x'] false] ++ [.alt ⟨1, 4⟩ [br1_A]] ++ [.tree ⟨5, 3⟩ true])) := by rfl

-- wrap_alt: glob `x{a*}/**`, every path: same language as `xa*/**`
example : ∀ w, Spec.Matches σcs (.cat ⟨0, 8⟩ ([.lit ⟨0, 1⟩ ['x'] false] ++ [.alt ⟨1, 4⟩ [br1_A]] ++ [.tree ⟨5, 3⟩ true])) w ↔
    Spec.Matches σcs (.cat ⟨0, 8⟩ ([.lit ⟨0, 1⟩ ['x'] false] ++ br1_A.concatenation ++ [.tree ⟨5, 3⟩ true])) w :=
  wrap_alt ⟨true, true⟩ [.lit ⟨0, 1⟩ ['x'] false] [.tree ⟨5, 3⟩ true] ⟨1, 4⟩ br1_A
    (by simp [br1_A, Tok.concatenation])

-- wrap_alt: `xab/c/d` matches `xa*/**`, hence `x{a*}/**`
example : Spec.Matches σcs (.cat ⟨0, 8⟩ ([.lit ⟨0, 1⟩ ['x'] false] ++ [.alt ⟨1, 4⟩ [br1_A]] ++ [.tree ⟨5, 3⟩ true]))
    "xab/c/d".toList :=
  (wrap_alt ⟨true, true⟩ [.lit ⟨0, 1⟩ ['x'] false] [.tree ⟨5, 3⟩ true] ⟨1, 4⟩ br1_A
    (by simp [br1_A, Tok.concatenation]) _).mpr
    ((specRe_correct σcs rfl (Tok.cat ⟨0, 8⟩ ([Tok.lit ⟨0, 1⟩ ['x'] false] ++ br1_A.concatenation ++ [Tok.tree ⟨5, 3⟩ true]))
      "xab/c/d".toList).mp ((matchB_iff _ _ _).mp (by decide)))

/-- the body of the repetition of `x<a*:1>.c` -/
def bodyW_A : Tok := .cat ⟨2, 2⟩ [.lit ⟨2, 1⟩ ['a'] false, .zom ⟨3, 1⟩ false]

example : parse "x<a*:1>.c".toList =
    .ok (.cat ⟨0, 9⟩ ([.lit ⟨0, 1⟩ ['x'] false] ++ [.rep ⟨1, 6⟩ bodyW_A 1 (some 1)] ++ [.lit ⟨7, 2⟩ ['.', 'c'] false])) := by rfl

-- wrap_rep: glob `x<a*:1>.c`, every path: same language as `xa*.c`
example : ∀ w, Spec.Matches σcs (.cat ⟨0, 9⟩ ([.lit ⟨0, 1⟩ ['x'] false] ++ [.rep ⟨1, 6⟩ bodyW_A 1 (some 1)] ++ [.lit ⟨7, 2⟩ ['.', 'c'] false])) w ↔
    Spec.Matches σcs (.cat ⟨0, 9⟩ ([.lit ⟨0, 1⟩ ['x'] false] ++ bodyW_A.concatenation ++ [.lit ⟨7, 2⟩ ['.', 'c'] false])) w :=
  wrap_rep ⟨true, true⟩ [.lit ⟨0, 1⟩ ['x'] false] [.lit ⟨7, 2⟩ ['.', 'c'] false] ⟨1, 6⟩ bodyW_A
    (by simp [bodyW_A, Tok.concatenation])

-- wrap_rep: `xa/b.c` is not matched by `xa*.c`, hence not by `x<a*:1>.c`
example : ¬ Spec.Matches σcs (.cat ⟨0, 9⟩ ([.lit ⟨0, 1⟩ ['x'] false] ++ [.rep ⟨1, 6⟩ bodyW_A 1 (some 1)] ++ [.lit ⟨7, 2⟩ ['.', 'c'] false]))
    "xa/b.c".toList := fun h =>
  absurd ((matchB_iff _ _ _).mpr ((specRe_correct σcs rfl
    (Tok.cat ⟨0, 9⟩ ([Tok.lit ⟨0, 1⟩ ['x'] false] ++ bodyW_A.concatenation ++ [Tok.lit ⟨7, 2⟩ ['.', 'c'] false]))
    "xa/b.c".toList).mpr
    ((wrap_rep ⟨true, true⟩ [.lit ⟨0, 1⟩ ['x'] false] [.lit ⟨7, 2⟩ ['.', 'c'] false] ⟨1, 6⟩ bodyW_A
      (by simp [bodyW_A, Tok.concatenation]) _).mp h))) (by decide)

/-- `a/**/{b,[c-e]?}<x*:1,2>` as parsed -/
def tF_A : Tok :=
  .cat ⟨0, 23⟩ [.lit ⟨0, 1⟩ ['a'] false, .tree ⟨1, 4⟩ true,
    .alt ⟨5, 10⟩ [.cat ⟨6, 1⟩ [.lit ⟨6, 1⟩ ['b'] false],
      .cat ⟨8, 6⟩ [.cls ⟨8, 5⟩ false [.rng 'c' 'e'], .one ⟨13, 1⟩]],
    .rep ⟨15, 8⟩ (.cat ⟨16, 2⟩ [.lit ⟨16, 1⟩ ['x'] false, .zom ⟨17, 1⟩ false]) 1 (some 2)]

example : parse "a/**/{b,[c-e]?}<x*:1,2>".toList = .ok tF_A := by rfl

-- foldMap_shape: glob `a/**/{b,[c-e]?}<x*:1,2>`, fold_map with `span -> span.start`: same tree once annotations are dropped
example : (FoldMap.foldMap Span.start (FoldMap.ofTok tF_A)).map (FoldMap.pmap fun _ => ()) =
    .ok (FoldMap.pmap (fun _ => ()) (FoldMap.ofTok tF_A)) :=
  FoldMap.foldMap_shape Span.start (FoldMap.ofTok tF_A) (by decide)

-- ... and the right-hand side is this concrete annotation-free tree (bounds 1,2 kept)
example : FoldMap.pmap (fun _ => ()) (FoldMap.ofTok tF_A) =
    .cat () [.leaf () (.lit ['a'] false), .leaf () (.tree true),
      .alt () [.cat () [.leaf () (.lit ['b'] false)],
        .cat () [.leaf () (.cls false [.rng 'c' 'e']), .leaf () .one]],
      .rep () (.cat () [.leaf () (.lit ['x'] false), .leaf () (.zom false)]) 1 (some 2)] := by rfl

end Wax.NonVacuity.C07

namespace Wax.NonVacuity.C11
open Wax

/-- case folding of ASCII letters (a real, non-trivial `ceq`), `.` matches a new line -/
def aSem_A : Sem :=
  { ceq := fun a b => a == b || (a.isAlpha && b.isAlpha && a.toLower == b.toLower), dotall := true }
/-- "has casing" = is an ASCII letter -/
def aCas_A : Casing := ⟨Char.isAlpha⟩

theorem aSem_refl_A : CeqRefl aSem_A := fun a => by simp [aSem_A]

theorem aCas_ok_A : CasingOk aSem_A aCas_A := by
  intro a b h hne
  simp only [aSem_A, Bool.or_eq_true, Bool.and_eq_true, beq_iff_eq] at h
  rcases h with h | h
  · exact absurd h hne
  · exact h.1.1

-- the folding is not the identity: `B` and `b` are related
example : aSem_A.ceq 'B' 'b' = true ∧ aCas_A.hasCasing 'b' = true ∧ aCas_A.hasCasing '1' = false := by decide

/-- `(?i)1-2(?-i)b/[c]<x:2>{d,d}` as parsed: case-insensitive literal without casing, a literal with
    casing compared exactly, separator, one-character class, exact repetition, equal branches -/
def tT_A : Tok :=
  .cat ⟨0, 27⟩ [.lit ⟨0, 7⟩ ['1', '-', '2'] true, .lit ⟨7, 6⟩ ['b'] false, .sep ⟨13, 1⟩,
    .cls ⟨14, 3⟩ false [.chr 'c'],
    .rep ⟨17, 5⟩ (.cat ⟨18, 1⟩ [.lit ⟨18, 1⟩ ['x'] false]) 2 (some 2),
    .alt ⟨22, 5⟩ [.cat ⟨23, 1⟩ [.lit ⟨23, 1⟩ ['d'] false], .cat ⟨25, 1⟩ [.lit ⟨25, 1⟩ ['d'] false]]]

example : parse "(?i)1-2(?-i)b/[c]<x:2>{d,d}".toList = .ok tT_A := by rfl

def fsT_A : List Frag := [.nom ['1', '-', '2', 'b'], .str ['/'], .nom ['c', 'x'], .nom ['x', 'd']]

theorem tT_text_A : textTok aCas_A tT_A = .inv fsT_A := by decide

example : fragsToStr fsT_A = "1-2b/cxxd".toList := by decide

-- text_unique: glob `(?i)1-2(?-i)b/[c]<x:2>{d,d}` reports Invariant("1-2b/cxxd"): every match is that text
example : ∀ w, Spec.Matches aSem_A tT_A w → w = "1-2b/cxxd".toList :=
  fun w hm => text_unique aSem_A aCas_A aCas_ok_A tT_A fsT_A tT_text_A w hm

-- text_unique: in particular `1-2B/cxxd` is not matched (the `b` is compared exactly)
example : ¬ Spec.Matches aSem_A tT_A "1-2B/cxxd".toList := fun hm =>
  absurd (text_unique aSem_A aCas_A aCas_ok_A tT_A fsT_A tT_text_A _ hm) (by decide)

-- text_matches: the same glob matches its invariant text `1-2b/cxxd`
example : Spec.Matches aSem_A tT_A "1-2b/cxxd".toList :=
  text_matches aSem_A aCas_A aSem_refl_A tT_A fsT_A (by decide) tT_text_A

-- text_exact: both directions, every path
example : ∀ w, Spec.Matches aSem_A tT_A w ↔ w = "1-2b/cxxd".toList :=
  text_exact aSem_A aCas_A aSem_refl_A aCas_ok_A tT_A fsT_A (by decide) tT_text_A

-- text_exact_compiled: the compiled program of the same glob (in F01) accepts exactly `1-2b/cxxd`
example : ∀ w, Matches aSem_A (encodeTop tT_A) w ↔ w = "1-2b/cxxd".toList :=
  text_exact_compiled aSem_A rfl aCas_A aSem_refl_A aCas_ok_A tT_A fsT_A (by decide) (by decide) tT_text_A

-- text_exact_compiled: consequence, the program rejects `1-2b/cxd` (one `x` only)
example : ¬ Matches aSem_A (encodeTop tT_A) "1-2b/cxd".toList := fun h =>
  absurd ((text_exact_compiled aSem_A rfl aCas_A aSem_refl_A aCas_ok_A tT_A fsT_A (by decide) (by decide) tT_text_A _).mp h)
    (by decide)

end Wax.NonVacuity.C11

namespace Wax.NonVacuity.C12
open Wax

/-- `</{a,b?}:1,2>` as parsed: a repetition whose body starts with a separator, alternation inside -/
def tR_A : Tok :=
  .cat ⟨0, 13⟩ [.rep ⟨0, 13⟩ (.cat ⟨1, 7⟩ [.sep ⟨1, 1⟩,
    .alt ⟨2, 6⟩ [.cat ⟨3, 1⟩ [.lit ⟨3, 1⟩ ['a'] false],
      .cat ⟨5, 2⟩ [.lit ⟨5, 1⟩ ['b'] false, .one ⟨6, 1⟩]]]) 1 (some 2)]

theorem tR_parse_A : parse "</{a,b?}:1,2>".toList = .ok tR_A := by rfl

example : shaped tR_A = true ∧ hasRoot tR_A = .always ∧ checkS tR_A = true := by decide

-- root_sound: glob `</{a,b?}:1,2>` reports has_root = Always: every matched path begins with `/`
example : ∀ w, Spec.Matches σcs tR_A w → Rooted w :=
  root_sound σcs tR_A (by decide) (by decide)

-- root_sound: so the relative path `a/bx` is not matched
example : ¬ Spec.Matches σcs tR_A "a/bx".toList := fun h => by
  obtain ⟨r, hr⟩ := root_sound σcs tR_A (by decide) (by decide) _ h
  cases hr

-- root_sound: the premise is not empty, `/a/bx` is matched (two iterations)
example : Spec.Matches σcs tR_A "/a/bx".toList :=
  (specRe_correct σcs rfl tR_A _).mp ((matchB_iff _ _ _).mp (by decide))

-- build_root_sound: expression `</{a,b?}:1,2>` parses, is accepted by the rule checker, reports Always
example : ∀ w, Spec.Matches σcs tR_A w → Rooted w :=
  build_root_sound σcs "</{a,b?}:1,2>".toList tR_A tR_parse_A (by decide) (by decide)

/-- `/{a,b*}/**` as parsed -/
def tC_A : Tok :=
  .cat ⟨0, 10⟩ [.sep ⟨0, 1⟩, .alt ⟨1, 6⟩ [.cat ⟨2, 1⟩ [.lit ⟨2, 1⟩ ['a'] false],
    .cat ⟨4, 2⟩ [.lit ⟨4, 1⟩ ['b'] false, .zom ⟨5, 1⟩ false]], .tree ⟨7, 3⟩ true]

theorem tC_parse_A : parse "/{a,b*}/**".toList = .ok tC_A := by rfl

-- build_root_sound: expression `/{a,b*}/**` (alternation, `*`, tree wildcard)
example : ∀ w, Spec.Matches σcs tC_A w → Rooted w :=
  build_root_sound σcs "/{a,b*}/**".toList tC_A tC_parse_A (by decide) (by decide)

-- build_root_sound_compiled: the compiled program of `/{a,b*}/**` (in F01) accepts only rooted paths
example : ∀ w, Matches σcs (encodeTop tC_A) w → Rooted w :=
  build_root_sound_compiled σcs rfl "/{a,b*}/**".toList tC_A tC_parse_A (by decide) (by decide) (by decide)

-- build_root_sound_compiled: the program does accept something, `/bcd/e/f`, and that path is rooted
example : Rooted "/bcd/e/f".toList :=
  build_root_sound_compiled σcs rfl "/{a,b*}/**".toList tC_A tC_parse_A (by decide) (by decide) (by decide)
    _ ((matchB_iff _ _ _).mp (by decide))

/-! the `IsRooting` fold of `has_root` as an instance of the generic machine -/
inductive RB_A where | alt | cat | rep (unb : Bool)

def isAlt_A : RB_A → Bool | .alt => true | _ => false

/-- leaves carry their own verdict; a disjunctive branch reduces with `certainty`, a conjunctive
    one takes the first term (exactly `rootBranches` / `rootFirst` / the `rep` arm of `rootTok`) -/
def rootFold_A : FoldMachine.Fold When RB_A When where
  term := id
  init := fun _ => none
  fold := fun b ts =>
    match b, ts with
    | _, [] => none
    | .alt, x :: xs => some (xs.foldl When.certainty x)
    | .cat, x :: _ => some x
    | .rep unb, x :: _ => some (if unb then x.and .sometimes else x)
  finalize := fun _ x => x

/-- the shape of `{/a,/b*}<c:1,2>`: cat [alt [cat [sep, lit], cat [sep, lit, zom]], rep [cat [lit]]] -/
def rootTree_A : FoldMachine.T When RB_A :=
  .branch .cat [.branch .alt [.branch .cat [.leaf .always, .leaf .never],
      .branch .cat [.leaf .always, .leaf .never, .leaf .never]],
    .branch (.rep false) [.branch .cat [.leaf .never]]]

-- runSel_eq_sfold: the `Starting` loop on the tree of `{/a,/b*}<c:1,2>` with the `IsRooting` fold
example : FoldMachine.runSel rootFold_A (FoldMachine.starting isAlt_A)
      (FoldMachine.nodes (FoldMachine.prune (FoldMachine.starting isAlt_A) rootTree_A) + 1) [(rootTree_A, 0)] [] =
    FoldMachine.sfold rootFold_A (FoldMachine.prune (FoldMachine.starting isAlt_A) rootTree_A) :=
  FoldMachine.runSel_eq_sfold rootFold_A (FoldMachine.starting isAlt_A) (FoldMachine.starting_natural isAlt_A) rootTree_A

-- ... the pruned tree keeps the first child of each concatenation and both branches (6 nodes), and
-- the loop (fuel 7) answers Always, which is `rootTok` of that glob
example : FoldMachine.prune (FoldMachine.starting isAlt_A) rootTree_A =
      .branch .cat [.branch .alt [.branch .cat [.leaf .always], .branch .cat [.leaf .always]]] := by rfl
example : FoldMachine.runSel rootFold_A (FoldMachine.starting isAlt_A) 7 [(rootTree_A, 0)] [] = some .always := by
  have h := FoldMachine.runSel_eq_sfold rootFold_A (FoldMachine.starting isAlt_A)
    (FoldMachine.starting_natural isAlt_A) rootTree_A
  have hn : FoldMachine.nodes (FoldMachine.prune (FoldMachine.starting isAlt_A) rootTree_A) + 1 = 7 := by decide
  rw [hn] at h
  rw [h]; decide
example : rootTok (.cat ⟨0, 15⟩ [.alt ⟨0, 8⟩ [.cat ⟨1, 2⟩ [.sep ⟨1, 1⟩, .lit ⟨2, 1⟩ ['a'] false],
      .cat ⟨4, 3⟩ [.sep ⟨4, 1⟩, .lit ⟨5, 1⟩ ['b'] false, .zom ⟨6, 1⟩ false]],
    .rep ⟨8, 7⟩ (.cat ⟨9, 1⟩ [.lit ⟨9, 1⟩ ['c'] false]) 1 (some 2)]) = some .always := by decide

-- runSel_eq_sfold: the `Ending` loop on the same tree looks at the last children only and answers Never
example : FoldMachine.runSel rootFold_A (FoldMachine.ending isAlt_A) 5 [(rootTree_A, 0)] [] = some .never := by
  have h := FoldMachine.runSel_eq_sfold rootFold_A (FoldMachine.ending isAlt_A)
    (FoldMachine.ending_natural isAlt_A) rootTree_A
  have hn : FoldMachine.nodes (FoldMachine.prune (FoldMachine.ending isAlt_A) rootTree_A) + 1 = 5 := by decide
  rw [hn] at h
  rw [h]; decide

end Wax.NonVacuity.C12

namespace Wax.NonVacuity.Findings_A
open Wax

/-! (1) `foldMap_shape` compares the trees *after* `pmap`, and `pmap` itself reorders unordered
    bounds (`normBounds`).  So the theorem holds, unchanged, for a tree whose bounds `fold_map`
    swaps: "nothing else changes" is "nothing else changes up to the order of the two bounds".
    Such a tree is what `<a:3,1>` parses to; the rule checker rejects it, so no built glob has it. -/
example :
    (FoldMap.foldMap id FoldMap.exBad).map (FoldMap.pmap fun _ => ()) =
      .ok (FoldMap.pmap (fun _ => ()) FoldMap.exBad) ∧
    FoldMap.foldMap id FoldMap.exBad ≠ .ok FoldMap.exBad ∧
    FoldMap.pmap (fun _ => ()) FoldMap.exBad =
      .cat () [.rep () (.leaf () (.lit ['a'] false)) 1 (some 3)] :=
  ⟨FoldMap.foldMap_shape id FoldMap.exBad (by decide), FoldMap.foldMap_id_unordered.2, rfl⟩

example : parse "<a:3,1>".toList =
      .ok (.cat ⟨0, 7⟩ [.rep ⟨0, 7⟩ (.cat ⟨1, 1⟩ [.lit ⟨1, 1⟩ ['a'] false]) 3 (some 1)]) ∧
    checkS (.cat ⟨0, 7⟩ [.rep ⟨0, 7⟩ (.cat ⟨1, 1⟩ [.lit ⟨1, 1⟩ ['a'] false]) 3 (some 1)]) = false :=
  ⟨by rfl, by decide⟩

/-! (2) the hypothesis `CasingOk` of `text_unique` / `text_exact` / `text_exact_compiled` is FALSE
    for the concrete tables the executable driver runs (`drvSem`, `drvCasing`): `À` (U+00C0) folds
    to `à` (U+00E0) but "has no casing" because `à` is outside the driver alphabet.  The C11
    theorems therefore say nothing about `drvSem`/`drvCasing` as Lean objects (Wax/Unicode.lean
    says the instance is exact on the driver alphabet only). -/
example : ¬ CasingOk drvSem drvCasing := fun h =>
  absurd (h (Char.ofNat 0xc0) (Char.ofNat 0xe0) (by decide) (by decide)) (by decide)

/-! (3) `rep_unroll` needs `1 ≤ lo` and the law is false without it: for `<a:0,1>/**` the empty
    path is in the documented language (zero iterations, then `/**` after "something") but in none
    of the written-out patterns `/**`, `a/**`. -/
example :
    Spec.Matches σcs (.cat ⟨0, 10⟩ ([] ++ [.rep ⟨0, 7⟩ (.cat ⟨1, 1⟩ [.lit ⟨1, 1⟩ ['a'] false]) 0 (some 1)] ++
      [.tree ⟨7, 3⟩ true])) [] ∧
    ¬ ∃ n, 0 ≤ n ∧ (∀ h, some 1 = some h → n ≤ h) ∧
      Spec.Matches σcs (.cat ⟨0, 10⟩ ([] ++
        repeatList (Tok.cat ⟨1, 1⟩ [.lit ⟨1, 1⟩ ['a'] false]).concatenation n ++ [.tree ⟨7, 3⟩ true])) [] := by
  refine ⟨(specRe_correct σcs rfl _ _).mp ((matchB_iff _ _ _).mp (by decide)), ?_⟩
  rintro ⟨n, _, hn, hm⟩
  have hn1 : n ≤ 1 := hn 1 rfl
  have h01 : n = 0 ∨ n = 1 := by omega
  rcases h01 with rfl | rfl
  · exact absurd ((matchB_iff _ _ _).mpr ((specRe_correct σcs rfl
      (Tok.cat ⟨0, 10⟩ [Tok.tree ⟨7, 3⟩ true]) []).mpr hm)) (by decide)
  · exact absurd ((matchB_iff _ _ _).mpr ((specRe_correct σcs rfl
      (Tok.cat ⟨0, 10⟩ [Tok.lit ⟨1, 1⟩ ['a'] false, Tok.tree ⟨7, 3⟩ true]) []).mpr hm)) (by decide)

end Wax.NonVacuity.Findings_A

/-! ## ===== batch B ===== -/
namespace Wax.NonVacuity.C02
open Wax Wax.Walk Wax.WalkTree Wax.Path

/-- the leading component `[ab]*` of `[ab]*/{c,d?}` with the span of the separator after it -/
def comps : List (List Tok × Span) :=
  [([.cls ⟨0, 4⟩ false [.chr 'a', .chr 'b'], .zom ⟨4, 1⟩ false], ⟨5, 1⟩)]
/-- the last component `{c,d?}` -/
def last : List Tok :=
  [.alt ⟨6, 6⟩ [.cat ⟨7, 1⟩ [.lit ⟨7, 1⟩ ['c'] false],
    .cat ⟨9, 2⟩ [.lit ⟨9, 1⟩ ['d'] false, .one ⟨10, 1⟩]]]
/-- what `[ab]*/{c,d?}` parses to -/
def glob : Tok := .cat ⟨0, 12⟩ (joinSep comps (last ++ []))

set_option maxRecDepth 100000 in
theorem glob_parse : parse "[ab]*/{c,d?}".toList = .ok glob := by rfl

/-- the component programs the crate compiles for the leading components -/
def gs : List (Str → Bool) := progFns exSem ((comps.map (·.1)).map componentProgram)
/-- the complete program the crate compiles -/
def M (w : Str) : Bool := (encodeTop glob).matchB exSem w

theorem gs_ok : ProgsOk exSem true comps gs := progsOk_compiled exSem rfl comps true (by decide)

theorem M_spec (w : Str) : M w = true ↔ SMs exSem ⟨true, true⟩ (joinSep comps last) w :=
  compiled_complete_iff exSem rfl (.cat ⟨0, 12⟩ (joinSep comps last)) (by decide) 0 w

/-- `ax/{c, dz, dq/{c}, w (broken link), u (unreadable)}` and `zz/{c, ax/{c}}` (`zz` is rejected by
    the program of `[ab]*`) -/
def tree1 : Node :=
  .dir "ax".toList [.file "c".toList, .file "dz".toList, .dir "dq".toList [.file "c".toList],
    .errChild "w".toList, .dir "u".toList [.errHere]]
def tree2 : Node :=
  .dir "zz".toList [.file "c".toList, .dir "ax".toList [.file "c".toList]]

-- globWalk_exact_partial: `[ab]*/{c,d?}` (parsed), programs compiled by the model, verdict "some name is rejected by its program", tree `ax/{c,dz,dq/{c},w(broken),u(unreadable)}`: pruned walk = unpruned walk = `ax/c, ax/dz, ax/dq`
example :
    okKept (fun w => !M w) (visit (fun e => hasBad gs e.path) [] tree1) =
      [⟨["ax".toList, "c".toList], false⟩, ⟨["ax".toList, "dz".toList], false⟩,
       ⟨["ax".toList, "dq".toList], true⟩] :=
  (globWalk_exact_partial exSem exSem_sepIsolated comps last gs gs_ok M M_spec (hasBad gs)
    (hasBad_admissible gs).1 (hasBad_admissible gs).2 tree1
    (by simp [tree1, NamesOk, NamesOkL, SepFree])).trans (by decide)

-- globWalk_exact_partial: same glob, tree `zz/{c, ax/{c}}`: the verdict fires at `zz`, the walk reads 1 item instead of 4, and nothing matching is lost (`zz/ax/c` is not matched)
example :
    okKept (fun w => !M w) (visit (fun e => hasBad gs e.path) [] tree2) =
        okKept (fun w => !M w) (visit never [] tree2) ∧
    (visit (fun e => hasBad gs e.path) [] tree2).length = 1 ∧ (visit never [] tree2).length = 4 :=
  ⟨globWalk_exact_partial exSem exSem_sepIsolated comps last gs gs_ok M M_spec (hasBad gs)
    (hasBad_admissible gs).1 (hasBad_admissible gs).2 tree2
    (by simp [tree2, NamesOk, NamesOkL, SepFree]), by decide, by decide⟩

/-- the documented language of a token list in any context, decided by the verified matcher -/
theorem sms_dec (c : Ctx) (ts : List Tok) (w : Str) :
    SMs exSem c ts w ↔ (Re.cat (specList c ts)).matchB exSem w = true := by
  rw [matchB_iff, matches_cat, specList_correct exSem rfl]

-- prune_sound: `[ab]*/{c,d?}` (parsed) against the path `zz/c/d1`: its first piece `zz` is not in the language of `[ab]*`, so the glob does not match the path
example : ¬ Spec.Matches exSem glob "zz/c/d1".toList :=
  prune_sound exSem exSem_sepIsolated ⟨true, true⟩ comps.head!.1 last ⟨5, 1⟩ (by decide)
    "zz/c/d1".toList (fun h => absurd ((sms_dec _ _ _).mp h) (by decide))

-- (the hypothesis of prune_sound is not always true: the first piece of `ax/c` is in the language of `[ab]*`)
example : SMs exSem ⟨true, false⟩ comps.head!.1 ("ax/c".toList.takeWhile (fun ch => ch != '/')) :=
  (sms_dec _ _ _).mpr (by decide)

/-- the programs the crate compiles for `[ab]*/{c,d?}` are sound -/
theorem glob_sound (pivot : Nat) : ProgramsSound exSem (compiledProgram glob pivot) :=
  programsSound_compiled exSem exSem_sepIsolated rfl ⟨0, 12⟩ comps last [] (by decide) (by decide)
    (Or.inl rfl) (by decide) pivot

/-- below the root `r`: `ax/{c, dz, e, dq/{c -> …}}`, `zz/{c, ax/{c}}`, `b`, an unreadable directory
    `u`, a broken link `w` -/
def forest : List WNode :=
  [.dir "ax".toList [.leaf "c".toList .f, .leaf "dz".toList .f, .leaf "e".toList .f,
      .dir "dq".toList [.leaf "c".toList .l]],
   .dir "zz".toList [.leaf "c".toList .f, .dir "ax".toList [.leaf "c".toList .f]],
   .leaf "b".toList .f, .dir "u".toList [.errHere], .errChild "w".toList false]

-- glob_walk_filtrates_exact: `[ab]*/{c,d?}` (parsed, compiled by the model) walked from `r` over the forest above: the machine + closure hand out exactly `ax/c`, `ax/dz`, `ax/dq`
example :
    filtrates (globPipeline exSem "r".toList (compiledProgram glob 0))
        (run 0 none (globPipeline exSem "r".toList (compiledProgram glob 0)).cancels
          (stackSize [⟨[], forest⟩]) [⟨[], forest⟩]) =
      [⟨["ax".toList, "c".toList], false⟩, ⟨["ax".toList, "dz".toList], false⟩,
       ⟨["ax".toList, "dq".toList], true⟩] :=
  (glob_walk_filtrates_exact exSem (compiledProgram glob 0) (glob_sound 0) rfl "r".toList forest
    (by decide)).trans (by decide)

-- (in that walk the closure does prune: `zz` and `u` are cancelled, 4 of the 14 items are never read)
example :
    (globPipeline exSem "r".toList (compiledProgram glob 0)).cancels ⟨["zz".toList], .d⟩ = true ∧
    (run 0 none (globPipeline exSem "r".toList (compiledProgram glob 0)).cancels
        (stackSize [⟨[], forest⟩]) [⟨[], forest⟩]).length = 10 ∧
    (run 0 none never (stackSize [⟨[], forest⟩]) [⟨[], forest⟩]).length = 14 := by decide

-- root_link_cannot_be_cancelled: `ReadFile` walk started from the link `r -> {a/{x}, y}`; the verdict that discards everything and the verdict that spares the root give the same walk: the children of the root link are read
example :
    rootView false false (.linkDir ['r'] [.dir ['a'] [.file ['x']], .file ['y']]) =
      some (.link (viewList false [.dir ['a'] [.file ['x']], .file ['y']])) ∧
    walkItems 0 none always (.link (viewList false [.dir ['a'] [.file ['x']], .file ['y']])) =
      [.ok ⟨[], .l⟩, .ok ⟨[['a']], .d⟩, .ok ⟨[['y']], .f⟩] :=
  ⟨rfl, (root_link_cannot_be_cancelled 0 none always (fun e => !e.names.isEmpty) _
    (fun e he => by cases e with | mk ns k => cases ns with
      | nil => exact absurd rfl he
      | cons _ _ => rfl)).trans (by decide)⟩

/-- what `a/*/b*/**` (`exGlob2`) compiles to is sound -/
theorem exGlob2_sound : ProgramsSound exSem (compiledProgram exGlob2 1) :=
  programsSound_compiled exSem exSem_sepIsolated rfl ⟨0, 9⟩ exComps2 exLast2 [.tree ⟨6, 3⟩ true]
    (by decide) (by decide) (Or.inr ⟨_, _, _, rfl⟩) (by decide) 1

/-- `Glob::anchor` of the model: `a/*/b*/**` from the base `r` is walked from `r/a/` with pivot 1 -/
theorem exGlob2_anchor : anchor ⟨fun _ => false⟩ exGlob2 "r".toList = ("r/a/".toList, 1) := by decide

/-- below `r/a/`: `x/{bb, cc/{b1}, bd/{q -> …}}`, `by`, an unreadable directory `z` -/
def tree3 : RootView :=
  .dir [.dir "x".toList [.leaf "bb".toList .f, .dir "cc".toList [.leaf "b1".toList .f],
      .dir "bd".toList [.leaf "q".toList .l]],
    .leaf "by".toList .f, .dir "z".toList [.errHere]]

/-- the closure of `a/*/b*/**`, silenced on the entries above walkdir depth 3 -/
def lazyVerdict (e : Walk.Entry) : Bool :=
  (globPipeline exSem "r/a/".toList (compiledProgram exGlob2 1)).cancels e && decide (3 ≤ e.names.length)

-- glob_prune_less_same_matches: `a/*/b*/**` from `r/a/` (its anchor for base `r`, pivot 1) over `x/{bb,cc/{b1},bd/{q}}, by, z(unreadable)`; a verdict that prunes only from depth 3 on (so it reads `x/cc`, which the closure cancels) finds the same matches as the closure: `x/bb`, `x/bd`, `x/bd/q`
example :
    (okEntries (walkItems 0 none lazyVerdict tree3)).filter
        (fun e => (compiledProgram exGlob2 1).complete.matchB exSem (relOf (["a".toList] ++ e.names))) =
      (okEntries (walkItems 0 none
          (globPipeline exSem "r/a/".toList (compiledProgram exGlob2 1)).cancels tree3)).filter
        (fun e => (compiledProgram exGlob2 1).complete.matchB exSem (relOf (["a".toList] ++ e.names))) ∧
    (okEntries (walkItems 0 none lazyVerdict tree3)).filter
        (fun e => (compiledProgram exGlob2 1).complete.matchB exSem (relOf (["a".toList] ++ e.names))) =
      [⟨["x".toList, "bb".toList], .f⟩, ⟨["x".toList, "bd".toList], .d⟩,
        ⟨["x".toList, "bd".toList, "q".toList], .l⟩] ∧
    (walkItems 0 none lazyVerdict tree3).length = 10 ∧
    (walkItems 0 none (globPipeline exSem "r/a/".toList (compiledProgram exGlob2 1)).cancels tree3).length
      = 9 :=
  ⟨glob_prune_less_same_matches exSem (compiledProgram exGlob2 1) exGlob2_sound "r/a/".toList
      ["a".toList] rfl lazyVerdict
      (fun e h => by simp only [lazyVerdict, Bool.and_eq_true] at h; exact h.1) tree3
      (by decide) (by decide),
    by decide, by decide, by decide⟩

end Wax.NonVacuity.C02

namespace Wax.NonVacuity.C03
open Wax Wax.Walk Wax.WalkTree

/-- `{**/*.o,**/t/**}` as parsed: the first alternative is not exhaustive (entries it matches are
    discarded as files), the second is (`Always`: discarded as trees) -/
def notTok : Tok :=
  .cat ⟨0, 16⟩ [.alt ⟨0, 16⟩
    [.cat ⟨1, 6⟩ [.tree ⟨1, 3⟩ false, .zom ⟨4, 1⟩ false, .lit ⟨5, 2⟩ ['.', 'o'] false],
     .cat ⟨8, 7⟩ [.tree ⟨8, 3⟩ false, .lit ⟨11, 1⟩ ['t'] false, .tree ⟨12, 3⟩ true]]]

set_option maxRecDepth 100000 in
theorem notTok_parse : parse "{**/*.o,**/t/**}".toList = .ok notTok := by rfl

theorem notTok_frag : ∀ a ∈ intoAlternatives notTok, alwaysExhaustive a = true →
    descFrag a = true ∧ 1 ≤ minLenTop a.concatenation := by
  intro a ha hx
  have := List.all_eq_true.mp (show notWalkFrag notTok = true by decide) a
    (List.mem_filter.mpr ⟨ha, hx⟩)
  simpa using this

/-- `prunes` (residue `Tree`) is closed under descending, by `prunes_closed` -/
theorem notTok_closed (a q : List Str) (h : prunes σcs notTok (relOf a) = true) :
    prunes σcs notTok (relOf (a ++ q)) = true :=
  prunes_closed σcs rfl notTok (by decide)
    (fun b hb hx w x hm => descFrag_sound σcs b (notTok_frag b hb hx).1 hx w x hm)
    (fun b hb hx hm => by
      have h1 := (notTok_frag b hb hx).2
      have h2 := sms_minLenTop σcs (show SMs σcs ⟨true, true⟩ b.concatenation [] from hm)
      simp only [List.length_nil] at h2
      omega) a q h

/-- `s/{m.o, k, t/{k, q/{z.o}}, d/{t, u}}` -/
def tree : Node :=
  .dir ['s'] [.file "m.o".toList, .file ['k'], .dir ['t'] [.file ['k'], .dir ['q'] [.file "z.o".toList]],
    .dir ['d'] [.file ['t'], .file ['u']]]

-- not_exact: the negation `{**/*.o,**/t/**}` (parsed, partitioned and compiled by the model): P = "residue is File or Tree", E = "residue is Tree"; over `s/{m.o,k,t/{k,q/{z.o}},d/{t,u}}` cancelling at Tree residue leaves exactly `s`, `s/k`, `s/d`, `s/d/u`
example :
    okKept (discards σcs notTok) (visit (fun e => prunes σcs notTok (relOf e.path)) [] tree) =
      [⟨[['s']], true⟩, ⟨[['s'], ['k']], false⟩, ⟨[['s'], ['d']], true⟩, ⟨[['s'], ['d'], ['u']], false⟩] :=
  (not_exact (discards σcs notTok) (prunes σcs notTok) (prunes_imp_discards σcs notTok)
    notTok_closed tree []).trans (by decide)

-- (the two predicates differ, and the pruned walk reads fewer items: 7 instead of 10)
example : discards σcs notTok "s/m.o".toList = true ∧ prunes σcs notTok "s/m.o".toList = false ∧
    prunes σcs notTok "s/t".toList = true ∧
    (visit (fun e => prunes σcs notTok (relOf e.path)) [] tree).length = 7 ∧
    (visit never [] tree).length = 10 := by decide

/-- `**/{a,t?}/**` as parsed -/
def treeTok : Tok :=
  .cat ⟨0, 12⟩ [.tree ⟨0, 3⟩ false,
    .alt ⟨3, 6⟩ [.cat ⟨4, 1⟩ [.lit ⟨4, 1⟩ ['a'] false], .cat ⟨6, 2⟩ [.lit ⟨6, 1⟩ ['t'] false, .one ⟨7, 1⟩]],
    .tree ⟨9, 3⟩ true]

set_option maxRecDepth 100000 in
theorem treeTok_parse : parse "**/{a,t?}/**".toList = .ok treeTok := by rfl

/-- the program the crate compiles for it -/
def M (w : Str) : Bool := (encodeTop treeTok).matchB σcs w

theorem M_spec (w : Str) : M w = true ↔ Spec.Matches σcs treeTok w :=
  (matchB_iff _ _ _).trans (encode_eq_spec_partial σcs rfl treeTok (by decide) w)

/-- `s/{k, t1/{k}, a/{q/{z}}, d/{a, u, tt/{k}}}` -/
def tree2 : Node :=
  .dir ['s'] [.file ['k'], .dir ['t', '1'] [.file ['k']], .dir ['a'] [.dir ['q'] [.file ['z']]],
    .dir ['d'] [.file ['a'], .file ['u'], .dir ['t', 't'] [.file ['k']]]]

-- not_walk_exact: the negation `**/{a,t?}/**` (parsed; M = the compiled program, tied to the documented language by the C01 theorem; descendant-closed by endsInTree_descClosed): over `s/{k,t1/{k},a/{q/{z}},d/{a,u,tt/{k}}}` the pruned walk yields exactly `s`, `s/k`, `s/d`, `s/d/u`
example :
    okKept M (visit (fun e => M (relOf e.path)) [] tree2) =
      [⟨[['s']], true⟩, ⟨[['s'], ['k']], false⟩, ⟨[['s'], ['d']], true⟩, ⟨[['s'], ['d'], ['u']], false⟩] :=
  (not_walk_exact σcs treeTok M M_spec (fun w x h => endsInTree_descClosed σcs treeTok rfl w h x)
    (by decide) tree2 []).trans (by decide)

-- not_walk_exact_of_always: the same negation; its last token is the tree wildcard and the fold says `Always`
example :
    okKept M (visit (fun e => M (relOf e.path)) [] tree2) =
      [⟨[['s']], true⟩, ⟨[['s'], ['k']], false⟩, ⟨[['s'], ['d']], true⟩, ⟨[['s'], ['d'], ['u']], false⟩] ∧
    (visit (fun e => M (relOf e.path)) [] tree2).length = 8 ∧ (visit never [] tree2).length = 12 :=
  ⟨(not_walk_exact_of_always σcs ⟨0, 12⟩ treeTok.concatenation (.tree ⟨9, 3⟩ true) rfl (Or.inl rfl)
    rfl M M_spec (by decide) tree2 []).trans (by decide), by decide, by decide⟩

-- residue_tree_matches_partial: `not("{**/*.o,**/t/**}")` on `s/t/q`: the residue is Tree, so an alternative of the exhaustive bucket (here `**/t/**`) matches `s/t/q`
example : ∃ a ∈ exBucket notTok, Spec.Matches σcs a "s/t/q".toList :=
  residue_tree_matches_partial σcs rfl notTok (by decide) "s/t/q".toList (by decide)

-- (the exhaustive bucket is not everything: `**/*.o` is in the other one)
example : exBucket notTok =
      [.cat ⟨8, 7⟩ [.tree ⟨8, 3⟩ false, .lit ⟨11, 1⟩ ['t'] false, .tree ⟨12, 3⟩ true]] ∧
    (nxBucket notTok).length = 1 := ⟨rfl, rfl⟩

end Wax.NonVacuity.C03

namespace Wax.NonVacuity.C13
open Wax Wax.Walk Wax.WalkTree Wax.NonVacuity.C02

/-- `[ab]*/{c,d?}` from `r`, then `not("{**/*.o,**/t/**}")`, then `filter_entry(dz ↦ File, zz ↦ Tree)` -/
def π₁ : Pipeline :=
  ⟨exSem, "r".toList, some (compiledProgram glob 0),
    [.not (notProgram C03.notTok), .filter [("dz".toList, false), ("zz".toList, true)]]⟩
/-- the same without the File rule -/
def π₂ : Pipeline :=
  ⟨exSem, "r".toList, some (compiledProgram glob 0),
    [.not (notProgram C03.notTok), .filter [("zz".toList, true)]]⟩

-- cancel_iff_becomes_tree: the verdicts the three combinators of π₁ give on the directory `zz` (glob closure: Tree, not: keep, filter_entry: Tree) cancel the walk exactly once, so the entry ends as tree residue
example :
    (π₁.stack ⟨["zz".toList], .d⟩).map (· .filtrate) = [.tree, .keep, .tree] ∧
    (feed applyVerdict .filtrate [.tree, .keep, .tree]).1 = .tree :=
  ⟨by decide, (cancel_iff_becomes_tree .filtrate [.tree, .keep, .tree] (by decide)).mp (by decide)⟩

-- cancel_iff_becomes_tree, other direction and other start: node residue (discarded as a file by an inner combinator) that a later combinator discards as a tree: one cancellation; and verdicts file, keep: not a tree, so no cancellation
example : (feed applyVerdict .node [.file, .tree, .file]).2 = 1 ∧
    ¬ (feed applyVerdict .filtrate [.file, .keep]).2 = 1 :=
  ⟨(cancel_iff_becomes_tree .node [.file, .tree, .file] (by decide)).mpr (by decide),
   fun h => absurd ((cancel_iff_becomes_tree .filtrate [.file, .keep] (by decide)).mp h) (by decide)⟩

-- run_fuel: the walkdir machine with `min_depth = 1`, `max_depth = 2`, driven by the closure of `[ab]*/{c,d?}` over the forest of C02 (stack size 20): 1000 iterations yield what 20 do, the 9 items listed
example :
    stackSize [⟨[], forest⟩] = 20 ∧
    run 1 (some 2) π₁.cancels 1000 [⟨[], forest⟩] =
      [.ok ⟨["ax".toList], .d⟩, .ok ⟨["ax".toList, "c".toList], .f⟩, .ok ⟨["ax".toList, "dz".toList], .f⟩,
       .ok ⟨["ax".toList, "e".toList], .f⟩, .ok ⟨["ax".toList, "dq".toList], .d⟩,
       .ok ⟨["zz".toList], .d⟩, .ok ⟨["b".toList], .f⟩, .ok ⟨["u".toList], .d⟩,
       .err ["w".toList] false] :=
  ⟨by decide, (run_fuel 1 (some 2) π₁.cancels [⟨[], forest⟩] 1000 (by decide)).trans (by decide)⟩

/-- the two stacks make the same entries tree residue: they differ in a File rule only -/
theorem same_trees (e : Walk.Entry) : (π₁.decide e).1 = .tree ↔ (π₂.decide e).1 = .tree := by
  refine (decide_sameCut π₁ π₂ e ?_).1
  refine ⟨fun _ _ _ => Iff.rfl, ⟨fun t t' _ => ?_, ⟨fun _ _ _ => ?_, trivial⟩⟩⟩
  · show sameCutV ((notProgram C03.notTok).residue exSem
        (Path.splitAtDepth (π₁.path e) (e.depth + if t = .filtrate then 0 else 0)).2)
      ((notProgram C03.notTok).residue exSem
        (Path.splitAtDepth (π₁.path e) (e.depth + if t' = .filtrate then 0 else 0)).2)
    simp only [ite_self]
    exact Iff.rfl
  · show sameCutV (ruleVerdict (Path.fileName (π₁.path e)) [("dz".toList, false), ("zz".toList, true)])
      (ruleVerdict (Path.fileName (π₁.path e)) [("zz".toList, true)])
    generalize Path.fileName (π₁.path e) = nm
    by_cases h1 : ['d', 'z'] = nm
    · subst h1; simp [sameCutV, ruleVerdict]
    · simp [sameCutV, ruleVerdict, h1]

-- file_discard_harmless: π₁ = `[ab]*/{c,d?}` from `r` + `not("{**/*.o,**/t/**}")` + `filter_entry(dz ↦ File, zz ↦ Tree)` against π₂ = the same without the File rule, `min_depth 1`, over the forest of C02: same cancellations, same counts, same 10 items
example :
    π₁.cancels = π₂.cancels ∧ (∀ e, (π₁.decide e).2 = (π₂.decide e).2) ∧
    π₁.items 1 none (.dir forest) = π₂.items 1 none (.dir forest) :=
  file_discard_harmless π₁ π₂ same_trees 1 none (.dir forest)

-- (the pipelines do differ on `ax/dz`: a File discard in π₁, kept by π₂; and the walk is what one expects)
example : (π₁.decide ⟨["ax".toList, "dz".toList], .f⟩).1 = .node ∧
    (π₂.decide ⟨["ax".toList, "dz".toList], .f⟩).1 = .filtrate ∧
    π₂.items 1 none (.dir forest) =
      [.ok ⟨["ax".toList], .d⟩, .ok ⟨["ax".toList, "c".toList], .f⟩, .ok ⟨["ax".toList, "dz".toList], .f⟩,
       .ok ⟨["ax".toList, "e".toList], .f⟩, .ok ⟨["ax".toList, "dq".toList], .d⟩,
       .ok ⟨["ax".toList, "dq".toList, "c".toList], .l⟩,
       .ok ⟨["zz".toList], .d⟩, .ok ⟨["b".toList], .f⟩, .ok ⟨["u".toList], .d⟩,
       .err ["w".toList] false] := by decide

/-- the entries named `dz` -/
def D (e : Walk.Entry) : Bool := Path.fileName (π₁.path e) == "dz".toList

theorem same_outside (e : Walk.Entry) (hd : D e = false) : π₁.decide e = π₂.decide e := by
  have hne : ¬ ['d', 'z'] = Path.fileName (π₁.path e) := by
    intro h; rw [D, ← h] at hd; revert hd; decide
  have hr : ruleVerdict (Path.fileName (π₁.path e)) [("dz".toList, false), ("zz".toList, true)] =
      ruleVerdict (Path.fileName (π₁.path e)) [("zz".toList, true)] := by
    simp [ruleVerdict, hne]
  show feedDep [fun _ => (globVerdict exSem (compiledProgram glob 0) (π₁.path e) e.depth).1,
      fun s => (Layer.not (notProgram C03.notTok)).verdict π₁ e s,
      fun _ => ruleVerdict (Path.fileName (π₁.path e)) [("dz".toList, false), ("zz".toList, true)]]
        .filtrate =
    feedDep [fun _ => (globVerdict exSem (compiledProgram glob 0) (π₁.path e) e.depth).1,
      fun s => (Layer.not (notProgram C03.notTok)).verdict π₂ e s,
      fun _ => ruleVerdict (Path.fileName (π₁.path e)) [("zz".toList, true)]] .filtrate
  rw [hr]; rfl

-- file_discard_harmless_on: π₁ against π₂ (they agree on every entry not named `dz`, and differ by keep-vs-file there): same traversal, same cancellation counts, and apart from the `dz` entries the consumer receives the same items: `ax/c`, `ax/dq` and the error item
example :
    π₁.items 0 none (.dir forest) = π₂.items 0 none (.dir forest) ∧
    (∀ e, (π₁.decide e).2 = (π₂.decide e).2) ∧
    (π₁.yielded 0 none (.dir forest)).filter (outside D) =
      [.ok ⟨["ax".toList, "c".toList], .f⟩, .ok ⟨["ax".toList, "dq".toList], .d⟩,
        .err ["w".toList] false] :=
  have h := file_discard_harmless_on π₁ π₂ D same_outside (fun e _ => same_trees e) 0 none
    (.dir forest)
  ⟨h.1, h.2.1, h.2.2.trans (by decide)⟩

-- (on the `dz` entries the consumer does see the difference)
example : π₁.yielded 0 none (.dir forest) ≠ π₂.yielded 0 none (.dir forest) := by decide

end Wax.NonVacuity.C13

namespace Wax.NonVacuity.C14
open Wax Wax.Walk Wax.WalkTree Wax.Path

-- depth_is_rel_length: the components of the entry path `r/a/x/bd` split at depth 2 + pivot 1: the relative part `a/x/bd` has 3 components
example :
    (splitAtDepthC (components "r/a/x/bd".toList) 3).2 = [.normal ['a'], .normal ['x'], .normal "bd".toList] ∧
    (splitAtDepthC (components "r/a/x/bd".toList) 3).2.length = 3 :=
  ⟨by decide, depth_is_rel_length (components "r/a/x/bd".toList) 3 (by decide)⟩

-- entry_root_relative: base `r`, invariant prefix `a/b` (so the walk is rooted at `r/a/b` with pivot 2), entry names `x`, `yy` (walkdir depth 2): root segment `r`, relative segment `a/b/x/yy` with 4 = 2 + 2 components
example :
    joinAndGetDepth "r".toList "a/b".toList = ("r/a/b".toList, 2) ∧
    splitAtDepth (joinAll "r/a/b".toList ["x".toList, "yy".toList]) (2 + 2) =
      ("r".toList, "a/b/x/yy".toList) ∧
    components "a/b/x/yy".toList =
      components "a/b".toList ++ ["x".toList, "yy".toList].map .normal ∧
    (components "a/b/x/yy".toList).length = 2 + 2 := by
  have h := entry_root_relative "r".toList (pre := "a/b".toList) (names := ["x".toList, "yy".toList])
    (by decide) (by decide) (by decide) (by decide)
  have e1 : joinAndGetDepth "r".toList "a/b".toList = ("r/a/b".toList, 2) := by decide
  have e2 : trim "r".toList = "r".toList := by decide
  have e3 : trim (joinAll "a/b".toList ["x".toList, "yy".toList]) = "a/b/x/yy".toList := by decide
  simp only [e1, e2, e3] at h
  exact ⟨e1, h⟩

/-- a platform without casing -/
def κ : Casing := ⟨fun _ => false⟩

/-- `a/*/b*/**` (`exGlob2`) walked from the base `r`: `Glob::anchor` roots the walk at `r/a/` with
    pivot 1; then `not("{**/*.o,**/t/**}")` and `filter_entry(c ↦ File)` -/
def π : Pipeline :=
  ⟨exSem, (anchor κ exGlob2 "r".toList).1, some (compiledProgram exGlob2 (anchor κ exGlob2 "r".toList).2),
    [.not (notProgram C03.notTok), .filter [(['c'], false)]]⟩

theorem π_anchor : anchor κ exGlob2 "r".toList = ("r/a/".toList, 1) := by decide

/-- the entry `x/bd/q` (a link, walkdir depth 3) of `exTree` -/
def e : Walk.Entry := ⟨["x".toList, "bd".toList, "q".toList], .l⟩

-- glob_entry_fields_partial: `a/*/b*/**` from base `r` (anchor computed by the model: root `r/a/`, pivot 1) with a `not` and a `filter_entry` layer; the entry `r/a/x/bd/q` is a filtrate; root segment `r`, relative segment `a/x/bd/q`: 1 + 4 components = 5, depth 3 + pivot 1 = 4 components, matched by the complete program
example :
    π.relativeFor e .filtrate = ("r".toList, "a/x/bd/q".toList) ∧
    (components (π.relativeFor e .filtrate).1 ++ components (π.relativeFor e .filtrate).2 =
        components "r/a/x/bd/q".toList ∧
      (components (π.relativeFor e .filtrate).2).length = 3 + 1 ∧
      (compiledProgram exGlob2 1).complete.matchB exSem (π.relativeFor e .filtrate).2 = true) :=
  ⟨by decide, glob_entry_fields_partial π (compiledProgram exGlob2 1) (by rw [π, π_anchor]) e (by decide) (by decide)⟩

-- (the entry is one the walk hands out, and not every entry is a filtrate: `by` is node residue, `x/c` tree residue)
example : e ∈ π.filtrateEntries (π.items 0 none (.dir exTree)) ∧
    (π.decide ⟨["by".toList], .f⟩).1 = .node ∧
    (π.decide ⟨["x".toList, "c".toList], .f⟩).1 = .tree := by decide

/-- `/tmp/*` as parsed -/
def tmpGlob : Tok :=
  .cat ⟨0, 6⟩ [.sep ⟨0, 1⟩, .lit ⟨1, 3⟩ ['t', 'm', 'p'] false, .sep ⟨4, 1⟩, .zom ⟨5, 1⟩ false]

set_option maxRecDepth 100000 in
theorem tmpGlob_parse : parse "/tmp/*".toList = .ok tmpGlob := by rfl

theorem tmp_anchor : anchor κ tmpGlob "r".toList = ("/tmp/".toList, 3) := by decide

/-- the rooted glob `/tmp/*` walked from any base: `Glob::anchor` roots the walk at `/tmp/` with
    pivot 2 + 1 -/
def πr : Pipeline := ⟨exSem, "/tmp/".toList, some (compiledProgram tmpGlob 3), []⟩

-- glob_entry_roundtrip_and_match: the rooted glob `/tmp/*` (anchor computed by the model: root `/tmp/`, pivot 3), entry `/tmp/n1` (a filtrate): empty root segment, relative segment `/tmp/n1`, matched by the complete program
example :
    πr.relativeFor ⟨["n1".toList], .f⟩ .filtrate = ([], "/tmp/n1".toList) ∧
    (components (πr.relativeFor ⟨["n1".toList], .f⟩ .filtrate).1 ++
        components (πr.relativeFor ⟨["n1".toList], .f⟩ .filtrate).2 = components "/tmp/n1".toList ∧
      (compiledProgram tmpGlob 3).complete.matchB exSem
        (πr.relativeFor ⟨["n1".toList], .f⟩ .filtrate).2 = true) :=
  ⟨by decide, glob_entry_roundtrip_and_match πr (compiledProgram tmpGlob 3) rfl ⟨["n1".toList], .f⟩
    (by decide)⟩

-- glob_entry_depth_rooted: the same walk and entry: the relative segment is the whole path `/tmp/n1` with 2 + 1 = 3 components, fewer than depth 1 + pivot 3 = 4
example :
    components (πr.relativeFor ⟨["n1".toList], .f⟩ .filtrate).2 = components "/tmp/n1".toList ∧
    (components (πr.relativeFor ⟨["n1".toList], .f⟩ .filtrate).2).length = 2 + 1 ∧
    (components (πr.relativeFor ⟨["n1".toList], .f⟩ .filtrate).2).length < 1 + 3 :=
  glob_entry_depth_rooted πr ⟨["n1".toList], .f⟩ (by decide) (by decide)

end Wax.NonVacuity.C14

namespace Wax.NonVacuity.Findings_B
open Wax Wax.Walk Wax.WalkTree Wax.Path

-- F1 (C03, not_walk_exact_of_always): the second disjunct of its hypothesis `hfrag`
-- (`exhTake last = false`: the last token is a literal, a class or `?`) can never hold together
-- with `hAlways`; the theorem has instances only for patterns whose LAST TOP-LEVEL TOKEN IS A TREE
-- WILDCARD, where it is `not_walk_exact` + `endsInTree_descClosed` (no use of the fold's verdict)
theorem of_always_second_disjunct_vacuous (sp : Span) (ts : List Tok) (last : Tok)
    (hlast : lastTok ts = some last) (h : exhTake last = false) :
    isExhaustive (.cat sp ts) ≠ .ok .always := by
  rw [exh_never_of_untaken sp ts last hlast h]
  intro h'; cases h'

-- F2 (C13, cancel_iff_becomes_tree): it is a statement about `applyVerdict`, the algebra "as
-- repaired"; for the pinned algebra `applyVerdictPinned` (filter.rs:317-320) the same statement is
-- false: a filtrate discarded as a tree cancels the walk and ends as NODE residue
example : (feed applyVerdictPinned .filtrate [.tree]).2 = 1 ∧
    (feed applyVerdictPinned .filtrate [.tree]).1 = .node := by decide

-- F3 (C02 / C14 / C15 examples in GlobBounded.lean): the non-vacuity examples there walk `bGlob` =
-- `a/x/b*/**` from the root `r/a/` with pivot 1 and say that this is its anchor for the base `r`;
-- the model's own `Glob::anchor` gives the root `r/a/x/` and pivot 2 (the invariant prefix is
-- `a/x`).  The examples are instances of the theorems (which allow any prefix of names), not runs
-- of the real pipeline.
example : anchor ⟨fun _ => false⟩ bGlob "r".toList = ("r/a/x/".toList, 2) := by decide

-- F4 (C14, depth_is_rel_length): a fact about `List.take`/`List.drop` on an arbitrary list; it
-- holds for lists of anything, e.g. numbers; what ties it to paths is `entry_root_relative`
example : (splitAtDepthC [10, 20, 30, 40] 3).2.length = 3 :=
  depth_is_rel_length [10, 20, 30, 40] 3 (by decide)

end Wax.NonVacuity.Findings_B

/-! ## ===== batch C ===== -/
namespace Wax.NonVacuity.C04
open Wax

/-! boolean equality of token trees (`Tok` has no `DecidableEq`), so that `parse e = .ok t` can be
    checked by kernel evaluation (`decide +kernel`) instead of the slow elaborator `rfl` -/
mutual
  def tokBeq : Tok → Tok → Bool
    | .lit s x c, .lit s' x' c' => decide (s.start = s'.start) && decide (s.len = s'.len) && decide (x = x') && c == c'
    | .sep s, .sep s' => decide (s.start = s'.start) && decide (s.len = s'.len)
    | .cls s n i, .cls s' n' i' => decide (s.start = s'.start) && decide (s.len = s'.len) && n == n' && decide (i = i')
    | .one s, .one s' => decide (s.start = s'.start) && decide (s.len = s'.len)
    | .zom s l, .zom s' l' => decide (s.start = s'.start) && decide (s.len = s'.len) && l == l'
    | .tree s r, .tree s' r' => decide (s.start = s'.start) && decide (s.len = s'.len) && r == r'
    | .alt s bs, .alt s' bs' => decide (s.start = s'.start) && decide (s.len = s'.len) && tokBeqL bs bs'
    | .cat s ts, .cat s' ts' => decide (s.start = s'.start) && decide (s.len = s'.len) && tokBeqL ts ts'
    | .rep s b lo hi, .rep s' b' lo' hi' =>
      decide (s.start = s'.start) && decide (s.len = s'.len) && tokBeq b b' && decide (lo = lo') && decide (hi = hi')
    | _, _ => false
  def tokBeqL : List Tok → List Tok → Bool
    | [], [] => true
    | t :: ts, t' :: ts' => tokBeq t t' && tokBeqL ts ts'
    | _, _ => false
end

theorem span_ext {s s' : Span} (h1 : s.start = s'.start) (h2 : s.len = s'.len) : s = s' := by
  cases s; cases s'; simp_all

mutual
  theorem tokBeq_eq : ∀ (a b : Tok), tokBeq a b = true → a = b
    | .lit s x c, .lit s' x' c', h => by
      simp [tokBeq] at h; rw [span_ext h.1.1.1 h.1.1.2, h.1.2, h.2]
    | .sep s, .sep s', h => by simp [tokBeq] at h; rw [span_ext h.1 h.2]
    | .cls s n i, .cls s' n' i', h => by
      simp [tokBeq] at h; rw [span_ext h.1.1.1 h.1.1.2, h.1.2, h.2]
    | .one s, .one s', h => by simp [tokBeq] at h; rw [span_ext h.1 h.2]
    | .zom s l, .zom s' l', h => by simp [tokBeq] at h; rw [span_ext h.1.1 h.1.2, h.2]
    | .tree s r, .tree s' r', h => by simp [tokBeq] at h; rw [span_ext h.1.1 h.1.2, h.2]
    | .alt s bs, .alt s' bs', h => by
      simp only [tokBeq, Bool.and_eq_true, decide_eq_true_eq] at h
      rw [span_ext h.1.1 h.1.2, tokBeqL_eq bs bs' h.2]
    | .cat s ts, .cat s' ts', h => by
      simp only [tokBeq, Bool.and_eq_true, decide_eq_true_eq] at h
      rw [span_ext h.1.1 h.1.2, tokBeqL_eq ts ts' h.2]
    | .rep s b lo hi, .rep s' b' lo' hi', h => by
      simp only [tokBeq, Bool.and_eq_true, decide_eq_true_eq] at h
      rw [span_ext h.1.1.1.1 h.1.1.1.2, tokBeq_eq b b' h.1.1.2, h.1.2, h.2]
  theorem tokBeqL_eq : ∀ (a b : List Tok), tokBeqL a b = true → a = b
    | [], [], _ => rfl
    | x :: xs, y :: ys, h => by
      simp only [tokBeqL, Bool.and_eq_true] at h
      rw [tokBeq_eq x y h.1, tokBeqL_eq xs ys h.2]
end

/-- `parse e` is `.ok t`, as a check -/
def parsesTo (e : Str) (t : Tok) : Bool :=
  match parse e with
  | .ok t' => tokBeq t' t
  | .err _ => false

theorem parsesTo_ok {e : Str} {t : Tok} (h : parsesTo e t = true) : parse e = .ok t := by
  unfold parsesTo at h
  split at h
  · rename_i t' ht; rw [ht, tokBeq_eq t' t h]
  · cases h

/-! boolean equality of patterns (`Re` has no `DecidableEq`), to state normal forms explicitly -/
def cpBeq : CharPred → CharPred → Bool
  | .sepc, .sepc | .nsep, .nsep | .dot, .dot => true
  | .cls n i, .cls n' i' => n == n' && decide (i = i')
  | _, _ => false
theorem cpBeq_eq : ∀ (a b : CharPred), cpBeq a b = true → a = b
  | .sepc, .sepc, _ | .nsep, .nsep, _ | .dot, .dot, _ => rfl
  | .cls n i, .cls n' i', h => by simp [cpBeq] at h; simp [h]
mutual
  def reBeq : Re → Re → Bool
    | .lit s c, .lit s' c' => s == s' && c == c'
    | .chr p, .chr p' => cpBeq p p'
    | .never, .never => true
    | .cat l, .cat l' => reBeqL l l'
    | .alt l, .alt l' => reBeqL l l'
    | .star r, .star r' => reBeq r r'
    | .lazyStar r, .lazyStar r' => reBeq r r'
    | .opt r, .opt r' => reBeq r r'
    | .rep r lo hi, .rep r' lo' hi' => reBeq r r' && lo == lo' && hi == hi'
    | .cap r, .cap r' => reBeq r r'
    | .grp r, .grp r' => reBeq r r'
    | _, _ => false
  def reBeqL : List Re → List Re → Bool
    | [], [] => true
    | x :: xs, y :: ys => reBeq x y && reBeqL xs ys
    | _, _ => false
end
mutual
  theorem reBeq_eq : ∀ (a b : Re), reBeq a b = true → a = b
    | .lit s c, .lit s' c', h => by simp [reBeq] at h; simp [h]
    | .chr p, .chr p', h => by simp only [reBeq] at h; rw [cpBeq_eq p p' h]
    | .never, .never, _ => rfl
    | .cat l, .cat l', h => by simp only [reBeq] at h; rw [reBeqL_eq l l' h]
    | .alt l, .alt l', h => by simp only [reBeq] at h; rw [reBeqL_eq l l' h]
    | .star r, .star r', h => by simp only [reBeq] at h; rw [reBeq_eq r r' h]
    | .lazyStar r, .lazyStar r', h => by simp only [reBeq] at h; rw [reBeq_eq r r' h]
    | .opt r, .opt r', h => by simp only [reBeq] at h; rw [reBeq_eq r r' h]
    | .rep r lo hi, .rep r' lo' hi', h => by
      simp [reBeq] at h; rw [reBeq_eq r r' h.1.1]; simp [h]
    | .cap r, .cap r', h => by simp only [reBeq] at h; rw [reBeq_eq r r' h]
    | .grp r, .grp r', h => by simp only [reBeq] at h; rw [reBeq_eq r r' h]
  theorem reBeqL_eq : ∀ (a b : List Re), reBeqL a b = true → a = b
    | [], [], _ => rfl
    | x :: xs, y :: ys, h => by
      simp only [reBeqL, Bool.and_eq_true] at h
      rw [reBeq_eq x y h.1, reBeqL_eq xs ys h.2]
end

/-- `(?i){*k,*b}.[ch]` as parsed: an alternation of two wildcard branches with case-insensitive
    literals, a literal and a class -/
def tM : Tok :=
  .cat ⟨0, 16⟩ [
    .alt ⟨0, 11⟩ [
      .cat ⟨5, 2⟩ [.zom ⟨5, 1⟩ false, .lit ⟨6, 1⟩ ['k'] true],
      .cat ⟨8, 2⟩ [.zom ⟨8, 1⟩ false, .lit ⟨9, 1⟩ ['b'] true]],
    .lit ⟨11, 1⟩ ['.'] true,
    .cls ⟨12, 4⟩ false [.chr 'c', .chr 'h']]

theorem parse_tM : parse "(?i){*k,*b}.[ch]".toList = .ok tM := parsesTo_ok (by decide +kernel)

/-- what the encoder prints for it: `((?:[^/]*(?i:k))|(?:[^/]*(?i:b)))(?i:\.)([ch])` -/
def rM : Re :=
  .cat [.cap (.alt [.grp (.cat [.grp (.star (.chr .nsep)), .lit ['k'] true]),
                    .grp (.cat [.grp (.star (.chr .nsep)), .lit ['b'] true])]),
        .lit ['.'] true,
        .cap (.chr (.cls false [.chr 'c', .chr 'h']))]

theorem encode_tM : encodeTop tM = rM := by rfl

/-- the path `xaKB.c` -/
def pM : Str := ['x', 'a', 'K', 'B', '.', 'c']

-- groups_eq_captures: `(?i){*k,*b}.[ch]` (parsed): alternation and class capture, the literal does not
example : (encodeTop tM).groups = 2 :=
  (groups_eq_captures ⟨0, 16⟩ _ (by decide)).trans (by decide)

-- exec_sound: the pattern printed for `(?i){*k,*b}.[ch]`, driver tables, on the path `xaKB.c`
example : Matches drvSem rM pM ∧ rM.matchB drvSem pM = true ∧
    [some pM, some ['x', 'a', 'K', 'B'], some ['c']].head? = some (some pM) ∧
    [some pM, some ['x', 'a', 'K', 'B'], some ['c']].length = rM.ncaps + 1 :=
  exec_sound (σ := drvSem) (r := rM) (s := pM) (by decide)

-- exec_none_of_not_matchB: the same pattern on `xaKB.d` (class `[ch]` fails)
example : rM.exec drvSem ['x', 'a', 'K', 'B', '.', 'd'] = none :=
  exec_none_of_not_matchB (by decide)

-- hirHyp_drv: the printed pattern of `(?i){*k,*b}.[ch]`: ordered bounds, case-insensitive characters `k`, `b`, `.`
theorem hypM : HirHyp drvOrbit drvSem rM := hirHyp_drv (by decide) (by decide)

/-- its `regex-syntax` normal form: the common prefix `[^/]*` of the two branches is factored out,
    `(?i:\.)` becomes a plain literal: `(?:([^/]{0,}(?:(?i:k)|(?i:b)))\.([ch]))` -/
def nM : Re :=
  .grp (.cat [.cap (.grp (.cat [.rep (.chr .nsep) 0 none, .grp (.alt [.lit ['k'] true, .lit ['b'] true])])),
    .lit ['.'] false, .cap (.chr (.cls false [.chr 'c', .chr 'h']))])

theorem norm_rM : rM.hirNorm drvOrbit drvSem = nM := reBeq_eq _ _ (by decide +kernel)

-- hirNorm_lang: printed pattern of `(?i){*k,*b}.[ch]` vs its normal form, on the path `xaKB.c`
example : Matches drvSem nM pM ↔ Matches drvSem rM pM := norm_rM ▸ hirNorm_lang hypM pM
-- ... the right-hand side holds (verified decider), so the theorem delivers a match of the normal form
example : Matches drvSem nM pM :=
  (norm_rM ▸ hirNorm_lang hypM pM).mpr ((matchB_iff _ _ _).mp (by decide))

-- hirNorm_groups: same pattern, two groups (the factored alternation and the class)
example : nM.groupList = rM.groupList.map (Re.hirNorm drvOrbit drvSem) :=
  norm_rM ▸ hirNorm_groups (orbit := drvOrbit) (σ := drvSem) (r := rM) (by decide)

-- hirNorm_ncaps: same pattern
example : nM.ncaps = 2 := (norm_rM ▸ hirNorm_ncaps (orbit := drvOrbit) (σ := drvSem) (r := rM) (by decide)).trans (by decide)

-- match_model_sound: the run of the executor on the normal form, path `xaKB.c`
example : Matches drvSem rM pM :=
  match_model_sound hypM (s := pM) (caps := [some pM, some ['x', 'a', 'K', 'B'], some ['c']]) (by rw [norm_rM]; decide)

-- exec_complete_partial: printed pattern of `(?i){*k,*b}.[ch]` (its only loops are `[^/]*`), path `xaKB.c`
example : ∃ caps, rM.exec drvSem pM = some caps :=
  exec_complete_partial (by decide) ((matchB_iff _ _ _).mp (by decide))

-- exec_caps_sound: same run, group 1 (the alternation `{*k,*b}`) captured `xaKB`
example : ['x', 'a', 'K', 'B'] <:+: pM ∧
    Matches drvSem (.alt [.grp (.cat [.grp (.star (.chr .nsep)), .lit ['k'] true]),
                          .grp (.cat [.grp (.star (.chr .nsep)), .lit ['b'] true])]) ['x', 'a', 'K', 'B'] :=
  exec_caps_sound (σ := drvSem) (r := rM) (s := pM)
    (caps := [some pM, some ['x', 'a', 'K', 'B'], some ['c']]) (by decide) (i := 1) (by decide)

-- match_model_caps_sound: the run on the NORMAL form, group 2 (the class `[ch]`) of the PRINTED pattern captured `c`
example : ['c'] <:+: pM ∧ Matches drvSem (.chr (.cls false [.chr 'c', .chr 'h'])) ['c'] :=
  match_model_caps_sound hypM (by decide) (s := pM)
    (caps := [some pM, some ['x', 'a', 'K', 'B'], some ['c']]) (by rw [norm_rM]; decide) (i := 2) (by decide)

-- cmdM_caps_sound: expression `(?i){*k,*b}.[ch]`, path `xaKB.c`, from the text of the expression
example : Matches drvSem (encodeTop tM) pM ∧
    [some pM, some ['x', 'a', 'K', 'B'], some ['c']].length = (encodeTop tM).ncaps + 1 ∧
    ∀ i u, [some pM, some ['x', 'a', 'K', 'B'], some ['c']][i]? = some (some u) →
      u <:+: pM ∧ Matches drvSem ((encodeTop tM).group i) u :=
  cmdM_caps_sound "(?i){*k,*b}.[ch]".toList tM parse_tM (by decide) (by decide)
    (by rw [encode_tM, norm_rM]; decide)

/-- `<{a,b}:1,>x` as parsed: an unbounded repetition of an alternation -/
def tL : Tok :=
  .cat ⟨0, 11⟩ [
    .rep ⟨0, 10⟩ (.cat ⟨1, 5⟩ [.alt ⟨1, 5⟩ [
      .cat ⟨2, 1⟩ [.lit ⟨2, 1⟩ ['a'] false],
      .cat ⟨4, 1⟩ [.lit ⟨4, 1⟩ ['b'] false]]]) 1 none,
    .lit ⟨10, 1⟩ ['x'] false]

theorem parse_tL : parse "<{a,b}:1,>x".toList = .ok tL := parsesTo_ok (by decide +kernel)

/-- what the encoder prints for it: `((?:(?:(?:a)|(?:b))){1,})x` -/
def rL : Re :=
  .cat [.cap (.rep (.grp (.cat [.grp (.alt [.grp (.cat [.lit ['a'] false]), .grp (.cat [.lit ['b'] false])])])) 1 none),
        .lit ['x'] false]

theorem encode_tL : encodeTop tL = rL := by rfl

theorem hypL : HirHyp drvOrbit drvSem rL := hirHyp_drv (by decide) (by decide)

-- the loop body has a union state, in the printed pattern and in the normal form: outside `exec_complete_partial`
example : rL.loopsSimple = false ∧ (rL.hirNorm drvOrbit drvSem).loopsSimple = false := by decide +kernel

-- match_model_complete: `<{a,b}:1,>x` on the path `abax`
example : ∃ caps, (rL.hirNorm drvOrbit drvSem).exec drvSem ['a', 'b', 'a', 'x'] = some caps :=
  match_model_complete hypL ((matchB_iff _ _ _).mp (by decide))

-- match_model_isSome_all: `<{a,b}:1,>x` on `abax` (match) and on `abay` (no match)
example : ((rL.hirNorm drvOrbit drvSem).exec drvSem ['a', 'b', 'a', 'x']).isSome = true :=
  (match_model_isSome_all hypL _).trans (by decide)
example : ((rL.hirNorm drvOrbit drvSem).exec drvSem ['a', 'b', 'a', 'y']).isSome = false :=
  (match_model_isSome_all hypL _).trans (by decide)

end Wax.NonVacuity.C04

namespace Wax.NonVacuity.C05
open Wax

-- conjFixed_total: `[0,2] + [1,inf)`, the pair on which the pinned conjunction reaches `unreachable!()`
example : ∃ r, (BVR.upper 2).conjFixed (.lower 1) = .ok r :=
  conjFixed_total (.upper 2) (.lower 1) (by decide : 0 < 2) (by decide : 0 < 1)
    (au := .bnd 2) (bu := .unb) rfl rfl (by decide) (fun _ _ _ h => by cases h)
-- ... and the pinned one does panic there
example : (BVR.upper 2).conj (.lower 1) = .error "unreachable natural.rs:740" := pinned_conj_unreachable

-- conjFixed_total: `[1,3] + [0,5]`, both operands bounded above (the sum of the upper bounds is computed)
example : ∃ r, (BVR.both 1 2).conjFixed (.upper 5) = .ok r :=
  conjFixed_total (.both 1 2) (.upper 5) ⟨by decide, by decide⟩ (by decide : 0 < 5)
    (au := .bnd 3) (bu := .bnd 5) rfl rfl (by decide)
    (fun x y hx hy => by cases hx; cases hy; decide)
example : (BVR.both 1 2).conjFixed (.upper 5) = .ok (.both 1 7) := by rfl

-- BVR.conj_sound: `[1,3] + [2,5] = [3,8]`, members 3 and 5: the sum 8 is in the result
example : (BVR.both 3 5).mem (3 + 5) :=
  BVR.conj_sound (.both 1 2) (.both 2 3) (.both 3 5) ⟨by decide, by decide⟩ ⟨by decide, by decide⟩ rfl
    3 5 ⟨by decide, by decide⟩ ⟨by decide, by decide⟩

/-- `<a<?:1,3>/:2,4>{[a-z],xy}*` as parsed: two nested repetitions, an alternation with a class, a wildcard -/
def tS : Tok :=
  .cat ⟨0, 26⟩ [
    .rep ⟨0, 15⟩ (.cat ⟨1, 9⟩ [.lit ⟨1, 1⟩ ['a'] false,
      .rep ⟨2, 7⟩ (.cat ⟨3, 1⟩ [.one ⟨3, 1⟩]) 1 (some 3), .sep ⟨9, 1⟩]) 2 (some 4),
    .alt ⟨15, 10⟩ [.cat ⟨16, 5⟩ [.cls ⟨16, 5⟩ false [.rng 'a' 'z']],
                   .cat ⟨22, 2⟩ [.lit ⟨22, 2⟩ ['x', 'y'] false]],
    .zom ⟨25, 1⟩ false]

theorem parse_tS : parse "<a<?:1,3>/:2,4>{[a-z],xy}*".toList = .ok tS := C04.parsesTo_ok (by decide +kernel)

-- no_panic_partial: `<a<?:1,3>/:2,4>{[a-z],xy}*` with B = 4, D = 2, N = 24 (24 * 4^2 < 2^64)
example : (∃ v, sizeVariance tS = .ok v) ∧ (∃ r, check tS = .ok r) ∧ (∃ v, depthVariance tS = .ok v) ∧
    (∃ w, isExhaustive tS = .ok w) ∧ compilePanics tS = false :=
  no_panic_partial (B := 4) (D := 2) (N := 24) (by decide) (by decide) (by decide) (t := tS) (by decide)
-- ... the hypothesis is tight in each parameter on this tree
example : ¬ small 3 2 24 tS ∧ ¬ small 4 1 24 tS ∧ ¬ small 4 2 23 tS := by decide

-- no_panic_of_weight: the same tree, weight below 2^64
example : (∃ v, sizeVariance tS = .ok v ∧ v.Ok tS.weight) ∧ (∃ r, check tS = .ok r) ∧
    (∃ v, depthVariance tS = .ok v ∧ v.Ok tS.weight) ∧ (∃ w, isExhaustive tS = .ok w) :=
  no_panic_of_weight (t := tS) (by decide)

/-- `<a<?:1,65536>/:2,65536>{[a-z],xy}*` as parsed -/
def t16 : Tok :=
  .cat ⟨0, 34⟩ [
    .rep ⟨0, 23⟩ (.cat ⟨1, 13⟩ [.lit ⟨1, 1⟩ ['a'] false,
      .rep ⟨2, 11⟩ (.cat ⟨3, 1⟩ [.one ⟨3, 1⟩]) 1 (some 65536), .sep ⟨13, 1⟩]) 2 (some 65536),
    .alt ⟨23, 10⟩ [.cat ⟨24, 5⟩ [.cls ⟨24, 5⟩ false [.rng 'a' 'z']],
                   .cat ⟨30, 2⟩ [.lit ⟨30, 2⟩ ['x', 'y'] false]],
    .zom ⟨33, 1⟩ false]

theorem parse_t16 : parse "<a<?:1,65536>/:2,65536>{[a-z],xy}*".toList = .ok t16 := C04.parsesTo_ok (by decide +kernel)

-- no_panic_16: `<a<?:1,65536>/:2,65536>{[a-z],xy}*` (parsed): bounds 2^16, two nested repetitions
example : (∃ v, sizeVariance t16 = .ok v) ∧ (∃ r, check t16 = .ok r) ∧ (∃ v, depthVariance t16 = .ok v) ∧
    (∃ w, isExhaustive t16 = .ok w) ∧ compilePanics t16 = false :=
  no_panic_16 (t := t16) (by decide)

/-- `<a/:1,4294967295>y` as parsed -/
def t32 : Tok :=
  .cat ⟨0, 18⟩ [
    .rep ⟨0, 17⟩ (.cat ⟨1, 2⟩ [.lit ⟨1, 1⟩ ['a'] false, .sep ⟨2, 1⟩]) 1 (some 4294967295),
    .lit ⟨17, 1⟩ ['y'] false]

theorem parse_t32 : parse "<a/:1,4294967295>y".toList = .ok t32 := C04.parsesTo_ok (by decide +kernel)

-- no_panic_32: `<a/:1,4294967295>y` (parsed): the largest bound the regex crate accepts
example : (∃ v, sizeVariance t32 = .ok v) ∧ (∃ r, check t32 = .ok r) ∧ (∃ v, depthVariance t32 = .ok v) ∧
    (∃ w, isExhaustive t32 = .ok w) ∧ compilePanics t32 = false :=
  no_panic_32 (t := t32) (by decide)

/-- `<a/**/b:1,>` as parsed: a tree wildcard inside an unbounded repetition -/
def tN : Tok :=
  .cat ⟨0, 11⟩ [.rep ⟨0, 11⟩ (.cat ⟨1, 6⟩ [.lit ⟨1, 1⟩ ['a'] false, .tree ⟨2, 4⟩ true,
    .lit ⟨6, 1⟩ ['b'] false]) 1 none]

theorem parse_tN : parse "<a/**/b:1,>".toList = .ok tN := C04.parsesTo_ok (by decide +kernel)

-- no_nest_panic: `<a/**/b:1,>` (height 3), and the three-level tree above (height 5)
example : nestPanics tN = false := no_nest_panic tN (by decide)
example : nestPanics tS = false := no_nest_panic tS (by decide)

-- nest_bound_parsed: `<a/**/b:1,>`: nesting of the printed pattern is at most 2 * 3 + 5
example : patternNest tN ≤ 2 * 3 + 5 := nest_bound_parsed "<a/**/b:1,>".toList tN parse_tN
-- ... and the bound is attained on this expression
example : patternNest tN = 11 := by
  simp [patternNest, tN, encodeTop, encodeList, encodeTok, encodeTree, G, posOf, siteIntermediate, anyStar,
    Re.nest, Re.nestAlt, Re.nestAlts, Re.nestCat, Re.flat, maxL, CharPred.nest]

-- no_nest_panic_parsed: `<a/**/b:1,>` and `<a<?:1,3>/:2,4>{[a-z],xy}*`
example : nestPanics tN = false := no_nest_panic_parsed "<a/**/b:1,>".toList tN parse_tN (by decide)
example : nestPanics tS = false := no_nest_panic_parsed _ tS parse_tS (by decide)

end Wax.NonVacuity.C05

namespace Wax.NonVacuity.C19
open Wax Wax.FoldMap

/-- `{a,<b*:0,2>,<{c,d}:1,>}` as parsed: nested alternations, a bounded and an unbounded repetition -/
def tF : Tok :=
  .cat ⟨0, 23⟩ [.alt ⟨0, 23⟩ [
    .cat ⟨1, 1⟩ [.lit ⟨1, 1⟩ ['a'] false],
    .cat ⟨3, 8⟩ [.rep ⟨3, 8⟩ (.cat ⟨4, 2⟩ [.lit ⟨4, 1⟩ ['b'] false, .zom ⟨5, 1⟩ false]) 0 (some 2)],
    .cat ⟨12, 10⟩ [.rep ⟨12, 10⟩ (.cat ⟨13, 5⟩ [.alt ⟨13, 5⟩ [
        .cat ⟨14, 1⟩ [.lit ⟨14, 1⟩ ['c'] false],
        .cat ⟨16, 1⟩ [.lit ⟨16, 1⟩ ['d'] false]]]) 1 none]]]

theorem parse_tF : parse "{a,<b*:0,2>,<{c,d}:1,>}".toList = .ok tF := C04.parsesTo_ok (by decide +kernel)

-- foldMap_id_tok: `{a,<b*:0,2>,<{c,d}:1,>}` (parsed)
example : (foldMap id (ofTok tF)).map toTok = .ok tF := foldMap_id_tok tF (by decide) (by decide)

end Wax.NonVacuity.C19

namespace Wax.NonVacuity.Findings_C
open Wax Wax.FoldMap

/-- `(?i)ü*` as parsed -/
def tU : Tok := .cat ⟨0, 7⟩ [.lit ⟨0, 6⟩ ['ü'] true, .zom ⟨6, 1⟩ false]

-- cmdM_caps_sound / hirHyp_drv: the hypothesis on the case-insensitive characters (not in the `says` of
-- `cmdM_caps_sound`) excludes expressions that parse and pass the rule check: every `(?i)` literal with a
-- character outside the 113-character driver alphabet (here `ü`), and `ß`
example : parse "(?i)ü*".toList = .ok tU ∧ checkS tU = true ∧
    ¬ ∀ c ∈ (encodeTop tU).ciChars, c ∈ drvAlphabet ∧ c.toNat ≠ 0xdf :=
  ⟨C04.parsesTo_ok (by decide +kernel), by decide, by decide⟩

/-- `<a:0,0>` -/
def t00 : Tok := .cat ⟨0, 7⟩ [.rep ⟨0, 7⟩ (.cat ⟨1, 1⟩ [.lit ⟨1, 1⟩ ['a'] false]) 0 (some 0)]

-- foldMap_id_tok: its hypothesis `boundsOk` is stronger than the "ordered" of its `says`: `<a:0,0>` has ordered
-- bounds and `fold_map id` is the identity on it (`foldMap_id`), but `foldMap_id_tok` does not apply
-- (harmless for accepted expressions: the rule checker rejects `<a:0,0>`)
example : tokBounds boundsOk t00 = false ∧ tokBounds ordered t00 = true ∧
    (foldMap id (ofTok t00)).map toTok = .ok t00 := ⟨by decide, by decide, by rfl⟩

-- BVR.conj_sound: its hypothesis `a.conj b = .ok r` is never satisfied by an upper-open and a lower-open
-- operand (the pinned `unreachable!()`), so the theorem says nothing about those pairs
example : ∀ m n r, (BVR.upper m).conj (.lower n) ≠ .ok r ∧ (BVR.lower n).conj (.upper m) ≠ .ok r := by
  intro m n r
  have h1 : (BVR.upper m).conj (.lower n) = .error "unreachable natural.rs:740" := rfl
  have h2 : (BVR.lower n).conj (.upper m) = .error "unreachable natural.rs:740" := rfl
  rw [h1, h2]
  exact ⟨fun h => (by cases h), fun h => (by cases h)⟩

end Wax.NonVacuity.Findings_C

/-! ## ===== batch D ===== -/
namespace Wax.NonVacuity.C06
open Wax Wax.AdjN
namespace D   -- helper names of this file stay apart from other witness files

/-- the tree of `/a/{b,*c}<d/:1,2>e` -/
def tA : Tok := .cat ⟨0, 18⟩ [.sep ⟨0, 1⟩, .lit ⟨1, 1⟩ ['a'] false, .sep ⟨2, 1⟩,
  .alt ⟨3, 6⟩ [.cat ⟨4, 1⟩ [.lit ⟨4, 1⟩ ['b'] false],
    .cat ⟨6, 2⟩ [.zom ⟨6, 1⟩ false, .lit ⟨7, 1⟩ ['c'] false]],
  .rep ⟨9, 8⟩ (.cat ⟨10, 2⟩ [.lit ⟨10, 1⟩ ['d'] false, .sep ⟨11, 1⟩]) 1 (some 2),
  .lit ⟨17, 1⟩ ['e'] false]
theorem tA_parse : parse "/a/{b,*c}<d/:1,2>e".toList = .ok tA := by rfl

/-- the tree of `a{b/,c}/` (rejected: the first branch puts two separators next to each other) -/
def tR : Tok := .cat ⟨0, 8⟩ [.lit ⟨0, 1⟩ ['a'] false,
  .alt ⟨1, 6⟩ [.cat ⟨2, 2⟩ [.lit ⟨2, 1⟩ ['b'] false, .sep ⟨3, 1⟩],
    .cat ⟨5, 1⟩ [.lit ⟨5, 1⟩ ['c'] false]], .sep ⟨7, 1⟩]
theorem tR_parse : parse "a{b/,c}/".toList = .ok tR := by rfl

/-- the top-level tokens of `a{/b,c*}/d` -/
def tsD : List Tok := [.lit ⟨0, 1⟩ ['a'] false,
  .alt ⟨1, 7⟩ [.cat ⟨2, 2⟩ [.sep ⟨2, 1⟩, .lit ⟨3, 1⟩ ['b'] false],
    .cat ⟨5, 2⟩ [.lit ⟨5, 1⟩ ['c'] false, .zom ⟨6, 1⟩ false]],
  .sep ⟨8, 1⟩, .lit ⟨9, 1⟩ ['d'] false]
theorem tsD_parse : parse "a{/b,c*}/d".toList = .ok (.cat ⟨0, 10⟩ tsD) := by rfl

open LK in
/-- the flat expansions of `tA`, repetition body written once and twice -/
def esA2 : List (List LK) :=
  [[sepK, other, sepK, other, other, sepK, other],
   [sepK, other, sepK, other, other, sepK, other, sepK, other],
   [sepK, other, sepK, zomK, other, other, sepK, other],
   [sepK, other, sepK, zomK, other, other, sepK, other, sepK, other]]
open LK in
/-- the flat expansions of `tA`, repetition body written once -/
def esA1 : List (List LK) :=
  [[sepK, other, sepK, other, other, sepK, other],
   [sepK, other, sepK, zomK, other, other, sepK, other]]

-- build_root_certain: `/a/{b,*c}<d/:1,2>e` parses, is accepted, and is not "sometimes" rooted
example : hasRoot tA ≠ .sometimes :=
  build_root_certain "/a/{b,*c}<d/:1,2>e".toList tA tA_parse (by decide)
-- (it is in fact always rooted)
example : hasRoot tA = .always := by decide

-- (the conclusion has teeth: `{a,/b}` parses, is "sometimes" rooted, and is rejected)
example : ∃ t, parse "{a,/b}".toList = .ok t ∧ hasRoot t = .sometimes ∧ checkS t = false :=
  ⟨.cat ⟨0, 6⟩ [.alt ⟨0, 6⟩ [.cat ⟨1, 1⟩ [.lit ⟨1, 1⟩ ['a'] false],
    .cat ⟨3, 2⟩ [.sep ⟨3, 1⟩, .lit ⟨4, 1⟩ ['b'] false]]], by rfl, by decide, by decide⟩

-- checkS_root_certain: the shaped tree of `/a/{b,*c}<d/:1,2>e`
example : hasRoot tA ≠ .sometimes :=
  checkS_root_certain tA (by decide) (by decide) (by decide)

-- checkS_noAdj_depth1: `a{/b,c*}/d` (alternation one level deep, a branch starting with `/`)
theorem tsD_depth1 : Depth1 tsD := by
  intro t ht
  simp only [tsD, List.mem_cons, List.not_mem_nil, or_false] at ht
  rcases ht with rfl | rfl | rfl | rfl
  · exact .inl rfl
  · refine .inr ⟨_, _, rfl, ?_⟩
    intro b hb
    simp only [List.mem_cons, List.not_mem_nil, or_false] at hb
    rcases hb with rfl | rfl
    · exact ⟨_, _, rfl, by simp, by intro x hx; simp at hx; rcases hx with rfl | rfl <;> rfl⟩
    · exact ⟨_, _, rfl, by simp, by intro x hx; simp at hx; rcases hx with rfl | rfl <;> rfl⟩
  · exact .inl rfl
  · exact .inl rfl
example : ∀ l ∈ expandL tsD, noAdjBoundary l = true :=
  checkS_noAdj_depth1 ⟨0, 10⟩ tsD tsD_depth1 (by decide)
-- ... in particular the expansion `a/b/d`
example : noAdjBoundary [.lit ⟨0, 1⟩ ['a'] false, .sep ⟨2, 1⟩, .lit ⟨3, 1⟩ ['b'] false,
    .sep ⟨8, 1⟩, .lit ⟨9, 1⟩ ['d'] false] = true :=
  checkS_noAdj_depth1 ⟨0, 10⟩ tsD tsD_depth1 (by decide) _
    (by simp [expandL, choices, tsD, Tok.concatenation])

-- check_none_iff_of_parse: `/a/{b,*c}<d/:1,2>e`, both sides hold ...
example : check tA = .ok none ↔ (checkS tA = true ∧ ruleSize tA = .ok none) :=
  check_none_iff_of_parse "/a/{b,*c}<d/:1,2>e".toList tA tA_parse
example : check tA = .ok none :=
  (check_none_iff_of_parse "/a/{b,*c}<d/:1,2>e".toList tA tA_parse).2 ⟨by decide, rfl⟩
-- ... and `a{b/,c}/`, both sides fail
example : check tR ≠ .ok none := fun h =>
  absurd ((check_none_iff_of_parse "a{b/,c}/".toList tR tR_parse).1 h).1 (by decide)

-- checkS_of_check: the queue-driven checker accepts `/a/{b,*c}<d/:1,2>e`
example : checkS tA = true := checkS_of_check tA rfl

-- checkS_noAdj_nested_partial: `/a/{b,*c}<d/:1,2>e`, body `d/` written once and twice
example : esA2.all (noAdj LK.isB) = true :=
  checkS_noAdj_nested_partial tA esA2 (by decide) (by decide) rfl (by decide)

-- build_noAdjZom: `/a/{b,*c}<d/:1,2>e`
example : esA1.all (noAdj LK.isZ) = true :=
  build_noAdjZom "/a/{b,*c}<d/:1,2>e".toList tA esA1 tA_parse rfl (by decide)

-- build_noAdj_once: `/a/{b,*c}<d/:1,2>e`
example : esA1.all (noAdj LK.isB) = true :=
  build_noAdj_once "/a/{b,*c}<d/:1,2>e".toList tA esA1 tA_parse rfl (by decide)

-- adjacent_rejected: `a{b/,c}/`, the expansion `a b / /` has adjacent separators
example : checkS tR = false :=
  adjacent_rejected tR [[.other, .other, .sepK, .sepK], [.other, .other, .sepK]]
    (by decide) (by decide) rfl [.other, .other, .sepK, .sepK] (List.Mem.head _) (by decide)

-- build_eq_wfSpec_partial: `/a/{b,*c}<d/:1,2>e` (verdict true) and `a{b/,c}/` (verdict false)
example : checkS tA = true :=
  build_eq_wfSpec_partial "/a/{b,*c}<d/:1,2>e".toList tA true tA_parse (by decide) (by decide) rfl
example : checkS tR = false :=
  build_eq_wfSpec_partial "a{b/,c}/".toList tR false tR_parse (by decide) (by decide) rfl

end D
end Wax.NonVacuity.C06

namespace Wax.NonVacuity.C08
open Wax
namespace D   -- helper names of this file stay apart from other witness files

/-- the driver's casing table and exact comparison -/
abbrev κ : Casing := drvCasing
abbrev σ : Sem := σcs

/-- the prefix tokens of `a/b/{x,*y}/**/z`: `a`, `/`, `b` -/
def preAB : List Tok := [.lit ⟨0, 1⟩ ['a'] false, .sep ⟨1, 1⟩, .lit ⟨2, 1⟩ ['b'] false]
/-- `{x,*y}` at byte 4 -/
def vAlt : Tok := .alt ⟨4, 6⟩ [.cat ⟨5, 1⟩ [.lit ⟨5, 1⟩ ['x'] false],
  .cat ⟨7, 2⟩ [.zom ⟨7, 1⟩ false, .lit ⟨8, 1⟩ ['y'] false]]
/-- `/**/z` at byte 10 -/
def moreTZ : List Tok := [.tree ⟨10, 4⟩ true, .lit ⟨14, 1⟩ ['z'] false]
/-- `a/b/{x,*y}/**/z` -/
def gAB : Tok := .cat ⟨0, 15⟩ (preAB ++ .sep ⟨3, 1⟩ :: vAlt :: moreTZ)
theorem gAB_parse : parse "a/b/{x,*y}/**/z".toList = .ok gAB := by rfl

theorem chunk1 (c : Char) (h1 : c ≠ '/') (h2 : c ≠ '\\') : Chunk [c] := by
  intro d hd; simp at hd; subst hd; exact ⟨h1, h2⟩

theorem spellsAB : Spells 0 preAB ['a', '/', 'b'] :=
  Spells.lit 0 ['a'] _ ['/', 'b'] (by simp) (chunk1 _ (by decide) (by decide)) (.inr ⟨_, rfl⟩)
    (Spells.sep 1 _ ['b']
      (Spells.lit 2 ['b'] [] [] (by simp) (chunk1 _ (by decide) (by decide)) (.inl rfl)
        (Spells.nil 3)))

/-- the postfix of `a/b/{x,*y}/**/z`: `{x,*y}/**/z`, spans re-based -/
def qAB : Tok := .cat ⟨0, 15⟩ [.alt ⟨0, 6⟩ [.cat ⟨1, 1⟩ [.lit ⟨1, 1⟩ ['x'] false],
  .cat ⟨3, 2⟩ [.zom ⟨3, 1⟩ false, .lit ⟨4, 1⟩ ['y'] false]], .tree ⟨6, 4⟩ true,
  .lit ⟨10, 1⟩ ['z'] false]

-- partition_lang_partial: `a/b/{x,*y}/**/z`, prefix `a/b`, variant token `{x,*y}`
example : ∃ off q, partition κ gAB = (['a', '/', 'b'] ++ ['/'], off, some q) ∧
    ∀ w, Spec.Matches σ gAB w ↔ ∃ r, w = ['a', '/', 'b'] ++ '/' :: r ∧ Spec.Matches σ q r :=
  partition_lang_partial σ κ ⟨0, 15⟩ ⟨3, 1⟩ spellsAB vAlt moreTZ
    (isInv_false.mp (by decide)) (by decide) (by decide)
-- ... the partition is (`a/b/`, 4, `{x,*y}/**/z`); and the glob does match `a/b/qy/k/z`
example : partition κ gAB = ("a/b/".toList, 4, some qAB) := by rfl
example : Spec.Matches σ gAB "a/b/qy/k/z".toList :=
  (specRe_correct σcs rfl _ _).mp (by decide)
example : Spec.Matches σ qAB "qy/k/z".toList :=
  (specRe_correct σcs rfl _ _).mp (by decide)


-- partition_sep: `a/b/{x,*y}/**/z` cut at its second separator, on the path `a/b/qy/k/z`
example : SMs σ ⟨true, true⟩ (preAB ++ .sep ⟨3, 1⟩ :: (vAlt :: moreTZ)) "a/b/qy/k/z".toList ↔
    ∃ r, "a/b/qy/k/z".toList = ['a', '/', 'b'] ++ '/' :: r ∧
      SMs σ ⟨true, true⟩ (vAlt :: moreTZ) r :=
  partition_sep σ preAB (vAlt :: moreTZ) ⟨3, 1⟩ ['a', '/', 'b'] (spells_sms σ spellsAB)
    (by decide) _
-- ... and its right-hand side holds with r = `qy/k/z`, so the theorem delivers a match of the whole
example : Spec.Matches σ gAB "a/b/qy/k/z".toList :=
  (partition_sep σ preAB (vAlt :: moreTZ) ⟨3, 1⟩ ['a', '/', 'b'] (spells_sms σ spellsAB)
    (by decide) _).mpr ⟨"qy/k/z".toList, by decide,
      (specRe_correct σcs rfl (.cat ⟨0, 0⟩ (vAlt :: moreTZ)) _).mp (by decide)⟩

/-- `src` -/
def preSrc : List Tok := [.lit ⟨0, 3⟩ ['s', 'r', 'c'] false]
theorem spellsSrc : Spells 0 preSrc ['s', 'r', 'c'] :=
  Spells.lit 0 ['s', 'r', 'c'] [] [] (by simp)
    (by intro d hd; simp at hd; rcases hd with rfl | rfl | rfl <;> decide) (.inl rfl) (Spells.nil 3)
/-- `*.rs` at byte 7 -/
def restRs : List Tok := [.zom ⟨7, 1⟩ false, .lit ⟨8, 3⟩ ['.', 'r', 's'] false]
/-- `src/**/*.rs` -/
def gSrc : Tok := .cat ⟨0, 11⟩ (preSrc ++ .tree ⟨3, 4⟩ true :: restRs)
theorem gSrc_parse : parse "src/**/*.rs".toList = .ok gSrc := by rfl
/-- `src/**` -/
def gSrcAll : Tok := .cat ⟨0, 6⟩ (preSrc ++ [.tree ⟨3, 3⟩ true])
theorem gSrcAll_parse : parse "src/**".toList = .ok gSrcAll := by rfl

-- partition_tree: `src/**/*.rs`, kept part `**/*.rs`, on the path `src/x/y.rs`
example : SMs σ ⟨true, true⟩ (preSrc ++ .tree ⟨3, 4⟩ true :: restRs) "src/x/y.rs".toList ↔
    ∃ r, "src/x/y.rs".toList = ['s', 'r', 'c'] ++ '/' :: r ∧
      SMs σ ⟨true, true⟩ (.tree ⟨4, 3⟩ false :: restRs) r :=
  partition_tree σ preSrc restRs ⟨3, 4⟩ ⟨4, 3⟩ ['s', 'r', 'c'] (spells_sms σ spellsSrc)
    (by simp [preSrc]) (by simp [restRs]) _
-- ... both sides hold: the left one by the verified matcher, the right one with r = `x/y.rs`
example : Spec.Matches σ gSrc "src/x/y.rs".toList :=
  (partition_tree σ preSrc restRs ⟨3, 4⟩ ⟨4, 3⟩ ['s', 'r', 'c'] (spells_sms σ spellsSrc)
    (by simp [preSrc]) (by simp [restRs]) _).mpr ⟨"x/y.rs".toList, by decide,
      (specRe_correct σcs rfl (.cat ⟨0, 0⟩ (.tree ⟨4, 3⟩ false :: restRs)) _).mp (by decide)⟩
-- ... and `src/y.rs` too (the tree wildcard matches nothing)
example : ∃ r, "src/y.rs".toList = ['s', 'r', 'c'] ++ '/' :: r ∧
      SMs σ ⟨true, true⟩ (.tree ⟨4, 3⟩ false :: restRs) r :=
  (partition_tree σ preSrc restRs ⟨3, 4⟩ ⟨4, 3⟩ ['s', 'r', 'c'] (spells_sms σ spellsSrc)
    (by simp [preSrc]) (by simp [restRs]) _).mp
    (show Spec.Matches σ gSrc _ from (specRe_correct σcs rfl _ _).mp (by decide))

-- partition_tree_last: `src/**` matches `src` itself and `src/a/b`, and not `srcx`
example : SMs σ ⟨true, true⟩ (preSrc ++ [.tree ⟨3, 3⟩ true]) "src".toList :=
  (partition_tree_last σ preSrc ⟨3, 3⟩ ['s', 'r', 'c'] (spells_sms σ spellsSrc)
    (by simp [preSrc]) _).mpr (.inl (by decide))
example : Spec.Matches σ gSrcAll "src/a/b".toList :=
  (partition_tree_last σ preSrc ⟨3, 3⟩ ['s', 'r', 'c'] (spells_sms σ spellsSrc)
    (by simp [preSrc]) _).mpr (.inr ⟨"a/b".toList, by decide⟩)
example : ¬ Spec.Matches σ gSrcAll "srcx".toList := fun h =>
  ((partition_tree_last σ preSrc ⟨3, 3⟩ ['s', 'r', 'c'] (spells_sms σ spellsSrc)
    (by simp [preSrc]) _).mp h).elim (by decide) (fun ⟨r, hr⟩ => by simp at hr)

/-- `{a,b*}/c` -/
def fAlt : Tok := .alt ⟨0, 6⟩ [.cat ⟨1, 1⟩ [.lit ⟨1, 1⟩ ['a'] false],
  .cat ⟨3, 2⟩ [.lit ⟨3, 1⟩ ['b'] false, .zom ⟨4, 1⟩ false]]
def gNone : Tok := .cat ⟨0, 8⟩ [fAlt, .sep ⟨6, 1⟩, .lit ⟨7, 1⟩ ['c'] false]
theorem gNone_parse : parse "{a,b*}/c".toList = .ok gNone := by rfl

-- partition_none: `{a,b*}/c` begins with a variant, unrooted alternation: nothing is cut
example : ∃ t', partition κ gNone = ([], 0, some t') ∧ t' = gNone.mapSpans (shiftSpan 0) ∧
    t' = gNone ∧ ∀ w, Spec.Matches σ gNone w ↔ Spec.Matches σ t' w :=
  partition_none σ κ gNone fAlt [.sep ⟨6, 1⟩, .lit ⟨7, 1⟩ ['c'] false] rfl
    (isInv_false.mp (by decide)) (by decide)

-- partition_idempotent: `a/b/{x,*y}/**/z` (separator boundary) and `src/**/*.rs` (tree boundary)
example : partition κ qAB = ([], 0, some qAB) :=
  partition_idempotent κ gAB "a/b/".toList 4 qAB rfl (by decide)
/-- the postfix of `src/**/*.rs`: `**/*.rs`, the tree wildcard unrooted, spans re-based -/
def qSrc : Tok := .cat ⟨0, 11⟩ [.tree ⟨0, 3⟩ false, .zom ⟨3, 1⟩ false,
  .lit ⟨4, 3⟩ ['.', 'r', 's'] false]
example : partition κ gSrc = ("src".toList, 4, some qSrc) := by rfl
example : partition κ qSrc = ([], 0, some qSrc) :=
  partition_idempotent κ gSrc "src".toList 4 qSrc rfl (by decide)

-- postfix_unrooted: `a/b/{x,*y}/**/z` and `src/**/*.rs` satisfy `partOk`
example : hasRoot qAB ≠ .always :=
  postfix_unrooted κ gAB (by decide) (P := "a/b/".toList) (off := 4) rfl
example : hasRoot qSrc ≠ .always :=
  postfix_unrooted κ gSrc (by decide) (P := "src".toList) (off := 4) rfl

-- partition_again: the same two globs
example : partition κ qAB = ([], 0, some qAB) :=
  partition_again κ gAB (by decide) (P := "a/b/".toList) (off := 4) rfl
example : partition κ qSrc = ([], 0, some qSrc) :=
  partition_again κ gSrc (by decide) (P := "src".toList) (off := 4) rfl

end D
end Wax.NonVacuity.C08

namespace Wax.NonVacuity.C17
open Wax
namespace D   -- helper names of this file stay apart from other witness files

/-- `é/**/{b,(?i)c}<d:1,2>*` (a two-byte character in front; inline flags inside a branch) -/
def eE : Str := "é/**/{b,(?i)c}<d:1,2>*".toList
def altE : Tok := .alt ⟨6, 9⟩ [.cat ⟨7, 1⟩ [.lit ⟨7, 1⟩ ['b'] false],
  .cat ⟨9, 5⟩ [.lit ⟨9, 5⟩ ['c'] true]]
def repE : Tok := .rep ⟨15, 7⟩ (.cat ⟨16, 1⟩ [.lit ⟨16, 1⟩ ['d'] true]) 1 (some 2)
def tsE : List Tok := [.lit ⟨0, 2⟩ ['é'] false, .tree ⟨2, 4⟩ true, altE, repE, .zom ⟨22, 1⟩ false]
def tE : Tok := .cat ⟨0, 23⟩ tsE
theorem tE_parse : parse eE = .ok tE := by rfl

/-- `é/**/{**/a,b}`: parses, rejected by the boundary rule one queue generation down -/
def eR : Str := "é/**/{**/a,b}".toList
def tR : Tok := .cat ⟨0, 14⟩ [.lit ⟨0, 2⟩ ['é'] false, .tree ⟨2, 4⟩ true,
  .alt ⟨6, 8⟩ [.cat ⟨7, 4⟩ [.tree ⟨7, 3⟩ false, .lit ⟨10, 1⟩ ['a'] false],
    .cat ⟨12, 1⟩ [.lit ⟨12, 1⟩ ['b'] false]]]
theorem tR_parse : parse eR = .ok tR := by rfl
theorem tR_check : check tR = .ok (some (.adjBoundary, ⟨6, 8⟩)) := by rfl

/-- `é//b`: parses, rejected, the reported span is the union of the spans of the two separators -/
def eS : Str := "é//b".toList
def tS : Tok := .cat ⟨0, 5⟩ [.lit ⟨0, 2⟩ ['é'] false, .sep ⟨2, 1⟩, .sep ⟨3, 1⟩,
  .lit ⟨4, 1⟩ ['b'] false]
theorem tS_parse : parse eS = .ok tS := by rfl
theorem tS_check : check tS = .ok (some (.adjBoundary, ⟨2, 2⟩)) := by rfl

-- parse_err_boundary: `é{b` (unclosed alternation, error at byte 2 = after the two-byte `é`)
example : ∀ l ∈ [2], Boundary "é{b".toList l :=
  parse_err_boundary "é{b".toList [2] (by rfl)
-- ... and `(?i){é` (the first token fails: four entries, the first one after the flags)
example : ∀ l ∈ [4, 0, 0, 0], Boundary "(?i){é".toList l :=
  parse_err_boundary "(?i){é".toList [4, 0, 0, 0] (by rfl)

-- Span.union_valid: the two separators of `é//b`, boundaries = character boundaries of `é//b`
example : (Span.union ⟨2, 1⟩ ⟨3, 1⟩).Valid (Boundary eS) (ulen eS) :=
  Span.union_valid (a := ⟨2, 1⟩) (b := ⟨3, 1⟩)
    ⟨by decide, ⟨['é'], ['/', '/', 'b'], by decide, by decide⟩,
      ⟨['é', '/'], ['/', 'b'], by decide, by decide⟩⟩
    ⟨by decide, ⟨['é', '/'], ['/', 'b'], by decide, by decide⟩,
      ⟨['é', '/', '/'], ['b'], by decide, by decide⟩⟩
example : Span.union ⟨2, 1⟩ ⟨3, 1⟩ = ⟨2, 2⟩ := by rfl

-- build_error_span_ok: `é/**/{**/a,b}` is rejected with the span of the alternation
example : SpanOk eR ⟨6, 8⟩ := build_error_span_ok eR tR .adjBoundary ⟨6, 8⟩ tR_parse tR_check
-- ... and `é//b` with the union of two token spans
example : SpanOk eS ⟨2, 2⟩ := build_error_span_ok eS tS .adjBoundary ⟨2, 2⟩ tS_parse tS_check

-- check_span_provenance: `é//b`: the reported span ⟨2,2⟩ is no token span; it is a union
example : (⟨2, 2⟩ : Span) ∈ tS.spans ∨
    ∃ a b, a ∈ tS.spans ∧ b ∈ tS.spans ∧ (⟨2, 2⟩ : Span) = a.union b :=
  check_span_provenance tS .adjBoundary ⟨2, 2⟩ tS_check
example : tS.spans = [⟨0, 5⟩, ⟨0, 2⟩, ⟨2, 1⟩, ⟨3, 1⟩, ⟨4, 1⟩] := by rfl
-- ... `é/**/{**/a,b}`: the reported span is the span of the alternation
example : (⟨6, 8⟩ : Span) ∈ tR.spans ∨
    ∃ a b, a ∈ tR.spans ∧ b ∈ tR.spans ∧ (⟨6, 8⟩ : Span) = a.union b :=
  check_span_provenance tR .adjBoundary ⟨6, 8⟩ tR_check

-- build_error_span_slice: `é/**/{**/a,b}`, the slice is `{**/a,b}`
example : 6 + 8 ≤ ulen eR ∧
    ∃ pre mid post, eR = pre ++ mid ++ post ∧ 6 = ulen pre ∧ 8 = ulen mid :=
  build_error_span_slice eR tR .adjBoundary ⟨6, 8⟩ tR_parse tR_check

-- SpanOk.within: the span reported for `é//b`
example : 2 + 2 ≤ ulen eS :=
  SpanOk.within (build_error_span_ok eS tS .adjBoundary ⟨2, 2⟩ tS_parse tS_check)
-- ... with the hypothesis built by hand
example : 2 + 2 ≤ ulen eS :=
  SpanOk.within (e := eS) (sp := ⟨2, 2⟩)
    ⟨⟨['é'], ['/', '/', 'b'], by decide, by decide⟩, ⟨['é', '/', '/'], ['b'], by decide, by decide⟩⟩

-- parse_spans_delims: `é/**/{b,(?i)c}<d:1,2>*`
example : delims eE tE = true := parse_spans_delims eE tE tE_parse

-- capture_order: `é/**/{b,(?i)c}<d:1,2>*` has four captures
example : (captures tE).map Prod.fst = List.range' 1 (captures tE).length ∧
    (captures tE).Pairwise (fun a b => a.1 < b.1 ∧ a.2.fin ≤ b.2.start) ∧
    ∀ c ∈ captures tE, 0 < c.2.len ∧ c.2.fin ≤ ulen eE :=
  capture_order eE tE tE_parse
example : captures tE = [(1, ⟨2, 4⟩), (2, ⟨6, 9⟩), (3, ⟨15, 7⟩), (4, ⟨22, 1⟩)] := by rfl

-- capture_span_reparse: the alternation `{b,(?i)c}` of `é/**/{b,(?i)c}<d:1,2>*`
example : ∃ c t', parseCi c (sliceB eE ⟨6, 9⟩) = .ok (.cat ⟨0, 9⟩ [t']) ∧
    t'.mapSpans (Span.shift 6) = altE ∧ (c = false ∨ '(' ∈ takeB eE 6) :=
  capture_span_reparse eE ⟨0, 23⟩ tsE [.lit ⟨0, 2⟩ ['é'] false, .tree ⟨2, 4⟩ true]
    [repE, .zom ⟨22, 1⟩ false] altE tE_parse rfl rfl
-- ... and the repetition `<d:1,2>`, whose body is case-insensitive because of the `(?i)` before
-- it: the slice must be parsed in the state `c = true`
example : ∃ c t', parseCi c (sliceB eE ⟨15, 7⟩) = .ok (.cat ⟨0, 7⟩ [t']) ∧
    t'.mapSpans (Span.shift 15) = repE ∧ (c = false ∨ '(' ∈ takeB eE 15) :=
  capture_span_reparse eE ⟨0, 23⟩ tsE [.lit ⟨0, 2⟩ ['é'] false, .tree ⟨2, 4⟩ true, altE]
    [.zom ⟨22, 1⟩ false] repE tE_parse rfl rfl
example : sliceB eE ⟨15, 7⟩ = "<d:1,2>".toList := by decide

end D
end Wax.NonVacuity.C17

namespace Wax.NonVacuity.C18
open Wax
namespace D   -- helper names of this file stay apart from other witness files

/-- a text full of pattern syntax: `a*/{b}?` -/
def s1 : Str := "a*/{b}?".toList
/-- a text with two adjacent separators: `a*//b` -/
def s2 : Str := "a*//b".toList

-- escape_matches_exactly: `a*/{b}?` escapes to `a\*/\{b\}\?`; its program accepts exactly the text
example : ∃ t, parse (escape s1) = .ok t ∧ F01 t = true ∧
    ∀ w, Matches σcs (encodeTop t) w ↔ w = s1 :=
  escape_matches_exactly σcs rfl s1 (by decide) (by decide)
example : escape s1 = "a\\*/\\{b\\}\\?".toList := by decide
-- ... so it accepts `a*/{b}?` and rejects `ab/bc`, which the unescaped glob would accept
example : ∃ t, parse (escape s1) = .ok t ∧ Matches σcs (encodeTop t) s1 ∧
    ¬ Matches σcs (encodeTop t) "ab/bc".toList := by
  obtain ⟨t, hp, _, h⟩ := escape_matches_exactly σcs rfl s1 (by decide) (by decide)
  exact ⟨t, hp, (h _).mpr rfl, fun hm => absurd ((h _).mp hm) (by decide)⟩

-- escape_check_iff: `a*/{b}?` (builds) and `a*//b` (does not build: `//`)
example : ∃ toks, parse (escape s1) = .ok (.cat ⟨0, ulen (escape s1)⟩ toks) ∧
    (check (.cat ⟨0, ulen (escape s1)⟩ toks) = .ok none ↔
      (noDoubleSep s1 = true ∧ ulen s1 < Generated.maxInvariantSize)) :=
  escape_check_iff s1 (by decide) (by decide) (by decide)
example : ∃ toks, parse (escape s1) = .ok (.cat ⟨0, 11⟩ toks) ∧
    check (.cat ⟨0, 11⟩ toks) = .ok none := by
  obtain ⟨toks, hp, h⟩ := escape_check_iff s1 (by decide) (by decide) (by decide)
  exact ⟨toks, hp, h.mpr ⟨by decide, by decide⟩⟩
example : ∃ toks, parse (escape s2) = .ok (.cat ⟨0, 6⟩ toks) ∧
    check (.cat ⟨0, 6⟩ toks) ≠ .ok none := by
  obtain ⟨toks, hp, h⟩ := escape_check_iff s2 (by decide) (by decide) (by decide)
  exact ⟨toks, hp, fun hc => absurd (h.mp hc).1 (by decide)⟩

theorem chunk2 (a b : Char) (ha : a ≠ '/' ∧ a ≠ '\\') (hb : b ≠ '/' ∧ b ≠ '\\') : Chunk [a, b] := by
  intro d hd; simp at hd; rcases hd with rfl | rfl <;> assumption
theorem chunk1 (a : Char) (ha : a ≠ '/' ∧ a ≠ '\\') : Chunk [a] := by
  intro d hd; simp at hd; subst hd; exact ha

/-- the tokens of the escaped text `a\*//b` of `a*//b` -/
def toks2 : List Tok := [.lit ⟨0, 3⟩ ['a', '*'] false, .sep ⟨3, 1⟩, .sep ⟨4, 1⟩,
  .lit ⟨5, 1⟩ ['b'] false]
theorem toks2_parse : parse (escape s2) = .ok (.cat ⟨0, 6⟩ toks2) := by rfl
theorem spells2 : Spells 0 toks2 s2 :=
  Spells.lit 0 ['a', '*'] _ ['/', '/', 'b'] (by simp) (chunk2 _ _ (by decide) (by decide))
    (.inr ⟨_, rfl⟩)
    (Spells.sep 3 _ ['/', 'b'] (Spells.sep 4 _ ['b']
      (Spells.lit 5 ['b'] [] [] (by simp) (chunk1 _ (by decide)) (.inl rfl) (Spells.nil 6))))
/-- the tokens of the escaped text `a\*/b` of `a*/b` -/
def toks3 : List Tok := [.lit ⟨0, 3⟩ ['a', '*'] false, .sep ⟨3, 1⟩, .lit ⟨4, 1⟩ ['b'] false]
theorem spells3 : Spells 0 toks3 "a*/b".toList :=
  Spells.lit 0 ['a', '*'] _ ['/', 'b'] (by simp) (chunk2 _ _ (by decide) (by decide))
    (.inr ⟨_, rfl⟩)
    (Spells.sep 3 _ ['b']
      (Spells.lit 4 ['b'] [] [] (by simp) (chunk1 _ (by decide)) (.inl rfl) (Spells.nil 5)))

-- spells_checkS: the tokens of `a\*//b` (verdict false) and of `a\*/b` (verdict true)
example : checkS (.cat ⟨0, 6⟩ toks2) = noDoubleSep s2 := spells_checkS spells2 ⟨0, 6⟩
example : noDoubleSep s2 = false := by decide
example : checkS (.cat ⟨0, 5⟩ toks3) = noDoubleSep "a*/b".toList := spells_checkS spells3 ⟨0, 5⟩
example : noDoubleSep "a*/b".toList = true := by decide

end D
end Wax.NonVacuity.C18

namespace Wax.NonVacuity.Findings_D
open Wax Wax.AdjN

/-- the tree of `<*a*:2>` -/
def tZ : Tok := .cat ⟨0, 7⟩ [.rep ⟨0, 7⟩ (.cat ⟨1, 3⟩ [.zom ⟨1, 1⟩ false, .lit ⟨2, 1⟩ ['a'] false,
  .zom ⟨3, 1⟩ false]) 2 (some 2)]
theorem tZ_parse : parse "<*a*:2>".toList = .ok tZ := by rfl

/-- FINDING 1 (C06, `build_noAdjZom` / `build_eq_wfSpec_partial` weaker than their `says`).
Rule R2 is proved -- and is evaluated by the specification `wfSpec` itself -- only over the
expansions in which every repetition body is written ONCE (`expTok false`), whereas R1 uses
"once or twice" (`expTok true`).  `<*a*:2>` parses, lies in the fragment (`repsSafe`, `onceOpen`),
is accepted by `checkS` and by the queue-driven `check`, has `wfSpec = some true`, and yet its
only real expansion `*a**a*` (body written twice) has two adjacent zero-or-more wildcards. -/
theorem zom_twice_counterexample :
    ¬ (∀ (e : Str) (t : Tok) (es : List (List LK)), parse e = .ok t → expTok true t = some es →
        checkS t = true → es.all (noAdj LK.isZ) = true) := by
  intro h
  have := h _ tZ [[.zomK, .other, .zomK], [.zomK, .other, .zomK, .zomK, .other, .zomK]]
    tZ_parse rfl (by decide)
  revert this; decide
example : repsSafe Tok.isBoundaryT tZ = true ∧ onceOpen Tok.isBoundaryT tZ = true ∧
    checkS tZ = true := by decide
example : check tZ = .ok none := by rfl
example : wfSpec tZ = some true := by rfl

/-- the tree of `</a:1,>` -/
def tRep : Tok := .cat ⟨0, 7⟩ [.rep ⟨0, 7⟩ (.cat ⟨1, 2⟩ [.sep ⟨1, 1⟩, .lit ⟨2, 1⟩ ['a'] false])
  1 none]
theorem tRep_parse : parse "</a:1,>".toList = .ok tRep := by rfl

/-- FINDING 2 (C08, `postfix_unrooted` / `partition_again`: the hypothesis contains the
conclusion).  `partOk κ t = partLangOk κ t && keptUnrooted κ t`, and `keptUnrooted` IS the
statement "the first kept token, unrooted, does not report `Always`"; the theorem only transports
it along `hasRoot_postfix`.  The hypothesis is not implied by "parses and builds": `</a:1,>`
parses, `check` accepts it, `partOk` is false, and the conclusions of both theorems fail (the
postfix is the glob itself, reports `Always`, and is split into `/` and itself again). -/
example : check tRep = .ok none ∧ partOk drvCasing tRep = false ∧
    partition drvCasing tRep = (['/'], 0, some tRep) ∧ hasRoot tRep = .always :=
  ⟨by rfl, by decide, by rfl, by decide⟩

/-- FINDING 3 (C18, every theorem carries `'\\' ∉ s`, which the `says` lines do not mention).
The hypothesis hides a real failure: a backslash is not a meta-character, `escape` leaves it
alone, and the escaped text of `a\b` does not parse (the parser has no escape for `\` itself). -/
example : escape ['a', '\\', 'b'] = ['a', '\\', 'b'] ∧
    parse (escape ['a', '\\', 'b']) = .err [0, 0, 0, 0] := ⟨by decide, by rfl⟩

-- NOTE 4 (C17, `capture_span_reparse`, slightly weaker than its `says`): the flag state `c` is
-- existentially quantified; the statement does not say that `c` is the state in force where the
-- capture starts, only that `c = false` unless a `(` occurs somewhere before the capture.
-- NOTE 5 (C08, `partition_none`): the language clause is `Iff.rfl` (`t' = t`), as its `says` admits.
-- NOTE 6 (C17, `parse_err_boundary`): in the model a parse error carries `[]`, `[q, 0, 0, 0]` or
-- `[q]`; only `q` is informative, the three zeros are boundaries trivially.

end Wax.NonVacuity.Findings_D

/-! ## ===== batch E ===== -/
namespace Wax.NonVacuity.C09
open Wax

/-! Non-vacuity witnesses (group E: C09, C10).  Every `example` instantiates the named theorem on a
tree that is the `parse` of a real glob expression (wildcards, classes, alternations, repetitions,
tree wildcards) and on a concrete path; membership in the documented language is discharged through
the verified deciders (`specRe_correct`, `matchB_iff`), never assumed. -/

/-- decide `Spec.Matches σcs t w` through the verified oracle -/
theorem specM_E (t : Tok) (w : Str) (h : (specRe t).matchB σcs w = true) : Spec.Matches σcs t w :=
  (specRe_correct σcs rfl t w).mp ((matchB_iff _ _ _).mp h)

/-! `{a?/**,b/*/**}` : an alternation both of whose branches end in a tree wildcard -/
def altTs_E : List Tok :=
  [.alt ⟨0, 14⟩
    [.cat ⟨1, 5⟩ [.lit ⟨1, 1⟩ ['a'] false, .one ⟨2, 1⟩, .tree ⟨3, 3⟩ true],
     .cat ⟨7, 6⟩ [.lit ⟨7, 1⟩ ['b'] false, .sep ⟨8, 1⟩, .zom ⟨9, 1⟩ false, .tree ⟨10, 3⟩ true]]]
def altTok_E : Tok := .cat ⟨0, 14⟩ altTs_E

set_option maxRecDepth 100000 in
example : parse "{a?/**,b/*/**}".toList = .ok altTok_E := by rfl

-- endsInTree_descClosed: `{a?/**,b/*/**}` matches `b/xy`, hence `b/xy/q/r`
example : Spec.Matches σcs altTok_E ['b', '/', 'x', 'y', '/', 'q', '/', 'r'] :=
  endsInTree_descClosed σcs altTok_E (by decide) ['b', '/', 'x', 'y']
    (specM_E _ _ (by decide)) ['q', '/', 'r']

/-! `src/[a-c]?/**` : literal, class, `?`, then a tree wildcard as last top-level token -/
def srcSp_E : Span := ⟨0, 13⟩
def srcTs_E : List Tok :=
  [.lit ⟨0, 3⟩ ['s', 'r', 'c'] false, .sep ⟨3, 1⟩, .cls ⟨4, 5⟩ false [.rng 'a' 'c'], .one ⟨9, 1⟩,
   .tree ⟨10, 3⟩ true]

set_option maxRecDepth 100000 in
example : parse "src/[a-c]?/**".toList = .ok (.cat srcSp_E srcTs_E) := by rfl

-- exhaustive_sound_partial: `src/[a-c]?/**` (verdict Always) matches `src/bz`, hence `src/bz/q/r.x`
example : Spec.Matches σcs (.cat srcSp_E srcTs_E)
    ['s', 'r', 'c', '/', 'b', 'z', '/', 'q', '/', 'r', '.', 'x'] :=
  exhaustive_sound_partial σcs srcSp_E srcTs_E (.tree ⟨10, 3⟩ true) rfl (.inl rfl) rfl
    ['s', 'r', 'c', '/', 'b', 'z'] (specM_E _ _ (by decide)) ['q', '/', 'r', '.', 'x']

-- exhaustive_sound_partial, second disjunct of the fragment (last token `?`, not taken by the scan):
-- `a/**/b?` reports Never, so there the theorem says nothing (hypothesis `Always` fails)
example : isExhaustive (.cat ⟨0, 7⟩ [.lit ⟨0, 1⟩ ['a'] false, .tree ⟨1, 4⟩ true,
    .lit ⟨5, 1⟩ ['b'] false, .one ⟨6, 1⟩]) = .ok .never := rfl

-- exhaustive_sound_compiled: the COMPILED program of `src/[a-c]?/**` (in F01) accepts `src/bz`,
-- hence `src/bz/q/r.x`
example : Matches σcs (encodeTop (.cat srcSp_E srcTs_E))
    ['s', 'r', 'c', '/', 'b', 'z', '/', 'q', '/', 'r', '.', 'x'] :=
  exhaustive_sound_compiled σcs rfl srcSp_E srcTs_E (.tree ⟨10, 3⟩ true) rfl (.inl rfl) (by decide) rfl
    ['s', 'r', 'c', '/', 'b', 'z'] ['q', '/', 'r', '.', 'x'] ((matchB_iff _ _ _).mp (by decide))

/-! `s[a-c]/**/*` : ends in a tree wildcard followed by `*` -/
def tzSp_E : Span := ⟨0, 11⟩
def tzPre_E : List Tok := [.lit ⟨0, 1⟩ ['s'] false, .cls ⟨1, 5⟩ false [.rng 'a' 'c']]

set_option maxRecDepth 100000 in
example : parse "s[a-c]/**/*".toList =
    .ok (.cat tzSp_E (tzPre_E ++ [.tree ⟨6, 4⟩ true, .zom ⟨10, 1⟩ false])) := by rfl

-- treeZom_descClosed: `s[a-c]/**/*` matches `sa/x`, hence `sa/x/y/z`
example : Spec.Matches σcs (.cat tzSp_E (tzPre_E ++ [.tree ⟨6, 4⟩ true, .zom ⟨10, 1⟩ false]))
    ['s', 'a', '/', 'x', '/', 'y', '/', 'z'] :=
  treeZom_descClosed σcs tzSp_E ⟨6, 4⟩ ⟨10, 1⟩ tzPre_E true false ['s', 'a', '/', 'x'] ['y', '/', 'z']
    (specM_E _ _ (by decide))

/-! `a/{b?/**,<c/**:1,>}` : last token an alternation of a concatenation and a repetition (at least
once), all of whose expansions end in a tree wildcard -/
def brSp_E : Span := ⟨0, 19⟩
def brTs_E : List Tok :=
  [.lit ⟨0, 1⟩ ['a'] false, .sep ⟨1, 1⟩,
   .alt ⟨2, 17⟩
     [.cat ⟨3, 5⟩ [.lit ⟨3, 1⟩ ['b'] false, .one ⟨4, 1⟩, .tree ⟨5, 3⟩ true],
      .cat ⟨9, 9⟩ [.rep ⟨9, 9⟩ (.cat ⟨10, 4⟩ [.lit ⟨10, 1⟩ ['c'] false, .tree ⟨11, 3⟩ true]) 1 none]]]

set_option maxRecDepth 100000 in
example : parse "a/{b?/**,<c/**:1,>}".toList = .ok (.cat brSp_E brTs_E) := by rfl

-- exhaustive_sound_branch_partial: `a/{b?/**,<c/**:1,>}` (in F09b, verdict Always) matches
-- `a/c/c` (two iterations), hence `a/c/c/x/y`
example : Spec.Matches σcs (.cat brSp_E brTs_E) ['a', '/', 'c', '/', 'c', '/', 'x', '/', 'y'] :=
  exhaustive_sound_branch_partial σcs brSp_E brTs_E (by decide) rfl ['a', '/', 'c', '/', 'c']
    (specM_E _ _ (by decide)) ['x', '/', 'y']

-- exhaustive_sound_branch_partial, third disjunct of F09b: `s[a-c]/**/*` (not `endsList`, not
-- `shList`, ends in `** *`, verdict Always) matches `sa/x`, hence `sa/x/y/z`
example : F09b (tzPre_E ++ [.tree ⟨6, 4⟩ true, .zom ⟨10, 1⟩ false]) = true ∧
    endsList (tzPre_E ++ [.tree ⟨6, 4⟩ true, .zom ⟨10, 1⟩ false]) = false ∧
    shList false (tzPre_E ++ [.tree ⟨6, 4⟩ true, .zom ⟨10, 1⟩ false]) = false ∧
    Spec.Matches σcs (.cat tzSp_E (tzPre_E ++ [.tree ⟨6, 4⟩ true, .zom ⟨10, 1⟩ false]))
      ['s', 'a', '/', 'x', '/', 'y', '/', 'z'] :=
  ⟨by decide, by decide, by decide,
   exhaustive_sound_branch_partial σcs tzSp_E _ (by decide) rfl ['s', 'a', '/', 'x']
    (specM_E _ _ (by decide)) ['y', '/', 'z']⟩

/-! `a/{b?/**,c/*/**}` -/
def rtSp_E : Span := ⟨0, 16⟩
def rtTs_E : List Tok :=
  [.lit ⟨0, 1⟩ ['a'] false, .sep ⟨1, 1⟩,
   .alt ⟨2, 14⟩
     [.cat ⟨3, 5⟩ [.lit ⟨3, 1⟩ ['b'] false, .one ⟨4, 1⟩, .tree ⟨5, 3⟩ true],
      .cat ⟨9, 6⟩ [.lit ⟨9, 1⟩ ['c'] false, .sep ⟨10, 1⟩, .zom ⟨11, 1⟩ false, .tree ⟨12, 3⟩ true]]]

set_option maxRecDepth 100000 in
example : parse "a/{b?/**,c/*/**}".toList = .ok (.cat rtSp_E rtTs_E) := by rfl

-- exhaustive_beneath_branch_root: `a/{b?/**,c/*/**}` (F09b, Always, cannot match `""` or `/`)
-- matches the canonical path `a/c/x`, hence `a/c/x/y/z`, which is beneath it
example : Spec.Matches σcs (.cat rtSp_E rtTs_E) ['a', '/', 'c', '/', 'x', '/', 'y', '/', 'z'] :=
  exhaustive_beneath_branch_root σcs rtSp_E rtTs_E (by decide) rfl (by decide)
    ['a', '/', 'c', '/', 'x'] ['a', '/', 'c', '/', 'x', '/', 'y', '/', 'z'] (by decide)
    (specM_E _ _ (by decide)) (by decide)

end Wax.NonVacuity.C09

namespace Wax.NonVacuity.C10
open Wax

theorem σcs_sepIsolated_E : SepIsolated σcs := by
  intro a b h
  have : a = b := by simpa [σcs] using h
  subst this; rfl

/-- decide `Spec.Matches σcs t w` through the verified oracle -/
theorem specM_E (t : Tok) (w : Str) (h : (specRe t).matchB σcs w = true) : Spec.Matches σcs t w :=
  (specRe_correct σcs rfl t w).mp ((matchB_iff _ _ _).mp h)

/-! `a?/**/[x-z]*.rs` : a flat concatenation of leaves with `?`, a tree wildcard, a class, `*` -/
def flSp_E : Span := ⟨0, 15⟩
def flTs_E : List Tok :=
  [.lit ⟨0, 1⟩ ['a'] false, .one ⟨1, 1⟩, .tree ⟨2, 4⟩ true, .cls ⟨6, 5⟩ false [.rng 'x' 'z'],
   .zom ⟨11, 1⟩ false, .lit ⟨12, 3⟩ ['.', 'r', 's'] false]

set_option maxRecDepth 100000 in
example : parse "a?/**/[x-z]*.rs".toList = .ok (.cat flSp_E flTs_E) := by rfl

-- depthVariance_flat: on `a?/**/[x-z]*.rs` the general fold is the flat fold (both: at least 2)
example : depthVariance (.cat flSp_E flTs_E) = depthFlat flTs_E ∧ depthFlat flTs_E = .ok (.bnd (.lower 2)) :=
  ⟨depthVariance_flat flSp_E flTs_E (by decide), rfl⟩

-- depth_sound_tree_glob: `a?/**/[x-z]*.rs` reports "at least 2"; the matched path `ab/p/q/y1.rs`
-- (no trailing separator) has 4 components
example : (NVar.bnd (.lower 2)).mem (depthOf ['a', 'b', '/', 'p', '/', 'q', '/', 'y', '1', '.', 'r', 's']) ∧
    depthOf ['a', 'b', '/', 'p', '/', 'q', '/', 'y', '1', '.', 'r', 's'] = 4 :=
  ⟨depth_sound_tree_glob σcs σcs_sepIsolated_E flSp_E flTs_E (by decide) (.bnd (.lower 2)) rfl
    ['a', 'b', '/', 'p', '/', 'q', '/', 'y', '1', '.', 'r', 's'] (specM_E _ _ (by decide)) (by decide),
   by decide⟩

/-! `src/**/[a-c]?.rs` -/
def trTs_E : List Tok :=
  [.lit ⟨0, 3⟩ ['s', 'r', 'c'] false, .tree ⟨3, 4⟩ true, .cls ⟨7, 5⟩ false [.rng 'a' 'c'],
   .one ⟨12, 1⟩, .lit ⟨13, 3⟩ ['.', 'r', 's'] false]

set_option maxRecDepth 100000 in
example : parse "src/**/[a-c]?.rs".toList = .ok (.cat ⟨0, 16⟩ trTs_E) := by rfl

-- depth_sound_tree_partial: `src/**/[a-c]?.rs` reports "at least 2" (flat fold); the matched path
-- `src/bz.rs` attains the bound
example : (NVar.bnd (.lower 2)).mem (depthOf ['s', 'r', 'c', '/', 'b', 'z', '.', 'r', 's']) ∧
    depthOf ['s', 'r', 'c', '/', 'b', 'z', '.', 'r', 's'] = 2 :=
  ⟨depth_sound_tree_partial σcs σcs_sepIsolated_E trTs_E (by decide) (.bnd (.lower 2)) rfl
    ['s', 'r', 'c', '/', 'b', 'z', '.', 'r', 's'] (specM_E (.cat ⟨0, 16⟩ trTs_E) _ (by decide)) (by decide),
   by decide⟩

/-! `{a,b?}/**/<[x-z]:1,2>.c` : alternation, tree wildcard and repetition (in F10c, not in F10b) -/
def btTok_E : Tok :=
  .cat ⟨0, 23⟩
    [.alt ⟨0, 6⟩ [.cat ⟨1, 1⟩ [.lit ⟨1, 1⟩ ['a'] false],
       .cat ⟨3, 2⟩ [.lit ⟨3, 1⟩ ['b'] false, .one ⟨4, 1⟩]],
     .tree ⟨6, 4⟩ true,
     .rep ⟨10, 11⟩ (.cat ⟨11, 5⟩ [.cls ⟨11, 5⟩ false [.rng 'x' 'z']]) 1 (some 2),
     .lit ⟨21, 2⟩ ['.', 'c'] false]

set_option maxRecDepth 100000 in
example : parse "{a,b?}/**/<[x-z]:1,2>.c".toList = .ok btTok_E := by rfl

example : F10c btTok_E = true ∧ F10b btTok_E = false := ⟨by decide, by decide⟩

-- depth_sound_branch_tree_partial: `{a,b?}/**/<[x-z]:1,2>.c` reports "at least 2"; the matched
-- canonical path `bq/m/xy.c` has 3 components
example : (NVar.bnd (.lower 2)).mem (depthOf ['b', 'q', '/', 'm', '/', 'x', 'y', '.', 'c']) ∧
    depthOf ['b', 'q', '/', 'm', '/', 'x', 'y', '.', 'c'] = 3 :=
  ⟨depth_sound_branch_tree_partial σcs σcs_sepIsolated_E btTok_E (by decide) (.bnd (.lower 2)) rfl
    ['b', 'q', '/', 'm', '/', 'x', 'y', '.', 'c'] (specM_E _ _ (by decide)) (by decide),
   by decide⟩

/-! `{a?,b/[c-d]}/<x/:1,2>y` : tree-free, alternation with branches of different depth and a
bounded repetition of a component -/
def bpTok_E : Tok :=
  .cat ⟨0, 22⟩
    [.alt ⟨0, 12⟩ [.cat ⟨1, 2⟩ [.lit ⟨1, 1⟩ ['a'] false, .one ⟨2, 1⟩],
       .cat ⟨4, 7⟩ [.lit ⟨4, 1⟩ ['b'] false, .sep ⟨5, 1⟩, .cls ⟨6, 5⟩ false [.rng 'c' 'd']]],
     .sep ⟨12, 1⟩,
     .rep ⟨13, 8⟩ (.cat ⟨14, 2⟩ [.lit ⟨14, 1⟩ ['x'] false, .sep ⟨15, 1⟩]) 1 (some 2),
     .lit ⟨21, 1⟩ ['y'] false]

set_option maxRecDepth 100000 in
example : parse "{a?,b/[c-d]}/<x/:1,2>y".toList = .ok bpTok_E := by rfl

-- depth_sound_branch_partial: `{a?,b/[c-d]}/<x/:1,2>y` reports the range 3..5; the matched
-- canonical path `b/d/x/x/y` has 5 components (upper end), `az/x/y` has 3 (lower end)
example : (NVar.bnd (.both 3 2)).mem (depthOf ['b', '/', 'd', '/', 'x', '/', 'x', '/', 'y']) ∧
    depthOf ['b', '/', 'd', '/', 'x', '/', 'x', '/', 'y'] = 5 :=
  ⟨depth_sound_branch_partial σcs σcs_sepIsolated_E bpTok_E (by decide) (.bnd (.both 3 2)) rfl
    ['b', '/', 'd', '/', 'x', '/', 'x', '/', 'y'] (specM_E _ _ (by decide)) (by decide),
   by decide⟩
example : (NVar.bnd (.both 3 2)).mem (depthOf ['a', 'z', '/', 'x', '/', 'y']) ∧
    depthOf ['a', 'z', '/', 'x', '/', 'y'] = 3 :=
  ⟨depth_sound_branch_partial σcs σcs_sepIsolated_E bpTok_E (by decide) (.bnd (.both 3 2)) rfl
    ['a', 'z', '/', 'x', '/', 'y'] (specM_E _ _ (by decide)) (by decide),
   by decide⟩

/-! natural ranges -/

-- translation_sound: the range 2..5 moved up by 4 is 6..9, and 3 + 4 is in it
example : (BVR.both 6 3).mem (3 + 4) :=
  translation_sound (a := .both 2 3) (k := 4) rfl (x := 3) (show 2 ≤ 3 ∧ 3 ≤ 2 + 3 by omega)

-- openedUpper_sound: 2..5 with the upper bound dropped is "at least 2", which still contains 4
example : (VRange.bounded (.lower 2)).mem 4 ∧ (BVR.both 2 3).openedUpper = .bounded (.lower 2) :=
  ⟨openedUpper_sound (a := .both 2 3) (x := 4) (show 2 ≤ 4 ∧ 4 ≤ 2 + 3 by omega), rfl⟩

-- union_sound_left: the hull of 2..5 and the range 4..9 is 2..9, which contains 3 (from the left)
example : (VRange.bounded (.both 2 7)).mem 3 :=
  union_sound_left (a := .both 2 3) (o := .var (.bounded (.both 4 5)))
    (show 0 < 2 ∧ 0 < 3 by omega) rfl (x := 3) (show 2 ≤ 3 ∧ 3 ≤ 2 + 3 by omega)

end Wax.NonVacuity.C10

namespace Wax.NonVacuity.Findings_E
open Wax

/-- (C09, `exhaustive_sound_partial` / `exhaustive_sound_compiled`) the second disjunct of the
fragment hypothesis (`exhTake last = false`: the last top-level token is a literal, a class or `?`)
is INCOMPATIBLE with the hypothesis `hAlways`: on three of the four token kinds named in the `says`
line the theorem holds vacuously (the fold answers `Never` there); only "last token is a tree
wildcard" carries content. -/
theorem F09a_untaken_never_always (sp : Span) (ts : List Tok) (t : Tok)
    (hlast : lastTok ts = some t) (hunt : exhTake t = false) :
    isExhaustive (.cat sp ts) ≠ .ok .always := by
  rw [exh_never_of_untaken sp ts t hlast hunt]
  intro h; cases h

-- e.g. `src/**/[a-c]?` : in F09a through the second disjunct, verdict Never
example : lastTok [.lit ⟨0, 3⟩ ['s', 'r', 'c'] false, .tree ⟨3, 4⟩ true,
      .cls ⟨7, 5⟩ false [.rng 'a' 'c'], .one ⟨12, 1⟩] = some (.one ⟨12, 1⟩) ∧
    exhTake (.one ⟨12, 1⟩) = false ∧
    isExhaustive (.cat ⟨0, 13⟩ [.lit ⟨0, 3⟩ ['s', 'r', 'c'] false, .tree ⟨3, 4⟩ true,
      .cls ⟨7, 5⟩ false [.rng 'a' 'c'], .one ⟨12, 1⟩]) = .ok .never := ⟨rfl, rfl, rfl⟩

/-- (C09, `exhaustive_sound_branch_partial` and the `exhaustive_beneath_branch_*` family) inside
F09b the verdict `Always` only ever holds of patterns that SYNTACTICALLY end in a tree wildcard
(`endsList`) or in `** *` (`endsTreeZomB`) ... -/
theorem F09b_always_is_syntactic (sp : Span) (ts : List Tok) (hfrag : F09b ts = true)
    (hAlways : isExhaustive (.cat sp ts) = .ok .always) :
    endsList ts = true ∨ endsTreeZomB ts = true := by
  simp only [F09b, Bool.or_eq_true] at hfrag
  rcases hfrag with (h | h) | h
  · exact .inl h
  · exact .inl (always_endsList_of_shape sp ts h hAlways)
  · exact .inr h

/-- ... and for those the conclusion holds WITHOUT the verdict: `hAlways` is not needed for the
closure itself.  So the C09 theorems on F09b are "the syntactic shape implies closure under
descending" plus "on F09s, `Always` implies the syntactic shape"; nothing is said about an `Always`
verdict outside these shapes (that is where all the recorded false `Always` live). -/
theorem closure_needs_no_verdict (σ : Sem) (sp : Span) (ts : List Tok)
    (h : endsList ts = true ∨ endsTreeZomB ts = true) (w : Str)
    (hm : Spec.Matches σ (.cat sp ts) w) (x : Str) : Spec.Matches σ (.cat sp ts) (w ++ '/' :: x) := by
  rcases h with h | h
  · exact endsInTree_descClosed σ (.cat sp ts) h w hm x
  · obtain ⟨pre, sp1, r, sp2, lz, rfl⟩ := endsTreeZomB_spec ts h
    exact treeZom_descClosed σ sp sp1 sp2 pre r lz w x hm

/-- (C09, `exhaustive_beneath_branch_root`) the hypothesis `hc : Canonical p` is not used: the
statement holds of every matched `p` (harmless; the theorem is stronger than it looks). -/
theorem beneath_root_without_canonical (σ : Sem) (sp : Span) (ts : List Tok)
    (hfrag : F09b ts = true) (hAlways : isExhaustive (.cat sp ts) = .ok .always)
    (hN : nonRootS ts = true) (p q : Str) (hm : Spec.Matches σ (.cat sp ts) p) (hb : Beneath p q) :
    Spec.Matches σ (.cat sp ts) q := by
  have hne : p ≠ [] := by
    intro h; subst h
    simp only [nonRootS, Bool.or_eq_true, decide_eq_true_eq] at hN
    rcases hN with hN | hN
    · have := sms_minLenTop σ (show SMs σ ⟨true, true⟩ ts [] from hm)
      simp only [List.length_nil] at this; omega
    · exact firstNotSep_ne_nil σ hN (show SMs σ ⟨true, true⟩ ts [] from hm) rfl
  have hnr : p ≠ ['/'] := by
    intro h; subst h
    simp only [nonRootS, Bool.or_eq_true, decide_eq_true_eq] at hN
    rcases hN with hN | hN
    · have := sms_minLenTop σ (show SMs σ ⟨true, true⟩ ts ['/'] from hm)
      simp only [List.length_cons, List.length_nil] at this; omega
    · exact firstNotSep_sound σ hN (show SMs σ ⟨true, true⟩ ts ['/'] from hm) rfl
  simp only [Beneath, hne, hnr, ↓reduceIte] at hb
  obtain ⟨r, _, rfl⟩ := hb
  exact exhaustive_sound_branch_partial σ sp ts hfrag hAlways p hm r

/-- (C10, `depth_sound_tree_partial` / `_glob`) with a tree wildcard in the pattern the fold only
ever reports "unbounded" or a LOWER bound (`depth_tree_main`: `isLow v`), so on such patterns these
theorems are lower-bound statements; for the value "unbounded" the conclusion is `True`.  The parsed
glob `**` is in the fragment and gets exactly that: -/
example : parse "**".toList = .ok (.cat ⟨0, 2⟩ [.tree ⟨0, 2⟩ false]) ∧
    flatTreeOk [.tree ⟨0, 2⟩ false] = true ∧ depthFlat [.tree ⟨0, 2⟩ false] = .ok .unb ∧
    (∀ n, NVar.unb.mem n) := ⟨by rfl, by decide, rfl, fun _ => trivial⟩

end Wax.NonVacuity.Findings_E

/-! ## ===== batch F ===== -/
namespace Wax.NonVacuity.C15
open Wax Wax.Walk Wax.Path Wax.DepthBehavior

/-! Non-vacuity witnesses (batch F): C15 (depth bounds, link behaviours, bounded glob walks) and
C16 (stacks of combinators, logs).  Every `example` below instantiates the named theorem itself on
a concrete input that satisfies all its hypotheses. -/


/-! ### arithmetic at the pivot -/

-- max_at_pivot_exact: walk depth 1 below a pivot of 2, maximum 3 (3 - 2 = 1: just admitted)
example : 1 ≤ 3 - 2 ↔ 1 + 2 ≤ 3 := max_at_pivot_exact 1 2 3 (by decide)
-- max_at_pivot_exact: … and walk depth 2 is refused on both sides (the equivalence is not `True ↔ True` only)
example : (2 ≤ 3 - 2 ↔ 2 + 2 ≤ 3) ∧ ¬ (2 ≤ 3 - 2) := ⟨max_at_pivot_exact 2 2 3 (by decide), by decide⟩

-- max_at_pivot_saturates: maximum 1 below a pivot of 3: the walk root (walk depth 0, entry depth 3) is within walkdir's bound
example : 0 ≤ 1 - 3 ∧ ¬ (0 + 3 ≤ 1) := max_at_pivot_saturates 3 1 (by decide)

/-! ### the depth configuration -/

-- bounded_admits: `DepthBehavior::bounded(Some(2), Some(3))` = `MinMax{min: 2, extent: 1}`, depth 3
example : (DepthBehavior.minMax 2 1).admits 3 ↔
    (∀ a, some 2 = some a → a ≤ 3) ∧ (∀ u, some 3 = some u → 3 ≤ u) :=
  bounded_admits (mn := some 2) (mx := some 3) (by decide) 3
-- bounded_admits: the same configuration refuses depth 4 and depth 1, admits 2 and 3 (both directions are exercised)
example : ¬ ((∀ a, some 2 = some a → a ≤ 4) ∧ (∀ u, some 3 = some u → 4 ≤ u)) :=
  fun h => absurd ((bounded_admits (mn := some 2) (mx := some 3) (b := .minMax 2 1) (by decide) 4).mpr h)
    (by decide)
example : (DepthBehavior.minMax 2 1).admits 2 ∧ (DepthBehavior.minMax 2 1).admits 3 ∧
    ¬ (DepthBehavior.minMax 2 1).admits 1 ∧ ¬ (DepthBehavior.minMax 2 1).admits 4 := by decide
-- bounded_admits: `bounded(Some(2), None)` = `Min(2)`, depth 7
example : (DepthBehavior.min 2).admits 7 ↔
    (∀ a, some 2 = some a → a ≤ 7) ∧ (∀ u, (none : Option Nat) = some u → 7 ≤ u) :=
  bounded_admits (mn := some 2) (mx := none) (by decide) 7

-- boundedAtDepthVariance_admits: bounds 1..2 on a pattern whose lower depth is 2 (e.g. `a/b/**`): `MinMax{3, 1}`, depth 4
example : (DepthBehavior.minMax 3 1).admits 4 ↔
    (∀ a, some 1 = some a → a + 2 ≤ 4) ∧ (∀ u, some 2 = some u → 4 ≤ u + 2) :=
  boundedAtDepthVariance_admits (mn := some 1) (mx := some 2) (l := 2) (by decide) 4
-- boundedAtDepthVariance_admits: depth 2 (the pattern's own lower depth) is refused: the right-hand side is false
example : ¬ ((∀ a, some 1 = some a → a + 2 ≤ 2) ∧ (∀ u, some 2 = some u → 2 ≤ u + 2)) :=
  fun h => absurd ((boundedAtDepthVariance_admits (mn := some 1) (mx := some 2) (l := 2)
    (b := .minMax 3 1) (by decide) 2).mpr h) (by decide)

-- atPivot_admits: `MinMax{3, 1}` (depths 3..4) below a pivot of 2: walkdir gets (1, 2); walk depth 1 is entry depth 3
example : pivotAdmits ((DepthBehavior.minMax 3 1).atPivot 2) 1 ↔ (DepthBehavior.minMax 3 1).admits (1 + 2) :=
  atPivot_admits (.minMax 3 1) (by show 0 < 3; decide) 2 1 (fun u hu => by cases hu; decide)
example : (DepthBehavior.minMax 3 1).atPivot 2 = (1, some 2) ∧
    pivotAdmits ((DepthBehavior.minMax 3 1).atPivot 2) 1 ∧ (DepthBehavior.minMax 3 1).admits 3 := by
  refine ⟨by decide, ?_, by decide⟩
  exact (atPivot_admits (.minMax 3 1) (by show 0 < 3; decide) 2 1 (fun u hu => by cases hu; decide)).mpr
    (by decide)
-- atPivot_admits: … and walk depth 3 (entry depth 5) is refused by both
example : ¬ pivotAdmits ((DepthBehavior.minMax 3 1).atPivot 2) 3 :=
  fun h => absurd ((atPivot_admits (.minMax 3 1) (by show 0 < 3; decide) 2 3
    (fun u hu => by cases hu; decide)).mp h) (by decide)

-- atPivot_short: `Max(1)` below a pivot of 3: walkdir gets (0, 0), the walk root (entry depth 3) is selected, depth 1 is not
example : pivotAdmits ((DepthBehavior.max 1).atPivot 3) 0 ↔ 0 = 0 := atPivot_short 1 3 0 (by decide)
example : pivotAdmits ((DepthBehavior.max 1).atPivot 3) 0 := (atPivot_short 1 3 0 (by decide)).mpr rfl
example : ¬ pivotAdmits ((DepthBehavior.max 1).atPivot 3) 1 :=
  fun h => absurd ((atPivot_short 1 3 1 (by decide)).mp h) (by decide)
-- … although the configuration does not admit the root's depth: the finding K-DEPTH-SATURATE
example : ¬ (DepthBehavior.max 1).admits (0 + 3) := by decide

-- bounded_wf: `bounded(Some(2), Some(3))` = `MinMax{2, 1}` has a non-zero minimum
example : (DepthBehavior.minMax 2 1).wf := bounded_wf (mn := some 2) (mx := some 3) (by decide)
example : 0 < 2 := bounded_wf (mn := some 2) (mx := some 3) (b := .minMax 2 1) (by decide)
-- bounded_wf: `bounded(Some(5), None)` = `Min(5)`
example : (DepthBehavior.min 5).wf := bounded_wf (mn := some 5) (mx := none) (by decide)

/-! ### depth bounds on the traversal -/

/-- `a/{x, b/{y, c/{z}}}`, `p/{q/{r -> …}}`, `c -> …` -/
def dForestF : List WNode :=
  [.dir ['a'] [.leaf ['x'] .f, .dir ['b'] [.leaf ['y'] .f, .dir ['c'] [.leaf ['z'] .f]]],
   .dir ['p'] [.dir ['q'] [.leaf ['r'] .l]], .leaf ['c'] .l]

/-- discards the directories `a` (depth 1) and `p/q` (depth 2) as trees -/
def dVerdictF : Entry → Bool := fun e => e.names == [['a']] || e.names == [['p'], ['q']]

-- bounded_eq_filter_general: the forest above, `min_depth = 2`, `max_depth = 3`, a verdict that prunes `a` (hidden by `min_depth`: read all the same) and `p/q` (shown: pruned)
example : okItems (visitListB 2 (some 3) dVerdictF [] dForestF) =
    (okItems (visitListB 0 none (silenced 2 dVerdictF) [] dForestF)).filter (Item.within 2 (some 3)) :=
  bounded_eq_filter_general 2 (some 3) dVerdictF [] dForestF (by decide)
-- … both sides are this list: `a/…` is there although the verdict discards `a`; `p/q/r` and `a/b/c/z` are not
example : okItems (visitListB 2 (some 3) dVerdictF [] dForestF) =
    [.ok ⟨[['a'], ['x']], .f⟩, .ok ⟨[['a'], ['b']], .d⟩, .ok ⟨[['a'], ['b'], ['y']], .f⟩,
     .ok ⟨[['a'], ['b'], ['c']], .d⟩, .ok ⟨[['p'], ['q']], .d⟩] := by decide
example : (okItems (visitListB 0 none (silenced 2 dVerdictF) [] dForestF)).filter (Item.within 2 (some 3)) =
    [.ok ⟨[['a'], ['x']], .f⟩, .ok ⟨[['a'], ['b']], .d⟩, .ok ⟨[['a'], ['b'], ['y']], .f⟩,
     .ok ⟨[['a'], ['b'], ['c']], .d⟩, .ok ⟨[['p'], ['q']], .d⟩] :=
  (bounded_eq_filter_general 2 (some 3) dVerdictF [] dForestF (by decide)).symm.trans (by decide)
-- … and silencing matters: with the verdict itself the unbounded walk never reads `a`
example : (okItems (visitListB 0 none dVerdictF [] dForestF)).filter (Item.within 2 (some 3)) =
    [.ok ⟨[['p'], ['q']], .d⟩] := by decide

-- depthBounds_ordered: `bounded(Some(3), Some(5))` below a pivot of 2: walkdir gets (1, 3)
example : 1 ≤ 3 := depthBounds_ordered (some 3) (some 5) 2 1 3 (by decide)
-- depthBounds_ordered: `bounded(Some(2), Some(3))` below a pivot of 7 (both saturate): walkdir gets (0, 0)
example : 0 ≤ 0 := depthBounds_ordered (some 2) (some 3) 7 0 0 (by decide)
-- depthBounds_ordered, used as intended: whatever `depthBounds (some 2) (some 4) 3` is, it is ordered
example (lo hi : Nat) (h : depthBounds (some 2) (some 4) 3 = some (lo, some hi)) : lo ≤ hi :=
  depthBounds_ordered (some 2) (some 4) 3 lo hi h
example : depthBounds (some 2) (some 4) 3 = some (0, some 1) := by decide

/-! ### links -/

/-- `a/{x, l -> dir {y, m/{z}}, d/{k -> file}}`, `g -> nothing` -/
def lForestF : List RNode :=
  [.dir ['a'] [.file ['x'], .linkDir ['l'] [.file ['y'], .dir ['m'] [.file ['z']]],
     .dir ['d'] [.linkFile ['k']]],
   .linkDangling ['g']]

/-- discards the directory `a/d` as a tree -/
def lVerdictF : Entry → Bool := fun e => e.names == [['a'], ['d']]

theorem lForest_occurs_lF :
    Occurs false [] lForestF [['a']] (.linkDir ['l'] [.file ['y'], .dir ['m'] [.file ['z']]]) :=
  .inDir (.head _) (cutAt_full _) (.here (.tail _ (.head _)))

-- readfile_nothing_beneath_link: the forest above read with `ReadFile`, bounds 1..3, a pruning verdict; the link `a/l` to a directory with contents: every item at or beneath `a/l` IS the one entry of link type
example : ∀ it ∈ visitListB 1 (some 3) lVerdictF [] (viewList false lForestF),
    [['a'], ['l']] <+: it.names → it = .ok ⟨[['a'], ['l']], .l⟩ :=
  fun _ hit hu => readfile_nothing_beneath_link 1 (some 3) lVerdictF (p := []) (p' := [['a']])
    (by decide) rfl lForest_occurs_lF hit hu
-- … the statement is about something: that entry is among the items (and `a/l/y`, `a/l/m`, `a/l/m/z` are not)
example : visitListB 1 (some 3) lVerdictF [] (viewList false lForestF) =
    [.ok ⟨[['a']], .d⟩, .ok ⟨[['a'], ['x']], .f⟩, .ok ⟨[['a'], ['l']], .l⟩, .ok ⟨[['a'], ['d']], .d⟩,
     .ok ⟨[['g']], .l⟩] := by decide
-- … whereas `ReadTarget` does descend: the theorem is specific to `follow = false`
example : visitListB 1 (some 3) lVerdictF [] (viewList true lForestF) =
    [.ok ⟨[['a']], .d⟩, .ok ⟨[['a'], ['x']], .f⟩, .ok ⟨[['a'], ['l']], .d⟩,
     .ok ⟨[['a'], ['l'], ['y']], .f⟩, .ok ⟨[['a'], ['l'], ['m']], .d⟩, .ok ⟨[['a'], ['d']], .d⟩,
     .err [['g']] false] := by decide
-- readfile_nothing_beneath_link: the dangling link `g` at the top of the forest, unbounded walk
example : ∀ it ∈ visitListB 0 none never [] (viewList false lForestF),
    [['g']] <+: it.names → it = .ok ⟨[['g']], .l⟩ :=
  fun _ hit hu => readfile_nothing_beneath_link 0 none never (p := []) (p' := []) (n := .linkDangling ['g'])
    (by decide) rfl (.here (.tail _ (.head _))) hit hu

/-- a forest without links, with nesting and an unreadable directory:
    `a/{x, b/{y, u (unreadable)}}`, `c` -/
def fForestF : List RNode :=
  [.dir ['a'] [.file ['x'], .dir ['b'] [.file ['y'], .unreadable ['u']]], .file ['c']]

-- links_only_differ_at_links: the link-free forest above, bounds 1..3, a verdict that prunes `a/b/u`
example : visitListB 1 (some 3) (fun e => e.names == [['a'], ['b'], ['u']]) [] (viewList false fForestF) =
    visitListB 1 (some 3) (fun e => e.names == [['a'], ['b'], ['u']]) [] (viewList true fForestF) :=
  links_only_differ_at_links 1 (some 3) _ [] fForestF (by decide)
example : visitListB 1 (some 3) (fun e => e.names == [['a'], ['b'], ['u']]) [] (viewList true fForestF) =
    [.ok ⟨[['a']], .d⟩, .ok ⟨[['a'], ['x']], .f⟩, .ok ⟨[['a'], ['b']], .d⟩,
     .ok ⟨[['a'], ['b'], ['y']], .f⟩, .ok ⟨[['a'], ['b'], ['u']], .d⟩, .ok ⟨[['c']], .f⟩] := by decide
-- … the hypothesis is not idle: on `lForestF` (with links) the two walks differ (see the two lists above)
example : linkFreeL lForestF = false := by decide

/-! ### a glob walk with depth bounds: `a/[xy]?/{b,c}*/**` -/

def gCompsF : List (List Tok × Span) :=
  [([.lit ⟨0, 1⟩ ['a'] false], ⟨1, 1⟩),
   ([.cls ⟨2, 4⟩ false [.chr 'x', .chr 'y'], .one ⟨6, 1⟩], ⟨7, 1⟩)]
def gLastF : List Tok :=
  [.alt ⟨8, 5⟩ [.cat ⟨9, 1⟩ [.lit ⟨9, 1⟩ ['b'] false], .cat ⟨11, 1⟩ [.lit ⟨11, 1⟩ ['c'] false]],
   .zom ⟨13, 1⟩ false]
def gTailF : List Tok := [.tree ⟨14, 3⟩ true]
/-- the token tree of the expression, in the shape `c₁/c₂/c/**` of `programsSound_compiled` -/
def gTokF : Tok := .cat ⟨0, 17⟩ (WalkTree.joinSep gCompsF (gLastF ++ gTailF))

/-- it IS what the parser makes of the expression (a class, `?`, an alternation, `*`, a tree wildcard) -/
theorem gTok_parseF : parse "a/[xy]?/{b,c}*/**".toList = .ok gTokF := by rfl
/-- `Glob::anchor` for the base `r`: the walk starts at `r/a/`, pivot 1 -/
theorem gTok_anchorF : anchor drvCasing gTokF "r".toList = ("r/a/".toList, 1) := by decide

/-- what the crate compiles for it -/
def gProgF : GlobProgram := compiledProgram gTokF 1

/-- below `r/a/`: `xq/{b1, d, cc/{q -> …}}`, `zz/{b1}`, `yb`, an unreadable directory `xu`, a broken
    link `w` -/
def gTreeF : RootView :=
  .dir [.dir "xq".toList [.leaf "b1".toList .f, .leaf "d".toList .f, .dir "cc".toList [.leaf "q".toList .l]],
    .dir "zz".toList [.leaf "b1".toList .f], .leaf "yb".toList .f, .dir "xu".toList [.errHere],
    .errChild "w".toList false]

/-- the hypothesis `ProgramsSound`, from `programsSound_compiled` (not a stand-in) -/
theorem gSoundF : ProgramsSound exSem gProgF :=
  programsSound_compiled exSem exSem_sepIsolated rfl ⟨0, 17⟩ gCompsF gLastF gTailF
    (by decide) (by decide) (Or.inr ⟨_, _, _, rfl⟩) (by decide) 1

/-- the complete program is not a stand-in either: it accepts the documented language of the glob -/
theorem gProg_completeF (w : Str) : gProgF.complete.matchB exSem w = true ↔ Spec.Matches exSem gTokF w :=
  compiled_complete_iff exSem rfl gTokF (by decide) 1 w

-- glob_walk_bounded_exact_partial: `a/[xy]?/{b,c}*/**` walked from `r/a/` (pivot 1) over the tree above with depths 3..4 from the root segment (`MinMax{3, 1}`; walkdir: 2..3)
example :
    let π := globPipeline exSem "r/a/".toList gProgF
    let b := DepthBehavior.minMax 3 1
    π.filtrateEntries (π.items (b.atPivot π.pivot).1 (b.atPivot π.pivot).2 gTreeF) =
      (okEntries (walkItems 0 none never gTreeF)).filter (fun e =>
        gProgF.complete.matchB exSem (π.relativeFor e .filtrate).2 &&
          decide (b.admits (e.depth + π.pivot))) :=
  glob_walk_bounded_exact_partial exSem gProgF gSoundF ["a".toList] rfl (by decide)
    (.minMax 3 1) (by show 0 < 3; decide) (fun u hu => by cases hu; decide) "r/a/".toList gTreeF
    (by decide) (by decide)
-- … concretely: the consumer receives `a/xq/b1`, `a/xq/cc`, `a/xq/cc/q`; the directory `zz`, which
-- the closure discards as a tree, is hidden by `min_depth`, hence read, and `zz/b1` does not match
example :
    let π := globPipeline exSem "r/a/".toList gProgF
    let b := DepthBehavior.minMax 3 1
    b.atPivot π.pivot = (2, some 3) ∧
    π.cancels ⟨["zz".toList], .d⟩ = true ∧
    Item.ok ⟨["zz".toList, "b1".toList], .f⟩ ∈ π.items 2 (some 3) gTreeF ∧
    π.filtrateEntries (π.items (b.atPivot π.pivot).1 (b.atPivot π.pivot).2 gTreeF) =
      [⟨["xq".toList, "b1".toList], .f⟩, ⟨["xq".toList, "cc".toList], .d⟩,
       ⟨["xq".toList, "cc".toList, "q".toList], .l⟩] := by
  intro π b
  refine ⟨by decide, by decide, by decide, ?_⟩
  exact (glob_walk_bounded_exact_partial exSem gProgF gSoundF ["a".toList] rfl (by decide)
    (.minMax 3 1) (by show 0 < 3; decide) (fun u hu => by cases hu; decide) "r/a/".toList gTreeF
    (by decide) (by decide)).trans (by decide)
-- … the right-hand side is not "everything": the unbounded, unpruned walk has 10 entries, the glob alone matches 3, the depths alone admit 5
example : (okEntries (walkItems 0 none never gTreeF)).length = 10 ∧
    ((okEntries (walkItems 0 none never gTreeF)).filter (fun e =>
      decide ((DepthBehavior.minMax 3 1).admits (e.depth + 1)))).length = 5 := by decide

-- glob_walk_bounds_exact: the same walk with the raw walkdir bounds `min_depth = 1`, `max_depth = 2`
example :
    let π := globPipeline exSem "r/a/".toList gProgF
    π.filtrateEntries (π.items 1 (some 2) gTreeF) =
      (okEntries (walkItems 0 none never gTreeF)).filter (fun e =>
        gProgF.complete.matchB exSem (π.relativeFor e .filtrate).2 && Walk.within 1 (some 2) e.depth) :=
  glob_walk_bounds_exact exSem gProgF gSoundF ["a".toList] rfl (by decide) 1 (some 2) "r/a/".toList gTreeF
    (by decide) (by decide)
example :
    let π := globPipeline exSem "r/a/".toList gProgF
    π.filtrateEntries (π.items 1 (some 2) gTreeF) =
      [⟨["xq".toList, "b1".toList], .f⟩, ⟨["xq".toList, "cc".toList], .d⟩] :=
  (glob_walk_bounds_exact exSem gProgF gSoundF ["a".toList] rfl (by decide) 1 (some 2) "r/a/".toList gTreeF
    (by decide) (by decide)).trans (by decide)
-- glob_walk_bounds_exact: misordered raw bounds (`min_depth = 3`, `max_depth = 2`, not clamped): both sides are empty
example :
    let π := globPipeline exSem "r/a/".toList gProgF
    π.filtrateEntries (π.items 3 (some 2) gTreeF) = [] :=
  (glob_walk_bounds_exact exSem gProgF gSoundF ["a".toList] rfl (by decide) 3 (some 2) "r/a/".toList gTreeF
    (by decide) (by decide)).trans (by decide)
-- glob_walk_bounds_exact: … and clamped as walkdir does (`clampMax 3 (some 2) = some 3`): exactly depth 3
example :
    let π := globPipeline exSem "r/a/".toList gProgF
    π.filtrateEntries (π.items 3 (clampMax 3 (some 2)) gTreeF) = [⟨["xq".toList, "cc".toList, "q".toList], .l⟩] :=
  (glob_walk_bounds_exact exSem gProgF gSoundF ["a".toList] rfl (by decide) 3 (clampMax 3 (some 2))
    "r/a/".toList gTreeF (by decide) (by decide)).trans (by decide)

-- prune_less_same_matches: the closure of `a/[xy]?/{b,c}*/**` as the pruning verdict `w`, `K` = "the complete program matches", `G` = the path arithmetic is faithful; `hw` from `glob_prunes_only_nonmatching`
example :
    (okEntries (walkItems 0 none (globPipeline exSem "r/a/".toList gProgF).cancels gTreeF)).filter
        (fun e => gProgF.complete.matchB exSem (WalkTree.relOf (["a".toList] ++ e.names))) =
      (okEntries (walkItems 0 none never gTreeF)).filter
        (fun e => gProgF.complete.matchB exSem (WalkTree.relOf (["a".toList] ++ e.names))) :=
  prune_less_same_matches (entryFaithfulP "r/a/".toList ["a".toList])
    (fun e => gProgF.complete.matchB exSem (WalkTree.relOf (["a".toList] ++ e.names)))
    (globPipeline exSem "r/a/".toList gProgF).cancels
    (fun p hp hw q _ hq =>
      glob_prunes_only_nonmatching exSem gProgF gSoundF "r/a/".toList ["a".toList] rfl p hp hw q hq)
    gTreeF (by decide) (by decide)
-- … the pruned walk really reads less (`zz/b1` is skipped: 11 items against 12), the matches are the same three
example :
    (walkItems 0 none (globPipeline exSem "r/a/".toList gProgF).cancels gTreeF).length = 11 ∧
    (walkItems 0 none never gTreeF).length = 12 ∧
    (okEntries (walkItems 0 none never gTreeF)).filter
        (fun e => gProgF.complete.matchB exSem (WalkTree.relOf (["a".toList] ++ e.names))) =
      [⟨["xq".toList, "b1".toList], .f⟩, ⟨["xq".toList, "cc".toList], .d⟩,
       ⟨["xq".toList, "cc".toList, "q".toList], .l⟩] := by decide

-- prune_less_same_matches: a hand-made instance without any glob: keep what lies at or under `x`, prune every other top-level directory
example :
    (okEntries (walkItems 0 none (fun e => e.names.length == 1 && e.names != [['x']])
        (.dir [.dir ['x'] [.leaf ['m'] .f], .dir ['y'] [.leaf ['m'] .f]]))).filter
        (fun e => e.names.head? == some ['x']) =
      (okEntries (walkItems 0 none never
        (.dir [.dir ['x'] [.leaf ['m'] .f], .dir ['y'] [.leaf ['m'] .f]]))).filter
        (fun e => e.names.head? == some ['x']) :=
  prune_less_same_matches (fun _ => true) (fun e => e.names.head? == some ['x'])
    (fun e => e.names.length == 1 && e.names != [['x']])
    (fun p _ hw q k _ => by
      match p, hw with
      | [n], hw =>
        have hn : n ≠ ['x'] := by simpa using hw
        simpa using hn)
    _ rfl (by decide)

end Wax.NonVacuity.C15

namespace Wax.NonVacuity.C16
open Wax Wax.Walk Wax.Path
open Wax.NonVacuity.C15 (gTokF gProgF gTreeF)

/-! ### the algebra -/

-- feed_perm: the verdicts `file, tree, keep` in two orders, on a filtrate
example : (feed applyVerdict .filtrate [.file, .tree, .keep]).1 =
    (feed applyVerdict .filtrate [.keep, .tree, .file]).1 :=
  feed_perm .filtrate (List.reverse_perm [Verdict.file, .tree, .keep]).symm
example : (feed applyVerdict .filtrate [.file, .tree, .keep]).1 = .tree := by decide
-- feed_perm: `file, keep` against `keep, file` on a filtrate: node residue either way
example : (feed applyVerdict .filtrate [.file, .keep]).1 = (feed applyVerdict .filtrate [.keep, .file]).1 :=
  feed_perm .filtrate (List.Perm.swap _ _ _)
-- … the second component (the number of cancellations) is not covered by `feed_perm`, and for the repaired
-- algebra it does not depend on the order either in this instance
example : (feed applyVerdict .filtrate [.file, .tree, .keep]).2 = 1 ∧
    (feed applyVerdict .filtrate [.keep, .tree, .file]).2 = 1 := by decide

/-! ### a glob walk under a stack of three layers -/

/-- what `{zz/**,**/c*}` parses to -/
def nTokF : Tok :=
  .cat ⟨0, 13⟩ [.alt ⟨0, 13⟩
    [.cat ⟨1, 5⟩ [.lit ⟨1, 2⟩ ['z', 'z'] false, .tree ⟨3, 3⟩ true],
     .cat ⟨7, 5⟩ [.tree ⟨7, 3⟩ false, .lit ⟨10, 1⟩ ['c'] false, .zom ⟨11, 1⟩ false]]]

theorem nTok_parseF : parse "{zz/**,**/c*}".toList = .ok nTokF := by rfl

/-- `filter_entry(cc ↦ File)`, then `not("{zz/**,**/c*}")`, then `filter_entry(q ↦ Tree)` -/
def sLayersF : List Layer :=
  [.filter [("cc".toList, false)], .not (notProgram nTokF), .filter [(['q'], true)]]

/-- `a/[xy]?/{b,c}*/**` walked from `r/a/` (pivot 1) under that stack -/
def sπF : Pipeline := ⟨exSem, "r/a/".toList, some gProgF, sLayersF⟩

/-- the entries every layer is shown on `gTreeF`, bounds 1..3: `zz` is discarded as a tree by the
    closure (so `zz/b1` is not read), `xq/cc` is made residue by the first layer -/
def sSeenF : List Entry :=
  [⟨["xq".toList], .d⟩, ⟨["xq".toList, "b1".toList], .f⟩, ⟨["xq".toList, "d".toList], .f⟩,
   ⟨["xq".toList, "cc".toList], .d⟩, ⟨["xq".toList, "cc".toList, "q".toList], .l⟩,
   ⟨["zz".toList], .d⟩, ⟨["yb".toList], .f⟩, ⟨["xu".toList], .d⟩]

-- observes_all_once: the stack above, the outermost layer (`i = 2`), `min_depth = 1`, `max_depth = 3`
example : sπF.observed 1 (some 3) gTreeF 2 = okEntries (sπF.traversal 1 (some 3) gTreeF) :=
  observes_all_once sπF 1 (some 3) gTreeF 2 (by decide)
-- … concretely (the right-hand side evaluated): it sees `xq/cc`, which layer 0 discarded, and not `zz/b1`
example : sπF.observed 1 (some 3) gTreeF 2 = sSeenF :=
  (observes_all_once sπF 1 (some 3) gTreeF 2 (by decide)).trans (by decide)
-- observes_all_once: the innermost layer (`i = 0`) sees the same list
example : sπF.observed 1 (some 3) gTreeF 0 = sSeenF :=
  (observes_all_once sπF 1 (some 3) gTreeF 0 (by decide)).trans (by decide)

-- observedS_all_once: the same walk, the middle layer (`i = 1`, the `not`), with the states
example : sπF.observedS 1 (some 3) gTreeF 1 =
    (okEntries (sπF.traversal 1 (some 3) gTreeF)).map (fun e => (e, sπF.stateAt 1 e)) :=
  observedS_all_once sπF 1 (some 3) gTreeF 1 (by decide)
-- … concretely: filtrates, node residue (of the closure: `xq`, `yb`, `xu`; of layer 0: `xq/cc`) and tree residue (`zz`, `xq/d`)
example : sπF.observedS 1 (some 3) gTreeF 1 =
    [(⟨["xq".toList], .d⟩, .node), (⟨["xq".toList, "b1".toList], .f⟩, .filtrate),
     (⟨["xq".toList, "d".toList], .f⟩, .tree), (⟨["xq".toList, "cc".toList], .d⟩, .node),
     (⟨["xq".toList, "cc".toList, "q".toList], .l⟩, .filtrate), (⟨["zz".toList], .d⟩, .tree),
     (⟨["yb".toList], .f⟩, .node), (⟨["xu".toList], .d⟩, .node)] :=
  (observedS_all_once sπF 1 (some 3) gTreeF 1 (by decide)).trans (by decide)

-- residue_observed: layer 0 (`cc ↦ File`) discards the filtrate `xq/cc`; layer 1 is shown it as residue
example : ∃ s, s ≠ .filtrate ∧ ((⟨["xq".toList, "cc".toList], .d⟩ : Entry), s) ∈ sπF.observedS 1 (some 3) gTreeF 1 :=
  residue_observed sπF 1 (some 3) gTreeF 0 (.filter [("cc".toList, false)]) rfl (by decide)
    ⟨["xq".toList, "cc".toList], .d⟩ (by decide) (by decide)
-- … the entry was a filtrate when layer 0 saw it, so the residue is of layer 0's making
example : sπF.stateAt 0 ⟨["xq".toList, "cc".toList], .d⟩ = .filtrate ∧
    sπF.stateAt 1 ⟨["xq".toList, "cc".toList], .d⟩ = .node := by decide
-- residue_observed: layer 1 (the `not`: `**/c*` matches the residue's path `xq/cc`, verdict `file`) on the same entry; layer 2 is shown it as residue
example : ∃ s, s ≠ .filtrate ∧ ((⟨["xq".toList, "cc".toList], .d⟩ : Entry), s) ∈ sπF.observedS 1 (some 3) gTreeF 2 :=
  residue_observed sπF 1 (some 3) gTreeF 1 (.not (notProgram nTokF)) rfl (by decide)
    ⟨["xq".toList, "cc".toList], .d⟩ (by decide) (by decide)

-- observed_nodup: the same walk (no directory of `gTreeF` has two children of the same name), layer 1
example : (sπF.observed 1 (some 3) gTreeF 1).Nodup :=
  observed_nodup sπF 1 (some 3) gTreeF 1 (by decide)
-- observed_nodup: the unbounded walk, layer 0 (8 + the root = 9 entries, all different)
example : (sπF.observed 0 none gTreeF 0).Nodup ∧ (sπF.observed 0 none gTreeF 0).length = 9 :=
  ⟨observed_nodup sπF 0 none gTreeF 0 (by decide), by decide⟩
-- … the hypothesis is needed: with two children of the same name an entry is shown twice
example : ¬ (sπF.observed 0 none (.dir [.leaf ['k'] .f, .leaf ['k'] .f]) 0).Nodup := by decide

-- driver_log_eq: the same walk: the log printed for the `filter_entry` at position 2 renders what that layer observes
example : (sπF.items 1 (some 3) gTreeF).filterMap (Cmd.showLog sπF) =
    (sπF.observed 1 (some 3) gTreeF 2).map (showEntry sπF) :=
  driver_log_eq sπF 1 (some 3) gTreeF 2 (by decide)
-- … i.e. the rendering of the eight entries above (the two error items are not logged)
example : (sπF.items 1 (some 3) gTreeF).filterMap (Cmd.showLog sπF) = sSeenF.map (showEntry sπF) := by
  rw [driver_log_eq sπF 1 (some 3) gTreeF 2 (by decide)]
  exact congrArg _ ((observes_all_once sπF 1 (some 3) gTreeF 2 (by decide)).trans (by decide))
example : (sπF.items 1 (some 3) gTreeF).length = 10 := by decide

/-! ### permuting the stack -/

/-- the same glob walk (pivot 1) under `filter_entry` layers only: `cc ↦ Tree`, `b1 ↦ File`, `cc ↦ File` -/
def fLayersF : List Layer :=
  [.filter [("cc".toList, true)], .filter [("b1".toList, false)], .filter [("cc".toList, false)]]
def fπF : Pipeline := ⟨exSem, "r/a/".toList, some gProgF, fLayersF⟩

/-- the tree of `gTreeF` walked as a path (`PathExt::walk` from `r/a/`, no glob, no pivot) under
    `not("{zz/**,**/c*}")`, then `filter_entry(b1 ↦ File, xu ↦ Tree)` -/
def pLayersF : List Layer :=
  [.not (notProgram nTokF), .filter [("b1".toList, false), ("xu".toList, true)]]
def pπF : Pipeline := ⟨exSem, "r/a/".toList, none, pLayersF⟩

theorem fπ_stateFreeF : fπF.StateFree := fπF.stateFree_of_B (by decide)
theorem pπ_stateFreeF : pπF.StateFree := pπF.stateFree_of_B (by decide)

-- observed_perm: the glob walk under three `filter_entry` layers, the stack reversed; what the layer at position 0 saw, the layer at position 2 of the reversed stack sees
example : (fπF.withLayers fLayersF.reverse).observed 0 none gTreeF 2 = fπF.observed 0 none gTreeF 0 :=
  observed_perm fπF fπ_stateFreeF fLayersF.reverse (List.reverse_perm fLayersF).symm 0 none gTreeF 0 2
    (by decide) (by decide)
-- … concretely: `xq/cc` is discarded as a tree (by the first or by the last layer), `xq/cc/q` is never read
example : fπF.observed 0 none gTreeF 0 =
    [⟨[], .d⟩, ⟨["xq".toList], .d⟩, ⟨["xq".toList, "b1".toList], .f⟩, ⟨["xq".toList, "d".toList], .f⟩,
     ⟨["xq".toList, "cc".toList], .d⟩, ⟨["zz".toList], .d⟩, ⟨["yb".toList], .f⟩, ⟨["xu".toList], .d⟩] := by
  decide
-- observed_perm: the path walk with a `not` layer (no pivot), the two layers swapped
example : (pπF.withLayers [pLayersF[1], pLayersF[0]]).observed 0 none gTreeF 0 = pπF.observed 0 none gTreeF 1 :=
  observed_perm pπF pπ_stateFreeF [pLayersF[1], pLayersF[0]] (List.Perm.swap _ _ _) 0 none gTreeF 1 0
    (by decide) (by decide)
-- … concretely: `zz` and `xu` are discarded as trees (`zz/b1` and the fault in `xu` are not read), `xq/cc` is only node residue
example : pπF.observed 0 none gTreeF 1 =
    [⟨[], .d⟩, ⟨["xq".toList], .d⟩, ⟨["xq".toList, "b1".toList], .f⟩, ⟨["xq".toList, "d".toList], .f⟩,
     ⟨["xq".toList, "cc".toList], .d⟩, ⟨["xq".toList, "cc".toList, "q".toList], .l⟩,
     ⟨["zz".toList], .d⟩, ⟨["yb".toList], .f⟩, ⟨["xu".toList], .d⟩] := by decide

-- yielded_perm: the glob walk under three `filter_entry` layers, reversed
example : (fπF.withLayers fLayersF.reverse).yielded 0 none gTreeF = fπF.yielded 0 none gTreeF :=
  yielded_perm fπF fπ_stateFreeF fLayersF.reverse (List.reverse_perm fLayersF).symm 0 none gTreeF
-- … the glob matches `xq/b1`, `xq/cc`, `xq/cc/q`; the layers discard the first two, the third is never read; the consumer gets only the two error items
example : fπF.yielded 0 none gTreeF = [.err ["xu".toList] false, .err ["w".toList] false] := by decide
-- … without the layers it gets the three matches as well
example : (fπF.withLayers []).yielded 0 none gTreeF =
    [.ok ⟨["xq".toList, "b1".toList], .f⟩, .ok ⟨["xq".toList, "cc".toList], .d⟩,
     .ok ⟨["xq".toList, "cc".toList, "q".toList], .l⟩, .err ["xu".toList] false,
     .err ["w".toList] false] := by decide
-- yielded_perm: the path walk with the `not` layer, swapped
example : (pπF.withLayers [pLayersF[1], pLayersF[0]]).yielded 0 none gTreeF = pπF.yielded 0 none gTreeF :=
  yielded_perm pπF pπ_stateFreeF [pLayersF[1], pLayersF[0]] (List.Perm.swap _ _ _) 0 none gTreeF
example : pπF.yielded 0 none gTreeF =
    [.ok ⟨[], .d⟩, .ok ⟨["xq".toList], .d⟩, .ok ⟨["xq".toList, "d".toList], .f⟩,
     .ok ⟨["xq".toList, "cc".toList, "q".toList], .l⟩, .ok ⟨["yb".toList], .f⟩,
     .err ["w".toList] false] := by decide

end Wax.NonVacuity.C16

namespace Wax.NonVacuity.Findings_F
open Wax Wax.Walk Wax.DepthBehavior

/-! Observations made while building the witnesses (none of the 22 theorems is vacuous). -/

/-- `max_at_pivot_saturates` says nothing beyond its hypothesis: the first conjunct is `Nat.zero_le`,
    the second is `¬ pivot ≤ max`, i.e. `max < pivot` again.  (Pure arithmetic, not tied to
    `DepthBehavior.atPivot`; the statement with content is `atPivot_short`.) -/
example (pivot max : Nat) : (0 ≤ max - pivot ∧ ¬ (0 + pivot ≤ max)) ↔ max < pivot := by omega

/-- `atPivot_short` (the finding K-DEPTH-SATURATE) is stated for `DepthBehavior.max` only; the same
    saturation happens for a `MinMax` whose maximum lies above the walk root, which neither
    `atPivot_short` nor `atPivot_admits` (its `hreach` fails) covers: `MinMax{1, 1}` (depths 1..2)
    below a pivot of 3 selects exactly the walk root, at depth 3 -/
example (d : Nat) : pivotAdmits ((DepthBehavior.minMax 1 1).atPivot 3) d ↔ d = 0 := by
  simp [atPivot, pivotAdmits, clampMax]
example : ¬ (DepthBehavior.minMax 1 1).admits (0 + 3) := by decide

/-- `feed_perm` is about the algebra as it is in the tree now (`applyVerdict`: a filtrate discarded
    as a tree becomes *tree* residue); for the algebra of the pinned code (`applyVerdictPinned`:
    *node* residue) the order of the combinators does matter -/
example : (feed applyVerdictPinned .filtrate [.file, .tree]).1 = .tree ∧
    (feed applyVerdictPinned .filtrate [.tree, .file]).1 = .node := by decide

/-- what `observes_all_once` (and with it `observedS_all_once`, `observed_nodup`, `driver_log_eq`)
    owes to the *definition* of `Pipeline.observedS`: a layer that exists is shown every Ok item of
    `π.items` because `showTo` / `statesOf` are defined to call every function of the stack on
    every entry (the modelling decision documented at the head of `WalkLogs.lean`); the only
    proved content added by `observes_all_once` is `walkItems = walkSpec`. -/
example (π : Pipeline) (mn : Nat) (mx : Option Nat) (rv : RootView) (i : Nat) (hi : i < π.layers.length) :
    π.observed mn mx rv i = okEntries (π.items mn mx rv) := by
  rw [Pipeline.observed, Pipeline.observedS, filterMap_showTo π i hi, List.map_map]
  exact List.map_id _

/-- the left-hand side of `driver_log_eq` mentions neither the position `i` nor the layers: the
    model of the driver prints the same list (every Ok item) for every instrumented layer, so the
    theorem relates two definitions of the model, not a log produced layer by layer -/
example (π : Pipeline) (ls : List Layer) (it : Item) :
    Cmd.showLog (π.withLayers ls) it = Cmd.showLog π it := by
  cases it <;> rfl

end Wax.NonVacuity.Findings_F

/-! ## ===== batch G ===== -/
namespace Wax.NonVacuity.C06
open Wax

/-- `/a/{b,*c}<d/:1,2>e` as parsed -/
def tA_G : Tok := .cat ⟨0, 18⟩ [.sep ⟨0, 1⟩, .lit ⟨1, 1⟩ ['a'] false, .sep ⟨2, 1⟩,
  .alt ⟨3, 6⟩ [.cat ⟨4, 1⟩ [.lit ⟨4, 1⟩ ['b'] false],
    .cat ⟨6, 2⟩ [.zom ⟨6, 1⟩ false, .lit ⟨7, 1⟩ ['c'] false]],
  .rep ⟨9, 8⟩ (.cat ⟨10, 2⟩ [.lit ⟨10, 1⟩ ['d'] false, .sep ⟨11, 1⟩]) 1 (some 2),
  .lit ⟨17, 1⟩ ['e'] false]
example : parse "/a/{b,*c}<d/:1,2>e".toList = .ok tA_G := by rfl

-- glob_root_certain (hypotheses are the implications of its statement): the rooted glob above
example : rootTok tA_G = some .always :=
  (glob_root_certain tA_G (by decide) (by decide)).resolve_right (by decide)
-- ... and an unrooted one with a branch in first position, `{a,b*}/c`
example : rootTok (.cat ⟨0, 8⟩ [.alt ⟨0, 6⟩ [.cat ⟨1, 1⟩ [.lit ⟨1, 1⟩ ['a'] false],
    .cat ⟨3, 2⟩ [.lit ⟨3, 1⟩ ['b'] false, .zom ⟨4, 1⟩ false]], .sep ⟨6, 1⟩, .lit ⟨7, 1⟩ ['c'] false]) =
    some .never :=
  (glob_root_certain _ (by decide) (by decide)).resolve_left (by decide)
-- the rule does reject something: `{a,/b}` (a branch that may root the glob)
example : rootRule true (.cat ⟨0, 6⟩ [.alt ⟨0, 6⟩ [.cat ⟨1, 1⟩ [.lit ⟨1, 1⟩ ['a'] false],
    .cat ⟨3, 2⟩ [.sep ⟨3, 1⟩, .lit ⟨4, 1⟩ ['b'] false]]]) = false := by decide

end Wax.NonVacuity.C06

namespace Wax.NonVacuity.C10
open Wax

/-- `{a,b/c}<x/:1,2>y` as parsed -/
def tD_G : Tok := .cat ⟨0, 16⟩ [
  .alt ⟨0, 7⟩ [.cat ⟨1, 1⟩ [.lit ⟨1, 1⟩ ['a'] false],
    .cat ⟨3, 3⟩ [.lit ⟨3, 1⟩ ['b'] false, .sep ⟨4, 1⟩, .lit ⟨5, 1⟩ ['c'] false]],
  .rep ⟨7, 8⟩ (.cat ⟨8, 2⟩ [.lit ⟨8, 1⟩ ['x'] false, .sep ⟨9, 1⟩]) 1 (some 2),
  .lit ⟨15, 1⟩ ['y'] false]
example : parse "{a,b/c}<x/:1,2>y".toList = .ok tD_G := by rfl

-- depthTok_wf: the fold returns a term for this pattern (two alternatives of different depth, a
-- repetition with a range), and every value in it is well formed
example : ∃ D, depthTok tD_G = .ok (some D) ∧ D.terms.length = 2 ∧ AllWf D := by
  have hk : (match depthTok tD_G with | .ok (some D) => D.terms.length == 2 | _ => false) = true := by
    decide
  cases h : depthTok tD_G with
  | error e => rw [h] at hk; cases hk
  | ok o =>
    cases o with
    | none => rw [h] at hk; cases hk
    | some D =>
      rw [h] at hk
      exact ⟨D, rfl, by simpa using hk, depthTok_wf tD_G D h⟩

end Wax.NonVacuity.C10

namespace Wax.NonVacuity.C15
open Wax Wax.Walk

/-- `a/{x, b/{y, c/{z}}}`, `p/{q/{r}}`, `c` -/
def forest_G : List WNode :=
  [.dir ['a'] [.leaf ['x'] .f, .dir ['b'] [.leaf ['y'] .f, .dir ['c'] [.leaf ['z'] .f]]],
   .dir ['p'] [.dir ['q'] [.leaf ['r'] .f]], .leaf ['c'] .f]

-- visitListB_congr (hypothesis `H`): min_depth 2, max_depth 3; a verdict that discards every
-- directory and one that discards only the directories at depth 2 agree where the verdict is
-- consulted (directories at depth 2), so they drive the same traversal ...
example : visitListB 2 (some 3) (fun _ => true) [] forest_G =
    visitListB 2 (some 3) (fun e => e.names.length == 2) [] forest_G :=
  visitListB_congr 2 (some 3) (fun _ => true) (fun e => e.names.length == 2)
    (by
      intro q h1 h2
      simp only [over] at h2
      have : q.length = 2 := by
        simp only [decide_eq_false_iff_not, Nat.not_lt] at h2; omega
      simp [this]) forest_G []
-- ... which is not the traversal of the verdict that never discards: `a/b` and `p/q` are pruned
example : (visitListB 2 (some 3) (fun _ => true) [] forest_G).length = 3 ∧
    (visitListB 2 (some 3) (fun _ => false) [] forest_G).length = 6 := by decide

/-- `a/{x, l -> nowhere, d/{k -> a (cycle), m -> unreadable}}`, `g -> file`: links of every kind, no
    unreadable directory outside a link -/
def links_G : List RNode :=
  [.dir ['a'] [.file ['x'], .linkDangling ['l'],
     .dir ['d'] [.linkCycle ['k'], .linkDir ['m'] [.unreadable ['u']]]], .linkFile ['g']]

-- readfile_no_errors_list (hypothesis `allReadableL`): read as files, these links produce no error
-- item, whatever the bounds and the verdict ...
example (mn : Nat) (mx : Option Nat) (v : Entry → Bool) :
    errItems (visitListB mn mx v [] (viewList false links_G)) = [] :=
  readfile_no_errors_list mn mx v links_G [] (by decide)
-- ... while followed (`ReadTarget`) they do: the hypothesis-free statement is about `ReadFile` only
example : (errItems (visitListB 0 none (fun _ => false) [] (viewList true links_G))).length = 3 := by
  decide

end Wax.NonVacuity.C15

/-! ## ===== batch H ===== -/
namespace Wax.NonVacuity.C03
open Wax Wax.Walk Wax.WalkTree

/-- `{x,y}/b?` as parsed -/
def globH : Tok :=
  .cat ⟨0, 8⟩ [.alt ⟨0, 5⟩ [.cat ⟨1, 1⟩ [.lit ⟨1, 1⟩ ['x'] false], .cat ⟨3, 1⟩ [.lit ⟨3, 1⟩ ['y'] false]],
    .sep ⟨5, 1⟩, .lit ⟨6, 1⟩ ['b'] false, .one ⟨7, 1⟩]
theorem parse_globH : parse "{x,y}/b?".toList = .ok globH := by rfl

def compsH : List (List Tok × Span) :=
  [([.alt ⟨0, 5⟩ [.cat ⟨1, 1⟩ [.lit ⟨1, 1⟩ ['x'] false], .cat ⟨3, 1⟩ [.lit ⟨3, 1⟩ ['y'] false]]], ⟨5, 1⟩)]
def lastH : List Tok := [.lit ⟨6, 1⟩ ['b'] false, .one ⟨7, 1⟩]
theorem globH_eq : globH = .cat ⟨0, 8⟩ (joinSep compsH (lastH ++ [])) := by rfl

/-- `?/b[c-d]/**` as parsed -/
def negH : Tok :=
  .cat ⟨0, 11⟩ [.one ⟨0, 1⟩, .sep ⟨1, 1⟩, .lit ⟨2, 1⟩ ['b'] false, .cls ⟨3, 5⟩ false [.rng 'c' 'd'],
    .tree ⟨8, 3⟩ true]
theorem parse_negH : parse "?/b[c-d]/**".toList = .ok negH := by rfl

/-- below `r`: `x/{bb, bd/{q -> …}, be -> …, bf/{z}}`, `y/{ba, bc}`, `by` -/
def treeH : RootView :=
  .dir [.dir ['x'] [.leaf ['b', 'b'] .f, .dir ['b', 'd'] [.leaf ['q'] .l], .leaf ['b', 'e'] .l,
          .dir ['b', 'f'] [.leaf ['z'] .f]],
        .dir ['y'] [.leaf ['b', 'a'] .f, .leaf ['b', 'c'] .f], .leaf ['b', 'y'] .f]

/-- `{x,y}/b?` walked from `r` (no invariant prefix: pivot 0), then `not("?/b[c-d]/**")`, then
    `filter_entry(links ↦ File)`, then `filter_entry(y ↦ Tree)` -/
def wH : SWalk :=
  ⟨exSem, ['r'], some (compiledProgram globH 0),
    [.not negH, .filter (fun e => if e.kind == .l then .file else .keep),
      .filter (fun e => if e.names.getLast? == some ['y'] then .tree else .keep)]⟩

theorem soundH : ProgramsSound exSem (compiledProgram globH 0) := by
  rw [globH_eq]
  exact programsSound_compiled exSem exSem_sepIsolated rfl ⟨0, 8⟩ compsH lastH []
      (by decide) (by decide) (Or.inl rfl) (by decide) 0

theorem wH_globOk : wH.GlobOk [] :=
  { pivot := rfl
    sound := fun g h => by
      obtain rfl : compiledProgram globH 0 = g := Option.some.inj h
      exact soundH
    rootEx := fun g h => by
      obtain rfl : compiledProgram globH 0 = g := Option.some.inj h
      decide }


-- walk_stack_exact_partial: glob `{x,y}/b?` from `r`, then not(`?/b[c-d]/**`), filter_entry(links ↦ File),
-- filter_entry(y ↦ Tree), over a 12-entry tree: what the consumer receives = the filter of the whole traversal
example :
    wH.filtrate 0 none treeH =
      (okEntries (walkItems 0 none never treeH)).filter (fun e =>
        Walk.within 0 none e.depth &&
        wH.globMatches (relOf ([] ++ e.names)) &&
        negKeeps wH.σ wH.negs (relOf ([] ++ e.names)) &&
        stackKeeps wH.filters e &&
        !cutAbove (silenced 0 (stackTree wH.filters)) treeH.isDirRoot e) ∧
    (∀ t ∈ wH.negs, ∀ rel, (notProgram t).residue wH.σ rel = .keep ↔ ¬ Spec.Matches wH.σ t rel) :=
  walk_stack_exact_partial wH [] (by decide) rfl (by decide) wH_globOk 0 none treeH (by decide) (by decide)

-- ... the filter, evaluated through the theorem: of the six entries the glob matches (`x/bb`, `x/bd`, `x/be`,
-- `x/bf`, `y/ba`, `y/bc`) the negation discards `x/bd`, `y/bc`, the first function the link `x/be`, and `y/ba`
-- lies beneath `y`, which the second function discards as a tree
example :
    (okEntries (walkItems 0 none never treeH)).filter (fun e =>
        Walk.within 0 none e.depth &&
        wH.globMatches (relOf ([] ++ e.names)) &&
        negKeeps wH.σ wH.negs (relOf ([] ++ e.names)) &&
        stackKeeps wH.filters e &&
        !cutAbove (silenced 0 (stackTree wH.filters)) treeH.isDirRoot e) =
      [⟨[['x'], ['b', 'b']], .f⟩, ⟨[['x'], ['b', 'f']], .d⟩] :=
  (walk_stack_exact_partial wH [] (by decide) rfl (by decide) wH_globOk 0 none treeH (by decide)
    (by decide)).1.symm.trans (by decide)

-- ... and its second conjunct on the negation: `x/bb` is kept by the `Not` program, so it is not in the
-- documented language of `?/b[c-d]/**`
example : ¬ Spec.Matches exSem negH ['x', '/', 'b', 'b'] :=
  ((walk_stack_exact_partial wH [] (by decide) rfl (by decide) wH_globOk 0 none treeH (by decide)
    (by decide)).2 negH (List.Mem.head _) ['x', '/', 'b', 'b']).mp (by decide)

end Wax.NonVacuity.C03

namespace Wax.NonVacuity.C02
open Wax Wax.Walk Wax.WalkTree Wax.NonVacuity.C03

-- walk_stack_bounded_exact: the same walk and stack under `DepthBehavior.minMax 2 0` (depth exactly 2; walkdir
-- gets min_depth = max_depth = 2): the directory `y` (depth 1) is below min_depth, so it is never shown to the
-- function that would discard it as a tree, and `y/ba` is received too
example :
    wH.filtrate 2 (some 2) treeH =
      (okEntries (walkItems 0 none never treeH)).filter (fun e =>
        decide ((DepthBehavior.minMax 2 0).admits (e.depth + wH.pivot)) &&
        wH.globMatches (relOf ([] ++ e.names)) &&
        negKeeps wH.σ wH.negs (relOf ([] ++ e.names)) &&
        stackKeeps wH.filters e &&
        !cutAbove (silenced 2 (stackTree wH.filters)) treeH.isDirRoot e) :=
  walk_stack_bounded_exact wH [] (by decide) rfl (by decide) wH_globOk (.minMax 2 0) (show 0 < 2 by decide)
    (fun _ _ => Nat.zero_le _) treeH (by decide) (by decide)

example :
    (okEntries (walkItems 0 none never treeH)).filter (fun e =>
        decide ((DepthBehavior.minMax 2 0).admits (e.depth + wH.pivot)) &&
        wH.globMatches (relOf ([] ++ e.names)) &&
        negKeeps wH.σ wH.negs (relOf ([] ++ e.names)) &&
        stackKeeps wH.filters e &&
        !cutAbove (silenced 2 (stackTree wH.filters)) treeH.isDirRoot e) =
      [⟨[['x'], ['b', 'b']], .f⟩, ⟨[['x'], ['b', 'f']], .d⟩, ⟨[['y'], ['b', 'a']], .f⟩] :=
  (walk_stack_bounded_exact wH [] (by decide) rfl (by decide) wH_globOk (.minMax 2 0) (show 0 < 2 by decide)
    (fun _ _ => Nat.zero_le _) treeH (by decide) (by decide)).symm.trans (by decide)


-- walk_stack_bounded_exact with an invariant prefix (pivot 1, so `filter_entry` layers only): `pW` of WalkStack.lean:
-- glob `a/x/b*/**` from `r/a/`, filter_entry(bd ↦ Tree), filter_entry(c ↦ File), behaviour minMax 1 3 (depths 1..4
-- from the root segment `r`, i.e. walkdir 0..3 below `r/a/`)
example :
    pW.filtrate 0 (some 3) bTree =
      (okEntries (walkItems 0 none never bTree)).filter (fun e =>
        decide ((DepthBehavior.minMax 1 3).admits (e.depth + pW.pivot)) &&
        pW.globMatches (relOf (["a".toList] ++ e.names)) &&
        negKeeps pW.σ pW.negs (relOf (["a".toList] ++ e.names)) &&
        stackKeeps pW.filters e &&
        !cutAbove (silenced 0 (stackTree pW.filters)) bTree.isDirRoot e) :=
  walk_stack_bounded_exact pW ["a".toList] (by decide) rfl (by decide) pW_globOk (.minMax 1 3)
    (show 0 < 1 by decide) (fun u h => by obtain rfl : 1 + 3 = u := Option.some.inj h; decide)
    bTree (by decide) (by decide)

example : pW.pivot = 1 ∧ pW.filtrate 0 (some 3) bTree = [⟨["x".toList, "bb".toList], .f⟩] :=
  ⟨rfl, by decide⟩

/-- the harness layers: `not("?/b[c-d]/**")`, then `filter_entry` by file name: `be ↦ File`, `y ↦ Tree` -/
def specsH : List LayerSpec := [.not negH, .rules [(['b', 'e'], false), (['y'], true)]]

theorem specH_globOk : (specSWalk exSem ['r'] (some (compiledProgram globH 0)) specsH).GlobOk [] :=
  { pivot := rfl
    sound := fun g h => by
      obtain rfl : compiledProgram globH 0 = g := Option.some.inj h
      exact soundH
    rootEx := fun g h => by
      obtain rfl : compiledProgram globH 0 = g := Option.some.inj h
      decide }

-- pipeline_stack_exact: the model's Pipeline (what the driver prints) for glob `{x,y}/b?` from `r` with the
-- harness layers not(`?/b[c-d]/**`), rules [be ↦ File, y ↦ Tree], depths 1..2, over the same tree
example :
    let W := specSWalk exSem ['r'] (some (compiledProgram globH 0)) specsH
    okEntries ((specPipeline exSem ['r'] (some (compiledProgram globH 0)) specsH).yielded 1 (some 2) treeH) =
      (okEntries (walkItems 0 none never treeH)).filter (fun e =>
        Walk.within 1 (some 2) e.depth &&
        W.globMatches (relOf ([] ++ e.names)) &&
        negKeeps exSem W.negs (relOf ([] ++ e.names)) &&
        stackKeeps W.filters e &&
        !cutAbove (silenced 1 (stackTree W.filters)) treeH.isDirRoot e) :=
  pipeline_stack_exact exSem ['r'] (some (compiledProgram globH 0)) specsH [] (by decide) rfl (by decide)
    specH_globOk 1 (some 2) treeH (by decide) (by decide)

example :
    let W := specSWalk exSem ['r'] (some (compiledProgram globH 0)) specsH
    (okEntries (walkItems 0 none never treeH)).filter (fun e =>
        Walk.within 1 (some 2) e.depth &&
        W.globMatches (relOf ([] ++ e.names)) &&
        negKeeps exSem W.negs (relOf ([] ++ e.names)) &&
        stackKeeps W.filters e &&
        !cutAbove (silenced 1 (stackTree W.filters)) treeH.isDirRoot e) =
      [⟨[['x'], ['b', 'b']], .f⟩, ⟨[['x'], ['b', 'f']], .d⟩] :=
  (pipeline_stack_exact exSem ['r'] (some (compiledProgram globH 0)) specsH [] (by decide) rfl (by decide)
    specH_globOk 1 (some 2) treeH (by decide) (by decide)).symm.trans (by decide)

end Wax.NonVacuity.C02

namespace Wax.NonVacuity.C04
open Wax

/-- `a/**/{b,c?}-[xy]*` as parsed: literal, tree wildcard (it has absorbed both separators),
    alternation, literal, class, `*` -/
def tH : Tok := .cat ⟨0, 17⟩ [.lit ⟨0, 1⟩ ['a'] false, .tree ⟨1, 4⟩ true,
    .alt ⟨5, 6⟩ [.cat ⟨6, 1⟩ [.lit ⟨6, 1⟩ ['b'] false], .cat ⟨8, 2⟩ [.lit ⟨8, 1⟩ ['c'] false, .one ⟨9, 1⟩]],
    .lit ⟨11, 1⟩ ['-'] false, .cls ⟨12, 4⟩ false [.chr 'x', .chr 'y'], .zom ⟨16, 1⟩ false]

theorem parse_tH : parse "a/**/{b,c?}-[xy]*".toList = .ok tH := by rfl

/-- the path `a/p/q/cd-xfoo` -/
def pathH : Str := ['a', '/', 'p', '/', 'q', '/', 'c', 'd', '-', 'x', 'f', 'o', 'o']

/-- the captures: `**/` ↦ `p/q/`, `{b,c?}` ↦ `cd`, `[xy]` ↦ `x`, `*` ↦ `foo` -/
def capsH : Caps := [some ['p', '/', 'q', '/'], some ['c', 'd'], some ['x'], some ['f', 'o', 'o']]

/-- the segments: one per top-level token -/
def usH : List Str := [['a'], ['/', 'p', '/', 'q', '/'], ['c', 'd'], ['-'], ['x'], ['f', 'o', 'o']]

/-- the elements of the compiled top-level concatenation, written out -/
def rsH : List Re :=
  [.lit ['a'] false,
   .grp (.alt [.chr .sepc, .cat [.chr .sepc, .cap (.cat [.star (.chr .dot), .chr .sepc])]]),
   .cap (.alt [.grp (.cat [.lit ['b'] false]), .grp (.cat [.lit ['c'] false, .grp (.chr .nsep)])]),
   .lit ['-'] false,
   .cap (.chr (.cls false [.chr 'x', .chr 'y'])),
   .cap (.star (.chr .nsep))]

theorem rsH_eq : topRs tH.concatenation = rsH := by rfl

theorem noCatH : ∀ x ∈ tH.concatenation, x.isCat = false := parse_noTopCat _ _ parse_tH

/-- the leftmost-first executor on the compiled glob -/
theorem execH : (encodeTop tH).exec σcs pathH = some (some pathH :: capsH) := by decide

theorem execH' : (Re.cat rsH).exec σcs pathH = some (some pathH :: capsH) := by
  have := execH
  rw [encodeTop_eq, rsH_eq] at this
  exact this

-- exec_runs: glob `a/**/{b,c?}-[xy]*` on `a/p/q/cd-xfoo`: a capture-annotated derivation from four empty slots
example : Runs σcs (encodeTop tH) 0 pathH [none, none, none, none] capsH := exec_runs execH

-- exec_caps_tile: the same run: segments, one per element, each matched, every capture a window of its segment
example : ∃ us : List Str, us.length = rsH.length ∧ pathH = us.flatten ∧
      (∀ (e : Nat) (r : Re) (u : Str), rsH[e]? = some r → us[e]? = some u → Matches σcs r u) ∧
      ∀ (e : Nat) (r : Re) (u : Str) (i : Nat) (x : Str), rsH[e]? = some r → us[e]? = some u →
        slotBase rsH e ≤ i → i < slotBase rsH e + r.ncaps → capsH[i]? = some (some x) →
        ∃ a, segStart us e ≤ a ∧ a + x.length ≤ segStart us e + u.length ∧
          x = (pathH.drop a).take x.length := exec_caps_tile execH'

/-- `[^/]*` on a separator-free text, slots untouched -/
theorem runs_star_nsep_H (n : Nat) (c : Caps) : ∀ u : Str, (∀ a ∈ u, CharPred.nsep.holds σcs a = true) →
    Runs σcs (.star (.chr .nsep)) n u c c
  | [], _ => .starNil
  | a :: u, h => .starCons (u := [a]) (v := u) (.chr (h a (by simp)))
      (runs_star_nsep_H n c u (fun b hb => h b (by simp [hb])))

theorem runs_star_dot_H (n : Nat) (c : Caps) : ∀ u : Str, Runs σcs (.star (.chr .dot)) n u c c
  | [] => .starNil
  | a :: u => .starCons (u := [a]) (v := u) (.chr (by simp [CharPred.holds, σcs])) (runs_star_dot_H n c u)

/-- **the tiling of the run, written out** (built by hand from the constructors of `Runs`, so that the
    theorems that take a `Tiling` can be shown on concrete segments) -/
theorem tilingH : Tiling σcs (topRs tH.concatenation) pathH capsH usH := by
  rw [rsH_eq]
  refine ⟨rfl, rfl, rfl, ?_⟩
  intro e r u hr hu
  match e, hr, hu with
  | 0, hr, hu =>
    obtain rfl := Option.some.inj hr
    obtain rfl := Option.some.inj hu
    exact ⟨capsH, capsH, .lit (by decide), rfl, fun i h1 h2 => absurd h2 (by simp [Re.ncaps])⟩
  | 1, hr, hu =>
    obtain rfl := Option.some.inj hr
    obtain rfl := Option.some.inj hu
    refine ⟨[none, none, none, none], [some ['p', '/', 'q', '/'], none, none, none], ?_, rfl, ?_⟩
    · refine .grp (.alt (pre := [.chr .sepc]) (post := []) rfl ?_)
      refine .cat (.cons (u := ['/']) (v := ['p', '/', 'q', '/']) (.chr (by decide)) ?_)
      refine .cons (u := ['p', '/', 'q', '/']) (v := []) ?_ .nil
      exact .cap (c' := [none, none, none, none]) (.cat
        (.cons (u := ['p', '/', 'q']) (v := ['/']) (runs_star_dot_H _ _ _)
          (.cons (u := ['/']) (v := []) (.chr (by decide)) .nil)))
    · intro i h1 h2
      have h1' : 0 ≤ i := h1
      have h2' : i < 0 + 1 := h2
      have : i = 0 := by omega
      subst this; exact ⟨rfl, rfl⟩
  | 2, hr, hu =>
    obtain rfl := Option.some.inj hr
    obtain rfl := Option.some.inj hu
    refine ⟨[none, none, none, none], [none, some ['c', 'd'], none, none], ?_, rfl, ?_⟩
    · refine .cap (c' := [none, none, none, none])
        (.alt (pre := [.grp (.cat [.lit ['b'] false])]) (post := []) rfl ?_)
      exact .grp (.cat (.cons (u := ['c']) (v := ['d']) (.lit (by decide))
        (.cons (u := ['d']) (v := []) (.grp (.chr (by decide))) .nil)))
    · intro i h1 h2
      have h1' : 1 ≤ i := h1
      have h2' : i < 1 + 1 := h2
      have : i = 1 := by omega
      subst this; exact ⟨rfl, rfl⟩
  | 3, hr, hu =>
    obtain rfl := Option.some.inj hr
    obtain rfl := Option.some.inj hu
    exact ⟨capsH, capsH, .lit (by decide), rfl, fun i h1 h2 => by
      have h1' : 2 ≤ i := h1
      have h2' : i < 2 := h2
      omega⟩
  | 4, hr, hu =>
    obtain rfl := Option.some.inj hr
    obtain rfl := Option.some.inj hu
    refine ⟨[none, none, none, none], [none, none, some ['x'], none], ?_, rfl, ?_⟩
    · exact .cap (c' := [none, none, none, none]) (.chr (by decide))
    · intro i h1 h2
      have h1' : 2 ≤ i := h1
      have h2' : i < 2 + 1 := h2
      have : i = 2 := by omega
      subst this; exact ⟨rfl, rfl⟩
  | 5, hr, hu =>
    obtain rfl := Option.some.inj hr
    obtain rfl := Option.some.inj hu
    refine ⟨[none, none, none, none], [none, none, none, some ['f', 'o', 'o']], ?_, rfl, ?_⟩
    · exact .cap (c' := [none, none, none, none]) (runs_star_nsep_H _ _ _ (by decide))
    · intro i h1 h2
      have h1' : 3 ≤ i := h1
      have h2' : i < 3 + 1 := h2
      have : i = 3 := by omega
      subst this; exact ⟨rfl, rfl⟩
  | e + 6, hr, _ => exact absurd hr (by simp [rsH])

-- caps_ordered: same glob and path; the tree-wildcard capture `p/q/` (token 1, slot 0) and the `*` capture `foo` (token 5, slot 3)
example : 0 < 3 ∧ ∃ a1 a2, ['p', '/', 'q', '/'] = (pathH.drop a1).take 4 ∧
      ['f', 'o', 'o'] = (pathH.drop a2).take 3 ∧ a1 + 4 ≤ a2 ∧ a2 + 3 ≤ 13 :=
  caps_ordered tilingH (e1 := 1) (e2 := 5) (by decide) (r1 := rsH[1]) (r2 := rsH[5])
    (u1 := ['/', 'p', '/', 'q', '/']) (u2 := ['f', 'o', 'o']) rfl rfl rfl rfl
    (i1 := 0) (i2 := 3) (by decide) (by decide) (by decide) (by decide)
    (x1 := ['p', '/', 'q', '/']) (x2 := ['f', 'o', 'o']) rfl rfl

-- caps_between: same; between the capture `p/q/` of `**/` (token 1) and the capture `x` of `[xy]` (token 4) lie
-- exactly the segments `cd` (of `{b,c?}`) and `-` (of the literal), each matched by its own element
example : ∃ p1 q1 p2 q2 mid, ['/', 'p', '/', 'q', '/'] = p1 ++ ['p', '/', 'q', '/'] ++ q1 ∧
      ['x'] = p2 ++ ['x'] ++ q2 ∧ mid = [['c', 'd'], ['-']] ∧
      (∀ j u, mid[j]? = some u → ∃ r, rsH[1 + 1 + j]? = some r ∧ Matches σcs r u) ∧
      pathH = ((usH.take 1).flatten ++ p1) ++ ['p', '/', 'q', '/'] ++ (q1 ++ mid.flatten ++ p2) ++ ['x'] ++
            (q2 ++ (usH.drop (4 + 1)).flatten) ∧
      (pathH.drop (segStart usH 1 + p1.length + 4)).take
          (segStart usH 4 + p2.length - (segStart usH 1 + p1.length + 4)) =
        q1 ++ mid.flatten ++ p2 :=
  caps_between tilingH (e1 := 1) (e2 := 4) (by decide) (r1 := rsH[1]) (r2 := rsH[4])
    (u1 := ['/', 'p', '/', 'q', '/']) (u2 := ['x']) rfl rfl rfl rfl
    (i1 := 0) (i2 := 2) (by decide) (by decide) (by decide) (by decide)
    (x1 := ['p', '/', 'q', '/']) (x2 := ['x']) rfl rfl

-- tree_capture_components: same; the site of `**/` between `a` and `{b,c?}` is the intermediate form: its segment
-- `/p/q/` is `/` followed by the capture, which is a run of complete components ending in a separator
example :
    ((['/', 'p', '/', 'q', '/'] : Str) = ['/'] ∧ capsH[slotBase rsH 1]? = some none) ∨
      ∃ x, (['/', 'p', '/', 'q', '/'] : Str) = '/' :: x ∧ capsH[slotBase rsH 1]? = some (some x) ∧
        (∃ m, x = m ++ ['/']) ∧ Star CompSep x :=
  (tree_capture_components tilingH (e := 1) (u := ['/', 'p', '/', 'q', '/']) rfl).1 rfl

-- nontree_capture_segment: same; the alternation `{b,c?}` (token 2) participates and captures its whole segment `cd`
example : capsH[capIdx tH.concatenation 2]? = some (some ['c', 'd']) :=
  nontree_capture_segment noCatH tilingH (e := 2)
    (t := .alt ⟨5, 6⟩ [.cat ⟨6, 1⟩ [.lit ⟨6, 1⟩ ['b'] false], .cat ⟨8, 2⟩ [.lit ⟨8, 1⟩ ['c'] false, .one ⟨9, 1⟩]])
    rfl rfl (fun _ _ h => nomatch h) rfl

-- nontree_capture_segment: same; the class `[xy]` (token 4) captures its one-character segment `x`
example : capsH[capIdx tH.concatenation 4]? = some (some ['x']) :=
  nontree_capture_segment noCatH tilingH (e := 4) (t := .cls ⟨12, 4⟩ false [.chr 'x', .chr 'y'])
    rfl rfl (fun _ _ h => nomatch h) rfl

-- exec_top_caps_ordered: same, straight from the executor: the captures of `{b,c?}` (token 2) and `*` (token 5)
example : capIdx tH.concatenation 2 < capIdx tH.concatenation 5 ∧
      ∃ a1 a2, ['c', 'd'] = (pathH.drop a1).take 2 ∧ ['f', 'o', 'o'] = (pathH.drop a2).take 3 ∧
        a1 + 2 ≤ a2 ∧ a2 + 3 ≤ 13 :=
  exec_top_caps_ordered noCatH execH (e1 := 2) (e2 := 5) (by decide)
    (t1 := .alt ⟨5, 6⟩ [.cat ⟨6, 1⟩ [.lit ⟨6, 1⟩ ['b'] false], .cat ⟨8, 2⟩ [.lit ⟨8, 1⟩ ['c'] false, .one ⟨9, 1⟩]])
    (t2 := .zom ⟨16, 1⟩ false) rfl rfl rfl rfl (x1 := ['c', 'd']) (x2 := ['f', 'o', 'o']) rfl rfl

-- caps_length_top: same; the four slots are the four capturing tokens `**/`, `{b,c?}`, `[xy]`, `*` (of six tokens)
example : capsH.length = (tH.concatenation.filter Tok.capturing).length := caps_length_top noCatH tilingH
example : capsH.length = 4 ∧ (tH.concatenation.filter Tok.capturing).length = 4 ∧ tH.concatenation.length = 6 :=
  ⟨rfl, rfl, rfl⟩

end Wax.NonVacuity.C04

namespace Wax.NonVacuity.C15
open Wax Wax.Walk

-- upper_minMax_is_source: DepthMinMax { min: 2, extent: 3 }: `max()` = 2 + 3 = 5, no saturation
example : DepthBehavior.upper (.minMax 2 3) = some (Generated.depthMinMaxMax 2 3) ∧
    Generated.depthMinMaxMax 2 3 = 5 :=
  ⟨DepthBehavior.upper_minMax_is_source 2 3 (by decide), by decide⟩

-- upper_minMax_is_source: at the edge of the hypothesis: min = usize::MAX - 1, extent = 1
example : DepthBehavior.upper (.minMax (2 ^ 64 - 2) 1) = some (Generated.depthMinMaxMax (2 ^ 64 - 2) 1) ∧
    Generated.depthMinMaxMax (2 ^ 64 - 2) 1 = 2 ^ 64 - 1 :=
  ⟨DepthBehavior.upper_minMax_is_source (2 ^ 64 - 2) 1 (by decide), by decide⟩

-- atPivot_minMax_is_source: DepthMinMax { min: 3, extent: 2 } at pivot 1: `min_max_at_pivot` = (2, 4)
example : DepthBehavior.atPivot (.minMax 3 2) 1 =
      ((Generated.minMaxAtPivot 3 2 1).1, clampMax (Generated.minMaxAtPivot 3 2 1).1 (some (Generated.minMaxAtPivot 3 2 1).2)) ∧
    Generated.minMaxAtPivot 3 2 1 = (2, 4) ∧ DepthBehavior.atPivot (.minMax 3 2) 1 = (2, some 4) :=
  ⟨DepthBehavior.atPivot_minMax_is_source 3 2 1 (by decide), by decide, by decide⟩

-- atPivot_minMax_is_source: a pivot deeper than both bounds: { min: 2, extent: 1 } at pivot 5: both subtractions saturate
example : DepthBehavior.atPivot (.minMax 2 1) 5 =
      ((Generated.minMaxAtPivot 2 1 5).1, clampMax (Generated.minMaxAtPivot 2 1 5).1 (some (Generated.minMaxAtPivot 2 1 5).2)) ∧
    Generated.minMaxAtPivot 2 1 5 = (0, 0) :=
  ⟨DepthBehavior.atPivot_minMax_is_source 2 1 5 (by decide), by decide⟩

end Wax.NonVacuity.C15

namespace Wax.NonVacuity.Findings_H
open Wax Wax.Walk

/-- C15, `atPivot_minMax_is_source`: the `clampMax` that appears on the right-hand side (and in the model's
    `atPivot`) never clamps — the translated upper bound is never below the translated lower bound — so the
    theorem could state the plain pair; nothing is hidden by it -/
theorem clampMax_noop (a e p : Nat) : clampMax (a - p) (some (a + e - p)) = some (a + e - p) := by
  have : ¬ (a + e - p < a - p) := by omega
  simp [clampMax, this]

theorem atPivot_minMax_plain (a e p : Nat) (h : a + e ≤ Generated.usizeMax) :
    DepthBehavior.atPivot (.minMax a e) p =
      ((Generated.minMaxAtPivot a e p).1, some (Generated.minMaxAtPivot a e p).2) := by
  rw [DepthBehavior.atPivot_minMax_is_source a e p h]
  have : ¬ (a + e - p < a - p) := by omega
  simp [Generated.minMaxAtPivot, Generated.depthMinMaxMax, Generated.satAdd, Generated.satSub, h, clampMax, this]

/-- C15: the hypothesis `a + e ≤ usizeMax` is needed (outside it the model's `upper` does not saturate while
    the source does) ... -/
example : DepthBehavior.upper (.minMax (2 ^ 64 - 1) 1) ≠ some (Generated.depthMinMaxMax (2 ^ 64 - 1) 1) := by
  decide

/-- ... and it holds for every value the two public constructors build from two `usize` depths -/
theorem fromDepthsOrMax_hyp (p q a e : Nat) (hp : p ≤ Generated.usizeMax) (hq : q ≤ Generated.usizeMax)
    (h : DepthBehavior.fromDepthsOrMax p q = .minMax a e) : a + e ≤ Generated.usizeMax := by
  unfold DepthBehavior.fromDepthsOrMax at h
  by_cases hpq : p ≤ q <;> simp only [hpq, if_true, if_false] at h <;> split at h <;> cases h <;> omega

/-- C04, `caps_ordered` / `exec_top_caps_ordered`: captures in the model are texts, not offsets, and the
    conclusion only says that SOME occurrence of the first text ends before SOME occurrence of the second
    starts.  On a path with repeated text it holds for both orders, so it cannot tell them apart: in `abab`
    "`b` before `a`" and "`a` before `b`" are both satisfied.  (`exec_caps_tile`, which places every window
    inside the segment of its own element, is the statement that does pin the order.) -/
example :
    (∃ a1 a2, ['b'] = (['a', 'b', 'a', 'b'].drop a1).take 1 ∧ ['a'] = (['a', 'b', 'a', 'b'].drop a2).take 1 ∧
      a1 + 1 ≤ a2 ∧ a2 + 1 ≤ 4) ∧
    (∃ a1 a2, ['a'] = (['a', 'b', 'a', 'b'].drop a1).take 1 ∧ ['b'] = (['a', 'b', 'a', 'b'].drop a2).take 1 ∧
      a1 + 1 ≤ a2 ∧ a2 + 1 ≤ 4) :=
  ⟨⟨1, 2, rfl, rfl, by decide, by decide⟩, ⟨0, 1, rfl, rfl, by decide, by decide⟩⟩

end Wax.NonVacuity.Findings_H
