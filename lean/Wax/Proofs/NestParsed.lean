import Wax.Proofs.NestBound
/-! C05, for what the parser produces: the body of every repetition and every alternative is a
concatenation, so every level of brackets adds two to the height and at most four to the nesting.
Hence `patternNest t ≤ 2 * t.height + 5` for every parsed expression, and no nesting panic up to
height 122 (60 levels of brackets); 61 levels can panic. -/
set_option linter.unusedSimpArgs false
set_option linter.unusedVariables false
namespace Wax

mutual
  /-- sub-globs are concatenations (what `parseGlob` returns) -/
  def cshape : Tok → Bool
    | .alt _ bs => cshapeL true bs
    | .cat _ ts => cshapeL false ts
    | .rep _ b _ _ => isCatT b && cshape b
    | _ => true
  def cshapeL (needCat : Bool) : List Tok → Bool
    | [] => true
    | t :: ts => (!needCat || isCatT t) && cshape t && cshapeL needCat ts
end

theorem cshapeL_append (c : Bool) : ∀ (a b : List Tok), cshapeL c (a ++ b) = (cshapeL c a && cshapeL c b)
  | [], b => by simp [cshapeL]
  | t :: a, b => by simp [cshapeL, cshapeL_append c a b, Bool.and_assoc]

theorem cshapeL_snoc {c : Bool} {a : List Tok} {t : Tok} (ha : cshapeL c a = true)
    (ht : cshape t = true) (hc : (!c || isCatT t) = true) : cshapeL c (a ++ [t]) = true := by
  rw [cshapeL_append]; simp only [cshapeL, ha, ht, hc]; rfl

/-! ### the parser produces it -/

structure CInv (fuel : Nat) : Prop where
  glob : ∀ t i tok j, parseGlob fuel t i = some (tok, j) → cshape tok = true ∧ isCatT tok = true
  tokens : ∀ t i acc toks j, parseTokens fuel t i acc = some (toks, j) → cshapeL false acc = true →
    cshapeL false toks = true
  token : ∀ t i tok j, parseToken fuel t i = some (tok, j) → cshape tok = true
  rep : ∀ i body lo hi j, parseRepetition fuel i = some (body, lo, hi, j) →
    cshape body = true ∧ isCatT body = true
  alt : ∀ i bs j, parseAlternation fuel i = some (bs, j) → cshapeL true bs = true
  branches : ∀ i acc bs j, parseBranches fuel i acc = (bs, j) → cshapeL true acc = true →
    cshapeL true bs = true

theorem cinv_zero : CInv 0 where
  glob := by intro t i tok j h; simp [parseGlob] at h
  tokens := by
    intro t i acc toks j h ha
    simp only [parseTokens, Option.some.injEq, Prod.mk.injEq] at h
    obtain ⟨rfl, rfl⟩ := h; exact ha
  token := by intro t i tok j h; simp [parseToken] at h
  rep := by intro i body lo hi j h; simp [parseRepetition] at h
  alt := by intro i bs j h; simp [parseAlternation] at h
  branches := by
    intro i acc bs j h ha
    simp only [parseBranches, Prod.mk.injEq] at h
    obtain ⟨rfl, rfl⟩ := h; exact ha

theorem cinv_succ (fuel : Nat) (ih : CInv fuel) : CInv (fuel + 1) where
  glob := by
    intro t i0 tok j h
    rw [parseGlob] at h
    dsimp only at h
    split at h
    · cases h
    · rename_i toks k hk
      have hts := ih.tokens _ _ _ _ _ hk rfl
      split at h
      · cases h
      · split at h
        · injection h with h; injection h with h1 h2; subst h1 h2
          exact ⟨by simp [cshape, hts], rfl⟩
        · cases h
  tokens := by
    intro t i acc toks j h ha
    rw [parseTokens] at h
    split at h
    · rename_i tok k hk
      have ht := ih.token _ _ _ _ hk
      split at h
      · injection h with h; injection h with h1 h2; subst h1 h2; exact ha
      · exact ih.tokens _ _ _ _ _ h (cshapeL_snoc ha ht rfl)
    · injection h with h; injection h with h1 h2; subst h1 h2; exact ha
  token := by
    intro t i tok j h
    rw [parseToken] at h
    dsimp only at h
    split at h
    · injection h with h; injection h with h1 h2; subst h1 h2; rfl
    · split at h
      · rename_i body lo hi k hk
        injection h with h; injection h with h1 h2; subst h1 h2
        obtain ⟨h1, h2⟩ := ih.rep _ _ _ _ _ hk
        simp [cshape, h1, h2]
      · split at h
        · rename_i bs k hk
          injection h with h; injection h with h1 h2; subst h1 h2
          simpa [cshape] using ih.alt _ _ _ hk
        · split at h
          · injection h with h; injection h with h1 h2; subst h1 h2; rfl
          · injection h with h; injection h with h1 h2; subst h1 h2; rfl
          · injection h with h; injection h with h1 h2; subst h1 h2; rfl
          · split at h
            · injection h with h; injection h with h1 h2; subst h1 h2; rfl
            · split at h
              · injection h with h; injection h with h1 h2; subst h1 h2; rfl
              · cases h
  rep := by
    intro i body lo hi j h
    rw [parseRepetition] at h
    split at h
    · cases h
    · split at h
      · cases h
      · rename_i b k hk
        have hb := ih.glob _ _ _ _ hk
        generalize parseBounds k = R at h
        obtain ⟨lo', hi', l⟩ := R
        dsimp only at h
        split at h
        · injection h with h; injection h with h1 h; subst h1; exact hb
        · cases h
  alt := by
    intro i bs j h
    rw [parseAlternation] at h
    split at h
    · cases h
    · split at h
      · cases h
      · rename_i b k hk
        obtain ⟨hb, hc⟩ := ih.glob _ _ _ _ hk
        have hB := ih.branches k [b]
        generalize parseBranches fuel k [b] = R at h hB
        obtain ⟨bs', l⟩ := R
        have h1 := hB bs' l rfl (by simp [cshapeL, hb, hc])
        dsimp only at h
        split at h
        · injection h with h; injection h with e1 e2; subst e1; exact h1
        · cases h
  branches := by
    intro i acc bs j h ha
    rw [parseBranches] at h
    split at h
    · injection h with h1 h2; subst h1 h2; exact ha
    · split at h
      · injection h with h1 h2; subst h1 h2; exact ha
      · rename_i b k hk
        obtain ⟨hb, hc⟩ := ih.glob _ _ _ _ hk
        exact ih.branches _ _ _ _ h (cshapeL_snoc ha hb (by simp [hc]))

theorem cinv_all : ∀ fuel, CInv fuel
  | 0 => cinv_zero
  | n + 1 => cinv_succ n (cinv_all n)

/-- every sub-glob of a parsed expression is a concatenation -/
theorem parse_cshape (e : Str) (t : Tok) (h : parse e = .ok t) : cshape t = true := by
  unfold parse at h
  split at h
  · injection h with h; subst h; rfl
  · dsimp only at h
    split at h
    · cases h
    · rename_i toks j hj
      have hts := (cinv_all _).tokens _ _ _ _ _ hj rfl
      split at h
      · cases h
      · split at h
        · injection h with h; subst h
          simp [cshape, hts]
        · cases h

/-! ### the bound -/

theorem nest_le_fl (r : Re) : r.nest ≤ 1 + fl r := by
  cases r with
  | cat l => rw [fl_cat, Re.nest]; exact nestCat_le l
  | _ => rw [fl_of_not_cat _ rfl]; omega

theorem leaf_fl_le (t : Tok) (h0 : t.height = 0) (c : Bool) (sup : Option Pos) (p : Pos) :
    fl (encodeTok c sup p t) ≤ 6 := by
  have := (tok_bound t c sup p).1
  rw [h0] at this; omega

mutual
  theorem ctok_bound : ∀ (t : Tok) (c : Bool) (sup : Option Pos) (p : Pos), cshape t = true →
      fl (encodeTok c sup p t) ≤ 2 * t.height + 6 ∧
      (isCatT t = true → fl (encodeTok c sup p t) ≤ 2 * t.height + 4)
    | .lit sp s ci, c, sup, p, _ =>
      ⟨by have := leaf_fl_le (.lit sp s ci) rfl c sup p; omega, fun h => by simp [isCatT] at h⟩
    | .sep sp, c, sup, p, _ =>
      ⟨by have := leaf_fl_le (.sep sp) rfl c sup p; omega, fun h => by simp [isCatT] at h⟩
    | .cls sp n it, c, sup, p, _ =>
      ⟨by have := leaf_fl_le (.cls sp n it) rfl c sup p; omega, fun h => by simp [isCatT] at h⟩
    | .one sp, c, sup, p, _ =>
      ⟨by have := leaf_fl_le (.one sp) rfl c sup p; omega, fun h => by simp [isCatT] at h⟩
    | .zom sp l, c, sup, p, _ =>
      ⟨by have := leaf_fl_le (.zom sp l) rfl c sup p; omega, fun h => by simp [isCatT] at h⟩
    | .tree sp r, c, sup, p, _ =>
      ⟨by have := leaf_fl_le (.tree sp r) rfl c sup p; omega, fun h => by simp [isCatT] at h⟩
    | .alt sp bs, c, sup, p, hs => by
      simp only [cshape] at hs
      have hb := cbranches_bound bs (supOr sup p) hs
      have e : fl (encodeTok c sup p (.alt sp bs)) = (encodeTok c sup p (.alt sp bs)).nest :=
        fl_of_not_cat _ (isCat_G _ _)
      have hn : (encodeTok c sup p (.alt sp bs)).nest ≤ 2 * (Tok.alt sp bs).height + 6 := by
        simp only [encodeTok, nest_G, Re.nest, Tok.height]
        have := nestAlt_le (encodeBranches (supOr sup p) bs)
        omega
      rw [e]
      exact ⟨hn, fun h => by simp [isCatT] at h⟩
    | .rep sp b lo hi, c, sup, p, hs => by
      simp only [cshape, Bool.and_eq_true] at hs
      have hb := (ctok_bound b false (supOr sup p) .only hs.2).2 hs.1
      have e : fl (encodeTok c sup p (.rep sp b lo hi)) = (encodeTok c sup p (.rep sp b lo hi)).nest := by
        rw [encodeTok_rep]; exact fl_of_not_cat _ (isCat_G _ _)
      have hn : (encodeTok c sup p (.rep sp b lo hi)).nest ≤ 2 * (Tok.rep sp b lo hi).height + 6 := by
        rw [encodeTok_rep]
        simp only [nest_G, Re.nest, Tok.height, nest_concRe]
        have := nest_le_fl (encodeTok false (supOr sup p) .only b)
        omega
      rw [e]
      exact ⟨hn, fun h => by simp [isCatT] at h⟩
    | .cat sp ts, c, sup, p, hs => by
      simp only [cshape] at hs
      have hl := clist_bound ts c sup 0 ts.length hs
      simp only [encodeTok, fl_cat, Tok.height]
      exact ⟨by omega, fun _ => by omega⟩
  theorem clist_bound : ∀ (ts : List Tok) (c : Bool) (sup : Option Pos) (i n : Nat),
      cshapeL false ts = true → maxL (Re.flat (encodeList c sup ts i n)) ≤ 2 * heightL ts + 6
    | [], c, sup, i, n, _ => by simp [encodeList, flat_nil, maxL]
    | t :: ts, c, sup, i, n, hs => by
      simp only [cshapeL, Bool.and_eq_true] at hs
      have h1 := (ctok_bound t c sup (posOf i n) hs.1.2).1
      have h2 := clist_bound ts c sup (i + 1) n hs.2
      simp only [encodeList, flat_cons, heightL]
      omega
  theorem cbranches_bound : ∀ (bs : List Tok) (sup : Option Pos), cshapeL true bs = true →
      maxL (Re.nestAlts (encodeBranches sup bs)) ≤ 2 * heightL bs + 6
    | [], sup, _ => by simp [encodeBranches, Re.nestAlts, maxL]
    | b :: bs, sup, hs => by
      simp only [cshapeL, Bool.not_true, Bool.false_or, Bool.and_eq_true] at hs
      have h1 := (ctok_bound b false sup .only hs.1.2).2 hs.1.1
      have h2 := cbranches_bound bs sup hs.2
      have h3 := nest_le_fl (encodeTok false sup .only b)
      rw [encodeBranches_cons]
      simp only [Re.nestAlts, maxL, Re.nest, nest_concRe, heightL]
      omega
end

/-- a root concatenation whose sub-globs are all concatenations -/
theorem nest_bound_cshape (sp : Span) (ts : List Tok) (hs : cshape (.cat sp ts) = true) :
    patternNest (.cat sp ts) ≤ 2 * (Tok.cat sp ts).height + 5 := by
  simp only [cshape] at hs
  have := clist_bound ts true none 0 ts.length hs
  rw [patternNest_cat]; simp only [Tok.height]; omega

/-- **every parsed expression**: the nesting of the emitted expression is at most
    `2 * height + 5`, i.e. `4 d + 7` for `d` levels of brackets -/
theorem nest_bound_parsed (e : Str) (t : Tok) (hp : parse e = .ok t) :
    patternNest t ≤ 2 * t.height + 5 := by
  have hs := parse_cshape e t hp
  rcases parse_root e t hp with rfl | ⟨sp, ts, rfl⟩
  · have := nest_bound (.lit ⟨0, 0⟩ [] false); simp only [Tok.height] at this ⊢; omega
  · exact nest_bound_cshape sp ts hs

/-- **C05 for expressions, sharp**: a parsed expression of height at most 122 (at most 60 levels
    of brackets) does not hit the nesting limit of the regex compiler -/
theorem no_nest_panic_parsed (e : Str) (t : Tok) (hp : parse e = .ok t) (h : t.height ≤ 122) :
    nestPanics t = false := by
  have := nest_bound_parsed e t hp
  unfold nestPanics nestLimit; exact decide_eq_false (by omega)

/-! ### tightness: `n` levels of repetition, bodies wrapped as the parser wraps them -/

/-- `a<a<a< a/**/b >>>` as the parser shapes it: every body a concatenation -/
def repC : Nat → Tok
  | 0 => .cat ⟨0, 0⟩ [litA, .tree ⟨0, 0⟩ false, litA]
  | n + 1 => .cat ⟨0, 0⟩ [litA, .rep ⟨0, 0⟩ (repC n) 1 none]

theorem cshape_repC : ∀ n, cshape (repC n) = true
  | 0 => by simp [repC, cshape, cshapeL, litA]
  | n + 1 => by
    have h : isCatT (repC n) = true := by cases n <;> rfl
    simp [repC, cshape, cshapeL, cshape_repC n, h, litA]

theorem height_repC : ∀ n, (repC n).height = 2 * n + 1
  | 0 => by simp [repC, Tok.height, heightL, litA]
  | n + 1 => by simp only [repC, Tok.height, heightL, height_repC n, litA]; omega

theorem flat_cons_not_cat (x : Re) (hx : x.isCat = false) (rs : List Re) :
    Re.flat (x :: rs) = x.nest :: Re.flat rs := by
  cases x with
  | cat l => simp [Re.isCat] at hx
  | _ => simp [Re.flat]

theorem nestCat_cons2 (x y : Re) (rs : List Re) (hx : x.isCat = false) (hy : y.isCat = false) :
    Re.nestCat (x :: y :: rs) = 1 + maxL (Re.flat (x :: y :: rs)) := by
  unfold Re.nestCat
  rw [flat_cons_not_cat x hx, flat_cons_not_cat y hy]

theorem fl_litA : fl (Re.lit ['a'] false) = 1 := by simp [fl, Re.flat, maxL, Re.nest]

theorem fl_siteIntermediate (c : Bool) : fl (siteIntermediate c) = 6 := by
  rw [fl_of_not_cat _ (by cases c <;> rfl), nest_siteIntermediate]

/-- the elements of the innermost concatenation: the tree wildcard in the middle nests 6 -/
theorem flat_repC0 (c : Bool) (sup : Option Pos) :
    maxL (Re.flat (encodeList c sup [litA, .tree ⟨0, 0⟩ false, litA] 0 3)) = 6 := by
  simp only [encodeList, flat_cons, flat_nil, maxL, posOf, litA, encodeTok, encodeTree]
  simp [fl_litA, fl_siteIntermediate]

theorem isCat_rep (c : Bool) (sup : Option Pos) (p : Pos) (sp : Span) (b : Tok) (lo : Nat)
    (hi : Option Nat) : (encodeTok c sup p (.rep sp b lo hi)).isCat = false := by
  rw [encodeTok_rep]; exact isCat_G _ _

/-- the nesting of the encoded tower, in any context: four per level -/
theorem nest_repC : ∀ n c sup p, (encodeTok c sup p (repC n)).nest = 4 * n + 7
  | 0, c, sup, p => by
    have hf := flat_repC0 c sup
    simp only [repC, encodeTok, Re.nest, List.length_cons, List.length_nil]
    simp only [encodeList] at hf ⊢
    rw [nestCat_cons2 _ _ _ rfl (by simp only [litA, encodeTok]; exact isCat_encodeTree _ _ _ _), hf]
  | n + 1, c, sup, p => by
    have ih := nest_repC n false (supOr sup (posOf 1 2)) .only
    simp only [repC, encodeTok, List.length_cons, List.length_nil, encodeList, Re.nest]
    rw [nestCat_cons2 _ _ _ rfl (isCat_rep _ _ _ _ _ _ _)]
    simp only [flat_cons, flat_nil, maxL, fl_of_not_cat _ (isCat_rep _ _ _ _ _ _ _)]
    rw [encodeTok_rep]
    simp only [nest_G, Re.nest, nest_concRe, ih, litA, encodeTok, fl_litA]
    omega

/-- **the bound of `nest_bound_parsed` is attained at every odd height** -/
theorem patternNest_repC (n : Nat) : patternNest (repC n) = 2 * (repC n).height + 5 := by
  rw [height_repC]
  cases n with
  | zero =>
    simp only [repC]
    rw [patternNest_cat]
    have := flat_repC0 true none
    simp only [List.length_cons, List.length_nil]
    rw [this]
  | succ n =>
    have ih := nest_repC n false (supOr none (posOf 1 2)) .only
    simp only [repC]
    rw [patternNest_cat]
    simp only [List.length_cons, List.length_nil, encodeList, flat_cons, flat_nil, maxL,
      fl_of_not_cat _ (isCat_rep _ _ _ _ _ _ _)]
    rw [encodeTok_rep]
    simp only [nest_G, Re.nest, nest_concRe, ih, litA, encodeTok, fl_litA]
    omega

/-- 61 levels of brackets (height 123) in parser shape do hit the limit -/
theorem nest_panic_parsed_at_123 :
    cshape (repC 61) = true ∧ (repC 61).height = 123 ∧ nestPanics (repC 61) = true := by
  have h := patternNest_repC 61
  have hh := height_repC 61
  refine ⟨cshape_repC 61, hh, ?_⟩
  rw [hh] at h
  unfold nestPanics nestLimit; exact decide_eq_true (by omega)

-- the hypotheses of `no_nest_panic_parsed` are satisfiable on a non-trivial expression
example : ∃ t, parse "<a/**/b:1,>".toList = .ok t ∧ t.height ≤ 122 := by
  refine ⟨_, rfl, ?_⟩
  simp [Tok.height, heightL]

end Wax
