import Wax.Proofs.CapRuns
import Wax.Proofs.Captures
import Wax.Proofs.HirEncode
import Wax.Proofs.Sites
import Wax.Proofs.SepFree
import Wax.Proofs.EncodeSpec
/-!
# C04: the captures tile the path

`Wax/Proofs/CapRuns.lean` turns a successful `Re.exec` into a capture-annotated derivation
(`exec_runs`).  Here the derivation of a top-level concatenation `.cat rs` is read as a *tiling*:
the haystack is cut into consecutive segments, one per element of `rs`; every element only writes
its own slots, and what it writes is a piece `(u.drop a).take b` of its own segment `u`
(`Touch`, `runs_touch`).  Translated to offsets into the haystack this is `exec_caps_tile`;
`caps_ordered` (captures of different elements are disjoint and in path order) and `caps_between`
(the text between two captures) are corollaries.

Shapes: an element `.cap r` (every capturing token except three of the tree-wildcard sites)
captures exactly its segment (`Tiling.cap`); the three sites that are not of that shape are
inverted by hand (`Tiling.atIntermediate`, `Tiling.atFirstUnrooted`, `Tiling.atLast`);
`tree_capture_components` lists all six, `tree_next_at_boundary` is the component-boundary
consequence.  `one_capture_one_char`, `class_capture_one_char`, `zom_capture_sepFree`,
`tree_token_capture`, `nontree_capture_segment`, `top_capture_rim` are the statements for the
top-level tokens of a glob (`topRs`, `capIdx`: token `e` has slot `capIdx ts e`); the `exec_…`
versions start from `(encodeTop t).exec σ s = some (some s :: caps)`; `parse_noTopCat` discharges
their side condition for every expression that parses.

All of this is about `Re.exec` on the pattern wax prints.  The driver's match command runs
`Re.exec` on the `regex-syntax` normal form (`Re.hirNorm`), whose top-level concatenation is not the
list of tokens any more (sites are prefix-factored, literals fused); `exec_runs`, `runs_touch` and
`exec_tiling` apply to it as to any `Re`; the token-level reading is carried over to the normal form by
`Wax/Proofs/HirRuns.lean` (`hirNorm_runs`: a derivation of the normal form is one of the printed pattern).
-/
namespace Wax

/-! ### windows -/

theorem win_left {u v : Str} {a b : Nat} (h : a + b ≤ u.length) :
    ((u ++ v).drop a).take b = (u.drop a).take b := by
  rw [List.drop_append_of_le_length (by omega), List.take_append_of_le_length (by simp; omega)]

theorem win_right (u v : Str) (a b : Nat) :
    ((u ++ v).drop (u.length + a)).take b = (v.drop a).take b := by
  rw [List.drop_append]
  have h1 : List.drop (u.length + a) u = [] := List.drop_eq_nil_of_le (by omega)
  have h2 : u.length + a - u.length = a := by omega
  rw [h1, h2, List.nil_append]

theorem win_length {u : Str} {a b : Nat} (h : a + b ≤ u.length) : ((u.drop a).take b).length = b := by
  simp only [List.length_take, List.length_drop]
  omega

theorem win_split {u : Str} {a b : Nat} (_h : a + b ≤ u.length) :
    u = u.take a ++ (u.drop a).take b ++ u.drop (a + b) := by
  rw [List.append_assoc, ← List.drop_drop, List.take_append_drop, List.take_append_drop]

/-- what a piece that consumes `u` may do to a slot: leave it, or set it to a window of `u` -/
def SlotStep (u : Str) (o o' : Option (Option Str)) : Prop :=
  o' = o ∨ ∃ a b, o' = some (some ((u.drop a).take b)) ∧ a + b ≤ u.length

theorem SlotStep.trans {u v : Str} {o o1 o2 : Option (Option Str)}
    (h1 : SlotStep u o o1) (h2 : SlotStep v o1 o2) : SlotStep (u ++ v) o o2 := by
  rcases h2 with rfl | ⟨a, b, rfl, hab⟩
  · rcases h1 with rfl | ⟨a, b, rfl, hab⟩
    · exact Or.inl rfl
    · exact Or.inr ⟨a, b, by rw [win_left hab], by simp; omega⟩
  · exact Or.inr ⟨u.length + a, b, by rw [win_right], by simp; omega⟩

/-- the piece with slots `n .. n + m` consumed `u`: as many slots as before, the slots of other
    pieces untouched, its own slots untouched or set to a window of `u` -/
structure Touch (n m : Nat) (u : Str) (c c' : Caps) : Prop where
  len : c'.length = c.length
  out : ∀ i, (i < n ∨ n + m ≤ i) → c'[i]? = c[i]?
  inn : ∀ i, n ≤ i → i < n + m → SlotStep u c[i]? c'[i]?

theorem Touch.refl (n m : Nat) (u : Str) (c : Caps) : Touch n m u c c :=
  ⟨rfl, fun _ _ => rfl, fun _ _ _ => Or.inl rfl⟩

theorem Touch.widen {n' m' n m : Nat} {u : Str} {c c' : Caps} (h : Touch n' m' u c c')
    (h1 : n ≤ n') (h2 : n' + m' ≤ n + m) : Touch n m u c c' := by
  refine ⟨h.len, fun i hi => h.out i (by omega), fun i hi1 hi2 => ?_⟩
  by_cases hin : n' ≤ i ∧ i < n' + m'
  · exact h.inn i hin.1 hin.2
  · exact Or.inl (h.out i (by omega))

theorem Touch.seq {n m : Nat} {u v : Str} {c c1 c2 : Caps} (h1 : Touch n m u c c1)
    (h2 : Touch n m v c1 c2) : Touch n m (u ++ v) c c2 :=
  ⟨h2.len.trans h1.len, fun i hi => (h2.out i hi).trans (h1.out i hi),
    fun i hi1 hi2 => (h1.inn i hi1 hi2).trans (h2.inn i hi1 hi2)⟩

theorem Touch.cap {n m : Nat} {u : Str} {c c' : Caps} (h : Touch (n + 1) m u c c') :
    Touch n (m + 1) u c (c'.set n (some u)) := by
  refine ⟨by simp [h.len], fun i hi => ?_, fun i hi1 hi2 => ?_⟩
  · rw [List.getElem?_set]
    have : ¬ n = i := by omega
    simp only [this, if_false]
    exact h.out i (by omega)
  · rw [List.getElem?_set]
    by_cases hni : n = i
    · subst hni
      simp only [if_true]
      split
      · exact Or.inr ⟨0, u.length, by simp, by simp⟩
      · rename_i hlt
        left
        have : c[n]? = none := by
          rw [List.getElem?_eq_none_iff]; rw [h.len] at hlt; omega
        rw [this]
    · simp only [hni, if_false]
      exact h.inn i (by omega) (by omega)

theorem ncapsList_append : ∀ (a b : List Re), Re.ncapsList (a ++ b) = Re.ncapsList a + Re.ncapsList b
  | [], b => by simp [Re.ncapsList]
  | x :: a, b => by simp only [List.cons_append, Re.ncapsList, ncapsList_append a b]; omega

mutual
  /-- **a piece only writes its own slots, with pieces of its own text** -/
  theorem runs_touch {σ : Sem} : ∀ {r : Re} {n : Nat} {u : Str} {c c' : Caps},
      Runs σ r n u c c' → Touch n r.ncaps u c c'
    | _, _, _, _, _, .lit _ => Touch.refl ..
    | _, _, _, _, _, .chr _ => Touch.refl ..
    | _, _, _, _, _, .cat h => by simpa only [Re.ncaps] using runsAll_touch h
    | _, _, _, _, _, .alt (pre := pre) (r := r) (post := post) e h => by
      have := runs_touch h
      subst e
      refine this.widen (by omega) ?_
      simp only [Re.ncaps, ncapsList_append, Re.ncapsList]
      omega
    | _, _, _, _, _, .starNil => Touch.refl ..
    | _, _, _, _, _, .starCons h1 h2 => by
      have t1 := runs_touch h1
      have t2 := runs_touch h2
      simp only [Re.ncaps] at t2 ⊢
      exact t1.seq t2
    | _, _, _, _, _, .lazyStar h => by
      have := runs_touch h
      simpa only [Re.ncaps] using this
    | _, _, _, _, _, .optNone => Touch.refl ..
    | _, _, _, _, _, .optSome h => by
      have := runs_touch h
      simpa only [Re.ncaps] using this
    | _, _, _, _, _, .rep _ _ h => by
      have := runsIter_touch h
      simpa only [Re.ncaps] using this
    | _, _, _, _, _, .cap h => by
      have := runs_touch h
      simpa only [Re.ncaps] using this.cap
    | _, _, _, _, _, .grp h => by
      have := runs_touch h
      simpa only [Re.ncaps] using this
  theorem runsAll_touch {σ : Sem} : ∀ {l : List Re} {n : Nat} {u : Str} {c c' : Caps},
      RunsAll σ l n u c c' → Touch n (Re.ncapsList l) u c c'
    | _, _, _, _, _, .nil => Touch.refl ..
    | _, _, _, _, _, .cons (r := r) (rs := rs) h1 h2 => by
      have t1 := runs_touch h1
      have t2 := runsAll_touch h2
      simp only [Re.ncapsList]
      have t1' := t1.widen (n := _) (m := r.ncaps + Re.ncapsList rs) (Nat.le_refl _) (by omega)
      have t2' := t2.widen (n := _) (m := r.ncaps + Re.ncapsList rs) (Nat.le_add_right _ _) (by omega)
      exact t1'.seq t2'
  theorem runsIter_touch {σ : Sem} : ∀ {r : Re} {n m : Nat} {u : Str} {c c' : Caps},
      RunsIter σ r n m u c c' → Touch n r.ncaps u c c'
    | _, _, _, _, _, _, .zero => Touch.refl ..
    | _, _, _, _, _, _, .succ h1 h2 => (runs_touch h1).seq (runsIter_touch h2)
end

/-- a piece without groups leaves the slots alone -/
theorem runs_nocap {σ : Sem} {r : Re} {n : Nat} {u : Str} {c c' : Caps}
    (h : Runs σ r n u c c') (h0 : r.ncaps = 0) : c' = c := by
  have t := runs_touch h
  apply List.ext_getElem?
  intro i
  exact t.out i (by omega)

/-! ### inversion -/

theorem runs_cat_inv {σ : Sem} {l : List Re} {n : Nat} {u : Str} {c c' : Caps}
    (h : Runs σ (.cat l) n u c c') : RunsAll σ l n u c c' := by
  cases h; assumption

theorem runs_grp_inv {σ : Sem} {r : Re} {n : Nat} {u : Str} {c c' : Caps}
    (h : Runs σ (.grp r) n u c c') : Runs σ r n u c c' := by
  cases h; assumption

theorem runs_cap_inv {σ : Sem} {r : Re} {n : Nat} {u : Str} {c c' : Caps}
    (h : Runs σ (.cap r) n u c c') : ∃ c1, Runs σ r (n + 1) u c c1 ∧ c' = c1.set n (some u) := by
  cases h; exact ⟨_, ‹_›, rfl⟩

theorem runsAll_nil_inv {σ : Sem} {n : Nat} {u : Str} {c c' : Caps}
    (h : RunsAll σ [] n u c c') : u = [] ∧ c' = c := by
  cases h; exact ⟨rfl, rfl⟩

theorem runsAll_cons_inv {σ : Sem} {r : Re} {rs : List Re} {n : Nat} {w : Str} {c c' : Caps}
    (h : RunsAll σ (r :: rs) n w c c') :
    ∃ u v c1, w = u ++ v ∧ Runs σ r n u c c1 ∧ RunsAll σ rs (n + r.ncaps) v c1 c' := by
  cases h; exact ⟨_, _, _, rfl, ‹_›, ‹_›⟩

theorem runs_alt2_inv {σ : Sem} {a b : Re} {n : Nat} {u : Str} {c c' : Caps}
    (h : Runs σ (.alt [a, b]) n u c c') : Runs σ a n u c c' ∨ Runs σ b (n + a.ncaps) u c c' := by
  cases h with
  | alt e h =>
    rename_i pre r post
    match pre, e, h with
    | [], e, h =>
      simp only [List.nil_append, List.cons.injEq] at e
      obtain ⟨rfl, _⟩ := e
      exact Or.inl (by simpa [Re.ncapsList] using h)
    | [x], e, h =>
      simp only [List.cons_append, List.nil_append, List.cons.injEq] at e
      obtain ⟨rfl, rfl, _⟩ := e
      exact Or.inr (by simpa [Re.ncapsList] using h)
    | x :: y :: pre, e, h =>
      have := congrArg List.length e
      simp at this

/-- an element `.cap r` captures exactly the text it consumed -/
theorem runs_cap_slot {σ : Sem} {r : Re} {n : Nat} {u : Str} {c c' : Caps}
    (h : Runs σ (.cap r) n u c c') (hn : n < c.length) : c'[n]? = some (some u) := by
  obtain ⟨c1, h1, rfl⟩ := runs_cap_inv h
  have := (runs_touch h1).len
  rw [List.getElem?_set]
  simp [this, hn]

/-! ### the tree-wildcard sites, inverted -/

theorem ncaps_sepc : (Re.chr CharPred.sepc).ncaps = 0 := by simp [Re.ncaps]
theorem ncaps_anyStar : anyStar.ncaps = 0 := by simp [anyStar, Re.ncaps]
theorem ncaps_optSepc : (Re.opt (.chr CharPred.sepc)).ncaps = 0 := by simp [Re.ncaps]

theorem runs_sepc_inv {σ : Sem} {n : Nat} {u : Str} {c c' : Caps}
    (h : Runs σ (.chr .sepc) n u c c') : u = ['/'] ∧ c' = c :=
  ⟨matches_sepc.mp h.matches, runs_nocap h ncaps_sepc⟩

theorem runs_optSepc_inv {σ : Sem} {n : Nat} {u : Str} {c c' : Caps}
    (h : Runs σ (.opt (.chr .sepc)) n u c c') : (u = [] ∨ u = ['/']) ∧ c' = c := by
  refine ⟨?_, runs_nocap h ncaps_optSepc⟩
  have := h.matches
  rw [matches_opt, matches_sepc] at this
  exact this

/-- a group around a piece without groups: the slot gets the text, nothing else changes -/
theorem runs_cap_plain {σ : Sem} {r : Re} {n : Nat} {u : Str} {c c' : Caps}
    (h : Runs σ (.cap r) n u c c') (h0 : r.ncaps = 0) : Matches σ r u ∧ c' = c.set n (some u) := by
  obtain ⟨c1, h1, rfl⟩ := runs_cap_inv h
  rw [runs_nocap h1 h0]
  exact ⟨h1.matches, rfl⟩

theorem matches_anyStar_sepc {σ : Sem} {x : Str} (h : Matches σ (.cat [anyStar, .chr .sepc]) x) :
    ∃ m, DotOk σ m ∧ x = m ++ ['/'] := by
  rw [matches_cat] at h
  obtain ⟨m, t, rfl, hm1, hm2⟩ := matchesAll_cons.mp h
  obtain ⟨t1, t2, rfl, ht1, ht2⟩ := matchesAll_cons.mp hm2
  rw [matchesAll_nil] at ht2; subst ht2
  rw [matches_sepc] at ht1; subst ht1
  exact ⟨m, (anyStar_iff σ m).mp hm1, by simp⟩

/-- `(?:[/]|[/](.*[/]))`: either `/` and no capture, or `/` followed by the capture, which ends
    with a separator -/
theorem runs_siteIntermediate {σ : Sem} {n : Nat} {u : Str} {c c' : Caps}
    (h : Runs σ (siteIntermediate true) n u c c') :
    (u = ['/'] ∧ c' = c) ∨
      ∃ m, DotOk σ m ∧ u = '/' :: (m ++ ['/']) ∧ c' = c.set n (some (m ++ ['/'])) := by
  simp only [siteIntermediate, G, if_true] at h
  rcases runs_alt2_inv (runs_grp_inv h) with h | h
  · exact Or.inl (runs_sepc_inv h)
  · right
    rw [ncaps_sepc, Nat.add_zero] at h
    obtain ⟨u1, v1, c1, rfl, h1, h2⟩ := runsAll_cons_inv (runs_cat_inv h)
    obtain ⟨rfl, rfl⟩ := runs_sepc_inv h1
    rw [ncaps_sepc, Nat.add_zero] at h2
    obtain ⟨x, v2, c2, rfl, h3, h4⟩ := runsAll_cons_inv h2
    obtain ⟨rfl, rfl⟩ := runsAll_nil_inv h4
    obtain ⟨hm, rfl⟩ := runs_cap_plain h3 (by simp [Re.ncaps, Re.ncapsList, anyStar])
    obtain ⟨m, hd, rfl⟩ := matches_anyStar_sepc hm
    exact ⟨m, hd, by simp, rfl⟩

/-- `(?:[/]?|(.*[/]))`: nothing or `/` and no capture, or the capture, which ends with a separator -/
theorem runs_siteFirstUnrooted {σ : Sem} {n : Nat} {u : Str} {c c' : Caps}
    (h : Runs σ (siteFirstUnrooted true) n u c c') :
    ((u = [] ∨ u = ['/']) ∧ c' = c) ∨
      ∃ m, DotOk σ m ∧ u = m ++ ['/'] ∧ c' = c.set n (some (m ++ ['/'])) := by
  simp only [siteFirstUnrooted, G, if_true] at h
  rcases runs_alt2_inv (runs_grp_inv h) with h | h
  · exact Or.inl (runs_optSepc_inv h)
  · right
    rw [ncaps_optSepc, Nat.add_zero] at h
    obtain ⟨hm, rfl⟩ := runs_cap_plain h (by simp [Re.ncaps, Re.ncapsList, anyStar])
    obtain ⟨m, hd, rfl⟩ := matches_anyStar_sepc hm
    exact ⟨m, hd, rfl, rfl⟩

/-- `(?:[/]?|[/](.*))`: nothing or `/` and no capture, or `/` followed by the capture -/
theorem runs_siteLast {σ : Sem} {n : Nat} {u : Str} {c c' : Caps}
    (h : Runs σ (siteLast true) n u c c') :
    ((u = [] ∨ u = ['/']) ∧ c' = c) ∨
      ∃ x, DotOk σ x ∧ u = '/' :: x ∧ c' = c.set n (some x) := by
  simp only [siteLast, G, if_true] at h
  rcases runs_alt2_inv (runs_grp_inv h) with h | h
  · exact Or.inl (runs_optSepc_inv h)
  · right
    rw [ncaps_optSepc, Nat.add_zero] at h
    obtain ⟨u1, v1, c1, rfl, h1, h2⟩ := runsAll_cons_inv (runs_cat_inv h)
    obtain ⟨rfl, rfl⟩ := runs_sepc_inv h1
    rw [ncaps_sepc, Nat.add_zero] at h2
    obtain ⟨x, v2, c2, rfl, h3, h4⟩ := runsAll_cons_inv h2
    obtain ⟨rfl, rfl⟩ := runsAll_nil_inv h4
    obtain ⟨hm, rfl⟩ := runs_cap_plain h3 ncaps_anyStar
    exact ⟨x, (anyStar_iff σ x).mp hm, by simp, rfl⟩

/-- `(.*)`: the capture is the segment -/
theorem runs_siteOnly {σ : Sem} {n : Nat} {u : Str} {c c' : Caps}
    (h : Runs σ (siteOnly true) n u c c') : DotOk σ u ∧ c' = c.set n (some u) := by
  simp only [siteOnly, G, if_true] at h
  obtain ⟨hm, rfl⟩ := runs_cap_plain h ncaps_anyStar
  exact ⟨(anyStar_iff σ u).mp hm, rfl⟩

/-- `([/].*)`: the capture is the segment and starts with a separator -/
theorem runs_siteOnlyRooted {σ : Sem} {n : Nat} {u : Str} {c c' : Caps}
    (h : Runs σ (siteOnlyRooted true) n u c c') :
    (∃ m, DotOk σ m ∧ u = '/' :: m) ∧ c' = c.set n (some u) := by
  simp only [siteOnlyRooted, G, if_true] at h
  obtain ⟨hm, rfl⟩ := runs_cap_plain h (by simp [Re.ncaps, Re.ncapsList, anyStar])
  refine ⟨?_, rfl⟩
  rw [matches_cat] at hm
  obtain ⟨a, b, rfl, ha, hb⟩ := matchesAll_cons.mp hm
  obtain ⟨m, e, rfl, hm', he⟩ := matchesAll_cons.mp hb
  rw [matchesAll_nil] at he; subst he
  rw [matches_sepc] at ha; subst ha
  exact ⟨m, (anyStar_iff σ m).mp hm', by simp⟩

/-- `([/].*[/]?)`: the capture is the segment and starts with a separator (it need not end at a
    component boundary: K-ENC-ROOTED-FIRST) -/
theorem runs_siteFirstRooted {σ : Sem} {n : Nat} {u : Str} {c c' : Caps}
    (h : Runs σ (siteFirstRooted true) n u c c') :
    (∃ m o, DotOk σ m ∧ (o = [] ∨ o = ['/']) ∧ u = '/' :: (m ++ o)) ∧ c' = c.set n (some u) := by
  simp only [siteFirstRooted, G, if_true] at h
  obtain ⟨hm, rfl⟩ := runs_cap_plain h (by simp [Re.ncaps, Re.ncapsList, anyStar])
  refine ⟨?_, rfl⟩
  rw [matches_cat] at hm
  obtain ⟨a, b, rfl, ha, hb⟩ := matchesAll_cons.mp hm
  obtain ⟨m, e, rfl, hm', he⟩ := matchesAll_cons.mp hb
  obtain ⟨o, e2, rfl, ho, he2⟩ := matchesAll_cons.mp he
  rw [matchesAll_nil] at he2; subst he2
  rw [matches_sepc] at ha; subst ha
  rw [matches_opt, matches_sepc] at ho
  exact ⟨m, o, (anyStar_iff σ m).mp hm', ho, by simp⟩

/-! ### the tiling of a top-level concatenation -/

/-- slot of the first group of element `e` of `rs` -/
def slotBase (rs : List Re) (e : Nat) : Nat := Re.ncapsList (rs.take e)

/-- offset in the haystack at which segment `e` starts -/
def segStart (us : List Str) (e : Nat) : Nat := (us.take e).flatten.length

@[simp] theorem slotBase_zero (rs : List Re) : slotBase rs 0 = 0 := by simp [slotBase, Re.ncapsList]
@[simp] theorem slotBase_succ (r : Re) (rs : List Re) (e : Nat) :
    slotBase (r :: rs) (e + 1) = r.ncaps + slotBase rs e := by simp [slotBase, Re.ncapsList]
@[simp] theorem segStart_zero (us : List Str) : segStart us 0 = 0 := by simp [segStart]
@[simp] theorem segStart_succ (u : Str) (us : List Str) (e : Nat) :
    segStart (u :: us) (e + 1) = u.length + segStart us e := by simp [segStart]

theorem slotBase_le : ∀ (rs : List Re) (e : Nat) (r : Re), rs[e]? = some r →
    slotBase rs e + r.ncaps ≤ Re.ncapsList rs
  | [], e, r, h => by simp at h
  | x :: rs, 0, r, h => by
    simp only [List.getElem?_cons_zero, Option.some.injEq] at h
    subst h
    simp [Re.ncapsList]
  | x :: rs, e + 1, r, h => by
    simp only [List.getElem?_cons_succ] at h
    have := slotBase_le rs e r h
    simp only [slotBase_succ, Re.ncapsList]
    omega

theorem runsAll_tiling {σ : Sem} : ∀ (rs : List Re) (n : Nat) (w : Str) (c c' : Caps),
    RunsAll σ rs n w c c' →
    ∃ us : List Str, us.length = rs.length ∧ w = us.flatten ∧
      ∀ e r u, rs[e]? = some r → us[e]? = some u →
        ∃ ce ce', Runs σ r (n + slotBase rs e) u ce ce' ∧ ce.length = c.length ∧
          ∀ i, n + slotBase rs e ≤ i → i < n + slotBase rs e + r.ncaps →
            ce[i]? = c[i]? ∧ ce'[i]? = c'[i]?
  | [], n, w, c, c', h => by
    obtain ⟨rfl, rfl⟩ := runsAll_nil_inv h
    exact ⟨[], rfl, rfl, fun e r u hr => by simp at hr⟩
  | r :: rs, n, w, c, c', h => by
    obtain ⟨u, v, c1, rfl, h1, h2⟩ := runsAll_cons_inv h
    obtain ⟨us, hl, rfl, hel⟩ := runsAll_tiling rs _ _ _ _ h2
    have t1 := runs_touch h1
    have t2 := runsAll_touch h2
    refine ⟨u :: us, by simp [hl], by simp, ?_⟩
    intro e r' u' hr hu
    cases e with
    | zero =>
      simp only [List.getElem?_cons_zero, Option.some.injEq] at hr hu
      subst hr hu
      refine ⟨c, c1, by simpa using h1, rfl, fun i hi1 hi2 => ⟨rfl, ?_⟩⟩
      simp only [slotBase_zero, Nat.add_zero] at hi1 hi2
      exact (t2.out i (Or.inl hi2)).symm
    | succ e =>
      simp only [List.getElem?_cons_succ] at hr hu
      obtain ⟨ce, ce', hrun, hlen, hs⟩ := hel e r' u' hr hu
      refine ⟨ce, ce', ?_, hlen.trans t1.len, fun i hi1 hi2 => ?_⟩
      · simpa [Nat.add_assoc] using hrun
      · simp only [slotBase_succ] at hi1 hi2
        obtain ⟨a1, a2⟩ := hs i (by omega) (by omega)
        exact ⟨a1.trans (t1.out i (Or.inr (by omega))), a2⟩

/-- `us` tiles `s` along `rs`, and `caps` is what the elements wrote: element `e` ran on segment
    `e`, from slots in which its own were all empty to slots in which its own have their final
    value -/
structure Tiling (σ : Sem) (rs : List Re) (s : Str) (caps : Caps) (us : List Str) : Prop where
  len : us.length = rs.length
  cover : s = us.flatten
  capsLen : caps.length = Re.ncapsList rs
  elem : ∀ e r u, rs[e]? = some r → us[e]? = some u →
    ∃ ce ce', Runs σ r (slotBase rs e) u ce ce' ∧ ce.length = caps.length ∧
      ∀ i, slotBase rs e ≤ i → i < slotBase rs e + r.ncaps → ce[i]? = some none ∧ ce'[i]? = caps[i]?

/-- **the executor's result on a top-level concatenation is a tiling** -/
theorem exec_tiling {σ : Sem} {rs : List Re} {s : Str} {caps : Caps}
    (h : (Re.cat rs).exec σ s = some (some s :: caps)) : ∃ us, Tiling σ rs s caps us := by
  have hr := runs_cat_inv (exec_runs h)
  simp only [Re.ncaps] at hr
  have t := runsAll_touch hr
  obtain ⟨us, hl, hc, hel⟩ := runsAll_tiling rs 0 s _ _ hr
  refine ⟨us, hl, hc, by simpa using t.len, ?_⟩
  intro e r u hre hue
  obtain ⟨ce, ce', hrun, hlen, hs⟩ := hel e r u hre hue
  simp only [Nat.zero_add] at hrun hs
  refine ⟨ce, ce', hrun, by rw [hlen, t.len], fun i hi1 hi2 => ?_⟩
  obtain ⟨a1, a2⟩ := hs i hi1 hi2
  refine ⟨?_, a2⟩
  rw [a1, List.getElem?_replicate]
  have := slotBase_le rs e r hre
  simp only [ite_eq_left_iff]
  omega

/-! ### list arithmetic of the segments -/

theorem flatten_split : ∀ (us : List Str) (e : Nat) (u : Str), us[e]? = some u →
    us.flatten = (us.take e).flatten ++ u ++ (us.drop (e + 1)).flatten
  | [], e, u, h => by simp at h
  | x :: us, 0, u, h => by
    simp only [List.getElem?_cons_zero, Option.some.injEq] at h
    subst h
    simp
  | x :: us, e + 1, u, h => by
    simp only [List.getElem?_cons_succ] at h
    have := flatten_split us e u h
    simp only [List.flatten_cons, List.take_succ_cons, List.drop_succ_cons]
    rw [this]
    simp only [List.append_assoc]

/-- two segments, what is before, between and after them -/
theorem flatten_split2 : ∀ (us : List Str) (e1 e2 : Nat) (u1 u2 : Str), e1 < e2 →
    us[e1]? = some u1 → us[e2]? = some u2 →
    us.flatten = (us.take e1).flatten ++ u1 ++ ((us.drop (e1 + 1)).take (e2 - e1 - 1)).flatten ++ u2 ++
        (us.drop (e2 + 1)).flatten ∧
      segStart us e2 = segStart us e1 + u1.length + ((us.drop (e1 + 1)).take (e2 - e1 - 1)).flatten.length
  | [], e1, e2, u1, u2, _, h, _ => by simp at h
  | x :: us, 0, 0, u1, u2, hlt, _, _ => by omega
  | x :: us, e1 + 1, 0, u1, u2, hlt, _, _ => by omega
  | x :: us, 0, e2 + 1, u1, u2, _, h1, h2 => by
    simp only [List.getElem?_cons_zero, Option.some.injEq] at h1
    simp only [List.getElem?_cons_succ] at h2
    subst h1
    have := flatten_split us e2 u2 h2
    have e : e2 + 1 - 0 - 1 = e2 := by omega
    simp only [List.take_zero, List.flatten_nil, List.nil_append, Nat.zero_add, List.drop_succ_cons,
      List.drop_zero, List.flatten_cons, e, segStart_zero, segStart_succ]
    refine ⟨?_, by simp [segStart]⟩
    rw [this]
    simp only [List.append_assoc]
  | x :: us, e1 + 1, e2 + 1, u1, u2, hlt, h1, h2 => by
    simp only [List.getElem?_cons_succ] at h1 h2
    obtain ⟨a, b⟩ := flatten_split2 us e1 e2 u1 u2 (by omega) h1 h2
    have e : e2 + 1 - (e1 + 1) - 1 = e2 - e1 - 1 := by omega
    simp only [List.take_succ_cons, List.drop_succ_cons, List.flatten_cons, e, segStart_succ]
    refine ⟨?_, by rw [b]; omega⟩
    rw [a]
    simp only [List.append_assoc]

theorem segStart_add_le (us : List Str) (e : Nat) (u : Str) (h : us[e]? = some u) :
    segStart us e + u.length ≤ us.flatten.length := by
  rw [flatten_split us e u h]
  simp only [segStart, List.length_append]
  omega

theorem segStart_mono (us : List Str) (e1 e2 : Nat) (u1 : Str) (hlt : e1 < e2) (h1 : us[e1]? = some u1) :
    segStart us e1 + u1.length ≤ segStart us e2 := by
  induction us generalizing e1 e2 with
  | nil => simp at h1
  | cons x us ih =>
    cases e2 with
    | zero => omega
    | succ e2 =>
      cases e1 with
      | zero =>
        simp only [List.getElem?_cons_zero, Option.some.injEq] at h1
        subst h1
        simp
      | succ e1 =>
        simp only [List.getElem?_cons_succ] at h1
        have := ih e1 e2 (by omega) h1
        simp only [segStart_succ]
        omega

theorem slotBase_mono (rs : List Re) (e1 e2 : Nat) (r1 : Re) (hlt : e1 < e2) (h1 : rs[e1]? = some r1) :
    slotBase rs e1 + r1.ncaps ≤ slotBase rs e2 := by
  induction rs generalizing e1 e2 with
  | nil => simp at h1
  | cons x rs ih =>
    cases e2 with
    | zero => omega
    | succ e2 =>
      cases e1 with
      | zero =>
        simp only [List.getElem?_cons_zero, Option.some.injEq] at h1
        subst h1
        simp
      | succ e1 =>
        simp only [List.getElem?_cons_succ] at h1
        have := ih e1 e2 (by omega) h1
        simp only [slotBase_succ]
        omega

/-- every slot belongs to an element -/
theorem slot_owner : ∀ (rs : List Re) (i : Nat), i < Re.ncapsList rs →
    ∃ e r, rs[e]? = some r ∧ slotBase rs e ≤ i ∧ i < slotBase rs e + r.ncaps
  | [], i, h => by simp [Re.ncapsList] at h
  | x :: rs, i, h => by
    by_cases hi : i < x.ncaps
    · exact ⟨0, x, rfl, by simp, by simpa using hi⟩
    · simp only [Re.ncapsList] at h
      obtain ⟨e, r, hr, h1, h2⟩ := slot_owner rs (i - x.ncaps) (by omega)
      exact ⟨e + 1, r, by simpa using hr, by simp only [slotBase_succ]; omega,
        by simp only [slotBase_succ]; omega⟩

/-- a window of segment `e` is a window of the haystack, `segStart us e` further to the right -/
theorem seg_window {us : List Str} {e : Nat} {u : Str} (hu : us[e]? = some u) {a b : Nat}
    (hab : a + b ≤ u.length) :
    (us.flatten.drop (segStart us e + a)).take b = (u.drop a).take b := by
  rw [flatten_split us e u hu, List.append_assoc]
  have := win_right (us.take e).flatten (u ++ (us.drop (e + 1)).flatten) a b
  simp only [segStart]
  rw [this, win_left hab]

theorem drop_take_mid (A B C : Str) : ((A ++ B ++ C).drop A.length).take B.length = B := by
  rw [List.append_assoc, List.drop_left, List.take_left]

/-! ### reading a tiling -/

namespace Tiling
variable {σ : Sem} {rs : List Re} {s : Str} {caps : Caps} {us : List Str}

/-- every segment is matched by its element -/
theorem _root_.Wax.Tiling.matches (h : Tiling σ rs s caps us) {e : Nat} {r : Re} {u : Str}
    (hr : rs[e]? = some r) (hu : us[e]? = some u) : Matches σ r u := by
  obtain ⟨_, _, hrun, _⟩ := h.elem e r u hr hu
  exact hrun.matches

/-- a slot of element `e` is empty or holds a window of segment `e` -/
theorem slot (h : Tiling σ rs s caps us) {e : Nat} {r : Re} {u : Str}
    (hr : rs[e]? = some r) (hu : us[e]? = some u) {i : Nat}
    (hi1 : slotBase rs e ≤ i) (hi2 : i < slotBase rs e + r.ncaps) :
    caps[i]? = some none ∨ ∃ a b, caps[i]? = some (some ((u.drop a).take b)) ∧ a + b ≤ u.length := by
  obtain ⟨ce, ce', hrun, _, hs⟩ := h.elem e r u hr hu
  obtain ⟨a1, a2⟩ := hs i hi1 hi2
  have := (runs_touch hrun).inn i hi1 hi2
  rw [a1, a2] at this
  exact this

/-- **offsets**: a capture taken by a group of element `e` is the piece `[a, a + |x|)` of the
    haystack, inside the piece `[segStart us e, segStart us e + |u|)` that segment `e` occupies -/
theorem window (h : Tiling σ rs s caps us) {e : Nat} {r : Re} {u : Str}
    (hr : rs[e]? = some r) (hu : us[e]? = some u) {i : Nat}
    (hi1 : slotBase rs e ≤ i) (hi2 : i < slotBase rs e + r.ncaps) {x : Str}
    (hx : caps[i]? = some (some x)) :
    ∃ a, segStart us e ≤ a ∧ a + x.length ≤ segStart us e + u.length ∧
      x = (s.drop a).take x.length := by
  rcases h.slot hr hu hi1 hi2 with h0 | ⟨a, b, hw, hab⟩
  · rw [hx] at h0; cases h0
  · rw [hx] at hw
    simp only [Option.some.injEq] at hw
    have hl : x.length = b := by rw [hw]; exact win_length hab
    refine ⟨segStart us e + a, Nat.le_add_right _ _, by omega, ?_⟩
    rw [h.cover, hl, seg_window hu hab]
    exact hw

/-- the same, as a decomposition of the segment -/
theorem window_split (h : Tiling σ rs s caps us) {e : Nat} {r : Re} {u : Str}
    (hr : rs[e]? = some r) (hu : us[e]? = some u) {i : Nat}
    (hi1 : slotBase rs e ≤ i) (hi2 : i < slotBase rs e + r.ncaps) {x : Str}
    (hx : caps[i]? = some (some x)) : ∃ p q, u = p ++ x ++ q := by
  rcases h.slot hr hu hi1 hi2 with h0 | ⟨a, b, hw, hab⟩
  · rw [hx] at h0; cases h0
  · rw [hx] at hw
    simp only [Option.some.injEq] at hw
    exact ⟨u.take a, u.drop (a + b), by rw [hw]; exact win_split hab⟩

/-- slot `slotBase rs e` exists when element `e` has a group; before the element ran it was empty,
    afterwards it has its final value -/
theorem elem1 (h : Tiling σ rs s caps us) {e : Nat} {r : Re} {u : Str}
    (hr : rs[e]? = some r) (hu : us[e]? = some u) (h1 : 0 < r.ncaps) :
    ∃ ce ce', Runs σ r (slotBase rs e) u ce ce' ∧ slotBase rs e < ce.length ∧
      ce[slotBase rs e]? = some none ∧ ce'[slotBase rs e]? = caps[slotBase rs e]? := by
  obtain ⟨ce, ce', hrun, hlen, hs⟩ := h.elem e r u hr hu
  obtain ⟨a1, a2⟩ := hs (slotBase rs e) (Nat.le_refl _) (by omega)
  have := slotBase_le rs e r hr
  exact ⟨ce, ce', hrun, by rw [hlen, h.capsLen]; omega, a1, a2⟩

/-- an element `(…)` participates and captures exactly its segment -/
theorem cap (h : Tiling σ rs s caps us) {e : Nat} {r : Re} {u : Str}
    (hr : rs[e]? = some (.cap r)) (hu : us[e]? = some u) : caps[slotBase rs e]? = some (some u) := by
  obtain ⟨ce, ce', hrun, hlt, _, a2⟩ := h.elem1 hr hu (by simp [Re.ncaps])
  rw [← a2]
  exact runs_cap_slot hrun hlt

end Tiling

theorem getElem?_set_self_lt {c : Caps} {n : Nat} {x : Option Str} (h : n < c.length) :
    (c.set n x)[n]? = some x := by
  rw [List.getElem?_set]; simp [h]

/-! ### headline 1: the captures tile the haystack -/

/-- **C04, captures tile the path.**  A successful run of a top-level concatenation cuts the
    haystack into consecutive segments, one per element, each matched by its element, and every
    reported capture of a group inside element `e` is the piece `[a, a + |x|)` of the haystack with
    `[a, a + |x|)` inside the piece occupied by segment `e`.  (`slot_owner`: every slot lies inside
    exactly one element.) -/
theorem exec_caps_tile {σ : Sem} {rs : List Re} {s : Str} {caps : Caps}
    (h : (Re.cat rs).exec σ s = some (some s :: caps)) :
    ∃ us : List Str, us.length = rs.length ∧ s = us.flatten ∧
      (∀ (e : Nat) (r : Re) (u : Str), rs[e]? = some r → us[e]? = some u → Matches σ r u) ∧
      ∀ (e : Nat) (r : Re) (u : Str) (i : Nat) (x : Str), rs[e]? = some r → us[e]? = some u →
        slotBase rs e ≤ i → i < slotBase rs e + r.ncaps → caps[i]? = some (some x) →
        ∃ a, segStart us e ≤ a ∧ a + x.length ≤ segStart us e + u.length ∧
          x = (s.drop a).take x.length := by
  obtain ⟨us, ht⟩ := exec_tiling h
  refine ⟨us, ht.len, ht.cover, ?_, ?_⟩
  · intro e r u hr hu
    exact ht.matches hr hu
  · intro e r u i x hr hu h1 h2 hx
    exact ht.window hr hu h1 h2 hx

/-- the same for an arbitrary slot: its owner is found by `slot_owner` -/
theorem exec_caps_tile_slot {σ : Sem} {rs : List Re} {s : Str} {caps : Caps} {us : List Str}
    (ht : Tiling σ rs s caps us) {i : Nat} {x : Str} (hx : caps[i]? = some (some x)) :
    ∃ e r u a, rs[e]? = some r ∧ us[e]? = some u ∧ slotBase rs e ≤ i ∧ i < slotBase rs e + r.ncaps ∧
      segStart us e ≤ a ∧ a + x.length ≤ segStart us e + u.length ∧ x = (s.drop a).take x.length := by
  have hi : i < Re.ncapsList rs := by
    rw [← ht.capsLen]
    apply Classical.byContradiction
    intro hn
    rw [List.getElem?_eq_none (by omega)] at hx
    cases hx
  obtain ⟨e, r, hr, h1, h2⟩ := slot_owner rs i hi
  have he : e < us.length := by
    rw [ht.len]
    apply Classical.byContradiction
    intro hn
    rw [List.getElem?_eq_none (by omega)] at hr
    cases hr
  obtain ⟨a, ha⟩ := ht.window hr (List.getElem?_eq_getElem he) h1 h2 hx
  exact ⟨e, r, _, a, hr, List.getElem?_eq_getElem he, h1, h2, ha⟩

/-- **(a) captures of different elements do not overlap and are in path order**: if `e1 < e2`
    the window of any capture of element `e1` ends before the window of any capture of `e2` starts -/
theorem caps_ordered {σ : Sem} {rs : List Re} {s : Str} {caps : Caps} {us : List Str}
    (ht : Tiling σ rs s caps us) {e1 e2 : Nat} (hlt : e1 < e2) {r1 r2 : Re} {u1 u2 : Str}
    (hr1 : rs[e1]? = some r1) (hu1 : us[e1]? = some u1) (hr2 : rs[e2]? = some r2) (hu2 : us[e2]? = some u2)
    {i1 i2 : Nat} (h11 : slotBase rs e1 ≤ i1) (h12 : i1 < slotBase rs e1 + r1.ncaps)
    (h21 : slotBase rs e2 ≤ i2) (h22 : i2 < slotBase rs e2 + r2.ncaps) {x1 x2 : Str}
    (hx1 : caps[i1]? = some (some x1)) (hx2 : caps[i2]? = some (some x2)) :
    i1 < i2 ∧ ∃ a1 a2, x1 = (s.drop a1).take x1.length ∧ x2 = (s.drop a2).take x2.length ∧
      a1 + x1.length ≤ a2 ∧ a2 + x2.length ≤ s.length := by
  obtain ⟨a1, l1, m1, w1⟩ := ht.window hr1 hu1 h11 h12 hx1
  obtain ⟨a2, l2, m2, w2⟩ := ht.window hr2 hu2 h21 h22 hx2
  have hs := segStart_mono us e1 e2 u1 hlt hu1
  have hb := slotBase_mono rs e1 e2 r1 hlt hr1
  have he := segStart_add_le us e2 u2 hu2
  rw [← ht.cover] at he
  exact ⟨by omega, a1, a2, w1, w2, by omega, by omega⟩

/-- the slots are numbered in the order of the elements: of two slots that belong to different
    elements, the smaller belongs to the earlier element -/
theorem owner_lt_of_slot_lt {rs : List Re} {e1 e2 : Nat} {r1 r2 : Re}
    (_hr1 : rs[e1]? = some r1) (hr2 : rs[e2]? = some r2) (hne : e1 ≠ e2)
    {i1 i2 : Nat} (h11 : slotBase rs e1 ≤ i1) (_h12 : i1 < slotBase rs e1 + r1.ncaps)
    (_h21 : slotBase rs e2 ≤ i2) (h22 : i2 < slotBase rs e2 + r2.ncaps) (hlt : i1 < i2) : e1 < e2 := by
  apply Classical.byContradiction
  intro hn
  have := slotBase_mono rs e2 e1 r2 (by omega) hr2
  omega

/-- **(b) the text between two captures** of elements `e1 < e2`: what is left of segment `e1`
    after the capture, the segments of the elements strictly between (each matched by its
    element), and what segment `e2` has before its capture -/
theorem caps_between {σ : Sem} {rs : List Re} {s : Str} {caps : Caps} {us : List Str}
    (ht : Tiling σ rs s caps us) {e1 e2 : Nat} (hlt : e1 < e2) {r1 r2 : Re} {u1 u2 : Str}
    (hr1 : rs[e1]? = some r1) (hu1 : us[e1]? = some u1) (hr2 : rs[e2]? = some r2) (hu2 : us[e2]? = some u2)
    {i1 i2 : Nat} (h11 : slotBase rs e1 ≤ i1) (h12 : i1 < slotBase rs e1 + r1.ncaps)
    (h21 : slotBase rs e2 ≤ i2) (h22 : i2 < slotBase rs e2 + r2.ncaps) {x1 x2 : Str}
    (hx1 : caps[i1]? = some (some x1)) (hx2 : caps[i2]? = some (some x2)) :
    ∃ p1 q1 p2 q2 mid, u1 = p1 ++ x1 ++ q1 ∧ u2 = p2 ++ x2 ++ q2 ∧
      mid = (us.drop (e1 + 1)).take (e2 - e1 - 1) ∧
      (∀ j u, mid[j]? = some u → ∃ r, rs[e1 + 1 + j]? = some r ∧ Matches σ r u) ∧
      s = ((us.take e1).flatten ++ p1) ++ x1 ++ (q1 ++ mid.flatten ++ p2) ++ x2 ++
            (q2 ++ (us.drop (e2 + 1)).flatten) ∧
      (s.drop (segStart us e1 + p1.length + x1.length)).take
          (segStart us e2 + p2.length - (segStart us e1 + p1.length + x1.length)) =
        q1 ++ mid.flatten ++ p2 := by
  obtain ⟨p1, q1, d1⟩ := ht.window_split hr1 hu1 h11 h12 hx1
  obtain ⟨p2, q2, d2⟩ := ht.window_split hr2 hu2 h21 h22 hx2
  obtain ⟨f1, f2⟩ := flatten_split2 us e1 e2 u1 u2 hlt hu1 hu2
  refine ⟨p1, q1, p2, q2, _, d1, d2, rfl, ?_, ?_, ?_⟩
  · intro j u hj
    rw [List.getElem?_take] at hj
    split at hj
    · rw [List.getElem?_drop] at hj
      have hlt' : e1 + 1 + j < rs.length := by
        rw [← ht.len]
        apply Classical.byContradiction
        intro hn
        rw [List.getElem?_eq_none (by omega)] at hj
        cases hj
      exact ⟨rs[e1 + 1 + j], List.getElem?_eq_getElem hlt', ht.matches (List.getElem?_eq_getElem hlt') hj⟩
    · cases hj
  · rw [ht.cover, f1, d1, d2]
    simp only [List.append_assoc]
  · have e : s = ((us.take e1).flatten ++ p1 ++ x1) ++
        (q1 ++ ((us.drop (e1 + 1)).take (e2 - e1 - 1)).flatten ++ p2) ++
        (x2 ++ q2 ++ (us.drop (e2 + 1)).flatten) := by
      rw [ht.cover, f1, d1, d2]
      simp only [List.append_assoc]
    have l1 : segStart us e1 + p1.length + x1.length = ((us.take e1).flatten ++ p1 ++ x1).length := by
      simp only [segStart, List.length_append]
    have l2 : segStart us e2 + p2.length - (segStart us e1 + p1.length + x1.length) =
        (q1 ++ ((us.drop (e1 + 1)).take (e2 - e1 - 1)).flatten ++ p2).length := by
      rw [f2, d1]
      simp only [List.length_append]
      omega
    rw [l2, l1, e]
    exact drop_take_mid _ _ _

/-! ### headline 2: what a tree wildcard captures -/

theorem ncaps_siteIntermediate : (siteIntermediate true).ncaps = 1 := by
  simp [siteIntermediate, G, Re.ncaps, Re.ncapsList, anyStar]
theorem ncaps_siteFirstUnrooted : (siteFirstUnrooted true).ncaps = 1 := by
  simp [siteFirstUnrooted, G, Re.ncaps, Re.ncapsList, anyStar]
theorem ncaps_siteLast : (siteLast true).ncaps = 1 := by
  simp [siteLast, G, Re.ncaps, Re.ncapsList, anyStar]

section sites
variable {σ : Sem} {rs : List Re} {s : Str} {caps : Caps} {us : List Str}

/-- `(?:[/]|[/](.*[/]))` between two other elements: the segment is `/` and nothing is captured,
    or it is `/` followed by the capture, and the capture ends with a separator -/
theorem Tiling.atIntermediate (h : Tiling σ rs s caps us) {e : Nat} {u : Str}
    (hr : rs[e]? = some (siteIntermediate true)) (hu : us[e]? = some u) :
    (u = ['/'] ∧ caps[slotBase rs e]? = some none) ∨
      ∃ x, u = '/' :: x ∧ caps[slotBase rs e]? = some (some x) ∧ DotOk σ x ∧ ∃ m, x = m ++ ['/'] := by
  obtain ⟨ce, ce', hrun, hlt, a1, a2⟩ := h.elem1 hr hu (by rw [ncaps_siteIntermediate]; omega)
  rcases runs_siteIntermediate hrun with ⟨hu', hc⟩ | ⟨m, hd, hu', hc⟩
  · exact Or.inl ⟨hu', by rw [← a2, hc, a1]⟩
  · refine Or.inr ⟨m ++ ['/'], hu', by rw [← a2, hc, getElem?_set_self_lt hlt], ?_, m, rfl⟩
    exact dotOk_append.mpr ⟨hd, fun c hc => by
      have : c = '/' := by simpa using hc
      subst this; simp [CharPred.holds]⟩

/-- `(?:[/]?|(.*[/]))` at the start: the segment is empty or `/` and nothing is captured, or it is
    the capture, which ends with a separator -/
theorem Tiling.atFirstUnrooted (h : Tiling σ rs s caps us) {e : Nat} {u : Str}
    (hr : rs[e]? = some (siteFirstUnrooted true)) (hu : us[e]? = some u) :
    ((u = [] ∨ u = ['/']) ∧ caps[slotBase rs e]? = some none) ∨
      (caps[slotBase rs e]? = some (some u) ∧ ∃ m, u = m ++ ['/']) := by
  obtain ⟨ce, ce', hrun, hlt, a1, a2⟩ := h.elem1 hr hu (by rw [ncaps_siteFirstUnrooted]; omega)
  rcases runs_siteFirstUnrooted hrun with ⟨hu', hc⟩ | ⟨m, hd, hu', hc⟩
  · exact Or.inl ⟨hu', by rw [← a2, hc, a1]⟩
  · subst hu'
    exact Or.inr ⟨by rw [← a2, hc, getElem?_set_self_lt hlt], m, rfl⟩

/-- `(?:[/]?|[/](.*))` at the end: the segment is empty or `/` and nothing is captured, or it is
    `/` followed by the capture -/
theorem Tiling.atLast (h : Tiling σ rs s caps us) {e : Nat} {u : Str}
    (hr : rs[e]? = some (siteLast true)) (hu : us[e]? = some u) :
    ((u = [] ∨ u = ['/']) ∧ caps[slotBase rs e]? = some none) ∨
      ∃ x, u = '/' :: x ∧ caps[slotBase rs e]? = some (some x) := by
  obtain ⟨ce, ce', hrun, hlt, a1, a2⟩ := h.elem1 hr hu (by rw [ncaps_siteLast]; omega)
  rcases runs_siteLast hrun with ⟨hu', hc⟩ | ⟨x, hd, hu', hc⟩
  · exact Or.inl ⟨hu', by rw [← a2, hc, a1]⟩
  · exact Or.inr ⟨x, hu', by rw [← a2, hc, getElem?_set_self_lt hlt]⟩

/-- `(.*)`: the capture is the segment -/
theorem Tiling.atOnly (h : Tiling σ rs s caps us) {e : Nat} {u : Str}
    (hr : rs[e]? = some (siteOnly true)) (hu : us[e]? = some u) :
    caps[slotBase rs e]? = some (some u) := by
  simp only [siteOnly, G, if_true] at hr
  exact h.cap hr hu

/-- `([/].*)`: the capture is the segment, which starts with a separator -/
theorem Tiling.atOnlyRooted (h : Tiling σ rs s caps us) {e : Nat} {u : Str}
    (hr : rs[e]? = some (siteOnlyRooted true)) (hu : us[e]? = some u) :
    caps[slotBase rs e]? = some (some u) ∧ ∃ m, u = '/' :: m := by
  obtain ⟨ce, ce', hrun, _⟩ := h.elem e _ u hr hu
  obtain ⟨⟨m, _, hm⟩, _⟩ := runs_siteOnlyRooted hrun
  simp only [siteOnlyRooted, G, if_true] at hr
  exact ⟨h.cap hr hu, m, hm⟩

/-- `([/].*[/]?)`: the capture is the segment, which starts with a separator (and may end inside
    a component) -/
theorem Tiling.atFirstRooted (h : Tiling σ rs s caps us) {e : Nat} {u : Str}
    (hr : rs[e]? = some (siteFirstRooted true)) (hu : us[e]? = some u) :
    caps[slotBase rs e]? = some (some u) ∧ ∃ m, u = '/' :: m := by
  obtain ⟨ce, ce', hrun, _⟩ := h.elem e _ u hr hu
  obtain ⟨⟨m, o, _, _, hm⟩, _⟩ := runs_siteFirstRooted hrun
  simp only [siteFirstRooted, G, if_true] at hr
  exact ⟨h.cap hr hu, m ++ o, hm⟩

/-- **C04, a tree wildcard captures a run of complete components** — the six sites.  `u` is the
    segment of the site, `o` the reported capture (`some none`: the group did not participate).
    At `siteIntermediate` and `siteFirstUnrooted` the capture is `Star CompSep` (it ends with a
    separator); at `siteLast`, `siteOnly`, `siteOnlyRooted` it runs to the end of the segment, which
    is the end of the path when the site is the last element (`Tiling.last_suffix`);
    `siteFirstRooted` is the known finding K-ENC-ROOTED-FIRST (`firstRooted_half_component`). -/
theorem tree_capture_components (ht : Tiling σ rs s caps us) {e : Nat} {u : Str} (hu : us[e]? = some u) :
    (rs[e]? = some (siteIntermediate true) →
      (u = ['/'] ∧ caps[slotBase rs e]? = some none) ∨
        ∃ x, u = '/' :: x ∧ caps[slotBase rs e]? = some (some x) ∧ (∃ m, x = m ++ ['/']) ∧ Star CompSep x) ∧
    (rs[e]? = some (siteFirstUnrooted true) →
      ((u = [] ∨ u = ['/']) ∧ caps[slotBase rs e]? = some none) ∨
        (caps[slotBase rs e]? = some (some u) ∧ (∃ m, u = m ++ ['/']) ∧ Star CompSep u)) ∧
    (rs[e]? = some (siteLast true) →
      ((u = [] ∨ u = ['/']) ∧ caps[slotBase rs e]? = some none) ∨
        ∃ x, u = '/' :: x ∧ caps[slotBase rs e]? = some (some x)) ∧
    (rs[e]? = some (siteOnly true) → caps[slotBase rs e]? = some (some u)) ∧
    (rs[e]? = some (siteOnlyRooted true) → caps[slotBase rs e]? = some (some u) ∧ ∃ m, u = '/' :: m) ∧
    (rs[e]? = some (siteFirstRooted true) → caps[slotBase rs e]? = some (some u) ∧ ∃ m, u = '/' :: m) := by
  refine ⟨fun hr => ?_, fun hr => ?_, fun hr => ht.atLast hr hu, fun hr => ht.atOnly hr hu,
    fun hr => ht.atOnlyRooted hr hu, fun hr => ht.atFirstRooted hr hu⟩
  · rcases ht.atIntermediate hr hu with h | ⟨x, h1, h2, _, m, hm⟩
    · exact Or.inl h
    · exact Or.inr ⟨x, h1, h2, ⟨m, hm⟩, by rw [hm]; exact star_compSep_of_endsSep m⟩
  · rcases ht.atFirstUnrooted hr hu with h | ⟨h1, m, hm⟩
    · exact Or.inl h
    · exact Or.inr ⟨h1, ⟨m, hm⟩, by rw [hm]; exact star_compSep_of_endsSep m⟩

/-- the segments up to and including segment `e` -/
theorem take_succ_flatten {us : List Str} {e : Nat} {u : Str} (hu : us[e]? = some u) :
    (us.take (e + 1)).flatten = (us.take e).flatten ++ u := by
  rw [List.take_add_one, hu]
  simp

/-- the first `segStart us e` characters of the haystack are the first `e` segments -/
theorem take_segStart (us : List Str) (e : Nat) : us.flatten.take (segStart us e) = (us.take e).flatten := by
  have : us.flatten = (us.take e).flatten ++ (us.drop e).flatten := by
    rw [← List.flatten_append, List.take_append_drop]
  rw [this, segStart, List.take_left]

/-- the segment of the last element reaches the end of the haystack -/
theorem Tiling.last_suffix (h : Tiling σ rs s caps us) {e : Nat} {u : Str} (hu : us[e]? = some u)
    (hl : e + 1 = rs.length) : s = (us.take e).flatten ++ u := by
  rw [h.cover, flatten_split us e u hu, List.drop_eq_nil_of_le (by rw [h.len]; omega)]
  simp

/-- **component boundaries**: after an intermediate site the path is at a component boundary
    (what has been consumed ends with a separator), and so it is after a first unrooted site (what
    it consumed is a run of complete components); hence the token that follows starts a component,
    and the capture, if any, ends with a separator.  For `siteFirstRooted` this is only so when the
    segment happens to end with a separator. -/
theorem tree_next_at_boundary (ht : Tiling σ rs s caps us) {e : Nat} {u : Str} (hu : us[e]? = some u) :
    (rs[e]? = some (siteIntermediate true) →
      ∃ q, s.take (segStart us (e + 1)) = q ++ ['/']) ∧
    (rs[e]? = some (siteFirstUnrooted true) → Star CompSep u) ∧
    (rs[e]? = some (siteFirstRooted true) → (∃ q, u = q ++ ['/']) →
      ∃ x, caps[slotBase rs e]? = some (some x) ∧ Star CompSep x) := by
  refine ⟨fun hr => ?_, fun hr => ?_, fun hr ⟨q, hq⟩ => ?_⟩
  · rw [ht.cover, take_segStart, take_succ_flatten hu]
    rcases ht.atIntermediate hr hu with ⟨h, _⟩ | ⟨x, h1, _, _, m, hm⟩
    · exact ⟨(us.take e).flatten, by rw [h]⟩
    · exact ⟨(us.take e).flatten ++ '/' :: m, by rw [h1, hm]; simp⟩
  · rcases ht.atFirstUnrooted hr hu with ⟨h | h, _⟩ | ⟨_, m, hm⟩
    · rw [h]; exact Star.nil
    · rw [h]; exact star_compSep_of_endsSep []
    · rw [hm]; exact star_compSep_of_endsSep m
  · exact ⟨u, (ht.atFirstRooted hr hu).1, by rw [hq]; exact star_compSep_of_endsSep q⟩

end sites

/-- K-ENC-ROOTED-FIRST seen through the captures: `([/].*[/]?)a` on `/xa` captures `/x`, which is
    not a run of complete components -/
theorem firstRooted_half_component :
    (Re.cat [siteFirstRooted true, .lit ['a'] false]).exec σcs "/xa".toList =
      some [some "/xa".toList, some "/x".toList] ∧ ¬ Star CompSep "/x".toList := by
  refine ⟨by decide, ?_⟩
  intro h
  rcases star_compSep_endsSep h with h | ⟨m, h⟩
  · cases h
  · have := congrArg List.getLast? h
    simp at this

/-- an observation, not a defect of the model: a tree wildcard that matches no component does not
    participate at all (its capture is reported as absent, not as the empty string), because the
    branch without a group comes first: `(?:[/]|[/](.*[/]))` in `a/**/b` on `a/b`, and
    `(?:[/]?|(.*[/]))` in `**/a` on `/a` — the latter although `(.*[/])` could have captured `/` -/
theorem tree_zero_components_no_capture :
    (Re.cat [.lit ['a'] false, siteIntermediate true, .lit ['b'] false]).exec σcs "a/b".toList =
      some [some "a/b".toList, none] ∧
    (Re.cat [siteFirstUnrooted true, .lit ['a'] false]).exec σcs "/a".toList =
      some [some "/a".toList, none] := by
  exact ⟨by decide, by decide⟩

/-! ### the top-level tokens of a glob -/

/-- the slot (capture index − 1) of the top-level token number `e` -/
def capIdx (ts : List Tok) (e : Nat) : Nat := ((ts.take e).filter Tok.capturing).length

/-- the elements of the top-level concatenation `encodeTop` produces -/
def topRs (ts : List Tok) : List Re := encodeList true none ts 0 ts.length

theorem encodeTop_eq (t : Tok) : encodeTop t = .cat (topRs t.concatenation) := by
  cases t <;> simp [encodeTop, topRs, Tok.concatenation, encodeList, posOf]

theorem encodeList_getElem? (c : Bool) (sup : Option Pos) : ∀ (ts : List Tok) (i n e : Nat),
    (encodeList c sup ts i n)[e]? = ts[e]?.map (encodeTok c sup (posOf (i + e) n))
  | [], i, n, e => by simp [encodeList]
  | t :: ts, i, n, 0 => by simp [encodeList]
  | t :: ts, i, n, e + 1 => by
    simp only [encodeList, List.getElem?_cons_succ]
    rw [encodeList_getElem? c sup ts (i + 1) n e]
    have : i + 1 + e = i + (e + 1) := by omega
    rw [this]

theorem encodeList_take (c : Bool) (sup : Option Pos) : ∀ (ts : List Tok) (i n e : Nat),
    (encodeList c sup ts i n).take e = encodeList c sup (ts.take e) i n
  | [], i, n, e => by simp [encodeList]
  | t :: ts, i, n, 0 => by simp [encodeList]
  | t :: ts, i, n, e + 1 => by
    simp only [encodeList, List.take_succ_cons, encodeList_take c sup ts (i + 1) n e]

theorem topRs_getElem? (ts : List Tok) (e : Nat) :
    (topRs ts)[e]? = ts[e]?.map (encodeTok true none (posOf e ts.length)) := by
  rw [topRs, encodeList_getElem?, Nat.zero_add]

/-- group numbering: the slot of top-level token `e` is the number of capturing tokens before it -/
theorem slotBase_topRs (ts : List Tok) (hc : ∀ t ∈ ts, t.isCat = false) (e : Nat) :
    slotBase (topRs ts) e = capIdx ts e := by
  rw [slotBase, topRs, encodeList_take, ← groupsL_eq_ncapsList, capIdx]
  exact groups_encodeList_true (ts.take e) none 0 ts.length (fun t ht => hc t (List.mem_of_mem_take ht))

/-- what `Re.exec` reports on the compiled glob is a tiling along the top-level tokens -/
theorem exec_tok_tiling {σ : Sem} {t : Tok} {s : Str} {caps : Caps}
    (h : (encodeTop t).exec σ s = some (some s :: caps)) :
    ∃ us, Tiling σ (topRs t.concatenation) s caps us := by
  rw [encodeTop_eq] at h
  exact exec_tiling h

section tokens
variable {σ : Sem} {ts : List Tok} {s : Str} {caps : Caps} {us : List Str}

/-- **headline 3, `?`**: a top-level `?` captures its segment, which is one character other than `/` -/
theorem one_capture_one_char (hc : ∀ t ∈ ts, t.isCat = false) (ht : Tiling σ (topRs ts) s caps us)
    {e : Nat} {sp : Span} {u : Str} (hte : ts[e]? = some (.one sp)) (hu : us[e]? = some u) :
    ∃ ch, ch ≠ '/' ∧ u = [ch] ∧ caps[capIdx ts e]? = some (some [ch]) := by
  have hr : (topRs ts)[e]? = some (.cap (.chr .nsep)) := by
    rw [topRs_getElem?, hte]; simp [encodeTok, G]
  have hcap := ht.cap hr hu
  rw [slotBase_topRs ts hc] at hcap
  have hm := ht.matches hr hu
  cases hm with
  | cap hm =>
    cases hm with
    | chr hp =>
      rename_i ch
      exact ⟨ch, by simpa [CharPred.holds] using hp, rfl, hcap⟩

/-- **headline 3, classes**: a top-level class captures its segment, which is one character other
    than `/` that the class accepts -/
theorem class_capture_one_char (hc : ∀ t ∈ ts, t.isCat = false) (ht : Tiling σ (topRs ts) s caps us)
    {e : Nat} {sp : Span} {neg : Bool} {items : List Arch} {u : Str}
    (hte : ts[e]? = some (.cls sp neg items)) (hu : us[e]? = some u) :
    ∃ ch, ch ≠ '/' ∧ (CharPred.cls neg items).holds σ ch = true ∧ u = [ch] ∧
      caps[capIdx ts e]? = some (some [ch]) := by
  have hr : (topRs ts)[e]? =
      some (.cap (if classValid items then .chr (.cls neg items) else .never)) := by
    rw [topRs_getElem?, hte]; simp [encodeTok, G]
  have hcap := ht.cap hr hu
  rw [slotBase_topRs ts hc] at hcap
  have hm := ht.matches hr hu
  cases hm with
  | cap hm =>
    split at hm
    · cases hm with
      | chr hp =>
        rename_i ch
        refine ⟨ch, ?_, hp, rfl, hcap⟩
        intro h
        subst h
        simp [CharPred.holds] at hp
    · cases hm

/-- **headline 3, `*` and `$`**: a top-level zero-or-more wildcard captures its segment, which
    contains no `/` -/
theorem zom_capture_sepFree (hc : ∀ t ∈ ts, t.isCat = false) (ht : Tiling σ (topRs ts) s caps us)
    {e : Nat} {sp : Span} {lazy : Bool} {u : Str} (hte : ts[e]? = some (.zom sp lazy)) (hu : us[e]? = some u) :
    SepFree u ∧ caps[capIdx ts e]? = some (some u) := by
  cases lazy with
  | false =>
    have hr : (topRs ts)[e]? = some (.cap (.star (.chr .nsep))) := by
      rw [topRs_getElem?, hte]; simp [encodeTok, G]
    have hcap := ht.cap hr hu
    rw [slotBase_topRs ts hc] at hcap
    have hm := ht.matches hr hu
    cases hm with
    | cap hm => exact ⟨(star_nsep_iff σ u).mp hm, hcap⟩
  | true =>
    have hr : (topRs ts)[e]? = some (.cap (.lazyStar (.chr .nsep))) := by
      rw [topRs_getElem?, hte]; simp [encodeTok, G]
    have hcap := ht.cap hr hu
    rw [slotBase_topRs ts hc] at hcap
    have hm := ht.matches hr hu
    cases hm with
    | cap hm => exact ⟨(lazyStar_nsep_iff σ u).mp hm, hcap⟩

/-- literals and separators have no group: their segments are never captured (they are the text
    between the captures, `caps_between`) -/
theorem lit_sep_no_group {e : Nat} {t : Tok} (hte : ts[e]? = some t) (hn : t.capturing = false)
    (hcat : t.isCat = false) : ∃ r, (topRs ts)[e]? = some r ∧ r.ncaps = 0 := by
  rw [topRs_getElem?, hte]
  cases t <;> simp [Tok.capturing] at hn
  · exact ⟨_, rfl, by simp [encodeTok, Re.ncaps]⟩
  · exact ⟨_, rfl, by simp [encodeTok, Re.ncaps]⟩
  · simp [Tok.isCat] at hcat

/-- every capturing top-level token other than a tree wildcard is compiled to `(…)` and captures
    exactly its segment (alternatives and repetitions included) -/
theorem nontree_capture_segment (hc : ∀ t ∈ ts, t.isCat = false) (ht : Tiling σ (topRs ts) s caps us)
    {e : Nat} {t : Tok} {u : Str} (hte : ts[e]? = some t) (hcap : t.capturing = true)
    (htree : ∀ sp r, t ≠ .tree sp r) (hu : us[e]? = some u) :
    caps[capIdx ts e]? = some (some u) := by
  have hr0 : ∃ r', encodeTok true none (posOf e ts.length) t = .cap r' := by
    cases t with
    | lit => simp [Tok.capturing] at hcap
    | sep => simp [Tok.capturing] at hcap
    | cat => simp [Tok.capturing] at hcap
    | tree sp r => exact absurd rfl (htree sp r)
    | cls sp n i => simp only [encodeTok, G, if_true]; exact ⟨_, rfl⟩
    | one sp => simp only [encodeTok, G, if_true]; exact ⟨_, rfl⟩
    | zom sp l => cases l <;> simp only [encodeTok, G, if_true] <;> exact ⟨_, rfl⟩
    | alt sp bs => simp only [encodeTok, G, if_true]; exact ⟨_, rfl⟩
    | rep sp b lo hi => cases b <;> simp only [encodeTok, G, if_true] <;> exact ⟨_, rfl⟩
  have hr : ∃ r', (topRs ts)[e]? = some (.cap r') := by
    obtain ⟨r', h'⟩ := hr0
    exact ⟨r', by rw [topRs_getElem?, hte, Option.map_some, h']⟩
  obtain ⟨r', hr⟩ := hr
  have := ht.cap hr hu
  rwa [slotBase_topRs ts hc] at this

theorem posOf_first {i n : Nat} (h : posOf i n = .first) : i = 0 ∧ n ≠ 1 := by
  unfold posOf at h
  split at h
  · cases h
  · split at h
    · simp_all
    · split at h <;> cases h

theorem posOf_last {i n : Nat} (h : posOf i n = .last) : i + 1 = n := by
  unfold posOf at h
  split at h
  · cases h
  · split at h
    · cases h
    · split at h
      · simp_all
      · cases h

theorem posOf_only {i n : Nat} (h : posOf i n = .only) : n = 1 := by
  unfold posOf at h
  split at h
  · simp_all
  · split at h
    · cases h
    · split at h <;> cases h

/-- which site a top-level tree wildcard is compiled to -/
theorem encodeTree_top (p : Pos) (hasRoot : Bool) :
    encodeTree true none p hasRoot =
      match p, hasRoot with
      | .first, true => siteFirstRooted true
      | .first, false => siteFirstUnrooted true
      | .middle, _ => siteIntermediate true
      | .last, _ => siteLast true
      | .only, true => siteOnlyRooted true
      | .only, false => siteOnly true := by
  cases p <;> cases hasRoot <;> simp [encodeTree]

/-- **C04 for a top-level tree wildcard**: either the group did not participate and the segment is
    empty or `/`; or the capture `x` is the segment up to a leading `/`, and `x` is a run of complete
    components — unless the wildcard ends the pattern (then `x` runs to the end of the path,
    `Tiling.last_suffix`) or it is a rooted wildcard that starts a longer pattern (the known
    finding, `firstRooted_half_component`) -/
theorem tree_token_capture (hc : ∀ t ∈ ts, t.isCat = false) (ht : Tiling σ (topRs ts) s caps us)
    {e : Nat} {sp : Span} {hasRoot : Bool} {u : Str}
    (hte : ts[e]? = some (.tree sp hasRoot)) (hu : us[e]? = some u) :
    ((u = [] ∨ u = ['/']) ∧ caps[capIdx ts e]? = some none) ∨
      ∃ x, caps[capIdx ts e]? = some (some x) ∧ (u = x ∨ u = '/' :: x) ∧
        (Star CompSep x ∨ e + 1 = ts.length ∨ (e = 0 ∧ hasRoot = true ∧ ts.length ≠ 1)) := by
  have hr : (topRs ts)[e]? = some (encodeTree true none (posOf e ts.length) hasRoot) := by
    rw [topRs_getElem?, hte]; simp [encodeTok]
  have helt : e < ts.length := by
    apply Classical.byContradiction
    intro hn
    rw [List.getElem?_eq_none (by omega)] at hte
    cases hte
  rw [encodeTree_top] at hr
  rw [← slotBase_topRs ts hc]
  have key := tree_capture_components ht hu
  cases hp : posOf e ts.length <;> cases hasRoot <;> simp only [hp] at hr
  · -- first, unrooted
    rcases key.2.1 hr with h | ⟨h1, _, h3⟩
    · exact Or.inl h
    · exact Or.inr ⟨u, h1, Or.inl rfl, Or.inl h3⟩
  · -- first, rooted
    obtain ⟨h1, _⟩ := key.2.2.2.2.2 hr
    obtain ⟨h0, hn⟩ := posOf_first hp
    exact Or.inr ⟨u, h1, Or.inl rfl, Or.inr (Or.inr ⟨h0, rfl, hn⟩)⟩
  · rcases key.1 hr with ⟨h, h'⟩ | ⟨x, h1, h2, _, h4⟩
    · exact Or.inl ⟨Or.inr h, h'⟩
    · exact Or.inr ⟨x, h2, Or.inr h1, Or.inl h4⟩
  · rcases key.1 hr with ⟨h, h'⟩ | ⟨x, h1, h2, _, h4⟩
    · exact Or.inl ⟨Or.inr h, h'⟩
    · exact Or.inr ⟨x, h2, Or.inr h1, Or.inl h4⟩
  · rcases key.2.2.1 hr with h | ⟨x, h1, h2⟩
    · exact Or.inl h
    · exact Or.inr ⟨x, h2, Or.inr h1, Or.inr (Or.inl (posOf_last hp))⟩
  · rcases key.2.2.1 hr with h | ⟨x, h1, h2⟩
    · exact Or.inl h
    · exact Or.inr ⟨x, h2, Or.inr h1, Or.inr (Or.inl (posOf_last hp))⟩
  · have := posOf_only hp
    exact Or.inr ⟨u, key.2.2.2.1 hr, Or.inl rfl, Or.inr (Or.inl (by omega))⟩
  · have := posOf_only hp
    exact Or.inr ⟨u, (key.2.2.2.2.1 hr).1, Or.inl rfl, Or.inr (Or.inl (by omega))⟩

end tokens

/-! ### the same, straight from `Re.exec` on the compiled glob -/

theorem encodeList_length (c : Bool) (sup : Option Pos) : ∀ (ts : List Tok) (i n : Nat),
    (encodeList c sup ts i n).length = ts.length
  | [], _, _ => by simp [encodeList]
  | t :: ts, i, n => by simp [encodeList, encodeList_length c sup ts (i + 1) n]

theorem Tiling.seg_exists {σ : Sem} {rs : List Re} {s : Str} {caps : Caps} {us : List Str}
    (h : Tiling σ rs s caps us) {e : Nat} (he : e < rs.length) : ∃ u, us[e]? = some u :=
  ⟨us[e]'(by rw [h.len]; exact he), List.getElem?_eq_getElem _⟩

theorem tok_index_lt {ts : List Tok} {e : Nat} {t : Tok} (h : ts[e]? = some t) : e < (topRs ts).length := by
  rw [topRs, encodeList_length]
  apply Classical.byContradiction
  intro hn
  rw [List.getElem?_eq_none (by omega)] at h
  cases h

section exec
variable {σ : Sem} {t : Tok} {s : Str} {caps : Caps}

/-- `?` -/
theorem exec_one_capture_one_char (hc : ∀ x ∈ t.concatenation, x.isCat = false)
    (h : (encodeTop t).exec σ s = some (some s :: caps)) {e : Nat} {sp : Span}
    (hte : t.concatenation[e]? = some (.one sp)) :
    ∃ ch, ch ≠ '/' ∧ caps[capIdx t.concatenation e]? = some (some [ch]) := by
  obtain ⟨us, ht⟩ := exec_tok_tiling h
  obtain ⟨u, hu⟩ := ht.seg_exists (tok_index_lt hte)
  obtain ⟨ch, h1, _, h3⟩ := one_capture_one_char hc ht hte hu
  exact ⟨ch, h1, h3⟩

/-- classes -/
theorem exec_class_capture_one_char (hc : ∀ x ∈ t.concatenation, x.isCat = false)
    (h : (encodeTop t).exec σ s = some (some s :: caps)) {e : Nat} {sp : Span} {neg : Bool}
    {items : List Arch} (hte : t.concatenation[e]? = some (.cls sp neg items)) :
    ∃ ch, ch ≠ '/' ∧ (CharPred.cls neg items).holds σ ch = true ∧
      caps[capIdx t.concatenation e]? = some (some [ch]) := by
  obtain ⟨us, ht⟩ := exec_tok_tiling h
  obtain ⟨u, hu⟩ := ht.seg_exists (tok_index_lt hte)
  obtain ⟨ch, h1, h2, _, h3⟩ := class_capture_one_char hc ht hte hu
  exact ⟨ch, h1, h2, h3⟩

/-- `*`, `$` -/
theorem exec_zom_capture_sepFree (hc : ∀ x ∈ t.concatenation, x.isCat = false)
    (h : (encodeTop t).exec σ s = some (some s :: caps)) {e : Nat} {sp : Span} {lazy : Bool}
    (hte : t.concatenation[e]? = some (.zom sp lazy)) :
    ∃ x, SepFree x ∧ caps[capIdx t.concatenation e]? = some (some x) := by
  obtain ⟨us, ht⟩ := exec_tok_tiling h
  obtain ⟨u, hu⟩ := ht.seg_exists (tok_index_lt hte)
  exact ⟨u, zom_capture_sepFree hc ht hte hu⟩

/-- tree wildcards -/
theorem exec_tree_capture_components (hc : ∀ x ∈ t.concatenation, x.isCat = false)
    (h : (encodeTop t).exec σ s = some (some s :: caps)) {e : Nat} {sp : Span} {hasRoot : Bool}
    (hte : t.concatenation[e]? = some (.tree sp hasRoot)) :
    caps[capIdx t.concatenation e]? = some none ∨
      ∃ x, caps[capIdx t.concatenation e]? = some (some x) ∧
        (Star CompSep x ∨ e + 1 = t.concatenation.length ∨
          (e = 0 ∧ hasRoot = true ∧ t.concatenation.length ≠ 1)) := by
  obtain ⟨us, ht⟩ := exec_tok_tiling h
  obtain ⟨u, hu⟩ := ht.seg_exists (tok_index_lt hte)
  rcases tree_token_capture hc ht hte hu with ⟨_, h0⟩ | ⟨x, h1, _, h3⟩
  · exact Or.inl h0
  · exact Or.inr ⟨x, h1, h3⟩

end exec

/-! ### numbering, order and rims for the top-level tokens -/

/-- a top-level token has one group if it is capturing and none otherwise -/
theorem ncaps_topRs {ts : List Tok} {e : Nat} {t : Tok} (hte : ts[e]? = some t) (hcat : t.isCat = false) :
    ∃ r, (topRs ts)[e]? = some r ∧ r.ncaps = if t.capturing then 1 else 0 := by
  refine ⟨encodeTok true none (posOf e ts.length) t, by rw [topRs_getElem?, hte]; rfl, ?_⟩
  rw [← groups_eq_ncaps]
  exact groups_encodeTok_true t hcat none _

theorem slotBase_length (rs : List Re) : slotBase rs rs.length = Re.ncapsList rs := by
  simp [slotBase]

/-- **one slot per capturing token, in expression order** (with `slotBase_topRs`: token `e` has
    slot `capIdx ts e`, the number of capturing tokens before it) -/
theorem caps_length_top {σ : Sem} {ts : List Tok} {s : Str} {caps : Caps} {us : List Str}
    (hc : ∀ t ∈ ts, t.isCat = false) (ht : Tiling σ (topRs ts) s caps us) :
    caps.length = (ts.filter Tok.capturing).length := by
  rw [ht.capsLen, ← slotBase_length, slotBase_topRs ts hc, capIdx, topRs, encodeList_length,
    List.take_length]

/-- the slots of capturing tokens increase with the position of the token -/
theorem capIdx_lt {ts : List Tok} (hc : ∀ t ∈ ts, t.isCat = false) {e1 e2 : Nat} {t1 : Tok}
    (hlt : e1 < e2) (ht1 : ts[e1]? = some t1) (hc1 : t1.capturing = true) :
    capIdx ts e1 < capIdx ts e2 := by
  obtain ⟨r, hr, hn⟩ := ncaps_topRs ht1 (hc t1 (List.mem_of_getElem? ht1))
  have := slotBase_mono (topRs ts) e1 e2 r hlt hr
  rw [slotBase_topRs ts hc, slotBase_topRs ts hc, hn, hc1] at this
  simp only [if_true] at this
  omega

section exec2
variable {σ : Sem} {t : Tok} {s : Str} {caps : Caps}

/-- **(a) for the compiled glob**: the captures of two capturing top-level tokens `e1 < e2` are
    numbered in that order, and the first ends in the path before the second starts -/
theorem exec_top_caps_ordered (hc : ∀ x ∈ t.concatenation, x.isCat = false)
    (h : (encodeTop t).exec σ s = some (some s :: caps)) {e1 e2 : Nat} (hlt : e1 < e2) {t1 t2 : Tok}
    (ht1 : t.concatenation[e1]? = some t1) (ht2 : t.concatenation[e2]? = some t2)
    (hc1 : t1.capturing = true) (hc2 : t2.capturing = true) {x1 x2 : Str}
    (hx1 : caps[capIdx t.concatenation e1]? = some (some x1))
    (hx2 : caps[capIdx t.concatenation e2]? = some (some x2)) :
    capIdx t.concatenation e1 < capIdx t.concatenation e2 ∧
      ∃ a1 a2, x1 = (s.drop a1).take x1.length ∧ x2 = (s.drop a2).take x2.length ∧
        a1 + x1.length ≤ a2 ∧ a2 + x2.length ≤ s.length := by
  obtain ⟨us, ht⟩ := exec_tok_tiling h
  obtain ⟨u1, hu1⟩ := ht.seg_exists (tok_index_lt ht1)
  obtain ⟨u2, hu2⟩ := ht.seg_exists (tok_index_lt ht2)
  obtain ⟨r1, hr1, hn1⟩ := ncaps_topRs ht1 (hc t1 (List.mem_of_getElem? ht1))
  obtain ⟨r2, hr2, hn2⟩ := ncaps_topRs ht2 (hc t2 (List.mem_of_getElem? ht2))
  rw [hc1] at hn1
  rw [hc2] at hn2
  simp only [if_true] at hn1 hn2
  have b1 := slotBase_topRs t.concatenation hc e1
  have b2 := slotBase_topRs t.concatenation hc e2
  exact caps_ordered ht hlt hr1 hu1 hr2 hu2 (i1 := capIdx t.concatenation e1)
    (i2 := capIdx t.concatenation e2) (by omega) (by rw [hn1]; omega) (by omega) (by rw [hn2]; omega) hx1 hx2

end exec2

/-- **rims**: the segment of a capturing top-level token whose group participated is the capture,
    preceded by at most the separator a tree wildcard absorbed; nothing follows the capture inside
    the segment.  (So in `caps_between` the text between two captures is: the segments of the tokens
    in between — literals, separators, and tokens that did not participate — and possibly the
    leading `/` of the second token's site.) -/
theorem top_capture_rim {σ : Sem} {ts : List Tok} {s : Str} {caps : Caps} {us : List Str}
    (hc : ∀ t ∈ ts, t.isCat = false) (ht : Tiling σ (topRs ts) s caps us)
    {e : Nat} {t : Tok} {u x : Str} (hte : ts[e]? = some t) (hcap : t.capturing = true)
    (hu : us[e]? = some u) (hx : caps[capIdx ts e]? = some (some x)) :
    u = x ∨ u = '/' :: x := by
  by_cases htree : ∃ sp r, t = .tree sp r
  · obtain ⟨sp, r, rfl⟩ := htree
    rcases tree_token_capture hc ht hte hu with ⟨_, h0⟩ | ⟨x', h1, h2, _⟩
    · rw [hx] at h0; cases h0
    · rw [hx] at h1
      simp only [Option.some.injEq] at h1
      subst h1
      exact h2
  · have := nontree_capture_segment hc ht hte hcap (fun sp r h => htree ⟨sp, r, h⟩) hu
    rw [hx] at this
    simp only [Option.some.injEq] at this
    exact Or.inl this.symm

/-! ### the side condition "no concatenation directly at top level" holds for parsed expressions -/

theorem pshapeL_noCat : ∀ (ts : List Tok), pshapeL true ts = true → ∀ x ∈ ts, x.isCat = false
  | [], _, x, hx => by cases hx
  | t :: ts, h, x, hx => by
    simp only [pshapeL, Bool.true_and, Bool.and_eq_true, Bool.not_eq_true'] at h
    rcases List.mem_cons.mp hx with rfl | hx
    · cases x <;> simp_all [isCatT, Tok.isCat]
    · exact pshapeL_noCat ts h.2 x hx

theorem pshape_noTopCat {t : Tok} (h : pshape t = true) : ∀ x ∈ t.concatenation, x.isCat = false := by
  cases t with
  | cat sp ts =>
    simp only [pshape, Bool.and_eq_true] at h
    exact pshapeL_noCat ts h.2
  | _ => simp [Tok.concatenation, Tok.isCat]

/-- the hypothesis `hc` of the token-level theorems, for every expression that parses -/
theorem parse_noTopCat (e : Str) (t : Tok) (h : parse e = .ok t) :
    ∀ x ∈ t.concatenation, x.isCat = false :=
  pshape_noTopCat (parse_pshape e t h)

/-! ### the hypotheses are satisfiable: `a/**/?[xb]*` on `a/x/y/bbc` -/

def exSp : Span := ⟨0, 0⟩

/-- the tokens of `a/**/?[xb]*` (the tree wildcard has absorbed both separators) -/
def exToks : List Tok :=
  [.lit exSp ['a'] false, .tree exSp false, .one exSp, .cls exSp false [.chr 'x', .chr 'b'], .zom exSp false]

def exPath : Str := "a/x/y/bbc".toList

def exCaps : Caps := [some "x/y/".toList, some ['b'], some ['b'], some ['c']]

theorem exToks_noCat : ∀ x ∈ (Tok.cat exSp exToks).concatenation, x.isCat = false := by
  simp [Tok.concatenation, exToks, Tok.isCat]

theorem exExec : (encodeTop (.cat exSp exToks)).exec σcs exPath = some (some exPath :: exCaps) := by
  decide

/-- the hypothesis of `exec_caps_tile` / `exec_tiling` holds on a concrete input with four captures -/
theorem exExec' : (Re.cat (topRs exToks)).exec σcs exPath = some (some exPath :: exCaps) := by
  have := exExec
  rw [encodeTop_eq] at this
  exact this

/-- so `Tiling.window`, `tree_capture_components`, `caps_ordered`, `caps_between`, … apply -/
example : ∃ us, Tiling σcs (topRs exToks) exPath exCaps us := exec_tiling exExec'

/-- the token-level statements apply -/
example : ∃ ch, ch ≠ '/' ∧ exCaps[capIdx exToks 2]? = some (some [ch]) :=
  exec_one_capture_one_char (t := .cat exSp exToks) exToks_noCat exExec (e := 2) (sp := exSp) rfl
example : ∃ ch, ch ≠ '/' ∧ (CharPred.cls false [.chr 'x', .chr 'b']).holds σcs ch = true ∧
    exCaps[capIdx exToks 3]? = some (some [ch]) :=
  exec_class_capture_one_char (t := .cat exSp exToks) exToks_noCat exExec (e := 3) (sp := exSp) rfl
example : ∃ x, SepFree x ∧ exCaps[capIdx exToks 4]? = some (some x) :=
  exec_zom_capture_sepFree (t := .cat exSp exToks) exToks_noCat exExec (e := 4) (sp := exSp) rfl
example : exCaps[capIdx exToks 1]? = some none ∨ ∃ x, exCaps[capIdx exToks 1]? = some (some x) ∧
    (Star CompSep x ∨ 1 + 1 = exToks.length ∨ (1 = 0 ∧ false = true ∧ exToks.length ≠ 1)) :=
  exec_tree_capture_components (t := .cat exSp exToks) exToks_noCat exExec (e := 1) (sp := exSp) rfl

end Wax
