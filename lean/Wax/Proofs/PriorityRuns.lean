import Wax.Proofs.PriorityTotal
import Wax.Proofs.CapTile
/-!
# Parse trees and the notions that were there before

* `pt_runs`: a parse tree of `r` is a capture-annotated derivation (`Runs` of
  `Wax/Proofs/CapRuns.lean`): `Runs σ r n t.word c (t.caps c)`.  So everything that is proved about
  derivations (a piece writes only its own slots, with windows of its own text: `runs_touch`; the
  tiling of `Wax/Proofs/CapTile.lean`) holds of the least tree, and `exec_runs` is the special case
  "the reported captures are those of *some* derivation" of `exec_least`.
* `pt_own`: the states of a tree of node `id` belong to node `id`.
* `pt_exists`: every text of the language of `r` has a guard-respecting tree at any node, from any
  visited set that is foreign to the node.
-/
namespace Wax

/-- the text and the slots of the trees of `A` are related by `R` -/
def Rel (A : PSet) (R : Str → Caps → Caps → Prop) : Prop := ∀ t c, A t → R t.word c (t.caps c)

theorem word_leaveT (lazy : Bool) : (leaveT lazy).word = [] := by cases lazy <;> rfl
theorem caps_leaveT (lazy : Bool) (c : Caps) : (leaveT lazy).caps c = c := by cases lazy <;> rfl
theorem caps_moreT (lazy : Bool) (x : PT) (c : Caps) : (moreT lazy x).caps c = x.caps c := by cases lazy <;> rfl

section rel
variable {R : Str → Caps → Caps → Prop}

theorem Rel.lup {B : PSet} (lazy : Bool) (U : Sid) (hB : Rel B R) :
    Rel (LUP lazy B U) (fun x c c' => ∃ m, IterR R m x c c') := by
  intro t c ht
  induction ht generalizing c with
  | leave =>
    simp only [PT.word, PT.caps, word_leaveT, caps_leaveT]
    exact ⟨0, .zero⟩
  | more ha _ ih =>
    simp only [PT.word, PT.caps, word_moreT, caps_moreT]
    obtain ⟨m, hm⟩ := ih (PT.caps _ c)
    exact ⟨m + 1, .succ (hB _ c ha) hm⟩

theorem Rel.plp {B : PSet} (lazy : Bool) (P : Sid) (hB : Rel B R) :
    Rel (PLP lazy B P) (fun x c c' => ∃ m, IterR R (m + 1) x c c') := by
  intro t c ht
  induction ht generalizing c with
  | last ha =>
    simp only [PT.word, PT.caps, word_leaveT, caps_leaveT, List.append_nil]
    exact ⟨0, IterR.one (hB _ c ha)⟩
  | more ha _ ih =>
    simp only [PT.word, PT.caps, word_moreT, caps_moreT]
    obtain ⟨m, hm⟩ := ih (PT.caps _ c)
    exact ⟨m + 1, .succ (hB _ c ha) hm⟩

theorem Rel.sq {B : PSet} (lazy : Bool) (Q P : Sid) (hB : Rel B R) :
    Rel (SQP lazy B Q P) (fun x c c' => ∃ m, IterR R m x c c') := by
  rintro t c ⟨y, rfl, hy⟩
  rcases prefP_eps_cases hy with ⟨x, rfl, hx⟩ | rfl
  · simp only [PT.word, PT.caps, word_moreT, caps_moreT]
    obtain ⟨m, hm⟩ := Rel.plp lazy P hB x c hx
    exact ⟨m + 1, hm⟩
  · simp only [PT.word, PT.caps, word_leaveT, caps_leaveT]
    exact ⟨0, .zero⟩

variable {B : Nat → PSet}

theorem Rel.exactly (hB : ∀ i, Rel (B i) R) : ∀ (n i : Nat), Rel (ExactlyP B n i) (IterR R n)
  | 0, _ => by
    rintro t c rfl
    exact .zero
  | n + 1, i => by
    rintro t c ⟨a, b, rfl, ha, hb⟩
    exact .succ (hB i a c ha) (Rel.exactly hB n (i + 1) b _ hb)

theorem Rel.optNest (hB : ∀ i, Rel (B i) R) (un : Nat → Sid) :
    ∀ (n i : Nat), Rel (OptNestP B un n i) (fun x c c' => ∃ m, m ≤ n ∧ IterR R m x c c')
  | 0, _ => by
    rintro t c rfl
    exact ⟨0, Nat.le_refl _, .zero⟩
  | n + 1, i => by
    rintro t c ⟨y, rfl, ⟨z, rfl, a, b, rfl, ha, hb⟩ | ⟨z, rfl, rfl⟩⟩
    · obtain ⟨m, hmn, hm⟩ := Rel.optNest hB un n (i + 1) b _ hb
      exact ⟨m + 1, by omega, .succ (hB i a c ha) hm⟩
    · exact ⟨0, Nat.zero_le _, .zero⟩

theorem Rel.starP (hB : ∀ i, Rel (B i) R) (nn : Bool) (un : Nat → Sid) (lazy : Bool) :
    Rel (StarP nn B un lazy) (fun x c c' => ∃ m, IterR R m x c c') := by
  unfold StarP
  split
  · exact Rel.lup lazy _ (hB 0)
  · exact Rel.sq lazy _ _ (hB 0)

theorem Rel.repeatP (hB : ∀ i, Rel (B i) R) (nn : Bool) (un : Nat → Sid) (lo : Nat) (hi : Option Nat) :
    Rel (RepeatP nn B un lo hi) (fun x c c' => ∃ m, lo ≤ m ∧ (∀ h, hi = some h → m ≤ h) ∧ IterR R m x c c') := by
  cases hi with
  | some h =>
    by_cases hle : lo ≤ h
    · simp only [RepeatP, if_pos hle]
      rintro t c ⟨a, b, rfl, ha, hb⟩
      have h1 := Rel.exactly hB lo 0 a c ha
      obtain ⟨m, hmn, hm⟩ := Rel.optNest hB un (h - lo) lo b _ hb
      refine ⟨lo + m, Nat.le_add_right _ _, ?_, h1.append hm⟩
      intro h' e
      cases e
      omega
    · simp only [RepeatP, if_neg hle]
      exact fun _ _ h => h.elim
  | none =>
    cases lo with
    | zero =>
      simp only [RepeatP]
      intro t c ht
      obtain ⟨m, hm⟩ := Rel.starP hB nn un false t c ht
      exact ⟨m, Nat.zero_le _, (by intro _ e; cases e), hm⟩
    | succ lo' =>
      simp only [RepeatP]
      rintro t c ⟨a, b, rfl, ha, hb⟩
      have h1 := Rel.exactly hB lo' 0 a c ha
      obtain ⟨m, hm⟩ := Rel.plp false _ (hB lo') b _ hb
      exact ⟨lo' + (m + 1), by omega, (by intro _ e; cases e), h1.append hm⟩

end rel

mutual
  /-- **a parse tree is a capture-annotated derivation** -/
  theorem pt_runs (σ : Sem) : ∀ (r : Re) (id : Sid) (n : Nat),
      Rel (r.PT σ id n) (fun u c c' => Runs σ r n u c c')
    | .lit s ci, id, n => by
      rintro t c ⟨u, hu, rfl⟩
      exact .lit hu
    | .chr p, id, n => by
      rintro t c ⟨a, ha, rfl⟩
      exact .chr ha
    | .never, id, n => fun _ _ h => h.elim
    | .cat l, id, n => by
      intro t c ht
      simp only [Re.PT] at ht
      exact .cat (ptCat_runs σ l id 0 n t c ht)
    | .alt l, id, n => by
      intro t c ht
      have key : ∀ t, Re.PTAlt σ l id 1 n t → Runs σ (.alt l) n t.word c (t.caps c) := by
        intro t ht
        obtain ⟨pre, r, post, e, hr⟩ := ptAlt_runs σ l id 1 n t c ht
        exact .alt e hr
      rcases l with _ | ⟨a, _ | ⟨b, l⟩⟩
      · simp only [Re.PT] at ht
        exact key t ht
      · simp only [Re.PT] at ht
        exact key t ht
      · simp only [Re.PT] at ht
        obtain ⟨y, rfl, hy⟩ := ht
        exact key y hy
    | .star r, id, n => by
      intro t c ht
      simp only [Re.PT] at ht
      obtain ⟨m, hm⟩ := Rel.starP (fun i => pt_runs σ r _ n) _ _ _ t c ht
      exact runs_star_of_iterR hm
    | .lazyStar r, id, n => by
      intro t c ht
      simp only [Re.PT] at ht
      obtain ⟨m, hm⟩ := Rel.starP (fun i => pt_runs σ r _ n) _ _ _ t c ht
      exact .lazyStar (runs_star_of_iterR hm)
    | .opt r, id, n => by
      intro t c ht
      simp only [Re.PT] at ht
      obtain ⟨y, rfl, ⟨z, rfl, hz⟩ | ⟨z, rfl, rfl⟩⟩ := ht
      · exact .optSome (pt_runs σ r _ n z c hz)
      · exact .optNone
    | .rep r lo hi, id, n => by
      intro t c ht
      simp only [Re.PT] at ht
      obtain ⟨m, hlo, hhi, hm⟩ := Rel.repeatP (fun i => pt_runs σ r _ n) _ _ lo hi t c ht
      exact .rep hlo hhi (runsIter_of_iterR hm)
    | .cap r, id, n => by
      intro t c ht
      simp only [Re.PT] at ht
      obtain ⟨a, rfl, ha⟩ := ht
      exact .cap (pt_runs σ r _ (n + 1) a c ha)
    | .grp r, id, n => by
      intro t c ht
      simp only [Re.PT] at ht
      exact .grp (pt_runs σ r _ n t c ht)
  theorem ptCat_runs (σ : Sem) : ∀ (l : List Re) (id : Sid) (j n : Nat),
      Rel (Re.PTCat σ l id j n) (fun u c c' => RunsAll σ l n u c c')
    | [], id, j, n => by
      rintro t c ht
      simp only [Re.PTCat] at ht
      cases ht
      exact .nil
    | r :: rs, id, j, n => by
      rintro t c ht
      simp only [Re.PTCat] at ht
      obtain ⟨a, b, rfl, ha, hb⟩ := ht
      exact .cons (pt_runs σ r _ n a c ha) (ptCat_runs σ rs id (j + 1) _ b _ hb)
  theorem ptAlt_runs (σ : Sem) : ∀ (l : List Re) (id : Sid) (j n : Nat) (t : PT) (c : Caps),
      Re.PTAlt σ l id j n t →
      ∃ pre r post, l = pre ++ r :: post ∧ Runs σ r (n + Re.ncapsList pre) t.word c (t.caps c)
    | [], id, j, n, t, c, ht => by
      simp only [Re.PTAlt] at ht
      exact ht.elim
    | r :: rs, id, j, n, t, c, ht => by
      simp only [Re.PTAlt] at ht
      rcases ht with ⟨a, rfl, ha⟩ | ⟨b, rfl, hb⟩
      · exact ⟨[], r, rs, rfl, by simpa [Re.ncapsList, PT.word, PT.caps] using pt_runs σ r _ n a c ha⟩
      · obtain ⟨pre, r', post, e, hr⟩ := ptAlt_runs σ rs id (j + 1) (n + r.ncaps) b c hb
        refine ⟨r :: pre, r', post, by rw [e]; rfl, ?_⟩
        simpa [Re.ncapsList, Nat.add_assoc, PT.word, PT.caps] using hr
end

/-- the text of a parse tree is in the language -/
theorem pt_matches {σ : Sem} {r : Re} {id : Sid} {n : Nat} {t : PT} (h : r.PT σ id n t) : Matches σ r t.word :=
  (pt_runs σ r id n t [] h).matches

theorem ptCat_matches {σ : Sem} {l : List Re} {id : Sid} {j n : Nat} {t : PT} (h : Re.PTCat σ l id j n t) :
    MatchesAll σ l t.word :=
  (ptCat_runs σ l id j n t [] h).matches

/-! ### the states of a tree -/

theorem pt_own {σ : Sem} {r : Re} {id : Sid} {n : Nat} {t : PT} (h : r.PT σ id n t) {x : Sid}
    (hx : Ev.s x ∈ t.flat) : id <:+ x :=
  (tr_ws σ r id).own _ (pt_sub_tr σ r id n t h) x hx

theorem ptCat_own {σ : Sem} {l : List Re} {id : Sid} {j n : Nat} {t : PT} (h : Re.PTCat σ l id j n t) {x : Sid}
    (hx : Ev.s x ∈ t.flat) : ∃ i, j ≤ i ∧ (i :: id) <:+ x :=
  (trCat_ws σ l id j).own _ (ptCat_sub_tr σ l id j n t h) x hx

/-- the visited set after a path: what was there before, and the states of the path -/
theorem mem_after : ∀ (t : Trace) (v : Vis) (x : Sid), x ∈ after v t → x ∈ v ∨ Ev.s x ∈ t
  | [], _, _, h => Or.inl h
  | .s y :: t, v, x, h => by
    rcases mem_after t (y :: v) x h with h | h
    · rcases List.mem_cons.mp h with rfl | h
      · exact Or.inr (List.mem_cons_self ..)
      · exact Or.inl h
    · exact Or.inr (List.mem_cons_of_mem _ h)
  | .c _ :: t, v, x, h => by
    rcases mem_after t [] x h with h | h
    · cases h
    · exact Or.inr (List.mem_cons_of_mem _ h)

/-- states that do not occur on a path do not disturb it -/
theorem runOK_foreign : ∀ (t : Trace) (v1 v2 : Vis), RunOK v1 t → (∀ x, Ev.s x ∈ t → x ∉ v2) →
    RunOK (v1 ++ v2) t
  | [], _, _, _, _ => trivial
  | .s y :: t, v1, v2, h, hf => by
    refine ⟨?_, runOK_foreign t (y :: v1) v2 h.2 (fun x hx => hf x (List.mem_cons_of_mem _ hx))⟩
    intro hy
    rcases List.mem_append.mp hy with hy | hy
    · exact h.1 hy
    · exact hf y (List.mem_cons_self ..) hy
  | .c _ :: t, _, _, h, _ => h

theorem runOK_foreign' {t : Trace} {v : Vis} (h : RunOK [] t) (hf : ∀ x, Ev.s x ∈ t → x ∉ v) : RunOK v t := by
  simpa using runOK_foreign t [] v h hf

/-! ### every text of the language has a guard-respecting tree, at any node -/

theorem succ_atEnd (v : Vis) (c : Caps) : Succ (atEnd [] v c) := ⟨c, rfl⟩

theorem pt_exists {σ : Sem} {r : Re} {u : Str} (hm : Matches σ r u) (id : Sid) (n : Nat) (v : Vis)
    (hv : ∀ x ∈ v, ¬ id <:+ x) : ∃ t, r.PT σ id n t ∧ t.word = u ∧ RunOK v t.flat := by
  obtain ⟨tr, htr, hw, hok⟩ := matches_runOK id hm
  have hok' : RunOK v tr := runOK_foreign' hok (fun x hx hxv => hv x hxv ((tr_ws σ r id).own tr htr x hx))
  obtain ⟨res, hres⟩ := run_stepT σ r id n tr [] v [] atEnd htr hok' (fun c' => succ_atEnd _ c')
  obtain ⟨t, w', ct, hout, _⟩ := (run_first σ r id n _ v [] atEnd).1 res hres
  rw [out_atEnd] at hout
  have hw' : w' = [] := by
    cases w' with
    | nil => rfl
    | cons _ _ => simp at hout
  subst hw'
  refine ⟨t, ct.mem, ?_, ct.ok⟩
  have := ct.split
  simp only [List.append_nil] at this
  rw [← this, hw]

theorem ptCat_exists {σ : Sem} {l : List Re} {u : Str} (hm : MatchesAll σ l u) (id : Sid) (j n : Nat) (v : Vis)
    (hv : ∀ x ∈ v, ∀ i, j ≤ i → ¬ (i :: id) <:+ x) :
    ∃ t, Re.PTCat σ l id j n t ∧ t.word = u ∧ RunOK v t.flat := by
  obtain ⟨tr0, htr0, hw0⟩ := trCat_cov σ l id j u hm
  obtain ⟨tr, htr, hw, hok⟩ := cut (trCat_ws σ l id j).sp tr0.length tr0 (Nat.le_refl _) htr0
  have hok' : RunOK v tr := runOK_foreign' hok (fun x hx hxv => by
    obtain ⟨i, hi, hs⟩ := (trCat_ws σ l id j).own tr htr x hx
    exact hv x hxv i hi hs)
  obtain ⟨res, hres⟩ := runCat_stepT σ l id j n tr [] v [] atEnd htr hok' (fun c' => succ_atEnd _ c')
  obtain ⟨t, w', ct, hout, _⟩ := (runCat_first σ l id j n _ v [] atEnd).1 res hres
  rw [out_atEnd] at hout
  have hw' : w' = [] := by
    cases w' with
    | nil => rfl
    | cons _ _ => simp at hout
  subst hw'
  refine ⟨t, ct.mem, ?_, ct.ok⟩
  have := ct.split
  simp only [List.append_nil] at this
  rw [← this, hw, hw0]

/-! ### the hypotheses are satisfiable -/

/-- the least tree of `(a|ab)(c|bcd)(d*)` on `abcd` is a derivation with the reported captures -/
example : ∃ t, IsLeast trivSem exPerl ['a', 'b', 'c', 'd'] t ∧
    Runs trivSem exPerl 0 ['a', 'b', 'c', 'd'] exPerl.initCaps [some ['a'], some ['b', 'c', 'd'], some []] := by
  obtain ⟨t, ht, hc⟩ := exPerl_least
  refine ⟨t, ht, ?_⟩
  have := pt_runs trivSem exPerl [] 0 t exPerl.initCaps ht.1.mem
  rw [ht.1.word, hc] at this
  exact this

/-- a tree at another node, from a visited set that is foreign to it -/
example : ∃ t, exLoopAB.PT trivSem [7] 3 t ∧ t.word = ['a', 'b'] ∧ RunOK [[0, 8]] t.flat :=
  pt_exists ((matchB_iff _ _ _).mp (by decide)) [7] 3 [[0, 8]] (by
    intro x hx h
    simp only [List.mem_singleton] at hx
    subst hx
    have := own_inj h (List.suffix_cons 0 [8])
    omega)

end Wax
