import Wax.Proofs.PathLemmas
/-!
`split_at_depth` on ARBITRARY path strings: on components, the string-level function of
`Wax/Path.lean` (`ancestors().nth(d).unwrap_or("")`, `strip_prefix`) is the list-level
`splitAtDepthC` of `Wax/Proofs/Entry.lean`, for every path and every depth
(`splitAtDepth_components`).  No hypothesis on the shape of the path: repeated separators, `.`
and `..` pieces, trailing separators, absolute or relative, depth beyond the number of components.

* `compSpans_bounds`: every component span is a non-empty range inside the string;
* `compSpans_takeComps`: the ancestor covering `k` components has the first `k` components
  (at the same places);
* `compSpans_drop`: the string from the start of the `k`-th component on has the components from
  the `k`-th on (moved);
* `components_dropComps`: what `strip_prefix` leaves after `k` components has the other components.
-/
namespace Wax.Path
open Wax

/-! ### bounds of the spans -/

theorem pieceComp_some_pos {f : Bool} {s : Str} {c : Comp} (h : pieceComp f s = some c) :
    0 < s.length := by
  cases s with
  | nil => simp [pieceComp] at h
  | cons x xs => simp

theorem bodySpans_bounds (f : Bool) (k : Nat) (ps : List Str) :
    ∀ x ∈ bodySpans f (piecesFrom k ps), k ≤ x.2.1 ∧ x.2.1 < x.2.2 ∧ x.2.2 + 1 ≤ k + tot ps := by
  induction ps generalizing f k with
  | nil => simp [piecesFrom, bodySpans]
  | cons p ps ih =>
    intro x hx
    simp only [piecesFrom, bodySpans] at hx
    simp only [tot]
    have hrec := ih false (k + p.length + 1)
    cases hpc : pieceComp f p with
    | none =>
      rw [hpc] at hx
      have := hrec x hx
      omega
    | some c =>
      rw [hpc] at hx
      have hpos := pieceComp_some_pos hpc
      rcases List.mem_cons.mp hx with rfl | hx
      · simp only; omega
      · have := hrec x hx
        omega

/-- every component is a non-empty range of characters of the path -/
theorem compSpans_bounds (p : Str) : ∀ x ∈ compSpans p, x.2.1 < x.2.2 ∧ x.2.2 ≤ p.length := by
  intro x hx
  have hb := bodySpans_bounds (!isAbsolute p) 0 (splitSep p)
  rw [tot_splitSep] at hb
  unfold compSpans at hx
  by_cases ha : isAbsolute p = true
  · simp only [ha, if_true] at hx
    rcases List.mem_cons.mp hx with rfl | hx
    · have : p ≠ [] := by intro h; rw [h] at ha; cases ha
      have : 0 < p.length := List.length_pos_iff.mpr this
      simp only; omega
    · have := hb x (by simpa [ha] using hx); omega
  · simp only [ha] at hx
    have := hb x (by simpa [ha] using hx); omega

/-! ### `takeComps`: the ancestors -/

/-- asking for all the components, or more: the trimmed path -/
theorem takeComps_ge {p : Str} {k : Nat} (h : (compSpans p).length ≤ k) : takeComps p k = trim p := by
  cases k with
  | zero =>
    have h0 : compSpans p = [] := List.length_eq_zero_iff.mp (Nat.le_zero.mp h)
    simp [takeComps, trim, trimEnd, h0]
  | succ j =>
    simp only [takeComps, trim]
    cases hj : (compSpans p)[j]? with
    | none => rfl
    | some x =>
      obtain ⟨c, st, e⟩ := x
      have hlt : j < (compSpans p).length := by
        apply Classical.byContradiction
        intro hn
        rw [List.getElem?_eq_none_iff.mpr (by omega)] at hj; cases hj
      have hl : (compSpans p).getLast? = some (c, st, e) := by
        rw [List.getLast?_eq_getElem?, ← hj]; congr 1; omega
      simp [trimEnd, hl]

theorem compSpans_sepFree_length {p : Str} (h : SepFree p) : (compSpans p).length ≤ 1 := by
  rw [compSpans_sepFree h]
  cases pieceComp true p <;> simp

theorem bodySpans_single_length (f : Bool) (k : Nat) (w : Str) :
    (bodySpans f [(k, w)]).length ≤ 1 := by
  rw [bodySpans_single]
  cases pieceComp f w <;> simp

theorem compSpans_slash : compSpans ['/'] = [(Comp.root, 0, 1)] := by
  simp [compSpans_sep_cons, splitSep, piecesFrom, bodySpans, pieceComp]

/-- the ancestor covering `k` components has exactly the first `k` components, where they were -/
theorem compSpans_takeComps (p : Str) : ∀ k, compSpans (takeComps p k) = (compSpans p).take k := by
  induction hn : p.length using Nat.strongRecOn generalizing p with
  | ind n ih =>
    subst hn
    intro k
    by_cases hk : (compSpans p).length ≤ k
    · rw [takeComps_ge hk, compSpans_trim, List.take_of_length_le hk]
    · have hk : k < (compSpans p).length := by omega
      cases k with
      | zero => simp [takeComps, compSpans_nil]
      | succ j =>
        rcases lastSep p with h | ⟨a, w, rfl, hw⟩
        · have := compSpans_sepFree_length h
          omega
        · have hsw : splitSep w = [w] := splitSep_sepFree hw
          by_cases ha : a = []
          · subst ha
            have hcs := compSpans_sep_cons w
            rw [hsw] at hcs
            simp only [piecesFrom] at hcs
            simp only [List.nil_append] at hk ⊢
            have hl := bodySpans_single_length false 1 w
            have hj : j = 0 := by
              rw [hcs] at hk; simp only [List.length_cons] at hk; omega
            subst hj
            simp only [takeComps, hcs]
            simp [compSpans_slash]
          · have hcs := compSpans_append_sep w ha
            rw [hsw] at hcs
            simp only [piecesFrom] at hcs
            have hl := bodySpans_single_length false (a.length + 1) w
            have hja : j < (compSpans a).length := by
              rw [hcs, List.length_append] at hk; omega
            have hget : (compSpans (a ++ '/' :: w))[j]? = (compSpans a)[j]? := by
              rw [hcs, List.getElem?_append_left hja]
            have hx := List.getElem?_eq_getElem hja
            have hmem : (compSpans a)[j] ∈ compSpans a := List.getElem_mem hja
            have hb := compSpans_bounds a _ hmem
            have htk : takeComps (a ++ '/' :: w) (j + 1) = takeComps a (j + 1) := by
              simp only [takeComps, hget, hx]
              rw [List.take_append_of_le_length hb.2]
            rw [htk, ih a.length (by simp) a rfl (j + 1), hcs,
              List.take_append_of_le_length (by omega)]

theorem components_takeComps (p : Str) (k : Nat) :
    components (takeComps p k) = (components p).take k := by
  simp only [components, compSpans_takeComps, List.map_take]

/-! ### `dropComps`: what `strip_prefix` leaves -/

theorem pieceComp_true_of_false {s : Str} {c : Comp} (h : pieceComp false s = some c) :
    pieceComp true s = some c := by
  by_cases hs : s = ['.']
  · subst hs; simp [pieceComp] at h
  · rw [← h]; simp [pieceComp, hs]

/-- a separator-free string that is a component on its own -/
theorem compSpans_piece {w : Str} {c : Comp} (hw : SepFree w) (h : pieceComp false w = some c) :
    compSpans w = [(c, 0, w.length)] := by
  rw [compSpans_sepFree hw, pieceComp_true_of_false h]

theorem bodySpans_single_getElem {f : Bool} {k j : Nat} {w : Str} {x : Comp × Nat × Nat}
    (h : (bodySpans f [(k, w)])[j]? = some x) :
    j = 0 ∧ pieceComp f w = some x.1 ∧ x.2.1 = k ∧ x.2.2 = k + w.length := by
  rw [bodySpans_single] at h
  cases hpc : pieceComp f w with
  | none => rw [hpc] at h; simp at h
  | some c =>
    rw [hpc] at h
    cases j with
    | zero => simp at h; subst h; simp
    | succ j => simp at h

/-- the path from the start of its `k`-th component on has the components from the `k`-th on -/
theorem compSpans_drop (p : Str) : ∀ (k : Nat) (c : Comp) (st e : Nat),
    (compSpans p)[k]? = some (c, st, e) →
    (compSpans (p.drop st)).map (shift st) = (compSpans p).drop k := by
  induction hn : p.length using Nat.strongRecOn generalizing p with
  | ind n ih =>
    subst hn
    intro k c st e hk
    cases k with
    | zero =>
      cases hcs : compSpans p with
      | nil => rw [hcs] at hk; simp at hk
      | cons x xs =>
        rw [hcs] at hk
        simp only [List.getElem?_cons_zero, Option.some.injEq] at hk
        subst hk
        have := first_span_start hcs
        subst this
        simp [shift_zero, hcs, shift]
    | succ j =>
      rcases lastSep p with h | ⟨a, w, rfl, hw⟩
      · have := compSpans_sepFree_length h
        rw [List.getElem?_eq_none_iff.mpr (by omega)] at hk; cases hk
      · have hsw : splitSep w = [w] := splitSep_sepFree hw
        by_cases ha : a = []
        · subst ha
          have hcs := compSpans_sep_cons w
          rw [hsw] at hcs
          simp only [piecesFrom] at hcs
          simp only [List.nil_append] at hk ⊢
          rw [hcs, List.getElem?_cons_succ] at hk
          obtain ⟨hj, hpc, hst, he⟩ := bodySpans_single_getElem hk
          simp only at hpc hst he
          subst hj hst
          have hb : bodySpans false [(1, w)] = [(c, 1, 1 + w.length)] := by
            rw [bodySpans_single, hpc]
          rw [hcs, hb]
          simp only [List.drop_succ_cons, List.drop_zero, compSpans_piece hw hpc, List.map_cons,
            List.map_nil, shift]
          simp; omega
        · have hcs := compSpans_append_sep w ha
          rw [hsw] at hcs
          simp only [piecesFrom] at hcs
          by_cases hja : j + 1 < (compSpans a).length
          · have hget : (compSpans a)[j + 1]? = some (c, st, e) := by
              rw [← hk, hcs, List.getElem?_append_left hja]
            have hmem : (c, st, e) ∈ compSpans a := List.mem_of_getElem? hget
            have hb := compSpans_bounds a _ hmem
            simp only at hb
            have hdrop : (a ++ '/' :: w).drop st = a.drop st ++ '/' :: w :=
              List.drop_append_of_le_length (by omega)
            have hne : a.drop st ≠ [] := by
              intro h0
              have := congrArg List.length h0
              simp at this; omega
            have hih := ih a.length (by simp) a rfl (j + 1) c st e hget
            have hlen : (a.drop st).length + 1 + st = a.length + 1 := by
              simp only [List.length_drop]; omega
            rw [hdrop, compSpans_append_sep w hne, hsw, List.map_append, hih,
              ← bodySpans_shift, hlen, hcs, List.drop_append_of_le_length (by omega)]
            rfl
          · have hja : (compSpans a).length ≤ j + 1 := by omega
            rw [hcs, List.getElem?_append_right hja] at hk
            obtain ⟨hj, hpc, hst, he⟩ := bodySpans_single_getElem hk
            simp only at hpc hst he
            subst hst
            have hb : bodySpans false [(a.length + 1, w)]
                = [(c, a.length + 1, a.length + 1 + w.length)] := by
              rw [bodySpans_single, hpc]
            have hdrop : (a ++ '/' :: w).drop (a.length + 1) = w := by
              have e1 : a ++ '/' :: w = (a ++ ['/']) ++ w := by simp
              rw [e1, List.drop_left' (by simp)]
            have hjl : j + 1 = (compSpans a).length := by omega
            rw [hdrop, compSpans_piece hw hpc, hcs, hb, hjl, List.drop_left]
            simp only [List.map_cons, List.map_nil, shift]
            simp; omega

theorem map_fst_shift (k : Nat) (xs : List (Comp × Nat × Nat)) :
    (xs.map (shift k)).map (·.1) = xs.map (·.1) := by
  simp [List.map_map, Function.comp_def, shift]

/-- what `strip_prefix` leaves after the first `k` components has the remaining components -/
theorem components_dropComps (p : Str) (k : Nat) :
    components (dropComps p k) = (components p).drop k := by
  cases hd : (compSpans p).drop k with
  | nil =>
    simp only [dropComps, hd, components_nil]
    simp only [components, ← List.map_drop, hd, List.map_nil]
  | cons x rest =>
    obtain ⟨c, st, e⟩ := x
    have hk : (compSpans p)[k]? = some (c, st, e) := by
      have := List.getElem?_drop (xs := compSpans p) (i := k) (j := 0)
      rw [hd] at this
      simpa using this.symm
    have hq := compSpans_drop p k c st e hk
    have hklt : ¬ (compSpans p).length ≤ k := by
      intro h; rw [List.getElem?_eq_none_iff.mpr h] at hk; cases hk
    -- the end of the last component, seen from `st`
    have hlast : trimEnd p = trimEnd (p.drop st) + st := by
      have h1 := congrArg List.getLast? hq
      rw [List.getLast?_map, List.getLast?_drop, if_neg hklt] at h1
      unfold trimEnd
      rw [← h1]
      cases hl : (compSpans (p.drop st)).getLast? with
      | none =>
        exfalso
        rw [List.getLast?_eq_none_iff.mp hl, hd] at hq
        simp at hq
      | some y => simp [shift]
    have hsub : dropComps p k = trim (p.drop st) := by
      simp only [dropComps, hd, trim, hlast, Nat.add_sub_cancel]
    rw [hsub, components_trim]
    simp only [components]
    rw [← map_fst_shift st, hq, List.map_drop]

/-! ### `split_at_depth` is `splitAtDepthC` on components -/

theorem stripPrefix_takeComps (p : Str) (k : Nat) :
    stripPrefix p (takeComps p k) = some (dropComps p (min k (components p).length)) := by
  have h : components p = components (takeComps p k) ++ (components p).drop k := by
    rw [components_takeComps, List.take_append_drop]
  rw [stripPrefix_of_components h, components_takeComps, List.length_take]

/-- **the string-level `split_at_depth` is the list-level `splitAtDepthC`**, for every path and
    every depth: the components of the two segments are the components of the path, cut
    `depth` components before the end (everything in the relative segment when the path has no
    more than `depth` components -- for an absolute path, when it has no more than `depth`
    components below the root directory) -/
theorem splitAtDepth_components (p : Str) (d : Nat) :
    (components (splitAtDepth p d).1, components (splitAtDepth p d).2)
      = splitAtDepthC (components p) d := by
  by_cases h0 : d = 0
  · subst h0; simp [splitAtDepth_zero, splitAtDepthC, components_nil]
  · by_cases hd : d ≤ (components p).length - (if isAbsolute p then 1 else 0)
    · have hanc := ancestors_getElem (p := p) (d := d) (by omega) hd
      simp only [splitAtDepth, hanc, Option.getD_some, stripPrefix_takeComps,
        components_takeComps, components_dropComps, splitAtDepthC]
      rw [Nat.min_eq_left (by omega)]
    · rw [splitAtDepth_beyond (by omega)]
      simp only [components_nil, components_trim, splitAtDepthC]
      by_cases ha : isAbsolute p = true
      · -- absolute: `d` is at least the number of components
        simp only [ha, if_true] at hd
        have h1 := compSpans_length_absolute ha
        rw [← components_length] at h1
        have : (components p).length - d = 0 := by omega
        simp [this]
      · simp only [ha] at hd
        have : (components p).length - d = 0 := by
          simp only [Bool.false_eq_true, if_false] at hd; omega
        simp [this]

/-- C14, first half, for every path: joining the components of the two segments gives the
    components of the path back -/
theorem splitAtDepth_roundtrip (p : Str) (d : Nat) :
    components (splitAtDepth p d).1 ++ components (splitAtDepth p d).2 = components p := by
  have h := splitAtDepth_components p d
  have := join_split_roundtrip (components p) d
  rw [← h] at this
  exact this

/-- C14, second half, for every path with at least `d` components: the relative segment has
    exactly `d` components -/
theorem splitAtDepth_rel_length (p : Str) {d : Nat} (h : d ≤ (components p).length) :
    (components (splitAtDepth p d).2).length = d := by
  have h1 := splitAtDepth_components p d
  have := depth_is_rel_length (components p) d h
  rw [← h1] at this
  exact this

/-- and otherwise it has all of them -/
theorem splitAtDepth_rel_all (p : Str) {d : Nat} (h : (components p).length ≤ d) :
    components (splitAtDepth p d).2 = components p := by
  have h1 := splitAtDepth_components p d
  have h2 : (splitAtDepthC (components p) d).2 = components p := by
    simp [splitAtDepthC, Nat.sub_eq_zero_of_le h]
  rw [← h1] at h2
  exact h2

/-! ### instances and a consequence -/

open Examples in
/-- a path with every kind of irregularity -/
example : (components (splitAtDepth (S "/.//./a/../b/.") 2).1,
    components (splitAtDepth (S "/.//./a/../b/.") 2).2)
    = ([.root, .normal (S "a")], [.parent, .normal (S "b")]) :=
  (splitAtDepth_components (S "/.//./a/../b/.") 2).trans (by decide)

open Examples in
example : splitAtDepth (S "/.//./a/../b/.") 2 = (S "/.//./a", S "../b") := by decide

/-- K-ENTRY-ROOTED-DEPTH for every rooted walk, whatever the names: with the pivot of
    `join_and_get_depth` the reported depth exceeds the number of components of the entry path, so
    the relative segment is the whole path and is one component short of the depth -/
theorem rooted_rel_short (base pre : Str) (names : List Str) (ha : isAbsolute pre = true) :
    let path := joinAll (joinAndGetDepth base pre).1 names
    let depth := names.length + (joinAndGetDepth base pre).2
    (components path).length = names.length + (components pre).length →
    components (splitAtDepth path depth).2 = components path
    ∧ (components (splitAtDepth path depth).2).length + 1 = depth := by
  simp only [joinAndGetDepth_absolute base ha]
  intro hlen
  have := splitAtDepth_rel_all (joinAll pre names)
    (d := names.length + ((components pre).length + 1)) (by omega)
  rw [this]
  exact ⟨rfl, by omega⟩

end Wax.Path

namespace Wax.Walk
open Wax Wax.Path

/-- C14 on the walk model, any pipeline, any entry (no hypothesis on root, names or pivot): the
    components of the two segments of `root_relative_paths` are the components of the entry path -/
theorem relativeFor_roundtrip (π : Pipeline) (e : Entry) (s : Sepn) :
    components (π.relativeFor e s).1 ++ components (π.relativeFor e s).2
      = components (π.path e) :=
  splitAtDepth_roundtrip _ _

/-- and the relative segment has as many components as the depth the entry reports, PROVIDED the
    entry path has that many components (which fails exactly for K-ENTRY-ROOTED-DEPTH, see
    `entry_rooted_off_by_one`) -/
theorem relativeFor_length (π : Pipeline) (e : Entry) (s : Sepn)
    (h : e.depth + (if s = .filtrate then π.pivot else 0) ≤ (components (π.path e)).length) :
    (components (π.relativeFor e s).2).length
      = e.depth + (if s = .filtrate then π.pivot else 0) :=
  splitAtDepth_rel_length _ h

end Wax.Walk
