import Wax.Proofs.NotProgram
import Wax.Proofs.WalkMachine
import Wax.Proofs.GlobVerdict
/-!
C03 on the walk model that is validated against the crate (`Wax/Walk.lean`): `PathExt::walk(root)
.not(t)` without depth bounds.  `not_pipeline_walk_exact_partial` carries
`not_program_walk_exact_partial` from the abstract traversal of `Wax/WalkTree.lean` over to the
walkdir machine with the `Not` combinator as its single layer: the entries that reach the consumer
as filtrate are exactly the entries of the plain walk whose root-relative path the pattern does not
match.  The path arithmetic (`root_relative_paths` of `join(root, names)` spells the names) is the
decidable hypothesis `entryFaithful`, as in `Wax/Proofs/GlobVerdict.lean`.
-/
namespace Wax.Walk
open Wax Wax.Path

/-! ### the abstract traversal: pruning yields a part of the full walk, and only looks at it -/

mutual
  theorem visit_sub_never (v : WalkTree.Entry → Bool) : ∀ (n : WalkTree.Node) (p : List Str) (x : WalkTree.Item),
      x ∈ WalkTree.visit v p n → x ∈ WalkTree.visit WalkTree.never p n
    | .file nm, p, x, h => by simpa [WalkTree.visit] using h
    | .errChild nm, p, x, h => by simpa [WalkTree.visit] using h
    | .errHere, p, x, h => by simpa [WalkTree.visit] using h
    | .dir nm cs, p, x, h => by
      simp only [WalkTree.visit, List.mem_cons] at h
      simp only [WalkTree.visit, WalkTree.never, Bool.false_eq_true, ↓reduceIte, List.mem_cons]
      rcases h with h | h
      · exact .inl h
      · split at h
        · cases h
        · exact .inr (visitList_sub_never v cs (p ++ [nm]) x h)
  theorem visitList_sub_never (v : WalkTree.Entry → Bool) : ∀ (ns : List WalkTree.Node) (p : List Str) (x : WalkTree.Item),
      x ∈ WalkTree.visitList v p ns → x ∈ WalkTree.visitList WalkTree.never p ns
    | [], _, _, h => by simp [WalkTree.visitList] at h
    | n :: ns, p, x, h => by
      simp only [WalkTree.visitList, List.mem_append] at h ⊢
      rcases h with h | h
      · exact .inl (visit_sub_never v n p x h)
      · exact .inr (visitList_sub_never v ns p x h)
end

mutual
  theorem visit_congr (v v' : WalkTree.Entry → Bool) : ∀ (n : WalkTree.Node) (p : List Str),
      (∀ e, WalkTree.Item.ok e ∈ WalkTree.visit WalkTree.never p n → v e = v' e) →
      WalkTree.visit v p n = WalkTree.visit v' p n
    | .file nm, p, _ => by simp [WalkTree.visit]
    | .errChild nm, p, _ => by simp [WalkTree.visit]
    | .errHere, p, _ => by simp [WalkTree.visit]
    | .dir nm cs, p, h => by
      have h0 : v ⟨p ++ [nm], true⟩ = v' ⟨p ++ [nm], true⟩ :=
        h _ (by simp [WalkTree.visit])
      have ih := visitList_congr v v' cs (p ++ [nm]) (fun e he => h e (by
        simp only [WalkTree.visit, WalkTree.never, Bool.false_eq_true, ↓reduceIte, List.mem_cons]
        exact .inr he))
      simp only [WalkTree.visit, h0, ih]
  theorem visitList_congr (v v' : WalkTree.Entry → Bool) : ∀ (ns : List WalkTree.Node) (p : List Str),
      (∀ e, WalkTree.Item.ok e ∈ WalkTree.visitList WalkTree.never p ns → v e = v' e) →
      WalkTree.visitList v p ns = WalkTree.visitList v' p ns
    | [], _, _ => rfl
    | n :: ns, p, h => by
      simp only [WalkTree.visitList]
      rw [visit_congr v v' n p (fun e he => h e (by
            simp only [WalkTree.visitList, List.mem_append]; exact .inl he)),
          visitList_congr v v' ns p (fun e he => h e (by
            simp only [WalkTree.visitList, List.mem_append]; exact .inr he))]
end

/-! ### one entry under `PathExt::walk(root).not(t)` -/

/-- `root.walk().not(t)`: no glob (so no pivot), one `Not` layer -/
def notPipeline (σ : Sem) (root : Str) (t : Tok) : Pipeline := ⟨σ, root, none, [.not (notProgram t)]⟩

/-- the plain walk `root.walk()` -/
def plainPipeline (σ : Sem) (root : Str) : Pipeline := ⟨σ, root, none, []⟩

theorem notPipeline_relative (σ : Sem) (root : Str) (t : Tok) (e : Entry)
    (hf : entryFaithful root e.names = true) :
    ((notPipeline σ root t).relativeFor e .filtrate).2 = WalkTree.relOf e.names := by
  simp only [entryFaithful, Bool.and_eq_true, beq_iff_eq] at hf
  simpa [Pipeline.relativeFor, Pipeline.path, Pipeline.pivot, notPipeline, Entry.depth] using hf.2

theorem notPipeline_decide (σ : Sem) (root : Str) (t : Tok) (e : Entry)
    (hf : entryFaithful root e.names = true) :
    (notPipeline σ root t).decide e =
      ((applyVerdict .filtrate ((notProgram t).residue σ (WalkTree.relOf e.names))).1,
       if (applyVerdict .filtrate ((notProgram t).residue σ (WalkTree.relOf e.names))).2 then 1 else 0) := by
  have hrel := notPipeline_relative σ root t e hf
  have hs : (notPipeline σ root t).stack e =
      [fun s => (notProgram t).residue σ ((notPipeline σ root t).relativeFor e s).2] := rfl
  unfold Pipeline.decide
  rw [hs]
  simp only [feedDep, hrel, Nat.zero_add]

/-- the walk is cancelled at an entry exactly when the residue is `Tree` -/
theorem notPipeline_cancels (σ : Sem) (root : Str) (t : Tok) (e : Entry)
    (hf : entryFaithful root e.names = true) :
    (notPipeline σ root t).cancels e = prunes σ t (WalkTree.relOf e.names) := by
  unfold Pipeline.cancels
  rw [notPipeline_decide σ root t e hf]
  unfold prunes
  cases (notProgram t).residue σ (WalkTree.relOf e.names) <;> rfl

/-- the entry reaches the consumer (is filtrate) exactly when the residue is `None` -/
theorem notPipeline_filtrate (σ : Sem) (root : Str) (t : Tok) (e : Entry)
    (hf : entryFaithful root e.names = true) :
    decide (((notPipeline σ root t).decide e).1 = .filtrate) = !discards σ t (WalkTree.relOf e.names) := by
  rw [notPipeline_decide σ root t e hf]
  unfold discards
  cases (notProgram t).residue σ (WalkTree.relOf e.names) <;> rfl

theorem plainPipeline_cancels (σ : Sem) (root : Str) : (plainPipeline σ root).cancels = fun _ => false := rfl

theorem plainPipeline_filtrate (σ : Sem) (root : Str) (e : Entry) :
    ((plainPipeline σ root).decide e).1 = .filtrate := rfl

/-! ### the whole walk -/

/-- what the consumer of a walk receives: the Ok entries that the combinators leave as filtrate
    (with `WalkTree` entries, i.e. the names and whether walkdir reports a directory) -/
def Pipeline.received (π : Pipeline) : List Item → List WalkTree.Entry
  | [] => []
  | .ok e :: rest =>
    if (π.decide e).1 = .filtrate then e.toWT :: Pipeline.received π rest else Pipeline.received π rest
  | .err .. :: rest => Pipeline.received π rest

theorem received_not (σ : Sem) (root : Str) (t : Tok) : ∀ (items : List Item),
    (∀ e, Item.ok e ∈ items → entryFaithful root e.names = true) →
    (notPipeline σ root t).received items = WalkTree.okKept (discards σ t) (items.map Item.toWT)
  | [], _ => rfl
  | .ok e :: rest, h => by
    have ih := received_not σ root t rest (fun e' he' => h e' (List.mem_cons_of_mem _ he'))
    have hd := notPipeline_filtrate σ root t e (h e (List.mem_cons_self ..))
    simp only [Pipeline.received, List.map, Item.toWT, WalkTree.okKept, Entry.toWT, ih]
    cases hdis : discards σ t (WalkTree.relOf e.names) with
    | true =>
      rw [hdis] at hd
      have : ¬ ((notPipeline σ root t).decide e).1 = .filtrate := by simpa using hd
      simp [this]
    | false =>
      rw [hdis] at hd
      have : ((notPipeline σ root t).decide e).1 = .filtrate := by simpa using hd
      simp [this]
  | .err p a :: rest, h => by
    have ih := received_not σ root t rest (fun e' he' => h e' (List.mem_cons_of_mem _ he'))
    simp only [Pipeline.received, List.map, Item.toWT, WalkTree.okKept, ih]

/-- the plain walk hands every Ok entry on -/
theorem received_plain (σ : Sem) (root : Str) : ∀ (items : List Item),
    WalkTree.Item.ok x ∈ items.map Item.toWT ↔ x ∈ (plainPipeline σ root).received items
  | [] => by simp [Pipeline.received]
  | .ok e :: rest => by
    have ih := received_plain (x := x) σ root rest
    simp only [Pipeline.received, plainPipeline_filtrate, ↓reduceIte, List.map, Item.toWT,
      List.mem_cons, WalkTree.Item.ok.injEq, ih]
  | .err p a :: rest => by
    have ih := received_plain (x := x) σ root rest
    simp only [Pipeline.received, List.map, Item.toWT, List.mem_cons, ih]
    simp

/-- the items of a walk without depth bounds below its root entry, as the machine yields them -/
def Pipeline.below (π : Pipeline) (cs : List WNode) : List Item :=
  run 0 none π.cancels (stackSize [⟨[], cs⟩]) [⟨[], cs⟩]

/-- **C03 on the walk model** (goal 4 on `Wax/Walk.lean`): for `root.walk().not(t)` without depth
    bounds over a directory whose entries have faithful paths, with `t` in `notF01`, its `Always`
    alternatives descendant-closed and not matching the empty path — the entries the consumer
    receives are exactly the entries of the plain walk `root.walk()` whose root-relative path the
    pattern does not match (although whole directories are never read). -/
theorem not_pipeline_walk_exact_partial (σ : Sem) (hdot : σ.dotall = true) (t : Tok)
    (hF : notF01 t = true)
    (hdesc : ∀ a ∈ intoAlternatives t, alwaysExhaustive a = true →
      ∀ w x, Spec.Matches σ a w → Spec.Matches σ a (w ++ '/' :: x))
    (hempty : ∀ a ∈ intoAlternatives t, alwaysExhaustive a = true → ¬ Spec.Matches σ a [])
    (root : Str) (cs : List WNode)
    (hfaith : ∀ x, WalkTree.Item.ok x ∈ WalkTree.visitList WalkTree.never [] (toWTList cs) →
      entryFaithful root x.path = true) :
    let π := notPipeline σ root t
    let π0 := plainPipeline σ root
    π.received (π.below cs) = WalkTree.okKept (discards σ t) ((π0.below cs).map Item.toWT) ∧
    ∀ x, x ∈ π.received (π.below cs) ↔
      (x ∈ π0.received (π0.below cs) ∧ ¬ Spec.Matches σ t (WalkTree.relOf x.path)) := by
  intro π π0
  -- the two machines against the structural traversal
  have h1 : (π.below cs).map Item.toWT = WalkTree.visitList π.verdictWT [] (toWTList cs) :=
    items_refine π cs
  have h0 : (π0.below cs).map Item.toWT = WalkTree.visitList WalkTree.never [] (toWTList cs) := by
    exact items_refine π0 cs
  -- on the entries of the tree the verdict is `prunes`
  have hv : WalkTree.visitList π.verdictWT [] (toWTList cs) =
      WalkTree.visitList (fun e => prunes σ t (WalkTree.relOf e.path)) [] (toWTList cs) := by
    refine visitList_congr _ _ _ _ (fun e he => ?_)
    exact notPipeline_cancels σ root t ⟨e.path, .d⟩ (hfaith e he)
  -- every entry the pruned walk yields is faithful
  have hfa : ∀ e, Item.ok e ∈ π.below cs → entryFaithful root e.names = true := by
    intro e he
    have : (Item.ok e).toWT ∈ (π.below cs).map Item.toWT := List.mem_map_of_mem he
    rw [h1] at this
    exact hfaith e.toWT (visitList_sub_never _ _ _ _ this)
  have hrec := received_not σ root t (π.below cs) hfa
  have heq := WalkTree.not_exactL (discards σ t) (prunes σ t) (prunes_imp_discards σ t)
    (prunes_closed σ hdot t hF hdesc hempty) (toWTList cs) []
  have hall : π.received (π.below cs) =
      WalkTree.okKept (discards σ t) ((π0.below cs).map Item.toWT) := by
    rw [hrec, h1, hv, heq, h0]
  refine ⟨hall, fun x => ?_⟩
  rw [hall, mem_okKept, discards_eq_false σ hdot t hF, received_plain σ root]

/-- the same with decidable hypotheses on the pattern only (`notWalkFrag`) -/
theorem not_pipeline_walk_exact_frag (σ : Sem) (hdot : σ.dotall = true) (t : Tok)
    (hF : notF01 t = true) (hW : notWalkFrag t = true) (root : Str) (cs : List WNode)
    (hfaith : ∀ x, WalkTree.Item.ok x ∈ WalkTree.visitList WalkTree.never [] (toWTList cs) →
      entryFaithful root x.path = true) :
    let π := notPipeline σ root t
    let π0 := plainPipeline σ root
    π.received (π.below cs) = WalkTree.okKept (discards σ t) ((π0.below cs).map Item.toWT) ∧
    ∀ x, x ∈ π.received (π.below cs) ↔
      (x ∈ π0.received (π0.below cs) ∧ ¬ Spec.Matches σ t (WalkTree.relOf x.path)) := by
  have hall : ∀ a ∈ intoAlternatives t, alwaysExhaustive a = true →
      descFrag a = true ∧ 1 ≤ minLenTop a.concatenation := by
    intro a ha hx
    have := List.all_eq_true.mp hW a (List.mem_filter.mpr ⟨ha, hx⟩)
    simpa using this
  refine not_pipeline_walk_exact_partial σ hdot t hF ?_ ?_ root cs hfaith
  · intro a ha hx w x hm
    exact descFrag_sound σ a (hall a ha hx).1 hx w x hm
  · intro a ha hx hm
    have h1 := (hall a ha hx).2
    have h2 := sms_minLenTop σ (show SMs σ ⟨true, true⟩ a.concatenation [] from hm)
    simp only [List.length_nil] at h2
    omega

/-! ### the theorem at work -/

/-- below `r`: `a`, `c/x/y`, `d/a`, `d/e` (a link) -/
def npDir : List WNode :=
  [.leaf ['a'] .f, .dir ['c'] [.dir ['x'] [.leaf ['y'] .f]], .dir ['d'] [.leaf ['a'] .f, .leaf ['e'] .l]]

theorem npDir_faithful : ∀ x, WalkTree.Item.ok x ∈ WalkTree.visitList WalkTree.never [] (toWTList npDir) →
    entryFaithful ['r'] x.path = true := by
  intro x hx
  simp only [npDir, toWTList, WNode.toWT, WalkTree.visitList, WalkTree.visit, WalkTree.never,
    Bool.false_eq_true, ↓reduceIte, List.nil_append, List.cons_append, List.append_nil,
    List.mem_cons, WalkTree.Item.ok.injEq, List.not_mem_nil, or_false] at hx
  rcases hx with rfl | rfl | rfl | rfl | rfl | rfl | rfl <;> decide

-- `r.walk().not("{a,{b,c/**}}")`: the machine yields 5 of the 7 entries (it never reads `c`), the
-- consumer receives `d`, `d/a`, `d/e`: the entries of the plain walk that the pattern does not match
example :
    ((notPipeline σcs ['r'] npTok).below npDir).length = 5 ∧
    ((plainPipeline σcs ['r']).below npDir).length = 7 ∧
    (notPipeline σcs ['r'] npTok).received ((notPipeline σcs ['r'] npTok).below npDir) =
      [⟨[['d']], true⟩, ⟨[['d'], ['a']], false⟩, ⟨[['d'], ['e']], false⟩] := by
  refine ⟨by decide, by decide, by decide⟩

example (x : WalkTree.Entry) :
    x ∈ (notPipeline σcs ['r'] npTok).received ((notPipeline σcs ['r'] npTok).below npDir) ↔
      (x ∈ (plainPipeline σcs ['r']).received ((plainPipeline σcs ['r']).below npDir) ∧
        ¬ Spec.Matches σcs npTok (WalkTree.relOf x.path)) :=
  (not_pipeline_walk_exact_frag σcs rfl npTok rfl rfl ['r'] npDir npDir_faithful).2 x

end Wax.Walk
