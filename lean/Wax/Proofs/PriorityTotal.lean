import Wax.Proofs.Priority
/-!
# `Prefer` is a strict order, total on the parse trees of one pattern over one text

* `Prefer.irrefl`, `Prefer.asymm`, `Prefer.trans`: a strict partial order on all trees;
* `pt_total`: two parse trees of the same pattern (same node, same slot base) whose words are both
  prefixes of one text are equal or comparable.  (A path through the program is determined by the
  text and by the way it leaves each union it enters, and `Prefer` compares the first union where two
  paths part.)
* `least_unique`: the least guard-respecting parse tree of `(r, s)` is unique;
* `exec_eq_of_least`, `exec_iff_least`: the captures `Re.exec` reports are the captures of *the*
  least tree: a function of `(r, s)` given without reference to the search.
-/
namespace Wax

/-! ### strict order -/

theorem Prefer.irrefl : ∀ (t : PT), ¬ Prefer t t
  | .eps, h => by cases h
  | .chars _, h => by cases h
  | .seq a b, h => by
    cases h with
    | seqL h => exact Prefer.irrefl a h
    | seqR h => exact Prefer.irrefl b h
  | .st _ t, h => by
    cases h with
    | st h => exact Prefer.irrefl t h
  | .inl t, h => by
    cases h with
    | inl h => exact Prefer.irrefl t h
  | .inr t, h => by
    cases h with
    | inr h => exact Prefer.irrefl t h
  | .cap _ t, h => by
    cases h with
    | cap h => exact Prefer.irrefl t h

theorem Prefer.trans {t1 t2 t3 : PT} (h12 : Prefer t1 t2) (h23 : Prefer t2 t3) : Prefer t1 t3 := by
  induction h12 generalizing t3 with
  | seqL h ih =>
    cases h23 with
    | seqL h' => exact .seqL (ih h')
    | seqR _ => exact .seqL h
  | seqR h ih =>
    cases h23 with
    | seqL h' => exact .seqL h'
    | seqR h' => exact .seqR (ih h')
  | st _ ih =>
    cases h23 with
    | st h' => exact .st (ih h')
  | inlr =>
    cases h23 with
    | inr _ => exact .inlr
  | inl _ ih =>
    cases h23 with
    | inlr => exact .inlr
    | inl h' => exact .inl (ih h')
  | inr _ ih =>
    cases h23 with
    | inr h' => exact .inr (ih h')
  | cap _ ih =>
    cases h23 with
    | cap h' => exact .cap (ih h')

theorem Prefer.asymm {t1 t2 : PT} (h : Prefer t1 t2) : ¬ Prefer t2 t1 :=
  fun h' => Prefer.irrefl t1 (h.trans h')

/-! ### comparability -/

/-- equal or comparable -/
def Cmp (t t' : PT) : Prop := t = t' ∨ Prefer t t' ∨ Prefer t' t

theorem Cmp.refl (t : PT) : Cmp t t := Or.inl rfl

theorem Cmp.symm {t t' : PT} (h : Cmp t t') : Cmp t' t := by
  rcases h with h | h | h
  · exact Or.inl h.symm
  · exact Or.inr (Or.inr h)
  · exact Or.inr (Or.inl h)

theorem Cmp.seq {a a' b b' : PT} (ha : Cmp a a') (hb : a = a' → Cmp b b') : Cmp (.seq a b) (.seq a' b') := by
  rcases ha with rfl | h | h
  · rcases hb rfl with rfl | h | h
    · exact Or.inl rfl
    · exact Or.inr (Or.inl (.seqR h))
    · exact Or.inr (Or.inr (.seqR h))
  · exact Or.inr (Or.inl (.seqL h))
  · exact Or.inr (Or.inr (.seqL h))

theorem Cmp.st {x : Sid} {t t' : PT} (h : Cmp t t') : Cmp (.st x t) (.st x t') := by
  rcases h with rfl | h | h
  · exact Or.inl rfl
  · exact Or.inr (Or.inl (.st h))
  · exact Or.inr (Or.inr (.st h))

theorem Cmp.inl {t t' : PT} (h : Cmp t t') : Cmp (.inl t) (.inl t') := by
  rcases h with rfl | h | h
  · exact Or.inl rfl
  · exact Or.inr (Or.inl (.inl h))
  · exact Or.inr (Or.inr (.inl h))

theorem Cmp.inr {t t' : PT} (h : Cmp t t') : Cmp (.inr t) (.inr t') := by
  rcases h with rfl | h | h
  · exact Or.inl rfl
  · exact Or.inr (Or.inl (.inr h))
  · exact Or.inr (Or.inr (.inr h))

theorem Cmp.inlr (t t' : PT) : Cmp (.inl t) (.inr t') := Or.inr (Or.inl .inlr)

theorem Cmp.cap {n : Nat} {t t' : PT} (h : Cmp t t') : Cmp (.cap n t) (.cap n t') := by
  rcases h with rfl | h | h
  · exact Or.inl rfl
  · exact Or.inr (Or.inl (.cap h))
  · exact Or.inr (Or.inr (.cap h))

theorem Cmp.more {lazy : Bool} {t t' : PT} (h : Cmp t t') : Cmp (Wax.moreT lazy t) (Wax.moreT lazy t') := by
  cases lazy
  · exact h.inl
  · exact h.inr

theorem Cmp.more_leave (lazy : Bool) (t : PT) : Cmp (moreT lazy t) (leaveT lazy) := by
  cases lazy
  · exact Cmp.inlr _ _
  · exact (Cmp.inlr _ _).symm

/-- any two trees of `A` at the front of one text are equal or comparable -/
def Tot (A : PSet) : Prop := ∀ (w : Str) (t t' : PT), A t → A t' → t.word <+: w → t'.word <+: w → Cmp t t'

theorem Tot.eps : Tot EpsP := by
  rintro w t t' rfl rfl _ _
  exact Cmp.refl _

theorem Tot.none : Tot NoneP := fun _ _ _ h => h.elim

/-- the second components of two trees with the same first component lie at the front of one text -/
theorem prefix_rest {a b b' w : Str} (h : a ++ b <+: w) (h' : a ++ b' <+: w) :
    ∃ w2, b <+: w2 ∧ b' <+: w2 := by
  obtain ⟨x, e⟩ := h
  obtain ⟨y, e'⟩ := h'
  refine ⟨b ++ x, List.prefix_append _ _, ?_⟩
  have : a ++ (b ++ x) = a ++ (b' ++ y) := by
    rw [← List.append_assoc, ← List.append_assoc, e, e']
  rw [List.append_cancel_left this]
  exact List.prefix_append _ _

theorem Tot.seq {A B : PSet} (hA : Tot A) (hB : Tot B) : Tot (SeqP A B) := by
  rintro w _ _ ⟨a, b, rfl, ha, hb⟩ ⟨a', b', rfl, ha', hb'⟩ hp hp'
  simp only [PT.word] at hp hp'
  refine Cmp.seq (hA w a a' ha ha' ((List.prefix_append _ _).trans hp) ((List.prefix_append _ _).trans hp')) ?_
  rintro rfl
  obtain ⟨w2, h1, h2⟩ := prefix_rest hp hp'
  exact hB w2 b b' hb hb' h1 h2

theorem Tot.st {A : PSet} (x : Sid) (hA : Tot A) : Tot (StP x A) := by
  rintro w _ _ ⟨a, rfl, ha⟩ ⟨a', rfl, ha'⟩ hp hp'
  exact (hA w a a' ha ha' hp hp').st

theorem Tot.or {A B : PSet} (hA : Tot A) (hB : Tot B) : Tot (OrP A B) := by
  rintro w _ _ (⟨a, rfl, ha⟩ | ⟨b, rfl, hb⟩) (⟨a', rfl, ha'⟩ | ⟨b', rfl, hb'⟩) hp hp'
  · exact (hA w a a' ha ha' hp hp').inl
  · exact Cmp.inlr _ _
  · exact (Cmp.inlr _ _).symm
  · exact (hB w b b' hb hb' hp hp').inr

theorem Tot.pref {M L : PSet} (lazy : Bool) (hM : Tot M) (hL : Tot L) : Tot (PrefP lazy M L) := by
  cases lazy
  · exact Tot.or hM hL
  · exact Tot.or hL hM

theorem Tot.cap {A : PSet} (n : Nat) (hA : Tot A) : Tot (CapP n A) := by
  rintro w _ _ ⟨a, rfl, ha⟩ ⟨a', rfl, ha'⟩ hp hp'
  exact (hA w a a' ha ha' hp hp').cap

theorem word_moreT (lazy : Bool) (x : PT) : (moreT lazy x).word = x.word := by cases lazy <;> rfl

theorem Tot.lup {B : PSet} (lazy : Bool) (U : Sid) (hB : Tot B) : Tot (LUP lazy B U) := by
  intro w t t' ht
  induction ht generalizing w t' with
  | leave =>
    intro ht' _ _
    cases ht' with
    | leave => exact Cmp.refl _
    | more _ _ => exact (Cmp.more_leave lazy _).symm.st
  | @more a l ha _ ih =>
    intro ht' hp hp'
    cases ht' with
    | leave => exact (Cmp.more_leave lazy _).st
    | @more a' l' ha' hl' =>
      simp only [PT.word, word_moreT] at hp hp'
      refine (Cmp.seq (hB w a a' ha ha' ((List.prefix_append _ _).trans hp)
        ((List.prefix_append _ _).trans hp')) ?_).more.st
      rintro rfl
      obtain ⟨w2, h1, h2⟩ := prefix_rest hp hp'
      exact ih w2 l' hl' h1 h2

theorem Tot.plp {B : PSet} (lazy : Bool) (P : Sid) (hB : Tot B) : Tot (PLP lazy B P) := by
  intro w t t' ht
  induction ht generalizing w t' with
  | @last a ha =>
    intro ht' hp hp'
    cases ht' with
    | @last a' ha' =>
      simp only [PT.word] at hp hp'
      exact Cmp.seq (hB w a a' ha ha' ((List.prefix_append _ _).trans hp) ((List.prefix_append _ _).trans hp'))
        (fun _ => Cmp.refl _)
    | @more a' l' ha' hl' =>
      simp only [PT.word] at hp hp'
      exact Cmp.seq (hB w a a' ha ha' ((List.prefix_append _ _).trans hp) ((List.prefix_append _ _).trans hp'))
        (fun _ => (Cmp.more_leave lazy _).symm.st)
  | @more a l ha _ ih =>
    intro ht' hp hp'
    cases ht' with
    | @last a' ha' =>
      simp only [PT.word] at hp hp'
      exact Cmp.seq (hB w a a' ha ha' ((List.prefix_append _ _).trans hp) ((List.prefix_append _ _).trans hp'))
        (fun _ => (Cmp.more_leave lazy _).st)
    | @more a' l' ha' hl' =>
      simp only [PT.word, word_moreT] at hp hp'
      refine Cmp.seq (hB w a a' ha ha' ((List.prefix_append _ _).trans hp)
        ((List.prefix_append _ _).trans hp')) ?_
      rintro rfl
      obtain ⟨w2, h1, h2⟩ := prefix_rest hp hp'
      exact (ih w2 l' hl' h1 h2).more.st

theorem Tot.sq {B : PSet} (lazy : Bool) (Q P : Sid) (hB : Tot B) : Tot (SQP lazy B Q P) :=
  Tot.st Q (Tot.pref lazy (Tot.plp lazy P hB) Tot.eps)

section copies
variable {B : Nat → PSet}

theorem Tot.exactly (hB : ∀ i, Tot (B i)) : ∀ (n i : Nat), Tot (ExactlyP B n i)
  | 0, _ => Tot.eps
  | n + 1, i => Tot.seq (hB i) (Tot.exactly hB n (i + 1))

theorem Tot.optNest (hB : ∀ i, Tot (B i)) (un : Nat → Sid) : ∀ (n i : Nat), Tot (OptNestP B un n i)
  | 0, _ => Tot.eps
  | n + 1, i => Tot.st (un i) (Tot.or (Tot.seq (hB i) (Tot.optNest hB un n (i + 1))) Tot.eps)

theorem Tot.starP (hB : ∀ i, Tot (B i)) (nn : Bool) (un : Nat → Sid) (lazy : Bool) :
    Tot (StarP nn B un lazy) := by
  unfold StarP
  split
  · exact Tot.lup lazy _ (hB 0)
  · exact Tot.sq lazy _ _ (hB 0)

theorem Tot.repeatP (hB : ∀ i, Tot (B i)) (nn : Bool) (un : Nat → Sid) (lo : Nat) (hi : Option Nat) :
    Tot (RepeatP nn B un lo hi) := by
  cases hi with
  | some h =>
    by_cases hle : lo ≤ h
    · simp only [RepeatP, if_pos hle]
      exact Tot.seq (Tot.exactly hB _ _) (Tot.optNest hB un _ _)
    · simp only [RepeatP, if_neg hle]
      exact Tot.none
  | none =>
    cases lo with
    | zero =>
      simp only [RepeatP]
      exact Tot.starP hB nn un false
    | succ m =>
      simp only [RepeatP]
      exact Tot.seq (Tot.exactly hB _ _) (Tot.plp false _ (hB _))

end copies

theorem prefix_eq_of_length {u u' w : Str} (h : u <+: w) (h' : u' <+: w) (hl : u.length = u'.length) :
    u = u' :=
  (List.prefix_of_prefix_length_le h h' (Nat.le_of_eq hl)).eq_of_length hl

mutual
  /-- **the parse trees of one pattern at the front of one text are totally ordered** -/
  theorem pt_total (σ : Sem) : ∀ (r : Re) (id : Sid) (n : Nat), Tot (r.PT σ id n)
    | .lit s ci, id, n => by
      rintro w _ _ ⟨u, hu, rfl⟩ ⟨u', hu', rfl⟩ hp hp'
      have : u = u' := prefix_eq_of_length hp hp' ((litEq_len σ ci s u hu).trans (litEq_len σ ci s u' hu').symm)
      subst this
      exact Cmp.refl _
    | .chr p, id, n => by
      rintro w _ _ ⟨a, _, rfl⟩ ⟨a', _, rfl⟩ hp hp'
      have : [a] = [a'] := prefix_eq_of_length hp hp' rfl
      rw [this]
      exact Cmp.refl _
    | .never, id, n => Tot.none
    | .cat l, id, n => by
      simp only [Re.PT]
      exact ptCat_total σ l id 0 n
    | .alt l, id, n => by
      have h := ptAlt_total σ l id 1 n
      rcases l with _ | ⟨a, _ | ⟨b, l⟩⟩
      · simp only [Re.PT]; exact h
      · simp only [Re.PT]; exact h
      · simp only [Re.PT]; exact Tot.st _ h
    | .star r, id, n => by
      simp only [Re.PT]
      exact Tot.starP (fun i => pt_total σ r _ n) _ _ _
    | .lazyStar r, id, n => by
      simp only [Re.PT]
      exact Tot.starP (fun i => pt_total σ r _ n) _ _ _
    | .opt r, id, n => by
      simp only [Re.PT]
      exact Tot.st _ (Tot.or (pt_total σ r _ n) Tot.eps)
    | .rep r lo hi, id, n => by
      simp only [Re.PT]
      exact Tot.repeatP (fun i => pt_total σ r _ n) _ _ lo hi
    | .cap r, id, n => by
      simp only [Re.PT]
      exact Tot.cap n (pt_total σ r _ (n + 1))
    | .grp r, id, n => by
      simp only [Re.PT]
      exact pt_total σ r _ n
  theorem ptCat_total (σ : Sem) : ∀ (l : List Re) (id : Sid) (j n : Nat), Tot (Re.PTCat σ l id j n)
    | [], id, j, n => by simp only [Re.PTCat]; exact Tot.eps
    | r :: rs, id, j, n => by
      simp only [Re.PTCat]
      exact Tot.seq (pt_total σ r _ n) (ptCat_total σ rs id (j + 1) _)
  theorem ptAlt_total (σ : Sem) : ∀ (l : List Re) (id : Sid) (j n : Nat), Tot (Re.PTAlt σ l id j n)
    | [], id, j, n => by simp only [Re.PTAlt]; exact Tot.none
    | r :: rs, id, j, n => by
      simp only [Re.PTAlt]
      exact Tot.or (pt_total σ r _ n) (ptAlt_total σ rs id (j + 1) _)
end

/-! ### uniqueness: the reported captures are a function of the pattern and the text -/

/-- two parse trees of the same text are equal or one is preferred -/
theorem accepts_cmp {σ : Sem} {r : Re} {s : Str} {t t' : PT} (h : Accepts σ r s t) (h' : Accepts σ r s t') :
    t = t' ∨ Prefer t t' ∨ Prefer t' t :=
  pt_total σ r [] 0 s t t' h.mem h'.mem (h.word ▸ List.prefix_refl _) (h'.word ▸ List.prefix_refl _)

/-- **the least guard-respecting parse tree is unique** -/
theorem least_unique {σ : Sem} {r : Re} {s : Str} {t t' : PT} (h : IsLeast σ r s t) (h' : IsLeast σ r s t') :
    t = t' := by
  rcases accepts_cmp h.1 h'.1 with e | hp | hp
  · exact e
  · exact (h'.2 t h.1 hp).elim
  · exact (h.2 t' h'.1 hp).elim

/-- the least tree is preferred to every other guard-respecting parse tree (a minimum, not only a
    minimal element) -/
theorem IsLeast.le {σ : Sem} {r : Re} {s : Str} {t t' : PT} (h : IsLeast σ r s t) (h' : Accepts σ r s t') :
    t = t' ∨ Prefer t t' := by
  rcases accepts_cmp h.1 h' with e | hp | hp
  · exact Or.inl e
  · exact Or.inr hp
  · exact (h.2 t' h' hp).elim

/-- **the search reports the captures of the least tree**, whichever way that tree was found -/
theorem exec_eq_of_least {σ : Sem} {r : Re} {s : Str} {t : PT} (h : IsLeast σ r s t) :
    r.exec σ s = some (some s :: t.caps r.initCaps) := by
  cases he : r.exec σ s with
  | none => exact ((exec_none_iff_no_tree.mp he) t h.1).elim
  | some res =>
    have hs : ∃ caps, res = some s :: caps := by
      unfold Re.exec at he
      split at he
      · cases he
      · cases he
        exact ⟨_, rfl⟩
    obtain ⟨caps, rfl⟩ := hs
    obtain ⟨t0, h0, hc⟩ := exec_least he
    rw [least_unique h h0, hc]

/-- **`Re.exec`, declaratively**: it reports `caps` iff `caps` are the captures of the least
    guard-respecting parse tree -/
theorem exec_iff_least {σ : Sem} {r : Re} {s : Str} {caps : Caps} :
    r.exec σ s = some (some s :: caps) ↔ ∃ t, IsLeast σ r s t ∧ t.caps r.initCaps = caps := by
  constructor
  · exact exec_least
  · rintro ⟨t, ht, rfl⟩
    exact exec_eq_of_least ht

/-- a text that has a guard-respecting parse tree has a least one -/
theorem least_exists {σ : Sem} {r : Re} {s : Str} {t : PT} (h : Accepts σ r s t) : ∃ t0, IsLeast σ r s t0 := by
  cases he : r.exec σ s with
  | none => exact ((exec_none_iff_no_tree.mp he) t h).elim
  | some res =>
    have hs : ∃ caps, res = some s :: caps := by
      unfold Re.exec at he
      split at he
      · cases he
      · cases he
        exact ⟨_, rfl⟩
    obtain ⟨caps, rfl⟩ := hs
    obtain ⟨t0, h0, _⟩ := exec_least he
    exact ⟨t0, h0⟩

/-- guard-respecting parse trees exist exactly for the texts of the language -/
theorem accepts_iff_matches {σ : Sem} {r : Re} {s : Str} : (∃ t, Accepts σ r s t) ↔ Matches σ r s := by
  constructor
  · rintro ⟨t, ht⟩
    cases he : r.exec σ s with
    | none => exact ((exec_none_iff_no_tree.mp he) t ht).elim
    | some res => exact (exec_sound he).1
  · intro hm
    obtain ⟨res, he⟩ := exec_complete hm
    have hs : ∃ caps, res = some s :: caps := by
      unfold Re.exec at he
      split at he
      · cases he
      · cases he
        exact ⟨_, rfl⟩
    obtain ⟨caps, rfl⟩ := hs
    obtain ⟨t0, h0, _⟩ := exec_least he
    exact ⟨t0, h0.1⟩

/-! ### the hypotheses are satisfiable -/

/-- `(a|ab)(c|bcd)(d*)` on `abcd` has a least tree (and two guard-respecting trees to choose from:
    `a·bcd·` and `ab·c·d`) -/
theorem exPerl_least : ∃ t, IsLeast trivSem exPerl ['a', 'b', 'c', 'd'] t ∧
    t.caps exPerl.initCaps = [some ['a'], some ['b', 'c', 'd'], some []] :=
  exec_least (by decide)

example (t t' : PT) (h : IsLeast trivSem exPerl ['a', 'b', 'c', 'd'] t) (h' : IsLeast trivSem exPerl ['a', 'b', 'c', 'd'] t') :
    t = t' := least_unique h h'

/-- the captures of *any* least tree are the reported ones -/
example (t : PT) (h : IsLeast trivSem exPerl ['a', 'b', 'c', 'd'] t) :
    t.caps exPerl.initCaps = [some ['a'], some ['b', 'c', 'd'], some []] := by
  obtain ⟨t0, h0, hc⟩ := exPerl_least
  rw [least_unique h h0, hc]

/-- two different guard-respecting trees of `(?:a?)*` on the empty text (one empty round; leave at
    once): comparable, the first is preferred -/
example : Accepts trivSem exOptStar [] exOptStar1 ∧ Accepts trivSem exOptStar [] (.st [0] (.inr .eps)) ∧
    Prefer exOptStar1 (.st [0] (.inr .eps)) := by
  refine ⟨⟨exOptStar1_mem, rfl, by decide⟩, ⟨?_, rfl, by decide⟩, .st .inlr⟩
  simp only [exOptStar, Re.PT, StarP, exOptStar_nullable]
  exact ⟨_, rfl, Or.inr ⟨_, rfl, rfl⟩⟩

end Wax
