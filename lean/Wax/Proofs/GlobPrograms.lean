import Wax.Proofs.GlobVerdict
import Wax.Proofs.EncodeSpec
/-!
C02: the programs `WalkProgram::compile` builds for a glob (`walkPrograms`, `componentProgram`,
`encodeTop` of the model) satisfy what `Wax/Proofs/GlobVerdict.lean` needs of them
(`ProgramsSound`), for globs of the shape `c₁/c₂/…/cₖ/c` and `c₁/…/cₖ/c/**…` with boundary-free
components inside the fragment `F01` on which the encoder is proved faithful.  Hence the theorems
there hold for the programs the crate actually compiles.
-/
set_option linter.unusedSimpArgs false

namespace Wax.Walk
open Wax Wax.Path Wax.WalkTree

/-! ### the context does not matter without tree wildcards -/

mutual
  theorem sm_ctx (σ : Sem) : ∀ {c : Ctx} {t : Tok} {w : Str},
      SM σ c t w → noBoundary t = true → ∀ c', SM σ c' t w
    | _, _, _, .lit h, _, _ => .lit h
    | _, _, _, .sep, hn, _ => by simp [noBoundary] at hn
    | _, _, _, .cls hp, _, _ => .cls hp
    | _, _, _, .one hp, _, _ => .one hp
    | _, _, _, .zom hw, _, _ => .zom hw
    | _, _, _, .tree _, hn, _ => by simp [noBoundary] at hn
    | _, _, _, .alt hb hm, hn, c' => by
      simp only [noBoundary] at hn
      exact .alt hb (sms_ctx σ hm (noBoundaryL_concatenation (noBoundaryL_mem hb hn)) c')
    | _, _, _, .rep h1 h2 h3, hn, c' => by
      simp only [noBoundary] at hn
      exact .rep h1 h2 (srep_ctx σ h3 (noBoundaryL_concatenation hn) c')
    | _, _, _, .cat h, hn, c' => by
      simp only [noBoundary] at hn
      exact .cat (sms_ctx σ h hn c')
  theorem sms_ctx (σ : Sem) : ∀ {c : Ctx} {ts : List Tok} {w : Str},
      SMs σ c ts w → noBoundaryL ts = true → ∀ c', SMs σ c' ts w
    | _, _, _, .nil, _, _ => .nil
    | _, _, _, .cons hu hv, hn, c' => by
      simp only [noBoundaryL, Bool.and_eq_true] at hn
      exact .cons (sm_ctx σ hu hn.1 _) (sms_ctx σ hv hn.2 _)
  theorem srep_ctx (σ : Sem) : ∀ {c : Ctx} {body : List Tok} {n : Nat} {w : Str},
      SRep σ c body n w → noBoundaryL body = true → ∀ c', SRep σ c' body n w
    | _, _, _, _, .zero, _, _ => .zero
    | _, _, _, _, .one h, hn, c' => .one (sms_ctx σ h hn c')
    | _, _, _, _, .more hu hv, hn, _ => .more (sms_ctx σ hu hn _) (srep_ctx σ hv hn _)
end

/-! ### a component program accepts exactly what its component matches -/

/-- a component the theorems cover: not empty, boundary-free, inside the encoder's fragment -/
def compOk (c : List Tok) : Bool := !c.isEmpty && noBoundaryL c && F01 (.cat ⟨0, 0⟩ c)

theorem componentProgram_iff (σ : Sem) (hdot : σ.dotall = true) (c : List Tok)
    (hF : F01 (.cat ⟨0, 0⟩ c) = true) (w : Str) :
    (componentProgram c).matchB σ w = true ↔ SMs σ ⟨true, true⟩ c w := by
  rw [matchB_iff]
  exact encode_eq_spec_partial σ hdot (.cat ⟨0, 0⟩ c) hF w

theorem componentProgram_accepts (σ : Sem) (hdot : σ.dotall = true) (c : List Tok)
    (hc : compOk c = true) (ctx : Ctx) (n : Str) (h : SMs σ ctx c n) :
    (componentProgram c).matchB σ n = true := by
  simp only [compOk, Bool.and_eq_true] at hc
  exact (componentProgram_iff σ hdot c hc.2 n).mpr (sms_ctx σ h hc.1.2 _)

/-! ### the components of `c₁/c₂/…/cₖ/rest` -/

mutual
  theorem hasBoundaryT_of_noBoundary : ∀ (t : Tok), noBoundary t = true → hasBoundaryT t = false
    | .lit .., _ => rfl
    | .sep _, h => by simp [noBoundary] at h
    | .cls .., _ => rfl
    | .one _, _ => rfl
    | .zom .., _ => rfl
    | .tree .., h => by simp [noBoundary] at h
    | .alt _ bs, h => by
      simp only [noBoundary] at h
      simp only [hasBoundaryT, hasBoundaryL_of_noBoundaryL bs h]
    | .cat _ ts, h => by
      simp only [noBoundary] at h
      simp only [hasBoundaryT, hasBoundaryL_of_noBoundaryL ts h]
    | .rep _ b _ _, h => by
      simp only [noBoundary] at h
      simp only [hasBoundaryT, hasBoundaryT_of_noBoundary b h]
  theorem hasBoundaryL_of_noBoundaryL : ∀ (ts : List Tok), noBoundaryL ts = true →
      hasBoundaryL ts = false
    | [], _ => rfl
    | t :: ts, h => by
      simp only [noBoundaryL, Bool.and_eq_true] at h
      simp only [hasBoundaryL, hasBoundaryT_of_noBoundary t h.1, hasBoundaryL_of_noBoundaryL ts h.2,
        Bool.or_self]
end

/-- a run of tokens none of which is a separator or a tree wildcard is collected into the current
    component -/
theorem componentsGo_run : ∀ (c ts : List Tok) (cur : Option (List Tok)), noBoundaryL c = true →
    componentsGo (c ++ ts) cur =
      componentsGo ts (if c.isEmpty then cur else some (cur.getD [] ++ c))
  | [], ts, cur, _ => by simp
  | t :: c, ts, cur, h => by
    simp only [noBoundaryL, Bool.and_eq_true] at h
    have ih := componentsGo_run c ts (some (cur.getD [] ++ [t])) h.2
    have hstep : componentsGo (t :: (c ++ ts)) cur =
        componentsGo (c ++ ts) (some (cur.getD [] ++ [t])) := by
      cases t <;> first | rfl | (simp [noBoundary] at h)
    simp only [List.cons_append, hstep, ih, List.isEmpty_cons, Bool.false_eq_true, ↓reduceIte]
    cases c <;> simp

theorem componentsGo_joinSep : ∀ (comps : List (List Tok × Span)) (rest : List Tok),
    (∀ c ∈ comps, compOk c.1 = true) →
    componentsGo (joinSep comps rest) none = comps.map (·.1) ++ componentsGo rest none
  | [], _, _ => rfl
  | (c, sp) :: cs, rest, h => by
    have hc := h (c, sp) (by simp)
    simp only [compOk, Bool.and_eq_true, Bool.not_eq_true'] at hc
    simp only [joinSep, componentsGo_run c _ none hc.1.2, hc.1.1, Bool.false_eq_true, ↓reduceIte,
      Option.getD_none, List.nil_append, componentsGo, List.map_cons, List.cons_append,
      componentsGo_joinSep cs rest (fun x hx => h x (List.mem_cons_of_mem _ hx))]

theorem componentsGo_last (cl tail : List Tok) (hc : compOk cl = true) (ht : TailOk tail) :
    (componentsGo (cl ++ tail) none).takeWhile (fun c => !hasBoundaryL c) = [cl] := by
  simp only [compOk, Bool.and_eq_true, Bool.not_eq_true'] at hc
  have hb := hasBoundaryL_of_noBoundaryL cl hc.1.2
  rw [componentsGo_run cl tail none hc.1.2]
  simp only [hc.1.1, Bool.false_eq_true, ↓reduceIte, Option.getD_none, List.nil_append]
  rcases ht with rfl | ⟨sp, r, more, rfl⟩
  · simp [componentsGo, List.takeWhile, hb]
  · simp [componentsGo, List.takeWhile, hb, hasBoundaryL, hasBoundaryT]

theorem takeWhile_append_all {α} (p : α → Bool) : ∀ (xs ys : List α), (∀ x ∈ xs, p x = true) →
    (xs ++ ys).takeWhile p = xs ++ ys.takeWhile p
  | [], _, _ => rfl
  | x :: xs, ys, h => by
    simp only [List.cons_append, List.takeWhile_cons, h x (by simp), ↓reduceIte,
      takeWhile_append_all p xs ys (fun y hy => h y (List.mem_cons_of_mem _ hy))]

/-- **the component programs of `c₁/…/cₖ/c` and `c₁/…/cₖ/c/**…`** are the programs of
    `c₁, …, cₖ, c` -/
theorem walkPrograms_joinSep (sp : Span) (comps : List (List Tok × Span)) (cl tail : List Tok)
    (hcomps : ∀ c ∈ comps, compOk c.1 = true) (hcl : compOk cl = true) (ht : TailOk tail) :
    walkPrograms (.cat sp (joinSep comps (cl ++ tail))) =
      (comps.map (·.1) ++ [cl]).map componentProgram := by
  have hall : ∀ c ∈ comps.map (·.1), (fun c => !hasBoundaryL c) c = true := by
    intro c hc
    obtain ⟨x, hx, rfl⟩ := List.mem_map.mp hc
    have := hcomps x hx
    simp only [compOk, Bool.and_eq_true] at this
    simp [hasBoundaryL_of_noBoundaryL _ this.1.2]
  simp only [walkPrograms, isEmptyGlob, Bool.false_eq_true, ↓reduceIte, globComponents,
    Tok.concatenation, componentsGo_joinSep comps _ hcomps,
    takeWhile_append_all _ _ _ hall, componentsGo_last cl tail hcl ht]

/-- the other shape: after `c₁/…/cₖ/` the glob ends or goes on with a component that has a boundary
    (say an alternative with a separator in a branch): the programs of `c₁, …, cₖ` -/
theorem walkPrograms_joinSep_stop (sp : Span) (comps : List (List Tok × Span)) (rest : List Tok)
    (hcomps : ∀ c ∈ comps, compOk c.1 = true)
    (hrest : (componentsGo rest none).takeWhile (fun c => !hasBoundaryL c) = []) :
    walkPrograms (.cat sp (joinSep comps rest)) = (comps.map (·.1)).map componentProgram := by
  have hall : ∀ c ∈ comps.map (·.1), (fun c => !hasBoundaryL c) c = true := by
    intro c hc
    obtain ⟨x, hx, rfl⟩ := List.mem_map.mp hc
    have := hcomps x hx
    simp only [compOk, Bool.and_eq_true] at this
    simp [hasBoundaryL_of_noBoundaryL _ this.1.2]
  simp only [walkPrograms, isEmptyGlob, Bool.false_eq_true, ↓reduceIte, globComponents,
    Tok.concatenation, componentsGo_joinSep comps _ hcomps,
    takeWhile_append_all _ _ _ hall, hrest, List.append_nil]

/-! ### the compiled programs are sound -/

theorem progsOkL_compiled (σ : Sem) (hdot : σ.dotall = true) (cl tail : List Tok)
    (hcl : compOk cl = true) (ht : TailOk tail) :
    ∀ (comps : List (List Tok × Span)) (f : Bool), (∀ c ∈ comps, compOk c.1 = true) →
      ProgsOkL σ f comps (cl ++ tail) (progFns σ ((comps.map (·.1) ++ [cl]).map componentProgram))
  | [], f, _ => by
    have hc := hcl
    simp only [compOk, Bool.and_eq_true, Bool.not_eq_true', List.isEmpty_eq_false_iff] at hc
    simp only [List.map_nil, List.nil_append, List.map_cons, progFns, ProgsOkL]
    exact ⟨cl, tail, rfl, hc.1.1, hc.1.2, ht,
      fun l n h => componentProgram_accepts σ hdot cl hcl _ n h⟩
  | (c, sp) :: cs, f, h => by
    have hc := h (c, sp) (by simp)
    have hc' := hc
    simp only [compOk, Bool.and_eq_true] at hc'
    have ih := progsOkL_compiled σ hdot cl tail hcl ht cs false
      (fun x hx => h x (List.mem_cons_of_mem _ hx))
    simp only [progFns] at ih
    simp only [List.map_cons, List.cons_append, progFns, ProgsOkL]
    exact ⟨⟨hc'.1.2, fun n hn => componentProgram_accepts σ hdot c hc _ n hn⟩, ih⟩

theorem progsOk_compiled (σ : Sem) (hdot : σ.dotall = true) :
    ∀ (comps : List (List Tok × Span)) (f : Bool), (∀ c ∈ comps, compOk c.1 = true) →
      ProgsOk σ f comps (progFns σ ((comps.map (·.1)).map componentProgram))
  | [], f, _ => by simp [progFns, ProgsOk]
  | (c, sp) :: cs, f, h => by
    have hc := h (c, sp) (by simp)
    have hc' := hc
    simp only [compOk, Bool.and_eq_true] at hc'
    have ih := progsOk_compiled σ hdot cs false (fun x hx => h x (List.mem_cons_of_mem _ hx))
    simp only [progFns] at ih
    simp only [List.map_cons, progFns, ProgsOk]
    exact ⟨⟨hc'.1.2, fun n hn => componentProgram_accepts σ hdot c hc _ n hn⟩, ih⟩

/-- what the crate compiles for the glob `t`, with the pivot of its anchor -/
def compiledProgram (t : Tok) (pivot : Nat) : GlobProgram := ⟨encodeTop t, walkPrograms t, pivot⟩

theorem compiled_complete_iff (σ : Sem) (hdot : σ.dotall = true) (t : Tok) (hF : F01 t = true)
    (pivot : Nat) (w : Str) :
    (compiledProgram t pivot).complete.matchB σ w = true ↔ Spec.Matches σ t w := by
  simp only [compiledProgram]
  rw [matchB_iff]
  exact encode_eq_spec_partial σ hdot t hF w

/-- **the programs the crate compiles are sound**, for a glob `c₁/…/cₖ/c` or `c₁/…/cₖ/c/**…`
    (`k ≥ 0`) whose components are boundary-free, inside the fragment `F01` -/
theorem programsSound_compiled (σ : Sem) (hσ : SepIsolated σ) (hdot : σ.dotall = true)
    (sp : Span) (comps : List (List Tok × Span)) (cl tail : List Tok)
    (hcomps : ∀ c ∈ comps, compOk c.1 = true) (hcl : compOk cl = true) (ht : TailOk tail)
    (hF : F01 (.cat sp (joinSep comps (cl ++ tail))) = true) (pivot : Nat) :
    ProgramsSound σ (compiledProgram (.cat sp (joinSep comps (cl ++ tail))) pivot) := by
  refine programsSound_of_progsOkL σ hσ comps (cl ++ tail) _ ?_ ?_
  · simp only [compiledProgram, walkPrograms_joinSep sp comps cl tail hcomps hcl ht]
    exact progsOkL_compiled σ hdot cl tail hcl ht comps true hcomps
  · intro w
    exact compiled_complete_iff σ hdot _ hF pivot w

/-- ... and for a glob `c₁/…/cₖ/rest` where `rest` is empty or begins with a component that has a
    boundary -/
theorem programsSound_compiled_stop (σ : Sem) (hσ : SepIsolated σ) (hdot : σ.dotall = true)
    (sp : Span) (comps : List (List Tok × Span)) (rest : List Tok)
    (hcomps : ∀ c ∈ comps, compOk c.1 = true)
    (hrest : (componentsGo rest none).takeWhile (fun c => !hasBoundaryL c) = [])
    (hF : F01 (.cat sp (joinSep comps rest)) = true) (pivot : Nat) :
    ProgramsSound σ (compiledProgram (.cat sp (joinSep comps rest)) pivot) := by
  refine programsSound_of_progsOk σ hσ comps rest _ ?_ ?_
  · simp only [compiledProgram, walkPrograms_joinSep_stop sp comps rest hcomps hrest]
    exact progsOk_compiled σ hdot comps true hcomps
  · intro w
    exact compiled_complete_iff σ hdot _ hF pivot w

/-- **C02 for what the crate compiles (pivot 0)**: a walk with the glob `t = c₁/…/cₖ/c[/**…]`
    hands the consumer, below the root, exactly the entries of the whole tree whose root-relative
    path is in the documented language of `t` -/
theorem glob_walk_exact_compiled (σ : Sem) (hσ : SepIsolated σ) (hdot : σ.dotall = true)
    (sp : Span) (comps : List (List Tok × Span)) (cl tail : List Tok)
    (hcomps : ∀ c ∈ comps, compOk c.1 = true) (hcl : compOk cl = true) (ht : TailOk tail)
    (hF : F01 (.cat sp (joinSep comps (cl ++ tail))) = true)
    (root : Str) (cs : List WNode)
    (hroot : allPathsLB (entryFaithful root) [] (toWTList cs) = true) :
    let t : Tok := .cat sp (joinSep comps (cl ++ tail))
    let π := globPipeline σ root (compiledProgram t 0)
    (∀ w, (encodeTop t).matchB σ w = true ↔ Spec.Matches σ t w) ∧
    filtrates π (run 0 none π.cancels (stackSize [⟨[], cs⟩]) [⟨[], cs⟩]) =
      okKept (fun w => !(encodeTop t).matchB σ w) (visitList never [] (toWTList cs)) := by
  intro t π
  refine ⟨fun w => compiled_complete_iff σ hdot t hF 0 w, ?_⟩
  exact glob_walk_filtrates_exact σ (compiledProgram t 0)
    (programsSound_compiled σ hσ hdot sp comps cl tail hcomps hcl ht hF 0) rfl root cs hroot

/-- **C02 for what the crate compiles, with an invariant prefix**: `pre` are the names of the
    prefix (they pass their own component programs: a decidable check), the walk starts in
    `base/prefix` = `root`; the consumer receives exactly the entries below it whose path relative
    to the base is in the documented language of `t` -/
theorem glob_walk_exact_compiled_pivot (σ : Sem) (hσ : SepIsolated σ) (hdot : σ.dotall = true)
    (sp : Span) (comps : List (List Tok × Span)) (cl tail : List Tok)
    (hcomps : ∀ c ∈ comps, compOk c.1 = true) (hcl : compOk cl = true) (ht : TailOk tail)
    (hF : F01 (.cat sp (joinSep comps (cl ++ tail))) = true)
    (pre : List Str) (hpre : goodNames pre = true)
    (hgood : hasBad (progFns σ (walkPrograms (.cat sp (joinSep comps (cl ++ tail))))) pre = false)
    (root : Str) (cs : List WNode)
    (hroot : allPathsLB (entryFaithfulP root pre) [] (toWTList cs) = true) :
    let t : Tok := .cat sp (joinSep comps (cl ++ tail))
    let π := globPipeline σ root (compiledProgram t pre.length)
    (∀ w, (encodeTop t).matchB σ w = true ↔ Spec.Matches σ t w) ∧
    (filtrates π (run 0 none π.cancels (stackSize [⟨[], cs⟩]) [⟨[], cs⟩])).map (shiftE pre) =
      okKept (fun w => !(encodeTop t).matchB σ w) (visitList never pre (toWTList cs)) := by
  intro t π
  refine ⟨fun w => compiled_complete_iff σ hdot t hF 0 w, ?_⟩
  exact glob_walk_filtrates_exact_pivot σ (compiledProgram t pre.length)
    (programsSound_compiled σ hσ hdot sp comps cl tail hcomps hcl ht hF pre.length) pre rfl hpre
    hgood root cs hroot

/-! ### a finding: the root of the walk -/

/-- **the root of a walk is never yielded by a glob with a component program, even when the glob
    matches the empty path**: for `*` the complete program accepts `""` (and so does
    `Glob::is_match`), but at depth 0 the loop finds no candidate for the component program
    (`Right`) and makes the root node residue.  So "an entry that is not tree-discarded is yielded
    iff the complete program matches its relative path" needs the entry to lie below the root. -/
theorem root_not_yielded :
    let t : Tok := .cat ⟨0, 1⟩ [.zom ⟨0, 1⟩ false]
    (compiledProgram t 0).complete.matchB exSem [] = true ∧
    globVerdict exSem (compiledProgram t 0) "r".toList 0 = (.file, []) := by decide

/-! ### an example: `*/b*` walked from `r`, and `a/*/b*/**` walked from base `r` -/

def exComps : List (List Tok × Span) := [([.zom ⟨0, 1⟩ false], ⟨1, 1⟩)]
def exLast : List Tok := [.lit ⟨2, 1⟩ ['b'] false, .zom ⟨3, 1⟩ false]
/-- what `*/b*` parses to -/
def exGlob : Tok := .cat ⟨0, 4⟩ (joinSep exComps (exLast ++ []))

/-- `x/{bb, c, bd/{q -> …}}`, `by`, an unreadable directory `z`, a broken link `w` -/
def exTree : List WNode :=
  [.dir "x".toList [.leaf "bb".toList .f, .leaf "c".toList .f, .dir "bd".toList [.leaf "q".toList .l]],
   .leaf "by".toList .f, .dir "z".toList [.errHere], .errChild "w".toList false]

/-- the hypotheses of `glob_walk_exact_compiled` hold for `*/b*` over this tree from the root `r`,
    and the walk yields `x/bb` and `x/bd` -/
example :
    filtrates (globPipeline exSem "r".toList (compiledProgram exGlob 0))
        (run 0 none (globPipeline exSem "r".toList (compiledProgram exGlob 0)).cancels
          (stackSize [⟨[], exTree⟩]) [⟨[], exTree⟩]) =
      [⟨["x".toList, "bb".toList], false⟩, ⟨["x".toList, "bd".toList], true⟩] := by
  have h := (glob_walk_exact_compiled exSem exSem_sepIsolated rfl ⟨0, 4⟩ exComps exLast []
    (by decide) (by decide) (Or.inl rfl) (by decide) "r".toList exTree (by decide)).2
  exact h.trans (by decide)

def exComps2 : List (List Tok × Span) :=
  [([.lit ⟨0, 1⟩ ['a'] false], ⟨1, 1⟩), ([.zom ⟨2, 1⟩ false], ⟨3, 1⟩)]
def exLast2 : List Tok := [.lit ⟨4, 1⟩ ['b'] false, .zom ⟨5, 1⟩ false]
/-- what `a/*/b*/**` parses to; its anchor for the base `r` is the root `r/a/` with pivot 1 -/
def exGlob2 : Tok := .cat ⟨0, 9⟩ (joinSep exComps2 (exLast2 ++ [.tree ⟨6, 3⟩ true]))

/-- the hypotheses of `glob_walk_exact_compiled_pivot` hold for `a/*/b*/**` over the same tree
    below `r/a/`, and the walk yields `a/x/bb`, `a/x/bd` and `a/x/bd/q` -/
example :
    (filtrates (globPipeline exSem "r/a/".toList (compiledProgram exGlob2 1))
        (run 0 none (globPipeline exSem "r/a/".toList (compiledProgram exGlob2 1)).cancels
          (stackSize [⟨[], exTree⟩]) [⟨[], exTree⟩])).map (shiftE ["a".toList]) =
      [⟨["a".toList, "x".toList, "bb".toList], false⟩, ⟨["a".toList, "x".toList, "bd".toList], true⟩,
       ⟨["a".toList, "x".toList, "bd".toList, "q".toList], false⟩] := by
  have h := (glob_walk_exact_compiled_pivot exSem exSem_sepIsolated rfl ⟨0, 9⟩ exComps2 exLast2
    [.tree ⟨6, 3⟩ true] (by decide) (by decide) (Or.inr ⟨_, _, _, rfl⟩) (by decide)
    ["a".toList] (by decide) (by decide) "r/a/".toList exTree (by decide)).2
  exact h.trans (by decide)

/-- the programs of both globs are sound -/
example : ProgramsSound exSem (compiledProgram exGlob 0) :=
  programsSound_compiled exSem exSem_sepIsolated rfl ⟨0, 4⟩ exComps exLast [] (by decide) (by decide)
    (Or.inl rfl) (by decide) 0

end Wax.Walk
