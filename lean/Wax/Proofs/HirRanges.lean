import Wax.Hir
/-!
The interval sets of `Wax/Hir.lean` (`Ranges.canon`, `negate`, `union`, `inter`) denote what they
should, and their results are in canonical form (non-empty intervals, strictly increasing, never
adjacent).  Used by `Wax/Proofs/HirLang.lean`.
-/
namespace Wax

/-- `n` lies in one of the intervals -/
def Ranges.Mem (n : Nat) (l : Ranges) : Prop := ∃ r ∈ l, r.1 ≤ n ∧ n ≤ r.2

theorem Ranges.mem_nil {n : Nat} : ¬ Ranges.Mem n [] := by
  rintro ⟨r, hr, _⟩; cases hr

theorem Ranges.mem_cons {n : Nat} {x : Nat × Nat} {l : Ranges} :
    Ranges.Mem n (x :: l) ↔ (x.1 ≤ n ∧ n ≤ x.2) ∨ Ranges.Mem n l := by
  constructor
  · rintro ⟨r, hr, h⟩
    cases hr with
    | head => exact Or.inl h
    | tail _ hm => exact Or.inr ⟨r, hm, h⟩
  · rintro (h | ⟨r, hr, h⟩)
    · exact ⟨x, List.mem_cons_self .., h⟩
    · exact ⟨r, List.mem_cons_of_mem _ hr, h⟩

theorem Ranges.mem_append {n : Nat} {a b : Ranges} :
    Ranges.Mem n (a ++ b) ↔ Ranges.Mem n a ∨ Ranges.Mem n b := by
  induction a with
  | nil => simp [Ranges.mem_nil]
  | cons x xs ih => simp only [List.cons_append, Ranges.mem_cons, ih, or_assoc]

/-- sorted by lower end (weakly), every interval non-empty, all lower ends at least `lo` -/
def SNE : Nat → Ranges → Prop
  | _, [] => True
  | lo, x :: xs => lo ≤ x.1 ∧ x.1 ≤ x.2 ∧ SNE x.1 xs

/-- canonical: intervals non-empty, separated by at least one point, lower ends at least `lo` -/
def CanonFrom : Nat → Ranges → Prop
  | _, [] => True
  | lo, x :: xs => lo ≤ x.1 ∧ x.1 ≤ x.2 ∧ CanonFrom (x.2 + 2) xs

theorem SNE.mono : ∀ {l : Ranges} {lo lo' : Nat}, SNE lo l → lo' ≤ lo → SNE lo' l
  | [], _, _, _, _ => trivial
  | _ :: _, _, _, ⟨h1, h2, h3⟩, hle => ⟨Nat.le_trans hle h1, h2, h3⟩

theorem CanonFrom.mono : ∀ {l : Ranges} {lo lo' : Nat}, CanonFrom lo l → lo' ≤ lo → CanonFrom lo' l
  | [], _, _, _, _ => trivial
  | _ :: _, _, _, ⟨h1, h2, h3⟩, hle => ⟨Nat.le_trans hle h1, h2, h3⟩

theorem CanonFrom.le_of_mem : ∀ {l : Ranges} {lo n : Nat}, CanonFrom lo l → Ranges.Mem n l → lo ≤ n
  | [], _, _, _, h => absurd h Ranges.mem_nil
  | x :: xs, lo, n, ⟨h1, h2, h3⟩, h => by
    rcases Ranges.mem_cons.mp h with h | h
    · omega
    · have := CanonFrom.le_of_mem h3 h
      omega

/-! ### `insertRange`, the insertion sort -/

theorem mem_insertRange {n : Nat} (r : Nat × Nat) : ∀ (l : Ranges),
    Ranges.Mem n (insertRange r l) ↔ (r.1 ≤ n ∧ n ≤ r.2) ∨ Ranges.Mem n l
  | [] => by simp [insertRange, Ranges.mem_cons]
  | x :: xs => by
    simp only [insertRange]
    split
    · simp only [Ranges.mem_cons]
    · simp only [Ranges.mem_cons, mem_insertRange r xs]
      constructor
      · rintro (h | h | h)
        · exact Or.inr (Or.inl h)
        · exact Or.inl h
        · exact Or.inr (Or.inr h)
      · rintro (h | h | h)
        · exact Or.inr (Or.inl h)
        · exact Or.inl h
        · exact Or.inr (Or.inr h)

theorem sne_insertRange (r : Nat × Nat) (hr : r.1 ≤ r.2) : ∀ (l : Ranges) (lo : Nat),
    SNE lo l → lo ≤ r.1 → SNE lo (insertRange r l)
  | [], lo, _, hlo => ⟨hlo, hr, trivial⟩
  | x :: xs, lo, ⟨h1, h2, h3⟩, hlo => by
    simp only [insertRange]
    split
    · rename_i hle
      exact ⟨hlo, hr, hle, h2, h3⟩
    · rename_i hle
      exact ⟨h1, h2, sne_insertRange r hr xs x.1 h3 (by omega)⟩

theorem mem_sorted {n : Nat} : ∀ (l : Ranges),
    Ranges.Mem n (l.foldr insertRange []) ↔ Ranges.Mem n l
  | [] => Iff.rfl
  | x :: xs => by
    simp only [List.foldr_cons, mem_insertRange, Ranges.mem_cons, mem_sorted xs]

theorem sne_sorted : ∀ (l : Ranges), (∀ r ∈ l, r.1 ≤ r.2) → SNE 0 (l.foldr insertRange [])
  | [], _ => trivial
  | x :: xs, h => by
    simp only [List.foldr_cons]
    exact sne_insertRange x (h x (List.mem_cons_self ..)) _ 0
      (sne_sorted xs (fun r hr => h r (List.mem_cons_of_mem _ hr))) (Nat.zero_le _)

theorem mem_filter_ne {n : Nat} : ∀ (l : Ranges),
    Ranges.Mem n (l.filter (fun r => r.1 ≤ r.2)) ↔ Ranges.Mem n l
  | [] => Iff.rfl
  | x :: xs => by
    by_cases hx : x.1 ≤ x.2
    · simp only [List.filter_cons, hx, decide_true, if_true, Ranges.mem_cons, mem_filter_ne xs]
    · simp only [List.filter_cons, hx, decide_false, Bool.false_eq_true, if_false, Ranges.mem_cons,
        mem_filter_ne xs]
      constructor
      · exact Or.inr
      · rintro (h | h)
        · omega
        · exact h

/-! ### `mergeSorted` -/

theorem mem_mergeSorted {n : Nat} : ∀ (l : Ranges) (lo : Nat), SNE lo l →
    (Ranges.Mem n (mergeSorted l) ↔ Ranges.Mem n l) := by
  intro l
  fun_induction mergeSorted l with
  | case1 => intro _ _; exact Iff.rfl
  | case2 x => intro _ _; exact Iff.rfl
  | case3 x y rest hle ih =>
    intro lo ⟨h1, h2, h3, h4, h5⟩
    have hs : SNE lo ((x.1, max x.2 y.2) :: rest) := ⟨h1, by simp only; omega, SNE.mono h5 h3⟩
    rw [ih lo hs]
    simp only [Ranges.mem_cons]
    constructor
    · rintro (h | h)
      · by_cases hn : n ≤ x.2
        · exact Or.inl ⟨h.1, hn⟩
        · refine Or.inr (Or.inl ⟨by omega, ?_⟩)
          have : n ≤ max x.2 y.2 := h.2
          omega
      · exact Or.inr (Or.inr h)
    · rintro (h | h | h)
      · exact Or.inl ⟨h.1, (by omega : n ≤ max x.2 y.2)⟩
      · exact Or.inl ⟨(by omega : x.1 ≤ n), (by omega : n ≤ max x.2 y.2)⟩
      · exact Or.inr h
  | case4 x y rest hle ih =>
    intro lo ⟨h1, h2, h3⟩
    simp only [Ranges.mem_cons (x := x), ih x.1 h3]

theorem canon_mergeSorted : ∀ (l : Ranges) (lo : Nat), SNE lo l → CanonFrom lo (mergeSorted l) := by
  intro l
  fun_induction mergeSorted l with
  | case1 => intro _ _; trivial
  | case2 x => intro lo ⟨h1, h2, _⟩; exact ⟨h1, h2, trivial⟩
  | case3 x y rest hle ih =>
    intro lo ⟨h1, h2, h3, h4, h5⟩
    exact ih lo ⟨h1, by simp only; omega, SNE.mono h5 h3⟩
  | case4 x y rest hle ih =>
    intro lo ⟨h1, h2, h3, h4, h5⟩
    exact ⟨h1, h2, ih (x.2 + 2) ⟨by omega, h4, h5⟩⟩

/-! ### `canon`, `union` -/

theorem Ranges.mem_canon {n : Nat} (l : Ranges) : Ranges.Mem n (Ranges.canon l) ↔ Ranges.Mem n l := by
  unfold Ranges.canon
  rw [mem_mergeSorted _ 0 (sne_sorted _ (fun r hr => by simpa using (List.mem_filter.mp hr).2)),
    mem_sorted, mem_filter_ne]

theorem Ranges.canon_canon (l : Ranges) : CanonFrom 0 (Ranges.canon l) := by
  unfold Ranges.canon
  exact canon_mergeSorted _ 0 (sne_sorted _ (fun r hr => by simpa using (List.mem_filter.mp hr).2))

theorem Ranges.mem_union {n : Nat} (a b : Ranges) :
    Ranges.Mem n (Ranges.union a b) ↔ Ranges.Mem n a ∨ Ranges.Mem n b := by
  unfold Ranges.union
  rw [Ranges.mem_canon, Ranges.mem_append]

/-! ### complement -/

/-- every member is a code point -/
def Ranges.Bdd (l : Ranges) : Prop := ∀ n, Ranges.Mem n l → n ≤ maxScalar

theorem Ranges.Bdd.tail {x : Nat × Nat} {l : Ranges} (h : Ranges.Bdd (x :: l)) : Ranges.Bdd l :=
  fun n hn => h n (Ranges.mem_cons.mpr (Or.inr hn))

theorem mem_complFrom {n : Nat} : ∀ (l : Ranges) (lo : Nat), CanonFrom lo l → Ranges.Bdd l →
    (Ranges.Mem n (complFrom lo l) ↔ lo ≤ n ∧ n ≤ maxScalar ∧ ¬ Ranges.Mem n l)
  | [], lo, _, _ => by
    simp only [complFrom]
    split
    · simp only [Ranges.mem_cons, Ranges.mem_nil, or_false, not_false_eq_true, and_true]
    · simp only [Ranges.mem_nil, not_false_eq_true, and_true, false_iff]
      omega
  | x :: xs, lo, ⟨h1, h2, h3⟩, hb => by
    have ih := mem_complFrom (n := n) xs (x.2 + 1) (CanonFrom.mono h3 (by omega)) hb.tail
    have hx1 : x.1 ≤ maxScalar := hb x.1 (Ranges.mem_cons.mpr (Or.inl ⟨Nat.le_refl _, h2⟩))
    have hlater : Ranges.Mem n xs → x.2 + 2 ≤ n := CanonFrom.le_of_mem h3
    simp only [complFrom]
    split
    · rename_i hlt
      simp only [Ranges.mem_cons, ih]
      constructor
      · rintro (⟨ha, hb'⟩ | ⟨ha, hb', hc⟩)
        · refine ⟨ha, by omega, ?_⟩
          rintro (h | h)
          · omega
          · have := hlater h; omega
        · refine ⟨by omega, hb', ?_⟩
          rintro (h | h)
          · omega
          · exact hc h
      · rintro ⟨ha, hb', hc⟩
        by_cases hn : n < x.1
        · exact Or.inl ⟨ha, by omega⟩
        · refine Or.inr ⟨?_, hb', fun h => hc (Or.inr h)⟩
          have : ¬ (x.1 ≤ n ∧ n ≤ x.2) := fun h => hc (Or.inl h)
          omega
    · rename_i hlt
      rw [ih]
      simp only [Ranges.mem_cons]
      constructor
      · rintro ⟨ha, hb', hc⟩
        refine ⟨by omega, hb', ?_⟩
        rintro (h | h)
        · omega
        · exact hc h
      · rintro ⟨ha, hb', hc⟩
        refine ⟨?_, hb', fun h => hc (Or.inr h)⟩
        have : ¬ (x.1 ≤ n ∧ n ≤ x.2) := fun h => hc (Or.inl h)
        omega

theorem canon_complFrom : ∀ (l : Ranges) (lo : Nat), CanonFrom lo l → CanonFrom lo (complFrom lo l)
  | [], lo, _ => by
    simp only [complFrom]
    split
    · rename_i h; exact ⟨Nat.le_refl _, h, trivial⟩
    · trivial
  | x :: xs, lo, ⟨h1, h2, h3⟩ => by
    have ih := canon_complFrom xs (x.2 + 1) (CanonFrom.mono h3 (by omega))
    simp only [complFrom]
    split
    · rename_i hlt
      exact ⟨Nat.le_refl _, by simp only; omega, CanonFrom.mono ih (by simp only; omega)⟩
    · exact CanonFrom.mono ih (by omega)

theorem Ranges.bdd_canon {l : Ranges} (h : Ranges.Bdd l) : Ranges.Bdd (Ranges.canon l) :=
  fun n hn => h n ((Ranges.mem_canon l).mp hn)

theorem Ranges.mem_negate {n : Nat} {a : Ranges} (h : Ranges.Bdd a) :
    Ranges.Mem n (Ranges.negate a) ↔ n ≤ maxScalar ∧ ¬ Ranges.Mem n a := by
  unfold Ranges.negate
  rw [mem_complFrom _ 0 (Ranges.canon_canon a) (Ranges.bdd_canon h), Ranges.mem_canon]
  simp

theorem Ranges.canon_negate (a : Ranges) : CanonFrom 0 (Ranges.negate a) :=
  canon_complFrom _ 0 (Ranges.canon_canon a)

theorem Ranges.bdd_negate {a : Ranges} (h : Ranges.Bdd a) : Ranges.Bdd (Ranges.negate a) :=
  fun _ hn => ((Ranges.mem_negate h).mp hn).1

theorem Ranges.bdd_union {a b : Ranges} (ha : Ranges.Bdd a) (hb : Ranges.Bdd b) : Ranges.Bdd (Ranges.union a b) := by
  intro n hn
  rcases (Ranges.mem_union a b).mp hn with h | h
  · exact ha n h
  · exact hb n h

theorem Ranges.mem_inter {n : Nat} {a b : Ranges} (ha : Ranges.Bdd a) (hb : Ranges.Bdd b) :
    Ranges.Mem n (Ranges.inter a b) ↔ Ranges.Mem n a ∧ Ranges.Mem n b := by
  unfold Ranges.inter
  rw [Ranges.mem_negate (Ranges.bdd_union (Ranges.bdd_negate ha) (Ranges.bdd_negate hb)),
    Ranges.mem_union, Ranges.mem_negate ha, Ranges.mem_negate hb]
  constructor
  · rintro ⟨h1, h2⟩
    constructor
    · apply Classical.byContradiction
      intro h; exact h2 (Or.inl ⟨h1, h⟩)
    · apply Classical.byContradiction
      intro h; exact h2 (Or.inr ⟨h1, h⟩)
  · rintro ⟨h1, h2⟩
    refine ⟨ha n h1, ?_⟩
    rintro (⟨_, h⟩ | ⟨_, h⟩)
    · exact h h1
    · exact h h2

theorem Ranges.canon_inter (a b : Ranges) : CanonFrom 0 (Ranges.inter a b) := Ranges.canon_negate _

/-! ### a canonical set that is neither empty nor a single point has two members -/

def Ranges.TwoMem (l : Ranges) : Prop := ∃ n m, n ≠ m ∧ Ranges.Mem n l ∧ Ranges.Mem m l

theorem CanonFrom.twoMem {lo : Nat} : ∀ {l : Ranges}, CanonFrom lo l → l ≠ [] → (∀ a, l ≠ [(a, a)]) →
    Ranges.TwoMem l
  | [], _, h, _ => absurd rfl h
  | [(a, b)], ⟨_, h2, _⟩, _, h => by
    have hab : a ≠ b := fun e => h a (by rw [e])
    simp only at h2
    exact ⟨a, b, hab, Ranges.mem_cons.mpr (Or.inl ⟨Nat.le_refl _, h2⟩),
      Ranges.mem_cons.mpr (Or.inl ⟨h2, Nat.le_refl _⟩)⟩
  | x :: y :: rest, ⟨_, h2, h3, h4, _⟩, _, _ => by
    refine ⟨x.1, y.1, by omega, Ranges.mem_cons.mpr (Or.inl ⟨Nat.le_refl _, h2⟩), ?_⟩
    exact Ranges.mem_cons.mpr (Or.inr (Ranges.mem_cons.mpr (Or.inl ⟨Nat.le_refl _, h4⟩)))

theorem Ranges.mem_single {n a b : Nat} : Ranges.Mem n [(a, b)] ↔ a ≤ n ∧ n ≤ b := by
  simp [Ranges.mem_cons, Ranges.mem_nil]

end Wax
